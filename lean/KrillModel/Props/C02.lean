/-
C02 — Delegation follows entitlements, never over-claims, converges and is idempotent.
Property theorems only; helper lemmas live in `KrillModel/Ca/Lemmas*.lean`.
-/
import KrillModel.Ca.Preds
import KrillModel.Ca.Witnesses
import KrillModel.Ca.LemmasNoOver
import KrillModel.Ca.LemmasKeySync
import KrillModel.Ca.LemmasShrink
import KrillModel.Ca.LemmasTidyReach
import KrillModel.Ca.Exchange
import KrillModel.Ca.ExchangeLemmas
import KrillModel.Ca.ExchangePinned
import KrillModel.Ca.ExchangeRollConv
namespace KM.Props.C02
open KM KM.CaK KM.Res KM.AMap

/-! ## Issued certificates are exactly limit(issuer ∩ entitlement) -/

/-- `issue_cert`: the certificate carries the issuer's current resources intersected with the
child's entitlement, narrowed to the limit if one was requested, and lies inside the issuer's
certificate. -/
theorem issued_exact (ks : KeyState) (childRes : ResSet) (l : Limit) (na : Int) (cc : ChildCert)
    (h : issueCert ks childRes l na = .ok cc) :
    ∃ c, ks.current = some c ∧
      cc.res = (match l with | none => inter c.cert.res childRes | some lim => lim) ∧
      subset cc.res (inter c.cert.res childRes) = true ∧
      subset cc.res c.cert.res = true ∧ subset cc.res childRes = true := by
  unfold issueCert at h
  cases hc : ks.current with
  | none => rw [hc] at h; cases h
  | some c =>
    rw [hc] at h
    refine ⟨c, rfl, ?_⟩
    simp only [makeIssued] at h
    cases l with
    | none =>
      simp only [applyLimit] at h
      split at h
      · cases h
        exact ⟨rfl, subset_refl _, inter_subset_left _ _, inter_subset_right _ _⟩
      · cases h
    | some lim =>
      simp only [applyLimit] at h
      by_cases hl : subset lim (inter c.cert.res childRes) = true
      · simp only [hl, if_true] at h
        split at h
        · cases h
          exact ⟨rfl, hl, subset_trans hl (inter_subset_left _ _), subset_trans hl (inter_subset_right _ _)⟩
        · cases h
      · simp only [hl] at h
        cases h

/-- Non-vacuity: a partial overlap with and without a limit. -/
example :
    issueCert (.active ⟨1, { res := [1, 2, 3] }, false⟩) [2, 3, 4] none 0 = .ok { res := [2, 3] } ∧
    issueCert (.active ⟨1, { res := [1, 2, 3] }, false⟩) [2, 3, 4] (some [3]) 0 =
      .ok { res := [3], limit := some [3] } := by decide

/-! ## No issued certificate ever exceeds the issuing key's certificate -/

/-- Invariant over all histories (any commands, any inputs, any interleaving of entitlement
changes, key rolls, suspension, unsuspension, revocation): in every reachable state every child
certificate in `issued` of a class has resources inside the certificate of the class's current
key – the key that issued it and publishes it. -/
theorem never_overclaims {s : Sys} (h : Reachable s) : s.ca.noOverclaim = true := by
  have hno := reachable_noOver h
  simp only [Ca.noOverclaim, List.all_eq_true]
  intro r _
  cases hg : get s.ca.classes r with
  | none => rfl
  | some rc =>
    have := hno r rc hg
    simp only [Rc.noOverclaim]
    unfold NoOver at this
    cases hc : rc.keys.current with
    | none =>
      rw [hc] at this
      simp only [List.isEmpty_iff]
      cases hi : rc.certs.issued with
      | nil => rfl
      | cons p t =>
        have h1 := this p.1
        rw [hi] at h1
        obtain ⟨k, v⟩ := p
        simp [get_cons] at h1
    | some c =>
      rw [hc] at this
      simp only [List.all_eq_true]
      intro k _
      cases hk : get rc.certs.issued k with
      | none => rfl
      | some cc => exact this k cc hk

/-- In particular a received certificate with fewer resources: the **same command** that stores
`CertificateReceived` carries the `ChildCertificatesUpdated` that re-issues the over-claiming
child certificates with the intersection or removes them – the state after the command, which
is what gets published, has no over-claiming certificate. -/
theorem shrink_in_same_command {s : Sys} (h : Reachable s) (rcn : Rcn) (ki : KeyId) (cert : Cert)
    (na : Int) (prods : List ProdUpd) :
    (s.next (.updateRcvdCert rcn ki cert na prods)).ca.noOverclaim = true :=
  never_overclaims (Reachable.step _ h)

/-- The same for key activation: after the command that stores `KeyRollActivated` every issued
certificate lies inside the **new** key's certificate. -/
theorem activation_keeps_containment {s : Sys} (h : Reachable s) (na : Int) :
    (s.next (.keyrollActivate na)).ca.noOverclaim = true :=
  never_overclaims (Reachable.step _ h)


example :
    (match (Sys.run {} shrinkHistory).exec (.updateRcvdCert 0 4 { res := [1], na := 100 } 70 []) with
      | .stored evs s' =>
        evs == [.key 0 (.received 4 { res := [1], na := 100 }),
                .childCerts 0 { issued := [(6, { res := [1], na := 70 })], removed := [5] }] &&
        (get s'.ca.classes 0).map (·.certs.issued) == some [(6, { res := [1], na := 70 })]
      | _ => false) = true := by decide

/-! ## Active children keep their certificate, whatever the suspension history -/

/-- In every reachable state, in every class, the issued and the suspended map have pairwise
different keys and no key is in both (no stale suspended entry): since fix bb96d233
`add_issued_certificate` removes the suspended entry of the key it issues for.  On the pinned
tree this failed after suspend → unsuspend (`pinned_add_issued_leaves_stale_entry`). -/
theorem classes_tidy {s : Sys} (h : Reachable s) (rcn : Rcn) (rc : Rc) (hg : get s.ca.classes rcn = some rc) :
    (keys rc.certs.issued).Nodup ∧ (keys rc.certs.suspended).Nodup ∧ rc.noStale = true := by
  have ht : TidyC rc.certs := reachable_tidy h rcn rc hg
  refine ⟨ht.ndI, ht.ndS, ?_⟩
  simp only [Rc.noStale, List.all_eq_true]
  intro p hp
  have hs : (get rc.certs.issued p.1).isSome = true := get_isSome_iff_mem_keys.mpr (List.mem_map.mpr ⟨p, hp, rfl⟩)
  simp [ht.disj p.1 hs]

/-- The class-level core: in a class without stale suspended entries (no key both issued and
suspended; keys of `issued` pairwise different, as in a `HashMap`), the update computed by
`shrink_overclaiming` leaves every issued child certificate untouched if it still fits,
re-issued with the intersection if the intersection is not empty, removed if nothing is left. -/
theorem shrink_exact_in_tidy_class (rc : Rc) (hnd : (keys rc.certs.issued).Nodup) (hns : rc.noStale = true)
    (cert : Cert) (na : Int) (upd : CertUpd) (hsh : rc.certs.shrinkOverclaiming cert na = .ok upd)
    (k : KeyId) (cc : ChildCert) (hk : get rc.certs.issued k = some cc) :
    (subset cc.res cert.res = true → get (rc.certs.applyUpd upd).issued k = some cc) ∧
    (subset cc.res cert.res = false → isEmpty (inter cert.res cc.res) = true →
      get (rc.certs.applyUpd upd).issued k = none ∧ k ∈ upd.removed) ∧
    (subset cc.res cert.res = false → isEmpty (inter cert.res cc.res) = false →
      ∃ cc', get (rc.certs.applyUpd upd).issued k = some cc' ∧
        reissue cc (some (inter cert.res cc.res)) cert na = .ok cc' ∧
        (cc.limit = none → cc'.res = inter cert.res cc.res)) := by
  unfold ChildCerts.shrinkOverclaiming at hsh
  cases h1 : shrinkList rc.certs.issued cert na with
  | error e => simp [h1] at hsh
  | ok pr1 =>
    obtain ⟨iss, rem1⟩ := pr1
    simp only [h1] at hsh
    cases h2 : shrinkList rc.certs.suspended cert na with
    | error e => simp [h2] at hsh
    | ok pr2 =>
      obtain ⟨sus, rem2⟩ := pr2
      simp only [h2, Except.ok.injEq] at hsh; subst hsh
      -- the key has no suspended entry, so the second loop does not mention it
      have hnosus : get rc.certs.suspended k = none := by
        simp only [Rc.noStale, List.all_eq_true] at hns
        have := hns (k, cc) (mem_of_get hk)
        simpa using this
      have hnk : k ∉ keys rc.certs.suspended := fun hm => by
        have := get_isSome_iff_mem_keys.mpr hm
        rw [hnosus] at this; cases this
      obtain ⟨_, _, hsub2⟩ := shrinkList_spec h2
      have hk_sus : k ∉ sus.map (·.1) := fun hm => hnk (hsub2 k (Or.inr hm))
      have hk_rem2 : k ∉ rem2 := fun hm => hnk (hsub2 k (Or.inl hm))
      obtain ⟨ha, hb, hc⟩ := shrinkList_exact hnd h1 (k, cc) (mem_of_get hk)
      have hget := applyUpd_issued_get rc.certs { issued := iss, removed := rem1 ++ rem2, suspended := sus } rfl k
      simp only [hk_sus, if_false, List.mem_append, hk_rem2, or_false] at hget
      refine ⟨?_, ?_, ?_⟩
      · intro hs
        obtain ⟨hl, hr⟩ := ha hs
        rw [hget]; simp [hr, hl, hk]
      · intro hs he
        obtain ⟨_, hr⟩ := hb hs he
        rw [hget]
        exact ⟨by simp [hr], List.mem_append_left _ hr⟩
      · intro hs he
        obtain ⟨cc', hl, hre, hr⟩ := hc hs he
        refine ⟨cc', ?_, hre, ?_⟩
        · rw [hget]; simp [hr, hl]
        · intro hlim
          simp only [reissue, makeIssued, hlim, applyLimit, Option.getD_some] at hre
          split at hre
          · cases hre; rfl
          · cases hre

/-- Non-vacuity: three children – one fits, one is narrowed, one loses everything. -/
example :
    let rc : Rc := Rc.mk 9 0 (.active ⟨4, { res := [1, 2, 3] }, false⟩)
      ⟨[(5, { res := [1] }), (6, { res := [1, 2] }), (7, { res := [3] })], []⟩ []
    (keys rc.certs.issued).Nodup ∧ rc.noStale = true ∧
    rc.certs.shrinkOverclaiming { res := [1] } 9 =
      .ok { issued := [(6, { res := [1], na := 9 })], removed := [7] } ∧
    (rc.certs.applyUpd { issued := [(6, { res := [1], na := 9 })], removed := [7] }).issued =
      [(6, { res := [1], na := 9 }), (5, { res := [1] })] := by decide


/-- `shrink_active_child` (full, since fix bb96d233): in **every** reachable state – whatever the
suspension history of the children – in every class, the command that receives a smaller
certificate leaves each issued child certificate untouched if it still fits, replaces it in
`issued` by one with the intersection if that is not empty, and removes it only if nothing is
left.  (The listener publishes the same update in the same command: `shrink_in_same_command`;
that the published set equals `issued` is C01's `objects_mirror`.) -/
theorem shrink_active_child {s : Sys} (h : Reachable s) (rcn : Rcn) (rc : Rc)
    (hg : get s.ca.classes rcn = some rc)
    (cert : Cert) (na : Int) (upd : CertUpd) (hsh : rc.certs.shrinkOverclaiming cert na = .ok upd)
    (k : KeyId) (cc : ChildCert) (hk : get rc.certs.issued k = some cc) :
    (subset cc.res cert.res = true → get (rc.certs.applyUpd upd).issued k = some cc) ∧
    (subset cc.res cert.res = false → isEmpty (inter cert.res cc.res) = true →
      get (rc.certs.applyUpd upd).issued k = none ∧ k ∈ upd.removed) ∧
    (subset cc.res cert.res = false → isEmpty (inter cert.res cc.res) = false →
      ∃ cc', get (rc.certs.applyUpd upd).issued k = some cc' ∧
        reissue cc (some (inter cert.res cc.res)) cert na = .ok cc' ∧
        (cc.limit = none → cc'.res = inter cert.res cc.res)) :=
  let ⟨hnd, _, hns⟩ := classes_tidy h rcn rc hg
  shrink_exact_in_tidy_class rc hnd hns cert na upd hsh k cc hk

/-- The F-C02-1 history (suspend → unsuspend → shrink) on the fixed tree: the unsuspended child
keeps a certificate, narrowed to what the class still holds, issued and published; nothing is
left in `suspended`. -/
example :
    let s := Sys.run {} staleHistory
    s.ca.activeChildHasCert = true ∧
    (get s.ca.children 7).map (·.active) = some true ∧
    (get s.ca.classes 0).map (·.certs.issued) = some [(6, { res := [1], na := 62 })] ∧
    (get s.ca.classes 0).map (·.certs.suspended) = some [] ∧
    (get s.objs 0).map (·.currentSet.published) = some [(.cer 6, .cert { res := [1], na := 62 })] := by decide

/-- Counter-model of the pinned tree (before bb96d233): `add_issued_certificate` was
`issued.insert` only, so suspend → unsuspend left key 6 in both maps. -/
theorem pinned_add_issued_leaves_stale_entry :
    let cc : ChildCert := { res := [1, 2], na := 60 }
    let cs := (({} : ChildCerts).addIssued (6, cc)).suspend (6, cc)
    (cs.pinnedAddIssued (6, { cc with na := 61 })).suspended = [(6, cc)] ∧
    (cs.addIssued (6, { cc with na := 61 })).suspended = [] := by decide

/-- Counter-model of the pinned tree (F-C02-1): from the stale state the next shrink re-issued
the stale entry as *suspended* and `suspend_certificate` removed the active child's certificate
from `issued` – the negation of `shrink_active_child` there (replayed on the pinned tree by
corpus/system/c02-suspend-unsuspend-shrink.ops, which now must pass). -/
theorem pinned_shrink_withdraws_active_child :
    let stale : ChildCerts := { issued := [(6, { res := [1, 2], na := 61 })], suspended := [(6, { res := [1, 2], na := 60 })] }
    (match stale.shrinkOverclaiming { res := [1], na := 100 } 62 with
      | .ok upd => get (stale.pinnedApplyUpd upd).issued 6 == none &&
          (get (stale.pinnedApplyUpd upd).suspended 6).isSome
      | .error _ => false) = true := by decide

/-- The state-level predicate the oracle evaluates (`ActiveChildHasCert`: every key in use by an
active child is issued in its class) additionally needs that no two children present the same
key: in the model a second child certifying the first child's key and then being suspended
takes the shared certificate with it.  Not reachable with the system harness (child keys are
generated by the child CAs). -/
example :
    (Sys.run {} [ .repoUpdate [], .addParent 9,
      .updateEntitlements 9 [⟨0, [1, 2, 3], 100, []⟩] 0 [4],
      .updateRcvdCert 0 4 { res := [1, 2, 3], na := 100 } 50 [],
      .childAdd 7 [1, 2], .childAdd 8 [1, 2],
      .childCertify 7 0 6 none 60, .childCertify 8 0 6 none 60,
      .childSuspend 8 ]).ca.activeChildHasCert = false := by decide

/-! ## The published level -/

/-
`never_overclaims` above is about the aggregate's `issued` map – what the CA believes it
publishes.  The published set agrees with it as long as the listener's object set mirrors the
aggregate (C01's `objects_mirror`; here the oracle `NoOverclaimPublished` evaluates it on the
implementation's own object sets after every operation).  On the pinned tree F-C02-1 broke the
mirror; the counter-model is kept below.
-/

/-- Counter-model of the pinned tree (F-C02-1, second consequence): from a stale state
`shrink_overclaiming` can name a key in `issued` **and** in `removed` (live certificate
re-issued, stale suspended entry shrunk to nothing); `CertAuth::apply` inserts then removes,
`KeyObjectSet::update_certs` removes then inserts – the re-issued certificate stayed published
as an orphan the CA no longer tracked (replayed on the pinned tree by
corpus/system/c02-stale-orphan-published.ops, which now must pass). -/
theorem pinned_shrink_orphans_certificate :
    let stale : ChildCerts := { issued := [(6, { res := [1, 2, 3], na := 62 })], suspended := [(6, { res := [1, 2], na := 60 })] }
    let os : ObjSet := { key := 4, cert := { res := [1, 2, 3], na := 100 }, published := [(.cer 6, .cert { res := [1, 2, 3], na := 62 })] }
    (match stale.shrinkOverclaiming { res := [3], na := 100 } 63 with
      | .ok upd => decide (6 ∈ upd.issued.map (·.1)) && decide (6 ∈ upd.removed) &&
          (get (stale.pinnedApplyUpd upd).issued 6 == none) &&
          (get (os.updateCerts upd).published (.cer 6) == some (.cert { res := [3], na := 63 }))
      | .error _ => false) = true := by decide

/-- The same history on the fixed tree: what is published is what is issued, inside the
certificate. -/
example :
    let s := Sys.run {} orphanHistory
    s.noOverclaimPublished = true ∧ s.ca.noOverclaim = true ∧ s.ca.activeChildHasCert = true ∧
    (get s.ca.classes 0).map (·.certs.issued) = some [] ∧
    (get s.objs 0).map (fun ok => (ok.currentSet.cert.res, ok.currentSet.published)) = some ([2], []) := by decide

/-! ## Synchronisation converges and is then idempotent -/

/-- A converged child: the sync round takes the "fetch entitlements" branch
(`has_pending_requests` is false) and `UpdateEntitlements` emits **no event** – nothing is
stored, the command history does not grow, the state is what it was.  For every state (reachable
or not), every parent, every list. -/
theorem sync_idempotent (s : Sys) (p : Handle) (ents : List Entitlement) (now : Int) (fresh : List KeyId)
    (hrepo : s.ca.hasRepo = true) (hc : s.ca.convergedB p ents now = true) :
    s.ca.hasPendingRequests p = false ∧
    s.ca.process (.updateEntitlements p ents now fresh) = .ok [] ∧
    s.next (.updateEntitlements p ents now fresh) = s := by
  simp only [Ca.convergedB, Bool.and_eq_true, Bool.not_eq_true', List.all_eq_true, Bool.or_eq_true,
    decide_eq_true_eq] at hc
  obtain ⟨⟨hpend, hlisted⟩, hquiet⟩ := hc
  -- no class is removed
  have hrem : (s.ca.classes.filter fun q =>
      decide (q.2.parent = p ∧ (!(ents.map (·.rcn)).contains q.2.parentRcn) = true)) = [] := by
    apply List.filter_eq_nil_iff.mpr
    intro q hq
    simp only [decide_eq_true_eq, not_and, Bool.not_eq_true', Bool.not_eq_false]
    intro hpar
    rcases hlisted q hq with h | h
    · simp [hpar] at h
    · exact h
  -- the loop emits nothing
  have hloop : ∀ (l : List Entitlement) (next : Nat), (∀ ent ∈ l, ent ∈ ents) →
      entitlementLoop s.ca p now l next fresh = .ok [] := by
    intro l
    induction l with
    | nil => intro _ _; rfl
    | cons ent l ih =>
      intro next hl
      have hq := hquiet ent (hl ent (List.mem_cons_self ..))
      simp only [entitlementLoop]
      cases hf : s.ca.findParentRc p ent.rcn with
      | none => simp [hf] at hq
      | some q =>
        obtain ⟨rcn, rc⟩ := q
        simp only [hf, List.isEmpty_iff] at hq
        simp only [hrepo, Bool.not_true, Bool.false_eq_true, if_false,
          ih next (fun e he => hl e (List.mem_cons_of_mem _ he)), hq, List.map_nil, List.nil_append]
  have hproc : s.ca.process (.updateEntitlements p ents now fresh) = .ok [] := by
    simp only [Ca.process, hloop ents s.ca.nextClass (fun _ h => h), hrem, List.map_nil, List.nil_append]
  refine ⟨hpend, hproc, ?_⟩
  simp [Sys.next, Sys.exec, hproc, Ca.applyAll, Objs.stepAll]

/-- When does a class create no event for its entitlement: exactly when no key wants an update
and every listed key is known (here for the single-key state). -/
theorem active_quiet_iff (c : CertKey) (ent : Entitlement) (now : Int) :
    (KeyState.active c).entitlementEvents ent now = [] ↔
      c.wantsUpdate ent.res ent.na now = false ∧ ∀ k ∈ ent.issued, k = c.id := by
  simp only [KeyState.entitlementEvents, KeyState.requestKeys, List.append_eq_nil_iff, List.map_eq_nil_iff,
    List.filter_eq_nil_iff, KeyState.knows, KeyState.keyIds]
  constructor
  · rintro ⟨h1, h2⟩
    refine ⟨?_, ?_⟩
    · cases hw : c.wantsUpdate ent.res ent.na now
      · rfl
      · simp [hw] at h1
    · intro k hk
      have := h2 k hk
      simpa using this
  · rintro ⟨h1, h2⟩
    refine ⟨by simp [h1], ?_⟩
    intro k hk
    simp [h2 k hk]

/-- A key that does not want an update holds exactly the entitled resources. -/
theorem not_wants_exact (c : CertKey) (res : ResSet) (na now : Int)
    (h : c.wantsUpdate res na now = false) : seteq res c.cert.res = true := by
  unfold CertKey.wantsUpdate at h
  by_cases hs : c.cert.slash = true
  · simp only [hs, Bool.not_true, Bool.false_eq_true, if_false] at h
    by_cases he : seteq res c.cert.res = true
    · exact he
    · simp [he] at h
  · simp [hs] at h

/-
Full statement: from any reachable parent/child pair with fixed `now`, ≤ 3 rounds of
`syncParent` per level leave one current certificate per entitled class with exactly the
entitled resources and no open requests; a further round emits no events.

Proved (`sync_converges_partial`): the statement for one class's key-state machine
(`Ca/KeySync.lean`) against a parent that answers every request with a certificate for the
offered resources – from **every** well-formed key state, including every stage of a key roll
and the `RollOld` arm of `append_entitlement_events`.  `sync_idempotent` above is the
unrestricted `Sys`-level statement of the last sentence.  The exchange between two real
aggregates is `Ca/Exchange.lean`; on it `exchange_idempotent` (below) is proved for every pair,
and convergence is proved for concrete pairs covering each kind of entitlement change
(`exchange_converges_instances`).  For an ARBITRARY reachable pair the statement is FALSE as it
stands: `sync_stuck_with_request_for_lost_class` (H, replayed on the real code: F-C02-4, open),
`sync_misses_parent_side_reissue` (G) and `names_clash_when_class_is_added_after_mapping` (below)
are reachable pairs on which `Pair.sync` never converges / whose names clash.  Two more were
defects of the code, replayed and repaired (the models follow the fixed code, the old behaviour
is kept as `pinned_sync_stuck_after_parent_side_revocation` – F-C02-2, fix 7be8c4c6 – and
`pinned_sync_alternates_with_non_injective_mapping` – F-C02-3, fix 02d8de59); one was an error of
the model (`sync_converges_with_request_limit`).  Proved for EVERY reachable pair that
satisfies a decidable coupling (each conjunct excludes one of those pairs) and whose open
certificate requests the parent can answer (`pendingAnswerable`, needed only by the theorems
that start with requests to send):
`exchange_converges_quiet` (2 syncs when there is nothing to send) and
`exchange_converges_partial` (3 syncs) for pairs without a key roll of the child in progress
(`Pair.coupled`), `exchange_converges` (sync, sync, sync, activate, sync) for pairs with a key
roll in ANY stage in any classes (`Pair.coupledRoll`); the `Sys`-level simulation of
`Pair.sync` class by class – every class makes `KeyState.syncStep` or is untouched – is
`syncR_spec` / `syncE_spec` (`Ca/ExchangeLemmas.lean`) and `syncR2_spec` / `syncE2_spec` /
`activate_spec` (`Ca/ExchangeRoll*.lean`).  Still missing: hierarchies of more than two levels
(composed by the lock-step run only); the parent's not-after rule is an input (`na`) of the
model, the same for every class; in `exchange_converges` the child has no suspended child
certificates and no other parent's class is waiting for its activation.
-/

/-- From every well-formed key state: two rounds of (sync, activate, sync) and two more syncs
leave the class `Active` with a single key, no open request, and a certificate for exactly the
offered resources; a further sync or activation changes nothing. -/
theorem sync_converges_partial (ks : KeyState) (hwf : ks.wf = true) (o : Offer) (now : Int) :
    ∃ c, (((ks.round o now).round o now).syncStep o now).syncStep o now = .active c ∧
      c.req = false ∧ seteq o.res c.cert.res = true ∧
      (KeyState.active c).syncStep o now = .active c ∧ (KeyState.active c).activateStep = .active c := by
  obtain ⟨h1, hwf1⟩ := abs_round hwf o now
  obtain ⟨h2, hwf2⟩ := abs_round hwf1 o now
  have hwf3 := wf_syncStep hwf2 o now
  -- the abstract run ends quiet
  have hq : (((ks.abs o now).round.round).syncStep.syncStep).quiet = true := by
    generalize ks.abs o now = a
    cases a with
    | pending r => cases r <;> decide
    | active c => obtain ⟨r, w⟩ := c; cases r <;> cases w <;> decide
    | rollPending pr c => obtain ⟨r, w⟩ := c; cases pr <;> cases r <;> cases w <;> decide
    | rollNew n c =>
      obtain ⟨r, w⟩ := c; obtain ⟨r2, w2⟩ := n
      cases r <;> cases w <;> cases r2 <;> cases w2 <;> decide
    | rollOld c oreq owant =>
      obtain ⟨r, w⟩ := c
      cases r <;> cases w <;> cases oreq <;> cases owant <;> decide
  rw [← h1, ← h2, ← abs_syncStep hwf2, ← abs_syncStep hwf3] at hq
  generalize (((ks.round o now).round o now).syncStep o now).syncStep o now = fin at hq ⊢
  cases fin with
  | active c =>
    obtain ⟨cid, ccert, creq⟩ := c
    simp only [KeyState.abs, AState.quiet, CertKey.abs, Bool.and_eq_true, Bool.not_eq_true'] at hq
    obtain ⟨hreq, hwant⟩ := hq
    subst hreq
    refine ⟨_, rfl, rfl, not_wants_exact _ _ _ _ hwant, ?_, rfl⟩
    simp [KeyState.syncStep, KeyState.hasPending, KeyState.certRequests, KeyState.revokeRequest,
      KeyState.requestKeys, Offer.ent, hwant]
  | pending _ => simp [KeyState.abs, AState.quiet] at hq
  | rollPending _ _ => simp [KeyState.abs, AState.quiet] at hq
  | rollNew _ _ => simp [KeyState.abs, AState.quiet] at hq
  | rollOld _ _ => simp [KeyState.abs, AState.quiet] at hq

/-- Non-vacuity: the `RollOld` arm – the *old* key wants an update, the request is made for the
current key, and the class still converges. -/
example :
    let ks : KeyState := .rollOld ⟨2, { res := [1, 2], na := 1000 }, false⟩ ⟨1, { res := [1, 2, 3], na := 1000 }, false⟩
    let o : Offer := ⟨[1, 2], 1000⟩
    ks.wf = true ∧ ks.requestKeys o.ent 0 = [2] ∧
    (((ks.round o 0).round o 0).syncStep o 0).syncStep o 0 = .active ⟨2, o.cert, false⟩ := by decide

/-- Non-vacuity of `sync_idempotent`: a converged single-class child. -/
example :
    (Sys.run {} [.repoUpdate [], .addParent 9,
      .updateEntitlements 9 [⟨0, [1, 2], 100, []⟩] 0 [4],
      .updateRcvdCert 0 4 { res := [1, 2], na := 100 } 50 []]).ca.convergedB 9 [⟨0, [1, 2], 100, [4]⟩] 0 = true := by
  decide

/-! ## The exchange between two aggregates

`Ca/Exchange.lean`: `Pair.sync` is one `ca_sync_parent` of the child against the parent's `list`,
`issue` and `revoke`, built from the real commands of both aggregates (each with its published
object sets), for any number of classes, class-name mappings and key states. -/

/-- `sync_idempotent` on the pair, unbounded: once the child has converged on the parent's list
(`convergedB`: nothing to send, every class listed, no key wants an update) a further sync
changes **neither** aggregate – no command is stored on either side.  For every pair of states. -/
theorem exchange_idempotent (x : Pair) (now na : Int) (fresh : List KeyId)
    (hrepo : x.child.ca.hasRepo = true)
    (hc : x.child.ca.convergedB x.ph (x.parent.ca.entitlementsFor x.ch na) now = true) :
    x.sync now na fresh = x := by
  obtain ⟨hpend, _, hnext⟩ := sync_idempotent x.child x.ph (x.parent.ca.entitlementsFor x.ch na) now fresh hrepo hc
  unfold Pair.sync
  simp only [hpend, Bool.false_eq_true, if_false, hnext]

/-- `sync_converges` on the pair, for every kind of entitlement change of the property text, on
concrete pairs (bounded instances, evaluated by the kernel): first delegation, shrink to a
partial overlap, shrink to nothing (the parent itself loses the resources: the class is dropped
in one sync), regain, two classes at once, a class-name mapping, and a key roll of the child
(request, activation, revocation).  In each case the stated number of syncs ends `converged`
(one `Active` class per entitlement with exactly the entitled resources, no open request, the
parent's issued certificate equal to it) and the next sync changes nothing on either side. -/
theorem exchange_converges_instances :
    -- first delegation: two syncs (entitlements → request; request → certificate)
    (xStart.converged 900 = false ∧ xConv.converged 900 = true ∧ xConv.sync 10 900 [] = xConv) ∧
    -- shrink to a partial overlap: two syncs
    (xShrunk.converged 900 = false ∧ (xShrunk.syncs 10 900 [[], []]).converged 900 = true ∧
      (xShrunk.syncs 10 900 [[], [], []]) = xShrunk.syncs 10 900 [[], []]) ∧
    -- shrink to nothing: one sync removes the class
    (xNothing.converged 900 = false ∧ (xNothing.syncs 10 900 [[]]).converged 900 = true ∧
      (xNothing.syncs 10 900 [[]]).child.ca.classes = [] ∧
      (xNothing.syncs 10 900 [[], []]) = xNothing.syncs 10 900 [[]]) ∧
    -- regain: two syncs, a new class with a new key
    (xRegain.converged 900 = false ∧ (xRegain.syncs 10 900 [[21], []]).converged 900 = true ∧
      (xRegain.syncs 10 900 [[21], [], []]) = xRegain.syncs 10 900 [[21], []]) ∧
    -- two classes at once: two syncs
    (xTwo.converged 900 = false ∧ (xTwo.syncs 10 900 [[20, 21], []]).converged 900 = true ∧
      (xTwo.syncs 10 900 [[20, 21], []]).child.ca.classes.length = 2 ∧
      (xTwo.syncs 10 900 [[20, 21], [], []]) = xTwo.syncs 10 900 [[20, 21], []]) ∧
    -- class-name mapping at the parent: two syncs, the child's class is under the mapped name
    ((xMapped.syncs 10 900 [[20], []]).converged 900 = true ∧
      (xMapped.syncs 10 900 [[20], []]).child.ca.classes.map (·.2.parentRcn) = [5]) ∧
    -- key roll of the child: sync (certificate for the new key), activate, sync (revocation)
    (let r2 : Pair := { xRoll.sync 10 900 [] with child := (xRoll.sync 10 900 []).child.next (.keyrollActivate 900) }
     let r3 := r2.sync 10 900 []
     r3.converged 900 = true ∧ r3.sync 10 900 [] = r3 ∧
     r3.parent.ca.classes.map (fun q => keys q.2.certs.issued) = [[30]]) := by
  decide

/-- Non-vacuity of `exchange_idempotent`: the converged pair satisfies its hypotheses. -/
example :
    xConv.child.ca.hasRepo = true ∧
    xConv.child.ca.convergedB xConv.ph (xConv.parent.ca.entitlementsFor xConv.ch 900) 10 = true := by decide

/-- Non-vacuity of "shrink to nothing": the parent's own shrink removed the child's certificate in
the same command (`shrink_active_child`: nothing left), before the child synchronised. -/
example :
    (get xConv.parent.ca.classes 0).map (fun rc => keys rc.certs.issued) = some [20] ∧
    (get xNothing.parent.ca.classes 0).map (fun rc => keys rc.certs.issued) = some [] ∧
    xNothing.parent.ca.entitlementsFor 7 900 = [] := by decide

/-! ## Convergence of the exchange for every coupled reachable pair

`Pair.coupled` (`Ca/ExchangeLemmas.lean`) is the conjunction of five decidable predicates on the
pair: `childHasRepo`, `mappingInjective`, `noRequestLimits`, `classNamesDistinct`, `certsOnFile`.
The theorems below hold for EVERY pair of reachable aggregates that satisfies it – any number of
classes, children, certificates, any history on either side.  The theorems that may start with
requests to send (`exchange_keeps_coupling`, `exchange_converges_partial`, `exchange_converges`)
need in addition `pendingAnswerable`: the parent can answer every certificate request the child has
open (a krill parent refuses the others with an error and the child keeps them for ever –
`sync_stuck_with_request_for_lost_class`); after a sync that fetched entitlements it holds by
itself (`PostE.answerable`).  The counter-models after them show that the hypotheses cannot be
dropped. -/

/-- The coupling is an invariant of the exchange: every sync keeps it (and keeps both sides
reachable), provided the sync that fetches entitlements gets a new key for each class it
creates. -/
theorem exchange_keeps_coupling (x : Pair) (now na : Int) (f : List KeyId)
    (hp : Reachable x.parent) (hc : Reachable x.child)
    (hcoupled : x.coupled = true) (hnoroll : x.noRollInProgress = true)
    (hansw : x.pendingAnswerable = true)
    (hf : x.child.ca.hasPendingRequests x.ph = false → x.newClasses na ≤ f.length) :
    Coupled (x.sync now na f) :=
  sync_coupled (coupled_of_bool hp hc hcoupled hnoroll) now na f hf (fun _ => answerable_of_bool hansw)

/-- `sync_converges` for the pair, from nothing-to-send: for every coupled pair of reachable
aggregates in which the child has no open request and no key roll in progress – i.e. after any
change of entitlements at the parent (resources of the child, resources of the parent's own
certificates, classes added or removed, class-name mapping) – TWO syncs (entitlements, then the
requests with their responses) leave the child with exactly one `Active` class per listed class,
holding exactly the entitled resources, no open request, the same certificate on file at the
parent; and a further sync changes nothing on either side. -/
theorem exchange_converges_quiet (x : Pair) (now na : Int) (f1 f2 : List KeyId)
    (hp : Reachable x.parent) (hc : Reachable x.child)
    (hcoupled : x.coupled = true) (hnoroll : x.noRollInProgress = true)
    (hquiet : x.child.ca.hasPendingRequests x.ph = false)
    (hf : x.newClasses na ≤ f1.length) :
    (x.syncs now na [f1, f2]).converged na = true ∧
    ∀ f, (x.syncs now na [f1, f2]).sync now na f = x.syncs now na [f1, f2] := by
  have h := converges_from_quiet (coupled_of_bool hp hc hcoupled hnoroll) now na f1 f2 hquiet hf
  exact ⟨h.converged, h.sync_eq⟩

/-
Full statement: as below, without `hnoroll` – that is `exchange_converges` further down (with
the activation in the schedule and the coupling extended to the keys of the roll).
-/

/-- `sync_converges` for the pair, from ANY coupled pair of reachable aggregates without a key
roll in progress (open requests of any kind in any classes, classes the parent no longer lists,
listed classes the child does not have yet): THREE syncs – requests, entitlements, requests –
end converged, and every further sync changes nothing on either side.  New keys are consumed by
the one sync that fetches the entitlements. -/
theorem exchange_converges_partial (x : Pair) (now na : Int) (f1 f2 f3 : List KeyId)
    (hp : Reachable x.parent) (hc : Reachable x.child)
    (hcoupled : x.coupled = true) (hnoroll : x.noRollInProgress = true)
    (hansw : x.pendingAnswerable = true)
    (hf : if x.child.ca.hasPendingRequests x.ph then x.parent.ca.classes.length ≤ f2.length
      else x.newClasses na ≤ f1.length) :
    (x.syncs now na [f1, f2, f3]).converged na = true ∧
    ∀ f, (x.syncs now na [f1, f2, f3]).sync now na f = x.syncs now na [f1, f2, f3] := by
  have h := converges_any (coupled_of_bool hp hc hcoupled hnoroll) (answerable_of_bool hansw) now na f1 f2 f3 hf
  exact ⟨h.converged, h.sync_eq⟩

/-- The coupling is established by a child that has a repository and no class yet (first
delegation), whatever the parent – if its class names for the child translate back. -/
theorem fresh_child_is_coupled (x : Pair) (hrepo : x.child.ca.hasRepo = true)
    (hnames : x.mappingInjective = true) (hnone : x.child.ca.classes = []) :
    x.coupled = true ∧ x.noRollInProgress = true ∧ x.coupledRoll = true ∧
    x.child.ca.hasPendingRequests x.ph = false := by
  simp [Pair.coupled, Pair.coupledRoll, Pair.childHasRepo, hrepo, hnames, Pair.noRequestLimits,
    Pair.classNamesDistinct, Pair.certsOnFile, Pair.noRollInProgress, Pair.stayingCertsOnFile,
    Pair.keysWellFormed, Pair.keysDistinct, Pair.noParentSideRevocation, Pair.noSuspendedCerts,
    Pair.othersNotActivating, Ca.hasPendingRequests, hnone]

example : xStart.child.ca.hasRepo = true ∧ xStart.mappingInjective = true ∧ xStart.child.ca.classes = [] := by
  decide

/-- The cycle of the property text: a converged pair (as reached by `exchange_converges_quiet`),
then ANY change of the child's entitlement at the parent (`ChildUpdateResources`: more, fewer,
other resources, or a refused command), then two syncs: converged again, and a fixed point –
the coupling is re-established by the convergence itself. -/
theorem exchange_reconverges_after_resources_change (x : Pair) (now na : Int) (f1 f2 g1 g2 : List KeyId)
    (res : ResSet) (hp : Reachable x.parent) (hc : Reachable x.child)
    (hcoupled : x.coupled = true) (hnoroll : x.noRollInProgress = true)
    (hquiet : x.child.ca.hasPendingRequests x.ph = false) (hf : x.newClasses na ≤ f1.length)
    (hg : ({ x.syncs now na [f1, f2] with
      parent := (x.syncs now na [f1, f2]).parent.next (.childUpdateResources (x.syncs now na [f1, f2]).ch res) } :
        Pair).newClasses na ≤ g1.length) :
    (({ x.syncs now na [f1, f2] with
      parent := (x.syncs now na [f1, f2]).parent.next (.childUpdateResources (x.syncs now na [f1, f2]).ch res) } :
        Pair).syncs now na [g1, g2]).converged na = true ∧
    ∀ f, (({ x.syncs now na [f1, f2] with
      parent := (x.syncs now na [f1, f2]).parent.next (.childUpdateResources (x.syncs now na [f1, f2]).ch res) } :
        Pair).syncs now na [g1, g2]).sync now na f =
      ({ x.syncs now na [f1, f2] with
        parent := (x.syncs now na [f1, f2]).parent.next (.childUpdateResources (x.syncs now na [f1, f2]).ch res) } :
          Pair).syncs now na [g1, g2] := by
  have h := converges_from_quiet (coupled_of_bool hp hc hcoupled hnoroll) now na f1 f2 hquiet hf
  have h2 := converges_from_quiet (h.coupled_after_resources_change res) now na g1 g2 h.quiet hg
  exact ⟨h2.converged, h2.sync_eq⟩

/-- Non-vacuity: `xStart` converges, the entitlement shrinks to `{1}`, it converges again with the
class narrowed (this is `xShrunk`). -/
example :
    ({ xStart.syncs 10 900 [[20], []] with
      parent := (xStart.syncs 10 900 [[20], []]).parent.next (.childUpdateResources 7 [1]) } : Pair) = xShrunk ∧
    xShrunk.newClasses 900 ≤ ([] : List KeyId).length := by decide

/-! ### Non-vacuity: the witness pairs satisfy the hypotheses -/

theorem xStart_coupled : Coupled xStart :=
  coupled_of_bool (reachable_run .init _) (reachable_run .init _) (by decide) (by decide)

theorem xConv_coupled : Coupled xConv :=
  sync_coupled (sync_coupled xStart_coupled 10 900 [20] (fun _ => by decide) (fun h => absurd h (by decide)))
    10 900 [] (fun h => by revert h; decide) (fun _ => answerable_of_bool (by decide))

theorem xTwo_reachable : Reachable xTwo.parent ∧ Reachable xTwo.child :=
  ⟨reachable_run .init _, reachable_run .init _⟩

/-- Every pair of `exchange_converges_instances` is reachable, coupled, without a key roll and
without an open request, and the fresh keys used there are enough. -/
example :
    (xStart.coupled = true ∧ xStart.noRollInProgress = true ∧
      xStart.child.ca.hasPendingRequests xStart.ph = false ∧ xStart.newClasses 900 ≤ [20].length) ∧
    (xShrunk.coupled = true ∧ xShrunk.noRollInProgress = true ∧
      xShrunk.child.ca.hasPendingRequests xShrunk.ph = false ∧ xShrunk.newClasses 900 ≤ ([] : List KeyId).length) ∧
    (xNothing.coupled = true ∧ xNothing.noRollInProgress = true ∧
      xNothing.child.ca.hasPendingRequests xNothing.ph = false ∧ xNothing.newClasses 900 ≤ ([] : List KeyId).length) ∧
    (xRegain.coupled = true ∧ xRegain.noRollInProgress = true ∧
      xRegain.child.ca.hasPendingRequests xRegain.ph = false ∧ xRegain.newClasses 900 ≤ [21].length) ∧
    (xTwo.coupled = true ∧ xTwo.noRollInProgress = true ∧
      xTwo.child.ca.hasPendingRequests xTwo.ph = false ∧ xTwo.newClasses 900 ≤ [20, 21].length) ∧
    (xMapped.coupled = true ∧ xMapped.noRollInProgress = true ∧
      xMapped.child.ca.hasPendingRequests xMapped.ph = false ∧ xMapped.newClasses 900 ≤ [20].length) := by
  decide

/-- Non-vacuity of `exchange_converges_partial` with requests open at the start: the pair after
the first sync of `xStart` (the new class has its request open). -/
example :
    let x := xStart.sync 10 900 [20]
    x.coupled = true ∧ x.noRollInProgress = true ∧ x.child.ca.hasPendingRequests x.ph = true ∧
    x.pendingAnswerable = true ∧
    x.parent.ca.classes.length ≤ ([] : List KeyId).length + 1 := by decide

/-- The convergence statements of `exchange_converges_instances` (first delegation, shrink to a
part, shrink to nothing, regain, two classes, class-name mapping) as corollaries of the general
theorem. -/
theorem exchange_converges_instances_from_general :
    (xStart.syncs 10 900 [[20], []]).converged 900 = true ∧
    (xShrunk.syncs 10 900 [[], []]).converged 900 = true ∧
    (xNothing.syncs 10 900 [[], []]).converged 900 = true ∧
    (xRegain.syncs 10 900 [[21], []]).converged 900 = true ∧
    (xTwo.syncs 10 900 [[20, 21], []]).converged 900 = true ∧
    (xMapped.syncs 10 900 [[20], []]).converged 900 = true := by
  have hconvP : Reachable xConv.parent := xConv_coupled.inv.rp
  have hconvC : Reachable xConv.child := xConv_coupled.inv.rc
  have hshrunkP : Reachable xShrunk.parent :=
    Reachable.step (.childUpdateResources 7 [1]) hconvP
  have hnothingP : Reachable xNothing.parent :=
    Reachable.step (.updateRcvdCert 0 4 { res := [3, 4], na := 1000 } 500 []) hconvP
  have hnothing : Coupled xNothing := coupled_of_bool hnothingP hconvC (by decide) (by decide)
  have hy := sync_coupled hnothing 10 900 [] (fun _ => by decide) (fun h => absurd h (by decide))
  have hregainP : Reachable xRegain.parent :=
    Reachable.step (.updateRcvdCert 0 4 { res := [1, 2, 3, 4], na := 1000 } 500 []) hy.inv.rp
  have hmappedP : Reachable xMapped.parent :=
    Reachable.step (.childMapping 7 0 5) (reachable_run .init _ : Reachable xParent)
  refine ⟨?_, ?_, ?_, ?_, ?_, ?_⟩
  · exact (exchange_converges_quiet xStart 10 900 [20] [] (reachable_run .init _) (reachable_run .init _)
      (by decide) (by decide) (by decide) (by decide)).1
  · exact (exchange_converges_quiet xShrunk 10 900 [] [] hshrunkP hconvC
      (by decide) (by decide) (by decide) (by decide)).1
  · exact (exchange_converges_quiet xNothing 10 900 [] [] hnothingP hconvC
      (by decide) (by decide) (by decide) (by decide)).1
  · exact (exchange_converges_quiet xRegain 10 900 [21] [] hregainP hy.inv.rc
      (by decide) (by decide) (by decide) (by decide)).1
  · exact (exchange_converges_quiet xTwo 10 900 [20, 21] [] xTwo_reachable.1 xTwo_reachable.2
      (by decide) (by decide) (by decide) (by decide)).1
  · exact (exchange_converges_quiet xMapped 10 900 [20] [] hmappedP
      (reachable_run .init _) (by decide) (by decide) (by decide) (by decide)).1

/-! ### With a key roll of the child in progress -/

/-- `sync_converges` for the pair, key rolls included: from ANY pair of reachable aggregates that
satisfies `Pair.coupledRoll` – every class of the child in any key state (`Pending`, `Active`,
`RollPending`, `RollNew`, `RollOld`) with any open requests, classes the parent no longer lists,
listed classes the child does not have yet – the schedule sync, sync, sync, `KeyRollActivate`,
sync ends converged: one `Active` class per listed class with exactly the entitled resources, no
open request, the old keys revoked, the same certificate on file at the parent; every further
sync changes nothing on either side.  New keys (pairwise different, not yet in use) are consumed
by the one sync that fetches the entitlements. -/
theorem exchange_converges (x : Pair) (now na na' : Int) (f1 f2 f3 f4 : List KeyId)
    (hp : Reachable x.parent) (hc : Reachable x.child) (hcoupled : x.coupledRoll = true)
    (hansw : x.pendingAnswerable = true)
    (hf : if x.child.ca.hasPendingRequests x.ph then x.parent.ca.classes.length ≤ f2.length ∧ x.freshOk f2 = true
      else x.newClasses na ≤ f1.length ∧ x.freshOk f1 = true) :
    (((x.syncs now na [f1, f2, f3]).activate na').sync now na f4).converged na = true ∧
    ∀ f, (((x.syncs now na [f1, f2, f3]).activate na').sync now na f4).sync now na f =
      ((x.syncs now na [f1, f2, f3]).activate na').sync now na f4 := by
  obtain ⟨hc2, hoth⟩ := coupled2_of_bool hp hc hcoupled
  have h := converges_roll hc2 hoth (answerable_of_bool hansw) now na na' f1 f2 f3 f4 (by
    split
    · rename_i hpend
      simp only [hpend, if_true] at hf
      exact ⟨hf.1, freshOk_of_bool hf.2⟩
    · rename_i hpend
      simp only [hpend] at hf
      exact ⟨hf.1, freshOk_of_bool hf.2⟩)
  exact ⟨h.converged, h.sync_eq⟩

/-- Non-vacuity: the child of `xRoll` in every stage of its key roll (`RollPending` with the
request open, `RollNew`, `RollOld`), and the pairs without a roll, satisfy the coupling; the
instance of `exchange_converges_instances` follows from the theorem. -/
example :
    let r1 := xRoll.sync 10 900 []
    let r2 := r1.activate 900
    (xRoll.child.ca.classes.map fun q => q.2.keys.variant) = [.rollPending] ∧
    (r1.child.ca.classes.map fun q => q.2.keys.variant) = [.rollNew] ∧
    (r2.child.ca.classes.map fun q => q.2.keys.variant) = [.rollOld] ∧
    xRoll.coupledRoll = true ∧ r1.coupledRoll = true ∧ r2.coupledRoll = true ∧
    xRoll.pendingAnswerable = true ∧ r1.pendingAnswerable = true ∧ r2.pendingAnswerable = true ∧
    xRoll.child.ca.hasPendingRequests xRoll.ph = true ∧
    xRoll.parent.ca.classes.length ≤ [40].length ∧ xRoll.freshOk [40] = true ∧
    xStart.coupledRoll = true ∧ xShrunk.coupledRoll = true ∧ xNothing.coupledRoll = true ∧
    xRegain.coupledRoll = true ∧ xTwo.coupledRoll = true ∧ xMapped.coupledRoll = true := by decide

theorem exchange_converges_roll_instance :
    (((xRoll.syncs 10 900 [[], [40], []]).activate 900).sync 10 900 []).converged 900 = true :=
  (exchange_converges xRoll 10 900 900 [] [40] [] [] xConv_coupled.inv.rp
    (Reachable.step (.keyrollInit [(0, 30)]) xConv_coupled.inv.rc) (by decide) (by decide) (by decide)).1

/-! ### The hypotheses are necessary: reachable pairs on which `Pair.sync` never converges

Common history (= `xConv`): the parent holds `{1,2,3,4}` in class 0 and entitles child 7 to
`{1,2}`; the child has class 0 under parent 9 with key 20 certified for `{1,2}`. -/

/-- the parent of `xConv` as a command history -/
def pConvOps : List Cmd := [ .repoUpdate [], .addParent 99,
    .updateEntitlements 99 [⟨0, [1, 2, 3, 4], 1000, []⟩] 0 [4],
    .updateRcvdCert 0 4 { res := [1, 2, 3, 4], na := 1000 } 500 [],
    .childAdd 7 [1, 2], .childCertify 7 0 20 none 900 ]

/-- the child of `xConv` as a command history -/
def cConvOps : List Cmd := [ .repoUpdate [], .addParent 9,
    .updateEntitlements 9 [⟨0, [1, 2], 900, []⟩] 10 [20],
    .updateRcvdCert 0 20 { res := [1, 2], na := 900 } 900 [] ]

example : Sys.run {} pConvOps = xConv.parent ∧ Sys.run {} cConvOps = xConv.child := by decide

/-- (F) The child is in `RollOld` (new key 30 activated, revocation of key 20 still to be sent);
meanwhile the parent lost the child's resources and its `shrink_overclaiming` removed – revoked –
the certificates of keys 20 and 30.  (Neither history contains a command the fixes changed: the
states are the same on the pinned and on the current tree.) -/
def xRevoked : Pair :=
  ⟨Sys.run {} (pConvOps ++ [.childCertify 7 0 30 none 900,
      .updateRcvdCert 0 4 { res := [3, 4], na := 1000 } 500 []]),
   Sys.run {} (cConvOps ++ [.keyrollInit [(0, 30)], .updateRcvdCert 0 30 { res := [1, 2], na := 900 } 900 [],
      .keyrollActivate 900]), 7, 9⟩

/-- Counter-model of the PINNED tree (before fix 7be8c4c6; F-C02-2, same refusal as F-C01-3 and
F-C08-6; replayed on that tree: corpus/system/c02-roll-old-revoked-by-parent.ops shows the fixed
behaviour, seeded/ keeps the revert).  Every sync sent the revocation request for key 20; the
parent refused it (`KeyUseNoIssuedCert`: the key is already marked revoked, the class still
exists), the child stayed in `RollOld` with its open request and therefore never fetched
entitlements: the pair was a fixed point of the exchange that is not converged – the parent lists
nothing for the child, the child kept class 0 with certificates for `{1,2}` for ever. -/
theorem pinned_sync_stuck_after_parent_side_revocation :
    Reachable xRevoked.parent ∧ Reachable xRevoked.child ∧ xRevoked.coupled = true ∧
    xRevoked.noRollInProgress = false ∧ xRevoked.noParentSideRevocation = false ∧
    (xRevoked.keysWellFormed && xRevoked.keysDistinct && xRevoked.noSuspendedCerts &&
      xRevoked.othersNotActivating && xRevoked.stayingCertsOnFile) = true ∧
    xRevoked.parent.pinnedExec (.childRevokeKey 7 0 20) = .refused .noIssuedCert ∧
    xRevoked.parent.ca.entitlementsFor 7 900 = [] ∧
    (xRevoked.child.ca.classes.map fun q => q.2.keys.variant) = [.rollOld] ∧
    ∀ fs, (xRevoked.pinnedSyncs 10 900 fs).converged 900 = false := by
  refine ⟨reachable_run .init _, reachable_run .init _, by decide, by decide, by decide, by decide, by decide,
    by decide, by decide, ?_⟩
  have hfix : ∀ f, xRevoked.pinnedSync 10 900 f = xRevoked := by
    intro f
    have hpend : xRevoked.child.ca.hasPendingRequests xRevoked.ph = true := by decide
    unfold Pair.pinnedSync Pair.syncWith
    simp only [hpend, if_true]
    decide
  intro fs
  rw [pinnedSyncs_of_fixed hfix fs]; decide

/-- On the current tree (fix 7be8c4c6) the same pair converges: the revocation request for the key
the parent revoked itself is confirmed (no event, nothing changes at the parent), the child
finishes its roll in the first sync, fetches the entitlements in the second – it is entitled to
nothing – and drops the class; further syncs change nothing. -/
theorem sync_converges_after_parent_side_revocation :
    xRevoked.parent.exec (.childRevokeKey 7 0 20) = .stored [] xRevoked.parent ∧
    ((xRevoked.sync 10 900 []).child.ca.classes.map fun q => q.2.keys.variant) = [.active] ∧
    (xRevoked.syncs 10 900 [[], []]).converged 900 = true ∧
    (xRevoked.syncs 10 900 [[], []]).child.ca.classes = [] ∧
    xRevoked.syncs 10 900 [[], [], []] = xRevoked.syncs 10 900 [[], []] := by decide

/-- Residual of F-C02-2: the operator removed the child at the parent and added it again while
the child was in `RollOld` – the new child record knows none of its keys. -/
def xReadded : Pair :=
  ⟨Sys.run {} (pConvOps ++ [.childCertify 7 0 30 none 900, .childRemove 7, .childAdd 7 [1, 2]]),
   xRevoked.child, 7, 9⟩

/-- A key the parent has no record of is still refused (`KeyUseNoIssuedCert`): the child never
leaves `RollOld` although the parent lists `{1,2}` for it.  Why `noParentSideRevocation` cannot be
dropped altogether (it can be weakened to "in use or revoked").  Replayed on the real code:
corpus/system-findings/c02-f2-child-readded-during-roll.ops. -/
theorem sync_stuck_after_child_readded :
    Reachable xReadded.parent ∧ Reachable xReadded.child ∧ xReadded.noParentSideRevocation = false ∧
    xReadded.pendingAnswerable = true ∧
    xReadded.parent.exec (.childRevokeKey 7 0 20) = .refused .noIssuedCert ∧
    (xReadded.parent.ca.entitlementsFor 7 900).map (·.res) = [[1, 2]] ∧
    ∀ fs, (xReadded.syncs 10 900 fs).converged 900 = false := by
  refine ⟨reachable_run .init _, reachable_run .init _, by decide, by decide, by decide, by decide, ?_⟩
  have hfix : ∀ f, xReadded.sync 10 900 f = xReadded := by
    intro f
    have hpend : xReadded.child.ca.hasPendingRequests xReadded.ph = true := by decide
    unfold Pair.sync
    simp only [hpend, if_true]
    decide
  intro fs
  rw [syncs_of_fixed hfix fs]; decide

/-- (B) The child issued a certificate with a request limit `{1,2}` to a child of its own
(key 50); then the parent reduces the child's entitlement to `{1}`. -/
def xLimit : Pair :=
  ⟨Sys.run {} (pConvOps ++ [.childUpdateResources 7 [1]]),
   Sys.run {} (cConvOps ++ [.childAdd 3 [1, 2], .childCertify 3 0 50 (some [1, 2]) 800]), 7, 9⟩

/-- (B) was an error of the MODEL (replayed: corpus/system-findings-limit/c02-b-limit-grandchild-shrink.ops):
the child does refuse to store the smaller certificate (`Error::limit`: `shrink_overclaiming`
re-issues the grandchild's certificate with its old limit `{1,2}` on the reduced set `{1}`), but
`handle_cert_response` answers a refused `UpdateRcvdCert` with `DropResourceClass`
(`Sys.receiveOrDrop`): the second sync leaves the child without the class and without anything
to send, the third fetches the entitlements (a new class, key 21), the fourth gets the
certificate for `{1}`: converged, and a fixed point.  `noRequestLimits` stays a hypothesis of the
GENERAL theorems (their proof follows every class through `KeyState.syncStep`; the detour
"class dropped and created again under a new name" is outside that simulation), this instance
shows the exchange converges without it. -/
theorem sync_converges_with_request_limit :
    Reachable xLimit.parent ∧ Reachable xLimit.child ∧ xLimit.noRequestLimits = false ∧
    (xLimit.sync 10 900 []).child.exec (.updateRcvdCert 0 20 { res := [1], na := 900 } 900 []) =
      .refused (.issue .limit) ∧
    (xLimit.syncs 10 900 [[], []]).child.ca.classes = [] ∧
    (xLimit.syncs 10 900 [[], [], [21], []]).converged 900 = true ∧
    ((xLimit.syncs 10 900 [[], [], [21], []]).child.ca.classes.map fun q => (q.1, q.2.keys.keyIds)) = [(1, [21])] ∧
    xLimit.syncs 10 900 [[], [], [21], [], []] = xLimit.syncs 10 900 [[], [], [21], []] := by
  refine ⟨reachable_run .init _, reachable_run .init _, by decide, by decide, by decide, by decide, by decide,
    by decide⟩

/-- (A) The parent presents its two classes 0 and 1 to the child under the same name 5 – on the
pinned tree, whose `process` accepted the second mapping. -/
def xSameName : Pair := ⟨xTwoParent.pinnedRun [.childMapping 7 0 5, .childMapping 7 1 5], xChild, 7, 9⟩

/-- Counter-model of the PINNED tree (before fix 02d8de59; F-C02-3, the validation that F-C03-2
missed as well).  `list` returned two classes named 5 (`{5}` and `{1}`); the child created two
classes named 5, both were certified by the one parent class that `parent_name_for_rcn 5` yields,
and `find_parent_rc` then matched the first of them against both entitlements: from the third
sync on the pair alternated between two states (request, certificate) and was converged in
neither.  (The real code, with `HashMap`s, shows the same two classes and the same endless
re-issue, and in addition asks the parent to revoke the sibling class's key:
corpus/system/c02-two-classes-one-child-name.ops for the fixed behaviour.) -/
theorem pinned_sync_alternates_with_non_injective_mapping :
    xSameName.mappingInjective = false ∧
    xSameName.childHasRepo = true ∧ xSameName.noRequestLimits = true ∧ xSameName.classNamesDistinct = true ∧
    xSameName.certsOnFile = true ∧ xSameName.noRollInProgress = true ∧
    (xSameName.parent.ca.entitlementsFor 7 900).map (·.rcn) = [5, 5] ∧
    (let z := xSameName.pinnedSyncs 10 900 [[20, 21], []]
     (z.pinnedSync 10 900 []).pinnedSync 10 900 [] = z ∧ z.pinnedSync 10 900 [] ≠ z ∧
     z.converged 900 = false ∧ (z.pinnedSync 10 900 []).converged 900 = false ∧
     ∀ n, (z.pinnedSyncs 10 900 (List.replicate n [])).converged 900 = false) := by
  refine ⟨by decide, by decide, by decide, by decide, by decide, by decide, by decide, ?_⟩
  have h2 : ((xSameName.pinnedSyncs 10 900 [[20, 21], []]).pinnedSync 10 900 []).pinnedSync 10 900 [] =
      xSameName.pinnedSyncs 10 900 [[20, 21], []] := by decide
  refine ⟨h2, by decide, by decide, by decide, ?_⟩
  have hcyc : ∀ n, ∀ w, (w = xSameName.pinnedSyncs 10 900 [[20, 21], []] ∨
        w = (xSameName.pinnedSyncs 10 900 [[20, 21], []]).pinnedSync 10 900 []) →
      (w.pinnedSyncs 10 900 (List.replicate n [])).converged 900 = false := by
    intro n
    induction n with
    | zero => intro w hw; rcases hw with rfl | rfl <;> decide
    | succ n ih =>
      intro w hw
      simp only [List.replicate_succ, Pair.pinnedSyncs]
      apply ih
      rcases hw with rfl | rfl
      · exact Or.inr rfl
      · exact Or.inl h2
  exact fun n => hcyc n _ (Or.inl rfl)

/-- On the current tree (fix 02d8de59) the second mapping is refused, the names stay distinct and
the pair converges in two syncs with one class per parent class. -/
theorem second_mapping_to_same_name_refused :
    (xTwoParent.next (.childMapping 7 0 5)).exec (.childMapping 7 1 5) = .refused .childNameClash ∧
    (let x : Pair := ⟨xTwoParent.run [.childMapping 7 0 5, .childMapping 7 1 5], xChild, 7, 9⟩
     x.mappingInjective = true ∧ (x.parent.ca.entitlementsFor 7 900).map (·.rcn) = [1, 5] ∧
     (x.syncs 10 900 [[20, 21], []]).converged 900 = true ∧
     x.syncs 10 900 [[20, 21], [], []] = x.syncs 10 900 [[20, 21], []]) := by decide

/-- An accepted class-name mapping keeps the names the child sees translating back
(`mappingInjective`), for every state of the parent – this is what fix 02d8de59 establishes. -/
theorem mapping_keeps_names_distinct (s : Sys) (ch : Handle) (n m : Rcn) (evs : List Ev) (s' : Sys)
    (hok : s.ca.namesOk ch = true) (hex : s.exec (.childMapping ch n m) = .stored evs s') :
    s'.ca.namesOk ch = true :=
  mapping_keeps_namesOk hok hex

/-- Non-vacuity: an accepted mapping on a parent whose names are distinct (this is `xMapped`). -/
example : xParent.ca.namesOk 7 = true ∧
    (match xParent.exec (.childMapping 7 0 5) with | .stored _ _ => true | _ => false) = true := by decide

/-- What the fix cannot establish at the time of the mapping (`mappingInjective` therefore stays a
hypothesis of the general theorems): a mapping onto a name that no class has YET is accepted;
when the parent later gets a class of that name (class names are the counter `next_class_name`)
two classes appear to the child under one name.  Residual of F-C02-3 / F-C03-2, open. -/
theorem names_clash_when_class_is_added_after_mapping :
    let p := Sys.run {} [ .repoUpdate [], .addParent 98, .addParent 99,
      .updateEntitlements 98 [⟨0, [1, 2], 1000, []⟩] 0 [4],
      .updateRcvdCert 0 4 { res := [1, 2], na := 1000 } 500 [],
      .childAdd 7 [1], .childMapping 7 0 1,
      .updateEntitlements 99 [⟨0, [5, 6], 1000, []⟩] 0 [5],
      .updateRcvdCert 1 5 { res := [5, 6], na := 1000 } 500 [],
      .childUpdateResources 7 [1, 5] ]
    Reachable p ∧ p.ca.namesOk 7 = false ∧ (p.ca.entitlementsFor 7 900).map (·.rcn) = [1, 1] := by
  refine ⟨reachable_run .init _, by decide, by decide⟩

/-- (H) The child has a certificate request open for its class 0 (its entitlement shrank to `{1}`
and it fetched the entitlements); before it sends the request the parent loses class 0 (its own
parent no longer lists it). -/
def xLost : Pair :=
  { xShrunk.sync 10 900 [] with
    parent := (xShrunk.sync 10 900 []).parent.next (.updateEntitlements 99 [] 0 []) }

/-- … and the parent gets the resources back – as its class 1. -/
def xLostRegained : Pair :=
  { xLost with parent := xLost.parent.run [
      .updateEntitlements 99 [⟨0, [1, 2, 3, 4], 1000, []⟩] 0 [6],
      .updateRcvdCert 1 6 { res := [1, 2, 3, 4], na := 1000 } 500 [] ] }

/-- The parent refuses the request (`ResourceClassUnknown`) – a krill parent answers with an
error, never with an RFC 6492 1201 response, so the child's "class is gone: drop it" branch is
not reached: the request stays open, every sync sends it again, the entitlements are never
fetched.  A fixed point that is not converged – even when the parent later holds the resources
again under a new class name.  What `pendingAnswerable` excludes.  Replayed on the real code:
corpus/system-findings/c02-h-request-for-lost-class.ops (F-C02-4, open). -/
theorem sync_stuck_with_request_for_lost_class :
    Reachable xLost.parent ∧ Reachable xLost.child ∧ xLost.pendingAnswerable = false ∧
    xLost.coupled = true ∧ xLost.noRollInProgress = true ∧ xLost.coupledRoll = true ∧
    xLost.parent.exec (.childCertify 7 0 20 none 900) = .refused .unknownClass ∧
    xLost.parent.ca.entitlementsFor 7 900 = [] ∧
    (∀ fs, (xLost.syncs 10 900 fs).converged 900 = false) ∧
    (xLostRegained.parent.ca.entitlementsFor 7 900).map (fun e => (e.rcn, e.res)) = [(1, [1])] ∧
    ∀ fs, (xLostRegained.syncs 10 900 fs).converged 900 = false := by
  have hshrP : Reachable xShrunk.parent :=
    (Reachable.step (.childUpdateResources 7 [1]) xConv_coupled.inv.rp : Reachable (xConv.parent.next _))
  have hy : Coupled (xShrunk.sync 10 900 []) :=
    sync_coupled (coupled_of_bool hshrP xConv_coupled.inv.rc (by decide) (by decide)) 10 900 [] (fun _ => by decide)
      (fun h => absurd h (by decide))
  have hP : Reachable xLost.parent :=
    (Reachable.step (.updateEntitlements 99 [] 0 []) hy.inv.rp : Reachable ((xShrunk.sync 10 900 []).parent.next _))
  refine ⟨hP, hy.inv.rc, by decide, by decide, by decide, by decide, by decide, by decide, ?_, by decide, ?_⟩
  · have hfix : ∀ f, xLost.sync 10 900 f = xLost := by
      intro f
      have hpend : xLost.child.ca.hasPendingRequests xLost.ph = true := by decide
      unfold Pair.sync
      simp only [hpend, if_true]
      decide
    intro fs
    rw [syncs_of_fixed hfix fs]; decide
  · have hfix : ∀ f, xLostRegained.sync 10 900 f = xLostRegained := by
      intro f
      have hpend : xLostRegained.child.ca.hasPendingRequests xLostRegained.ph = true := by decide
      unfold Pair.sync
      simp only [hpend, if_true]
      decide
    intro fs
    rw [syncs_of_fixed hfix fs]; decide

/-- (G) Between two syncs of the child the parent's own certificate shrinks to `{1,3,4}`
(`shrink_overclaiming` re-issues the child's certificate with `{1}`) and grows back. -/
def xReissued : Pair :=
  ⟨Sys.run {} (pConvOps ++ [.updateRcvdCert 0 4 { res := [1, 3, 4], na := 1000 } 500 [],
      .updateRcvdCert 0 4 { res := [1, 2, 3, 4], na := 1000 } 500 []]),
   Sys.run {} cConvOps, 7, 9⟩

/-- The parent lists `{1,2}` again, the child still holds its old certificate for `{1,2}` and
asks for nothing; the certificate on file (and published) at the parent is the shrunk one, `{1}`:
a fixed point that is not converged.  What `certsOnFile` excludes.  (In the code the parent
reports the not-after time of the certificate on file; the child asks again only once that is a
week or 10 % later than its own – `na` is an input of the model.) -/
theorem sync_misses_parent_side_reissue :
    Reachable xReissued.parent ∧ Reachable xReissued.child ∧ xReissued.certsOnFile = false ∧
    xReissued.childHasRepo = true ∧ xReissued.mappingInjective = true ∧ xReissued.noRequestLimits = true ∧
    xReissued.classNamesDistinct = true ∧ xReissued.noRollInProgress = true ∧
    xReissued.parent.ca.issuedFor 7 0 20 = some { res := [1], na := 500 } ∧
    (xReissued.parent.ca.entitlementsFor 7 900).map (·.res) = [[1, 2]] ∧
    ∀ fs, (xReissued.syncs 10 900 fs).converged 900 = false := by
  refine ⟨reachable_run .init _, reachable_run .init _, by decide, by decide, by decide, by decide, by decide,
    by decide, by decide, by decide, ?_⟩
  have hfix : ∀ f, xReissued.sync 10 900 f = xReissued :=
    fun f => exchange_idempotent xReissued 10 900 f (by decide) (by decide)
  intro fs
  rw [syncs_of_fixed hfix fs]; decide

/-- A child without a repository never leaves the refused `UpdateEntitlements`
(`childHasRepo`). -/
theorem sync_stuck_without_repository :
    let x : Pair := ⟨xParent, Sys.run {} [.addParent 9], 7, 9⟩
    Reachable x.parent ∧ Reachable x.child ∧ x.childHasRepo = false ∧
    x.sync 10 900 [20] = x ∧ x.converged 900 = false := by
  refine ⟨reachable_run .init _, reachable_run .init _, by decide, by decide, by decide⟩

end KM.Props.C02
