/-
C02 — Delegation follows entitlements, never over-claims, converges and is idempotent.
Property theorems only; helper lemmas live in `KrillModel/Ca/Lemmas*.lean`.
-/
import KrillModel.Ca.Preds
namespace KM.Props.C02
open KM.CaK KM.Res KM.AMap

/-! ## Issued certificates are exactly limit(issuer ∩ entitlement) -/

/-- `issue_cert`: the certificate carries the issuer's current resources intersected with the
child's entitlement, narrowed to the limit if one was requested, and lies inside the issuer's
certificate. -/
theorem issued_exact (ks : KeyState) (childRes : ResSet) (l : Limit) (na : Int) (cc : ChildCert)
    (h : issueCert ks childRes l na = .ok cc) :
    ∃ c, ks.current = some c ∧
      cc.res = (match l with | none => inter c.cert.res childRes | some lim => lim) ∧
      subset cc.res (inter c.cert.res childRes) = true ∧
      subset cc.res c.cert.res = true ∧ subset cc.res childRes = true := by
  unfold issueCert at h
  cases hc : ks.current with
  | none => rw [hc] at h; cases h
  | some c =>
    rw [hc] at h
    refine ⟨c, rfl, ?_⟩
    simp only [makeIssued] at h
    cases l with
    | none =>
      simp only [applyLimit] at h
      split at h
      · cases h
        exact ⟨rfl, subset_refl _, inter_subset_left _ _, inter_subset_right _ _⟩
      · cases h
    | some lim =>
      simp only [applyLimit] at h
      by_cases hl : subset lim (inter c.cert.res childRes) = true
      · simp only [hl, if_true] at h
        split at h
        · cases h
          exact ⟨rfl, hl, subset_trans hl (inter_subset_left _ _), subset_trans hl (inter_subset_right _ _)⟩
        · cases h
      · simp only [hl] at h
        cases h

/-- Non-vacuity: a partial overlap with and without a limit. -/
example :
    issueCert (.active ⟨1, { res := [1, 2, 3] }, false⟩) [2, 3, 4] none 0 = .ok { res := [2, 3] } ∧
    issueCert (.active ⟨1, { res := [1, 2, 3] }, false⟩) [2, 3, 4] (some [3]) 0 =
      .ok { res := [3], limit := some [3] } := by decide

end KM.Props.C02
