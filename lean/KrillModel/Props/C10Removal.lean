/-
C10 / C08 — removing a publisher, interrupted anywhere, is recoverable.

`RepositoryManager::remove_publisher` persists two things in two different stores: the content
command (withdraw everything the publisher holds; WAL store `pubd_objects`) and the access command
(drop the publisher's registration; aggregate store `pubd`).  The theorems here are about the order
in which the SOURCE makes the two calls: `KM.Generated.pubdStoreCalls .remove_publisher` is
regenerated from pubd/manager.rs by the `event_tasks` translator on every run.

Tie to the code besides the translator: the `pubd` stream op `rmpubf <publisher> <n>` (removal with
the n-th key-value write failing once, then the retry) and the `system` fault scenarios with `pubrm`.
-/
import KrillModel.Props.C10
import KrillModel.Pubd.Removal
namespace KM.Props.C10Removal
open KM.Pubd KM.Generated KM.Props.C10

theorem objs_nil_of_get?_none (o : Objs) (h : ∀ k, o.get? k = none) : o = [] := by
  cases o with
  | nil => rfl
  | cons p t =>
    have := h p.1
    simp [Objs.get?, List.lookup] at this

/-- The content command is idempotent: after it the publisher holds nothing, so a second one
finds nothing to withdraw. -/
theorem content_removal_idempotent (s : Server) (hi : SInv s) (h : Handle) :
    (s.rrdp.removePublisher h).removePublisher h = s.rrdp.removePublisher h := by
  have h1 := (remove_exact s hi h).1
  have hrr : (s.removePublisher h).1.rrdp = s.rrdp.removePublisher h := by
    unfold Server.removePublisher; simp only; split <;> rfl
  have hnil : (s.rrdp.removePublisher h).objectsFor h = [] := by
    apply objs_nil_of_get?_none
    intro k
    have := h1 k
    simpa [Server.list, hrr] using this
  generalize hr : s.rrdp.removePublisher h = r at hnil ⊢
  unfold Rrdp.removePublisher
  simp only [hnil, List.isEmpty_nil, if_true]

/-- The two store calls of a removal, content first. -/
def contentFirst : List PubdStoreCall := [.content_remove_publisher, .access_remove_publisher]

theorem removalBy_contentFirst (s : Server) (h : Handle) :
    (s.removalBy h contentFirst).1 = (s.removePublisher h).1 ∧
    ((s.removalBy h contentFirst).2 = true ↔ (s.removePublisher h).2 = .ok) := by
  unfold Server.removalBy contentFirst Server.removePublisher
  simp only [Server.runCalls, Server.storeCall, Server.jail?]
  by_cases hj : (hget? s.access h).isSome = true
  · simp [hj]
  · simp [hj]

theorem removal_cut_retry (s : Server) (hi : SInv s) (h : Handle) (k : Nat) :
    ((s.removalCutAt h contentFirst k).removalBy h contentFirst).1 = (s.removePublisher h).1 := by
  have hid := content_removal_idempotent s hi h
  rw [← (removalBy_contentFirst s h).1]
  unfold Server.removalCutAt Server.removalBy contentFirst
  match k with
  | 0 => rfl
  | 1 =>
    simp only [List.take, Server.runCalls, Server.storeCall, Server.jail?, hid]
  | k + 2 =>
    simp only [List.take, Server.runCalls, Server.storeCall, Server.jail?]
    by_cases hj : (hget? s.access h).isSome = true
    · have hno : (hget? (herase s.access h) h).isSome = false := by rw [hget?_herase]; simp
      simp [hj, hid, hno, Server.runCalls]
    · simp [hj, hid]

/-- `removal_recoverable` — the removal as the SOURCE orders its two persisted calls (regenerated from
manager.rs on every run): whichever write fails or wherever the process dies (`k` calls persisted),
submitting the removal again ends in exactly the state of an undisturbed removal – the publisher
un-registered, nothing held for it (`remove_exact`), everybody else untouched. -/
theorem removal_recoverable (s : Server) (hi : SInv s) (h : Handle) (k : Nat) :
    let order := pubdStoreCalls .remove_publisher
    ((s.removalCutAt h order k).removalBy h order).1 = (s.removePublisher h).1 ∧
    (∀ u, (((s.removalCutAt h order k).removalBy h order).1.held h).get? u = none) := by
  have ho : pubdStoreCalls .remove_publisher = contentFirst := by decide
  simp only [ho]
  refine ⟨removal_cut_retry s hi h k, ?_⟩
  rw [removal_cut_retry s hi h k]
  exact (remove_exact s hi h).1

/-- The other order – access first – is NOT recoverable: interrupted after the first call the
publisher is un-registered while the content store still holds its objects, and every further
attempt is refused up front (`PublisherUnknown`), so they stay for ever. -/
theorem access_first_orphans :
    ∃ (s : Server) (h : Handle),
      let order : List PubdStoreCall := [.access_remove_publisher, .content_remove_publisher]
      let s1 := s.removalCutAt h order 1
      s1.jail? h = none ∧ s1.held h ≠ [] ∧ (s1.removalBy h order) = (s1, false) := by
  refine ⟨(Server.publish ⟨⟨rsyncLower, ⟨"h", 0⟩, ⟨"m", 0⟩, [], true⟩, ⟨5, 50, false, false, false⟩,
      [(["ca"], ⟨rsyncLower, ⟨"h", 0⟩, ⟨"m", 0⟩, ["ca"], true⟩)], Rrdp.create 1 1⟩ ["ca"]
      [.publish ⟨rsyncLower, ⟨"h", 0⟩, ⟨"m", 0⟩, ["ca", "a.cer"], false⟩ ⟨1, 10⟩]).1, ["ca"], ?_⟩
  decide

end KM.Props.C10Removal
