/-
C06 — State rebuilt from the audit log equals the live state.
Property theorems only; helper lemmas live in `KrillModel.ES.Lemmas`.

Reading of the property in the model (`ES/AggStore.lean`, `ES/Wal.lean`): an entity is the
key-value scope of one handle plus the cache entries of every store object open on it.
A *history* is any list of public operations (`Op`): creating the entity, accepted / rejected /
no-op / vetoed commands, failed writes, reads, snapshots at any point, through any store
object, and store objects being thrown away and re-created (`restart` = cache drop).
-/
import KrillModel.ES.Lemmas
import KrillModel.ES.ObsLemmas
import KrillModel.ES.WalLemmas
import KrillModel.ES.Reg
import KrillModel.ES.RegLemmas
import KrillModel.ES.Bag
import KrillModel.ES.Instances
/-
Clause → theorem (text of C06 in /verif/properties.jsonl):
* "replaying the stored initialisation and commands from scratch, … any stored snapshot plus the
  later commands, … the state held in memory … agree": `replay_eq_live` (histories of public
  operations), `replay_eq_live_krill_usage` (also deletion / re-creation, under the decidable usage
  predicate `dropSafeB`; `drop_needs_usage_assumption` shows it is needed).
* "in every respect observable through the API": `replay_eq_live_obs` (for every renderer of results).
* "snapshots taken at every point of that history": `snapshot_any_point`,
  `stored_snapshot_is_prefix_state`.
* "Replaying a stored history never fails or panics": `replay_total`; the live path:
  `no_panic_of_applicable` (+ `reg_applicable`, `badAgg`), and its veto-aware form
  `no_panic_of_applicable_veto` / `store_never_panics` (hypothesis only for the states reachable when
  commands the pre-save listener refuses are not stored; `veto_hypothesis_strictly_weaker`).
* "For every event-sourced entity (CAs, trust-anchor proxy and signer, repository access, …)": the
  hypothesis discharged for the models of the real aggregates (`ES/Instances.lean`):
  `ca_replay_never_panics`, `ca_replay_never_panics_krill_usage`, `ca_replay_eq_live`,
  `ca_replay_eq_live_obs`, `taproxy_replay_never_panics`, `taproxy_replay_eq_live`,
  `tasigner_replay_never_panics`, `tasigner_replay_eq_live`; repository access (no model with
  `process`/`apply`; its `apply` has no panic arm): `total_apply_never_panics`.
* "repository content log" (WAL store): `wal_replay_eq_live`, `wal_replay_eq_live_krill_usage`
  (decidable `safeRunB`), `wal_live_is_snapshot_plus_sets`, `wal_snapshot_safe_iff` (the side
  condition is exact), `wal_snapshot_needs_current_caches`.
* "for every command history produced through the public operations": everything quantifies over
  arbitrary `List (Op A)` / `List (HOp A)` / `List (Wal.Op T)`; the stream's generated histories are
  checked against the usage predicates by the driver (oracle name `krill_usage`).
-/
namespace KM.Props.C06
open KM.ES

variable {A : Agg}

/-- What every way of obtaining the state must return for log `L`. -/
def expected (L : Log A) : Out A :=
  match finalOf L with
  | some w => .ok w
  | none => .unknown

/-- **replay_eq_live.**  After every history, the state replayed from `command-0.json` alone
(snapshot ignored), the state a fresh store builds from the stored snapshot plus the later
commands, and the state every live store object returns from its cache agree; all of them
are the pure replay `finalOf` of the audit log the history produced. -/
theorem replay_eq_live (hiv : A.initVersion ≤ 1) (ops : List (Op A)) (i : Nat) :
    let e := run (Ent.empty : Ent A) ops
    loadScratch e = expected (specRun [] ops) ∧
    loadFresh e = expected (specRun [] ops) ∧
    (getLatest e i).2 = expected (specRun [] ops) := by
  intro e
  have hI : Inv e (specRun [] ops) := run_refines hiv inv_empty ops
  have key : ∀ e' : Ent A, Inv e' (specRun [] ops) → ∀ j, (getLatest e' j).2 = expected (specRun [] ops) := by
    intro e' h' j
    by_cases hne : specRun ([] : Log A) ops = []
    · rw [hne] at h' ⊢
      simp [getLatest, execOpt_nil h', expected, finalOf, baseOf]
    · obtain ⟨w, hw, h1, _⟩ := execOpt_read hiv h' hne j false false
      simp [getLatest, h1, expected, hw]
  refine ⟨?_, ?_, key e hI i⟩
  · exact key _ (hI.clearForScratch) 0
  · exact key _ (hI.clearCaches) 0

/-- **replay_eq_live_krill_usage.**  The equality survives ANY interleaving of commands
(accepted, rejected, no-op, vetoed), failed writes, snapshots, cache drops, history queries,
deletion and re-creation of the entity, through any number of store objects, under exactly
krill's usage assumption, stated as the decidable predicate `dropSafeB` on histories: whenever
`drop_aggregate` is called, no *other* store object remembers the entity (it can only clear
the caches of the store object it is called on).  Nothing else is assumed. -/
theorem replay_eq_live_krill_usage (hiv : A.initVersion ≤ 1) (ops : List (HOp A))
    (hu : dropSafeB (Ent.empty : Ent A) ops = true) (i : Nat) :
    let e := runH (Ent.empty : Ent A) ops
    loadScratch e = expected (specRunH [] ops) ∧
    loadFresh e = expected (specRunH [] ops) ∧
    (getLatest e i).2 = expected (specRunH [] ops) := by
  intro e
  have hI : Inv e (specRunH [] ops) := runH_refines hiv inv_empty ops (dropSafe_of_B hu)
  have key : ∀ e' : Ent A, Inv e' (specRunH [] ops) → ∀ j, (getLatest e' j).2 = expected (specRunH [] ops) := by
    intro e' h' j
    by_cases hne : specRunH ([] : Log A) ops = []
    · rw [hne] at h' ⊢
      simp [getLatest, execOpt_nil h', expected, finalOf, baseOf]
    · obtain ⟨w, hw, h1, _⟩ := execOpt_read hiv h' hne j false false
      simp [getLatest, h1, expected, hw]
  exact ⟨key _ hI.clearForScratch 0, key _ hI.clearCaches 0, key e hI i⟩

/-- The usage assumption is needed (modelled quirk): a second store object that still caches a
deleted entity goes on serving it – and writes the next command into the deleted scope. -/
theorem drop_needs_usage_assumption :
    let ops : List (HOp (Reg.regAgg 1)) :=
      [.op (.add 0 "a" "n0" false), .op (.get 1), .drop 0, .op (.cmd 1 ⟨"u", .add 1⟩ false)]
    dropSafeB (Ent.empty : Ent (Reg.regAgg 1)) ops = false ∧
    (match (getLatest (runH (Ent.empty : Ent (Reg.regAgg 1)) ops) 1).2 with
      | .ok v => some v.version | _ => none) = some 2 ∧
    (match loadFresh (runH (Ent.empty : Ent (Reg.regAgg 1)) ops) with
      | .unknown => true | _ => false) = true := by
  decide

/-- Non-vacuity: a history with a failed write, a snapshot by a second store object, a cache
drop, deletion (the other store objects re-created first, as krill's throw-away stores are) and
re-creation satisfies the usage predicate. -/
example :
    dropSafeB (Ent.empty : Ent (Reg.regAgg 1))
      [.op (.add 0 "a" "n0" false), .op (.cmd 0 ⟨"u", .add 2⟩ true), .op (.cmd 0 ⟨"u", .add 2⟩ false),
       .op (.snap 1 false), .op (.cmd 2 ⟨"v", .fail⟩ false), .op (.hist 0 true),
       .op (.restart 1), .op (.restart 2), .drop 0,
       .op (.add 1 "a" "n1" false), .op (.cmd 0 ⟨"w", .add 1⟩ false)] = true := by
  decide

/-- The oracle's `replay_eq_live` predicate (`Obs.allAgree` over the results of every live store
object, a fresh store and a from-scratch replay, as printed by `check <h>`) holds of the model
after every history, for every renderer of results. -/
theorem replay_eq_live_obs (hiv : A.initVersion ≤ 1) (ops : List (Op A)) (R : Obs.Render A) :
    let e := run (Ent.empty : Ent A) ops
    Obs.allAgree [Obs.oRet R (getLatest e 0).2, Obs.oRet R (getLatest e 1).2,
      Obs.oRet R (getLatest e 2).2, Obs.oRet R (loadFresh e), Obs.oRet R (loadScratch e)] = true := by
  intro e
  obtain ⟨h1, h2, h3⟩ := replay_eq_live hiv ops 0
  obtain ⟨_, _, h4⟩ := replay_eq_live hiv ops 1
  obtain ⟨_, _, h5⟩ := replay_eq_live hiv ops 2
  simp only [e, h1, h2, h3, h4, h5, Obs.allAgree]
  simp

/-- **snapshot_any_point.**  Whatever prefix state of the log sits in `snapshot.json` – i.e. a
snapshot taken at *any* earlier point of the history – loading from it and applying the
later commands gives the replay of the whole log. -/
theorem snapshot_any_point (hiv : A.initVersion ≤ 1) {e : Ent A} {L : Log A} (h : Inv e L)
    {v : Ver A} (hv : PrefixState L v) :
    loadFresh { e with kv := { e.kv with snapshot := some v } } = expected L := by
  have hne := prefixState_ne_nil hv
  have h' := (h.setSnap hv).clearCaches
  obtain ⟨w, hw, h1, _⟩ := execOpt_read hiv h' hne 0 false false
  simp [loadFresh, getLatest] at h1 ⊢
  simp [h1, expected, hw]

/-- The snapshot a history leaves behind is a prefix state, and so is every cache entry:
"every read is a prefix state", and `snapshot_any_point` applies to it. -/
theorem stored_snapshot_is_prefix_state (hiv : A.initVersion ≤ 1) (ops : List (Op A)) (v : Ver A)
    (h : (run (Ent.empty : Ent A) ops).kv.snapshot = some v) : PrefixState (specRun [] ops) v :=
  (run_refines hiv inv_empty ops).snap v h

/-- **replay_total.**  Replaying a stored history never fails or panics – without any
assumption on the aggregate: the store applies the events *before* it stores the command
(store.rs:444), so an event `apply` cannot take is never written. -/
theorem replay_total (hiv : A.initVersion ≤ 1) (ops : List (Op A)) :
    let e := run (Ent.empty : Ent A) ops
    loadScratch e ≠ .panic ∧ loadFresh e ≠ .panic ∧ loadScratch e ≠ .fatal ∧ loadFresh e ≠ .fatal := by
  intro e
  obtain ⟨h1, h2, _⟩ := replay_eq_live hiv ops 0
  simp only [e, h1, h2, expected]
  cases finalOf (specRun ([] : Log A) ops) <;> simp

/-- **process_emits_applicable ⇒ no call ever panics.**  If `process` only emits events that
`apply` can take in the states that occur, no operation of any history panics. -/
theorem no_panic_of_applicable (hiv : A.initVersion ≤ 1) (hA : ProcessApplicable A)
    (ops : List (Op A)) (op : Op A) :
    (step (run (Ent.empty : Ent A) ops) op).2 ≠ some .panic := by
  have hI : Inv (run (Ent.empty : Ent A) ops) (specRun [] ops) := run_refines hiv inv_empty ops
  have hR := reachable_final hiv ops
  rw [(step_refines hiv hI op).1]
  exact specStep_no_panic hA hR op

/-- **no_panic_of_applicable_veto.**  The same under the weaker, veto-aware hypothesis: `process`
need only emit applicable events in the states reachable when a command the pre-save listener
refuses is *not stored* (`ReachableV`) – which is what `execute_opt_command` does (store.rs:458-474,
`phDecide`).  The listener is the component `preSave` of the aggregate, so the histories need no side
condition: a vetoed command is an ordinary `Op.cmd` whose outcome is `Out.err`. -/
theorem no_panic_of_applicable_veto (hiv : A.initVersion ≤ 1) (hA : ProcessApplicableV A)
    (ops : List (Op A)) (op : Op A) :
    (step (run (Ent.empty : Ent A) ops) op).2 ≠ some .panic := by
  have hI : Inv (run (Ent.empty : Ent A) ops) (specRun [] ops) := run_refines hiv inv_empty ops
  have hR := reachableV_final hiv ops
  rw [(step_refines hiv hI op).1]
  exact specStep_no_panic_veto hA hR op

/-- The old statement is the special case (the hypothesis without veto is the stronger one). -/
theorem no_panic_of_applicable_from_veto (hiv : A.initVersion ≤ 1) (hA : ProcessApplicable A)
    (ops : List (Op A)) (op : Op A) :
    (step (run (Ent.empty : Ent A) ops) op).2 ≠ some .panic :=
  no_panic_of_applicable_veto hiv hA.toV ops op

/-- … also with deletion and re-creation of the entity, under krill's usage assumption. -/
theorem no_panic_of_applicable_veto_krill_usage (hiv : A.initVersion ≤ 1)
    (hA : ProcessApplicableV A) (ops : List (HOp A))
    (hu : dropSafeB (Ent.empty : Ent A) ops = true) (op : Op A) :
    (step (runH (Ent.empty : Ent A) ops) op).2 ≠ some .panic := by
  have hI : Inv (runH (Ent.empty : Ent A) ops) (specRunH [] ops) :=
    runH_refines hiv inv_empty ops (dropSafe_of_B hu)
  have hR := reachableV_finalH hiv ops
  rw [(step_refines hiv hI op).1]
  exact specStep_no_panic_veto hA hR op

/-- **store_never_panics.**  For an aggregate that meets the veto-aware hypothesis: after any
history of public operations – creation, commands that are accepted, refused by `process_command`,
no-ops, vetoed by the pre-save listener, failed writes, reads, snapshots at any point, cache drops,
through any number of store objects – the next operation, whatever it is, does not panic (so,
taking prefixes, no operation of the history did), and replaying what is stored – from
`command-0.json` alone, or from the snapshot plus the later commands – neither panics nor hits the
"command key exists" exit. -/
theorem store_never_panics (hiv : A.initVersion ≤ 1) (hA : ProcessApplicableV A)
    (ops : List (Op A)) (op : Op A) :
    let e := run (Ent.empty : Ent A) ops
    (step e op).2 ≠ some .panic ∧
    loadScratch e ≠ .panic ∧ loadFresh e ≠ .panic ∧ loadScratch e ≠ .fatal ∧ loadFresh e ≠ .fatal :=
  ⟨no_panic_of_applicable_veto hiv hA ops op, replay_total hiv ops⟩

/-- The same for histories that also delete and re-create the entity (usage predicate `dropSafeB`). -/
theorem store_never_panics_krill_usage (hiv : A.initVersion ≤ 1) (hA : ProcessApplicableV A)
    (ops : List (HOp A)) (hu : dropSafeB (Ent.empty : Ent A) ops = true) (op : Op A) :
    let e := runH (Ent.empty : Ent A) ops
    (step e op).2 ≠ some .panic ∧
    loadScratch e ≠ .panic ∧ loadFresh e ≠ .panic ∧ loadScratch e ≠ .fatal ∧ loadFresh e ≠ .fatal := by
  intro e
  refine ⟨no_panic_of_applicable_veto_krill_usage hiv hA ops hu op, ?_⟩
  obtain ⟨h1, h2, _⟩ := replay_eq_live_krill_usage hiv ops hu 0
  simp only [e, h1, h2, expected]
  cases finalOf (specRunH ([] : Log A) ops) <;> simp

/-- An aggregate whose `apply` has no panic arm (e.g. `RepositoryAccess`, access.rs:333-342: two
`HashMap` updates): nothing to assume. -/
theorem total_apply_never_panics (hiv : A.initVersion ≤ 1)
    (htot : ∀ s e, (A.apply s e).isSome = true) (ops : List (Op A)) (op : Op A) :
    let e := run (Ent.empty : Ent A) ops
    (step e op).2 ≠ some .panic ∧
    loadScratch e ≠ .panic ∧ loadFresh e ≠ .panic ∧ loadScratch e ≠ .fatal ∧ loadFresh e ≠ .fatal :=
  store_never_panics hiv (processApplicable_of_total htot).toV ops op

/-! ### non-vacuity -/

/-- The register aggregate meets the hypothesis `initVersion ≤ 1` for both of krill's
conventions … -/
example : (Reg.regAgg 1).initVersion ≤ 1 ∧ (Reg.regAgg 0).initVersion ≤ 1 := by decide

/-- … and `process` only emits applicable events (the only partial event is `subbed`). -/
theorem reg_applicable (iv : Nat) : ProcessApplicable (Reg.regAgg iv) := by
  intro s c evs _ hp
  cases c with
  | add n =>
    simp only [Reg.regAgg, Reg.process] at hp
    split at hp
    · cases hp; rfl
    · split at hp
      · cases hp
      · cases hp; simp [applyEvents, Reg.regAgg, Reg.apply]
  | sub n =>
    simp only [Reg.regAgg, Reg.process] at hp
    split at hp
    · cases hp; rfl
    · split at hp
      · cases hp
      · rename_i h1 h2
        cases hp
        have : n ≤ s.count := Nat.le_of_not_lt h2
        simp [applyEvents, Reg.regAgg, Reg.apply, this]
  | setName nm =>
    simp only [Reg.regAgg, Reg.process] at hp
    split at hp <;> cases hp <;> first | rfl | simp [applyEvents, Reg.regAgg, Reg.apply]
  | multi n =>
    simp only [Reg.regAgg, Reg.process] at hp
    split at hp
    · cases hp
    · cases hp
      exact Reg.multi_applicable iv n s
  | fail => simp [Reg.regAgg, Reg.process] at hp
  | guarded n =>
    simp only [Reg.regAgg, Reg.process] at hp
    split at hp
    · cases hp; rfl
    · split at hp
      · cases hp
      · cases hp; simp [applyEvents, Reg.regAgg, Reg.apply]

/-- A concrete history with an accepted, a rejected, a no-op and a vetoed command, a snapshot
in the middle, a cache drop and a second store object: all three ways of loading agree on
version 4, count 2. -/
example :
    let ops : List (Op (Reg.regAgg 1)) :=
      [.add 0 "u" "n0" false, .cmd 0 ⟨"u", .add 2⟩ false, .snap 1 false, .cmd 0 ⟨"v", .fail⟩ false,
       .cmd 1 ⟨"u", .add 0⟩ false, .cmd 0 ⟨"u", .guarded 1⟩ false, .restart 0,
       .cmd 2 ⟨"w", .setName "n1"⟩ false]
    let e := run (Ent.empty : Ent (Reg.regAgg 1)) ops
    (match loadScratch e with | .ok v => some (v.version, v.st.count, v.st.name) | _ => none)
      = some (4, 2, "n1") ∧
    (match loadFresh e with | .ok v => some (v.version, v.st.count, v.st.name) | _ => none)
      = some (4, 2, "n1") ∧
    (match (getLatest e 1).2 with | .ok v => some (v.version, v.st.count, v.st.name) | _ => none)
      = some (4, 2, "n1") ∧
    e.kv.snapshot.map (·.version) = some 2 := by decide

/-- The hypothesis of `no_panic_of_applicable` is needed: an aggregate whose `process` emits
an event outside the domain of `apply` makes the command panic (nothing is stored; the
stored history still replays, as `replay_total` says). -/
def badAgg : Agg where
  State := Nat
  Cmd := Unit
  Ev := Unit
  InitCmd := Unit
  InitEv := Unit
  Err := Unit
  initVersion := 1
  init := fun _ => 0
  processInit := fun _ => .ok ()
  process := fun _ _ => .ok [()]
  apply := fun _ _ => none
  preSave := fun _ _ => none

example :
    let e := run (Ent.empty : Ent badAgg) [.add 0 "u" () false]
    (match (command e 0 ⟨"u", ()⟩).2 with | .panic => true | _ => false) = true ∧
    (match loadScratch (command e 0 ⟨"u", ()⟩).1 with | .ok v => v.version | _ => 0) = 1 := by
  decide

/-- The veto-aware hypothesis is strictly weaker: in `vetoAgg` the listener refuses everything, so
the only state the store ever holds is the initial one, where `process` emits an applicable event;
without regard to the veto the state 1 would be "reachable", and there `apply` panics. -/
@[reducible] def vetoAgg : Agg where
  State := Nat
  Cmd := Unit
  Ev := Unit
  InitCmd := Unit
  InitEv := Unit
  Err := Unit
  initVersion := 1
  init := fun _ => 0
  processInit := fun _ => .ok ()
  process := fun _ _ => .ok [()]
  apply := fun s _ => if s = 0 then some 1 else none
  preSave := fun _ _ => some ()

theorem veto_hypothesis_strictly_weaker :
    ProcessApplicableV vetoAgg ∧ ¬ ProcessApplicable vetoAgg := by
  have hz : ∀ s, ReachableV vetoAgg s → s = 0 := by
    intro s h
    induction h with
    | init ic ev _ => rfl
    | step s s' c evs _ _ _ hps _ => cases hps
  constructor
  · intro s c evs hr hp
    have := hz s hr
    subst this
    have : evs = [()] := by
      have h' : (Except.ok [()] : Except Unit (List Unit)) = .ok evs := hp
      cases h'; rfl
    subst this
    rfl
  · intro h
    have h0 : Reachable vetoAgg (0 : Nat) := Reachable.init (A := vetoAgg) () () rfl
    have h1 : Reachable vetoAgg (1 : Nat) :=
      Reachable.step (A := vetoAgg) (0 : Nat) (1 : Nat) () [()] h0 rfl rfl
    have := h (1 : Nat) () [()] h1 rfl
    cases this

/-- … and on `vetoAgg` the theorem has content: the command is vetoed (`Out.err`), never panics,
and nothing is stored. -/
example :
    let e := run (Ent.empty : Ent vetoAgg) [.add 0 "u" () false, .cmd 0 ⟨"u", ()⟩ false]
    (match (command e 0 ⟨"u", ()⟩).2 with | .err () => true | _ => false) = true ∧
    (match loadScratch e with | .ok v => some (v.version, v.st) | _ => none) = some (1, 0) := by
  decide

/-! ## The real aggregates (`ES/Instances.lean`) -/

section Instances
open KM.ES.Inst

/-- **ca_replay_never_panics.**  `CertAuth` (model `Ca/CertAuth.lean`) behind the store, with its
pre-save listener (`CaObjectsStore`, model `Ca/ObjKeys.lean`; a batch it refuses makes the command
fail and nothing is stored) and any further pre-save failure `env` (task queue): no operation of
any store history panics – commands accepted, refused, vetoed by the listener, failed writes, reads,
snapshots, cache drops, several store objects – and replay from the stored commands alone (or from
the snapshot) is total.  No hypothesis is left: `caAgg_applicable` obtains it from C04's
`process_emits_applicable` through the simulation `caAgg_sim` (every state the store can hold is a
`CaK.Reachable` state). -/
theorem ca_replay_never_panics (env : CaSt → List CaK.Ev → Option Nat)
    (ops : List (Op (caAgg env))) (op : Op (caAgg env)) :
    let e := run (Ent.empty : Ent (caAgg env)) ops
    (step e op).2 ≠ some .panic ∧
    loadScratch e ≠ .panic ∧ loadFresh e ≠ .panic ∧ loadScratch e ≠ .fatal ∧ loadFresh e ≠ .fatal :=
  store_never_panics (Nat.le_refl 1) (caAgg_applicable env) ops op

/-- … also when CAs are deleted and re-created (`drop_aggregate`), under the usage predicate. -/
theorem ca_replay_never_panics_krill_usage (env : CaSt → List CaK.Ev → Option Nat)
    (ops : List (HOp (caAgg env))) (hu : dropSafeB (Ent.empty : Ent (caAgg env)) ops = true)
    (op : Op (caAgg env)) :
    let e := runH (Ent.empty : Ent (caAgg env)) ops
    (step e op).2 ≠ some .panic ∧
    loadScratch e ≠ .panic ∧ loadFresh e ≠ .panic ∧ loadScratch e ≠ .fatal ∧ loadFresh e ≠ .fatal :=
  store_never_panics_krill_usage (Nat.le_refl 1) (caAgg_applicable env) ops hu op

/-- **ca_replay_eq_live.**  `replay_eq_live` for `CertAuth`: replay from scratch, snapshot plus
later commands and every live store object return the same CA (and the same answer of the
listener), the pure replay of the audit log. -/
theorem ca_replay_eq_live (env : CaSt → List CaK.Ev → Option Nat) (ops : List (Op (caAgg env)))
    (i : Nat) :
    let e := run (Ent.empty : Ent (caAgg env)) ops
    loadScratch e = expected (specRun [] ops) ∧
    loadFresh e = expected (specRun [] ops) ∧
    (getLatest e i).2 = expected (specRun [] ops) :=
  replay_eq_live (Nat.le_refl 1) ops i

/-- … for every renderer of results ("in every respect observable through the API"). -/
theorem ca_replay_eq_live_obs (env : CaSt → List CaK.Ev → Option Nat)
    (ops : List (Op (caAgg env))) (R : Obs.Render (caAgg env)) :
    let e := run (Ent.empty : Ent (caAgg env)) ops
    Obs.allAgree [Obs.oRet R (getLatest e 0).2, Obs.oRet R (getLatest e 1).2,
      Obs.oRet R (getLatest e 2).2, Obs.oRet R (loadFresh e), Obs.oRet R (loadScratch e)] = true :=
  replay_eq_live_obs (Nat.le_refl 1) ops R

/-- Non-vacuity (`caHistory`): a complete key roll through three store objects with a snapshot in
the middle, a failed write, a cache drop and two refused commands.  All ways of loading agree on
version 13, class 0 `active` again (under the new key), two classes; the snapshot is the one taken
at version 8, in the middle of the roll. -/
example :
    let e := run (Ent.empty : Ent (caAgg noEnv)) caHistory
    caView (loadScratch e) = some (13, some .active, 2) ∧
    caView (loadFresh e) = some (13, some .active, 2) ∧
    caView (getLatest e 1).2 = some (13, some .active, 2) ∧
    e.kv.snapshot.map (·.version) = some 8 ∧
    (e.kv.snapshot.bind fun v => (AMap.get (CaSt.ca v.st).classes 0).map (·.keys.variant))
      = some .rollPending := by
  decide +kernel

/-- Non-vacuity, a refused command: operation 9 of `caHistory` (a revocation request naming the
class that is still pending, for a key in use in class 0).  Until fix 239f0a59 it passed
`process_command` and `apply` and the listener refused it ("missing resource class": nothing
stored); now `process_command` refuses it (`KeyUseNoIssuedCert`), the store records the failed
command – the log grows by one, the state does not change.  (A listener veto: `vetoAgg`, and the
`env` examples below.) -/
example :
    let e := run (Ent.empty : Ent (caAgg noEnv)) (caHistory.take 9)
    (match (step e (.cmd 0 ⟨"c", .childRevokeKey 7 1 6⟩ false)).2 with
      | some (.err (.refused .noIssuedCert)) => true | _ => false) = true ∧
    (step e (.cmd 0 ⟨"c", .childRevokeKey 7 1 6⟩ false)).1.kv.cmds.length = e.kv.cmds.length + 1 ∧
    caView (getLatest e 0).2 = some (8, some .rollPending, 2) ∧
    (specRun [] caHistory).length = 13 := by
  decide +kernel

/-- Non-vacuity, `env`: a task-queue failure on every key-roll activation makes that command fail
without panic; the CA stays in `rollNew`. -/
example :
    let env : CaSt → List CaK.Ev → Option Nat :=
      fun _ evs => if evs.any (fun e => match e with | .key _ .activated => true | _ => false)
        then some 5 else none
    let ops : List (Op (caAgg env)) :=
      [ .add 0 "admin" none false,
        .cmd 0 ⟨"u", .repoUpdate []⟩ false, .cmd 0 ⟨"u", .addParent 9⟩ false,
        .cmd 0 ⟨"u", .updateEntitlements 9 [⟨0, [1, 2], 100, []⟩] 0 [4]⟩ false,
        .cmd 0 ⟨"u", .updateRcvdCert 0 4 { res := [1, 2], na := 100 } 50 []⟩ false,
        .cmd 0 ⟨"u", .keyrollInit [(0, 8)]⟩ false,
        .cmd 0 ⟨"u", .updateRcvdCert 0 8 { res := [1, 2], na := 100 } 62 []⟩ false ]
    let e := run (Ent.empty : Ent (caAgg env)) ops
    (match (step e (.cmd 0 ⟨"u", .keyrollActivate 70⟩ false)).2 with
      | some (.err (.env 5)) => true | _ => false) = true ∧
    (match loadFresh (step e (.cmd 0 ⟨"u", .keyrollActivate 70⟩ false)).1 with
      | .ok v => (AMap.get (CaSt.ca v.st).classes 0).map (·.keys.variant) | _ => none)
      = some .rollNew := by
  decide

/-- **taproxy_replay_never_panics.**  `TrustAnchorProxy` (model `Ta/Proxy.lean`, with the three
`unwrap()`s of its `apply` as panics: `Inst.applyP`) behind the store, for every behaviour `env` of
its pre-save listener (the task queue): no operation of any store history panics and replay is
total.  Here `process_command` emits applicable events in *every* state
(`ta_process_applicable`), no invariant is needed. -/
theorem taproxy_replay_never_panics (env : Ta.Proxy → List Ta.Ev → Option Nat)
    (ops : List (Op (taProxyAgg env))) (op : Op (taProxyAgg env)) :
    let e := run (Ent.empty : Ent (taProxyAgg env)) ops
    (step e op).2 ≠ some .panic ∧
    loadScratch e ≠ .panic ∧ loadFresh e ≠ .panic ∧ loadScratch e ≠ .fatal ∧ loadFresh e ≠ .fatal :=
  store_never_panics (Nat.le_refl 1) (taProxyAgg_applicable env).toV ops op

theorem taproxy_replay_eq_live (env : Ta.Proxy → List Ta.Ev → Option Nat)
    (ops : List (Op (taProxyAgg env))) (i : Nat) :
    let e := run (Ent.empty : Ent (taProxyAgg env)) ops
    loadScratch e = expected (specRun [] ops) ∧
    loadFresh e = expected (specRun [] ops) ∧
    (getLatest e i).2 = expected (specRun [] ops) :=
  replay_eq_live (Nat.le_refl 1) ops i

/-- The `unwrap()`s are real panic arms of the model (`applyP` is partial) – the theorem is not
about a total function: a `ChildRequestAdded` for an unknown child, a response without a signer. -/
example :
    applyP (Ta.Proxy.init 1) (.childRequestAdded "c" ⟨.issue, 5, 0, [], true, 0⟩) = none ∧
    applyP (Ta.Proxy.init 1) (.signerResponseReceived ⟨3, ⟨1, [], []⟩, []⟩) = none ∧
    (applyP (Ta.Proxy.init 1) (.childAdded "c" [1])).isSome = true := by
  decide

/-- Non-vacuity: signer added, child "c" added, adding child "d" vetoed by the listener (`env`:
nothing stored), a child request, a snapshot by a second store object, a signer request made, a
refused command (second signer request, stored as a failed command), a cache drop. -/
example :
    let env : Ta.Proxy → List Ta.Ev → Option Nat :=
      fun _ evs => if evs.any (fun e => match e with | .childAdded "d" _ => true | _ => false)
        then some 1 else none
    let ops : List (Op (taProxyAgg env)) :=
      [ .add 0 "ta" (.ok 1) false,
        .cmd 0 ⟨"u", .addSigner ⟨2, 3, ⟨1, [], []⟩⟩⟩ false,
        .cmd 0 ⟨"u", .addChild "c" [1, 2]⟩ false,
        .cmd 0 ⟨"u", .addChild "d" [1]⟩ false,
        .cmd 0 ⟨"u", .addChildRequest "c" ⟨.issue, 5, 0, [1], true, 0⟩⟩ false,
        .snap 1 false,
        .cmd 0 ⟨"u", .makeSignerRequest 77⟩ false,
        .cmd 1 ⟨"u", .makeSignerRequest 78⟩ false,
        .restart 0 ]
    let e := run (Ent.empty : Ent (taProxyAgg env)) ops
    let view : Out (taProxyAgg env) → Option (Nat × Option Ta.Nonce × Nat × Nat) := fun o =>
      match o with
      | .ok v => some (v.version, Ta.Proxy.openNonce v.st, (Ta.Proxy.openReq v.st).length,
                       (Ta.Proxy.children v.st).length)
      | _ => none
    view (loadScratch e) = some (6, some 77, 1, 1) ∧
    view (loadFresh e) = some (6, some 77, 1, 1) ∧
    view (getLatest e 0).2 = some (6, some 77, 1, 1) := by
  decide

/-- **tasigner_replay_never_panics.**  `TrustAnchorSigner` (model `Ta/Signer.lean`, split into
`process` and the total `apply` by `Inst.signerProcess` / `Inst.signerApply`,
`signer_apply_process`). -/
theorem tasigner_replay_never_panics (ops : List (Op taSignerAgg)) (op : Op taSignerAgg) :
    let e := run (Ent.empty : Ent taSignerAgg) ops
    (step e op).2 ≠ some .panic ∧
    loadScratch e ≠ .panic ∧ loadFresh e ≠ .panic ∧ loadScratch e ≠ .fatal ∧ loadFresh e ≠ .fatal :=
  store_never_panics (Nat.le_refl 1) taSignerAgg_applicable.toV ops op

theorem tasigner_replay_eq_live (ops : List (Op taSignerAgg)) (i : Nat) :
    let e := run (Ent.empty : Ent taSignerAgg) ops
    loadScratch e = expected (specRun [] ops) ∧
    loadFresh e = expected (specRun [] ops) ∧
    (getLatest e i).2 = expected (specRun [] ops) :=
  replay_eq_live (Nat.le_refl 1) ops i

end Instances

/-! ## The write-ahead-log store -/

section WalStore
open KM.ES.Wal
variable {T : WalT}

/-- **wal_replay_eq_live.**  After every history of the WAL store (creation, accepted / failing /
no-op commands, failed writes, reads, snapshot+truncate at any point, through any store
object, store objects re-created) – with `add` used only for an entity that does not exist
and snapshots taken while the other store objects are up to date (`SafeRun`; that is how krill
uses it) – what a fresh store builds from `snapshot.json` plus the `wal-N.json` files equals
what every live store object returns. -/
theorem wal_replay_eq_live (ops : List (Wal.Op T)) (hs : SafeRun ({} : Wal.Ent T) ops) (i : Nat) :
    let e := Wal.run ({} : Wal.Ent T) ops
    Wal.loadFresh e = (Wal.getLatest e i).2 := by
  intro e
  have h : WState e := run_preserves (Or.inl absent_empty) ops hs
  rcases h with ha | ⟨cur, hc⟩
  · have ha' : Absent { e with cache := [] } := ⟨ha.1, ha.2.1, fun _ => rfl⟩
    simp [Wal.loadFresh, Wal.getLatest, execOpt_absent ha, execOpt_absent ha']
  · simp [Wal.loadFresh, Wal.getLatest, (execOpt_get hc i).1, (execOpt_get hc.clearCache 0).1]

/-- The same with the usage assumption as the decidable predicate `safeRunB` on histories. -/
theorem wal_replay_eq_live_krill_usage (ops : List (Wal.Op T))
    (hu : safeRunB ({} : Wal.Ent T) ops = true) (i : Nat) :
    Wal.loadFresh (Wal.run ({} : Wal.Ent T) ops) = (Wal.getLatest (Wal.run ({} : Wal.Ent T) ops) i).2 :=
  wal_replay_eq_live ops (safeRun_of_B hu) i

/-- **wal_snapshot_safe_iff.**  The side condition is exactly what is needed, not merely
sufficient: on an existing WAL entity, after `update_snapshot` through store object `i` every
store object still returns the current value if and only if every other store object was up
to date when the snapshot (which deletes all `wal-N` keys) was taken. -/
theorem wal_snapshot_safe_iff {e : Wal.Ent T} {cur : WVer T} (h : WInv e cur) (i : Nat) :
    (∀ j, (Wal.getLatest (Wal.updateSnapshot e i).1 j).2 = .ok cur) ↔ othersCurrent e i :=
  snapshot_safe_iff h i

/-- The live value is reached from the stored snapshot through the stored change sets, and
no change set is left over beyond it (nothing to replay twice, nothing lost). -/
theorem wal_live_is_snapshot_plus_sets (ops : List (Wal.Op T)) (hs : SafeRun ({} : Wal.Ent T) ops)
    (i : Nat) (v : WVer T) (h : (Wal.getLatest (Wal.run ({} : Wal.Ent T) ops) i).2 = .ok v) :
    ∃ s, (Wal.run ({} : Wal.Ent T) ops).kv.snapshot = some s ∧
      Reaches (Wal.run ({} : Wal.Ent T) ops).kv s v ∧
      ∀ k, v.revision ≤ k → (Wal.run ({} : Wal.Ent T) ops).kv.getWal k = none := by
  have hw : WState (Wal.run ({} : Wal.Ent T) ops) := run_preserves (Or.inl absent_empty) ops hs
  rcases hw with ha | ⟨cur, hc⟩
  · simp [Wal.getLatest, execOpt_absent ha] at h
  · have := (execOpt_get hc i).1
    simp only [Wal.getLatest] at h
    rw [this] at h
    cases h
    obtain ⟨s, hs1, hs2⟩ := hc.snap
    exact ⟨s, hs1, hs2, hc.above⟩

/-- Non-vacuity of `SafeRun`: a history with a snapshot in the middle taken by a second store
object while the writer is current. -/
example : SafeRun ({} : Wal.Ent Bag.bagT)
    [.add 0 ⟨0, []⟩ false false, .cmd 0 (.put 5) false, .snap 1 false, .cmd 0 (.del 5) false, .get 1] := by
  refine ⟨absent_empty, trivial, ?_, trivial, trivial, trivial⟩
  have hcache : (Wal.step (Wal.step ({} : Wal.Ent Bag.bagT) (.add 0 ⟨0, []⟩ false false)).1
      (.cmd 0 (.put 5) false)).1.cache = [(0, ⟨1, [5]⟩)] := rfl
  intro j c hj hc
  rw [hcache] at hc
  simp only [alookup_cons, alookup_nil] at hc
  split at hc
  · cases hc; rfl
  · cases hc

/-- The hypothesis is needed (modelled quirk, confirmed on the real `WalStore`): store object 0
caches revision 0, store object 1 adds a change set, snapshots (which deletes `wal-0`) –
object 0 can never catch up and keeps returning revision 0 while a fresh store sees
revision 1. -/
theorem wal_snapshot_needs_current_caches :
    let e := Wal.run ({} : Wal.Ent Bag.bagT)
      [.add 0 ⟨0, []⟩ false false, .cmd 1 (.put 5) false, .snap 1 false]
    (match (Wal.getLatest e 0).2 with | .ok v => some (v.revision, v.st) | _ => none) = some (0, []) ∧
    (match Wal.loadFresh e with | .ok v => some (v.revision, v.st) | _ => none) = some (1, [5]) := by
  decide

end WalStore

/-! ## `apply` does not depend on the order in which a map is walked (sixth session, seed C06-r6)

`CertAuth::apply` walks the hash map of children when a child certificate is removed (certauth.rs:426-432).  A stored history
is replayed by another process, with another iteration order of that map: the live state, the replayed state and the state
loaded from a snapshot agree only if the step marks the key for EVERY child that has it in use - "the first child found" (the
seeded change) differs from run to run.  The model's `revokeEverywhere` is a `map`: the theorems say what that means. -/

section ChildMapOrder
open KM.CaK KM.AMap

/-- No child has the key in use afterwards - whoever held it (two children can hold one public key: nothing forbids it). -/
theorem revokeEverywhere_all (children : AMap Handle Child) (k : KeyId) :
    ∀ p ∈ revokeEverywhere children k, p.2.isIssued k = false := by
  intro p hp
  simp only [revokeEverywhere, List.mem_map] at hp
  obtain ⟨q, _, rfl⟩ := hp
  by_cases h : q.2.isIssued k = true
  · simp only [h, if_true]
    simp [Child.isIssued, get_set_self]
  · simpa [h] using h

/-- Children that do not hold the key are left as they are. -/
theorem revokeEverywhere_others (children : AMap Handle Child) (k : KeyId) (q : Handle × Child)
    (hq : q ∈ children) (h : q.2.isIssued k = false) : q ∈ revokeEverywhere children k := by
  simp only [revokeEverywhere, List.mem_map]
  exact ⟨q, hq, by simp [h]⟩

/-- **The result is the same map whatever the order the children are visited in** (up to that order): replay in another
process, with another hash-map order, reaches the same state. -/
theorem revokeEverywhere_order_free (l l' : AMap Handle Child) (k : KeyId) (h : l.Perm l') :
    (revokeEverywhere l k).Perm (revokeEverywhere l' k) := by
  unfold revokeEverywhere
  exact h.map _

/-- Non-vacuity: two children with one key - both are marked; "the first one only" is a different state. -/
example :
    let c : Child := { res := [1], usedKeys := [(9, .inUse 0)] }
    let l : AMap Handle Child := [(1, c), (2, c)]
    (revokeEverywhere l 9).map (fun p => get p.2.usedKeys 9) = [some .revoked, some .revoked] := by decide

end ChildMapOrder
