/-
C20 (source tie) — the hand-written model of the provider chain `Authorizer::authenticate_request`
(`KM.Http.authenticate`, Http/Auth.lean) equals the definition that the translator `pure_fns`
regenerates from `/repo/src/daemon/http/auth/authorizer.rs` on every run (`Generated/PureFnsC20.lean`,
`KM.Gen.C20.Authorizer.authenticate_request`).

`authenticates_iff`, `refused_everywhere`, `wrong_credentials_refused` (Props/C20.lean, Props/C13.lean)
are about `KM.Http.authenticate`: legacy admin-token provider first (if there is one), then the primary
provider unless the legacy one *succeeded* (its error does not stop the chain), then the Unix-socket
peer unless an earlier provider succeeded; success = `Ok(Some(_))`, `Ok(None)` = anonymous, `Err` =
error identity.  With `gen_authenticate_request_eq_model` that order and every fall-through arm are
tied to the Rust statements: reordering the providers, stopping the chain at an error, letting the
socket peer override a presented credential, treating `Ok(None)` of the last provider as success –
each such edit changes the generated definition and this file stops checking.

Instantiation: `ρ` (the returned `(AuthInfo, Option<Token>)`) ↦ `AuthRes`; a provider result
`Result<Option<ρ>, Error>` ↦ `toExcept`; the legacy provider exists iff the primary provider is not
the admin-token provider itself (`Authorizer::new`, modelled by `legacyProvider`).  The session-cache
state the primary provider returns is outside the generated body (`authenticate_state` says when it is
consulted at all).
-/
import KrillModel.Generated.PureFnsC20
import KrillModel.Http.Auth
namespace KM.Props.C20Src
open KM.Http

/-- A provider's `Result<Option<(AuthInfo, Option<Token>)>, Error>`. -/
def toExcept : AuthRes → Except Unit (Option AuthRes)
  | .ok id r => .ok (some (.ok id r))
  | .none => .ok Option.none
  | .err => .error ()

/-- `self.legacy_provider`: `Some` iff the configured primary provider is not the admin-token
provider (authorizer.rs `Authorizer::new`). -/
def legacyOpt (cfg : Config) : Option Unit :=
  match cfg.authType with
  | .configFile => some ()
  | .adminToken => Option.none

/-- The generated chain with the model's providers plugged in. -/
abbrev genAuthenticate (cfg : Config) (st : SessState) (h : Header) (t : Transport) : AuthRes :=
  KM.Gen.C20.Authorizer.authenticate_request (ρ := AuthRes) (ε := Unit) (π := Unit)
    (legacyOpt cfg) (fun _ => toExcept (adminProvider cfg h))
    (toExcept (primaryProvider cfg st h).1) (toExcept (unixProvider cfg t))
    AuthRes.none (fun _ => AuthRes.err)

/-- The chain over abstract provider results, as the model writes it. -/
def chain (r1 r2 r3 : AuthRes) : AuthRes :=
  let a := if r1.isOk then r1 else r2
  if a.isOk then a else r3

theorem authenticate_fst (cfg : Config) (st : SessState) (h : Header) (t : Transport) :
    (authenticate cfg st h t).1 =
      chain (legacyProvider cfg h) (primaryProvider cfg st h).1 (unixProvider cfg t) := by
  simp only [authenticate, chain]
  cases legacyProvider cfg h <;> simp [AuthRes.isOk] <;>
    (cases (primaryProvider cfg st h).1 <;> simp [AuthRes.isOk])

/-- The generated body over arbitrary provider results (legacy provider present). -/
theorem gen_chain_some (r1 r2 r3 : AuthRes) :
    KM.Gen.C20.Authorizer.authenticate_request (ρ := AuthRes) (ε := Unit) (π := Unit)
      (some ()) (fun _ => toExcept r1) (toExcept r2) (toExcept r3) AuthRes.none (fun _ => AuthRes.err)
      = chain r1 r2 r3 := by
  cases r1 <;> cases r2 <;> cases r3 <;> rfl

/-- … and without a legacy provider: the chain starts with `Ok(None)`. -/
theorem gen_chain_none (r1 : Unit → Except Unit (Option AuthRes)) (r2 r3 : AuthRes) :
    KM.Gen.C20.Authorizer.authenticate_request (ρ := AuthRes) (ε := Unit) (π := Unit)
      Option.none r1 (toExcept r2) (toExcept r3) AuthRes.none (fun _ => AuthRes.err)
      = chain AuthRes.none r2 r3 := by
  cases r2 <;> cases r3 <;> rfl

/-- `Authorizer::authenticate_request` as translated from the source = the model the C20 theorems
are about, for every configuration, session state, header and transport. -/
theorem gen_authenticate_request_eq_model (cfg : Config) (st : SessState) (h : Header) (t : Transport) :
    genAuthenticate cfg st h t = (authenticate cfg st h t).1 := by
  rw [authenticate_fst]
  unfold genAuthenticate legacyOpt legacyProvider
  cases cfg.authType with
  | configFile => exact gen_chain_some _ _ _
  | adminToken => exact gen_chain_none _ _ _

/-- When the model consults the primary provider at all (its session-cache effect): exactly when the
legacy provider did not succeed – the `_ =>` arm of the second `match`. -/
theorem authenticate_state (cfg : Config) (st : SessState) (h : Header) (t : Transport) :
    (authenticate cfg st h t).2 =
      if (legacyProvider cfg h).isOk then st else (primaryProvider cfg st h).2 := by
  simp only [authenticate]
  cases legacyProvider cfg h <;> simp [AuthRes.isOk]

/-- Non-vacuity / what the order means: an ERROR of the legacy provider does not stop the chain, a
success does; a socket peer never overrides a successful earlier provider. -/
example (id : String) (r r' : Role) :
    chain .err (.ok id r) .none = .ok id r ∧ chain (.ok id r) .err (.ok "peer" r') = .ok id r ∧
      chain .err .err (.ok "peer" r') = .ok "peer" r' ∧ chain .none .none .none = .none := by
  simp [chain, AuthRes.isOk]

end KM.Props.C20Src
