/-
C05 (source tie) — the hand-written model of `Routes::process_updates` (`KM.Ca.processUpdates`,
Ca/Roa.lean: the fold of `removeStep` over the removals, then of `addStep` over the additions, then
the all-or-nothing verdict) equals the definition that the translator `pure_fns` regenerates from
`/repo/src/server/ca/roa.rs` on every run (`Generated/PureFnsC05.lean`,
`KM.Gen.C05.Routes.process_updates` with its two loops).

`roa_delta_iff`, `roa_delta_errors_exact`, `roa_delta_all_or_nothing` (Props/C05.lean) are about
`processUpdates`: removals first, each against the running copy; then every addition against the
running copy – invalid max length, prefix not held, already present with the same comment (a
different comment is a comment update), otherwise added (so that a duplicate inside one delta is
seen); any collected error refuses the whole delta.  With `gen_process_updates_eq_model` every test,
its place in the `else if` chain, what each branch records and the final verdict are tied to the Rust
statements: two arms swapped, a guard dropped, the running copy not updated, an error that no longer
refuses the delta – each such edit changes the generated definition and this file stops checking.

Instantiation: the route map ↦ the model's association list (`Routes.has/remove/add/updateComment/
get?`), the key of a payload ↦ the payload, `RoaDeltaError::add_*` ↦ appending to the model's four
lists, `is_held_by(all_resources)` ↦ the parameter `held`, `max_length_valid` ↦ `Input.maxLengthValid`
(itself tied to the source by `Props/C16SrcFns.lean`).
-/
import KrillModel.Generated.PureFnsC05
import KrillModel.Ca.Roa
namespace KM.Props.C05Src
open KM.Ca KM.Bgp KM.Input

/-- The generated body with the model's operations plugged in. -/
abbrev genPU (r : Routes) (held : Roa → Bool) (u : RoaUpdates) :
    Except DeltaError (Routes × List RouteEv) :=
  KM.Gen.C05.Routes.process_updates (Rt := Routes) (Ev := RouteEv) (Δ := DeltaError) (π := Roa) (κ := RoaConf)
    (χ := String) (ε := DeltaError)
    r {} u.removed u.added Routes.has Routes.remove Routes.add Routes.updateComment Routes.get?
    (fun c => c.payload) (fun c => c.comment) maxLengthValid held
    (fun e p => { e with unknowns := e.unknowns ++ [p] })
    (fun e c => { e with invalidLength := e.invalidLength ++ [c] })
    (fun e c => { e with notheld := e.notheld ++ [c] })
    (fun e c => { e with duplicates := e.duplicates ++ [c] })
    DeltaError.isEmpty RouteEv.removed RouteEv.added RouteEv.comment id

/-- The verdict after the two loops. -/
def finish (acc : Acc) : Except DeltaError (Routes × List RouteEv) :=
  if acc.errs.isEmpty then .ok (acc.desired, acc.evs) else .error acc.errs

section
variable (r : Routes) (held : Roa → Bool) (u : RoaUpdates)

abbrev gLoop2 (e : DeltaError) (evs : List RouteEv) (d : Routes) (l : List RoaConf) :=
  KM.Gen.C05.Routes.process_updates.loop2 (Rt := Routes) (Ev := RouteEv) (Δ := DeltaError) (π := Roa) (κ := RoaConf)
    (χ := String) (ε := DeltaError)
    r {} u.removed u.added Routes.has Routes.remove Routes.add Routes.updateComment Routes.get?
    (fun c => c.payload) (fun c => c.comment) maxLengthValid held
    (fun e p => { e with unknowns := e.unknowns ++ [p] })
    (fun e c => { e with invalidLength := e.invalidLength ++ [c] })
    (fun e c => { e with notheld := e.notheld ++ [c] })
    (fun e c => { e with duplicates := e.duplicates ++ [c] })
    DeltaError.isEmpty RouteEv.removed RouteEv.added RouteEv.comment id e evs d l

abbrev gLoop (e : DeltaError) (evs : List RouteEv) (d : Routes) (l : List Roa) :=
  KM.Gen.C05.Routes.process_updates.loop (Rt := Routes) (Ev := RouteEv) (Δ := DeltaError) (π := Roa) (κ := RoaConf)
    (χ := String) (ε := DeltaError)
    r {} u.removed u.added Routes.has Routes.remove Routes.add Routes.updateComment Routes.get?
    (fun c => c.payload) (fun c => c.comment) maxLengthValid held
    (fun e p => { e with unknowns := e.unknowns ++ [p] })
    (fun e c => { e with invalidLength := e.invalidLength ++ [c] })
    (fun e c => { e with notheld := e.notheld ++ [c] })
    (fun e c => { e with duplicates := e.duplicates ++ [c] })
    DeltaError.isEmpty RouteEv.removed RouteEv.added RouteEv.comment id e evs d l

/-- One round of the second loop is `addStep`. -/
theorem loop2_cons (c : RoaConf) (t : List RoaConf) (acc : Acc) :
    gLoop2 r held u acc.errs acc.evs acc.desired (c :: t)
      = gLoop2 r held u (addStep held acc c).errs (addStep held acc c).evs (addStep held acc c).desired t := by
  unfold gLoop2
  rw [KM.Gen.C05.Routes.process_updates.loop2]
  unfold addStep
  cases hv : maxLengthValid c.payload
  · simp [hv]
  · cases hh : held c.payload
    · simp [hv, hh]
    · cases hg : Routes.get? acc.desired c.payload with
      | none => cases hc : c.comment <;> simp [hv, hh, hg]
      | some cur =>
        by_cases hne : cur = c.comment
        · simp [hv, hh, hg, hne]
        · simp [hv, hh, hg, hne]

/-- The second loop is the fold of `addStep`, followed by the verdict. -/
theorem loop2_eq (l : List RoaConf) (acc : Acc) :
    gLoop2 r held u acc.errs acc.evs acc.desired l = finish (l.foldl (addStep held) acc) := by
  induction l generalizing acc with
  | nil =>
    unfold gLoop2 KM.Gen.C05.Routes.process_updates.loop2 KM.Gen.C05.Routes.process_updates.after2 finish
    cases h : acc.errs.isEmpty <;> simp [h]
  | cons c t ih => rw [loop2_cons, ih, List.foldl_cons]

/-- One round of the first loop is `removeStep`. -/
theorem loop_cons (p : Roa) (t : List Roa) (acc : Acc) :
    gLoop r held u acc.errs acc.evs acc.desired (p :: t)
      = gLoop r held u (removeStep acc p).errs (removeStep acc p).evs (removeStep acc p).desired t := by
  unfold gLoop
  rw [KM.Gen.C05.Routes.process_updates.loop]
  unfold removeStep
  cases hh : Routes.has acc.desired p <;> simp

/-- The first loop is the fold of `removeStep`, followed by the second loop. -/
theorem loop_eq (l : List Roa) (acc : Acc) :
    gLoop r held u acc.errs acc.evs acc.desired l
      = finish (u.added.foldl (addStep held) (l.foldl removeStep acc)) := by
  induction l generalizing acc with
  | nil =>
    unfold gLoop KM.Gen.C05.Routes.process_updates.loop KM.Gen.C05.Routes.process_updates.after
    exact loop2_eq r held u u.added acc
  | cons p t ih => rw [loop_cons, ih, List.foldl_cons]

end

/-- `Routes::process_updates` as translated from the source = the model the C05 theorems are about,
for every configuration, every set of held resources and every delta. -/
theorem gen_process_updates_eq_model (r : Routes) (held : Roa → Bool) (u : RoaUpdates) :
    genPU r held u = processUpdates r held u := by
  unfold genPU KM.Gen.C05.Routes.process_updates processUpdates
  have := loop_eq r held u u.removed { desired := r }
  simp only [gLoop] at this
  simp only [this, finish]

/-! non-vacuity on the generated body: a valid delta; a delta whose LAST entry is bad is refused as a
whole; a duplicate inside one delta is seen through the running copy -/
def p1 : Roa := ⟨64496, ⟨.v4, 0x0a000000, 8⟩, some 8⟩
def p2 : Roa := ⟨64497, ⟨.v4, 0x0a000000, 8⟩, some 8⟩
def bad : Roa := ⟨64497, ⟨.v4, 0x0a000000, 8⟩, some 7⟩
def okOf : Except DeltaError (Routes × List RouteEv) → Option (List RouteEv)
  | .ok x => some x.2
  | .error _ => none
example : okOf (genPU [] (fun _ => true) ⟨[⟨p1, none⟩, ⟨p2, some "x"⟩], []⟩)
    = some [.added p1, .added p2, .comment p2 (some "x")] := by decide
example : okOf (genPU [] (fun _ => true) ⟨[⟨p1, none⟩, ⟨bad, none⟩], []⟩) = none := by decide
example : okOf (genPU [] (fun _ => true) ⟨[⟨p1, none⟩, ⟨p1, none⟩], []⟩) = none := by decide
example : okOf (genPU [(p1, none)] (fun _ => true) ⟨[⟨p1, none⟩], [p1]⟩) = some [.removed p1, .added p1] := by decide

end KM.Props.C05Src
