/-
C08 — A crash or failed write at any instant is recoverable without loss or divergence.
Property theorems over `KM.Fault` (generic in the aggregate and the listeners).
-/
import KrillModel.Fault.Lemmas
import KrillModel.Fault.FsOrder
namespace KM.Props.C08
open KM.Fault
variable {S C Ev Er O T : Type} [DecidableEq T]

/-- The log after any cut is the old log or the old log plus the one new record – never
anything in between (every entity loads: the state is the replay of a well-formed log). -/
theorem cut_log_prefix (sys : Sys S C Ev Er O T) (w : World C Ev Er O T) (c : C) (k : Nat) :
    (crashAt sys w c k).log = w.log ∨ (crashAt sys w c k).log = (exec sys w c).log := by
  rw [crashAt_log, exec_log]
  split
  · left; rfl
  · right; rfl

/-- **Every entity loads and the state is all-or-nothing.**  After a cut at any `k` the
reloaded state is the state before the command or the state after it. -/
theorem crash_state_all_or_nothing (sys : Sys S C Ev Er O T) (w : World C Ev Er O T) (c : C)
    (k : Nat) :
    state sys (crashAt sys w c k) = state sys w ∨
    state sys (crashAt sys w c k) = state sys (exec sys w c) := by
  rcases cut_log_prefix sys w c k with h | h
  · left; simp [state, h]
  · right; simp [state, h]

/-- **An acknowledged command is never lost**: once all mutations are through (the call
returned), the persistent world is that of the fault-free execution. -/
theorem acked_never_lost (sys : Sys S C Ev Er O T) (w : World C Ev Er O T) (c : C) (k : Nat)
    (h : (execMuts sys w c).length ≤ k) : crashAt sys w c k = exec sys w c := by
  unfold crashAt exec
  rw [List.take_of_length_le h]

/-- **Audit log and state agree at every cut**: the state reflects the command exactly when
its record is in the log. -/
theorem log_state_atomic (sys : Sys S C Ev Er O T) (w : World C Ev Er O T) (c : C) (k : Nat) :
    (logged sys w c k = true → state sys (crashAt sys w c k) = state sys (exec sys w c)) ∧
    (logged sys w c k = false → state sys (crashAt sys w c k) = state sys w) := by
  constructor
  · intro hl
    have := (logged_iff sys w c k).mp hl
    rcases crashAt_cases sys w c k with ⟨hk, _⟩ | ⟨_, h⟩
    · omega
    · rw [h]
  · intro hl
    have hlog : (crashAt sys w c k).log = w.log := by
      rw [crashAt_log]
      split
      · rfl
      · rename_i hk
        have hk' : (pre sys w c).length < k := Nat.lt_of_not_le hk
        cases hr : rec? sys w c with
        | none => simp
        | some r =>
          have : logged sys w c k = true := (logged_iff sys w c k).mpr ⟨hk', by simp [hr]⟩
          rw [this] at hl; cases hl
    simp [state, hlog]

/-- **The published-object set and the task queue are never behind the log**: if the
command's record is in the log after the cut, the whole persistent world is that of the
fault-free execution. -/
theorem objects_never_behind (sys : Sys S C Ev Er O T) (w : World C Ev Er O T) (c : C) (k : Nat)
    (hl : logged sys w c k = true) : crashAt sys w c k = exec sys w c := by
  have := (logged_iff sys w c k).mp hl
  rcases crashAt_cases sys w c k with ⟨hk, _⟩ | ⟨_, h⟩
  · omega
  · exact h

/-- Rejected commands and commands without effect are fully atomic: at every cut the whole
world is the old one or the new one. -/
theorem rejected_and_noop_atomic (sys : Sys S C Ev Er O T) (w : World C Ev Er O T) (c : C)
    (k : Nat)
    (h : (∃ e, sys.process (state sys w) c = .error e) ∨ sys.process (state sys w) c = .ok []) :
    crashAt sys w c k = w ∨ crashAt sys w c k = exec sys w c := by
  have hpre : pre sys w c = [] := by
    unfold pre
    rcases h with ⟨e, hp⟩ | hp <;> simp [hp]
  rcases crashAt_cases sys w c k with ⟨_, h1⟩ | ⟨_, h1⟩
  · left; rw [h1, hpre]; simp [applyMuts]
  · right; exact h1

/-- `atomic_per_command_partial`: a command whose events touch neither the published-object
set nor the task queue is atomic in all three stores at every cut.  (The full statement –
for *every* command – is false of this code: `objects_ahead_of_log` below, finding F-C08-1.) -/
theorem atomic_per_command_partial (sys : Sys S C Ev Er O T) (w : World C Ev Er O T) (c : C)
    (k : Nat)
    (hobj : ∀ evs, sys.objUpd w.objects (state sys w) evs = none)
    (htask : ∀ evs, sys.tasks (state sys w) evs = []) :
    crashAt sys w c k = w ∨ crashAt sys w c k = exec sys w c := by
  have hpre : pre sys w c = [] := by
    unfold pre
    cases hp : sys.process (state sys w) c with
    | error e => rfl
    | ok evs =>
      cases evs with
      | nil => rfl
      | cons e evs => simp [hobj, htask]
  rcases crashAt_cases sys w c k with ⟨_, h1⟩ | ⟨_, h1⟩
  · left; rw [h1, hpre]; simp [applyMuts]
  · right; exact h1

/-! ### The non-atomic window (finding F-C08-1) and convergence after re-submission -/

/-- A tiny concrete system: the state counts events, the object set mirrors the count. -/
def demo : Sys Nat Unit Unit Unit Nat Nat where
  init := 0
  process := fun _ _ => .ok [()]
  apply := fun s _ => s + 1
  objUpd := fun _ s evs => some (s + evs.length)
  tasks := fun s _ => [s]

/-- The full all-or-nothing statement over audit log, state *and* published-object set is
false: cut after the object-set write and before the command write. -/
theorem objects_ahead_of_log :
    let w : World Unit Unit Unit Nat Nat := ⟨[], 0, []⟩
    logged demo w () 1 = false ∧ state demo (crashAt demo w () 1) = state demo w ∧
    (crashAt demo w () 1).objects ≠ w.objects ∧
    (crashAt demo w () 1).objects = (exec demo w ()).objects := by
  decide

/-- **Re-submission converges.**  If the object-set listener is idempotent for the command's
events (writing the set twice gives the same set) and its "does not touch the set" verdict
does not depend on the current set, then after a cut at any point before the command was
logged, submitting the same request again yields the log, state and object set of the
fault-free run, and the same set of pending tasks. -/
theorem resubmit_converges (sys : Sys S C Ev Er O T) (w : World C Ev Er O T) (c : C) (k : Nat)
    (hl : logged sys w c k = false)
    (hidem : ∀ o s evs o', sys.objUpd o s evs = some o' → sys.objUpd o' s evs = some o')
    (hnone : ∀ o s evs, sys.objUpd o s evs = none → ∀ o2, sys.objUpd o2 s evs = none) :
    let w' := exec sys (crashAt sys w c k) c
    w'.log = (exec sys w c).log ∧ state sys w' = state sys (exec sys w c) ∧
    w'.objects = (exec sys w c).objects ∧
    ∀ t, t ∈ w'.tasks ↔ t ∈ (exec sys w c).tasks := by
  intro w'
  let w1 := crashAt sys w c k
  have hst : state sys w1 = state sys w := (log_state_atomic sys w c k).2 hl
  have hlog1 : w1.log = w.log := by
    have := crashAt_log sys w c k
    rcases crashAt_cases sys w c k with ⟨hk, _⟩ | ⟨hk, _⟩
    · rw [if_pos hk] at this; exact this
    · rw [if_neg (Nat.not_le_of_lt hk)] at this
      cases hr : rec? sys w c with
      | none => rw [hr] at this; simpa using this
      | some r =>
        have : logged sys w c k = true := (logged_iff sys w c k).mpr ⟨hk, by simp [hr]⟩
        rw [this] at hl; cases hl
  -- the crashed world: a prefix of the listener mutations was applied
  have hw1 : ∃ j, j ≤ (pre sys w c).length ∧ w1 = applyMuts w ((pre sys w c).take j) := by
    rcases crashAt_cases sys w c k with ⟨hk, h⟩ | ⟨hk, h⟩
    · exact ⟨k, hk, h⟩
    · refine ⟨(pre sys w c).length, Nat.le_refl _, ?_⟩
      -- not logged although everything went through: there is no record; exec = applyMuts w pre
      have hr : rec? sys w c = none := by
        cases hr : rec? sys w c with
        | none => rfl
        | some r =>
          have : logged sys w c k = true := (logged_iff sys w c k).mpr ⟨hk, by simp [hr]⟩
          rw [this] at hl; cases hl
      show crashAt sys w c k = _
      rw [h, exec_eq, hr, List.take_length]; simp [applyMuts]
  obtain ⟨j, hj, hw1eq⟩ := hw1
  have hrec : rec? sys w1 c = rec? sys w c := by unfold rec?; rw [hst]
  -- the listener mutations of the re-submission are the same as in the fault-free run
  have hobj1 : w1.objects = (lastObj ((pre sys w c).take j)).getD w.objects := by
    rw [hw1eq]; exact objects_applyMuts _ _
  have hpre : pre sys w1 c = pre sys w c := by
    unfold pre
    rw [hst]
    cases hp : sys.process (state sys w) c with
    | error e => rfl
    | ok evs =>
      cases evs with
      | nil => rfl
      | cons e evs =>
        simp only
        cases ho : sys.objUpd w.objects (state sys w) (e :: evs) with
        | none => rw [hnone _ _ _ ho w1.objects]
        | some o' =>
          -- w1.objects is w.objects or o'
          have hcase : w1.objects = w.objects ∨ w1.objects = o' := by
            rw [hobj1]
            have hp' : pre sys w c = [Mut.setObjects o'] ++
                (sys.tasks (state sys w) (e :: evs)).map Mut.addTask := by
              unfold pre; simp [hp, ho]
            rw [hp']
            cases j with
            | zero => left; simp [lastObj]
            | succ n =>
              right
              simp only [List.singleton_append, List.take_succ_cons, lastObj]
              have : ∀ (l : List T) (n : Nat),
                  lastObj (List.take n (l.map (Mut.addTask (C := C) (Ev := Ev) (Er := Er) (O := O)))) = none := by
                intro l
                induction l with
                | nil => intro n; simp [lastObj]
                | cons a t ih => intro n; cases n <;> simp [lastObj, ih]
              rw [this]; rfl
          rcases hcase with h | h
          · rw [h, ho]
          · rw [h, hidem _ _ _ _ ho]
  have hw' : w' = applyMuts (applyMuts w1 (pre sys w c)) ((rec? sys w c).toList.map .appendLog) := by
    show exec sys w1 c = _
    rw [exec_eq, hpre, hrec]
  have hex := exec_eq sys w c
  have hnl := pre_noLog sys w c
  refine ⟨?_, ?_, ?_, ?_⟩
  · rw [hw', hex, (log_applyMuts_append _ _).1, (log_applyMuts_append _ _).1,
      applyMuts_log_of_noLog _ _ hnl, applyMuts_log_of_noLog _ _ hnl, hlog1]
  · have : w'.log = (exec sys w c).log := by
      rw [hw', hex, (log_applyMuts_append _ _).1, (log_applyMuts_append _ _).1,
        applyMuts_log_of_noLog _ _ hnl, applyMuts_log_of_noLog _ _ hnl, hlog1]
    simp [state, this]
  · rw [hw', hex, (log_applyMuts_append _ _).2.1, (log_applyMuts_append _ _).2.1,
      objects_applyMuts, objects_applyMuts, hobj1]
    cases h : lastObj (pre sys w c) with
    | some o => simp
    | none =>
      -- no object write at all: the prefix has none either
      have : ∀ (l : List (Mut C Ev Er O T)) (n : Nat), lastObj l = none → lastObj (l.take n) = none := by
        intro l
        induction l with
        | nil => intro n _; simp [lastObj]
        | cons a t ih =>
          intro n hn
          cases n with
          | zero => simp [lastObj]
          | succ n =>
            cases a with
            | setObjects o =>
              simp only [lastObj] at hn
              cases hh : lastObj t <;> simp [hh] at hn
            | addTask t' => simp only [lastObj, List.take_succ_cons] at hn ⊢; exact ih n hn
            | appendLog r => simp only [lastObj, List.take_succ_cons] at hn ⊢; exact ih n hn
      rw [this _ j h]; simp
  · intro t
    rw [hw', hex, (log_applyMuts_append _ _).2.2, (log_applyMuts_append _ _).2.2,
      mem_tasks_applyMuts, mem_tasks_applyMuts, hw1eq, mem_tasks_applyMuts]
    constructor
    · rintro ((h | h) | h)
      · exact Or.inl h
      · exact Or.inr (List.mem_of_mem_take h)
      · exact Or.inr h
    · rintro (h | h)
      · exact Or.inl (Or.inl h)
      · exact Or.inr h

/-- Non-vacuity of `resubmit_converges`: the demo system meets its hypotheses at a cut in the
non-atomic window. -/
example :
    logged demo (⟨[], 0, []⟩ : World Unit Unit Unit Nat Nat) () 1 = false ∧
    (∀ o s evs o', demo.objUpd o s evs = some o' → demo.objUpd o' s evs = some o') ∧
    (∀ o s evs, demo.objUpd o s evs = none → ∀ o2, demo.objUpd o2 s evs = none) := by
  refine ⟨by decide, ?_, ?_⟩
  · intro o s evs o' h; simpa [demo] using h
  · intro o s evs h; simp [demo] at h

/-! ### Whole histories: any number of requests, each completed or cut anywhere -/

/-- **A history with faults is, for audit log and state, a fault-free history of exactly the
requests that reached the log.**  For every sequence of requests, each run to completion or
cut at any mutation (crash + restart, or one failed write), the log – and therefore the
reloaded state of the entity – equals that of running, without any fault, just the requests
whose record was written; a cut request is completely present or completely absent, and
what other requests did to the published-object set or the task queue in between has no
influence on it. -/
theorem hist_log_eq_clean (sys : Sys S C Ev Er O T) (h : List (C × Option Nat))
    (w w2 : World C Ev Er O T) (hw : w.log = w2.log) :
    (runHist sys w h).log = (runClean sys w2 (survivors sys w h)).log := by
  induction h generalizing w w2 with
  | nil => simpa [runHist, survivors, runClean] using hw
  | cons x h ih =>
    obtain ⟨c, ok⟩ := x
    cases ok with
    | none =>
      simp only [runHist, survivors, runClean, List.foldl_cons]
      exact ih _ _ (exec_log_congr sys w w2 c hw)
    | some k =>
      simp only [runHist, survivors]
      cases hl : logged sys w c k with
      | true =>
        simp only [if_true, runClean, List.foldl_cons]
        apply ih
        rw [crashAt_log_of_logged sys w c k hl]
        exact exec_log_congr sys w w2 c hw
      | false =>
        simp only [Bool.false_eq_true, if_false]
        apply ih
        rw [crashAt_log_of_not_logged sys w c k hl]
        exact hw

/-- The state every instance loads after such a history. -/
theorem hist_state_eq_clean (sys : Sys S C Ev Er O T) (h : List (C × Option Nat))
    (w : World C Ev Er O T) :
    state sys (runHist sys w h) = state sys (runClean sys w (survivors sys w h)) :=
  state_congr sys _ _ (hist_log_eq_clean sys h w w rfl)

/-- Acknowledged requests are never lost, at history level: every request that ran to
completion is among the survivors, in order. -/
theorem hist_acked_survive (sys : Sys S C Ev Er O T) (h : List (C × Option Nat))
    (w : World C Ev Er O T) :
    (h.filterMap fun x => if x.2.isNone then some x.1 else none).Sublist (survivors sys w h) := by
  induction h generalizing w with
  | nil => simp [survivors]
  | cons x h ih =>
    obtain ⟨c, ok⟩ := x
    cases ok with
    | none => simpa [survivors] using ih _
    | some k =>
      simp only [survivors, List.filterMap_cons, Option.isNone_some, Bool.false_eq_true, if_false]
      split
      · exact List.Sublist.cons _ (ih _)
      · exact ih _

/-- Non-vacuity: in the demo system a history with a cut in the objects-ahead window and a
later completed request has exactly the completed one in its log. -/
example :
    let w : World Unit Unit Unit Nat Nat := ⟨[], 0, []⟩
    survivors demo w [((), some 1), ((), none), ((), some 3)] = [(), ()] ∧
    (runHist demo w [((), some 1), ((), none), ((), some 3)]).log.length = 2 := by
  decide

/-! ### File-system mutations of the repository writer ("the published tree is still
relying-party valid" at every cut between two file-system mutations) -/

open KM.Fault.Fs in
/-- One mutation following the discipline keeps the tree valid. -/
theorem fs_step_valid (d : Disk) (m : Mut) (hv : d.valid) (hok : stepOk d m = true) :
    (apply d m).valid := by
  cases m with
  | write g => simp [apply, Disk.valid] at *; exact Or.inr hv
  | commit g => simpa [apply, Disk.valid, stepOk] using hok
  | cleanup g =>
    simp [apply, Disk.valid, stepOk] at *
    exact ⟨hv, fun h => hok h.symm⟩
  | other => simpa [apply] using hv

open KM.Fault.Fs in
/-- **Every cut is valid**: for every mutation sequence that follows the discipline (any
number of updates, any retention), the tree a relying party finds after a crash at any
cut `k` names a generation that is present. -/
theorem fs_every_cut_valid (d : Disk) (ms : List Mut) (hv : d.valid) (hok : runOk d ms = true) :
    ∀ k, (after d ms k).valid := by
  induction ms generalizing d with
  | nil => intro k; simpa [after] using hv
  | cons m ms ih =>
    intro k
    simp [runOk] at hok
    cases k with
    | zero => simpa [after] using hv
    | succ k =>
      have := ih (apply d m) (fs_step_valid d m hv hok.1) hok.2 k
      simpa [after, List.take, List.foldl] using this

open KM.Fault.Fs in
/-- `firstBad` finds a breach exactly when the run does not follow the discipline. -/
theorem fs_firstBad_none_iff (d : Disk) (ms : List Mut) (i : Nat) :
    firstBad d ms i = none ↔ runOk d ms = true := by
  induction ms generalizing d i with
  | nil => simp [firstBad, runOk]
  | cons m ms ih =>
    simp only [firstBad, runOk]
    cases h : stepOk d m <;> simp [ih]

open KM.Fault.Fs in
/-- The writer's order on the unchanged tree (write, commit, then clean up) follows the
discipline; hypotheses are satisfiable. -/
example : runOk ⟨9, [9, 8]⟩ [.write 10, .other, .commit 10, .cleanup 8, .cleanup 9, .other] = true ∧
    (⟨9, [9, 8]⟩ : Disk).valid := by decide

open KM.Fault.Fs in
/-- Cleaning up before the commit breaks it, and a crash right after the clean-up leaves a
notification naming a snapshot that is gone. -/
theorem fs_cleanup_before_commit_invalid :
    runOk ⟨9, [9]⟩ [.write 10, .cleanup 9, .commit 10] = false ∧
    ¬ (after ⟨9, [9]⟩ [.write 10, .cleanup 9, .commit 10] 2).valid := by decide

end KM.Props.C08
