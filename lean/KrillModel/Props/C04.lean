/-
C04 — Key rollover is safe in every interleaving and always completes.
Property theorems only; helper lemmas live in `KrillModel/Ca/Lemmas*.lean`.
-/
import KrillModel.Ca.LemmasDomain
import KrillModel.Ca.LemmasReach
import KrillModel.Ca.LemmasRoll
import KrillModel.Ca.LemmasKeySync
namespace KM.Props.C04
open KM KM.CaK KM.AMap KM.Generated.ApplyDomain

/-! ## The model's partiality is the source's panic domain -/

/-- `Ca.apply` returns a state exactly when the table GENERATED from `CertAuth::apply`,
`ResourceClass::apply_*` and `KeyState` says the arm does not reach `panic!`/`unwrap()`:
the class is there where the arm unwraps the class look-up, the child is there where it unwraps
the child look-up, and the key state is one of the variants whose `apply_*` arm is not a panic
arm.  Editing a panic arm in rc.rs changes the table and this theorem no longer checks. -/
theorem apply_domain_matches_model (s : Ca) (e : Ev) : (s.apply e).isSome = applicable s e :=
  apply_isSome_eq_applicable s e

/-- The event kinds the model does not distinguish (`Ev.other`) never panic in any state. -/
theorem other_kinds_total :
    ∀ k ∈ otherKinds, dom k = ⟨false, false, false, [], allVariants⟩ := by decide

/-- Non-vacuity: an event in its panic domain and one outside. -/
example :
    applicable { classes := [(0, Rc.create 9 0 1)] } (.key 0 (.pendingToActive ⟨1, { res := [1] }, false⟩)) = true ∧
    applicable { classes := [(0, Rc.create 9 0 1)] } (.key 0 .activated) = false ∧
    applicable {} (.childKeyRevoked 5 7 1) = false := by decide

/-! ## `process` only emits events that can be applied -/

/-
Full statement (false on this tree, see `revoke_under_mapping_panics` below – F-C04-1):

  theorem process_emits_applicable (h : Reachable s) (hp : s.ca.process c = .ok evs) :
      (s.ca.applyAll evs).isSome ∧ ∃ o', s.objs.stepAll evs = .ok o'

The proved statement has the extra hypothesis `RevokeOk s.ca c`: for a revocation request the
class the child's name is translated to exists and is past `pending`.  Every other command –
key rolls, received certificates, entitlements, child and configuration commands, parents,
repository – is covered without restriction.
-/

/-- For every reachable state and every modelled command, the events `process` returns are
applied by `apply` without reaching a panic arm or an `unwrap` of `None`, and the pre-save
listener that maintains the published object sets accepts them. -/
theorem process_emits_applicable_partial {s : Sys} {c : Cmd} {evs : List Ev} (h : Reachable s)
    (hok : RevokeOk s.ca c) (hp : s.ca.process c = .ok evs) :
    (s.ca.applyAll evs).isSome = true ∧ ∃ o', s.objs.stepAll evs = .ok o' := by
  have hinv := reachable_inv h
  obtain ⟨s', hrun, _⟩ := readySeq_run hinv (process_readySeq hinv hok hp)
  obtain ⟨ca', o'⟩ := s'
  obtain ⟨h1, h2⟩ := runEvs_some_iff.mp hrun
  exact ⟨by simp [h1], o', h2⟩

/-- The same, stated on the generated table: every emitted event is, at the moment it is
applied, in the panic-free domain read from the source. -/
theorem process_emits_in_domain {s : Sys} {c : Cmd} {evs : List Ev} (h : Reachable s)
    (hok : RevokeOk s.ca c) (hp : s.ca.process c = .ok evs) :
    ∀ (pre post : List Ev) (e : Ev), evs = pre ++ e :: post →
      ∃ s1, s.ca.applyAll pre = some s1 ∧ applicable s1 e = true := by
  intro pre post e hsplit
  obtain ⟨hsome, _⟩ := process_emits_applicable_partial h hok hp
  rw [hsplit, applyAll_append] at hsome
  cases h1 : s.ca.applyAll pre with
  | none => simp [h1] at hsome
  | some s1 =>
    refine ⟨s1, rfl, ?_⟩
    simp only [h1, Option.bind_some, Ca.applyAll] at hsome
    rw [← apply_domain_matches_model]
    cases h2 : s1.apply e with
    | none => simp [h2] at hsome
    | some _ => rfl

/-- F-C04-1: with a class-name mapping to a class the parent does not have, a revocation
request of the child makes `process` return `ChildKeyRevoked` for the unknown class, and
`apply` unwraps `None` (certauth.rs:391-393).  Reachable state, concrete witness. -/
def witnessMapped : List Cmd :=
  [ .repoUpdate [], .addParent 9,
    .updateEntitlements 9 [⟨0, [1, 2], 100, []⟩] 0 [4],
    .updateRcvdCert 0 4 { res := [1, 2], na := 100 } 50 [],
    .childAdd 7 [1, 2],
    .childCertify 7 0 6 none 60,
    .childMapping 7 5 0 ]

theorem revoke_under_mapping_panics :
    ∃ s c evs, Reachable s ∧ s.ca.process c = .ok evs ∧ s.exec c = .panic :=
  ⟨Sys.run {} witnessMapped, .childRevokeKey 7 0 6,
    [.childKeyRevoked 7 5 6, .childCerts 5 { removed := [6] }],
    reachable_run .init _, by decide, by decide⟩

/-- Hence the unrestricted statement is false. -/
theorem not_process_emits_applicable :
    ¬ ∀ (s : Sys) (c : Cmd) (evs : List Ev), Reachable s → s.ca.process c = .ok evs →
      (s.ca.applyAll evs).isSome = true := by
  intro hall
  obtain ⟨s, c, evs, hr, hp, hex⟩ := revoke_under_mapping_panics
  have := hall s c evs hr hp
  unfold Sys.exec at hex
  rw [hp] at hex
  cases ha : s.ca.applyAll evs with
  | none => rw [ha] at this; cases this
  | some ca' =>
    simp only [ha] at hex
    cases ho : s.objs.stepAll evs <;> simp [ho] at hex

/-- Non-vacuity: the same request without the mapping is stored (both sides accept the events). -/
example :
    (match (Sys.run {} (witnessMapped.take 6)).exec (.childRevokeKey 7 0 6) with
      | .stored evs _ => evs == [.childKeyRevoked 7 0 6, .childCerts 0 { removed := [6] }]
      | _ => false) = true := by decide

/-! ## Mirror: aggregate key state ↔ published object sets -/

/-- In every reachable state each resource class and its published object sets agree:
`pending` ↔ no object class, `active`/`rollPending` ↔ `current`, `rollNew` ↔ `staging`,
`rollOld` ↔ `old`, with the same keys holding the same certificates, and there is no object
class without a resource class (no key publishes without a certificate held by the aggregate).
It is preserved by every event batch because every reachable state has it. -/
theorem mirror {s : Sys} (h : Reachable s) : s.mirrorOk = true := by
  have hinv := (reachable_inv h).core
  simp only [Sys.mirrorOk, Bool.and_eq_true, List.all_eq_true]
  constructor
  · intro r _
    have := hinv.cls r
    cases hg : get s.ca.classes r with
    | none => rfl
    | some rc => rw [hg] at this; exact this.1
  · intro r hr
    have := hinv.cls r
    cases hg : get s.ca.classes r with
    | some rc => rfl
    | none =>
      rw [hg] at this
      simp only [ClsInv] at this
      have hs := get_isSome_iff_mem_keys.mpr hr
      rw [this] at hs; cases hs

/-- One batch: a stored command takes a mirrored pair to a mirrored pair. -/
theorem mirror_step {s : Sys} (h : Reachable s) (c : Cmd) : (s.next c).mirrorOk = true :=
  mirror (Reachable.step c h)

/-- Keys of one class are pairwise different in every reachable state (what routing a received
certificate by key identifier relies on). -/
theorem keys_distinct {s : Sys} (h : Reachable s) (r : Rcn) (rc : Rc) (hg : get s.ca.classes r = some rc) :
    rc.keys.distinct = true := by
  have := (reachable_inv h).core.cls r
  rw [hg] at this; exact this.2.1

/-! ## Single signer -/

/-- In every reachable state only the current key set of a class carries products: the staging
set (new key before activation) and the old set (old key after activation) publish nothing but
their manifest and CRL. -/
theorem single_signer {s : Sys} (h : Reachable s) : s.singleSigner = true := by
  have hinv := (reachable_inv h).core
  simp only [Sys.singleSigner, List.all_eq_true]
  intro r _
  cases hgo : get s.objs r with
  | none => rfl
  | some ok =>
    have := hinv.cls r
    rw [hgo] at this
    cases hg : get s.ca.classes r with
    | none => rw [hg] at this; simp [ClsInv] at this
    | some rc => rw [hg] at this; exact this.2.2 ok rfl

/-! ## A second roll request is a no-op -/

/-- `append_keyroll_initiate` emits nothing unless the class is `Active`. -/
theorem initiate_nonactive_emits_nothing (ks : KeyState) (k : KeyId) (h : ks.variant ≠ .active) :
    ks.keyrollInitiate k = [] := by
  cases ks <;> simp [KeyState.keyrollInitiate, KeyState.variant] at h ⊢

/-- Every event of a key-roll initiate is about a class that is `Active`. -/
theorem initiate_only_active {s : Sys} {fresh : AMap Rcn KeyId} {evs : List Ev} (h : Reachable s)
    (hp : s.ca.process (.keyrollInit fresh) = .ok evs) :
    ∀ e ∈ evs, ∃ r rc c, e.rcn? = some r ∧ get s.ca.classes r = some rc ∧ rc.keys = .active c := by
  intro e he
  have hnd := (reachable_inv h).core.nodup
  simp only [Ca.process] at hp
  split at hp
  · simp only [Except.ok.injEq] at hp; subst hp; cases he
  · split at hp
    · cases hp
    · rw [keyrollInitLoop_eq] at hp
      obtain ⟨p, hpm, a, ha, hea⟩ := mem_forClasses hp he
      cases hk : p.2.keys with
      | active c =>
        refine ⟨p.1, p.2, c, ?_, classes_get_of_mem hnd p hpm, hk⟩
        have hon := (initClass_ready fresh p.1 p.2 a ha).1 e hea
        cases e <;> simp [Ev.onClass] at hon <;> simp [Ev.rcn?]
        · rename_i r' ke
          cases ke <;> simp [Ev.onClass] at hon <;> exact hon
        · exact hon
        · exact hon
      | pending _ => rw [initClass_nonactive (by simp [hk, KeyState.variant]) ha] at hea; cases hea
      | rollPending _ _ => rw [initClass_nonactive (by simp [hk, KeyState.variant]) ha] at hea; cases hea
      | rollNew _ _ => rw [initClass_nonactive (by simp [hk, KeyState.variant]) ha] at hea; cases hea
      | rollOld _ _ => rw [initClass_nonactive (by simp [hk, KeyState.variant]) ha] at hea; cases hea

/-- After a stored key-roll initiate no class is `Active`, so a second initiate – with whatever
new keys – emits no event (and so changes nothing): a second roll request during a roll is a
no-op. -/
theorem second_roll_noop {s s' : Sys} {f1 f2 : AMap Rcn KeyId} {evs evs2 : List Ev} (h : Reachable s)
    (hex : s.exec (.keyrollInit f1) = .stored evs s')
    (hp2 : s'.ca.process (.keyrollInit f2) = .ok evs2) : evs2 = [] := by
  have hinv := reachable_inv h
  have hnd := hinv.core.nodup
  obtain ⟨hp, hr⟩ := exec_stored_iff.mp hex
  have hs' : Reachable s' := by
    have := Reachable.step (.keyrollInit f1) h
    unfold Sys.next at this; rw [hex] at this; exact this
  have hnd' := (reachable_inv hs').core.nodup
  obtain ⟨ca', o'⟩ := s'
  obtain ⟨hs, _⟩ := runEvs_some_iff.mp hr
  -- no class of the new state is active
  have hnon : ∀ p ∈ ca'.classes, p.2.keys.variant ≠ .active := by
    simp only [Ca.process] at hp
    split at hp
    · rename_i hemp
      simp only [Except.ok.injEq] at hp; subst hp
      simp only [Ca.applyAll, Option.some.injEq] at hs; subst hs
      intro p hpm
      simp only [List.isEmpty_iff] at hemp
      rw [hemp] at hpm; cases hpm
    · split at hp
      · cases hp
      · rw [keyrollInitLoop_eq] at hp
        obtain ⟨h1, h2⟩ := forClasses_post (fun rc => rc.keys.variant ≠ .active)
          (fun r rc evs h => ⟨(initClass_ready f1 r rc evs h).1, initClass_post f1 r rc evs h⟩)
          hnd (classes_get_of_mem hnd) hp hs
        intro p hpm
        have hgp := get_of_mem_nodup hnd' hpm
        by_cases hin : p.1 ∈ keys s.ca.classes
        · obtain ⟨q, hq, hq1⟩ := List.mem_map.mp hin
          obtain ⟨rc', hg', hQ⟩ := h1 q hq
          rw [hq1] at hg'
          simp only at hgp
          rw [hgp] at hg'; cases hg'; exact hQ
        · have := h2 p.1 hin
          simp only at hgp
          rw [hgp] at this
          have hnone : get s.ca.classes p.1 = none := by
            cases hg : get s.ca.classes p.1 with
            | none => rfl
            | some rc => exact absurd (mem_keys_of_get hg) hin
          rw [hnone] at this; cases this
  simp only [Ca.process] at hp2
  split at hp2
  · simp only [Except.ok.injEq] at hp2; exact hp2.symm
  · split at hp2
    · cases hp2
    · rw [keyrollInitLoop_eq] at hp2
      exact forClasses_nil hp2 (fun p hpm a ha => initClass_nonactive (hnon p hpm) ha)

/-- Non-vacuity: a roll in progress, a second initiate. -/
example :
    let s := Sys.run {} [.repoUpdate [], .addParent 9,
      .updateEntitlements 9 [⟨0, [1, 2], 100, []⟩] 0 [4],
      .updateRcvdCert 0 4 { res := [1, 2], na := 100 } 50 [], .keyrollInit [(0, 5)]]
    (get s.ca.classes 0).map (·.keys.variant) = some .rollPending ∧
    s.ca.process (.keyrollInit [(0, 6)]) = .ok [] := by decide

/-! ## A roll always completes -/

/-
Full statement: from every reachable `Sys` state with a roll in progress in some class, and any
interleaved operations, the schedule (sync with the parent, activate, sync with the parent)
repeated at most 3 times leaves the class `Active` with one key, given the parent answers.

Proved (`roll_completes_partial`): the statement for the class's key-state machine
(`Ca/KeySync.lean`: `syncStep` = "pending requests → revocation confirmed, certificates received
for every open request, else entitlements → requests created"; `activateStep`), for **every**
well-formed key state with a roll in progress, every offer of the parent and every clock value –
and two rounds suffice.  What is missing for the full statement: the projection of the
`Sys`-level manager steps onto this machine is checked on traces by the `syskeys` driver, not
proved; at the `Sys` level `KeyRollActivate` is refused as a whole while *any* class has a new
key with open requests (certauth.rs:2101-2112), `activate_key` / `shrink_overclaiming` can fail
for child certificates with request limits, and under the TA the answers need a proxy/signer
exchange in between.
-/

/-- From every well-formed key state with a roll in progress (`RollPending`, `RollNew`,
`RollOld`, any request flags, any certificates), two rounds of (sync, activate, sync) with an
answering parent end in `Active` with a single key. -/
theorem roll_completes_partial (ks : KeyState) (hwf : ks.wf = true) (hr : ks.rolling = true)
    (o : Offer) (now : Int) : ∃ c, (ks.round o now).round o now = .active c := by
  obtain ⟨h1, hwf1⟩ := abs_round hwf o now
  obtain ⟨h2, _⟩ := abs_round hwf1 o now
  have ha := aState_two_rounds (ks.abs o now) (abs_wf hwf o now) (by rw [abs_rolling]; exact hr)
  rw [← h1, ← h2, abs_isActive] at ha
  cases hk : (ks.round o now).round o now with
  | active c => exact ⟨c, rfl⟩
  | pending _ => rw [hk] at ha; simp [KeyState.variant] at ha
  | rollPending _ _ => rw [hk] at ha; simp [KeyState.variant] at ha
  | rollNew _ _ => rw [hk] at ha; simp [KeyState.variant] at ha
  | rollOld _ _ => rw [hk] at ha; simp [KeyState.variant] at ha

/-- Once `Active`, further rounds keep the class `Active` (the roll stays finished). -/
theorem active_stays_active (c : CertKey) (o : Offer) (now : Int) :
    ∃ c', (KeyState.active c).round o now = .active c' := by
  have hwf : (KeyState.active c).wf = true := rfl
  obtain ⟨h1, _⟩ := abs_round hwf o now
  have : ((KeyState.active c).abs o now).round.isActive = true := by
    generalize hgen : (c.abs o now) = ak
    obtain ⟨r, w⟩ := ak
    simp only [KeyState.abs, hgen]
    cases r <;> cases w <;> decide
  rw [← h1, abs_isActive] at this
  cases hk : (KeyState.active c).round o now with
  | active c' => exact ⟨c', rfl⟩
  | pending _ => rw [hk] at this; simp [KeyState.variant] at this
  | rollPending _ _ => rw [hk] at this; simp [KeyState.variant] at this
  | rollNew _ _ => rw [hk] at this; simp [KeyState.variant] at this
  | rollOld _ _ => rw [hk] at this; simp [KeyState.variant] at this

/-- Non-vacuity: the longest path – a roll whose pending key has no request on file and whose
current key has an outdated certificate. -/
example :
    let ks : KeyState := .rollPending ⟨2, false⟩ ⟨1, { res := [1, 2, 3], na := 1000 }, false⟩
    let o : Offer := ⟨[1, 2], 2000⟩
    ks.wf = true ∧ ks.rolling = true ∧
    (ks.round o 0).variant = .rollNew ∧
    ((ks.round o 0).round o 0) = .active ⟨2, o.cert, false⟩ := by decide

end KM.Props.C04
