/-
C04 — Key rollover is safe in every interleaving and always completes.
Property theorems only; helper lemmas live in `KrillModel/Ca/Lemmas*.lean`.
-/
import KrillModel.Ca.LemmasDomain
namespace KM.Props.C04
open KM.CaK KM.AMap KM.Generated.ApplyDomain

/-! ## The model's partiality is the source's panic domain -/

/-- `Ca.apply` returns a state exactly when the table GENERATED from `CertAuth::apply`,
`ResourceClass::apply_*` and `KeyState` says the arm does not reach `panic!`/`unwrap()`:
the class is there where the arm unwraps the class look-up, the child is there where it unwraps
the child look-up, and the key state is one of the variants whose `apply_*` arm is not a panic
arm.  Editing a panic arm in rc.rs changes the table and this theorem no longer checks. -/
theorem apply_domain_matches_model (s : Ca) (e : Ev) : (s.apply e).isSome = applicable s e :=
  apply_isSome_eq_applicable s e

/-- The event kinds the model does not distinguish (`Ev.other`) never panic in any state. -/
theorem other_kinds_total :
    ∀ k ∈ otherKinds, dom k = ⟨false, false, false, [], allVariants⟩ := by decide

/-- Non-vacuity: an event in its panic domain and one outside. -/
example :
    applicable { classes := [(0, Rc.create 9 0 1)] } (.key 0 (.pendingToActive ⟨1, { res := [1] }, false⟩)) = true ∧
    applicable { classes := [(0, Rc.create 9 0 1)] } (.key 0 .activated) = false ∧
    applicable {} (.childKeyRevoked 5 7 1) = false := by decide

end KM.Props.C04
