/-
C04 — Key rollover is safe in every interleaving and always completes.
Property theorems only; helper lemmas live in `KrillModel/Ca/Lemmas*.lean`.
-/
import KrillModel.Ca.LemmasDomain
import KrillModel.Ca.Witnesses
import KrillModel.Ca.LemmasReach
import KrillModel.Ca.LemmasRoll
import KrillModel.Ca.LemmasKeySync
import KrillModel.Ca.LemmasActivate
import KrillModel.Ca.LemmasTidyReach
import KrillModel.Ca.LemmasProgress
namespace KM.Props.C04
open KM KM.CaK KM.AMap KM.Generated.ApplyDomain

/-! ## The model's partiality is the source's panic domain -/

/-- `Ca.apply` returns a state exactly when the table GENERATED from `CertAuth::apply`,
`ResourceClass::apply_*` and `KeyState` says the arm does not reach `panic!`/`unwrap()`:
the class is there where the arm unwraps the class look-up, the child is there where it unwraps
the child look-up, and the key state is one of the variants whose `apply_*` arm is not a panic
arm.  Editing a panic arm in rc.rs changes the table and this theorem no longer checks. -/
theorem apply_domain_matches_model (s : Ca) (e : Ev) : (s.apply e).isSome = applicable s e :=
  apply_isSome_eq_applicable s e

/-- The event kinds the model does not distinguish (`Ev.other`) never panic in any state. -/
theorem other_kinds_total :
    ∀ k ∈ otherKinds, dom k = ⟨false, false, false, [], allVariants⟩ := by decide

/-- Non-vacuity: an event in its panic domain and one outside. -/
example :
    applicable { classes := [(0, Rc.create 9 0 1)] } (.key 0 (.pendingToActive ⟨1, { res := [1] }, false⟩)) = true ∧
    applicable { classes := [(0, Rc.create 9 0 1)] } (.key 0 .activated) = false ∧
    applicable {} (.childKeyRevoked 5 7 1) = false := by decide

/-! ## `process` only emits events that can be applied -/

/-- `process_emits_applicable` (full, since fix 43d7eca0): for every reachable state and every
modelled command – key rolls, received certificates, entitlements, child commands including
revocation requests under any class-name mapping, configuration, parents, repository – the
events `process` returns are applied by `apply` without reaching a panic arm or an `unwrap` of
`None`. -/
theorem process_emits_applicable {s : Sys} {c : Cmd} {evs : List Ev} (h : Reachable s)
    (hp : s.ca.process c = .ok evs) : (s.ca.applyAll evs).isSome = true := by
  have hinv := reachable_inv h
  by_cases hok : RevokeOk s.ca c
  · obtain ⟨s', hrun, _⟩ := readySeq_run hinv (process_readySeq hinv hok hp)
    obtain ⟨ca', o'⟩ := s'
    obtain ⟨h1, _⟩ := runEvs_some_iff.mp hrun
    simp [h1]
  · cases c with
    | childRevokeKey ch childRcn ki => exact revoke_applies hp
    | _ => exact absurd trivial hok

/-- The same, stated on the generated table: every emitted event is, at the moment it is
applied, in the panic-free domain read from the source. -/
theorem process_emits_in_domain {s : Sys} {c : Cmd} {evs : List Ev} (h : Reachable s)
    (hp : s.ca.process c = .ok evs) :
    ∀ (pre post : List Ev) (e : Ev), evs = pre ++ e :: post →
      ∃ s1, s.ca.applyAll pre = some s1 ∧ applicable s1 e = true := by
  intro pre post e hsplit
  have hsome := process_emits_applicable h hp
  rw [hsplit, applyAll_append] at hsome
  cases h1 : s.ca.applyAll pre with
  | none => simp [h1] at hsome
  | some s1 =>
    refine ⟨s1, rfl, ?_⟩
    simp only [h1, Option.bind_some, Ca.applyAll] at hsome
    rw [← apply_domain_matches_model]
    cases h2 : s1.apply e with
    | none => simp [h2] at hsome
    | some _ => rfl

/-- Hence no command of any history ends in the panic outcome. -/
theorem never_panics {s : Sys} (h : Reachable s) (c : Cmd) : s.exec c ≠ .panic := by
  intro hex
  unfold Sys.exec at hex
  cases hp : s.ca.process c with
  | error e => simp [hp] at hex
  | ok evs =>
    have := process_emits_applicable h hp
    simp only [hp] at hex
    cases ha : s.ca.applyAll evs with
    | none => rw [ha] at this; cases this
    | some ca' =>
      simp only [ha] at hex
      cases ho : s.objs.stepAll evs <;> simp [ho] at hex

/-- The pre-save listener that maintains the published object sets accepts the events as well –
for EVERY reachable state and EVERY command (full statement since fix 239f0a59: a revocation is
executed only for a key that is in use in the class the request names, and such a class is past
`pending`, so its object sets exist; before that fix a request naming a `pending` class made the
listener fail – `pinned_revoke_for_pending_class_listener_error`). -/
theorem listener_accepts {s : Sys} {c : Cmd} {evs : List Ev} (h : Reachable s)
    (hp : s.ca.process c = .ok evs) : ∃ o', s.objs.stepAll evs = .ok o' := by
  have hinv := reachable_inv h
  obtain ⟨s', hrun, _⟩ := readySeq_run hinv (process_readySeq_all hinv hp)
  obtain ⟨ca', o'⟩ := s'
  exact ⟨o', (runEvs_some_iff.mp hrun).2⟩

/-- Hence in a reachable state a command is refused or stored – never a panic, never a listener
error. -/
theorem exec_refused_or_stored {s : Sys} (h : Reachable s) (c : Cmd) :
    (∃ e, s.exec c = .refused e) ∨ ∃ evs s', s.exec c = .stored evs s' := by
  cases hp : s.ca.process c with
  | error e => left; exact ⟨e, by simp [Sys.exec, hp]⟩
  | ok evs =>
    right
    have hinv := reachable_inv h
    obtain ⟨s', hrun, _⟩ := readySeq_run hinv (process_readySeq_all hinv hp)
    exact ⟨evs, s', exec_stored_iff.mpr ⟨hp, hrun⟩⟩

/-- The corner the partial statement used to exclude: class 1 exists but is pending, the child
(certified under class 0) names class 1 in a revocation request.  Counter-model of the PINNED tree
(before 239f0a59): the request was executed for class 1 and the listener failed (the command was
not stored).  On the current tree it is refused by `process` (F-C03-3). -/
theorem pinned_revoke_for_pending_class_listener_error :
    let s := Sys.run {} pendingClassHistory
    Reachable s ∧ s.pinnedExec (.childRevokeKey 7 1 6) = .listenerError .missingClass ∧
    s.exec (.childRevokeKey 7 1 6) = .refused .noIssuedCert :=
  ⟨reachable_run .init _, by decide, by decide⟩

/-- Counter-model of the pinned tree (before 43d7eca0, F-C04-1): with the class test made on the
child's name, a mapping to a class this CA does not have made `process` return
`ChildKeyRevoked` for the unknown class, and `apply` unwrapped `None` (certauth.rs:391-393).
On the fixed tree the same request is answered with no event.  Since fix 02d8de59 the mapping of
that history itself (`.childMapping 7 5 0`: a missing class onto the name of the class the child is
certified under) is refused, so the state is built with the pinned `process` (`Sys.pinnedRun`);
the last conjunct says the current tree refuses the mapping. -/
theorem pinned_revoke_under_mapping_panics :
    let s := Sys.pinnedRun {} witnessMapped
    s.ca.pinnedRevoke 7 0 6 = .ok [.childKeyRevoked 7 5 6, .childCerts 5 { removed := [6] }] ∧
    s.ca.applyAll [.childKeyRevoked 7 5 6, .childCerts 5 { removed := [6] }] = none ∧
    s.ca.process (.childRevokeKey 7 0 6) = .ok [] ∧
    (Sys.run {} (witnessMapped.take 6)).exec (.childMapping 7 5 0) = .refused .childNameClash := by decide

/-- Counter-model of the pinned tree (F-C03-1): a revocation request under a mapped class name
was answered positively and ignored; on the fixed tree it revokes. -/
theorem pinned_revoke_mapped_ignored :
    let s := Sys.run {} witnessRenamed
    s.ca.pinnedRevoke 7 5 6 = .ok [] ∧
    (match s.exec (.childRevokeKey 7 5 6) with
      | .stored evs s' => evs == [.childKeyRevoked 7 0 6, .childCerts 0 { removed := [6] }] &&
          ((get s'.ca.classes 0).map (·.certs.issued) == some [])
      | _ => false) = true := by decide

/-- Non-vacuity: the request without a mapping is stored (both sides accept the events). -/
example :
    (match (Sys.run {} (witnessMapped.take 6)).exec (.childRevokeKey 7 0 6) with
      | .stored evs _ => evs == [.childKeyRevoked 7 0 6, .childCerts 0 { removed := [6] }]
      | _ => false) = true := by decide

/-! ## Mirror: aggregate key state ↔ published object sets -/

/-- In every reachable state each resource class and its published object sets agree:
`pending` ↔ no object class, `active`/`rollPending` ↔ `current`, `rollNew` ↔ `staging`,
`rollOld` ↔ `old`, with the same keys holding the same certificates, and there is no object
class without a resource class (no key publishes without a certificate held by the aggregate).
It is preserved by every event batch because every reachable state has it. -/
theorem mirror {s : Sys} (h : Reachable s) : s.mirrorOk = true := by
  have hinv := (reachable_inv h).core
  simp only [Sys.mirrorOk, Bool.and_eq_true, List.all_eq_true]
  constructor
  · intro r _
    have := hinv.cls r
    cases hg : get s.ca.classes r with
    | none => rfl
    | some rc => rw [hg] at this; exact this.1
  · intro r hr
    have := hinv.cls r
    cases hg : get s.ca.classes r with
    | some rc => rfl
    | none =>
      rw [hg] at this
      simp only [ClsInv] at this
      have hs := get_isSome_iff_mem_keys.mpr hr
      rw [this] at hs; cases hs

/-- One batch: a stored command takes a mirrored pair to a mirrored pair. -/
theorem mirror_step {s : Sys} (h : Reachable s) (c : Cmd) : (s.next c).mirrorOk = true :=
  mirror (Reachable.step c h)

/-- Keys of one class are pairwise different in every reachable state (what routing a received
certificate by key identifier relies on). -/
theorem keys_distinct {s : Sys} (h : Reachable s) (r : Rcn) (rc : Rc) (hg : get s.ca.classes r = some rc) :
    rc.keys.distinct = true := by
  have := (reachable_inv h).core.cls r
  rw [hg] at this; exact this.2.1

/-! ## Single signer -/

/-- In every reachable state only the current key set of a class carries products: the staging
set (new key before activation) and the old set (old key after activation) publish nothing but
their manifest and CRL. -/
theorem single_signer {s : Sys} (h : Reachable s) : s.singleSigner = true := by
  have hinv := (reachable_inv h).core
  simp only [Sys.singleSigner, List.all_eq_true]
  intro r _
  cases hgo : get s.objs r with
  | none => rfl
  | some ok =>
    have := hinv.cls r
    rw [hgo] at this
    cases hg : get s.ca.classes r with
    | none => rw [hg] at this; simp [ClsInv] at this
    | some rc => rw [hg] at this; exact this.2.2 ok rfl

/-! ## Activation moves every product in one command -/

/-- The command that stores `KeyRollActivated` for a class (new key `n`, current key `c`, both
without open request) leaves the published object sets of that class as follows – **in that
one command**: the set of the old key `c` publishes nothing (manifest and CRL only); the set of
the new key `n`, which published nothing before, publishes a product name exactly when the
class holds that product (ROA, ASPA, router certificate) and a child certificate name exactly
when the key was issued and has no `suspended` entry.  Nothing the class holds is lost, nothing
is published twice. -/
theorem activation_moves_everything {s s' : Sys} (h : Reachable s) {na : Int} {evs : List Ev}
    (hex : s.exec (.keyrollActivate na) = .stored evs s') {r : Rcn} {rc : Rc} {n c : CertKey}
    (hg : get s.ca.classes r = some rc) (hk : rc.keys = .rollNew n c) :
    ∃ cs' os', get s'.objs r = some (.old cs' os') ∧ os'.published = [] ∧ os'.key = c.id ∧ cs'.key = n.id ∧
      ∀ nm : OName, (get cs'.published nm).isSome =
        (match nm with
          | .prod k id => (get rc.products (k, id)).isSome
          | .cer key => (get rc.certs.issued key).isSome && !(get rc.certs.suspended key).isSome) := by
  have hinv := reachable_inv h
  have hnd := hinv.core.nodup
  -- the object class before: staging, publishing nothing
  have hcls := hinv.core.cls r
  rw [hg] at hcls
  obtain ⟨hm, _, hside⟩ := hcls
  rw [hk] at hm
  obtain ⟨ss, cs, hgo, hss, _, hcsk, _⟩ := ksMirror_rollNew.mp hm
  have hemp : ss.published = [] := by
    have := hside _ hgo
    simpa [ObjKeys.sideSetsEmpty] using this
  obtain ⟨hp, hr⟩ := exec_stored_iff.mp hex
  obtain ⟨ca', o'⟩ := s'
  obtain ⟨_, ho⟩ := runEvs_some_iff.mp hr
  simp only [Ca.process] at hp
  rw [activateLoop_eq] at hp
  have honcls : ∀ r rc evs, activateClass r rc na = .ok evs → ∀ e ∈ evs, e.onClass r = true :=
    fun r rc evs h => (activateClass_ready na r rc evs h).1
  obtain ⟨l1, l2, A, a0, B, hl, hA, ha0, hB, hevs⟩ := forClasses_split hp (mem_of_get hg)
  -- names of the other classes differ from `r`
  have hnd' : (keys (l1 ++ (r, rc) :: l2)).Nodup := hl ▸ hnd
  simp only [keys, List.map_append, List.map_cons] at hnd'
  have hr1 : r ∉ keys l1 := by
    intro hm1
    have := List.nodup_append.mp hnd'
    exact this.2.2 r hm1 r (List.mem_cons_self ..) rfl
  have hr2 : r ∉ keys l2 := by
    have := (List.nodup_append.mp hnd').2.1
    exact (List.nodup_cons.mp this).1
  subst hevs
  rw [stepAll_append] at ho
  cases ho1 : s.objs.stepAll A with
  | error e => simp [ho1] at ho
  | ok o1 =>
    simp only [ho1] at ho
    rw [stepAll_append] at ho
    cases ho2 : o1.stepAll a0 with
    | error e => simp [ho2] at ho
    | ok o2 =>
      simp only [ho2] at ho
      have hg1 : get o1 r = some (.staging ss cs) := by
        rw [stepAll_frame (forClasses_other honcls hA hr1) ho1]; exact hgo
      -- the chunk of `r`
      have hnc : ∀ e ∈ a0, e.onClass r = true ∧ e.notCreate = true := by
        intro e he
        refine ⟨honcls r rc a0 ha0 e he, ?_⟩
        have hpay := activateClass_ready na r rc a0 ha0
        -- every event of the chunk is `activated` or a payload event
        unfold activateClass at ha0
        have hn : rc.keys.newKey = some n := by rw [hk]; rfl
        simp only [hn] at ha0
        cases hka : rc.keys.keyrollActivate with
        | error e => simp [hka] at ha0
        | ok kevs =>
          simp only [hka] at ha0
          cases hac : rc.certs.activateKey n.cert na with
          | error e => simp [hac] at ha0
          | ok upd =>
            simp only [hac, Except.ok.injEq] at ha0; subst ha0
            have hkevs : kevs = [.activated] := by
              rw [hk] at hka
              simp only [KeyState.keyrollActivate] at hka
              split at hka <;> cases hka
              rfl
            subst hkevs
            simp only [List.map_cons, List.map_nil, List.cons_append, List.nil_append, List.mem_cons,
              List.mem_append] at he
            rcases he with rfl | ((he | he) | he) | he
            · rfl
            · obtain ⟨u, rfl⟩ := renewal_products r rc .roa e he; rfl
            · obtain ⟨u, rfl⟩ := renewal_products r rc .aspa e he; rfl
            · split at he
              · cases he
              · simp only [List.mem_singleton] at he; subst he; rfl
            · obtain ⟨u, rfl⟩ := renewal_products r rc .bgpsec e he; rfl
      obtain ⟨ok', happ, hg2, _⟩ := stepAll_of_class hnc hg1 ho2
      obtain ⟨cs', happ', hkey, _, hret, hnames⟩ := activate_objs hk ha0 ss cs hemp
      rw [happ'] at happ
      simp only [Except.ok.injEq] at happ; subst happ
      refine ⟨cs', cs.retire, ?_, hret, hcsk, hkey.trans hss, hnames⟩
      simp only
      rw [stepAll_frame (forClasses_other honcls hB hr2) ho]; exact hg2

/-
Full statement (`no_loss_no_dup`): for every reachable state, the set of names the current key
publishes is the same before and after the activation command.

Proved (`no_loss_no_dup_partial`): the statement under the hypothesis that makes it a statement
about the activation command alone – before the command the current set publishes what the
class holds (the `objects_mirror` relation of C01).  The second hypothesis it used to need (no
key both issued and suspended) is an invariant of every history since fix bb96d233
(`reachable_tidy`).  Missing: `objects_mirror` as an invariant (that is property C01) is not
proved here.
-/

/-- If before activation the current set publishes exactly what the class holds, the new key's
set publishes exactly the same names after the activation command, and the old key's set none. -/
theorem no_loss_no_dup_partial {s s' : Sys} (h : Reachable s) {na : Int} {evs : List Ev}
    (hex : s.exec (.keyrollActivate na) = .stored evs s') {r : Rcn} {rc : Rc} {n c : CertKey}
    (hg : get s.ca.classes r = some rc) (hk : rc.keys = .rollNew n c)
    {ss cs : ObjSet} (_hgo : get s.objs r = some (.staging ss cs))
    (hom : ∀ nm : OName, (get cs.published nm).isSome =
      (match nm with
        | .prod k id => (get rc.products (k, id)).isSome
        | .cer key => (get rc.certs.issued key).isSome)) :
    ∃ cs' os', get s'.objs r = some (.old cs' os') ∧ os'.published = [] ∧
      ∀ nm : OName, (get cs'.published nm).isSome = (get cs.published nm).isSome := by
  have ht : TidyC rc.certs := reachable_tidy h r rc hg
  obtain ⟨cs', os', h1, h2, _, _, h5⟩ := activation_moves_everything h hex hg hk
  refine ⟨cs', os', h1, h2, ?_⟩
  intro nm
  rw [h5 nm, hom nm]
  cases nm with
  | prod k id => rfl
  | cer key =>
    simp only
    cases hi : get rc.certs.issued key with
    | none => rfl
    | some cc =>
      have := ht.disj key (by simp [hi])
      simp [this]

/-- Counter-model of the pinned tree (before bb96d233, F-C02-1 seen from the roll): after
suspend → unsuspend the pinned `add_issued_certificate` left key 6 in both maps; `activate_key`
then re-issued both entries and the update dropped the active child's certificate. -/
theorem pinned_activation_loses_stale_child :
    let cc : ChildCert := { res := [1], na := 60 }
    let stale := ((({} : ChildCerts).addIssued (6, cc)).suspend (6, cc)).pinnedAddIssued (6, { cc with na := 61 })
    get stale.issued 6 = some { res := [1], na := 61 } ∧ get stale.suspended 6 = some cc ∧
    (match stale.activateKey { res := [1, 2], na := 100 } 63 with
      | .ok upd => get (stale.pinnedApplyUpd upd).issued 6 == none
      | .error _ => false) = true := by decide

/-- The same history on the fixed tree: the roll keeps the unsuspended child's certificate. -/
example :
    let s := Sys.run {} staleRoll
    (get s.objs 0).map (fun ok => keys ok.currentSet.published) = some [.cer 6, .prod .roa 31] ∧
    (get (s.next (.keyrollActivate 63)).objs 0).map (fun ok => keys ok.currentSet.published) =
      some [.cer 6, .prod .roa 31] ∧
    (get (s.next (.keyrollActivate 63)).ca.classes 0).map (fun rc => (keys rc.certs.issued, keys rc.certs.suspended)) =
      some ([6], []) := by decide

/-- After the command that stores `KeyRollFinished` the old key's set is gone: the class has one
object set, the current one. -/
theorem finish_removes_old_set {s s' : Sys} (h : Reachable s) {r : Rcn} {evs : List Ev}
    (hex : s.exec (.keyrollFinish r) = .stored evs s') :
    ∃ cs, get s'.objs r = some (.current cs) := by
  have hs' : Reachable s' := by
    have := Reachable.step (.keyrollFinish r) h
    unfold Sys.next at this; rw [hex] at this; exact this
  obtain ⟨hp, hr⟩ := exec_stored_iff.mp hex
  obtain ⟨ca', o'⟩ := s'
  obtain ⟨ha, _⟩ := runEvs_some_iff.mp hr
  simp only [Ca.process] at hp
  cases hg : get s.ca.classes r with
  | none => simp [hg] at hp
  | some rc =>
    simp only [hg] at hp
    cases hf : rc.keys.keyrollFinish with
    | error e => simp [hf] at hp
    | ok e =>
      simp only [hf, Except.ok.injEq] at hp; subst hp
      cases hk : rc.keys with
      | rollOld c o =>
        rw [hk] at hf; simp only [KeyState.keyrollFinish, Except.ok.injEq] at hf; subst hf
        simp only [Ca.applyAll, Ca.apply, Ca.withClass, hg, hk, KeyState.apply, KeyState.applyFinished,
          Option.map_some, Option.bind_some, Option.some.injEq] at ha
        subst ha
        have hcls := (reachable_inv hs').core.cls r
        simp only [get_set_self] at hcls
        obtain ⟨hm, _, _⟩ := hcls
        obtain ⟨cs, hcs, _⟩ := ksMirror_active.mp hm
        exact ⟨cs, hcs⟩
      | pending _ => rw [hk] at hf; simp [KeyState.keyrollFinish] at hf
      | active _ => rw [hk] at hf; simp [KeyState.keyrollFinish] at hf
      | rollPending _ _ => rw [hk] at hf; simp [KeyState.keyrollFinish] at hf
      | rollNew _ _ => rw [hk] at hf; simp [KeyState.keyrollFinish] at hf

/-- Non-vacuity of `activation_moves_everything` / `no_loss_no_dup_partial`: a roll with a ROA
and a child certificate. -/
example :
    let s := Sys.run {} (staleRoll.take 7 ++ [.keyrollInit [(0, 5)], .updateRcvdCert 0 5 { res := [1, 2], na := 100 } 62 []])
    (get s.ca.classes 0).map (·.keys.variant) = some .rollNew ∧
    (get s.objs 0).map (fun ok => keys ok.currentSet.published) = some [.prod .roa 31, .cer 6] ∧
    (get (s.next (.keyrollActivate 63)).objs 0).map (fun ok => (keys ok.currentSet.published, ok.sideSetsEmpty)) =
      some ([.cer 6, .prod .roa 31], true) := by decide

/-- "Once the parent confirms revocation … the certificate disappears": a revocation request that
is stored with events leaves no certificate for that key in the parent's class – neither issued
nor suspended – and the key is marked revoked in the child's record. -/
theorem revoke_removes_certificate {s s' : Sys} {ch : Handle} {childRcn : Rcn} {ki : KeyId} {evs : List Ev}
    (hex : s.exec (.childRevokeKey ch childRcn ki) = .stored evs s') (hne : evs ≠ []) :
    ∃ cd rc', get s.ca.children ch = some cd ∧ get s'.ca.classes (cd.nameInParent childRcn) = some rc' ∧
      get rc'.certs.issued ki = none ∧ get rc'.certs.suspended ki = none := by
  obtain ⟨hp, hr⟩ := exec_stored_iff.mp hex
  obtain ⟨ca', o'⟩ := s'
  obtain ⟨ha, _⟩ := runEvs_some_iff.mp hr
  simp only [Ca.process] at hp
  cases hg : get s.ca.children ch with
  | none => simp [hg] at hp
  | some cd =>
    simp only [hg] at hp
    split at hp
    · simp only [Except.ok.injEq] at hp; exact absurd hp.symm hne
    · rename_i hcls
      split at hp
      · split at hp
        · simp only [Except.ok.injEq] at hp; exact absurd hp.symm hne
        · cases hp
      · split at hp
        · cases hp
        simp only [Except.ok.injEq] at hp; subst hp
        cases hrc : get s.ca.classes (cd.nameInParent childRcn) with
        | none => simp [hrc] at hcls
        | some rc =>
          refine ⟨cd, ?_⟩
          simp only [Ca.applyAll, Ca.apply, Ca.withClass, Ca.withChild, hrc, hg, Option.bind_some, get_set,
            if_true, List.foldl_cons, List.foldl_nil, Option.some.injEq] at ha
          subst ha
          simp [get_set, ChildCerts.applyUpd, ChildCerts.removeRevoked, get_del]

/-! ## A second roll request is a no-op -/

/-- `append_keyroll_initiate` emits nothing unless the class is `Active`. -/
theorem initiate_nonactive_emits_nothing (ks : KeyState) (k : KeyId) (h : ks.variant ≠ .active) :
    ks.keyrollInitiate k = [] := by
  cases ks <;> simp [KeyState.keyrollInitiate, KeyState.variant] at h ⊢

/-- Every event of a key-roll initiate is about a class that is `Active`. -/
theorem initiate_only_active {s : Sys} {fresh : AMap Rcn KeyId} {evs : List Ev} (h : Reachable s)
    (hp : s.ca.process (.keyrollInit fresh) = .ok evs) :
    ∀ e ∈ evs, ∃ r rc c, e.rcn? = some r ∧ get s.ca.classes r = some rc ∧ rc.keys = .active c := by
  intro e he
  have hnd := (reachable_inv h).core.nodup
  simp only [Ca.process] at hp
  split at hp
  · simp only [Except.ok.injEq] at hp; subst hp; cases he
  · split at hp
    · cases hp
    · rw [keyrollInitLoop_eq] at hp
      obtain ⟨p, hpm, a, ha, hea⟩ := mem_forClasses hp he
      cases hk : p.2.keys with
      | active c =>
        refine ⟨p.1, p.2, c, ?_, classes_get_of_mem hnd p hpm, hk⟩
        have hon := (initClass_ready fresh p.1 p.2 a ha).1 e hea
        cases e <;> simp [Ev.onClass] at hon <;> simp [Ev.rcn?]
        · rename_i r' ke
          cases ke <;> simp [Ev.onClass] at hon <;> exact hon
        · exact hon
        · exact hon
      | pending _ => rw [initClass_nonactive (by simp [hk, KeyState.variant]) ha] at hea; cases hea
      | rollPending _ _ => rw [initClass_nonactive (by simp [hk, KeyState.variant]) ha] at hea; cases hea
      | rollNew _ _ => rw [initClass_nonactive (by simp [hk, KeyState.variant]) ha] at hea; cases hea
      | rollOld _ _ => rw [initClass_nonactive (by simp [hk, KeyState.variant]) ha] at hea; cases hea

/-- After a stored key-roll initiate no class is `Active`, so a second initiate – with whatever
new keys – emits no event (and so changes nothing): a second roll request during a roll is a
no-op. -/
theorem second_roll_noop {s s' : Sys} {f1 f2 : AMap Rcn KeyId} {evs evs2 : List Ev} (h : Reachable s)
    (hex : s.exec (.keyrollInit f1) = .stored evs s')
    (hp2 : s'.ca.process (.keyrollInit f2) = .ok evs2) : evs2 = [] := by
  have hinv := reachable_inv h
  have hnd := hinv.core.nodup
  obtain ⟨hp, hr⟩ := exec_stored_iff.mp hex
  have hs' : Reachable s' := by
    have := Reachable.step (.keyrollInit f1) h
    unfold Sys.next at this; rw [hex] at this; exact this
  have hnd' := (reachable_inv hs').core.nodup
  obtain ⟨ca', o'⟩ := s'
  obtain ⟨hs, _⟩ := runEvs_some_iff.mp hr
  -- no class of the new state is active
  have hnon : ∀ p ∈ ca'.classes, p.2.keys.variant ≠ .active := by
    simp only [Ca.process] at hp
    split at hp
    · rename_i hemp
      simp only [Except.ok.injEq] at hp; subst hp
      simp only [Ca.applyAll, Option.some.injEq] at hs; subst hs
      intro p hpm
      simp only [List.isEmpty_iff] at hemp
      rw [hemp] at hpm; cases hpm
    · split at hp
      · cases hp
      · rw [keyrollInitLoop_eq] at hp
        obtain ⟨h1, h2⟩ := forClasses_post (fun rc => rc.keys.variant ≠ .active)
          (fun r rc evs h => ⟨(initClass_ready f1 r rc evs h).1, initClass_post f1 r rc evs h⟩)
          hnd (classes_get_of_mem hnd) hp hs
        intro p hpm
        have hgp := get_of_mem_nodup hnd' hpm
        by_cases hin : p.1 ∈ keys s.ca.classes
        · obtain ⟨q, hq, hq1⟩ := List.mem_map.mp hin
          obtain ⟨rc', hg', hQ⟩ := h1 q hq
          rw [hq1] at hg'
          simp only at hgp
          rw [hgp] at hg'; cases hg'; exact hQ
        · have := h2 p.1 hin
          simp only at hgp
          rw [hgp] at this
          have hnone : get s.ca.classes p.1 = none := by
            cases hg : get s.ca.classes p.1 with
            | none => rfl
            | some rc => exact absurd (mem_keys_of_get hg) hin
          rw [hnone] at this; cases this
  simp only [Ca.process] at hp2
  split at hp2
  · simp only [Except.ok.injEq] at hp2; exact hp2.symm
  · split at hp2
    · cases hp2
    · rw [keyrollInitLoop_eq] at hp2
      exact forClasses_nil hp2 (fun p hpm a ha => initClass_nonactive (hnon p hpm) ha)

/-- Non-vacuity: a roll in progress, a second initiate. -/
example :
    let s := Sys.run {} [.repoUpdate [], .addParent 9,
      .updateEntitlements 9 [⟨0, [1, 2], 100, []⟩] 0 [4],
      .updateRcvdCert 0 4 { res := [1, 2], na := 100 } 50 [], .keyrollInit [(0, 5)]]
    (get s.ca.classes 0).map (·.keys.variant) = some .rollPending ∧
    s.ca.process (.keyrollInit [(0, 6)]) = .ok [] := by decide

/-! ## A roll always completes -/

/-
Full statement: from every reachable `Sys` state with a roll in progress in some class, and any
interleaved operations, the schedule (sync with the parent, activate, sync with the parent)
repeated at most 3 times leaves the class `Active` with one key, given the parent answers.

Proved (`roll_completes_partial`): the statement for the class's key-state machine
(`Ca/KeySync.lean`: `syncStep` = "pending requests → revocation confirmed, certificates received
for every open request, else entitlements → requests created"; `activateStep`), for **every**
well-formed key state with a roll in progress, every offer of the parent and every clock value –
and two rounds suffice.  What is missing for the full statement: the projection of the
`Sys`-level manager steps onto this machine is checked on traces by the `syskeys` driver, not
proved; at the `Sys` level `KeyRollActivate` is refused as a whole while *any* class has a new
key with open requests (certauth.rs:2101-2112), `activate_key` / `shrink_overclaiming` can fail
for child certificates with request limits, and under the TA the answers need a proxy/signer
exchange in between.
-/

/-- From every well-formed key state with a roll in progress (`RollPending`, `RollNew`,
`RollOld`, any request flags, any certificates), two rounds of (sync, activate, sync) with an
answering parent end in `Active` with a single key. -/
theorem roll_completes_partial (ks : KeyState) (hwf : ks.wf = true) (hr : ks.rolling = true)
    (o : Offer) (now : Int) : ∃ c, (ks.round o now).round o now = .active c := by
  obtain ⟨h1, hwf1⟩ := abs_round hwf o now
  obtain ⟨h2, _⟩ := abs_round hwf1 o now
  have ha := aState_two_rounds (ks.abs o now) (abs_wf hwf o now) (by rw [abs_rolling]; exact hr)
  rw [← h1, ← h2, abs_isActive] at ha
  cases hk : (ks.round o now).round o now with
  | active c => exact ⟨c, rfl⟩
  | pending _ => rw [hk] at ha; simp [KeyState.variant] at ha
  | rollPending _ _ => rw [hk] at ha; simp [KeyState.variant] at ha
  | rollNew _ _ => rw [hk] at ha; simp [KeyState.variant] at ha
  | rollOld _ _ => rw [hk] at ha; simp [KeyState.variant] at ha

/-- Once `Active`, further rounds keep the class `Active` (the roll stays finished). -/
theorem active_stays_active (c : CertKey) (o : Offer) (now : Int) :
    ∃ c', (KeyState.active c).round o now = .active c' := by
  have hwf : (KeyState.active c).wf = true := rfl
  obtain ⟨h1, _⟩ := abs_round hwf o now
  have : ((KeyState.active c).abs o now).round.isActive = true := by
    generalize hgen : (c.abs o now) = ak
    obtain ⟨r, w⟩ := ak
    simp only [KeyState.abs, hgen]
    cases r <;> cases w <;> decide
  rw [← h1, abs_isActive] at this
  cases hk : (KeyState.active c).round o now with
  | active c' => exact ⟨c', rfl⟩
  | pending _ => rw [hk] at this; simp [KeyState.variant] at this
  | rollPending _ _ => rw [hk] at this; simp [KeyState.variant] at this
  | rollNew _ _ => rw [hk] at this; simp [KeyState.variant] at this
  | rollOld _ _ => rw [hk] at this; simp [KeyState.variant] at this

/-- Non-vacuity: the longest path – a roll whose pending key has no request on file and whose
current key has an outdated certificate. -/
example :
    let ks : KeyState := .rollPending ⟨2, false⟩ ⟨1, { res := [1, 2, 3], na := 1000 }, false⟩
    let o : Offer := ⟨[1, 2], 2000⟩
    ks.wf = true ∧ ks.rolling = true ∧
    (ks.round o 0).variant = .rollNew ∧
    ((ks.round o 0).round o 0) = .active ⟨2, o.cert, false⟩ := by decide

/-! ## Progress of the roll at the `Sys` level, from every reachable state

Whatever was interleaved before (the state is an arbitrary reachable one, with any number of
classes, children, products), the next step of the roll is never refused, never panics, is
accepted by the listener and moves the class to the next roll state. -/

/-- Initiate: with a repository and a usable fresh key for every `Active` class, the command is
stored and afterwards no class is `Active` any more (each got its pending key; classes that were
not `Active` are untouched, `second_roll_noop`). -/
theorem roll_initiate_progress {s : Sys} (h : Reachable s) (hrepo : s.ca.hasRepo = true)
    (fresh : AMap Rcn KeyId)
    (hfresh : ∀ p ∈ s.ca.classes, ∀ c, p.2.keys = .active c → ∃ k, get fresh p.1 = some k ∧ k ≠ c.id) :
    ∃ evs s', s.exec (.keyrollInit fresh) = .stored evs s' ∧ Reachable s' ∧
      ∀ p ∈ s.ca.classes, ∃ rc', get s'.ca.classes p.1 = some rc' ∧ rc'.keys.variant ≠ .active := by
  have hnd := (reachable_inv h).core.nodup
  have hall : ∀ p ∈ s.ca.classes, ∃ evs, initClass fresh p.1 p.2 = .ok evs := by
    intro p hp
    unfold initClass
    cases hk : p.2.keys with
    | active c =>
      obtain ⟨k, hk1, hk2⟩ := hfresh p hp c hk
      simp only [hk1, hk2, if_false]; exact ⟨_, rfl⟩
    | pending _ => exact ⟨[], rfl⟩
    | rollPending _ _ => exact ⟨[], rfl⟩
    | rollNew _ _ => exact ⟨[], rfl⟩
    | rollOld _ _ => exact ⟨[], rfl⟩
  obtain ⟨evs, hevs⟩ := forClasses_ok_of_all hall
  have hp : s.ca.process (.keyrollInit fresh) = .ok evs := by
    simp only [Ca.process]
    split
    · rename_i hemp
      simp only [List.isEmpty_iff] at hemp
      rw [hemp] at hevs; simp only [forClasses, Except.ok.injEq] at hevs; rw [hevs]
    · simp only [hrepo, Bool.not_true, Bool.false_eq_true, if_false, keyrollInitLoop_eq, hevs]
  obtain ⟨s', hex, happ, hr'⟩ := stored_of_process h (c := _) (by exact trivial) hp
  refine ⟨evs, s', hex, hr', ?_⟩
  exact (forClasses_post (fun rc' => rc'.keys.variant ≠ .active)
    (fun r rc a ha => ⟨(initClass_ready fresh r rc a ha).1, initClass_post fresh r rc a ha⟩)
    hnd (classes_get_of_mem hnd) hevs happ).1

/-- Certificate for the new key received: in `RollPending` the parent's answer for the pending key
is always stored and the class is `RollNew` with that certificate, the current key untouched. -/
theorem roll_receive_progress {s : Sys} (h : Reachable s) {r : Rcn} {rc : Rc} {p : PendKey} {c : CertKey}
    (hg : get s.ca.classes r = some rc) (hk : rc.keys = .rollPending p c) (cert : Cert) (na : Int)
    (prods : List ProdUpd) :
    ∃ s', s.exec (.updateRcvdCert r p.id cert na prods) =
        .stored [.key r (.pendingToNew (CertKey.create p.id cert))] s' ∧ Reachable s' ∧
      get s'.ca.classes r = some { rc with keys := .rollNew (CertKey.create p.id cert) c } := by
  have hp : s.ca.process (.updateRcvdCert r p.id cert na prods) =
      .ok [.key r (.pendingToNew (CertKey.create p.id cert))] := by
    simp [Ca.process, hg, hk, KeyState.route]
  obtain ⟨s', hex, happ, hr'⟩ := stored_of_process h (c := _) (by exact trivial) hp
  refine ⟨s', hex, hr', ?_⟩
  simp only [Ca.applyAll, Ca.apply, Ca.withClass, hg, hk, KeyState.apply, KeyState.applyPendingToNew,
    Option.map_some, Option.bind_some, Option.some.injEq] at happ
  rw [← happ]; simp [get_set]

/-- Activate: if every class that has a new key is `activatable` (no open request for its keys;
every child certificate carries its limit and lies inside the new key's certificate – e.g. the
parent certified the new key with the resources of the current one), the command is stored and
every such class is `RollOld` with the new key current and the old key old.  Together with
`activation_moves_everything` this is the activation step from every reachable state. -/
theorem roll_activate_progress {s : Sys} (h : Reachable s) (na : Int)
    (hall : ∀ p ∈ s.ca.classes, p.2.activatable) :
    ∃ evs s', s.exec (.keyrollActivate na) = .stored evs s' ∧ Reachable s' ∧
      ∀ r rc n c, get s.ca.classes r = some rc → rc.keys = .rollNew n c →
        ∃ rc' n' c', get s'.ca.classes r = some rc' ∧ rc'.keys = .rollOld n' c' ∧ n'.id = n.id ∧ c'.id = c.id := by
  obtain ⟨evs, hevs⟩ := forClasses_ok_of_all (f := fun r rc => activateClass r rc na)
    (fun p hp => activateClass_ok na (hall p hp))
  have hp : s.ca.process (.keyrollActivate na) = .ok evs := by
    simp only [Ca.process, activateLoop_eq, hevs]
  obtain ⟨s', hex, _, hr'⟩ := stored_of_process h (c := _) (by exact trivial) hp
  refine ⟨evs, s', hex, hr', ?_⟩
  intro r rc n c hg hk
  obtain ⟨cs', os', ho, _, hos, hcs, _⟩ := activation_moves_everything h hex hg hk
  have hcls := (reachable_inv hr').core.cls r
  rw [ho] at hcls
  cases hg' : get s'.ca.classes r with
  | none => rw [hg'] at hcls; cases hcls
  | some rc' =>
    rw [hg'] at hcls
    obtain ⟨hm, _, _⟩ := hcls
    cases hk' : rc'.keys with
    | rollOld n' c' =>
      rw [hk'] at hm
      simp only [ksMirror, Bool.and_eq_true, decide_eq_true_eq] at hm
      exact ⟨rc', n', c', rfl, hk', by rw [← hm.1.1.1, hcs], by rw [← hm.1.2, hos]⟩
    | pending _ => rw [hk'] at hm; simp [ksMirror] at hm
    | active _ => rw [hk'] at hm; simp [ksMirror] at hm
    | rollPending _ _ => rw [hk'] at hm; simp [ksMirror] at hm
    | rollNew _ _ => rw [hk'] at hm; simp [ksMirror] at hm

/-- Revocation confirmed: in `RollOld` the finish command is always stored; the class is `Active`
with the new key and (`finish_removes_old_set`) the old key's object set is gone. -/
theorem roll_finish_progress {s : Sys} (h : Reachable s) {r : Rcn} {rc : Rc} {c o : CertKey}
    (hg : get s.ca.classes r = some rc) (hk : rc.keys = .rollOld c o) :
    ∃ s', s.exec (.keyrollFinish r) = .stored [.key r .finished] s' ∧ Reachable s' ∧
      get s'.ca.classes r = some { rc with keys := .active c } ∧ ∃ cs, get s'.objs r = some (.current cs) := by
  have hp : s.ca.process (.keyrollFinish r) = .ok [.key r .finished] := by
    simp [Ca.process, hg, hk, KeyState.keyrollFinish]
  obtain ⟨s', hex, happ, hr'⟩ := stored_of_process h (c := _) (by exact trivial) hp
  refine ⟨s', hex, hr', ?_, finish_removes_old_set h hex⟩
  simp only [Ca.applyAll, Ca.apply, Ca.withClass, hg, hk, KeyState.apply, KeyState.applyFinished,
    Option.map_some, Option.bind_some, Option.some.injEq] at happ
  rw [← happ]; simp [get_set]

/-- `roll_completes` for one class at the `Sys` level: from every reachable state in which class `r`
has a pending key (`RollPending`, whatever else was interleaved), the three remaining roll steps –
certificate for the new key received, activate, revocation confirmed – are each stored and leave
the class `Active` with the new key as its only key, provided the classes are `activatable` when
the activation is submitted (stated on the intermediate state). -/
theorem roll_completes_from_pending {s : Sys} (h : Reachable s) {r : Rcn} {rc : Rc} {p : PendKey} {c : CertKey}
    (hg : get s.ca.classes r = some rc) (hk : rc.keys = .rollPending p c) (cert : Cert) (na na' : Int)
    (hact : ∀ q ∈ (s.next (.updateRcvdCert r p.id cert na [])).ca.classes, q.2.activatable) :
    let s3 := ((s.next (.updateRcvdCert r p.id cert na [])).next (.keyrollActivate na')).next (.keyrollFinish r)
    Reachable s3 ∧ ∃ rc' k, get s3.ca.classes r = some rc' ∧ rc'.keys = .active k ∧ k.id = p.id ∧
      ∃ cs, get s3.objs r = some (.current cs) := by
  obtain ⟨s1, hex1, hr1, hg1⟩ := roll_receive_progress h hg hk cert na []
  have hn1 : s.next (.updateRcvdCert r p.id cert na []) = s1 := by unfold Sys.next; rw [hex1]
  rw [hn1] at hact
  obtain ⟨evs2, s2, hex2, hr2, hpost2⟩ := roll_activate_progress hr1 na' hact
  have hn2 : s1.next (.keyrollActivate na') = s2 := by unfold Sys.next; rw [hex2]
  obtain ⟨rc2, n', c', hg2, hk2, hn', _⟩ := hpost2 r _ _ _ hg1 rfl
  obtain ⟨s3, hex3, hr3, hg3, hobj⟩ := roll_finish_progress hr2 hg2 hk2
  have hn3 : s2.next (.keyrollFinish r) = s3 := by unfold Sys.next; rw [hex3]
  simp only [hn1, hn2, hn3]
  exact ⟨hr3, _, n', hg3, rfl, by rw [hn']; rfl, hobj⟩

/-- Non-vacuity: a class with a ROA and a child certificate, a second class in another roll state;
every hypothesis above holds and the three steps end `Active` with key 5. -/
example :
    let s := Sys.run {} (staleRoll.take 7 ++ [.keyrollInit [(0, 5)]])
    (get s.ca.classes 0).map (·.keys.variant) = some .rollPending ∧
    (let s1 := s.next (.updateRcvdCert 0 5 { res := [1, 2], na := 100 } 62 [])
     (get s1.ca.classes 0).map (·.keys.variant) = some .rollNew ∧
     (let s3 := (s1.next (.keyrollActivate 63)).next (.keyrollFinish 0)
      (get s3.ca.classes 0).map (·.keys) = some (.active ⟨5, { res := [1, 2], na := 100 }, false⟩) ∧
      (get s3.objs 0).map (fun ok => keys ok.currentSet.published) = some [.cer 6, .prod .roa 31])) := by decide

/-- Non-vacuity of `activatable`: holds for the class above after the certificate for the new key
arrived; fails when the new key was certified with fewer resources than a child certificate holds
(then activation is refused as a whole until the current key's certificate shrinks too). -/
example :
    let cc : ChildCert := { res := [1], na := 60 }
    (Rc.mk 9 0 (.rollNew ⟨5, { res := [1, 2] }, false⟩ ⟨4, { res := [1, 2] }, false⟩) { issued := [(6, cc)] } []).activatable ∧
    ¬ (Rc.mk 9 0 (.rollNew ⟨5, { res := [2] }, false⟩ ⟨4, { res := [1, 2] }, false⟩) { issued := [(6, cc)] } []).activatable := by
  constructor
  · simp [Rc.activatable]; decide
  · simp [Rc.activatable]; decide

/-! ## Which class a confirmed revocation finishes (sixth session, seed C04-r6)

The parent's confirmation of the revocation of a class's old key ends the old-key phase of THAT class: the manager issues
`KeyRollFinish` under the CA's own name of the class.  Issued under another name (the name the PARENT uses for the class, which
differs as soon as the CA has a second parent) it either finishes a class on the confirmation of another parent, or is
refused – and the class it was meant for stays in its old-key phase.  The dynamic side is the oracle `RollCompletes`
(`syskeys C04`, corpus `system/c04-roll-two-krill-parents`). -/

/-- `keyroll_finish_iff` – a `KeyRollFinish` for class `r` succeeds exactly when class `r` exists and is in its old-key phase,
and then emits the one event `KeyRollFinished` FOR CLASS `r`. -/
theorem keyroll_finish_iff (s : Ca) (r : Rcn) :
    (∀ evs, s.process (.keyrollFinish r) = .ok evs → evs = [.key r .finished]) ∧
    ((∃ evs, s.process (.keyrollFinish r) = .ok evs) ↔
      ∃ rc, get s.classes r = some rc ∧ rc.keys.variant = .rollOld) := by
  constructor
  · intro evs h
    simp only [Ca.process] at h
    cases hg : get s.classes r with
    | none => simp [hg] at h
    | some rc =>
      simp only [hg] at h
      cases hk : rc.keys.keyrollFinish with
      | error e => simp [hk] at h
      | ok e =>
        simp only [hk, Except.ok.injEq] at h
        cases hks : rc.keys <;> simp [KeyState.keyrollFinish, hks] at hk
        subst hk; exact h.symm
  · constructor
    · rintro ⟨evs, h⟩
      simp only [Ca.process] at h
      cases hg : get s.classes r with
      | none => simp [hg] at h
      | some rc =>
        refine ⟨rc, rfl, ?_⟩
        simp only [hg] at h
        cases hks : rc.keys <;> simp [KeyState.keyrollFinish, hks, KeyState.variant] at h ⊢
    · rintro ⟨rc, hg, hv⟩
      simp only [Ca.process, hg]
      cases hks : rc.keys <;> simp [KeyState.variant, hks] at hv
      exact ⟨[.key r .finished], by simp [KeyState.keyrollFinish]⟩

/-- `finish_touches_named_class_only` – applying `KeyRollFinished` for class `r'` leaves every other class as it was: a
confirmation booked under the wrong name cannot end the old-key phase of the class it was given for. -/
theorem finish_touches_named_class_only (s s' : Ca) (r r' : Rcn) (hne : r' ≠ r)
    (h : s.apply (.key r' .finished) = some s') : get s'.classes r = get s.classes r := by
  simp only [Ca.apply, Ca.withClass] at h
  cases hg : get s.classes r' with
  | none => simp [hg] at h
  | some rc =>
    simp only [hg] at h
    cases hk : (rc.keys.apply .finished).map fun ks => { rc with keys := ks } with
    | none => simp [hk] at h
    | some rc' =>
      simp only [hk, Option.some.injEq] at h
      subst h
      exact get_set_ne s.classes rc' hne

/-- Non-vacuity (the situation of corpus `system/c04-roll-two-krill-parents`): class 0 under parent `a`, class 1 under parent `p`,
both in their old-key phase.  A `KeyRollFinish` for class 0 finishes class 0 - and leaves class 1 in its old-key phase: the
confirmation `p` gave for class 1 must be booked under 1, not under the name 0 that `p` uses for it. -/
example :
    let k (i : Nat) : CertKey := ⟨i, { res := [1] }, false⟩
    let s : Ca := { classes := [(0, { parent := 10, parentRcn := 0, keys := .rollOld (k 2) (k 1) }),
                                (1, { parent := 11, parentRcn := 0, keys := .rollOld (k 4) (k 3) })],
                    parents := [10, 11], nextClass := 2, hasRepo := true }
    s.process (.keyrollFinish 0) = .ok [.key 0 .finished] ∧
    ((s.apply (.key 0 .finished)).bind fun s' => get s'.classes 1) = get s.classes 1 ∧
    ((s.apply (.key 0 .finished)).bind fun s' => (get s'.classes 0).map (·.keys.variant)) = some .active := by decide

end KM.Props.C04
