/-
Threads issuing lock-bracketed calls against shared entities, under an arbitrary scheduler.

A `Machine` describes the calls abstractly: every call (`Op`) on an entity is a list of
atomic *phases* over `(entity state, thread-local state)`.  For the aggregate store the
phases are `KM.ES.execPhases` (`aggMachine`), for the WAL store `KM.ES.Wal.execPhases`.
Nothing below depends on how fine the phases are: any split of the body of
`kv.execute(scope, …)` into atomic steps is an instance.

A thread runs its program (a list of `(entity, op)`) call by call:
`acquire the entity's scope lock` → phase 0 → … → phase n-1 → `release` (recording the
call's result).  `step locking sys t` lets thread `t` make one such micro-step; `run` follows
a schedule (any list of thread ids – the OS scheduler).  With `locking = false` the
acquisition does not look at the lock table (the bracket removed / a lock that does not
exclude, e.g. write weakened to read or a fresh lock object per call).

What is modelled of krill's locks: the per-scope write lock taken by
`KeyValueStore::execute(Some(scope), …)` (disk: `flock` on `.locks/<ns>/<scope>/lockfile.lock`,
memory: `RwLock` per scope).  The root *read* lock taken first is shared between all scoped
calls and therefore never blocks them; scope-less calls (root write lock: `scopes()`,
`has_scope`, `wipe`) are not part of this model.

`acq` is a ghost log of lock acquisitions in the order they happened; the serial execution
the theorems compare with is `serial acq`.

Import-free.
-/
import KrillModel.ES.Wal
namespace KM.Sys

structure Machine where
  /-- shared state of one entity -/
  S : Type
  Op : Type
  /-- thread-local state of a running call -/
  Loc : Type
  Out : Type
  start : Op → Loc
  phases : Op → List (S × Loc → S × Loc)
  finish : Op → Loc → Out

/-- Apply the phases from index `k` on. -/
def Machine.runFrom (M : Machine) (op : M.Op) (k : Nat) (p : M.S × M.Loc) : M.S × M.Loc :=
  ((M.phases op).drop k).foldl (fun acc f => f acc) p

/-- The call executed atomically (big step). -/
def Machine.runOp (M : Machine) (op : M.Op) (s : M.S) : M.S × M.Out :=
  let r := M.runFrom op 0 (s, M.start op)
  (r.1, M.finish op r.2)

structure Running (M : Machine) where
  ent : Nat
  op : M.Op
  pc : Nat
  loc : M.Loc

structure Thread (M : Machine) where
  todo : List (Nat × M.Op)
  cur : Option (Running M) := none
  outs : List M.Out := []

structure Acq (M : Machine) where
  tid : Nat
  ent : Nat
  op : M.Op

structure Sys (M : Machine) where
  ents : Nat → M.S
  threads : List (Thread M)
  acq : List (Acq M) := []

def upd {β : Type} (f : Nat → β) (k : Nat) (v : β) : Nat → β := fun x => if x = k then v else f x

def Thread.holds {M : Machine} (th : Thread M) (e : Nat) : Bool :=
  match th.cur with
  | some r => r.ent == e
  | none => false

/-- The lock table, derived: entity `e` is locked iff some thread is inside a call on it. -/
def Sys.locked {M : Machine} (sys : Sys M) (e : Nat) : Bool := sys.threads.any (·.holds e)

/-- One micro-step of thread `t`. -/
def step {M : Machine} (locking : Bool) (sys : Sys M) (t : Nat) : Sys M :=
  match sys.threads[t]? with
  | none => sys
  | some th =>
    match th.cur with
    | none =>
      match th.todo with
      | [] => sys                                         -- finished
      | (e, op) :: _ =>
        if locking && sys.locked e then sys               -- blocked on the scope lock
        else
          { sys with
            threads := sys.threads.set t { th with cur := some ⟨e, op, 0, M.start op⟩ },
            acq := sys.acq ++ [⟨t, e, op⟩] }
    | some r =>
      match (M.phases r.op)[r.pc]? with
      | some ph =>
        let p := ph (sys.ents r.ent, r.loc)
        { sys with
          ents := upd sys.ents r.ent p.1,
          threads := sys.threads.set t { th with cur := some { r with pc := r.pc + 1, loc := p.2 } } }
      | none =>
        -- all phases done: release the lock, hand the result to the caller
        { sys with
          threads := sys.threads.set t
            { todo := th.todo.drop 1, cur := none, outs := th.outs ++ [M.finish r.op r.loc] } }

def run {M : Machine} (locking : Bool) (sys : Sys M) (sched : List Nat) : Sys M :=
  sched.foldl (step locking) sys

/-- Initial system: nobody inside a call. -/
def Sys.init {M : Machine} (ents : Nat → M.S) (progs : List (List (Nat × M.Op))) : Sys M :=
  { ents := ents, threads := progs.map fun p => { todo := p } }

/-! ### the serial execution -/

structure SerialSt (M : Machine) where
  ents : Nat → M.S
  outs : List (Nat × M.Out) := []     -- (thread, result) in execution order

def serialStep {M : Machine} (st : SerialSt M) (a : Acq M) : SerialSt M :=
  let r := M.runOp a.op (st.ents a.ent)
  { ents := upd st.ents a.ent r.1, outs := st.outs ++ [(a.tid, r.2)] }

/-- Execute the calls one after the other, atomically, in the given order. -/
def serial {M : Machine} (ents : Nat → M.S) (order : List (Acq M)) : SerialSt M :=
  order.foldl serialStep { ents := ents }

def SerialSt.outsOf {M : Machine} (st : SerialSt M) (t : Nat) : List M.Out :=
  (st.outs.filter (·.1 == t)).map (·.2)

/-! ### results including the call in flight -/

/-- Results of thread `th` including the one of its call in flight. -/
def Thread.completeOuts {M : Machine} (th : Thread M) (ents : Nat → M.S) : List M.Out :=
  match th.cur with
  | some r => th.outs ++ [M.finish r.op (M.runFrom r.op r.pc (ents r.ent, r.loc)).2]
  | none => th.outs

/-- The calls of thread `t` that have been started, in order. -/
def Sys.startedBy {M : Machine} (sys : Sys M) (t : Nat) : List (Nat × M.Op) :=
  (sys.acq.filter (·.tid == t)).map fun a => (a.ent, a.op)

/-! ### the lock log of the implementation -/

inductive LockEv where
  | acq | op | rel
deriving DecidableEq, Repr

/-- Per-entity event log `(thread, event)` is well bracketed: a thread's storage operations
lie between its own acquisition and release, and no other thread's event falls in between. -/
def wellBracketedFrom : Option Nat → List (Nat × LockEv) → Bool
  | holder, [] => holder.isNone
  | none, (t, .acq) :: rest => wellBracketedFrom (some t) rest
  | some h, (t, .op) :: rest => h == t && wellBracketedFrom (some h) rest
  | some h, (t, .rel) :: rest => h == t && wellBracketedFrom none rest
  | _, _ => false

def wellBracketed (l : List (Nat × LockEv)) : Bool := wellBracketedFrom none l

/-! ### the two store machines -/

open KM.ES in
/-- A public call against the aggregate store that runs `execute_opt_command`:
`command`, `get_latest`, `save_snapshot` through store object `i`. -/
inductive AggCall (A : Agg) where
  | cmd (i : Nat) (c : Sent A) (wfail : Bool)
  | get (i : Nat)
  | snap (i : Nat) (wfail : Bool)

open KM.ES in
def AggCall.phases {A : Agg} : AggCall A → List (Ent A × Local A → Ent A × Local A)
  | .cmd i c wf => execPhases i (some c) false wf
  | .get i => execPhases i none false false
  | .snap i wf => execPhases i none true wf

open KM.ES in
def AggCall.toOp {A : Agg} : AggCall A → Op A
  | .cmd i c wf => .cmd i c wf
  | .get i => .get i
  | .snap i wf => .snap i wf

open KM.ES in
def aggMachine (A : Agg) : Machine where
  S := Ent A
  Op := AggCall A
  Loc := Local A
  Out := Out A
  start := fun _ => Local.start
  phases := AggCall.phases
  finish := fun _ l => l.out

open KM.ES in
structure WalCall (T : Wal.WalT) where
  inst : Nat
  cmd : Option T.Cmd
  snap : Bool := false
  wfail : Bool := false

open KM.ES in
def walMachine (T : Wal.WalT) : Machine where
  S := Wal.Ent T
  Op := WalCall T
  Loc := Wal.Local T
  Out := Wal.Out T
  start := fun _ => Wal.Local.start
  phases := fun c => Wal.execPhases c.inst c.cmd c.snap c.wfail
  finish := fun _ l => l.out

end KM.Sys
