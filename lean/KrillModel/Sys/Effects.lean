/-
Calls whose phases also write to stores *shared between entities* while the entity's scope lock
is held: krill's pre-save listener writes the CA's objects (`ca_objects/<ca>.json`) and the
post-save listener schedules tasks in the task queue (`tasks` namespace), both from inside
`execute_opt_command`.

An `EMachine` is a `Machine` whose phases additionally return the writes (`Eff`) they make to the
shared store.  The shared store is modelled as the global, time-ordered list `GSys.shared` of
`(entity, write)`; different entities' writes interleave in it arbitrarily.  `EMachine.toMachine`
carries, per entity, the list of that entity's own writes, which makes the generic interleaving
theorems applicable; `gstep` is the same micro-step as `Sys.step` that also appends the running
phase's writes to the shared store.

Import-free.
-/
import KrillModel.Sys.Interleave
namespace KM.Sys

structure EMachine where
  S : Type
  Op : Type
  Loc : Type
  Out : Type
  /-- a write to the shared store -/
  Eff : Type
  start : Op → Loc
  phases : Op → List (S × Loc → (S × Loc) × List Eff)
  finish : Op → Loc → Out

/-- Lift a phase: the entity state also records the entity's own writes, in order. -/
def EMachine.liftPhase (E : EMachine) (ph : E.S × E.Loc → (E.S × E.Loc) × List E.Eff) :
    (E.S × List E.Eff) × E.Loc → (E.S × List E.Eff) × E.Loc :=
  fun p => let r := ph (p.1.1, p.2); ((r.1.1, p.1.2 ++ r.2), r.1.2)

def EMachine.toMachine (E : EMachine) : Machine where
  S := E.S × List E.Eff
  Op := E.Op
  Loc := E.Loc
  Out := E.Out
  start := E.start
  phases := fun op => (E.phases op).map E.liftPhase
  finish := E.finish

structure GSys (E : EMachine) where
  sys : Sys E.toMachine
  /-- the shared store: every write of every entity, in the order they happened -/
  shared : List (Nat × E.Eff) := []

/-- The writes thread `t`'s next micro-step makes to the shared store. -/
def pendingWrites {E : EMachine} (sys : Sys E.toMachine) (t : Nat) : List (Nat × E.Eff) :=
  match sys.threads[t]? with
  | none => []
  | some th =>
    match th.cur with
    | none => []
    | some r =>
      match (E.phases r.op)[r.pc]? with
      | none => []
      | some ph => (ph ((sys.ents r.ent).1, r.loc)).2.map fun w => (r.ent, w)

def gstep {E : EMachine} (g : GSys E) (t : Nat) : GSys E :=
  { sys := step true g.sys t, shared := g.shared ++ pendingWrites g.sys t }

def grun {E : EMachine} (g : GSys E) (sched : List Nat) : GSys E := sched.foldl gstep g

/-- The writes of entity `e` in the shared store, in the order they happened. -/
def GSys.writesOf {E : EMachine} (g : GSys E) (e : Nat) : List E.Eff :=
  (g.shared.filter (·.1 == e)).map (·.2)

def GSys.init {E : EMachine} (ents : Nat → E.S) (progs : List (List (Nat × E.Op))) : GSys E :=
  { sys := Sys.init (M := E.toMachine) (fun e => (ents e, [])) progs }

end KM.Sys
