/-
An abstract relying party: top-down validation over abstract records.

Cryptography is symbolic: a signature check is "the issuer key of the object is the key of the
certificate being validated"; content hashes are injective on the finite set of contents of a
repository, which is expressed by a *catalog* mapping a hash to the object it decodes to.
The validator follows RFC 6486/9286 (manifest current, CRL listed and current, every file listed
with its hash and every listed file present), RFC 6487 (not expired, not revoked, resources
contained in the issuer's) and RFC 6482/ASPA/8209 for the payloads.

Used by `Props/C01.lean` (`TreeValid`, `PayloadsExact` are decidable) and mirrored by the harness's
relying-party walk (`kharness::rp`), whose report the `sysobjects` driver judges.

Import-free apart from the publication model's payload types.
-/
import KrillModel.Ca.RoaObjects
namespace KM.Sys.Rp
open KM.Ca.Pub

/-- A CA certificate (also: the trust anchor's). -/
structure Cert where
  issuer    : Nat
  subject   : Nat
  resources : Res
  notAfter  : Nat
  serial    : Nat
  /-- names of the manifest and CRL at the subject's publication point -/
  mftName   : Nat
  crlName   : Nat
deriving DecidableEq, Repr, Inhabited

structure Mft where
  key        : Nat
  number     : Nat
  thisUpdate : Nat
  nextUpdate : Nat
  entries    : List (Nat × Nat)
deriving DecidableEq, Repr, Inhabited

structure Crl where
  key        : Nat
  number     : Nat
  thisUpdate : Nat
  nextUpdate : Nat
  revoked    : List Nat
deriving DecidableEq, Repr, Inhabited

/-- The payload of an EE-signed object or router certificate. -/
inductive Content where
  | roa (ps : List Payload)
  | aspa (d : AspaDefn)
  | router (k : RouterKey)
deriving DecidableEq, Repr, Inhabited

structure Signed where
  issuer   : Nat
  serial   : Nat
  notAfter : Nat
  content  : Content
deriving DecidableEq, Repr, Inhabited

inductive Obj where
  | mft (m : Mft)
  | crl (c : Crl)
  | signed (s : Signed)
  | cert (c : Cert)
deriving DecidableEq, Repr, Inhabited

/-- What a content hash decodes to. -/
abbrev Catalog := Nat → Option Obj

/-- Files of one publication point: name ↦ hash. -/
abbrev Files := List (Nat × Nat)

def contentOk (res : Res) : Content → Bool
  | .roa ps => !ps.isEmpty && ps.all res.coversPfx
  | .aspa d => res.hasAsn d.customer
  | .router k => res.hasAsn k.asn

def resSubset : Res → Res → Bool
  | _, .all => true
  | .all, .atoms _ => false
  | .atoms a, .atoms b => a.all fun x => b.contains x

/-- Is the object behind `(name, hash)` acceptable under CA certificate `ca` and CRL `crl`? -/
def entryOk (cat : Catalog) (ca : Cert) (crl : Crl) (now : Nat) (e : Nat × Nat) : Bool :=
  if e.1 = ca.crlName then true else
  match cat e.2 with
  | some (.signed s) =>
    decide (s.issuer = ca.subject) && !crl.revoked.contains s.serial && decide (now < s.notAfter) &&
      contentOk ca.resources s.content
  | some (.cert c) =>
    decide (c.issuer = ca.subject) && !crl.revoked.contains c.serial && decide (now < c.notAfter) &&
      resSubset c.resources ca.resources
  | _ => false

/-- The manifest and CRL of the publication point of `ca`, if they are there and current. -/
def pointHead (cat : Catalog) (files : Files) (ca : Cert) (now : Nat) : Option (Mft × Crl) :=
  match get? files ca.mftName with
  | none => none
  | some mh =>
    match cat mh with
    | some (.mft m) =>
      if m.key = ca.subject ∧ m.thisUpdate ≤ now ∧ now < m.nextUpdate then
        match get? m.entries ca.crlName with
        | none => none
        | some ch =>
          match cat ch with
          | some (.crl c) =>
            if c.key = ca.subject ∧ c.thisUpdate ≤ now ∧ now < c.nextUpdate then some (m, c) else none
          | _ => none
      else none
    | _ => none

/-- Everything but the manifest itself. -/
def otherFiles (files : Files) (ca : Cert) : Files := files.filter fun f => decide (f.1 ≠ ca.mftName)

/-- Validation of one publication point: manifest and CRL current; listed ⇔ present (with the
listed hash); every listed object acceptable. -/
def PointValid (cat : Catalog) (files : Files) (ca : Cert) (now : Nat) : Bool :=
  match pointHead cat files ca now with
  | none => false
  | some (m, c) =>
    m.entries.all (fun e => (otherFiles files ca).contains e) &&
    (otherFiles files ca).all (fun f => m.entries.contains f) &&
    m.entries.all (entryOk cat ca c now)

/-- Validated ROA payloads of a publication point. -/
def pointVrps (cat : Catalog) (files : Files) (ca : Cert) : List Payload :=
  (otherFiles files ca).flatMap fun f =>
    match cat f.2 with
    | some (.signed s) => (match s.content with | .roa ps => ps | _ => [])
    | _ => []

def pointAspas (cat : Catalog) (files : Files) (ca : Cert) : List AspaDefn :=
  (otherFiles files ca).flatMap fun f =>
    match cat f.2 with
    | some (.signed s) => (match s.content with | .aspa d => [d] | _ => [])
    | _ => []

def pointRouterKeys (cat : Catalog) (files : Files) (ca : Cert) : List RouterKey :=
  (otherFiles files ca).flatMap fun f =>
    match cat f.2 with
    | some (.signed s) => (match s.content with | .router k => [k] | _ => [])
    | _ => []

def childCerts (cat : Catalog) (files : Files) (ca : Cert) : List Cert :=
  (otherFiles files ca).filterMap fun f =>
    match cat f.2 with
    | some (.cert c) => some c
    | _ => none

/-- The whole repository: publication-point key ↦ files. -/
abbrev Repo := List (Nat × Files)

def filesOf (repo : Repo) (key : Nat) : Files := (get? repo key).getD []

/-- Top-down validation from certificate `ca` (`fuel` bounds the depth of the hierarchy). -/
def TreeValid (cat : Catalog) (repo : Repo) (now : Nat) : Nat → Cert → Bool
  | 0, _ => false
  | fuel + 1, ca =>
    PointValid cat (filesOf repo ca.subject) ca now &&
      (childCerts cat (filesOf repo ca.subject) ca).all (TreeValid cat repo now fuel)

/-- All validated ROA payloads below `ca`. -/
def treeVrps (cat : Catalog) (repo : Repo) : Nat → Cert → List Payload
  | 0, _ => []
  | fuel + 1, ca =>
    pointVrps cat (filesOf repo ca.subject) ca ++
      (childCerts cat (filesOf repo ca.subject) ca).flatMap (treeVrps cat repo fuel)

/-- All validated ASPA definitions below `ca`. -/
def treeAspas (cat : Catalog) (repo : Repo) : Nat → Cert → List AspaDefn
  | 0, _ => []
  | fuel + 1, ca =>
    pointAspas cat (filesOf repo ca.subject) ca ++
      (childCerts cat (filesOf repo ca.subject) ca).flatMap (treeAspas cat repo fuel)

/-- All validated router keys below `ca`. -/
def treeRouterKeys (cat : Catalog) (repo : Repo) : Nat → Cert → List RouterKey
  | 0, _ => []
  | fuel + 1, ca =>
    pointRouterKeys cat (filesOf repo ca.subject) ca ++
      (childCerts cat (filesOf repo ca.subject) ca).flatMap (treeRouterKeys cat repo fuel)

/-- Same payloads, as sets. -/
def PayloadsExact (got want : List Payload) : Bool := sameMembers got want

end KM.Sys.Rp
