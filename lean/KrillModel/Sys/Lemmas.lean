/- Helper lemmas for the interleaving model (no property statements here). -/
import KrillModel.Sys.Interleave
namespace KM.Sys

variable {M : Machine}

/-! ### phases -/

theorem runFrom_step {op : M.Op} {pc : Nat} {ph : M.S × M.Loc → M.S × M.Loc}
    (h : (M.phases op)[pc]? = some ph) (p : M.S × M.Loc) :
    M.runFrom op pc p = M.runFrom op (pc + 1) (ph p) := by
  unfold Machine.runFrom
  have hlt : pc < (M.phases op).length := by
    cases hl : decide (pc < (M.phases op).length) with
    | true => exact of_decide_eq_true hl
    | false =>
      have : (M.phases op).length ≤ pc := Nat.le_of_not_lt (of_decide_eq_false hl)
      rw [List.getElem?_eq_none this] at h; cases h
  rw [List.drop_eq_getElem_cons hlt]
  have : (M.phases op)[pc] = ph := by
    rw [List.getElem?_eq_getElem hlt] at h; exact Option.some.inj h
  simp [this]

theorem runFrom_done {op : M.Op} {pc : Nat} (h : (M.phases op)[pc]? = none) (p : M.S × M.Loc) :
    M.runFrom op pc p = p := by
  unfold Machine.runFrom
  have : (M.phases op).length ≤ pc := by
    cases hl : decide (pc < (M.phases op).length) with
    | true =>
      rw [List.getElem?_eq_getElem (of_decide_eq_true hl)] at h; cases h
    | false => exact Nat.le_of_not_lt (of_decide_eq_false hl)
  rw [List.drop_eq_nil_of_le this]; rfl

/-! ### the serial execution -/

theorem serial_append (ents0 : Nat → M.S) (acq : List (Acq M)) (a : Acq M) :
    serial ents0 (acq ++ [a]) = serialStep (serial ents0 acq) a := by
  simp [serial, List.foldl_append]

theorem outsOf_serialStep (st : SerialSt M) (a : Acq M) (t : Nat) :
    (serialStep st a).outsOf t =
      if a.tid = t then st.outsOf t ++ [(M.runOp a.op (st.ents a.ent)).2] else st.outsOf t := by
  unfold SerialSt.outsOf serialStep
  by_cases h : a.tid = t
  · simp [List.filter_append, h]
  · simp [List.filter_append, h]

theorem ents_serialStep (st : SerialSt M) (a : Acq M) (e : Nat) :
    (serialStep st a).ents e =
      if e = a.ent then (M.runOp a.op (st.ents a.ent)).1 else st.ents e := by
  simp [serialStep, upd]

theorem upd_same {β : Type} (f : Nat → β) (k : Nat) (v : β) : upd f k v k = v := by simp [upd]
theorem upd_ne {β : Type} (f : Nat → β) {k k' : Nat} (v : β) (h : k' ≠ k) : upd f k v k' = f k' := by
  simp [upd, h]

/-! ### the lock table -/

theorem locked_iff (sys : Sys M) (e : Nat) :
    sys.locked e = true ↔
      ∃ (t : Nat) (th : Thread M) (r : Running M), sys.threads[t]? = some th ∧ th.cur = some r ∧ r.ent = e := by
  unfold Sys.locked
  rw [List.any_eq_true]
  constructor
  · rintro ⟨th, hmem, hh⟩
    obtain ⟨t, ht⟩ := List.mem_iff_getElem?.mp hmem
    unfold Thread.holds at hh
    cases hc : th.cur with
    | none => simp [hc] at hh
    | some r => simp [hc] at hh; exact ⟨t, th, r, ht, hc, hh⟩
  · rintro ⟨t, th, r, ht, hc, he⟩
    exact ⟨th, List.mem_iff_getElem?.mpr ⟨t, ht⟩, by simp [Thread.holds, hc, he]⟩

theorem get_set {α} {l : List α} {t t' : Nat} {a x y : α} (ht : l[t]? = some a) :
    (l.set t x)[t']? = some y ↔ (t' = t ∧ y = x) ∨ (t' ≠ t ∧ l[t']? = some y) := by
  have hlt : t < l.length := by
    cases hl : decide (t < l.length) with
    | true => exact of_decide_eq_true hl
    | false =>
      rw [List.getElem?_eq_none (Nat.le_of_not_lt (of_decide_eq_false hl))] at ht; cases ht
  rw [List.getElem?_set]
  by_cases h : t = t'
  · subst h; simp [hlt]; exact eq_comm
  · have h' : t' ≠ t := fun x => h x.symm
    simp [h, h']

/-! ### the invariant -/

/-- What holds of every state reachable with the lock in place, relative to the serial
execution of the acquired calls in acquisition order. -/
structure SerInv (ents0 : Nat → M.S) (progs : List (List (Nat × M.Op))) (sys : Sys M) : Prop where
  /-- mutual exclusion per entity -/
  excl : ∀ (t t' : Nat) (th th' : Thread M) (r r' : Running M),
    sys.threads[t]? = some th → sys.threads[t']? = some th' →
    th.cur = some r → th'.cur = some r' → r.ent = r'.ent → t = t'
  /-- an entity nobody is inside of is in its serial state -/
  free : ∀ e, (∀ (t : Nat) (th : Thread M) (r : Running M),
      sys.threads[t]? = some th → th.cur = some r → r.ent ≠ e) →
    sys.ents e = (serial ents0 sys.acq).ents e
  /-- an entity somebody is inside of reaches its serial state when that call is completed -/
  held : ∀ (t : Nat) (th : Thread M) (r : Running M), sys.threads[t]? = some th → th.cur = some r →
    (M.runFrom r.op r.pc (sys.ents r.ent, r.loc)).1 = (serial ents0 sys.acq).ents r.ent
  /-- results (with the call in flight completed) are the serial results -/
  outs : ∀ (t : Nat) (th : Thread M), sys.threads[t]? = some th →
    th.completeOuts sys.ents = (serial ents0 sys.acq).outsOf t
  /-- started calls followed by the ones still to do are the thread's program -/
  prog : ∀ (t : Nat) (th : Thread M), sys.threads[t]? = some th →
    sys.startedBy t ++ (if th.cur.isSome then th.todo.drop 1 else th.todo) = (progs[t]?).getD []
  len : sys.threads.length = progs.length

theorem serInv_init (ents0 : Nat → M.S) (progs : List (List (Nat × M.Op))) :
    SerInv ents0 progs (Sys.init ents0 progs) where
  excl := by
    intro t t' th th' r r' ht _ hc
    simp only [Sys.init, List.getElem?_map] at ht
    cases hp : progs[t]? with
    | none => simp [hp] at ht
    | some p => simp [hp] at ht; rw [← ht] at hc; cases hc
  free := by intro e _; rfl
  held := by
    intro t th r ht hc
    simp only [Sys.init, List.getElem?_map] at ht
    cases hp : progs[t]? with
    | none => simp [hp] at ht
    | some p => simp [hp] at ht; rw [← ht] at hc; cases hc
  outs := by
    intro t th ht
    simp only [Sys.init, List.getElem?_map] at ht
    cases hp : progs[t]? with
    | none => simp [hp] at ht
    | some p =>
      simp [hp] at ht; rw [← ht]
      simp [Thread.completeOuts, Sys.init, serial, SerialSt.outsOf]
  prog := by
    intro t th ht
    simp only [Sys.init, List.getElem?_map] at ht
    cases hp : progs[t]? with
    | none => simp [hp] at ht
    | some p =>
      simp [hp] at ht; rw [← ht]
      simp [Sys.startedBy, Sys.init]
  len := by simp [Sys.init]

theorem startedBy_append (sys : Sys M) (a : Acq M) (t : Nat) :
    ((sys.acq ++ [a]).filter (·.tid == t)).map (fun a => (a.ent, a.op)) =
      sys.startedBy t ++ (if a.tid = t then [(a.ent, a.op)] else []) := by
  unfold Sys.startedBy
  by_cases h : a.tid = t <;> simp [List.filter_append, h]

/-- One micro-step (with the lock) keeps the invariant. -/
theorem step_inv {ents0 : Nat → M.S} {progs : List (List (Nat × M.Op))} {sys : Sys M}
    (h : SerInv ents0 progs sys) (t : Nat) : SerInv ents0 progs (step true sys t) := by
  unfold step
  cases ht : sys.threads[t]? with
  | none => exact h
  | some th =>
    simp only []
    cases hcur : th.cur with
    | none =>
      simp only []
      cases htodo : th.todo with
      | nil => exact h
      | cons eo rest =>
        obtain ⟨e, op⟩ := eo
        simp only [Bool.true_and]
        cases hl : sys.locked e with
        | true => simp; exact h
        | false =>
          simp only [Bool.false_eq_true, if_false]
          -- nobody is inside `e`
          have hfree : ∀ (t' : Nat) (th' : Thread M) (r' : Running M),
              sys.threads[t']? = some th' → th'.cur = some r' → r'.ent ≠ e := by
            intro t' th' r' h1 h2 h3
            have : sys.locked e = true := (locked_iff sys e).mpr ⟨t', th', r', h1, h2, h3⟩
            rw [hl] at this; cases this
          have hents : sys.ents e = (serial ents0 sys.acq).ents e := h.free e hfree
          have houts_t : th.outs = (serial ents0 sys.acq).outsOf t := by
            have := h.outs t th ht
            simpa [Thread.completeOuts, hcur] using this
          refine
            { excl := ?_, free := ?_, held := ?_, outs := ?_, prog := ?_, len := ?_ }
          · intro t1 t2 th1 th2 r1 r2 h1 h2 hc1 hc2 hent
            rcases (get_set ht).mp h1 with ⟨rfl, rfl⟩ | ⟨hn1, h1'⟩
            · rcases (get_set ht).mp h2 with ⟨rfl, rfl⟩ | ⟨hn2, h2'⟩
              · rfl
              · simp at hc1; subst hc1
                exact absurd hent.symm (hfree t2 th2 r2 h2' hc2)
            · rcases (get_set ht).mp h2 with ⟨rfl, rfl⟩ | ⟨hn2, h2'⟩
              · simp at hc2; subst hc2
                exact absurd hent (hfree t1 th1 r1 h1' hc1)
              · exact h.excl t1 t2 th1 th2 r1 r2 h1' h2' hc1 hc2 hent
          · intro e' hfree'
            have hne : e' ≠ e := by
              intro heq
              have := hfree' t _ ⟨e, op, 0, M.start op⟩ ((get_set ht).mpr (Or.inl ⟨rfl, rfl⟩)) rfl
              exact this heq.symm
            rw [serial_append, ents_serialStep]
            simp only [hne, if_false]
            apply h.free e'
            intro t' th' r' h1 h2
            by_cases htt : t' = t
            · subst htt; rw [ht] at h1; cases h1; rw [hcur] at h2; cases h2
            · exact hfree' t' th' r' ((get_set ht).mpr (Or.inr ⟨htt, h1⟩)) h2
          · intro t' th' r' h1 h2
            rw [serial_append, ents_serialStep]
            rcases (get_set ht).mp h1 with ⟨rfl, rfl⟩ | ⟨hn, h1'⟩
            · simp at h2; subst h2
              simp [Machine.runOp, hents]
            · have hne : r'.ent ≠ e := hfree t' th' r' h1' h2
              simp only [hne, if_false]
              exact h.held t' th' r' h1' h2
          · intro t' th' h1
            rw [serial_append, outsOf_serialStep]
            rcases (get_set ht).mp h1 with ⟨rfl, rfl⟩ | ⟨hn, h1'⟩
            · simp [Thread.completeOuts, Machine.runOp, hents, houts_t]
            · have hne : ¬ (t = t') := fun x => hn x.symm
              simp only [hne, if_false]
              exact h.outs t' th' h1'
          · intro t' th' h1
            have hsb := startedBy_append sys (⟨t, e, op⟩ : Acq M) t'
            simp only [Sys.startedBy] at hsb ⊢
            rw [hsb]
            rcases (get_set ht).mp h1 with ⟨rfl, rfl⟩ | ⟨hn, h1'⟩
            · have := h.prog t' th ht
              simp [hcur, htodo, Sys.startedBy] at this
              simp [this]
            · have hne : ¬ (t = t') := fun x => hn x.symm
              simp only [hne, if_false, List.append_nil]
              exact h.prog t' th' h1'
          · simp [h.len]
    | some r =>
      simp only []
      cases hph : (M.phases r.op)[r.pc]? with
      | some ph =>
        simp only []
        refine
          { excl := ?_, free := ?_, held := ?_, outs := ?_, prog := ?_, len := ?_ }
        · intro t1 t2 th1 th2 r1 r2 h1 h2 hc1 hc2 hent
          rcases (get_set ht).mp h1 with ⟨rfl, rfl⟩ | ⟨hn1, h1'⟩
          · rcases (get_set ht).mp h2 with ⟨rfl, rfl⟩ | ⟨hn2, h2'⟩
            · rfl
            · simp at hc1; subst hc1
              exact h.excl t1 t2 th th2 r r2 ht h2' hcur hc2 hent
          · rcases (get_set ht).mp h2 with ⟨rfl, rfl⟩ | ⟨hn2, h2'⟩
            · simp at hc2; subst hc2
              exact h.excl t1 t2 th1 th r1 r h1' ht hc1 hcur hent
            · exact h.excl t1 t2 th1 th2 r1 r2 h1' h2' hc1 hc2 hent
        · intro e' hfree'
          have hne : e' ≠ r.ent := by
            intro heq
            have := hfree' t _ { r with pc := r.pc + 1, loc := (ph (sys.ents r.ent, r.loc)).2 }
              ((get_set ht).mpr (Or.inl ⟨rfl, rfl⟩)) rfl
            exact this heq.symm
          simp only [upd_ne _ _ hne]
          apply h.free e'
          intro t' th' r' h1 h2
          by_cases htt : t' = t
          · subst htt; rw [ht] at h1; cases h1; rw [hcur] at h2; cases h2
            exact fun x => hne x.symm
          · exact hfree' t' th' r' ((get_set ht).mpr (Or.inr ⟨htt, h1⟩)) h2
        · intro t' th' r' h1 h2
          rcases (get_set ht).mp h1 with ⟨rfl, rfl⟩ | ⟨hn, h1'⟩
          · simp at h2; subst h2
            simp only [upd_same]
            rw [← h.held t' th r ht hcur, runFrom_step hph]
          · have hne : r'.ent ≠ r.ent := by
              intro heq
              exact hn (h.excl t' t th' th r' r h1' ht h2 hcur heq)
            simp only [upd_ne _ _ hne]
            exact h.held t' th' r' h1' h2
        · intro t' th' h1
          rcases (get_set ht).mp h1 with ⟨rfl, rfl⟩ | ⟨hn, h1'⟩
          · have := h.outs t' th ht
            simp only [Thread.completeOuts, hcur] at this
            simp only [Thread.completeOuts, upd_same]
            rw [← this, runFrom_step hph]
          · have := h.outs t' th' h1'
            rw [← this]
            unfold Thread.completeOuts
            cases hc' : th'.cur with
            | none => rfl
            | some r' =>
              have hne : r'.ent ≠ r.ent := by
                intro heq
                exact hn (h.excl t' t th' th r' r h1' ht hc' hcur heq)
              simp only [upd_ne _ _ hne]
        · intro t' th' h1
          rcases (get_set ht).mp h1 with ⟨rfl, rfl⟩ | ⟨hn, h1'⟩
          · have := h.prog t' th ht
            simpa [hcur, Sys.startedBy] using this
          · exact h.prog t' th' h1'
        · simp [h.len]
      | none =>
        simp only []
        have hdone := runFrom_done hph (sys.ents r.ent, r.loc)
        refine
          { excl := ?_, free := ?_, held := ?_, outs := ?_, prog := ?_, len := ?_ }
        · intro t1 t2 th1 th2 r1 r2 h1 h2 hc1 hc2 hent
          rcases (get_set ht).mp h1 with ⟨rfl, rfl⟩ | ⟨hn1, h1'⟩
          · simp at hc1
          · rcases (get_set ht).mp h2 with ⟨rfl, rfl⟩ | ⟨hn2, h2'⟩
            · simp at hc2
            · exact h.excl t1 t2 th1 th2 r1 r2 h1' h2' hc1 hc2 hent
        · intro e' hfree'
          by_cases heq : e' = r.ent
          · subst heq
            have := h.held t th r ht hcur
            rw [hdone] at this
            exact this
          · apply h.free e'
            intro t' th' r' h1 h2
            by_cases htt : t' = t
            · subst htt; rw [ht] at h1; cases h1; rw [hcur] at h2; cases h2
              exact fun x => heq x.symm
            · exact hfree' t' th' r' ((get_set ht).mpr (Or.inr ⟨htt, h1⟩)) h2
        · intro t' th' r' h1 h2
          rcases (get_set ht).mp h1 with ⟨rfl, rfl⟩ | ⟨hn, h1'⟩
          · simp at h2
          · exact h.held t' th' r' h1' h2
        · intro t' th' h1
          rcases (get_set ht).mp h1 with ⟨rfl, rfl⟩ | ⟨hn, h1'⟩
          · have := h.outs t' th ht
            simp only [Thread.completeOuts, hcur, hdone] at this
            simpa [Thread.completeOuts] using this
          · exact h.outs t' th' h1'
        · intro t' th' h1
          rcases (get_set ht).mp h1 with ⟨rfl, rfl⟩ | ⟨hn, h1'⟩
          · have := h.prog t' th ht
            simpa [hcur, Sys.startedBy] using this
          · exact h.prog t' th' h1'
        · simp [h.len]

theorem run_inv {ents0 : Nat → M.S} {progs : List (List (Nat × M.Op))} {sys : Sys M}
    (h : SerInv ents0 progs sys) (sched : List Nat) : SerInv ents0 progs (run true sys sched) := by
  induction sched generalizing sys with
  | nil => exact h
  | cons t rest ih => exact ih (step_inv h t)

end KM.Sys
