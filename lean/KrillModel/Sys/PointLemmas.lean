/-
One CA level, all kinds of objects: a publication point whose key object set publishes ROAs,
ASPA objects, router certificates and child CA certificates.  Generalises `Ready` / `point_valid` /
`point_vrps` of `Sys/RpLemmas.lean` (ROAs only) and is the bridge between the key-set model
(`Ca/Objects.lean`) and the local condition `NodeOk` of the hierarchy (`Sys/Tree.lean`).
Helper lemmas only; the property statements are in `Props/C01.lean`.
-/
import KrillModel.Sys.RpLemmas
import KrillModel.Sys.TreeLemmas
namespace KM.Sys.Rp
open KM.Ca.Pub

/-- What the objects published under one key are, kind by kind (each with the meta data – name,
serial, expiry, hash – of the published file). -/
structure PointSpec where
  roas    : List RoaInfo := []
  aspas   : List AspaInfo := []
  routers : List (RouterKey × ObjMeta) := []
  /-- child CA certificates (`.cer` files) -/
  certs   : List (ObjMeta × Cert) := []

/-- Every object with what a faithful decoder makes of it under issuer key `key`. -/
def PointSpec.decoded (sp : PointSpec) (key : Nat) : List (ObjMeta × Obj) :=
  sp.roas.map (fun i => (i.obj, .signed ⟨key, i.obj.serial, i.obj.expires, .roa i.auths⟩)) ++
  sp.aspas.map (fun i => (i.obj, .signed ⟨key, i.obj.serial, i.obj.expires, .aspa i.defn⟩)) ++
  sp.routers.map (fun e => (e.2, .signed ⟨key, e.2.serial, e.2.expires, .router e.1⟩)) ++
  sp.certs.map (fun e => (e.1, .cert e.2))

/-- Meta data of all objects. -/
def PointSpec.metas (sp : PointSpec) : List ObjMeta :=
  sp.roas.map (·.obj) ++ sp.aspas.map (·.obj) ++ sp.routers.map (·.2) ++ sp.certs.map (·.1)

theorem PointSpec.metas_eq (sp : PointSpec) (key : Nat) : sp.metas = (sp.decoded key).map (·.1) := by
  simp only [PointSpec.metas, PointSpec.decoded, List.map_append, List.map_map, Function.comp_def]

/-- The catalog decodes the set's manifest, CRL and every published object to what the model says
it contains (faithful decoding – an assumption about the relying party's parser and the absence of
hash collisions; the harness's relying party really parses the files). -/
structure DecodesAll (cat : Catalog) (key : Nat) (s : KeyObjectSet) (sp : PointSpec) : Prop where
  mft : cat s.manifest.hash = some (.mft ⟨key, s.manifest.number, s.manifest.thisUpdate,
    s.manifest.nextUpdate, s.manifest.entries⟩)
  crl : cat s.crl.hash = some (.crl ⟨key, s.crl.number, s.crl.thisUpdate, s.crl.nextUpdate, s.crl.revoked⟩)
  objs : ∀ d ∈ sp.decoded key, cat d.1.hash = some d.2
  /-- a child certificate carries the serial and expiry recorded for its file -/
  certMeta : ∀ e ∈ sp.certs, e.2.serial = e.1.serial ∧ e.2.notAfter = e.1.expires

/-- What the relying party needs of the state of one key set publishing objects of all kinds. -/
structure ReadyAll (ca : Cert) (s : KeyObjectSet) (files : Files) (now : Nat) (sp : PointSpec) : Prop where
  good : GoodSet s
  /-- the published objects are the described ones (names are irrelevant to the relying party) -/
  sound : ∀ e ∈ s.published, ∃ m ∈ sp.metas, e.2 = pubOf m
  complete : ∀ m ∈ sp.metas, ∃ n, (n, pubOf m) ∈ s.published
  mftName : s.mftName = ca.mftName
  crlName : s.crlName = ca.crlName
  namesDiffer : ca.mftName ≠ ca.crlName
  mftFresh : ca.mftName ∉ keys s.published
  crlFresh : ca.crlName ∉ keys s.published
  /-- the server content of this publication point is the set's elements (after a sync) -/
  filesNodup : (keys files).Nodup
  files : ∀ f, f ∈ files ↔ (f = (s.mftName, s.manifest.hash) ∨ f = (s.crlName, s.crl.hash) ∨
    f ∈ s.published.map fun e => (e.1, e.2.hash))
  window : s.revision.thisUpdate ≤ now ∧ now < s.revision.nextUpdate
  unexpired : ∀ m ∈ sp.metas, now < m.expires
  unrevoked : ∀ m ∈ sp.metas, m.serial ∉ s.crl.revoked
  roaNonempty : ∀ i ∈ sp.roas, i.auths ≠ []
  roaCovered : ∀ i ∈ sp.roas, ∀ p ∈ i.auths, ca.resources.coversPfx p = true
  aspaCovered : ∀ i ∈ sp.aspas, ca.resources.hasAsn i.defn.customer = true
  routerCovered : ∀ e ∈ sp.routers, ca.resources.hasAsn e.1.asn = true
  /-- child certificates are issued by this key … -/
  certIssuer : ∀ e ∈ sp.certs, e.2.issuer = ca.subject
  /-- … for resources inside the key's own certificate (C02 `never_overclaims`) -/
  certContained : ∀ e ∈ sp.certs, resSubset e.2.resources ca.resources = true

/-- `Ready` + `Decodes` (ROAs only) is the special case with no other objects. -/
theorem Ready.toAll {nm : Naming} {ca : Cert} {r : Roas} {s : KeyObjectSet} {files : Files} {now : Nat}
    (h : Ready nm ca r s files now) : ReadyAll ca s files now { roas := infos r } := by
  have hm : ∀ m, m ∈ ({ roas := infos r } : PointSpec).metas ↔ ∃ i ∈ infos r, m = i.obj := by
    intro m
    simp only [PointSpec.metas, List.map_nil, List.append_nil, List.mem_map]
    exact ⟨fun ⟨i, hi, e⟩ => ⟨i, hi, e.symm⟩, fun ⟨i, hi, e⟩ => ⟨i, hi, e.symm⟩⟩
  exact
    { good := h.good
      sound := fun e he => by
        obtain ⟨i, hi, hie⟩ := mirror_info h.mirror he
        exact ⟨i.obj, (hm _).mpr ⟨i, hi, rfl⟩, hie⟩
      complete := fun m hmm => by
        obtain ⟨i, hi, rfl⟩ := (hm m).mp hmm
        exact info_published h.mirror hi
      mftName := h.mftName, crlName := h.crlName, namesDiffer := h.namesDiffer
      mftFresh := h.mftFresh, crlFresh := h.crlFresh, filesNodup := h.filesNodup, files := h.files
      window := h.window
      unexpired := fun m hmm => by obtain ⟨i, hi, rfl⟩ := (hm m).mp hmm; exact h.unexpired i hi
      unrevoked := fun m hmm => by obtain ⟨i, hi, rfl⟩ := (hm m).mp hmm; exact h.unrevoked i hi
      roaNonempty := infos_nonempty_auths r h.wf
      roaCovered := fun i hi p hp =>
        h.covered p (by rw [payloads_eq_infos]; exact List.mem_flatMap.mpr ⟨i, hi, hp⟩)
      aspaCovered := fun _ hi => nomatch hi
      routerCovered := fun _ hi => nomatch hi
      certIssuer := fun _ hi => nomatch hi
      certContained := fun _ hi => nomatch hi }

theorem Decodes.toAll {cat : Catalog} {key : Nat} {r : Roas} {s : KeyObjectSet} (h : Decodes cat key r s) :
    DecodesAll cat key s { roas := infos r } :=
  { mft := h.mft, crl := h.crl
    objs := fun d hd => by
      simp only [PointSpec.decoded, List.map_nil, List.append_nil, List.mem_map] at hd
      obtain ⟨i, hi, rfl⟩ := hd
      exact h.roa i hi
    certMeta := fun _ hi => nomatch hi }

section
variable {cat : Catalog} {ca : Cert} {s : KeyObjectSet} {files : Files} {now : Nat} {sp : PointSpec}

theorem ReadyAll.mem_otherFiles (h : ReadyAll ca s files now sp) (f : Nat × Nat) :
    f ∈ otherFiles files ca ↔
      (f = (s.crlName, s.crl.hash) ∨ f ∈ s.published.map fun e => (e.1, e.2.hash)) := by
  simp only [otherFiles, List.mem_filter, decide_eq_true_eq, h.files]
  constructor
  · rintro ⟨h1 | h1 | h1, h2⟩
    · subst h1; exact absurd h.mftName h2
    · exact Or.inl h1
    · exact Or.inr h1
  · rintro (h1 | h1)
    · exact ⟨Or.inr (Or.inl h1), by subst h1; simp only [h.crlName]; exact fun e => h.namesDiffer e.symm⟩
    · refine ⟨Or.inr (Or.inr h1), ?_⟩
      obtain ⟨e, he, rfl⟩ := List.mem_map.mp h1
      intro heq
      exact h.mftFresh (heq ▸ mem_keys_of_mem he)

theorem ReadyAll.pointHead (hd : DecodesAll cat ca.subject s sp) (h : ReadyAll ca s files now sp) :
    pointHead cat files ca now =
      some (⟨ca.subject, s.manifest.number, s.manifest.thisUpdate, s.manifest.nextUpdate, s.manifest.entries⟩,
            ⟨ca.subject, s.crl.number, s.crl.thisUpdate, s.crl.nextUpdate, s.crl.revoked⟩) := by
  have hna := h.good.2.2
  have hm : get? files ca.mftName = some s.manifest.hash :=
    get?_of_mem h.filesNodup ((h.files _).mpr (Or.inl (by rw [h.mftName])))
  have hent := entries_eq s h.good (by rw [h.crlName]; exact h.crlFresh)
  have hc : get? s.manifest.entries ca.crlName = some s.crl.hash := by
    rw [hent]; simp [get?, h.crlName]
  obtain ⟨w1, w2⟩ := h.window
  simp only [Rp.pointHead, hm, hd.mft, hc, hd.crl, hna.2.2.1, hna.2.2.2.1, hna.2.2.2.2.1, hna.2.2.2.2.2, w1, w2,
    and_self, if_true]

/-- A published entry is one of the described objects, decoded faithfully. -/
theorem ReadyAll.decoded_of_published (hd : DecodesAll cat ca.subject s sp) (h : ReadyAll ca s files now sp)
    {e : Nat × PubObj} (he : e ∈ s.published) :
    ∃ d ∈ sp.decoded ca.subject, e.2 = pubOf d.1 ∧ cat e.2.hash = some d.2 := by
  obtain ⟨m, hm, hem⟩ := h.sound e he
  rw [sp.metas_eq ca.subject] at hm
  obtain ⟨d, hdm, rfl⟩ := List.mem_map.mp hm
  refine ⟨d, hdm, hem, ?_⟩
  rw [hem]
  exact hd.objs d hdm

/-- Every described object is a file of the point (other than the manifest). -/
theorem ReadyAll.file_of_decoded (hd : DecodesAll cat ca.subject s sp) (h : ReadyAll ca s files now sp)
    {d : ObjMeta × Obj} (hdm : d ∈ sp.decoded ca.subject) :
    ∃ f ∈ otherFiles files ca, cat f.2 = some d.2 := by
  have hm : d.1 ∈ sp.metas := by rw [sp.metas_eq ca.subject]; exact List.mem_map.mpr ⟨d, hdm, rfl⟩
  obtain ⟨n, hn⟩ := h.complete d.1 hm
  refine ⟨(n, d.1.hash), (h.mem_otherFiles _).mpr (Or.inr (List.mem_map.mpr ⟨(n, pubOf d.1), hn, rfl⟩)), ?_⟩
  exact hd.objs d hdm

/-- Whatever is extracted object by object from the files other than the manifest (nothing from
the CRL) is what is extracted from the described objects. -/
theorem ReadyAll.extract {α : Type} (hd : DecodesAll cat ca.subject s sp) (h : ReadyAll ca s files now sp)
    (ex : Obj → List α) (hcrl : ∀ c, ex (.crl c) = []) (x : α) :
    (∃ f ∈ otherFiles files ca, ∃ o, cat f.2 = some o ∧ x ∈ ex o) ↔
      ∃ d ∈ sp.decoded ca.subject, x ∈ ex d.2 := by
  constructor
  · rintro ⟨f, hf, o, ho, hx⟩
    rcases (h.mem_otherFiles f).mp hf with h1 | h1
    · subst h1
      rw [hd.crl] at ho
      cases ho
      rw [hcrl] at hx
      cases hx
    · obtain ⟨e, he, rfl⟩ := List.mem_map.mp h1
      obtain ⟨d, hdm, _, hc⟩ := h.decoded_of_published hd he
      rw [hc] at ho
      cases ho
      exact ⟨d, hdm, hx⟩
  · rintro ⟨d, hdm, hx⟩
    obtain ⟨f, hf, hc⟩ := h.file_of_decoded hd hdm
    exact ⟨f, hf, d.2, hc, hx⟩

end

/-! ### Extraction functions behind `pointVrps`, `pointAspas`, `pointRouterKeys`, `childCerts` -/

def vrpsOf : Obj → List Payload
  | .signed s => (match s.content with | .roa ps => ps | _ => [])
  | _ => []
def aspasOf : Obj → List AspaDefn
  | .signed s => (match s.content with | .aspa d => [d] | _ => [])
  | _ => []
def routerKeysOf : Obj → List RouterKey
  | .signed s => (match s.content with | .router k => [k] | _ => [])
  | _ => []
def certsOf : Obj → List Cert
  | .cert c => [c]
  | _ => []

theorem mem_pointVrps {cat : Catalog} {files : Files} {ca : Cert} {x : Payload} :
    x ∈ pointVrps cat files ca ↔ ∃ f ∈ otherFiles files ca, ∃ o, cat f.2 = some o ∧ x ∈ vrpsOf o := by
  simp only [pointVrps, List.mem_flatMap]
  constructor
  · rintro ⟨f, hf, hx⟩
    cases hc : cat f.2 with
    | none => rw [hc] at hx; cases hx
    | some o => rw [hc] at hx; exact ⟨f, hf, o, hc, by cases o <;> first | exact hx | cases hx⟩
  · rintro ⟨f, hf, o, hc, hx⟩
    refine ⟨f, hf, ?_⟩
    rw [hc]
    cases o <;> first | exact hx | cases hx

theorem mem_pointAspas {cat : Catalog} {files : Files} {ca : Cert} {x : AspaDefn} :
    x ∈ pointAspas cat files ca ↔ ∃ f ∈ otherFiles files ca, ∃ o, cat f.2 = some o ∧ x ∈ aspasOf o := by
  simp only [pointAspas, List.mem_flatMap]
  constructor
  · rintro ⟨f, hf, hx⟩
    cases hc : cat f.2 with
    | none => rw [hc] at hx; cases hx
    | some o => rw [hc] at hx; exact ⟨f, hf, o, hc, by cases o <;> first | exact hx | cases hx⟩
  · rintro ⟨f, hf, o, hc, hx⟩
    refine ⟨f, hf, ?_⟩
    rw [hc]
    cases o <;> first | exact hx | cases hx

theorem mem_pointRouterKeys {cat : Catalog} {files : Files} {ca : Cert} {x : RouterKey} :
    x ∈ pointRouterKeys cat files ca ↔
      ∃ f ∈ otherFiles files ca, ∃ o, cat f.2 = some o ∧ x ∈ routerKeysOf o := by
  simp only [pointRouterKeys, List.mem_flatMap]
  constructor
  · rintro ⟨f, hf, hx⟩
    cases hc : cat f.2 with
    | none => rw [hc] at hx; cases hx
    | some o => rw [hc] at hx; exact ⟨f, hf, o, hc, by cases o <;> first | exact hx | cases hx⟩
  · rintro ⟨f, hf, o, hc, hx⟩
    refine ⟨f, hf, ?_⟩
    rw [hc]
    cases o <;> first | exact hx | cases hx

theorem mem_childCerts {cat : Catalog} {files : Files} {ca : Cert} {x : Cert} :
    x ∈ childCerts cat files ca ↔ ∃ f ∈ otherFiles files ca, ∃ o, cat f.2 = some o ∧ x ∈ certsOf o := by
  simp only [childCerts, List.mem_filterMap]
  constructor
  · rintro ⟨f, hf, hx⟩
    cases hc : cat f.2 with
    | none => rw [hc] at hx; cases hx
    | some o =>
      rw [hc] at hx
      refine ⟨f, hf, o, hc, ?_⟩
      cases o <;> first | (cases hx; exact List.mem_singleton.mpr rfl) | cases hx
  · rintro ⟨f, hf, o, hc, hx⟩
    refine ⟨f, hf, ?_⟩
    rw [hc]
    cases o <;> first | (cases List.mem_singleton.mp hx; rfl) | cases hx

theorem PointSpec.mem_decoded {sp : PointSpec} {key : Nat} {d : ObjMeta × Obj} :
    d ∈ sp.decoded key ↔
      (∃ i ∈ sp.roas, d = (i.obj, .signed ⟨key, i.obj.serial, i.obj.expires, .roa i.auths⟩)) ∨
      (∃ i ∈ sp.aspas, d = (i.obj, .signed ⟨key, i.obj.serial, i.obj.expires, .aspa i.defn⟩)) ∨
      (∃ e ∈ sp.routers, d = (e.2, .signed ⟨key, e.2.serial, e.2.expires, .router e.1⟩)) ∨
      (∃ e ∈ sp.certs, d = (e.1, .cert e.2)) := by
  simp only [PointSpec.decoded, List.mem_append, List.mem_map, or_assoc]
  constructor
  · rintro (⟨i, hi, rfl⟩ | ⟨i, hi, rfl⟩ | ⟨i, hi, rfl⟩ | ⟨i, hi, rfl⟩)
    · exact Or.inl ⟨i, hi, rfl⟩
    · exact Or.inr (Or.inl ⟨i, hi, rfl⟩)
    · exact Or.inr (Or.inr (Or.inl ⟨i, hi, rfl⟩))
    · exact Or.inr (Or.inr (Or.inr ⟨i, hi, rfl⟩))
  · rintro (⟨i, hi, rfl⟩ | ⟨i, hi, rfl⟩ | ⟨i, hi, rfl⟩ | ⟨i, hi, rfl⟩)
    · exact Or.inl ⟨i, hi, rfl⟩
    · exact Or.inr (Or.inl ⟨i, hi, rfl⟩)
    · exact Or.inr (Or.inr (Or.inl ⟨i, hi, rfl⟩))
    · exact Or.inr (Or.inr (Or.inr ⟨i, hi, rfl⟩))

/-! ### The generalised one-level results -/

section
variable {cat : Catalog} {ca : Cert} {s : KeyObjectSet} {files : Files} {now : Nat} {sp : PointSpec}

/-- The publication point of a key set publishing ROAs, ASPA objects, router certificates and
child CA certificates validates. -/
theorem point_valid_all (hd : DecodesAll cat ca.subject s sp) (h : ReadyAll ca s files now sp) :
    PointValid cat files ca now = true := by
  have hent := entries_eq s h.good (by rw [h.crlName]; exact h.crlFresh)
  simp only [PointValid, h.pointHead hd, Bool.and_eq_true, List.all_eq_true, List.contains_iff_mem]
  refine ⟨⟨?_, ?_⟩, ?_⟩
  · intro e he
    rw [hent] at he
    rw [h.mem_otherFiles]
    rcases List.mem_cons.mp he with h1 | h1
    · exact Or.inl h1
    · exact Or.inr h1
  · intro f hf
    rw [hent]
    rcases (h.mem_otherFiles f).mp hf with h1 | h1
    · exact List.mem_cons.mpr (Or.inl h1)
    · exact List.mem_cons.mpr (Or.inr h1)
  · intro e he
    rw [hent] at he
    rcases List.mem_cons.mp he with h1 | h1
    · subst h1; simp [entryOk, h.crlName]
    · obtain ⟨pe, hpe, rfl⟩ := List.mem_map.mp h1
      have hne : pe.1 ≠ ca.crlName := fun heq => h.crlFresh (heq ▸ mem_keys_of_mem hpe)
      obtain ⟨d, hdm, hpd, hc⟩ := h.decoded_of_published hd hpe
      have hmeta : d.1 ∈ sp.metas := by rw [sp.metas_eq ca.subject]; exact List.mem_map.mpr ⟨d, hdm, rfl⟩
      have hexp := h.unexpired d.1 hmeta
      have hrev := h.unrevoked d.1 hmeta
      simp only [entryOk, hne, if_false, hc]
      rcases PointSpec.mem_decoded.mp hdm with ⟨i, hi, rfl⟩ | ⟨i, hi, rfl⟩ | ⟨i, hi, rfl⟩ | ⟨i, hi, rfl⟩
      · have hcov : (i.auths.all ca.resources.coversPfx) = true :=
          List.all_eq_true.mpr (h.roaCovered i hi)
        have hnonempty : i.auths.isEmpty = false := by
          cases ha : i.auths with
          | nil => exact absurd ha (h.roaNonempty i hi)
          | cons _ _ => rfl
        simp [hrev, hexp, contentOk, hcov, hnonempty]
      · simp [hrev, hexp, contentOk, h.aspaCovered i hi]
      · simp [hrev, hexp, contentOk, h.routerCovered i hi]
      · obtain ⟨e1, e2⟩ := hd.certMeta i hi
        simp only at hexp hrev
        simp [h.certIssuer i hi, e1, e2, hrev, hexp, h.certContained i hi]

/-- Its validated ROA payloads are those of the ROA objects … -/
theorem point_vrps_all (hd : DecodesAll cat ca.subject s sp) (h : ReadyAll ca s files now sp) (p : Payload) :
    p ∈ pointVrps cat files ca ↔ p ∈ sp.roas.flatMap (·.auths) := by
  rw [mem_pointVrps, h.extract hd vrpsOf (fun _ => rfl), List.mem_flatMap]
  constructor
  · rintro ⟨d, hdm, hx⟩
    rcases PointSpec.mem_decoded.mp hdm with ⟨i, hi, rfl⟩ | ⟨i, hi, rfl⟩ | ⟨i, hi, rfl⟩ | ⟨i, hi, rfl⟩
    · exact ⟨i, hi, hx⟩
    all_goals cases hx
  · rintro ⟨i, hi, hx⟩
    exact ⟨_, PointSpec.mem_decoded.mpr (Or.inl ⟨i, hi, rfl⟩), hx⟩

/-- … its validated ASPA definitions those of the ASPA objects … -/
theorem point_aspas_all (hd : DecodesAll cat ca.subject s sp) (h : ReadyAll ca s files now sp) (a : AspaDefn) :
    a ∈ pointAspas cat files ca ↔ a ∈ sp.aspas.map (·.defn) := by
  rw [mem_pointAspas, h.extract hd aspasOf (fun _ => rfl), List.mem_map]
  constructor
  · rintro ⟨d, hdm, hx⟩
    rcases PointSpec.mem_decoded.mp hdm with ⟨i, hi, rfl⟩ | ⟨i, hi, rfl⟩ | ⟨i, hi, rfl⟩ | ⟨i, hi, rfl⟩
    · cases hx
    · exact ⟨i, hi, (List.mem_singleton.mp hx).symm⟩
    all_goals cases hx
  · rintro ⟨i, hi, rfl⟩
    exact ⟨_, PointSpec.mem_decoded.mpr (Or.inr (Or.inl ⟨i, hi, rfl⟩)), List.mem_singleton.mpr rfl⟩

/-- … its validated router keys those of the router certificates … -/
theorem point_router_keys_all (hd : DecodesAll cat ca.subject s sp) (h : ReadyAll ca s files now sp)
    (k : RouterKey) : k ∈ pointRouterKeys cat files ca ↔ k ∈ sp.routers.map (·.1) := by
  rw [mem_pointRouterKeys, h.extract hd routerKeysOf (fun _ => rfl), List.mem_map]
  constructor
  · rintro ⟨d, hdm, hx⟩
    rcases PointSpec.mem_decoded.mp hdm with ⟨i, hi, rfl⟩ | ⟨i, hi, rfl⟩ | ⟨i, hi, rfl⟩ | ⟨i, hi, rfl⟩
    · cases hx
    · cases hx
    · exact ⟨i, hi, (List.mem_singleton.mp hx).symm⟩
    · cases hx
  · rintro ⟨i, hi, rfl⟩
    exact ⟨_, PointSpec.mem_decoded.mpr (Or.inr (Or.inr (Or.inl ⟨i, hi, rfl⟩))), List.mem_singleton.mpr rfl⟩

/-- … and the CA certificates found there are the published child certificates. -/
theorem child_certs_all (hd : DecodesAll cat ca.subject s sp) (h : ReadyAll ca s files now sp) (c : Cert) :
    c ∈ childCerts cat files ca ↔ c ∈ sp.certs.map (·.2) := by
  rw [mem_childCerts, h.extract hd certsOf (fun _ => rfl), List.mem_map]
  constructor
  · rintro ⟨d, hdm, hx⟩
    rcases PointSpec.mem_decoded.mp hdm with ⟨i, hi, rfl⟩ | ⟨i, hi, rfl⟩ | ⟨i, hi, rfl⟩ | ⟨i, hi, rfl⟩
    · cases hx
    · cases hx
    · cases hx
    · exact ⟨i, hi, (List.mem_singleton.mp hx).symm⟩
  · rintro ⟨i, hi, rfl⟩
    exact ⟨_, PointSpec.mem_decoded.mpr (Or.inr (Or.inr (Or.inr ⟨i, hi, rfl⟩))), List.mem_singleton.mpr rfl⟩

end

/-! ### Bridge to the hierarchy -/

/-- The objects of a node's key set say exactly what is configured and covered, and the child
certificates are the certificates of the node's children.  Each clause is the conclusion of a
per-CA theorem (see `Props/C01.lean`, `quiescent_valid_tree`). -/
structure SpecExact (n : Node) (sp : PointSpec) : Prop where
  roas    : ∀ p, p ∈ sp.roas.flatMap (·.auths) ↔ (p ∈ n.configured ∧ n.ca.resources.coversPfx p = true)
  aspas   : ∀ d, d ∈ sp.aspas.map (·.defn) ↔ (d ∈ n.aspas ∧ n.ca.resources.hasAsn d.customer = true)
  routers : ∀ k, k ∈ sp.routers.map (·.1) ↔ (k ∈ n.routerKeys ∧ n.ca.resources.hasAsn k.asn = true)
  certs   : ∀ c, c ∈ sp.certs.map (·.2) ↔ c ∈ n.children.map (·.ca)

/-- One level ⇒ the local condition of the hierarchy. -/
theorem nodeOk_of_readyAll {cat : Catalog} {now : Nat} {n : Node} {s : KeyObjectSet} {sp : PointSpec}
    (hd : DecodesAll cat n.ca.subject s sp) (h : ReadyAll n.ca s n.files now sp) (hx : SpecExact n sp) :
    NodeOk cat now n :=
  { valid := point_valid_all hd h
    vrps := sameMembers_iff.mpr fun p => by
      rw [point_vrps_all hd h p, hx.roas p, Node.ownVrps, List.mem_filter]
    aspas := sameMembers_iff.mpr fun d => by
      rw [point_aspas_all hd h d, hx.aspas d, Node.ownAspas, List.mem_filter]
    routerKeys := sameMembers_iff.mpr fun k => by
      rw [point_router_keys_all hd h k, hx.routers k, Node.ownRouterKeys, List.mem_filter]
    children := sameMembers_iff.mpr fun c => by
      rw [child_certs_all hd h c, hx.certs c] }

/-- The ROA-only special case (a leaf CA without covered ASPA / router configuration), from the
hypotheses of `point_valid` / `point_vrps`. -/
theorem nodeOk_of_ready {nm : Naming} {cat : Catalog} {now : Nat} {n : Node} {r : Roas} {s : KeyObjectSet}
    (hd : Decodes cat n.ca.subject r s) (h : Ready nm n.ca r s n.files now)
    (hpay : ∀ p, p ∈ r.payloads ↔ (p ∈ n.configured ∧ n.ca.resources.coversPfx p = true))
    (ha : n.ownAspas = []) (hr : n.ownRouterKeys = []) (hc : n.children = []) : NodeOk cat now n := by
  refine nodeOk_of_readyAll hd.toAll h.toAll
    { roas := fun p => by rw [← payloads_eq_infos]; exact hpay p, aspas := ?_, routers := ?_, certs := ?_ }
  · intro d
    have : d ∉ n.ownAspas := by rw [ha]; exact List.not_mem_nil
    simp only [Node.ownAspas, List.mem_filter] at this
    simp only [List.map_nil, List.not_mem_nil, false_iff]
    exact this
  · intro k
    have : k ∉ n.ownRouterKeys := by rw [hr]; exact List.not_mem_nil
    simp only [Node.ownRouterKeys, List.mem_filter] at this
    simp only [List.map_nil, List.not_mem_nil, false_iff]
    exact this
  · intro c
    simp only [hc, List.map_nil]

/-- The state after any history of a class ending in a re-derivation for `routes` under `ca`
(possibly followed by renewals / republish runs) and a repository synchronisation is `Ready`, and
its ROA payloads are the configured-and-covered routes.  (This is the first half of the proof of
`Props.C01.quiescent_valid_partial`, as a lemma.) -/
theorem ready_of_history (nm : Naming) (hnm : nm.Ok) (t : Timing) (k : NewKey)
    (ops₁ ops₂ : List ClassOp) (hops₁ : ∀ op ∈ ops₁, op.ok) (hnd : ∀ op ∈ ops₂, op.isDerive = false)
    (routes : List Payload) (hroutes : routes.Nodup) (deagg agg : Nat)
    (mintS : Payload → ObjMeta) (mintA : AggKey → ObjMeta) (i : IssueIn)
    (ca : Cert) (rcn : Nat) (server : List (Uri × Nat)) (hsrv : (keys server).Nodup) (now : Nat) :
    let c := (((ClassState.init k t).run nm t ops₁).step nm t
      (.derive ca.resources.coversPfx routes deagg agg mintS mintA i)).run nm t ops₂
    let files := filesAfterSync server rcn c.set
    c.set.mftName = ca.mftName → c.set.crlName = ca.crlName → ca.mftName ≠ ca.crlName →
    ca.mftName ∉ keys c.set.published → ca.crlName ∉ keys c.set.published →
    (c.set.revision.thisUpdate ≤ now ∧ now < c.set.revision.nextUpdate) →
    (∀ x ∈ infos c.roas, now < x.obj.expires) → (∀ x ∈ infos c.roas, x.obj.serial ∉ c.set.crl.revoked) →
    Ready nm ca c.roas c.set files now ∧
    ∀ p, p ∈ c.roas.payloads ↔ (p ∈ routes ∧ ca.resources.coversPfx p = true) := by
  intro c files hm hc hne hmf hcf hwin hexp hrev
  have inv1 := classInv_run nm hnm t ops₁ (ClassState.init k t) hops₁ (classInv_init nm k t)
  have inv2 := classInv_step nm hnm t _ (.derive ca.resources.coversPfx routes deagg agg mintS mintA i) hroutes inv1
  have hops₂ : ∀ op ∈ ops₂, op.ok := by
    intro op ho
    have := hnd op ho
    cases op <;> simp [ClassOp.isDerive, ClassOp.ok] at this ⊢
  have inv3 : ClassInv nm c := classInv_run nm hnm t ops₂ _ hops₂ inv2
  have hpay : ∀ p, p ∈ c.roas.payloads ↔ (p ∈ routes ∧ ca.resources.coversPfx p = true) := by
    intro p
    rw [payloads_run_nonDerive nm hnm t ops₂ _ inv2 hnd p]
    exact (createUpdates_exact _ inv1.1 ca.resources.coversPfx routes hroutes deagg agg mintS mintA).1 p
  obtain ⟨f1, f2⟩ := filesAfterSync_spec server hsrv rcn c.set inv3.2.1.1 (by rw [hm, hc]; exact hne)
    (by rw [hm]; exact hmf) (by rw [hc]; exact hcf)
  exact ⟨{ wf := inv3.1, good := inv3.2.2, mirror := inv3.2.1.2, mftName := hm, crlName := hc, namesDiffer := hne,
           mftFresh := hmf, crlFresh := hcf, filesNodup := f1, files := f2, window := hwin,
           unexpired := hexp, unrevoked := hrev, covered := fun p hp => ((hpay p).mp hp).2 }, hpay⟩

/-! ### Non-vacuity: the key sets behind the nodes of `Example.tree` -/

theorem complete_of_bex {s : KeyObjectSet} {sp : PointSpec}
    (h : ∀ m ∈ sp.metas, ∃ e ∈ s.published, e.2 = pubOf m) : ∀ m ∈ sp.metas, ∃ n, (n, pubOf m) ∈ s.published := by
  intro m hm
  obtain ⟨e, he, heq⟩ := h m hm
  exact ⟨e.1, by rw [← heq]; exact he⟩

theorem files_of_sameMembers {s : KeyObjectSet} {files : Files}
    (h : sameMembers files ((s.mftName, s.manifest.hash) :: (s.crlName, s.crl.hash) ::
      s.published.map fun e => (e.1, e.2.hash)) = true) :
    ∀ f, f ∈ files ↔ (f = (s.mftName, s.manifest.hash) ∨ f = (s.crlName, s.crl.hash) ∨
      f ∈ s.published.map fun e => (e.1, e.2.hash)) := by
  intro f
  rw [sameMembers_iff.mp h f, List.mem_cons, List.mem_cons]

theorem specExact_of_sameMembers {n : Node} {sp : PointSpec}
    (h1 : sameMembers (sp.roas.flatMap (·.auths)) n.ownVrps = true)
    (h2 : sameMembers (sp.aspas.map (·.defn)) n.ownAspas = true)
    (h3 : sameMembers (sp.routers.map (·.1)) n.ownRouterKeys = true)
    (h4 : sameMembers (sp.certs.map (·.2)) (n.children.map (·.ca)) = true) : SpecExact n sp :=
  { roas := fun p => by rw [sameMembers_iff.mp h1 p, Node.ownVrps, List.mem_filter]
    aspas := fun d => by rw [sameMembers_iff.mp h2 d, Node.ownAspas, List.mem_filter]
    routers := fun k => by rw [sameMembers_iff.mp h3 k, Node.ownRouterKeys, List.mem_filter]
    certs := sameMembers_iff.mp h4 }

/-- All fields of `ReadyAll` for a concrete state, by evaluation. -/
macro "readyAll_decide%" : term => `(
  { good := by unfold GoodSet CrlOk ListsExactly NumbersAgree; decide
    sound := by decide
    complete := complete_of_bex (by decide)
    mftName := by decide, crlName := by decide, namesDiffer := by decide
    mftFresh := by decide, crlFresh := by decide, filesNodup := by decide
    files := files_of_sameMembers (by decide)
    window := by decide
    unexpired := by decide, unrevoked := by decide
    roaNonempty := by decide, roaCovered := by decide, aspaCovered := by decide
    routerCovered := by decide, certIssuer := by decide, certContained := by decide })

namespace Example

/-- Key set of the trust anchor: one child certificate. -/
def taSet : KeyObjectSet :=
  { base := 0, crlName := 101, mftName := 100, revision := ⟨2, 0, 5000⟩,
    published := [(10, ⟨5, 10000, 902⟩)],
    manifest := ⟨2, 0, 5000, [(101, 901), (10, 902)], 90, 900⟩,
    crl := ⟨101, 2, 0, 5000, [], 901⟩ }

def taSpec : PointSpec := { certs := [(⟨10, 5, 10000, 902⟩, caCert)] }

/-- Key set of the CA `Example.mid`: one ROA, one ASPA object, one router certificate, one child
certificate; one earlier object revoked. -/
def midSet : KeyObjectSet :=
  { base := 0, crlName := 101, mftName := 100, revision := ⟨7, 0, 5000⟩,
    revocations := [⟨4, 9999⟩],
    published := [(7, ⟨77, 9000, 912⟩), (8, ⟨78, 9000, 913⟩), (9, ⟨79, 9000, 915⟩), (10, ⟨6, 10000, 914⟩)],
    manifest := ⟨7, 0, 5000, [(101, 911), (7, 912), (8, 913), (9, 915), (10, 914)], 90, 910⟩,
    crl := ⟨101, 7, 0, 5000, [4], 911⟩ }

def midSpec : PointSpec :=
  { roas := [⟨[p2], ⟨7, 77, 9000, 912⟩⟩], aspas := [⟨aspa1, ⟨8, 78, 9000, 913⟩⟩],
    routers := [(rk2, ⟨9, 79, 9000, 915⟩)], certs := [(⟨10, 6, 10000, 914⟩, childCert)] }

/-- Key set of the child CA: one ROA, one router certificate. -/
def childSet : KeyObjectSet :=
  { base := 0, crlName := 101, mftName := 100, revision := ⟨3, 0, 5000⟩,
    published := [(7, ⟨11, 9000, 922⟩), (9, ⟨12, 9000, 923⟩)],
    manifest := ⟨3, 0, 5000, [(101, 921), (7, 922), (9, 923)], 90, 920⟩,
    crl := ⟨101, 3, 0, 5000, [], 921⟩ }

def childSpec : PointSpec :=
  { roas := [⟨[p1], ⟨7, 11, 9000, 922⟩⟩], routers := [(rk1, ⟨9, 12, 9000, 923⟩)] }

theorem ta_decodes : DecodesAll cat tree.ca.subject taSet taSpec :=
  { mft := by decide, crl := by decide, objs := by decide, certMeta := by decide }
theorem mid_decodes : DecodesAll cat mid.ca.subject midSet midSpec :=
  { mft := by decide, crl := by decide, objs := by decide, certMeta := by decide }
theorem child_decodes : DecodesAll cat child.ca.subject childSet childSpec :=
  { mft := by decide, crl := by decide, objs := by decide, certMeta := by decide }

theorem ta_ready : ReadyAll tree.ca taSet tree.files 1000 taSpec := readyAll_decide%
theorem mid_ready : ReadyAll mid.ca midSet mid.files 1000 midSpec := readyAll_decide%
theorem child_ready : ReadyAll child.ca childSet child.files 1000 childSpec := readyAll_decide%

theorem ta_exact : SpecExact tree taSpec :=
  specExact_of_sameMembers (by decide) (by decide) (by decide) (by decide)
theorem mid_exact : SpecExact mid midSpec :=
  specExact_of_sameMembers (by decide) (by decide) (by decide) (by decide)
theorem child_exact : SpecExact child childSpec :=
  specExact_of_sameMembers (by decide) (by decide) (by decide) (by decide)

/-- Every node of `Example.tree` has a key set, described objects and faithful decoding meeting
the per-node hypotheses of `Props.C01.quiescent_valid_tree`. -/
theorem tree_nodes_ready : ∀ n ∈ tree.nodes, ∃ (s : KeyObjectSet) (sp : PointSpec),
    DecodesAll cat n.ca.subject s sp ∧ ReadyAll n.ca s n.files 1000 sp ∧ SpecExact n sp := by
  intro n hn
  have : n = tree ∨ n = mid ∨ n = child := by
    simpa [tree, mid, child, Node.nodes, Node.nodesL] using hn
  rcases this with rfl | rfl | rfl
  · exact ⟨taSet, taSpec, ta_decodes, ta_ready, ta_exact⟩
  · exact ⟨midSet, midSpec, mid_decodes, mid_ready, mid_exact⟩
  · exact ⟨childSet, childSpec, child_decodes, child_ready, child_exact⟩

end Example

end KM.Sys.Rp
