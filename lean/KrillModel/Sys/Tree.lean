/-
A hierarchy of CAs as a rose tree: what every CA (more precisely: every certified key of a CA)
publishes, what is configured for it, and the CAs certified below it.  Any depth, any branching.

`Node.repo` is the content of the publication server seen by a relying party (publication point
key ↦ files); `Node.expectedVrps` / `expectedAspas` / `expectedRouterKeys` are the specification
of what a relying party should extract: per node the configured authorisations whose prefix / AS
number the node's own current certificate covers, united over all nodes.

Model file: import-free apart from the abstract relying party.
-/
import KrillModel.Sys.Rp
namespace KM.Sys.Rp
open KM.Ca.Pub

/-- One certified key of one CA with everything below it.  `ca` is the certificate the parent
published for it (for the root: the trust anchor certificate), `files` the content of its
publication point, `configured` / `aspas` / `routerKeys` the CA's configuration. -/
inductive Node where
  | mk (ca : Cert) (files : Files) (configured : List Payload) (aspas : List AspaDefn)
      (routerKeys : List RouterKey) (children : List Node)
deriving Repr, Inhabited

namespace Node

def ca : Node → Cert | mk c _ _ _ _ _ => c
def files : Node → Files | mk _ f _ _ _ _ => f
def configured : Node → List Payload | mk _ _ p _ _ _ => p
def aspas : Node → List AspaDefn | mk _ _ _ a _ _ => a
def routerKeys : Node → List RouterKey | mk _ _ _ _ r _ => r
def children : Node → List Node | mk _ _ _ _ _ cs => cs

mutual
/-- All nodes of the tree, the root first. -/
def nodes : Node → List Node
  | mk c f p a r cs => mk c f p a r cs :: nodesL cs
def nodesL : List Node → List Node
  | [] => []
  | n :: ns => nodes n ++ nodesL ns
end

mutual
/-- Number of levels (a leaf has depth 1). -/
def depth : Node → Nat
  | mk _ _ _ _ _ cs => depthL cs + 1
def depthL : List Node → Nat
  | [] => 0
  | n :: ns => max (depth n) (depthL ns)
end

/-- The publication server's content: one publication point per node, keyed by the subject key. -/
def repo (t : Node) : Repo := t.nodes.map fun n => (n.ca.subject, n.files)

/-- The publication-point keys of the tree. -/
def subjects (t : Node) : List Nat := t.nodes.map fun n => n.ca.subject

/-- Configured route authorisations of one node that its current certificate covers. -/
def ownVrps (n : Node) : List Payload := n.configured.filter n.ca.resources.coversPfx
/-- Configured ASPA definitions of one node whose customer AS its current certificate holds. -/
def ownAspas (n : Node) : List AspaDefn := n.aspas.filter fun d => n.ca.resources.hasAsn d.customer
/-- Configured router keys of one node whose AS its current certificate holds. -/
def ownRouterKeys (n : Node) : List RouterKey := n.routerKeys.filter fun k => n.ca.resources.hasAsn k.asn

/-- What a relying party should extract from the whole tree. -/
def expectedVrps (t : Node) : List Payload := t.nodes.flatMap ownVrps
def expectedAspas (t : Node) : List AspaDefn := t.nodes.flatMap ownAspas
def expectedRouterKeys (t : Node) : List RouterKey := t.nodes.flatMap ownRouterKeys

end Node

/-- The local condition on one node – exactly what the one-level results give: its publication
point validates under its certificate; the validated payloads of the point are (as sets) the
configured-and-covered ones; the CA certificates found at the point are (as a set) the
certificates of the node's children. -/
structure NodeOk (cat : Catalog) (now : Nat) (n : Node) : Prop where
  valid      : PointValid cat n.files n.ca now = true
  vrps       : sameMembers (pointVrps cat n.files n.ca) n.ownVrps = true
  aspas      : sameMembers (pointAspas cat n.files n.ca) n.ownAspas = true
  routerKeys : sameMembers (pointRouterKeys cat n.files n.ca) n.ownRouterKeys = true
  children   : sameMembers (childCerts cat n.files n.ca) (n.children.map (·.ca)) = true

/-- Executable form of `NodeOk`. -/
def nodeOk (cat : Catalog) (now : Nat) (n : Node) : Bool :=
  PointValid cat n.files n.ca now &&
  sameMembers (pointVrps cat n.files n.ca) n.ownVrps &&
  sameMembers (pointAspas cat n.files n.ca) n.ownAspas &&
  sameMembers (pointRouterKeys cat n.files n.ca) n.ownRouterKeys &&
  sameMembers (childCerts cat n.files n.ca) (n.children.map (·.ca))

end KM.Sys.Rp
