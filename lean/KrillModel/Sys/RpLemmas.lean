/- Composition of the publication model with the abstract relying party, one CA level:
the files a key object set publishes, seen through a catalog that decodes them faithfully, form a
valid publication point whose validated ROA payloads are those of the ROA objects. -/
import KrillModel.Sys.Rp
import KrillModel.Ca.Objects
import KrillModel.Ca.ObjLemmas
import KrillModel.Ca.RoaLemmas
import KrillModel.Ca.ObjLemmasSync
import KrillModel.Ca.ClassLemmas
namespace KM.Sys.Rp
open KM.Ca.Pub

/-- All ROA infos of a class. -/
def infos (r : Roas) : List RoaInfo := r.simple.map (·.2) ++ r.agg.map (·.2)

theorem payloads_eq_infos (r : Roas) : r.payloads = (infos r).flatMap (·.auths) := by
  simp [Roas.payloads, infos, List.flatMap_append, List.flatMap_map]

/-- The published objects of the key set are exactly the ROA objects (`objects_mirror`; the driver
checks it on the implementation after every op). -/
def Mirror (nm : Naming) (r : Roas) (s : KeyObjectSet) : Prop :=
  ∀ e : Nat × PubObj, e ∈ s.published ↔ e ∈ roaView nm r

theorem mirror_info {nm : Naming} {r : Roas} {s : KeyObjectSet} (h : Mirror nm r s) {e : Nat × PubObj}
    (he : e ∈ s.published) : ∃ i ∈ infos r, e.2 = pubOf i.obj := by
  rcases (mem_roaView nm r e).mp ((h e).mp he) with ⟨x, hx, rfl⟩ | ⟨x, hx, rfl⟩
  · exact ⟨x.2, by simp only [infos, List.mem_append, List.mem_map]; exact Or.inl ⟨x, hx, rfl⟩, rfl⟩
  · exact ⟨x.2, by simp only [infos, List.mem_append, List.mem_map]; exact Or.inr ⟨x, hx, rfl⟩, rfl⟩

theorem info_published {nm : Naming} {r : Roas} {s : KeyObjectSet} (h : Mirror nm r s) {i : RoaInfo}
    (hi : i ∈ infos r) : ∃ n, (n, pubOf i.obj) ∈ s.published := by
  simp only [infos, List.mem_append, List.mem_map] at hi
  rcases hi with ⟨x, hx, rfl⟩ | ⟨x, hx, rfl⟩
  · exact ⟨nm.nameS x.1, (h _).mpr ((mem_roaView nm r _).mpr (Or.inl ⟨x, hx, rfl⟩))⟩
  · exact ⟨nm.nameA x.1, (h _).mpr ((mem_roaView nm r _).mpr (Or.inr ⟨x, hx, rfl⟩))⟩

/-- The catalog decodes the set's manifest, CRL and ROAs to what the model says they contain. -/
structure Decodes (cat : Catalog) (key : Nat) (r : Roas) (s : KeyObjectSet) : Prop where
  mft : cat s.manifest.hash = some (.mft ⟨key, s.manifest.number, s.manifest.thisUpdate,
    s.manifest.nextUpdate, s.manifest.entries⟩)
  crl : cat s.crl.hash = some (.crl ⟨key, s.crl.number, s.crl.thisUpdate, s.crl.nextUpdate, s.crl.revoked⟩)
  roa : ∀ i ∈ infos r, cat i.obj.hash = some (.signed ⟨key, i.obj.serial, i.obj.expires, .roa i.auths⟩)

/-- What the relying party needs of the state. -/
structure Ready (nm : Naming) (ca : Cert) (r : Roas) (s : KeyObjectSet) (files : Files) (now : Nat) : Prop where
  wf : r.WF
  good : GoodSet s
  mirror : Mirror nm r s
  mftName : s.mftName = ca.mftName
  crlName : s.crlName = ca.crlName
  namesDiffer : ca.mftName ≠ ca.crlName
  mftFresh : ca.mftName ∉ keys s.published
  crlFresh : ca.crlName ∉ keys s.published
  /-- the server content of this publication point is the set's elements (after a sync) -/
  filesNodup : (keys files).Nodup
  files : ∀ f, f ∈ files ↔ (f = (s.mftName, s.manifest.hash) ∨ f = (s.crlName, s.crl.hash) ∨
    f ∈ s.published.map fun e => (e.1, e.2.hash))
  window : s.revision.thisUpdate ≤ now ∧ now < s.revision.nextUpdate
  unexpired : ∀ i ∈ infos r, now < i.obj.expires
  unrevoked : ∀ i ∈ infos r, i.obj.serial ∉ s.crl.revoked
  covered : ∀ p ∈ r.payloads, ca.resources.coversPfx p = true

theorem infos_nonempty_auths (r : Roas) (hr : r.WF) : ∀ i ∈ infos r, i.auths ≠ [] := by
  intro i hi
  simp only [infos, List.mem_append, List.mem_map] at hi
  rcases hi with ⟨e, he, rfl⟩ | ⟨e, he, rfl⟩
  · rw [hr.simpleAuth e he]; simp
  · exact hr.aggNonempty e he

theorem entries_eq (s : KeyObjectSet) (hg : GoodSet s) (hfresh : s.crlName ∉ keys s.published) :
    s.manifest.entries = (s.crlName, s.crl.hash) :: s.published.map fun e => (e.1, e.2.hash) := by
  rw [hg.2.1]
  simp only [mkEntries, putAll, hg.1.2]
  have hk : keys (s.published.map fun e => (e.1, e.2.hash)) = keys s.published := by
    simp [keys, List.map_map, Function.comp_def]
  rw [hk]
  simp [hfresh]

theorem pointHead_ready (nm : Naming) (cat : Catalog) (ca : Cert) (r : Roas) (s : KeyObjectSet) (files : Files) (now : Nat)
    (hd : Decodes cat ca.subject r s) (h : Ready nm ca r s files now) :
    pointHead cat files ca now =
      some (⟨ca.subject, s.manifest.number, s.manifest.thisUpdate, s.manifest.nextUpdate, s.manifest.entries⟩,
            ⟨ca.subject, s.crl.number, s.crl.thisUpdate, s.crl.nextUpdate, s.crl.revoked⟩) := by
  have hna := h.good.2.2
  have hm : get? files ca.mftName = some s.manifest.hash :=
    get?_of_mem h.filesNodup ((h.files _).mpr (Or.inl (by rw [h.mftName])))
  have hent := entries_eq s h.good (by rw [h.crlName]; exact h.crlFresh)
  have hc : get? s.manifest.entries ca.crlName = some s.crl.hash := by
    rw [hent, get?_cons]; simp [h.crlName]
  obtain ⟨w1, w2⟩ := h.window
  simp only [pointHead, hm, hd.mft, hc, hd.crl, hna.2.2.1, hna.2.2.2.1, hna.2.2.2.2.1, hna.2.2.2.2.2, w1, w2,
    and_self, if_true]

theorem point_valid (nm : Naming) (cat : Catalog) (ca : Cert) (r : Roas) (s : KeyObjectSet) (files : Files) (now : Nat)
    (hd : Decodes cat ca.subject r s) (h : Ready nm ca r s files now) :
    PointValid cat files ca now = true := by
  have hent := entries_eq s h.good (by rw [h.crlName]; exact h.crlFresh)
  have hother : ∀ f, f ∈ otherFiles files ca ↔
      (f = (s.crlName, s.crl.hash) ∨ f ∈ s.published.map fun e => (e.1, e.2.hash)) := by
    intro f
    simp only [otherFiles, List.mem_filter, decide_eq_true_eq, h.files]
    constructor
    · rintro ⟨h1 | h1 | h1, h2⟩
      · subst h1; exact absurd h.mftName h2
      · exact Or.inl h1
      · exact Or.inr h1
    · rintro (h1 | h1)
      · exact ⟨Or.inr (Or.inl h1), by subst h1; simp only [h.crlName]; exact fun e => h.namesDiffer e.symm⟩
      · refine ⟨Or.inr (Or.inr h1), ?_⟩
        obtain ⟨e, he, rfl⟩ := List.mem_map.mp h1
        intro heq
        exact h.mftFresh (heq ▸ mem_keys_of_mem he)
  simp only [PointValid, pointHead_ready nm cat ca r s files now hd h, Bool.and_eq_true, List.all_eq_true,
    List.contains_iff_mem]
  refine ⟨⟨?_, ?_⟩, ?_⟩
  · intro e he
    rw [hent] at he
    rw [hother]
    rcases List.mem_cons.mp he with h1 | h1
    · exact Or.inl h1
    · exact Or.inr h1
  · intro f hf
    rw [hent]
    rcases (hother f).mp hf with h1 | h1
    · exact List.mem_cons.mpr (Or.inl h1)
    · exact List.mem_cons.mpr (Or.inr h1)
  · intro e he
    rw [hent] at he
    rcases List.mem_cons.mp he with h1 | h1
    · subst h1; simp [entryOk, h.crlName]
    · obtain ⟨pe, hpe, rfl⟩ := List.mem_map.mp h1
      obtain ⟨i, hi, hie⟩ := mirror_info h.mirror hpe
      have hne : pe.1 ≠ ca.crlName := fun heq => h.crlFresh (heq ▸ mem_keys_of_mem hpe)
      have hcov : (i.auths.all ca.resources.coversPfx) = true := by
        rw [List.all_eq_true]
        intro p hp
        exact h.covered p (by rw [payloads_eq_infos]; exact List.mem_flatMap.mpr ⟨i, hi, hp⟩)
      have hnonempty : i.auths.isEmpty = false := by
        cases ha : i.auths with
        | nil => exact absurd ha (infos_nonempty_auths r h.wf i hi)
        | cons _ _ => rfl
      have hh : pe.2.hash = i.obj.hash := by rw [hie]; rfl
      simp [entryOk, hne, hh, hd.roa i hi, h.unrevoked i hi, h.unexpired i hi, contentOk, hcov, hnonempty]

theorem point_vrps (nm : Naming) (cat : Catalog) (ca : Cert) (r : Roas) (s : KeyObjectSet) (files : Files) (now : Nat)
    (hd : Decodes cat ca.subject r s) (h : Ready nm ca r s files now) :
    ∀ p, p ∈ pointVrps cat files ca ↔ p ∈ r.payloads := by
  intro p
  have hother : ∀ f, f ∈ otherFiles files ca ↔
      (f = (s.crlName, s.crl.hash) ∨ f ∈ s.published.map fun e => (e.1, e.2.hash)) := by
    intro f
    simp only [otherFiles, List.mem_filter, decide_eq_true_eq, h.files]
    constructor
    · rintro ⟨h1 | h1 | h1, h2⟩
      · subst h1; exact absurd h.mftName h2
      · exact Or.inl h1
      · exact Or.inr h1
    · rintro (h1 | h1)
      · exact ⟨Or.inr (Or.inl h1), by subst h1; simp only [h.crlName]; exact fun e => h.namesDiffer e.symm⟩
      · refine ⟨Or.inr (Or.inr h1), ?_⟩
        obtain ⟨e, he, rfl⟩ := List.mem_map.mp h1
        intro heq
        exact h.mftFresh (heq ▸ mem_keys_of_mem he)
  rw [payloads_eq_infos]
  simp only [pointVrps, List.mem_flatMap]
  constructor
  · rintro ⟨f, hf, hp⟩
    rcases (hother f).mp hf with h1 | h1
    · subst h1; simp [hd.crl] at hp
    · obtain ⟨pe, hpe, rfl⟩ := List.mem_map.mp h1
      obtain ⟨i, hi, hie⟩ := mirror_info h.mirror hpe
      have hh : pe.2.hash = i.obj.hash := by rw [hie]; rfl
      simp only [hh, hd.roa i hi] at hp
      exact ⟨i, hi, hp⟩
  · rintro ⟨i, hi, hp⟩
    obtain ⟨n, hn⟩ := info_published h.mirror hi
    refine ⟨(n, i.obj.hash), ?_, by simp only [hd.roa i hi]; exact hp⟩
    rw [hother]
    right
    exact List.mem_map.mpr ⟨(n, pubOf i.obj), hn, rfl⟩

/-! ### The files after a repository synchronisation -/

theorem mem_iff_get? {κ ν} [DecidableEq κ] {m : List (κ × ν)} (hn : (keys m).Nodup) (k : κ) (v : ν) :
    (k, v) ∈ m ↔ get? m k = some v :=
  ⟨fun h => get?_of_mem hn h, fun h => get?_some_mem' h⟩

theorem elements_keys_nodup (s : KeyObjectSet) (hn : (keys s.published).Nodup) (h1 : s.mftName ≠ s.crlName)
    (h2 : s.mftName ∉ keys s.published) (h3 : s.crlName ∉ keys s.published) : (keys s.elements).Nodup := by
  have hk : keys (s.published.map fun e => ((s.base, e.1), e.2.hash)) = (keys s.published).map fun n => (s.base, n) := by
    simp [keys, List.map_map, Function.comp_def]
  simp only [KeyObjectSet.elements, keys, List.map_cons, List.nodup_cons, List.mem_cons]
  simp only [keys] at hk
  rw [hk]
  refine ⟨?_, ?_, ?_⟩
  · rintro (h | h)
    · exact h1 (Prod.mk.inj h).2
    · obtain ⟨n, hn', heq⟩ := List.mem_map.mp h
      exact h2 ((Prod.mk.inj heq).2 ▸ hn')
  · intro h
    obtain ⟨n, hn', heq⟩ := List.mem_map.mp h
    exact h3 ((Prod.mk.inj heq).2 ▸ hn')
  · exact List.Pairwise.map _ (fun a b hab h' => hab (Prod.mk.inj h').2) hn

/-- The server content for the publisher after `sync_repo`, whatever it was before, is the set's
elements; as files of the publication point (names without the directory): -/
def filesAfterSync (server : List (Uri × Nat)) (rcn : Nat) (s : KeyObjectSet) : Files :=
  (syncRepo server [(rcn, .current s)]).map fun e => (e.1.2, e.2)

theorem filesAfterSync_spec (server : List (Uri × Nat)) (hsrv : (keys server).Nodup) (rcn : Nat) (s : KeyObjectSet)
    (hn : (keys s.published).Nodup) (h1 : s.mftName ≠ s.crlName)
    (h2 : s.mftName ∉ keys s.published) (h3 : s.crlName ∉ keys s.published) :
    (keys (filesAfterSync server rcn s)).Nodup ∧
    ∀ f, f ∈ filesAfterSync server rcn s ↔ (f = (s.mftName, s.manifest.hash) ∨ f = (s.crlName, s.crl.hash) ∨
      f ∈ s.published.map fun e => (e.1, e.2.hash)) := by
  have hel : allPublishElements [(rcn, ClassObjects.current s)] = s.elements := by
    simp [allPublishElements, allSets, ClassObjects.sets]
  have hek := elements_keys_nodup s hn h1 h2 h3
  obtain ⟨sn, sg⟩ := syncRepo_exact server s.elements hsrv
  have hmap : ∀ u, get? (elementMap s.elements) u = get? s.elements u := by
    intro u
    simp only [elementMap]
    rw [get?_foldl_put _ hek]
    cases get? s.elements u <;> simp [get?_nil]
  have hmem : ∀ e : Uri × Nat, e ∈ syncRepo server [(rcn, .current s)] ↔ e ∈ s.elements := by
    intro e
    obtain ⟨u, h⟩ := e
    simp only [syncRepo, hel]
    rw [mem_iff_get? sn, mem_iff_get? hek, sg, hmap]
  constructor
  · -- names are unique because all URIs share the set's directory
    simp only [filesAfterSync, keys, List.map_map, Function.comp_def]
    have hsn : (keys (syncRepo server [(rcn, .current s)])).Nodup := by simp only [syncRepo, hel]; exact sn
    simp only [keys] at hsn
    have hbase : ∀ e ∈ syncRepo server [(rcn, .current s)], e.1.1 = s.base := by
      intro e he
      have := (hmem e).mp he
      simp only [KeyObjectSet.elements, List.mem_cons, List.mem_map] at this
      rcases this with rfl | rfl | ⟨x, _, rfl⟩ <;> rfl
    generalize syncRepo server [(rcn, .current s)] = l at hsn hbase
    induction l with
    | nil => simp
    | cons a l ih =>
      simp only [List.map_cons, List.nodup_cons] at hsn ⊢
      refine ⟨?_, ih hsn.2 (fun e he => hbase e (List.mem_cons_of_mem _ he))⟩
      intro hin
      obtain ⟨b, hb, hab⟩ := List.mem_map.mp hin
      apply hsn.1
      refine List.mem_map.mpr ⟨b, hb, ?_⟩
      have e1 := hbase a (List.mem_cons_self ..)
      have e2 := hbase b (List.mem_cons_of_mem _ hb)
      exact Prod.ext (by rw [e1, e2]) hab
  · intro f
    simp only [filesAfterSync, List.mem_map]
    constructor
    · rintro ⟨e, he, rfl⟩
      have := (hmem e).mp he
      simp only [KeyObjectSet.elements, List.mem_cons, List.mem_map] at this
      rcases this with rfl | rfl | ⟨x, hx, rfl⟩
      · exact Or.inl rfl
      · exact Or.inr (Or.inl rfl)
      · exact Or.inr (Or.inr ⟨x, hx, rfl⟩)
    · rintro (rfl | rfl | ⟨x, hx, rfl⟩)
      · exact ⟨((s.base, s.mftName), s.manifest.hash), (hmem _).mpr (by simp [KeyObjectSet.elements]), rfl⟩
      · exact ⟨((s.base, s.crlName), s.crl.hash), (hmem _).mpr (by simp [KeyObjectSet.elements]), rfl⟩
      · exact ⟨((s.base, x.1), x.2.hash), (hmem _).mpr (by
          simp only [KeyObjectSet.elements, List.mem_cons, List.mem_map]
          exact Or.inr (Or.inr ⟨x, hx, rfl⟩)), rfl⟩

end KM.Sys.Rp
