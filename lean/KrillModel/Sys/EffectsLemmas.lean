/- Helper lemmas for `Sys/Effects.lean` (no property statements here). -/
import KrillModel.Sys.Effects
import KrillModel.Sys.Lemmas
namespace KM.Sys

variable {E : EMachine}

theorem run_sys (g : GSys E) (sched : List Nat) : (grun g sched).sys = run true g.sys sched := by
  induction sched generalizing g with
  | nil => rfl
  | cons t rest ih => simp only [grun, run, List.foldl_cons] at ih ⊢; exact ih (gstep g t)

/-- One micro-step appends to each entity's own write list exactly what it appends to the
shared store for that entity. -/
theorem gstep_writes (g : GSys E) (t : Nat) (e : Nat)
    (h : g.writesOf e = (g.sys.ents e).2) :
    (gstep g t).writesOf e = ((gstep g t).sys.ents e).2 := by
  unfold GSys.writesOf at *
  unfold gstep pendingWrites step
  cases ht : g.sys.threads[t]? with
  | none => simpa using h
  | some th =>
    cases hc : th.cur with
    | none =>
      simp only [hc]
      cases th.todo with
      | nil => simpa using h
      | cons eo rest =>
        obtain ⟨e', op⟩ := eo
        simp only []
        split <;> simpa using h
    | some r =>
      simp only [hc]
      have hget : (E.toMachine.phases r.op)[r.pc]? = ((E.phases r.op)[r.pc]?).map E.liftPhase := by
        show ((E.phases r.op).map E.liftPhase)[r.pc]? = _
        exact List.getElem?_map
      rw [hget]
      cases hp : (E.phases r.op)[r.pc]? with
      | none => simpa using h
      | some ph =>
        simp only [Option.map_some, List.filter_append, List.map_append, h]
        by_cases he : e = r.ent
        · subst he
          simp [upd, EMachine.liftPhase, List.filter_map, Function.comp_def]
        · have hne : ¬ (r.ent = e) := fun x => he x.symm
          simp [upd, he, List.filter_map, Function.comp_def, hne]

theorem grun_writes (g : GSys E) (sched : List Nat)
    (h : ∀ e, g.writesOf e = (g.sys.ents e).2) :
    ∀ e, (grun g sched).writesOf e = ((grun g sched).sys.ents e).2 := by
  induction sched generalizing g with
  | nil => exact h
  | cons t rest ih =>
    simp only [grun, List.foldl_cons]
    exact ih (gstep g t) (fun e => gstep_writes g t e (h e))

end KM.Sys
