/-
Publication points shared by several keys.

The abstract relying party (`Sys/Rp.lean`) validates one publication point per CA certificate and
demands "present ⇔ listed" of its files (`PointValid`).  In krill all keys of one resource class
publish into the SAME directory: during a key roll two manifests (and two CRLs) live side by
side, each manifest listing its own key's files.  A relying party attributes a file of such a
directory to the manifest that lists it; a file is present-but-unlisted only if *no* manifest of
a CA certificate pointing at the directory claims it (that is how the harness's rpki-rs walk
computes `unlisted`, `harness/src/rp.rs`, `Walker::finish`).

`filesFor` expresses this on the model side without touching `PointValid`: the files of the
directory *as seen by one certificate* are the directory's files minus those that only a sibling
certificate (another key with the same publication point) claims – the sibling's manifest and
what that manifest lists.  The `rptree` driver builds the model's `Repo` with it
(`Drivers/RpTree.lean`); with no sibling it is the identity (`filesFor_nil`,
`Sys/TreeLemmas.lean`), so for a directory with one manifest `PointValid` is judged on the
directory's files as they are.

Model file: import-free apart from the abstract relying party.
-/
import KrillModel.Sys.Rp
namespace KM.Sys.Rp
open KM.Ca.Pub

/-- Names a certificate claims in a directory: its manifest and what that manifest lists. -/
def claimedNames (cat : Catalog) (dir : Files) (c : Cert) : List Nat :=
  c.mftName :: match (get? dir c.mftName).bind cat with
    | some (.mft m) => m.entries.map (·.1)
    | _ => []

/-- The files of directory `dir` that are the business of certificate `c` when the certificates
`siblings` (other keys) publish into the same directory. -/
def filesFor (cat : Catalog) (dir : Files) (c : Cert) (siblings : List Cert) : Files :=
  let own := claimedNames cat dir c
  let others := siblings.flatMap (claimedNames cat dir)
  dir.filter fun f => own.contains f.1 || !others.contains f.1

end KM.Sys.Rp
