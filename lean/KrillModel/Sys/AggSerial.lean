/-
The serial execution of aggregate-store calls on the level of audit logs (specification used by
`Props/C07.lean`), and the lemma that the store model's serial execution refines it.
-/
import KrillModel.ES.Lemmas
import KrillModel.Sys.Lemmas
namespace KM.Sys
open KM.ES

variable {A : Agg}

/-- The serial execution on the level of audit logs: per entity the log, plus the results in
execution order. -/
def specSerialStep (st : (Nat → Log A) × List (Nat × Out A)) (a : Acq (aggMachine A)) :
    (Nat → Log A) × List (Nat × Out A) :=
  let r := specStep (st.1 a.ent) a.op.toOp
  (upd st.1 a.ent r.1, st.2 ++ [(a.tid, r.2.getD .panic)])

def specSerial (L0 : Nat → Log A) (order : List (Acq (aggMachine A))) :
    (Nat → Log A) × List (Nat × Out A) :=
  order.foldl specSerialStep (L0, [])

theorem runOp_eq_step (c : AggCall A) (s : Ent A) :
    (aggMachine A).runOp c s = ((ES.step s c.toOp).1, ((ES.step s c.toOp).2).getD .panic) := by
  cases c <;> rfl

/-- The serial execution of the store model refines the serial execution on logs. -/
theorem serial_refines (hiv : A.initVersion ≤ 1) (ents0 : Nat → Ent A) (L0 : Nat → Log A)
    (h0 : ∀ e, Inv (ents0 e) (L0 e)) (order : List (Acq (aggMachine A))) :
    (∀ e, Inv ((serial ents0 order).ents e) ((specSerial L0 order).1 e)) ∧
    (serial ents0 order).outs = (specSerial L0 order).2 := by
  have : ∀ (order : List (Acq (aggMachine A))) (st : SerialSt (aggMachine A))
      (sp : (Nat → Log A) × List (Nat × Out A)),
      (∀ e, Inv (st.ents e) (sp.1 e)) → st.outs = sp.2 →
      (∀ e, Inv ((order.foldl serialStep st).ents e) ((order.foldl specSerialStep sp).1 e)) ∧
      (order.foldl serialStep st).outs = (order.foldl specSerialStep sp).2 := by
    intro order
    induction order with
    | nil => intro st sp h1 h2; exact ⟨h1, h2⟩
    | cons a rest ih =>
      intro st sp h1 h2
      simp only [List.foldl_cons]
      apply ih
      · intro e
        have hr := step_refines hiv (h1 a.ent) a.op.toOp
        have hro := runOp_eq_step a.op (st.ents a.ent)
        simp only [serialStep, specSerialStep, upd]
        by_cases he : e = a.ent
        · simp only [he, if_true]; rw [hro]; exact hr.2
        · simp only [he, if_false]; exact h1 e
      · have hr := step_refines hiv (h1 a.ent) a.op.toOp
        have hro := runOp_eq_step a.op (st.ents a.ent)
        simp only [serialStep, specSerialStep, h2]
        rw [hro, hr.1]
        rfl
  exact this order { ents := ents0 } (L0, []) h0 rfl


/-! ### the audit log in lock order -/

/-- The calls on entity `e`, in lock-acquisition order. -/
def callsOn (order : List (Acq (aggMachine A))) (e : Nat) : List (AggCall A) :=
  (order.filter (·.ent == e)).map (·.op)

/-- `(actor, details)` of the commands among the calls, in order. -/
def commandStamps : List (AggCall A) → List (String × Option A.Cmd)
  | [] => []
  | .cmd _ c _ :: rest => (c.actor, some c.details) :: commandStamps rest
  | _ :: rest => commandStamps rest

def stampOf (c : Stored A) : String × Option A.Cmd := (c.actor, c.details)

/-- Per entity, the serial execution on logs is the run of that entity's calls. -/
theorem specSerial_ent (L0 : Nat → Log A) (order : List (Acq (aggMachine A))) (e : Nat) :
    (specSerial L0 order).1 e = specRun (L0 e) ((callsOn order e).map AggCall.toOp) := by
  have : ∀ (order : List (Acq (aggMachine A))) (sp : (Nat → Log A) × List (Nat × Out A)),
      (order.foldl specSerialStep sp).1 e = specRun (sp.1 e) ((callsOn order e).map AggCall.toOp) := by
    intro order
    induction order with
    | nil => intro sp; rfl
    | cons a rest ih =>
      intro sp
      simp only [List.foldl_cons]
      rw [ih]
      by_cases he : a.ent = e
      · have hb : (a.ent == e) = true := by simp [he]
        simp [callsOn, specRun, specSerialStep, upd, he]
        rfl
      · have hb : (a.ent == e) = false := by simp [he]
        have he' : ¬ (e = a.ent) := fun x => he x.symm
        simp [callsOn, List.filter_cons, hb, specSerialStep, upd, he']
  exact this order (L0, [])

/-- What one call does to the log: nothing, or one record stamped with the command's actor and
details. -/
theorem specStep_call_cases (L : Log A) (c : AggCall A) :
    (specStep L c.toOp).1 = L ∨
    ∃ i sc wf rec_, c = .cmd i sc wf ∧ (specStep L c.toOp).1 = L ++ [rec_] ∧
      stampOf rec_ = (sc.actor, some sc.details) := by
  cases c with
  | get i => left; simp only [AggCall.toOp, specStep]; split <;> rfl
  | snap i wf => left; simp only [AggCall.toOp, specStep]; split <;> rfl
  | cmd i sc wf =>
    simp only [AggCall.toOp, specStep]
    cases hf : finalOf L with
    | none => left; rfl
    | some w =>
      simp only []
      split
      · left; rfl
      · unfold specCommand
        cases hp : A.process w.st sc.details with
        | error err => right; exact ⟨i, sc, wf, _, rfl, rfl, rfl⟩
        | ok evs =>
          cases evs with
          | nil => left; rfl
          | cons ev evs =>
            simp only []
            cases applyEvents A w.st (ev :: evs) with
            | none => left; rfl
            | some s' =>
              simp only []
              cases A.preSave s' (ev :: evs) with
              | some err => left; rfl
              | none => right; exact ⟨i, sc, wf, _, rfl, rfl, rfl⟩

/-- Running calls only appends to the log, and what is appended is – in order – a sub-sequence
of the commands among the calls: every stored record belongs to exactly one command call, and
the records are in the order of the calls. -/
theorem specRun_calls_sublist (calls : List (AggCall A)) :
    ∀ L : Log A, ∃ new : List (Stored A),
      specRun L (calls.map AggCall.toOp) = L ++ new ∧
      (new.map stampOf).Sublist (commandStamps calls) := by
  induction calls with
  | nil => intro L; exact ⟨[], by simp [specRun], by simp [commandStamps]⟩
  | cons c rest ih =>
    intro L
    simp only [List.map_cons, specRun, List.foldl_cons]
    rcases specStep_call_cases L c with h0 | ⟨i, sc, wf, rec_, hc, h1, hst⟩
    · rw [h0]
      obtain ⟨new, hn, hs⟩ := ih L
      refine ⟨new, hn, ?_⟩
      cases c with
      | cmd i sc wf => exact List.Sublist.cons _ hs
      | get i => exact hs
      | snap i wf => exact hs
    · rw [h1]
      obtain ⟨new, hn, hs⟩ := ih (L ++ [rec_])
      refine ⟨rec_ :: new, by simp only [specRun] at hn; rw [hn]; simp, ?_⟩
      subst hc
      simp only [List.map_cons, commandStamps, hst]
      exact List.Sublist.cons_cons _ hs

end KM.Sys
