/-
The serial execution of aggregate-store calls on the level of audit logs (specification used by
`Props/C07.lean`), and the lemma that the store model's serial execution refines it.
-/
import KrillModel.ES.Lemmas
import KrillModel.Sys.Lemmas
namespace KM.Sys
open KM.ES

variable {A : Agg}

/-- The serial execution on the level of audit logs: per entity the log, plus the results in
execution order. -/
def specSerialStep (st : (Nat → Log A) × List (Nat × Out A)) (a : Acq (aggMachine A)) :
    (Nat → Log A) × List (Nat × Out A) :=
  let r := specStep (st.1 a.ent) a.op.toOp
  (upd st.1 a.ent r.1, st.2 ++ [(a.tid, r.2.getD .panic)])

def specSerial (L0 : Nat → Log A) (order : List (Acq (aggMachine A))) :
    (Nat → Log A) × List (Nat × Out A) :=
  order.foldl specSerialStep (L0, [])

theorem runOp_eq_step (c : AggCall A) (s : Ent A) :
    (aggMachine A).runOp c s = ((ES.step s c.toOp).1, ((ES.step s c.toOp).2).getD .panic) := by
  cases c <;> rfl

/-- The serial execution of the store model refines the serial execution on logs. -/
theorem serial_refines (hiv : A.initVersion ≤ 1) (ents0 : Nat → Ent A) (L0 : Nat → Log A)
    (h0 : ∀ e, Inv (ents0 e) (L0 e)) (order : List (Acq (aggMachine A))) :
    (∀ e, Inv ((serial ents0 order).ents e) ((specSerial L0 order).1 e)) ∧
    (serial ents0 order).outs = (specSerial L0 order).2 := by
  have : ∀ (order : List (Acq (aggMachine A))) (st : SerialSt (aggMachine A))
      (sp : (Nat → Log A) × List (Nat × Out A)),
      (∀ e, Inv (st.ents e) (sp.1 e)) → st.outs = sp.2 →
      (∀ e, Inv ((order.foldl serialStep st).ents e) ((order.foldl specSerialStep sp).1 e)) ∧
      (order.foldl serialStep st).outs = (order.foldl specSerialStep sp).2 := by
    intro order
    induction order with
    | nil => intro st sp h1 h2; exact ⟨h1, h2⟩
    | cons a rest ih =>
      intro st sp h1 h2
      simp only [List.foldl_cons]
      apply ih
      · intro e
        have hr := step_refines hiv (h1 a.ent) a.op.toOp
        have hro := runOp_eq_step a.op (st.ents a.ent)
        simp only [serialStep, specSerialStep, upd]
        by_cases he : e = a.ent
        · simp only [he, if_true]; rw [hro]; exact hr.2
        · simp only [he, if_false]; exact h1 e
      · have hr := step_refines hiv (h1 a.ent) a.op.toOp
        have hro := runOp_eq_step a.op (st.ents a.ent)
        simp only [serialStep, specSerialStep, h2]
        rw [hro, hr.1]
        rfl
  exact this order { ents := ents0 } (L0, []) h0 rfl


end KM.Sys
