/-
Helper lemmas for the hierarchy composition of C01 (`Props/C01.lean`): the relying party's
top-down walk (`TreeValid`, `treeVrps`, `treeAspas`, `treeRouterKeys` of `Sys/Rp.lean`) over the
repository of a rose tree of CAs (`Sys/Tree.lean`), for any depth and branching.
No property statements here.
-/
import KrillModel.Sys.Tree
import KrillModel.Sys.RpShared
import KrillModel.Ca.PubBaseLemmas
namespace KM.Sys.Rp
open KM.Ca.Pub

namespace Node

/-! ### Structure of the tree -/

theorem eta (n : Node) : n = mk n.ca n.files n.configured n.aspas n.routerKeys n.children := by
  cases n; rfl

theorem nodesL_eq (cs : List Node) : nodesL cs = cs.flatMap nodes := by
  induction cs with
  | nil => rfl
  | cons c cs ih => simp only [nodesL, List.flatMap_cons, ih]

theorem nodes_eq (n : Node) : n.nodes = n :: n.children.flatMap nodes := by
  cases n
  simp only [nodes, children, nodesL_eq]

theorem depth_eq (n : Node) : n.depth = depthL n.children + 1 := by
  cases n
  simp only [depth, children]

theorem depth_le_depthL {c : Node} {cs : List Node} (h : c ∈ cs) : c.depth ≤ depthL cs := by
  induction cs with
  | nil => cases h
  | cons a cs ih =>
    simp only [depthL]
    rcases List.mem_cons.mp h with rfl | h
    · exact Nat.le_max_left ..
    · exact Nat.le_trans (ih h) (Nat.le_max_right ..)

theorem depth_child_lt {n c : Node} (h : c ∈ n.children) : c.depth < n.depth := by
  rw [depth_eq n]
  exact Nat.lt_succ_of_le (depth_le_depthL h)

theorem depth_pos (n : Node) : 0 < n.depth := by
  rw [depth_eq]; exact Nat.succ_pos _

/-- Induction over the hierarchy: a statement holds for every node if it holds for a node
whenever it holds for all its children. -/
theorem induct {P : Node → Prop} (h : ∀ n, (∀ c ∈ n.children, P c) → P n) : ∀ n, P n := by
  have key : ∀ d, ∀ n : Node, n.depth ≤ d → P n := by
    intro d
    induction d with
    | zero => intro n hn; exact absurd (depth_pos n) (by omega)
    | succ d ih =>
      intro n hn
      apply h
      intro c hc
      have := depth_child_lt hc
      exact ih c (by omega)
  intro n
  exact key n.depth n (Nat.le_refl _)

theorem mem_nodes_iff {m n : Node} : m ∈ n.nodes ↔ m = n ∨ ∃ c ∈ n.children, m ∈ c.nodes := by
  rw [nodes_eq n, List.mem_cons, List.mem_flatMap]

theorem mem_nodes_self (n : Node) : n ∈ n.nodes := mem_nodes_iff.mpr (Or.inl rfl)

theorem mem_nodes_trans {m n : Node} (hm : m ∈ n.nodes) : ∀ t : Node, n ∈ t.nodes → m ∈ t.nodes := by
  intro t
  refine induct (P := fun t => n ∈ t.nodes → m ∈ t.nodes) ?_ t
  intro t ih hn
  rcases mem_nodes_iff.mp hn with rfl | ⟨c, hc, hn'⟩
  · exact hm
  · exact mem_nodes_iff.mpr (Or.inr ⟨c, hc, ih c hc hn'⟩)

theorem child_mem_nodes {n c : Node} (h : c ∈ n.children) : c ∈ n.nodes :=
  mem_nodes_iff.mpr (Or.inr ⟨c, h, mem_nodes_self c⟩)

/-- The nodes of a tree are closed under "child of". -/
theorem child_mem_of_mem {t n c : Node} (hn : n ∈ t.nodes) (hc : c ∈ n.children) : c ∈ t.nodes :=
  mem_nodes_trans (child_mem_nodes hc) t hn

/-- Depth of every node of a tree is at most the tree's. -/
theorem depth_le_of_mem {t n : Node} (hn : n ∈ t.nodes) : n.depth ≤ t.depth := by
  revert hn
  refine induct (P := fun t => n ∈ t.nodes → n.depth ≤ t.depth) ?_ t
  intro t ih hn
  rcases mem_nodes_iff.mp hn with rfl | ⟨c, hc, hn'⟩
  · exact Nat.le_refl _
  · exact Nat.le_trans (ih c hc hn') (Nat.le_of_lt (depth_child_lt hc))

/-! ### The repository of a tree -/

theorem keys_repo (t : Node) : keys t.repo = t.subjects := by
  simp only [repo, subjects, keys, List.map_map, Function.comp_def]

/-- With pairwise distinct publication-point keys the relying party finds, for the certificate of
every node, that node's files. -/
theorem filesOf_repo {t n : Node} (hd : t.subjects.Nodup) (hn : n ∈ t.nodes) :
    filesOf t.repo n.ca.subject = n.files := by
  have hmem : (n.ca.subject, n.files) ∈ t.repo := List.mem_map.mpr ⟨n, hn, rfl⟩
  have := get?_of_mem (by rw [keys_repo]; exact hd) hmem
  simp only [filesOf, this, Option.getD_some]

end Node

/-! ### A generic walk -/

/-- The shape shared by `treeVrps`, `treeAspas`, `treeRouterKeys`. -/
def treeWalk {α : Type} (f : Files → Cert → List α) (cat : Catalog) (repo : Repo) : Nat → Cert → List α
  | 0, _ => []
  | fuel + 1, ca =>
    f (filesOf repo ca.subject) ca ++
      (childCerts cat (filesOf repo ca.subject) ca).flatMap (treeWalk f cat repo fuel)

theorem flatMap_congr' {α β : Type} {l : List α} {f g : α → List β} (h : ∀ a ∈ l, f a = g a) :
    l.flatMap f = l.flatMap g := by
  induction l with
  | nil => rfl
  | cons a l ih =>
    simp only [List.flatMap_cons]
    rw [h a (List.mem_cons_self ..), ih (fun b hb => h b (List.mem_cons_of_mem _ hb))]

theorem treeVrps_eq_walk (cat : Catalog) (repo : Repo) (fuel : Nat) (ca : Cert) :
    treeVrps cat repo fuel ca = treeWalk (pointVrps cat) cat repo fuel ca := by
  induction fuel generalizing ca with
  | zero => rfl
  | succ fuel ih =>
    simp only [treeVrps, treeWalk]
    congr 1
    exact flatMap_congr' (fun c _ => ih c)

theorem treeAspas_eq_walk (cat : Catalog) (repo : Repo) (fuel : Nat) (ca : Cert) :
    treeAspas cat repo fuel ca = treeWalk (pointAspas cat) cat repo fuel ca := by
  induction fuel generalizing ca with
  | zero => rfl
  | succ fuel ih =>
    simp only [treeAspas, treeWalk]
    congr 1
    exact flatMap_congr' (fun c _ => ih c)

theorem treeRouterKeys_eq_walk (cat : Catalog) (repo : Repo) (fuel : Nat) (ca : Cert) :
    treeRouterKeys cat repo fuel ca = treeWalk (pointRouterKeys cat) cat repo fuel ca := by
  induction fuel generalizing ca with
  | zero => rfl
  | succ fuel ih =>
    simp only [treeRouterKeys, treeWalk]
    congr 1
    exact flatMap_congr' (fun c _ => ih c)

/-- The CA certificates a relying party finds at a node's publication point are (as a set) the
certificates of the node's children. -/
def ChildrenExact (cat : Catalog) (n : Node) : Prop :=
  ∀ c, c ∈ childCerts cat n.files n.ca ↔ c ∈ n.children.map (·.ca)

theorem NodeOk.childrenExact {cat : Catalog} {now : Nat} {n : Node} (h : NodeOk cat now n) :
    ChildrenExact cat n := sameMembers_iff.mp h.children

theorem nodeOk_iff {cat : Catalog} {now : Nat} {n : Node} : nodeOk cat now n = true ↔ NodeOk cat now n := by
  simp only [nodeOk, Bool.and_eq_true]
  exact ⟨fun ⟨⟨⟨⟨a, b⟩, c⟩, d⟩, e⟩ => ⟨a, b, c, d, e⟩, fun ⟨a, b, c, d, e⟩ => ⟨⟨⟨⟨a, b⟩, c⟩, d⟩, e⟩⟩

/-- The walk from a node of the tree collects, as a set, `g` of every node below it – provided
each point yields `g` of its node and the child certificates found are the children's. -/
theorem walk_exact {α : Type} (f : Files → Cert → List α) (g : Node → List α) (cat : Catalog) (t : Node)
    (hd : t.subjects.Nodup) (hch : ∀ n ∈ t.nodes, ChildrenExact cat n)
    (hf : ∀ n ∈ t.nodes, ∀ x, x ∈ f n.files n.ca ↔ x ∈ g n) :
    ∀ fuel, ∀ n ∈ t.nodes, n.depth ≤ fuel →
      ∀ x, x ∈ treeWalk f cat t.repo fuel n.ca ↔ x ∈ n.nodes.flatMap g := by
  intro fuel
  induction fuel with
  | zero => intro n _ hdepth; exact absurd (Node.depth_pos n) (by omega)
  | succ fuel ih =>
    intro n hn hdepth x
    simp only [treeWalk, Node.filesOf_repo hd hn, List.mem_append, List.mem_flatMap]
    rw [Node.nodes_eq n]
    simp only [List.mem_cons, List.mem_flatMap, exists_eq_or_imp, hf n hn x]
    constructor
    · rintro (h | ⟨c, hc, hx⟩)
      · exact Or.inl h
      · obtain ⟨ch, hch', rfl⟩ := List.mem_map.mp ((hch n hn c).mp hc)
        have hlt := Node.depth_child_lt hch'
        have := (ih ch (Node.child_mem_of_mem hn hch') (by omega) x).mp hx
        obtain ⟨m, hm, hxm⟩ := List.mem_flatMap.mp this
        exact Or.inr ⟨m, ⟨ch, hch', hm⟩, hxm⟩
    · rintro (h | ⟨m, ⟨ch, hch', hm⟩, hxm⟩)
      · exact Or.inl h
      · have hlt := Node.depth_child_lt hch'
        refine Or.inr ⟨ch.ca, (hch n hn ch.ca).mpr (List.mem_map.mpr ⟨ch, hch', rfl⟩), ?_⟩
        exact (ih ch (Node.child_mem_of_mem hn hch') (by omega) x).mpr (List.mem_flatMap.mpr ⟨m, hm, hxm⟩)

/-! ### Validity of the tree -/

/-- With exact child certificates and enough fuel, the top-down validation from a node succeeds
iff every publication point below it validates. -/
theorem treeValid_iff_aux (cat : Catalog) (now : Nat) (t : Node)
    (hd : t.subjects.Nodup) (hch : ∀ n ∈ t.nodes, ChildrenExact cat n) :
    ∀ fuel, ∀ n ∈ t.nodes, n.depth ≤ fuel →
      (TreeValid cat t.repo now fuel n.ca = true ↔ ∀ m ∈ n.nodes, PointValid cat m.files m.ca now = true) := by
  intro fuel
  induction fuel with
  | zero => intro n _ hdepth; exact absurd (Node.depth_pos n) (by omega)
  | succ fuel ih =>
    intro n hn hdepth
    simp only [TreeValid, Node.filesOf_repo hd hn, Bool.and_eq_true, List.all_eq_true]
    constructor
    · rintro ⟨hv, hall⟩ m hm
      rcases Node.mem_nodes_iff.mp hm with rfl | ⟨ch, hch', hm'⟩
      · exact hv
      · have hlt := Node.depth_child_lt hch'
        have h1 := hall ch.ca ((hch n hn ch.ca).mpr (List.mem_map.mpr ⟨ch, hch', rfl⟩))
        exact (ih ch (Node.child_mem_of_mem hn hch') (by omega)).mp h1 m hm'
    · intro hall
      refine ⟨hall n (Node.mem_nodes_self n), ?_⟩
      intro c hc
      obtain ⟨ch, hch', rfl⟩ := List.mem_map.mp ((hch n hn c).mp hc)
      have hlt := Node.depth_child_lt hch'
      refine (ih ch (Node.child_mem_of_mem hn hch') (by omega)).mpr ?_
      intro m hm
      exact hall m (Node.mem_nodes_trans hm n (Node.child_mem_nodes hch'))

/-- A failing publication point anywhere below a node makes the walk from that node fail, whatever
the fuel – it suffices that the children's certificates are *found* (no exactness needed). -/
theorem treeValid_false_aux (cat : Catalog) (now : Nat) (t : Node) (hd : t.subjects.Nodup)
    (hfound : ∀ n ∈ t.nodes, ∀ ch ∈ n.children, ch.ca ∈ childCerts cat n.files n.ca)
    (bad : Node) (hbad : PointValid cat bad.files bad.ca now = false) :
    ∀ fuel, ∀ n ∈ t.nodes, bad ∈ n.nodes → TreeValid cat t.repo now fuel n.ca = false := by
  intro fuel
  induction fuel with
  | zero => intro n _ _; rfl
  | succ fuel ih =>
    intro n hn hb
    simp only [TreeValid, Node.filesOf_repo hd hn]
    rcases Node.mem_nodes_iff.mp hb with rfl | ⟨ch, hch', hb'⟩
    · rw [hbad]; rfl
    · have h1 := ih ch (Node.child_mem_of_mem hn hch') hb'
      have : (childCerts cat n.files n.ca).all (TreeValid cat t.repo now fuel) = false := by
        rw [List.all_eq_false]
        exact ⟨ch.ca, hfound n hn ch hch', by rw [h1]; simp⟩
      rw [this, Bool.and_false]

/-! ### Shared publication points (`Sys/RpShared.lean`) -/

/-- A directory with one manifest: the certificate sees the directory's files as they are. -/
theorem filesFor_nil (cat : Catalog) (dir : Files) (c : Cert) : filesFor cat dir c [] = dir := by
  simp [filesFor]

/-- Whatever the siblings, a certificate keeps its own manifest and everything that manifest lists
by name, and never sees a file the directory does not hold. -/
theorem mem_filesFor {cat : Catalog} {dir : Files} {c : Cert} {siblings : List Cert} {f : Nat × Nat} :
    f ∈ filesFor cat dir c siblings ↔
      f ∈ dir ∧ (f.1 ∈ claimedNames cat dir c ∨ f.1 ∉ siblings.flatMap (claimedNames cat dir)) := by
  simp [filesFor, List.mem_filter]

/-! ### A concrete hierarchy (non-vacuity of the statements in `Props/C01.lean`)

Trust anchor (key 1, all resources) → CA (key 2, atoms 1 and 2) → child CA (key 3, atom 1).
The CA configures a route in atom 2 (published), a route in atom 3 (not covered: no object), an
ASPA for an AS it holds (published) and one for an AS it does not hold; the child CA configures a
route in atom 1 and a router key for AS 64513; the CA also has a router key for AS 64514. -/

namespace Example

def p1 : Payload := ⟨64513, false, (10 * 256 + 1) * 65536, 24, 24⟩
def p2 : Payload := ⟨64514, false, (10 * 256 + 2) * 65536, 24, 24⟩
def p3 : Payload := ⟨64515, false, (10 * 256 + 3) * 65536, 24, 24⟩
def aspa1 : AspaDefn := ⟨64513, [64600]⟩
def aspa2 : AspaDefn := ⟨64999, [64600]⟩
def rk1 : RouterKey := ⟨64513, 42⟩
def rk2 : RouterKey := ⟨64514, 43⟩

def taCert : Cert := ⟨1, 1, .all, 10000, 1, 100, 101⟩
def caCert : Cert := ⟨1, 2, .atoms [1, 2], 10000, 5, 100, 101⟩
def childCert : Cert := ⟨2, 3, .atoms [1], 10000, 6, 100, 101⟩

def cat : Catalog := fun h =>
  if h = 900 then some (.mft ⟨1, 2, 0, 5000, [(101, 901), (10, 902)]⟩)
  else if h = 901 then some (.crl ⟨1, 2, 0, 5000, []⟩)
  else if h = 902 then some (.cert caCert)
  else if h = 910 then some (.mft ⟨2, 7, 0, 5000, [(101, 911), (7, 912), (8, 913), (9, 915), (10, 914)]⟩)
  else if h = 911 then some (.crl ⟨2, 7, 0, 5000, [4]⟩)
  else if h = 912 then some (.signed ⟨2, 77, 9000, .roa [p2]⟩)
  else if h = 913 then some (.signed ⟨2, 78, 9000, .aspa aspa1⟩)
  else if h = 914 then some (.cert childCert)
  else if h = 915 then some (.signed ⟨2, 79, 9000, .router rk2⟩)
  else if h = 920 then some (.mft ⟨3, 3, 0, 5000, [(101, 921), (7, 922), (9, 923)]⟩)
  else if h = 921 then some (.crl ⟨3, 3, 0, 5000, []⟩)
  else if h = 922 then some (.signed ⟨3, 11, 9000, .roa [p1]⟩)
  else if h = 923 then some (.signed ⟨3, 12, 9000, .router rk1⟩)
  else if h = 999 then some (.signed ⟨3, 13, 9000, .roa [p1]⟩)
  else none

def child : Node := .mk childCert [(100, 920), (101, 921), (7, 922), (9, 923)] [p1] [] [rk1] []
def mid : Node :=
  .mk caCert [(100, 910), (101, 911), (7, 912), (8, 913), (9, 915), (10, 914)] [p2, p3] [aspa1, aspa2] [rk2] [child]
def tree : Node := .mk taCert [(100, 900), (101, 901), (10, 902)] [] [] [] [mid]

/-- The same hierarchy with one more file at the grandchild's publication point that its manifest
does not list. -/
def badChild : Node := .mk childCert [(100, 920), (101, 921), (7, 922), (9, 923), (11, 999)] [p1] [] [rk1] []
def badMid : Node :=
  .mk caCert [(100, 910), (101, 911), (7, 912), (8, 913), (9, 915), (10, 914)] [p2, p3] [aspa1, aspa2] [rk2] [badChild]
def badTree : Node := .mk taCert [(100, 900), (101, 901), (10, 902)] [] [] [] [badMid]

end Example

end KM.Sys.Rp
