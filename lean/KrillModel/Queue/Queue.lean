/-
Model of `src/commons/queue.rs` (`Queue`) — a task queue on top of a key-value store.

The store holds two scopes, `pending` and `running`; the key of an entry is
`<timestamp-millis>-<name>`.  The model keeps each scope as a list of entries and gives
it key-value semantics (`kvPut` overwrites an entry with the same `(ts, name)` key).

Where the code depends on the iteration order of `list_keys` (a `HashMap` in the memory
back-end, `read_dir` on disk) the model is *non-deterministic*: an operation returns the
list of all outcomes any iteration order can produce.  Theorems quantify over every
outcome; the correspondence driver checks that the implementation's observed outcome is
one of them.

Import-free so that the driver can be compiled as a `lean_exe`.
-/
namespace KM.Queue

structure Entry where
  ts   : Nat
  name : String
  val  : String
deriving DecidableEq, Repr, Inhabited

/-- Same storage key `<ts>-<name>`. -/
def Entry.sameKey (e : Entry) (ts : Nat) (name : String) : Bool :=
  e.ts == ts && e.name == name

structure QState where
  pending : List Entry
  running : List Entry
deriving DecidableEq, Repr, Inhabited

def QState.empty : QState := ⟨[], []⟩

/-! ### key-value primitives -/

def kvDel (l : List Entry) (ts : Nat) (name : String) : List Entry :=
  l.filter (fun e => !(e.sameKey ts name))

def kvPut (l : List Entry) (e : Entry) : List Entry :=
  e :: kvDel l e.ts e.name

def kvGet? (l : List Entry) (ts : Nat) (name : String) : Option Entry :=
  l.find? (fun e => e.sameKey ts name)

def byName (l : List Entry) (name : String) : List Entry :=
  l.filter (fun e => e.name == name)

/-- `get_storage_key_and_time`: the first key in `list_keys` order with that name –
any of them, as far as the model is concerned. -/
def optChoices (l : List Entry) (name : String) : List (Option Entry) :=
  match byName l name with
  | [] => [none]
  | xs => xs.map some

inductive Mode where
  | replaceExisting
  | replaceExistingSoonest
  | finishOrReplaceExisting
  | finishOrReplaceExistingSoonest
  | ifMissing
deriving DecidableEq, Repr, Inhabited

def delOpt (l : List Entry) : Option Entry → List Entry
  | none => l
  | some e => kvDel l e.ts e.name

def minOpt (ts : Nat) : Option Entry → Nat
  | none => ts
  | some e => min ts e.ts

/-- `schedule_task` for one resolution `(p, r)` of the two look-ups (queue.rs:90-159). -/
def scheduleWith (s : QState) (name val : String) (ts : Nat) (mode : Mode)
    (p r : Option Entry) : QState :=
  match mode with
  | .ifMissing =>
      if p.isNone && r.isNone then
        { s with pending := kvPut s.pending ⟨ts, name, val⟩ }
      else s
  | .replaceExisting =>
      { s with pending := kvPut (delOpt s.pending p) ⟨ts, name, val⟩ }
  | .replaceExistingSoonest =>
      { s with pending := kvPut (delOpt s.pending p) ⟨minOpt ts p, name, val⟩ }
  | .finishOrReplaceExisting =>
      { pending := kvPut (delOpt s.pending p) ⟨ts, name, val⟩,
        running := delOpt s.running r }
  | .finishOrReplaceExistingSoonest =>
      { pending := kvPut (delOpt s.pending p) ⟨minOpt ts p, name, val⟩,
        running := delOpt s.running r }

/-- All outcomes of `schedule_task`. -/
def schedule (s : QState) (name val : String) (ts : Nat) (mode : Mode) : List QState :=
  (optChoices s.pending name).flatMap fun p =>
    (optChoices s.running name).map fun r => scheduleWith s name val ts mode p r

/-! ### claim -/

def due (s : QState) (now : Nat) : List Entry :=
  s.pending.filter (fun e => e.ts ≤ now)

/-- The entries `claim_scheduled_pending_task` may pick: due, with minimal time stamp.
(The fold keeps the *last* of several equal minimal entries in `list_keys` order, which is
unspecified.) -/
def claimChoices (s : QState) (now : Nat) : List Entry :=
  (due s now).filter (fun e => (due s now).all (fun x => e.ts ≤ x.ts))

/-- Result of claiming `e` at `now`; `now2` is the second clock reading used when the key
`<now>-<name>` is already taken in the running scope. -/
def claimWith (s : QState) (e : Entry) (now now2 : Nat) : QState × Entry :=
  let newTs := if (kvGet? s.running now e.name).isSome then now2 else now
  let r : Entry := ⟨newTs, e.name, e.val⟩
  ({ pending := kvDel s.pending e.ts e.name, running := kvPut s.running r }, r)

def claim (s : QState) (now now2 : Nat) : List (QState × Option Entry) :=
  match claimChoices s now with
  | [] => [(s, none)]
  | cs => cs.map fun e => let (s', r) := claimWith s e now now2; (s', some r)

/-! ### finish / reschedule -/

/-- `finish_running_task`: `none` = "not running" error. -/
def finish (s : QState) (ts : Nat) (name : String) : Option QState :=
  match kvGet? s.running ts name with
  | some _ => some { s with running := kvDel s.running ts name }
  | none => none

/-- `reschedule_running_task`: move from running to pending under the new time stamp.
`none` = error (not running), state unchanged. -/
def reschedule (s : QState) (ts : Nat) (name : String) (newTs : Nat) : Option QState :=
  match kvGet? s.running ts name with
  | some e => some { pending := kvPut s.pending ⟨newTs, name, e.val⟩,
                     running := kvDel s.running ts name }
  | none => none

/-- All names with an entry in either scope. -/
def QState.names (s : QState) : List String :=
  s.pending.map (·.name) ++ s.running.map (·.name)

def QState.hasName (s : QState) (n : String) : Bool :=
  s.pending.any (·.name == n) || s.running.any (·.name == n)

/-- Earliest pending time stamp for a name (`none` if no pending entry). -/
def minPending (l : List Entry) (name : String) : Option Nat :=
  (byName l name).foldl (fun acc e => match acc with
    | none => some e.ts
    | some m => some (min m e.ts)) none

end KM.Queue
