/- Helper lemmas for the queue model (no property statements here). -/
import KrillModel.Queue.TaskQueue
namespace KM.Queue

@[simp] theorem sameKey_iff (e : Entry) (ts : Nat) (n : String) :
    e.sameKey ts n = true ↔ e.ts = ts ∧ e.name = n := by
  simp [Entry.sameKey]

@[simp] theorem mem_kvDel {l : List Entry} {ts : Nat} {n : String} {x : Entry} :
    x ∈ kvDel l ts n ↔ x ∈ l ∧ ¬ (x.ts = ts ∧ x.name = n) := by
  unfold kvDel
  rw [List.mem_filter]
  constructor
  · rintro ⟨h1, h2⟩
    refine ⟨h1, fun hc => ?_⟩
    have : x.sameKey ts n = true := (sameKey_iff x ts n).mpr hc
    simp [this] at h2
  · rintro ⟨h1, h2⟩
    refine ⟨h1, ?_⟩
    cases hk : x.sameKey ts n with
    | false => rfl
    | true => exact absurd ((sameKey_iff x ts n).mp hk) h2

@[simp] theorem mem_kvPut {l : List Entry} {e x : Entry} :
    x ∈ kvPut l e ↔ x = e ∨ (x ∈ l ∧ ¬ (x.ts = e.ts ∧ x.name = e.name)) := by
  simp [kvPut]

theorem kvGet?_some {l : List Entry} {ts : Nat} {n : String} {e : Entry}
    (h : kvGet? l ts n = some e) : e ∈ l ∧ e.ts = ts ∧ e.name = n := by
  unfold kvGet? at h
  have h1 := List.mem_of_find?_eq_some h
  have h2 := List.find?_some h
  simp at h2
  exact ⟨h1, h2⟩

theorem kvGet?_none {l : List Entry} {ts : Nat} {n : String}
    (h : kvGet? l ts n = none) : ∀ x ∈ l, ¬ (x.ts = ts ∧ x.name = n) := by
  unfold kvGet? at h
  rw [List.find?_eq_none] at h
  intro x hx
  have := h x hx
  simpa using this

theorem kvGet?_isSome_of_mem {l : List Entry} {e : Entry} (h : e ∈ l) :
    (kvGet? l e.ts e.name).isSome = true := by
  cases hg : kvGet? l e.ts e.name with
  | some _ => rfl
  | none => exact absurd ⟨rfl, rfl⟩ (kvGet?_none hg e h)

@[simp] theorem mem_byName {l : List Entry} {n : String} {x : Entry} :
    x ∈ byName l n ↔ x ∈ l ∧ x.name = n := by
  simp [byName]

/-- A resolution of a name look-up is `none` only if no entry has the name, and otherwise
an entry of the list with that name. -/
theorem optChoices_spec {l : List Entry} {n : String} {o : Option Entry}
    (h : o ∈ optChoices l n) :
    (o = none ∧ ∀ x ∈ l, x.name ≠ n) ∨ (∃ e, o = some e ∧ e ∈ l ∧ e.name = n) := by
  unfold optChoices at h
  split at h
  · rename_i hb
    simp at h
    left
    refine ⟨h, ?_⟩
    intro x hx hn
    have : x ∈ byName l n := mem_byName.mpr ⟨hx, hn⟩
    rw [hb] at this
    cases this
  · rename_i hb
    simp at h
    obtain ⟨e, he, rfl⟩ := h
    right
    exact ⟨e, rfl, he⟩

theorem optChoices_ne_nil (l : List Entry) (n : String) : optChoices l n ≠ [] := by
  unfold optChoices
  split
  · simp
  · rename_i h; simpa using h

/-- Key-value invariant: no two entries of a scope share a storage key. -/
def KeysNodup (l : List Entry) : Prop :=
  l.Pairwise (fun a b => ¬ (a.ts = b.ts ∧ a.name = b.name))

theorem keysNodup_kvDel {l : List Entry} (h : KeysNodup l) (ts : Nat) (n : String) :
    KeysNodup (kvDel l ts n) := by
  unfold KeysNodup kvDel
  exact List.Pairwise.filter _ h

theorem keysNodup_kvPut {l : List Entry} (h : KeysNodup l) (e : Entry) :
    KeysNodup (kvPut l e) := by
  unfold kvPut KeysNodup
  rw [List.pairwise_cons]
  refine ⟨?_, keysNodup_kvDel h _ _⟩
  intro x hx
  have := (mem_kvDel.mp hx).2
  intro hc
  exact this ⟨hc.1.symm, hc.2.symm⟩

theorem keysNodup_delOpt {l : List Entry} (h : KeysNodup l) (o : Option Entry) :
    KeysNodup (delOpt l o) := by
  cases o <;> simp [delOpt] <;> first | exact h | exact keysNodup_kvDel h _ _

def WF (s : QState) : Prop := KeysNodup s.pending ∧ KeysNodup s.running

theorem wf_empty : WF QState.empty := by
  simp [WF, KeysNodup, QState.empty]

theorem wf_scheduleWith {s : QState} (h : WF s) (name val : String) (ts : Nat) (mode : Mode)
    (p r : Option Entry) : WF (scheduleWith s name val ts mode p r) := by
  obtain ⟨hp, hr⟩ := h
  unfold scheduleWith
  cases mode <;> simp only [WF]
  · exact ⟨keysNodup_kvPut (keysNodup_delOpt hp _) _, hr⟩
  · exact ⟨keysNodup_kvPut (keysNodup_delOpt hp _) _, hr⟩
  · exact ⟨keysNodup_kvPut (keysNodup_delOpt hp _) _, keysNodup_delOpt hr _⟩
  · exact ⟨keysNodup_kvPut (keysNodup_delOpt hp _) _, keysNodup_delOpt hr _⟩
  · split
    · exact ⟨keysNodup_kvPut hp _, hr⟩
    · exact ⟨hp, hr⟩

theorem mem_schedule {s s' : QState} {name val : String} {ts : Nat} {mode : Mode}
    (h : s' ∈ schedule s name val ts mode) :
    ∃ p ∈ optChoices s.pending name, ∃ r ∈ optChoices s.running name,
      s' = scheduleWith s name val ts mode p r := by
  unfold schedule at h
  simp only [List.mem_flatMap, List.mem_map] at h
  obtain ⟨p, hp, r, hr, rfl⟩ := h
  exact ⟨p, hp, r, hr, rfl⟩

theorem wf_schedule {s s' : QState} (h : WF s) {name val : String} {ts : Nat} {mode : Mode}
    (hs : s' ∈ schedule s name val ts mode) : WF s' := by
  obtain ⟨p, _, r, _, rfl⟩ := mem_schedule hs
  exact wf_scheduleWith h _ _ _ _ _ _

theorem schedule_ne_nil (s : QState) (name val : String) (ts : Nat) (mode : Mode) :
    schedule s name val ts mode ≠ [] := by
  unfold schedule
  intro h
  rw [List.flatMap_eq_nil_iff] at h
  obtain ⟨p, hp⟩ := List.exists_mem_of_ne_nil _ (optChoices_ne_nil s.pending name)
  have := h p hp
  simp at this
  exact optChoices_ne_nil _ _ this

theorem mem_due {s : QState} {now : Nat} {x : Entry} :
    x ∈ due s now ↔ x ∈ s.pending ∧ x.ts ≤ now := by
  simp [due]

theorem mem_claimChoices {s : QState} {now : Nat} {e : Entry} :
    e ∈ claimChoices s now ↔
      (e ∈ s.pending ∧ e.ts ≤ now) ∧ ∀ x ∈ s.pending, x.ts ≤ now → e.ts ≤ x.ts := by
  unfold claimChoices
  simp [mem_due]

theorem wf_claimWith {s : QState} (h : WF s) (e : Entry) (now now2 : Nat) :
    WF (claimWith s e now now2).1 := by
  unfold claimWith
  exact ⟨keysNodup_kvDel h.1 _ _, keysNodup_kvPut h.2 _⟩

theorem wf_finish {s s' : QState} (h : WF s) {ts : Nat} {n : String}
    (hf : finish s ts n = some s') : WF s' := by
  unfold finish at hf
  split at hf
  · cases hf; exact ⟨h.1, keysNodup_kvDel h.2 _ _⟩
  · cases hf

theorem wf_reschedule {s s' : QState} (h : WF s) {ts nts : Nat} {n : String}
    (hf : reschedule s ts n nts = some s') : WF s' := by
  unfold reschedule at hf
  split at hf
  · cases hf; exact ⟨keysNodup_kvPut h.1 _, keysNodup_kvDel h.2 _ _⟩
  · cases hf

end KM.Queue
