/-
"Schedule the follow-up after the change" (C09 / C18): request threads that change something
(stage a publication delta) and put a follow-up task on the queue, interleaved arbitrarily
with the scheduler that claims the task, processes it (applies everything that is staged) and
finishes it.

Two things in the code decide whether a change can be left behind with no task to pick it up:
the ORDER of the two statements in the request thread (`RepositoryManager::publish`: stage,
then schedule) and the scheduling METHOD (`schedule` puts a pending entry on the queue even
while the task is running; `schedule_missing` does nothing then).  Both are read from the
source on every run (`Generated/EventTasks.lean`: `pubdMethodTasks`, `pubdScheduleAfterChange`).
-/
namespace KM.Queue.Wakeup

/-- Abstract state: is anything staged; is the task pending; where the scheduler is with the
task (0 = idle, 1 = claimed but not yet processed, 2 = processed, not yet finished); how many
request threads are before their first statement, between the two, and done. -/
structure St where
  staged  : Bool
  pending : Bool
  running : Nat
  n0 : Nat
  n1 : Nat
  n2 : Nat
deriving DecidableEq, Repr

structure Code where
  changeFirst : Bool      -- stage, then schedule (the order on the unchanged tree)
  guaranteed  : Bool      -- `schedule` / `schedule_and_finish_existing` (vs. `schedule_missing`)
deriving DecidableEq, Repr

inductive Step where
  | first      -- some request thread executes its first statement
  | second     -- some request thread executes its second statement
  | claim
  | process
  | finish
deriving DecidableEq, Repr

def doStage (s : St) : St := { s with staged := true }

def doSchedule (c : Code) (s : St) : St :=
  if c.guaranteed then { s with pending := true }
  else if !s.pending && s.running == 0 then { s with pending := true } else s

def step (c : Code) (s : St) : Step → St
  | .first =>
    if s.n0 = 0 then s else
    let s' := { s with n0 := s.n0 - 1, n1 := s.n1 + 1 }
    if c.changeFirst then doStage s' else doSchedule c s'
  | .second =>
    if s.n1 = 0 then s else
    let s' := { s with n1 := s.n1 - 1, n2 := s.n2 + 1 }
    if c.changeFirst then doSchedule c s' else doStage s'
  | .claim => if s.pending && s.running == 0 then { s with pending := false, running := 1 } else s
  | .process => if s.running == 1 then { s with staged := false, running := 2 } else s
  | .finish => if s.running == 2 then { s with running := 0 } else s

def run (c : Code) (s : St) (steps : List Step) : St := steps.foldl (step c) s

def init (threads : Nat) : St := ⟨false, false, 0, threads, 0, 0⟩

/-- Everything has come to rest: all request threads are done, nothing is pending or running. -/
def quiescent (s : St) : Bool := s.n0 == 0 && s.n1 == 0 && !s.pending && s.running == 0

/-- Whatever is staged has someone who will still take care of it. -/
def Inv (s : St) : Prop :=
  s.running ≤ 2 ∧ (s.staged = true → s.pending = true ∨ s.running = 1 ∨ 0 < s.n1)

end KM.Queue.Wakeup
