/-
Model of `src/server/mq.rs` (`TaskQueue`) and of the scheduler's result handling
(`src/server/scheduler.rs:75-100`, `queue_start_tasks`) on top of `KM.Queue`.
-/
import KrillModel.Queue.Queue
namespace KM.Queue

/-- `Priority` holds whole seconds; `to_millis` multiplies by 1000. -/
def prioMillis (secs : Nat) : Nat := secs * 1000

/-- `TaskQueue::schedule` (ReplaceExistingSoonest). -/
def tqSchedule (s : QState) (name val : String) (secs : Nat) : List QState :=
  schedule s name val (prioMillis secs) .replaceExistingSoonest

/-- `TaskQueue::schedule_and_finish_existing`. -/
def tqScheduleFinish (s : QState) (name val : String) (secs : Nat) : List QState :=
  schedule s name val (prioMillis secs) .finishOrReplaceExistingSoonest

/-- `TaskQueue::schedule_missing`. -/
def tqScheduleMissing (s : QState) (name val : String) (secs : Nat) : List QState :=
  schedule s name val (prioMillis secs) .ifMissing

/-- The guard of `reschedule_tasks_at_startup` (mq.rs): the running tasks are only
re-queued when this holds of their number.  GENERATED value lives in
`KrillModel.Generated.StartupGuard`; this is the function it is plugged into. -/
def startupFold (s : QState) (order : List Entry) (now : Nat) : Option QState :=
  match order with
  | [] => some s
  | e :: rest =>
    match reschedule s e.ts e.name now with
    | some s' => startupFold s' rest now
    | none => none

/-- `reschedule_tasks_at_startup`.  `order` is the order in which `running_tasks_keys`
listed the running entries (any permutation of `s.running`); `guard n` is the test on the
number of keys (`n > 1` in the pinned tree, `n > 0` after the fix of F-C09-1).
The comparison of the *storage key* with the *name* `queue_start_tasks` in the code is
never equal (a key is `<ts>-<name>`), so no entry is skipped. -/
def startup (guard : Nat → Bool) (s : QState) (order : List Entry) (now : Nat) :
    Option QState :=
  if guard order.length then startupFold s order now else some s

/-- What a task execution tells the scheduler (`TaskResult`). -/
inductive Result where
  | done
  | followUp (name val : String) (secs : Nat)
  | reschedule (secs : Nat)
deriving Repr

/-- scheduler.rs:75-100: how the outcome of a claimed task `key` is written back.
`none` in the list = an error (the daemon exits). -/
def handleResult (s : QState) (key : Entry) : Result → List (Option QState)
  | .done => [finish s key.ts key.name]
  | .followUp name val secs => (tqScheduleFinish s name val secs).map some
  | .reschedule secs => [reschedule s key.ts key.name (prioMillis secs)]

/-- `schedule_missing` applied for a list of `(name, value, seconds)`; one outcome list. -/
def scheduleMissingAll (ss : List QState) (tasks : List (String × String × Nat)) :
    List QState :=
  tasks.foldl (fun acc t => acc.flatMap fun s => tqScheduleMissing s t.1 t.2.1 t.2.2) ss

end KM.Queue
