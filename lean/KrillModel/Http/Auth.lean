/-
Authentication (src/daemon/http/auth/authorizer.rs:255-300 and the three providers), as written.

* `Authorizer::authenticate_request`: legacy admin-token provider (only when the primary provider is
  not the admin-token provider) → primary provider → Unix-socket peer.  A provider is only skipped
  when an earlier one returned `Ok(Some(_))`; `Ok(None)` **and `Err(_)`** both fall through, and
  the result of the *last* provider asked is the result of the chain.
* admin token: the bearer string must equal the configured token.
* config-file provider: `authenticate` decodes the bearer token into a session and looks the
  session's role name up; `login` looks the user up twice – under the name as sent for the password
  hash and salt, under the trimmed and NFKC-normalised name for the user record.
* Unix provider: the peer's system user name is looked up in `unix_users`.

Password hashing is symbolic: `hex (scrypt (scrypt pw ("krill-lagosta-" ++ name)) salt)` is the
term `⟨pw, name, salt⟩`; two hashes are equal iff the terms are (scrypt is assumed injective on the
inputs of a run).  What the configuration file *stores* as `password_hash` is an arbitrary string
(`StoredHash`): nothing in `Config::verify` looks at it, and `login` compares strings.
-/
import KrillModel.Http.Role
import KrillModel.Http.Session
namespace KM.Http
open KM.Generated

/-- The hash krill computes for a password (already trimmed and normalised), the user name that goes
into the weak salt, and the strong salt. -/
structure HashTerm where
  pw : String
  saltName : String
  salt : Nat
deriving DecidableEq, Repr

/-- The `password_hash` string of an `[auth_users]` entry.  `login` compares it, as a string, with
the lower-case hex text of the 32-byte scrypt output it computes (`encoded_hash != user_password_hash`).

* `term h`: the configured string is exactly the text `krillc config user` prints for the inputs
  `h` (64 lower-case hex characters);
* `junk s`: any other configured string `s` – one that is not the lower-case hex text of a 32-byte
  value: wrong length (a locked account `"!"`, `""`, a hash that lost or gained a character in copy
  and paste), characters that are not hex digits, or the *upper-case* hex of a real hash (krill
  compares strings, so this does not match either).  Such a string equals no computed hash,
  whatever the password. -/
inductive StoredHash where
  | term (h : HashTerm)
  | junk (s : String)
deriving DecidableEq, Repr

/-- An entry of `[auth_users]`. -/
structure UserEntry where
  hash : StoredHash
  salt : Nat
  role : String
deriving DecidableEq, Repr

inductive AuthType where
  | adminToken | configFile
deriving DecidableEq, Repr

structure Config where
  authType : AuthType
  adminToken : String
  users : List (String × UserEntry)
  roles : List (String × Role)
  /-- system user name → role name -/
  unixUsers : List (String × String)
  /-- this instance's session key -/
  key : Nat
  testbed : Bool
deriving Repr

inductive Transport where
  | tcp
  | unix (peer : String)
deriving DecidableEq, Repr

/-- The credentials of the process at the other end of the Unix socket (`SO_PEERCRED`, taken when it
connected): the system user of its effective uid, and its effective gid. -/
structure PeerCred where
  user : String
  gid : Nat
deriving DecidableEq, Repr

/-- `single_unix_listener` (start.rs): the peer is the user of `cred.uid()`; the gid is not looked
at. -/
def transportOf (c : PeerCred) : Transport := .unix c.user

/-- What `httpclient::get_bearer_token` makes of the request: `absent` when there is no
`Authorization` header, it is not visible ASCII, or it does not start with `Bearer `; otherwise the
rest of the header, trimmed. -/
inductive Header where
  | absent
  | bearer (w : Wire)
deriving DecidableEq, Repr

/-- Result of a provider / of the chain: `Ok(Some(user, role))`, `Ok(None)`, `Err(_)`. -/
inductive AuthRes where
  | ok (id : String) (role : Role)
  | none
  | err
deriving DecidableEq, Repr

def AuthRes.isOk : AuthRes → Bool
  | .ok _ _ => true
  | _ => false

/-- The role of the admin-token user, from the generated table. -/
def adminRole : Role :=
  match adminTokenRole with
  | some b => Role.builtin b
  | none => Role.anonymous

/-- `admin_token::AuthProvider::authenticate` -/
def adminProvider (cfg : Config) : Header → AuthRes
  | .bearer w => if w = .text cfg.adminToken then .ok adminTokenUser adminRole else .err
  | .absent => .none

/-- `config_file::AuthProvider::auth_from_session` -/
def authFromSession (cfg : Config) (s : Session) : AuthRes :=
  match cfg.roles.lookup s.role with
  | some r => .ok s.user r
  | none => .err

/-- `config_file::AuthProvider::authenticate` -/
def configFileProvider (cfg : Config) (st : SessState) : Header → AuthRes × SessState
  | .bearer w =>
    match decode cfg.key st w with
    | (some s, st') => (authFromSession cfg s, st')
    | (none, st') => (.err, st')
  | .absent => (.none, st)

/-- `unix_user::AuthProvider::authenticate` (the role map is resolved at start-up; a mapping to an
undefined role keeps the daemon from starting). -/
def unixProvider (cfg : Config) : Transport → AuthRes
  | .unix peer =>
    match cfg.unixUsers.lookup peer with
    | some rn =>
      match cfg.roles.lookup rn with
      | some r => .ok peer r
      | none => .err
    | none => .err
  | .tcp => .none

/-- The legacy provider exists only when the admin-token provider is not the primary one. -/
def legacyProvider (cfg : Config) (h : Header) : AuthRes :=
  match cfg.authType with
  | .configFile => adminProvider cfg h
  | .adminToken => .none

def primaryProvider (cfg : Config) (st : SessState) (h : Header) : AuthRes × SessState :=
  match cfg.authType with
  | .configFile => configFileProvider cfg st h
  | .adminToken => (adminProvider cfg h, st)

/-- `Authorizer::authenticate_request`. -/
def authenticate (cfg : Config) (st : SessState) (h : Header) (t : Transport) : AuthRes × SessState :=
  let r1 := legacyProvider cfg h
  let (r2, st2) := if r1.isOk then (r1, st) else primaryProvider cfg st h
  let r3 := if r2.isOk then r2 else unixProvider cfg t
  (r3, st2)

/-- The actor of the request (`AuthInfo::actor`): the authenticated id, else `anonymous`. -/
def AuthRes.actor : AuthRes → String
  | .ok id _ => id
  | _ => "anonymous"

/-- `Actor::audit_name`: the name stored with each command – a user id prefixed with `user:` (so no
user id can pass for a system actor), `anonymous` for everybody else. -/
def AuthRes.auditName : AuthRes → String
  | .ok id _ => "user:" ++ id
  | _ => "anonymous"

/-! ## Login -/

inductive LoginRes where
  | ok (id : String) (role : String) (token : Wire)
  /-- 401 -/
  | invalid
  /-- 403: the user's role does not include `login` -/
  | denied
deriving DecidableEq, Repr

/-- `config_file::AuthProvider::login` (as of the fix 2ee45739).  `norm` is trim followed by NFKC.
`basic` is the decoded `Authorization: Basic` header (`None` if missing or malformed).  The user name
is normalised first; password hash, salt and the user record (the code reads the map twice, both
times under the normalised name) come from the same entry. -/
def loginConfigFile (norm : String → String) (cfg : Config) (st : SessState)
    (basic : Option (String × String)) : LoginRes × SessState :=
  match basic with
  | none => (.invalid, st)
  | some (rawName, rawPw) =>
    let name := norm rawName
    let pw := norm rawPw
    -- an unknown name gets a fake hash that no password matches
    match cfg.users.lookup name with
    | none => (.invalid, st)
    | some u =>
      -- `encoded_hash != user_password_hash`: a comparison of strings; the computed text is the
      -- hex of a hash term, which a `junk` string never is
      if StoredHash.term ⟨pw, name, u.salt⟩ ≠ u.hash then (.invalid, st) else
      match cfg.roles.lookup u.role with
      | none => (.invalid, st)
      | some role =>
        if !role.isAllowed .Login none then (.denied, st) else
        let (w, st') := encode cfg.key st name u.role
        (.ok name u.role w, st')

/-- `admin_token::AuthProvider::login`: the bearer token must be the admin token; the "session
token" handed back is the admin token itself. -/
def loginAdmin (cfg : Config) (h : Header) : LoginRes :=
  match adminProvider cfg h with
  | .ok id _ => .ok id "admin" (.text cfg.adminToken)
  | _ => .invalid

/-- `config_file::AuthProvider::logout`: drop the token from the cache, then authenticate the
request once more for the log line (which puts a valid token straight back into the cache). -/
def logoutConfigFile (cfg : Config) (st : SessState) : Header → SessState
  | .bearer w => (configFileProvider cfg (st.remove w) (.bearer w)).2
  | .absent => st

/-! ## Histories -/

/-- What happens to the provider's state over time. Every HTTP request is authenticated first
(`HttpServer::process_request`), whatever its route: `auth`. -/
inductive Op where
  | auth (h : Header) (t : Transport)
  | login (basic : Option (String × String))
  | logout (h : Header)
  | sweep (keep : Wire → Bool)

def step (norm : String → String) (cfg : Config) (st : SessState) : Op → SessState
  | .auth h t => (authenticate cfg st h t).2
  | .login basic => (loginConfigFile norm cfg st basic).2
  | .logout h => logoutConfigFile cfg st h
  | .sweep keep => st.sweep keep

/-- The state after a history, starting from a freshly started instance. -/
def run (norm : String → String) (cfg : Config) (ops : List Op) : SessState :=
  ops.foldl (step norm cfg) {}

end KM.Http
