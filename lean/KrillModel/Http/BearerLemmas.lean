/-
Helper lemmas about `trim` and `getBearerToken` (no property statements).
-/
import KrillModel.Http.Bearer
namespace KM.Http

theorem dropWhile_append_all {p : Char → Bool} (a l : List Char) (h : a.all p = true) :
    (a ++ l).dropWhile p = l.dropWhile p := by
  induction a with
  | nil => rfl
  | cons x xs ih =>
    simp only [List.all_cons, Bool.and_eq_true] at h
    simp [h.1, ih h.2]

theorem dropWhile_all {p : Char → Bool} (a : List Char) (h : a.all p = true) :
    a.dropWhile p = [] := by
  have := dropWhile_append_all (p := p) a [] h
  simpa using this

/-- `m` has no white space at either end (the empty list included). -/
def Core (m : List Char) : Prop :=
  (∀ c, m.head? = some c → isWs c = false) ∧ (∀ c, m.getLast? = some c → isWs c = false)

theorem dropWhile_core_head (m l : List Char) (hm : m ≠ [])
    (h : ∀ c, m.head? = some c → isWs c = false) : (m ++ l).dropWhile isWs = m ++ l := by
  cases m with
  | nil => exact absurd rfl hm
  | cons c cs => simp [h c rfl]

/-- `trim` removes exactly the white space around the core. -/
theorem trim_decomp (a m b : List Char) (ha : a.all isWs = true) (hb : b.all isWs = true)
    (hm : Core m) : trim (a ++ m ++ b) = m := by
  unfold trim trimStart trimEnd
  rw [List.append_assoc, dropWhile_append_all _ _ ha]
  by_cases hne : m = []
  · subst hne
    simp [dropWhile_all b hb]
  · rw [dropWhile_core_head m b hne hm.1]
    rw [List.reverse_append, dropWhile_append_all _ _ (by simpa using hb)]
    have hr : m.reverse ≠ [] := by simpa using hne
    have h2 := dropWhile_core_head m.reverse [] hr (by
      intro c hc
      apply hm.2 c
      simpa [List.head?_reverse] using hc)
    simp only [List.append_nil] at h2
    rw [h2, List.reverse_reverse]

/-- Every text is white space, a core, white space. -/
theorem exists_decomp (l : List Char) :
    ∃ a m b, l = a ++ m ++ b ∧ a.all isWs = true ∧ b.all isWs = true ∧ Core m := by
  let r := l.dropWhile isWs
  refine ⟨l.takeWhile isWs, (r.reverse.dropWhile isWs).reverse, (r.reverse.takeWhile isWs).reverse,
    ?_, List.all_takeWhile, ?_, ?_, ?_⟩
  · have h1 : (r.reverse.dropWhile isWs).reverse ++ (r.reverse.takeWhile isWs).reverse = r := by
      rw [← List.reverse_append, List.takeWhile_append_dropWhile, List.reverse_reverse]
    rw [List.append_assoc, h1]
    exact List.takeWhile_append_dropWhile.symm
  · have : (r.reverse.takeWhile isWs).all isWs = true := List.all_takeWhile
    simp [this]
  · -- the head of the core is the head of `r`
    intro c hc
    have h1 : (r.reverse.dropWhile isWs).reverse ++ (r.reverse.takeWhile isWs).reverse = r := by
      rw [← List.reverse_append, List.takeWhile_append_dropWhile, List.reverse_reverse]
    have h2 : r.head? = some c := by
      rw [← h1, List.head?_append, hc]; rfl
    have h3 := List.head?_dropWhile_not isWs l
    show isWs c = false
    have : (List.dropWhile isWs l).head? = some c := h2
    rw [this] at h3
    exact h3
  · intro c hc
    rw [List.getLast?_reverse] at hc
    have h3 := List.head?_dropWhile_not isWs r.reverse
    rw [hc] at h3
    exact h3

theorem trim_length_le (l : List Char) : (trim l).length ≤ l.length := by
  obtain ⟨a, m, b, hl, ha, hb, hm⟩ := exists_decomp l
  rw [hl, trim_decomp a m b ha hb hm]
  simp only [List.length_append]
  omega

/-- A text that `trim` does not shorten is not changed by it. -/
theorem trim_eq_self_of_length (l : List Char) (h : (trim l).length = l.length) : trim l = l := by
  obtain ⟨a, m, b, hl, ha, hb, hm⟩ := exists_decomp l
  rw [hl, trim_decomp a m b ha hb hm] at h ⊢
  simp only [List.length_append] at h
  have h1 : a = [] := List.eq_nil_of_length_eq_zero (by omega)
  have h2 : b = [] := List.eq_nil_of_length_eq_zero (by omega)
  simp [h1, h2]

theorem all_headerChar_of_ws (l : List Char) (h : l.all isWs = true) : l.all isHeaderChar = true := by
  simp only [List.all_eq_true] at h ⊢
  intro c hc
  have := h c hc
  simp only [isWs, Bool.or_eq_true, beq_iff_eq] at this
  rcases this with rfl | rfl <;> decide

/-- `get_bearer_token` on `Bearer ` followed by white space, a core `m`, white space: the core – or
nothing when the core is empty (the header value then is the bare word `Bearer`). -/
theorem getBearerToken_decomp (a m b : List Char) (ha : a.all isWs = true) (hb : b.all isWs = true)
    (hm : Core m) (hvis : m.all isHeaderChar = true) :
    getBearerToken (some (bearerPrefix ++ (a ++ m ++ b))) = if m = [] then none else some m := by
  by_cases hne : m = []
  · subst hne
    -- the value is `Bearer`: the blank of the prefix is trailing white space too
    have h1 : bearerPrefix ++ (a ++ [] ++ b) = [] ++ bearerWord ++ (' ' :: (a ++ b)) := by
      simp [bearerPrefix]
    have h2 : trim (bearerPrefix ++ (a ++ [] ++ b)) = bearerWord := by
      rw [h1]
      apply trim_decomp
      · rfl
      · simp [isWs, ha, hb]
      · constructor <;> intro c hc <;> simp [bearerWord] at hc <;> subst hc <;> decide
    simp only [getBearerToken, h2, if_true]
    decide
  · have hcore : Core (bearerPrefix ++ a ++ m) := by
      constructor
      · intro c hc
        simp [bearerPrefix, bearerWord] at hc
        subst hc; decide
      · intro c hc
        rw [List.getLast?_append] at hc
        cases hl : m.getLast? with
        | none => exact absurd (List.getLast?_eq_none_iff.mp hl) hne
        | some d =>
          rw [hl] at hc
          have : d = c := by simpa using hc
          subst this
          exact hm.2 _ hl
    have h1 : bearerPrefix ++ (a ++ m ++ b) = [] ++ (bearerPrefix ++ a ++ m) ++ b := by simp
    have h2 : trim (bearerPrefix ++ (a ++ m ++ b)) = bearerPrefix ++ a ++ m := by
      rw [h1]; exact trim_decomp [] _ b rfl hb hcore
    have hall : (bearerPrefix ++ a ++ m).all isHeaderChar = true := by
      simp only [List.all_append, Bool.and_eq_true]
      exact ⟨⟨by decide, all_headerChar_of_ws a ha⟩, hvis⟩
    have hpre : bearerPrefix.isPrefixOf (bearerPrefix ++ a ++ m) = true := by
      rw [List.isPrefixOf_iff_prefix, List.append_assoc]
      exact List.prefix_append _ _
    have hdrop : (bearerPrefix ++ a ++ m).drop bearerPrefix.length = a ++ m := by
      rw [List.append_assoc, List.drop_left]
    have htrim : trim (a ++ m) = m := by
      have := trim_decomp a m [] ha rfl hm
      simpa using this
    simp only [getBearerToken, h2, hall, Bool.not_true, Bool.false_eq_true, if_false, hpre, if_true,
      hdrop, htrim, hne]

/-- The credential a `Bearer` header presents is the rest of the header, trimmed; none if nothing
is left. -/
theorem getBearerToken_bearer (x : List Char) (hx : x.all isHeaderChar = true) :
    getBearerToken (some (bearerPrefix ++ x)) = if trim x = [] then none else some (trim x) := by
  obtain ⟨a, m, b, hl, ha, hb, hm⟩ := exists_decomp x
  have hvis : m.all isHeaderChar = true := by
    rw [hl] at hx
    simp only [List.all_append, Bool.and_eq_true] at hx
    exact hx.1.2
  rw [hl, trim_decomp a m b ha hb hm]
  exact getBearerToken_decomp a m b ha hb hm hvis

/-! ## The neighbourhood -/

theorem IsToken.core {t : List Char} (ht : IsToken t) : Core t := ⟨ht.2.1, ht.2.2.1⟩

theorem trim_token (t : List Char) (ht : IsToken t) (l r : List Char) (hl : l.all isWs = true)
    (hr : r.all isWs = true) : trim (l ++ t ++ r) = t :=
  trim_decomp l t r hl hr ht.core

/-- A text of the same length as `t` that `trim` turns into `t` is `t`. -/
theorem eq_of_trim_eq_of_length (x t : List Char) (hlen : x.length = t.length) (h : trim x = t) :
    x = t := by
  have h1 : (trim x).length = x.length := by rw [h, hlen]
  rw [trim_eq_self_of_length x h1] at h
  exact h

/-- What a near miss can be sent as. -/
theorem nearMiss_all_headerChar (t : List Char) (ht : IsToken t) (v : NearMiss)
    (hv : v.applies t = true) : (v.apply t).all isHeaderChar = true := by
  have htv := ht.2.2.2
  cases v with
  | pre k =>
    simp only [NearMiss.apply, List.all_eq_true] at htv ⊢
    intro c hc
    exact htv c (List.mem_of_mem_take hc)
  | ext s =>
    simp only [NearMiss.applies, Bool.and_eq_true] at hv
    simp only [NearMiss.apply, List.all_append, Bool.and_eq_true]
    exact ⟨htv, hv.2⟩
  | chg i c =>
    simp only [NearMiss.applies, Bool.and_eq_true] at hv
    simp only [NearMiss.apply, List.all_eq_true] at htv ⊢
    intro d hd
    rcases List.mem_or_eq_of_mem_set hd with h | h
    · exact htv d h
    · rw [h]; exact hv.2
  | swapCase =>
    simp only [NearMiss.applies, Bool.and_eq_true] at hv
    exact hv.2
  | pad l r =>
    simp only [NearMiss.applies, Bool.and_eq_true] at hv
    simp only [NearMiss.apply, List.all_append, Bool.and_eq_true]
    exact ⟨⟨all_headerChar_of_ws l hv.1, htv⟩, all_headerChar_of_ws r hv.2⟩
  | empty => rfl

/-- After trimming, a near miss of `t` is `t` again exactly when it only added white space. -/
theorem nearMiss_trim_eq_iff (t : List Char) (ht : IsToken t) (v : NearMiss)
    (hv : v.applies t = true) : trim (v.apply t) = t ↔ v.same = true := by
  have hne := ht.1
  cases v with
  | pre k =>
    simp only [NearMiss.applies, Bool.and_eq_true, decide_eq_true_eq] at hv
    simp only [NearMiss.apply, NearMiss.same, Bool.false_eq_true, iff_false]
    intro h
    have h1 := trim_length_le (t.take k)
    rw [h, List.length_take] at h1
    omega
  | ext s =>
    simp only [NearMiss.applies, Bool.and_eq_true] at hv
    simp only [NearMiss.apply, NearMiss.same]
    by_cases hws : s.all isWs = true
    · simp only [hws, iff_true]
      have := trim_token t ht [] s rfl hws
      simpa using this
    · have hws' : s.all isWs = false := by simpa using hws
      simp only [hws', Bool.false_eq_true, iff_false]
      intro h
      obtain ⟨a, m, b, hs, ha, hb, hm⟩ := exists_decomp s
      have hmne : m ≠ [] := by
        intro hm0
        apply hws
        rw [hs, hm0]
        simp [ha, hb]
      have hcore : Core (t ++ a ++ m) := by
        constructor
        · intro c hc
          apply ht.2.1 c
          cases t with
          | nil => exact absurd rfl hne
          | cons x xs => simpa using hc
        · intro c hc
          rw [List.getLast?_append] at hc
          cases hl : m.getLast? with
          | none => exact absurd (List.getLast?_eq_none_iff.mp hl) hmne
          | some d =>
            rw [hl] at hc
            have : d = c := by simpa using hc
            subst this
            exact hm.2 _ hl
      have h2 : trim (t ++ s) = t ++ a ++ m := by
        have : t ++ s = [] ++ (t ++ a ++ m) ++ b := by rw [hs]; simp
        rw [this]
        exact trim_decomp [] _ b rfl hb hcore
      rw [h2] at h
      have : (t ++ a ++ m).length = t.length := by rw [h]
      simp only [List.length_append] at this
      have : m.length = 0 := by omega
      exact hmne (List.eq_nil_of_length_eq_zero this)
  | chg i c =>
    simp only [NearMiss.applies, Bool.and_eq_true, decide_eq_true_eq, bne_iff_ne, ne_eq] at hv
    simp only [NearMiss.apply, NearMiss.same, Bool.false_eq_true, iff_false]
    intro h
    have := eq_of_trim_eq_of_length _ t List.length_set h
    have h2 : (t.set i c)[i]? = some c := List.getElem?_set_self hv.1.1
    rw [this] at h2
    exact hv.1.2 h2
  | swapCase =>
    simp only [NearMiss.applies, Bool.and_eq_true, bne_iff_ne, ne_eq] at hv
    simp only [NearMiss.apply, NearMiss.same, Bool.false_eq_true, iff_false]
    intro h
    exact hv.1 (eq_of_trim_eq_of_length _ t (by simp) h)
  | pad l r =>
    simp only [NearMiss.applies, Bool.and_eq_true] at hv
    simp only [NearMiss.apply, NearMiss.same, iff_true]
    exact trim_token t ht l r hv.1 hv.2
  | empty =>
    simp only [NearMiss.apply, NearMiss.same, Bool.false_eq_true, iff_false]
    intro h
    apply hne
    rw [← h]
    rfl

end KM.Http
