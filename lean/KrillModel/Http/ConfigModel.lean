/-
From the configuration file to what the authentication providers see
(src/config.rs: serde defaults of `Config`, `Config::process` = fix / verify / resolve;
authorizer.rs `Authorizer::new`; providers/{config_file,unix_user}.rs `AuthProvider::new`).

* `auth_roles` has the serde default `ConfigDefaults::auth_roles()` – the three built-in roles.  A
  configuration file with its own `[auth_roles]` *replaces* that map: the built-in roles are then
  **not** present (doc/manual multi-user/roles.rst: "If you do provide your own roles, these will not
  be present").  `Config::process` does not touch the map.  `Config::auth_roles` is the one
  `Arc<RoleMap>` every provider reads (config-file provider: `config.auth_roles.clone()`, Unix
  provider: `config.auth_roles.get(v)`).
* `unix_users` has the serde default `{ root = "admin" }` (config.rs:86).
* `Authorizer::new` – run at start-up, before the server answers anything – fails, and the daemon
  does not start, when
  - the primary provider is the config-file provider and there is no `[auth_users]` section
    ("Missing [auth_users] config section!"), or
  - some `unix_users` entry names a role that is not in the role map ("Unix user … requested role
    mapping … but it could not be found!").  The Unix provider is built whether or not the socket is
    enabled.
* Nothing checks at start-up that the role of an `[auth_users]` entry exists; `login` refuses such
  a user (`ApiAuthPermanentError`, 401: `loginConfigFile`, role look-up `none`).
-/
import KrillModel.Http.Auth
namespace KM.Http
open KM.Generated

/-- The authentication-relevant content of a configuration file. `none` = the key / section is
absent. -/
structure ConfigFile where
  authType : AuthType
  adminToken : String
  authUsers : Option (List (String × UserEntry))
  /-- `[auth_roles]` -/
  authRoles : Option (List (String × Role))
  /-- `[unix_users]` -/
  unixUsers : Option (List (String × String))
  key : Nat
  testbed : Bool
deriving Repr

/-- `ConfigDefaults::auth_roles()`, from the generated table. -/
def builtinRoleMap : List (String × Role) :=
  defaultAuthRoles.filterMap fun e => e.2.map fun b => (e.1, Role.builtin b)

/-- `ConfigDefaults::unix_users()` -/
def defaultUnixUsers : List (String × String) := [("root", "admin")]

/-- The role map the providers use: the configured one if there is one, else the built-in one –
never a union. -/
def ConfigFile.roleMap (cf : ConfigFile) : List (String × Role) :=
  match cf.authRoles with
  | some m => m
  | none => builtinRoleMap

def ConfigFile.unixMap (cf : ConfigFile) : List (String × String) :=
  match cf.unixUsers with
  | some m => m
  | none => defaultUnixUsers

/-- The `Config` the providers are built from (after serde defaults and `Config::process`). -/
def ConfigFile.effective (cf : ConfigFile) : Config :=
  { authType := cf.authType, adminToken := cf.adminToken, users := cf.authUsers.getD [],
    roles := cf.roleMap, unixUsers := cf.unixMap, key := cf.key, testbed := cf.testbed }

/-- `config_file::AuthProvider::new` -/
def configFileProviderStarts (cf : ConfigFile) : Bool :=
  match cf.authType with
  | .configFile => cf.authUsers.isSome
  | .adminToken => true

/-- `unix_user::AuthProvider::new` -/
def unixProviderStarts (cf : ConfigFile) : Bool :=
  cf.unixMap.all fun e => (cf.roleMap.lookup e.2).isSome

/-- `Authorizer::new` succeeds: the daemon starts (as far as authentication is concerned). -/
def startOk (cf : ConfigFile) : Bool :=
  configFileProviderStarts cf && unixProviderStarts cf

end KM.Http
