/-
Helper lemmas for the HTTP model (no property statements).
-/
import KrillModel.Http.Serve
import KrillModel.Http.Spec
namespace KM.Http
open KM.Generated

theorem runGates_none_iff (a : AuthRes) (segs : List String) (gs : List (Permission × Res)) :
    runGates a segs gs = none ↔ ∀ g ∈ gs, gate a segs g = none := by
  induction gs with
  | nil => simp [runGates]
  | cons g gs ih =>
    simp only [runGates, List.mem_cons, forall_eq_or_imp]
    cases hg : gate a segs g with
    | none => simp [ih]
    | some o => simp

theorem runGates_some (a : AuthRes) (segs : List String) (gs : List (Permission × Res)) (o : Outcome)
    (h : runGates a segs gs = some o) : ∃ g ∈ gs, gate a segs g = some o := by
  induction gs with
  | nil => simp [runGates] at h
  | cons g gs ih =>
    simp only [runGates] at h
    cases hg : gate a segs g with
    | none =>
      rw [hg] at h
      obtain ⟨g', hm, hg'⟩ := ih h
      exact ⟨g', List.mem_cons_of_mem _ hm, hg'⟩
    | some o' =>
      rw [hg] at h
      simp only [Option.some.injEq] at h
      subst h
      exact ⟨g, List.mem_cons_self, hg⟩

theorem checkPerm_refusal (a : AuthRes) (p : Permission) (res : Option Handle) (o : Outcome)
    (h : checkPerm a p res = some o) : o = .unauthorized ∨ o = .forbidden := by
  unfold checkPerm at h
  cases a with
  | ok id role =>
    simp only at h
    split at h
    · cases h
    · simp only [Option.some.injEq] at h; exact Or.inr h.symm
  | none =>
    simp only at h
    split at h
    · cases h
    · simp only [Option.some.injEq] at h; exact Or.inr h.symm
  | err =>
    simp only [Option.some.injEq] at h; exact Or.inl h.symm

theorem gate_refusal (a : AuthRes) (segs : List String) (g : Permission × Res) (o : Outcome)
    (h : gate a segs g = some o) : o = .unauthorized ∨ o = .forbidden := by
  unfold gate at h
  split at h
  · exact checkPerm_refusal _ _ _ _ h
  · simp only [Option.some.injEq] at h; exact Or.inr h.symm

/-- A gate lets an authenticated caller pass exactly when the resource resolves and the role
allows the permission on it. -/
theorem gate_ok_iff (id : String) (role : Role) (segs : List String) (p : Permission) (r : Res) :
    gate (.ok id role) segs (p, r) = none ↔
      ∃ res, resolve segs r = some res ∧ role.isAllowed p res = true := by
  unfold gate
  cases hr : resolve segs r with
  | none => simp
  | some res =>
    simp only [checkPerm, Option.some.injEq, exists_eq_left']
    by_cases h : role.isAllowed p res = true <;> simp [h]

/-- `is_allowed` is membership in `permissions(role, resource)`. -/
theorem isAllowed_iff_mem_perms (r : Role) (p : Permission) (res : Option Handle) :
    r.isAllowed p res = true ↔ p ∈ r.perms res := by
  cases res with
  | none => simp [Role.isAllowed, Role.perms, has]
  | some h =>
    simp only [Role.isAllowed, Role.perms]
    cases r.entry h <;> simp [has]

theorem has_nil (p : Permission) : has [] p = false := by
  simp [has]

theorem anonymous_allows_nothing (p : Permission) (res : Option Handle) :
    Role.anonymous.isAllowed p res = false := by
  have h : permSet (builtinRoleSet .anonymous) = [] := by decide
  unfold Role.anonymous Role.builtin
  rw [h]
  cases res with
  | none => simp [Role.isAllowed, Role.simple, has]
  | some h' => simp [Role.isAllowed, Role.simple, Role.entry, has]

/-- Without an authenticated identity every gate refuses. -/
theorem gate_unauthenticated (a : AuthRes) (ha : a.isOk = false) (segs : List String)
    (g : Permission × Res) : gate a segs g ≠ none := by
  unfold gate
  split
  · cases a with
    | ok id role => simp [AuthRes.isOk] at ha
    | none => simp [checkPerm, anonymous_allows_nothing]
    | err => simp [checkPerm]
  · simp

end KM.Http
