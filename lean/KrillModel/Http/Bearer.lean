/-
What krill makes of the text of an `Authorization` header (src/commons/httpclient.rs
`get_bearer_token`), and the *neighbourhood* of a genuine credential: the strings one slip away
from it.

```rust
request.headers().get(AUTHORIZATION)
    .and_then(|value| value.to_str().ok())                       // visible ASCII and tab only
    .and_then(|s| s.strip_prefix("Bearer ").map(|s| Token::from(s.trim())))
```

The header value hyper hands over is the field value of RFC 9110: the HTTP/1 parser has already
removed the optional white space in front of and behind it.  White space in a value that passes
`to_str` is space and tab, so Rust's `str::trim` removes exactly those.

Consequences (theorems in `KM.Props.C20`): the credential a request presents is the header text
after `Bearer ` with the white space around it removed – `Bearer   t`, `Bearer t  ` and `Bearer \tt\t`
all present `t`; a header that is just `Bearer` followed by white space presents *no* credential
(the parser strips the trailing blank, the prefix `Bearer ` no longer matches); nothing else is
changed: case, a missing or an extra character make a different credential.
-/
import KrillModel.Http.Auth
namespace KM.Http

/-- White space that can occur in a header value `HeaderValue::to_str` accepts. -/
def isWs (c : Char) : Bool := c == ' ' || c == '\t'

/-- `HeaderValue::to_str` succeeds iff every byte is visible ASCII (0x20 … 0x7e) or a tab. -/
def isHeaderChar (c : Char) : Bool := (32 ≤ c.toNat && c.toNat < 127) || c == '\t'

def trimStart (l : List Char) : List Char := l.dropWhile isWs
def trimEnd (l : List Char) : List Char := (l.reverse.dropWhile isWs).reverse
/-- `str::trim` on such a text; also what the HTTP/1 parser does to a field value. -/
def trim (l : List Char) : List Char := trimEnd (trimStart l)

def bearerWord : List Char := ['B', 'e', 'a', 'r', 'e', 'r']
/-- `"Bearer "` -/
def bearerPrefix : List Char := bearerWord ++ [' ']

example : bearerPrefix = "Bearer ".toList := by decide

/-- `httpclient::get_bearer_token`, on the text that follows `Authorization:` on the wire (`none`: the
request has no such header). -/
def getBearerToken : Option (List Char) → Option (List Char)
  | none => none
  | some raw =>
    let v := trim raw
    if !v.all isHeaderChar then none
    else if bearerPrefix.isPrefixOf v then some (trim (v.drop bearerPrefix.length))
    else none

/-- The `Header` of the provider chain for a request whose bearer token (if any) is not the text of
a sealed session: used for the admin token and its neighbourhood. -/
def headerOfText (raw : Option (List Char)) : Header :=
  match getBearerToken raw with
  | some t => .bearer (.text (String.ofList t))
  | none => .absent

/-! ## The neighbourhood of a credential -/

def swapCase (c : Char) : Char :=
  if c.isLower then c.toUpper else if c.isUpper then c.toLower else c

/-- One slip away from a genuine credential `t`. -/
inductive NearMiss where
  /-- the first `k` characters -/
  | pre (k : Nat)
  /-- `t` followed by more text -/
  | ext (s : List Char)
  /-- the character at position `i` replaced by `c` -/
  | chg (i : Nat) (c : Char)
  /-- every letter in the other case -/
  | swapCase
  /-- white space in front and behind -/
  | pad (l r : List Char)
  /-- nothing after `Bearer ` -/
  | empty
deriving DecidableEq, Repr

def NearMiss.apply (t : List Char) : NearMiss → List Char
  | .pre k => t.take k
  | .ext s => t ++ s
  | .chg i c => t.set i c
  | .swapCase => t.map KM.Http.swapCase
  | .pad l r => l ++ t ++ r
  | .empty => []

/-- The slip is one: it changes the text (or pads it), and the result can be sent in a header. -/
def NearMiss.applies (t : List Char) : NearMiss → Bool
  | .pre k => 0 < k && k < t.length
  | .ext s => !s.isEmpty && s.all isHeaderChar
  | .chg i c => i < t.length && t[i]? != some c && isHeaderChar c
  | .swapCase => t.map KM.Http.swapCase != t && (t.map KM.Http.swapCase).all isHeaderChar
  | .pad l r => l.all isWs && r.all isWs
  | .empty => true

/-- **Which members of the neighbourhood are the same credential after krill's header parsing**:
exactly those that only add white space around the token. -/
def NearMiss.same : NearMiss → Bool
  | .pad _ _ => true
  | .ext s => s.all isWs
  | _ => false

/-- A credential as it can arrive through `get_bearer_token`: not empty, no white space at either
end, sendable. -/
def IsToken (t : List Char) : Prop :=
  t ≠ [] ∧ (∀ c, t.head? = some c → isWs c = false) ∧ (∀ c, t.getLast? = some c → isWs c = false) ∧
    t.all isHeaderChar = true

/-- The request header of a near miss of `t`. -/
def NearMiss.header (t : List Char) (v : NearMiss) : Header :=
  headerOfText (some (bearerPrefix ++ v.apply t))

end KM.Http
