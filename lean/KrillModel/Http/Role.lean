/-
Roles and permission sets (src/daemon/http/auth/roles.rs, permission.rs).

A `PermissionSet` is a bit mask over the `Permission` enum; with at most 32 permissions
(`KM.Generated.Permission.all`, theorem `perms_fit_mask` in Props/C13) it is a plain set, modelled
as the list of its members.  Every subset of the permissions is a `PermSet`.
-/
import KrillModel.Generated.Perm
namespace KM.Http
open KM.Generated

abbrev Handle := String

/-- A set of permissions (`PermissionSet`). -/
abbrev PermSet := List Permission

/-- `PermissionSet::has`. -/
def has (s : PermSet) (p : Permission) : Bool := s.contains p

/-- `Role` (roles.rs): permissions for requests without a resource, the blanket permissions for
all resources, and the permissions for specific resources (a hash map: the first entry of a handle
is *the* entry). -/
structure Role where
  none : PermSet
  any : PermSet
  resources : List (Handle × PermSet)
deriving Repr, DecidableEq

/-- `self.resources.get(resource)` -/
def Role.entry (r : Role) (h : Handle) : Option PermSet := r.resources.lookup h

/-- `Role::is_allowed` (roles.rs:129-146): a specific resource is judged by its own entry if the
role has one, otherwise by the blanket set; a request without resource by the `none` set. -/
def Role.isAllowed (r : Role) (p : Permission) : Option Handle → Bool
  | some h =>
    match r.entry h with
    | some s => has s p
    | Option.none => has r.any p
  | Option.none => has r.none p

/-- The permission set `is_allowed` consults for a resource: `permissions(role, ca)`. -/
def Role.perms (r : Role) : Option Handle → PermSet
  | some h =>
    match r.entry h with
    | some s => s
    | Option.none => r.any
  | Option.none => r.none

/-- `Role::simple` -/
def Role.simple (s : PermSet) : Role := ⟨s, s, []⟩

/-- `Role::with_resources`: the set for non-resource requests and for the listed resources, nothing
for any other resource. -/
def Role.withResources (s : PermSet) (cas : List Handle) : Role := ⟨s, [], cas.map fun h => (h, s)⟩

/-- `Role::complex` -/
def Role.complex (none any : PermSet) (resources : List (Handle × PermSet)) : Role :=
  ⟨none, any, resources⟩

/-- `From<RoleConf>`: the role definition of the configuration file. -/
def Role.ofConf (s : PermSet) : Option (List Handle) → Role
  | some cas => .withResources s cas
  | Option.none => .simple s

/-- The built-in roles (`Role::admin()` …), from the generated tables. -/
def Role.builtin (b : BuiltinRole) : Role := .simple (permSet (builtinRoleSet b))

def Role.admin : Role := .builtin .admin
def Role.anonymous : Role := .builtin .anonymous

end KM.Http
