/-
Session tokens of the config-file provider (src/daemon/http/auth/session.rs, crypt.rs) with
symbolic AEAD.

`token = base64 (nonce ‖ tag ‖ ChaCha20-Poly1305 key nonce json)`.  A bearer string is either the
(canonical or non-canonical) base64 text of such a sealed payload – a *term* `sealed key nonce
plain` – or any other text.  Decryption succeeds exactly for a canonical encoding of a payload
sealed under the same key (term equality); everything else – other key, changed or missing bytes,
non-canonical base64, text that is no base64 – fails.  That is the symbolic (Dolev–Yao) reading of
the AEAD guarantee; the strength of ChaCha20-Poly1305 itself is assumed.
-/
namespace KM.Http

/-- What the decrypted bytes are: the JSON of a `ClientSession<SessionSecret>` (user id and role
name; start time and the unused expiry are not modelled), or bytes that do not parse as one. -/
inductive Plain where
  | session (user : String) (role : String)
  | garbage (n : Nat)
deriving DecidableEq, Repr

/-- A bearer string as far as the code can tell strings apart. -/
inductive Wire where
  /-- base64 text of `nonce ‖ tag ‖ ciphertext` produced by `encrypt key plain nonce`; `canonical`
  is the text `STANDARD.encode` produces, `¬ canonical` any other text a lax decoder would map to the
  same bytes -/
  | sealed (canonical : Bool) (key nonce : Nat) (plain : Plain)
  /-- any other text (including damaged copies of sealed tokens and the admin token) -/
  | text (s : String)
deriving DecidableEq, Repr

structure Session where
  user : String
  role : String
deriving DecidableEq, Repr

/-- `serde_json::from_slice::<ClientSession<_>>` -/
def Plain.parse : Plain → Option Session
  | .session u r => some ⟨u, r⟩
  | .garbage _ => none

/-- Strict base64 decode followed by `crypt::decrypt` under `key` (tag verification = term
equality of the key). -/
def decrypt (key : Nat) : Wire → Option Plain
  | .sealed true k _ pt => if k = key then some pt else none
  | .sealed false _ _ _ => none
  | .text _ => none

/-- `LoginSessionCache::decode` without the cache. -/
def decodeFresh (key : Nat) (w : Wire) : Option Session :=
  (decrypt key w).bind Plain.parse

/-- The login session cache plus the nonce counter; `issued` is a ghost field: the tokens `login`
has handed out. -/
structure SessState where
  cache : List (Wire × Session) := []
  nonce : Nat := 0
  issued : List Wire := []
deriving Repr

/-- `LoginSessionCache::decode(token, key, add_to_cache = true)`: a cache hit is returned without
looking at the token again; otherwise strict base64, AEAD, JSON. -/
def decode (key : Nat) (st : SessState) (w : Wire) : Option Session × SessState :=
  match st.cache.lookup w with
  | some s => (some s, st)
  | none =>
    match decodeFresh key w with
    | some s => (some s, { st with cache := (w, s) :: st.cache })
    | none => (none, st)

/-- `LoginSessionCache::encode`: seal under the next nonce, cache, hand out. -/
def encode (key : Nat) (st : SessState) (user role : String) : Wire × SessState :=
  let w := Wire.sealed true key st.nonce (.session user role)
  (w, { cache := (w, ⟨user, role⟩) :: st.cache, nonce := st.nonce + 1, issued := w :: st.issued })

/-- `LoginSessionCache::remove` -/
def SessState.remove (st : SessState) (w : Wire) : SessState :=
  { st with cache := st.cache.filter fun e => e.1 != w }

/-- The sweeper removes some entries (those older than 30 s; which ones is up to the clock). -/
def SessState.sweep (st : SessState) (keep : Wire → Bool) : SessState :=
  { st with cache := st.cache.filter fun e => keep e.1 }

/-- Every cached session is what decoding its token afresh would give: the cache is only ever a
short cut. -/
def CacheSound (key : Nat) (st : SessState) : Prop :=
  ∀ e ∈ st.cache, decodeFresh key e.1 = some e.2

/-! ## Session status (`ClientSession::status`) -/

inductive SessionStatus where
  | active | needsRefresh | expired
deriving DecidableEq, Repr

/-- `ClientSession::status` at time `now` (seconds) for a session started at `start` with
`expires_in`: no expiry ⇒ always active; otherwise expired when older than the maximum age, in need
of refresh when older than half of it.  `none`: `now < start`, where the code's unsigned
subtraction overflows (panic in a debug build, a huge age – expired – in a release build). -/
def sessionStatus (start : Nat) (expiresIn : Option Nat) (now : Nat) : Option SessionStatus :=
  match expiresIn with
  | none => some .active
  | some maxAge =>
    if now < start then none else
    let age := now - start
    if age > maxAge then some .expired
    else if age > maxAge / 2 then some .needsRefresh
    else some .active

/-- The config-file provider encodes its sessions with `expires_in = None` (config_file.rs `login`)
and never asks for the status. -/
def configFileExpiresIn : Option Nat := none

/-! ## The cache key

The code's cache is a `HashMap<Token, _>`: the key is the whole bearer string.  `decodeK` is the same
decode with the cache indexed by an arbitrary function `k` of the token, to say what goes wrong when
the key is less than the whole token (a prefix, a hash with collisions): `KM.Props.C20`. -/
def decodeK {κ : Type} [DecidableEq κ] (k : Wire → κ) (key : Nat) (cache : List (κ × Session))
    (w : Wire) : Option Session × List (κ × Session) :=
  match cache.lookup (k w) with
  | some s => (some s, cache)
  | none =>
    match decodeFresh key w with
    | some s => (some s, (k w, s) :: cache)
    | none => (none, cache)

end KM.Http
