/-
Session tokens of the config-file provider (src/daemon/http/auth/session.rs, crypt.rs) with
symbolic AEAD.

`token = base64 (nonce ‖ tag ‖ ChaCha20-Poly1305 key nonce json)`.  A bearer string is either the
(canonical or non-canonical) base64 text of such a sealed payload – a *term* `sealed key nonce
plain` – or any other text.  Decryption succeeds exactly for a canonical encoding of a payload
sealed under the same key (term equality); everything else – other key, changed or missing bytes,
non-canonical base64, text that is no base64 – fails.  That is the symbolic (Dolev–Yao) reading of
the AEAD guarantee; the strength of ChaCha20-Poly1305 itself is assumed.
-/
namespace KM.Http

/-- What the decrypted bytes are: the JSON of a `ClientSession<SessionSecret>` (user id and role
name; start time and the unused expiry are not modelled), or bytes that do not parse as one. -/
inductive Plain where
  | session (user : String) (role : String)
  | garbage (n : Nat)
deriving DecidableEq, Repr

/-- A bearer string as far as the code can tell strings apart. -/
inductive Wire where
  /-- base64 text of `nonce ‖ tag ‖ ciphertext` produced by `encrypt key plain nonce`; `canonical`
  is the text `STANDARD.encode` produces, `¬ canonical` any other text a lax decoder would map to the
  same bytes -/
  | sealed (canonical : Bool) (key nonce : Nat) (plain : Plain)
  /-- any other text (including damaged copies of sealed tokens and the admin token) -/
  | text (s : String)
deriving DecidableEq, Repr

structure Session where
  user : String
  role : String
deriving DecidableEq, Repr

/-- `serde_json::from_slice::<ClientSession<_>>` -/
def Plain.parse : Plain → Option Session
  | .session u r => some ⟨u, r⟩
  | .garbage _ => none

/-- Strict base64 decode followed by `crypt::decrypt` under `key` (tag verification = term
equality of the key). -/
def decrypt (key : Nat) : Wire → Option Plain
  | .sealed true k _ pt => if k = key then some pt else none
  | .sealed false _ _ _ => none
  | .text _ => none

/-- `LoginSessionCache::decode` without the cache. -/
def decodeFresh (key : Nat) (w : Wire) : Option Session :=
  (decrypt key w).bind Plain.parse

/-- The login session cache plus the nonce counter; `issued` is a ghost field: the tokens `login`
has handed out. -/
structure SessState where
  cache : List (Wire × Session) := []
  nonce : Nat := 0
  issued : List Wire := []
deriving Repr

/-- `LoginSessionCache::decode(token, key, add_to_cache = true)`: a cache hit is returned without
looking at the token again; otherwise strict base64, AEAD, JSON. -/
def decode (key : Nat) (st : SessState) (w : Wire) : Option Session × SessState :=
  match st.cache.lookup w with
  | some s => (some s, st)
  | none =>
    match decodeFresh key w with
    | some s => (some s, { st with cache := (w, s) :: st.cache })
    | none => (none, st)

/-- `LoginSessionCache::encode`: seal under the next nonce, cache, hand out. -/
def encode (key : Nat) (st : SessState) (user role : String) : Wire × SessState :=
  let w := Wire.sealed true key st.nonce (.session user role)
  (w, { cache := (w, ⟨user, role⟩) :: st.cache, nonce := st.nonce + 1, issued := w :: st.issued })

/-- `LoginSessionCache::remove` -/
def SessState.remove (st : SessState) (w : Wire) : SessState :=
  { st with cache := st.cache.filter fun e => e.1 != w }

/-- The sweeper removes some entries (those older than 30 s; which ones is up to the clock). -/
def SessState.sweep (st : SessState) (keep : Wire → Bool) : SessState :=
  { st with cache := st.cache.filter fun e => keep e.1 }

/-- Every cached session is what decoding its token afresh would give: the cache is only ever a
short cut. -/
def CacheSound (key : Nat) (st : SessState) : Prop :=
  ∀ e ∈ st.cache, decodeFresh key e.1 = some e.2

end KM.Http
