/-
Helper lemmas about the session cache and the provider chain (no property statements).
-/
import KrillModel.Http.Auth
namespace KM.Http
open KM.Generated

theorem lookup_mem {α β} [BEq α] [LawfulBEq α] (l : List (α × β)) (a : α) (b : β)
    (h : l.lookup a = some b) : (a, b) ∈ l := by
  induction l with
  | nil => simp at h
  | cons x xs ih =>
    obtain ⟨k, v⟩ := x
    simp only [List.lookup_cons] at h
    by_cases hk : (a == k) = true
    · simp only [hk] at h
      have : a = k := by simpa using hk
      subst this
      simp only [Option.some.injEq] at h
      subst h
      simp
    · have : (a == k) = false := by simpa using hk
      simp only [this] at h
      exact List.mem_cons_of_mem _ (ih h)

/-- Decoding without the cache succeeds exactly for the canonical base64 of a payload sealed under
this key whose plain text is a session. -/
theorem decodeFresh_some_iff (key : Nat) (w : Wire) (s : Session) :
    decodeFresh key w = some s ↔ ∃ n, w = .sealed true key n (.session s.user s.role) := by
  unfold decodeFresh decrypt
  cases w with
  | text t => simp
  | sealed c k n pt =>
    cases c with
    | false => simp
    | true =>
      by_cases hk : k = key
      · subst hk
        cases pt with
        | garbage g => simp [Plain.parse]
        | session u r =>
          simp only [if_true, Option.bind_some, Plain.parse, Option.some.injEq, Wire.sealed.injEq,
            true_and, Plain.session.injEq]
          constructor
          · intro h; subst h; exact ⟨n, rfl, rfl, rfl⟩
          · intro ⟨_, _, hu, hr⟩; cases s; simp_all
      · simp [hk]

/-- With a sound cache the cache is invisible. -/
theorem decode_fst (key : Nat) (st : SessState) (w : Wire) (hs : CacheSound key st) :
    (decode key st w).1 = decodeFresh key w := by
  unfold decode
  cases hl : st.cache.lookup w with
  | some s =>
    have := hs _ (lookup_mem _ _ _ hl)
    simp [this]
  | none =>
    cases hd : decodeFresh key w <;> simp

theorem decode_sound (key : Nat) (st : SessState) (w : Wire) (hs : CacheSound key st) :
    CacheSound key (decode key st w).2 := by
  unfold decode
  cases hl : st.cache.lookup w with
  | some s => exact hs
  | none =>
    cases hd : decodeFresh key w with
    | none => exact hs
    | some s =>
      intro e he
      simp only [List.mem_cons] at he
      rcases he with rfl | he
      · exact hd
      · exact hs e he

theorem decode_ghost (key : Nat) (st : SessState) (w : Wire) :
    (decode key st w).2.issued = st.issued ∧ (decode key st w).2.nonce = st.nonce := by
  unfold decode
  cases st.cache.lookup w with
  | some s => simp
  | none => cases decodeFresh key w <;> simp

theorem encode_sound (key : Nat) (st : SessState) (u r : String) (hs : CacheSound key st) :
    CacheSound key (encode key st u r).2 := by
  intro e he
  simp only [encode, List.mem_cons] at he
  rcases he with rfl | he
  · simp [decodeFresh, decrypt, Plain.parse]
  · exact hs e he

theorem remove_sound (key : Nat) (st : SessState) (w : Wire) (hs : CacheSound key st) :
    CacheSound key (st.remove w) := by
  intro e he
  simp only [SessState.remove, List.mem_filter] at he
  exact hs e he.1

theorem sweep_sound (key : Nat) (st : SessState) (keep : Wire → Bool) (hs : CacheSound key st) :
    CacheSound key (st.sweep keep) := by
  intro e he
  simp only [SessState.sweep, List.mem_filter] at he
  exact hs e he.1

/-- The config-file provider's answer does not depend on the cache. -/
theorem configFileProvider_fst (cfg : Config) (st : SessState) (h : Header)
    (hs : CacheSound cfg.key st) :
    (configFileProvider cfg st h).1 =
      match h with
      | .bearer w =>
        match decodeFresh cfg.key w with
        | some s => authFromSession cfg s
        | none => .err
      | .absent => .none := by
  cases h with
  | absent => rfl
  | bearer w =>
    have h1 := decode_fst cfg.key st w hs
    simp only [configFileProvider]
    generalize decode cfg.key st w = d at h1 ⊢
    obtain ⟨o, st'⟩ := d
    simp only at h1
    subst h1
    cases decodeFresh cfg.key w <;> rfl

theorem configFileProvider_sound (cfg : Config) (st : SessState) (h : Header)
    (hs : CacheSound cfg.key st) : CacheSound cfg.key (configFileProvider cfg st h).2 := by
  cases h with
  | absent => exact hs
  | bearer w =>
    have h1 := decode_sound cfg.key st w hs
    simp only [configFileProvider]
    cases hd : decode cfg.key st w with
    | mk o st' =>
      rw [hd] at h1
      cases o <;> exact h1

theorem configFileProvider_ghost (cfg : Config) (st : SessState) (h : Header) :
    (configFileProvider cfg st h).2.issued = st.issued ∧
    (configFileProvider cfg st h).2.nonce = st.nonce := by
  cases h with
  | absent => exact ⟨rfl, rfl⟩
  | bearer w =>
    have h1 := decode_ghost cfg.key st w
    simp only [configFileProvider]
    cases hd : decode cfg.key st w with
    | mk o st' =>
      rw [hd] at h1
      cases o <;> exact h1

theorem primaryProvider_sound (cfg : Config) (st : SessState) (h : Header)
    (hs : CacheSound cfg.key st) : CacheSound cfg.key (primaryProvider cfg st h).2 := by
  unfold primaryProvider
  cases cfg.authType with
  | configFile => exact configFileProvider_sound cfg st h hs
  | adminToken => exact hs

theorem primaryProvider_ghost (cfg : Config) (st : SessState) (h : Header) :
    (primaryProvider cfg st h).2.issued = st.issued ∧
    (primaryProvider cfg st h).2.nonce = st.nonce := by
  unfold primaryProvider
  cases cfg.authType with
  | configFile => exact configFileProvider_ghost cfg st h
  | adminToken => exact ⟨rfl, rfl⟩

theorem authenticate_snd (cfg : Config) (st : SessState) (h : Header) (t : Transport) :
    (authenticate cfg st h t).2 =
      if (legacyProvider cfg h).isOk then st else (primaryProvider cfg st h).2 := by
  unfold authenticate
  by_cases hl : (legacyProvider cfg h).isOk = true <;> simp [hl]

theorem authenticate_sound (cfg : Config) (st : SessState) (h : Header) (t : Transport)
    (hs : CacheSound cfg.key st) : CacheSound cfg.key (authenticate cfg st h t).2 := by
  rw [authenticate_snd]
  split
  · exact hs
  · exact primaryProvider_sound cfg st h hs

theorem authenticate_ghost (cfg : Config) (st : SessState) (h : Header) (t : Transport) :
    (authenticate cfg st h t).2.issued = st.issued ∧
    (authenticate cfg st h t).2.nonce = st.nonce := by
  rw [authenticate_snd]
  split
  · exact ⟨rfl, rfl⟩
  · exact primaryProvider_ghost cfg st h

/-- What a successful login looks like. -/
theorem login_ok_iff (norm : String → String) (cfg : Config) (st : SessState)
    (basic : Option (String × String)) (id role : String) (tok : Wire) :
    (loginConfigFile norm cfg st basic).1 = .ok id role tok ↔
      ∃ raw pw u r, basic = some (raw, pw) ∧ id = norm raw ∧
        cfg.users.lookup id = some u ∧ u.hash = .term ⟨norm pw, id, u.salt⟩ ∧ role = u.role ∧
        cfg.roles.lookup u.role = some r ∧ r.isAllowed .Login none = true ∧
        tok = .sealed true cfg.key st.nonce (.session id role) := by
  constructor
  · intro h
    unfold loginConfigFile at h
    split at h
    · cases h
    · rename_i raw pw
      dsimp only at h
      split at h
      · cases h
      · rename_i u hu
        split at h
        · cases h
        · rename_i hh
          split at h
          · cases h
          · rename_i r hr
            split at h
            · cases h
            · rename_i hal
              simp only [encode, LoginRes.ok.injEq] at h
              obtain ⟨h1, h2, h3⟩ := h
              subst h1 h2 h3
              refine ⟨raw, pw, u, r, rfl, rfl, hu, ?_, rfl, hr, ?_, rfl⟩
              · simpa [eq_comm] using hh
              · simpa using hal
  · intro ⟨raw, pw, u, r, hb, hid, hu, hh, hrole, hr, hal, htok⟩
    subst hb hid hrole htok
    simp [loginConfigFile, hu, ← hh, hr, hal, encode]

/-- Login changes the state only when it succeeds, and then by exactly one `encode`. -/
theorem login_state (norm : String → String) (cfg : Config) (st : SessState)
    (basic : Option (String × String)) :
    (∃ id role tok, (loginConfigFile norm cfg st basic).1 = .ok id role tok ∧
        (loginConfigFile norm cfg st basic).2 = (encode cfg.key st id role).2 ∧
        tok = (encode cfg.key st id role).1) ∨
    ((∀ id role tok, (loginConfigFile norm cfg st basic).1 ≠ .ok id role tok) ∧
        (loginConfigFile norm cfg st basic).2 = st) := by
  unfold loginConfigFile
  split
  · right; simp
  · rename_i raw pw
    dsimp only
    split
    · right; simp
    · rename_i u hu
      split
      · right; simp
      · split
        · right; simp
        · rename_i r hr
          split
          · right; simp
          · left; exact ⟨norm raw, u.role, _, rfl, rfl, rfl⟩

theorem login_sound (norm : String → String) (cfg : Config) (st : SessState)
    (basic : Option (String × String)) (hs : CacheSound cfg.key st) :
    CacheSound cfg.key (loginConfigFile norm cfg st basic).2 := by
  rcases login_state norm cfg st basic with ⟨id, role, tok, _, h2, _⟩ | ⟨_, h2⟩
  · rw [h2]; exact encode_sound _ _ _ _ hs
  · rw [h2]; exact hs

theorem logout_sound (cfg : Config) (st : SessState) (h : Header) (hs : CacheSound cfg.key st) :
    CacheSound cfg.key (logoutConfigFile cfg st h) := by
  cases h with
  | absent => exact hs
  | bearer w =>
    exact configFileProvider_sound cfg _ _ (remove_sound _ _ _ hs)

theorem step_sound (norm : String → String) (cfg : Config) (st : SessState) (op : Op)
    (hs : CacheSound cfg.key st) : CacheSound cfg.key (step norm cfg st op) := by
  cases op with
  | auth h t => exact authenticate_sound cfg st h t hs
  | login b => exact login_sound norm cfg st b hs
  | logout h => exact logout_sound cfg st h hs
  | sweep k => exact sweep_sound _ _ _ hs

theorem foldl_sound (norm : String → String) (cfg : Config) (ops : List Op) (st : SessState)
    (hs : CacheSound cfg.key st) : CacheSound cfg.key (ops.foldl (step norm cfg) st) := by
  induction ops generalizing st with
  | nil => exact hs
  | cons op ops ih => exact ih _ (step_sound norm cfg st op hs)

/-! ## Genuine bearer strings: who the first two arms of the chain accept -/

/-- `w` is a credential of somebody under `cfg`: the admin token verbatim, or (config-file provider)
the canonical encoding of a session sealed under this instance's key whose role is configured. -/
def Genuine (cfg : Config) (w : Wire) : Prop :=
  w = .text cfg.adminToken ∨
  (cfg.authType = .configFile ∧
    ∃ n u r role, w = .sealed true cfg.key n (.session u r) ∧ cfg.roles.lookup r = some role)

/-- The first two arms of the chain (legacy admin token, primary provider). -/
def tokenArms (cfg : Config) (st : SessState) (h : Header) : AuthRes :=
  if (legacyProvider cfg h).isOk then legacyProvider cfg h else (primaryProvider cfg st h).1

theorem authenticate_fst_arms (cfg : Config) (st : SessState) (h : Header) (t : Transport) :
    (authenticate cfg st h t).1 =
      if (tokenArms cfg st h).isOk then tokenArms cfg st h else unixProvider cfg t := by
  unfold authenticate tokenArms
  by_cases hl : (legacyProvider cfg h).isOk = true <;> simp [hl]

theorem tokenArms_absent (cfg : Config) (st : SessState) : (tokenArms cfg st .absent).isOk = false := by
  unfold tokenArms legacyProvider primaryProvider
  cases cfg.authType <;> simp [adminProvider, configFileProvider, AuthRes.isOk]

/-- The bearer arms accept a string iff it is genuine – for both provider configurations. -/
theorem tokenArms_isOk_iff (cfg : Config) (st : SessState) (hs : CacheSound cfg.key st) (w : Wire) :
    (tokenArms cfg st (.bearer w)).isOk = true ↔ Genuine cfg w := by
  unfold tokenArms legacyProvider primaryProvider Genuine
  cases hty : cfg.authType with
  | adminToken =>
    by_cases hw : w = .text cfg.adminToken <;> simp [adminProvider, hw, AuthRes.isOk]
  | configFile =>
    by_cases hw : w = .text cfg.adminToken
    · simp [adminProvider, hw, AuthRes.isOk]
    · simp only [adminProvider, hw, if_false, AuthRes.isOk, Bool.false_eq_true, false_or, true_and]
      rw [configFileProvider_fst cfg st _ hs]
      simp only
      cases hd : decodeFresh cfg.key w with
      | none =>
        simp only [Bool.false_eq_true, false_iff, not_exists, not_and]
        intro n u r role hwe
        have : decodeFresh cfg.key w = some ⟨u, r⟩ := (decodeFresh_some_iff _ _ _).mpr ⟨n, hwe⟩
        rw [hd] at this
        cases this
      | some s =>
        obtain ⟨n, hn⟩ := (decodeFresh_some_iff _ _ _).mp hd
        simp only [authFromSession]
        cases hr : cfg.roles.lookup s.role with
        | none =>
          simp only [Bool.false_eq_true, false_iff, not_exists, not_and]
          intro n' u r role hwe
          rw [hn] at hwe
          simp only [Wire.sealed.injEq, true_and, Plain.session.injEq] at hwe
          obtain ⟨_, _, hr'⟩ := hwe
          rw [← hr', hr]
          simp
        | some ro =>
          simp only [true_iff]
          exact ⟨n, s.user, s.role, ro, hn, hr⟩

/-- A bearer string that is not genuine is worth exactly as much as no `Authorization` header: in
both cases the chain answers what the Unix-socket arm answers. -/
theorem not_genuine_as_absent (cfg : Config) (st : SessState) (hs : CacheSound cfg.key st) (w : Wire)
    (hw : ¬ Genuine cfg w) (t : Transport) :
    (authenticate cfg st (.bearer w) t).1 = unixProvider cfg t ∧
    (authenticate cfg st .absent t).1 = unixProvider cfg t := by
  have h1 : (tokenArms cfg st (.bearer w)).isOk = false := by
    cases h : (tokenArms cfg st (.bearer w)).isOk with
    | false => rfl
    | true => exact absurd ((tokenArms_isOk_iff cfg st hs w).mp h) hw
  constructor
  · rw [authenticate_fst_arms, h1]; rfl
  · rw [authenticate_fst_arms, tokenArms_absent]; rfl

end KM.Http
