/-
The specification side of C13: which permission each operation of the server object requires,
and which endpoints may be served without credentials.

Written from the property text and krill's documented API (the permission names say what they are
for: `ca-read`, `ca-update`, `routes-update`, `pub-admin`, …) – **not** derived from the dispatch
code.  The dispatch code is what `KrillModel.Generated.Routes` holds; `Props/C13` compares the two.

The match on `ServerOp` is exhaustive on purpose: a handler that starts calling a server operation
this file does not know makes the file fail to compile, and the check reports it.
-/
import KrillModel.Generated.Routes
namespace KM.Http.Spec
open KM.Generated

/-- What an operation of the server object needs from the caller. -/
inductive Need where
  /-- one of these permissions on the CA the call addresses -/
  | onCa (alts : List Permission)
  /-- one of these permissions as a general (non-CA) grant -/
  | general (alts : List Permission)
  /-- the call enumerates CAs: each one may only be shown to a caller holding `p` on it -/
  | listing (p : Permission)
  /-- protocol, statistics and login plumbing: nothing beyond reaching the endpoint -/
  | free
deriving DecidableEq, Repr

/-- Trust-anchor operations are administrative: they need the general CA-admin grant. -/
def taPermission : Permission := .CaAdmin

def required : ServerOp → Need
  -- certificate authorities: reading
  | .ca_info | .ca_child_show | .ca_child_export | .ca_parent_response | .ca_history
  | .ca_command_details | .ca_child_req | .ca_publisher_req | .ca_issues | .ca_parent_status
  | .ca_parent_contact | .ca_repo_details | .ca_repo_status | .ca_stats_child_connections =>
    .onCa [.CaRead]
  -- certificate authorities: changing
  | .ca_add_child | .ca_child_update | .ca_child_remove | .ca_update_id | .ca_keyroll_init
  | .ca_keyroll_activate | .ca_parent_add_or_update | .ca_parent_remove | .ca_repo_update
  | .cas_refresh_single | .ca_sync_repo =>
    .onCa [.CaUpdate]
  | .ca_child_import => .onCa [.CaAdmin]
  | .ca_delete => .onCa [.CaDelete]
  | .ca_init => .general [.CaCreate]
  | .ca_handles => .listing .CaRead
  -- ROAs
  | .ca_routes_show => .onCa [.RoutesRead]
  | .ca_routes_update => .onCa [.RoutesUpdate]
  | .ca_routes_bgp_analysis => .onCa [.RoutesAnalysis]
  -- a dry run and a suggestion change nothing: the analysis permission suffices, and whoever may
  -- update the routes may see the effect of the update
  | .ca_routes_bgp_dry_run | .ca_routes_bgp_suggest => .onCa [.RoutesAnalysis, .RoutesUpdate]
  -- ASPA, BGPsec
  | .ca_aspas_definitions_show => .onCa [.AspasRead]
  | .ca_aspas_definitions_update | .ca_aspas_update_aspa => .onCa [.AspasUpdate]
  | .ca_bgpsec_definitions_show => .onCa [.BgpsecRead]
  | .ca_bgpsec_definitions_update => .onCa [.BgpsecUpdate]
  -- operations on all CAs at once
  | .cas_import | .cas_refresh_all | .cas_repo_sync_all | .republish_all
  | .cas_schedule_suspend_all =>
    .general [.CaAdmin]
  -- publication server
  | .delete_matching_files | .repository_init | .repository_clear | .repository_session_reset =>
    .general [.PubAdmin]
  | .publishers | .repo_stats => .general [.PubList]
  | .add_publisher => .general [.PubCreate]
  | .get_publisher | .repository_response => .general [.PubRead]
  | .remove_publisher => .general [.PubDelete]
  -- trust anchor proxy
  | .ta_proxy_children_add | .ta_proxy_id | .ta_proxy_init | .ta_proxy_publisher_request
  | .ta_proxy_repository_contact | .ta_proxy_repository_update | .ta_proxy_signer_add
  | .ta_proxy_signer_get_request | .ta_proxy_signer_make_request
  | .ta_proxy_signer_process_response | .ta_proxy_signer_update =>
    .general [taPermission]
  -- protocol end points authenticate by CMS signature, downloads and statistics are open
  | .rfc6492 | .rfc8181 | .resolve_rrdp_request_path | .ta_tal | .ta_cer | .server_info
  | .cas_stats | .cas_status_map | .authorizer_login | .authorizer_logout
  | .authorizer_get_login_url | .authorizer_login_session_cache_size =>
    .free

/-- Permissions an operation needs IN ADDITION to `required` when it is reached through the versioned API: every
operation of the publication server is for its administrators only (`pubd::dispatch` demands `pub-admin` before it looks
at the rest of the path) - a role with `pub-list` alone (the built-in read-only and read-write roles) is refused the
publisher list and the list of stale publishers. -/
def alsoRequired : ServerOp → List Permission
  | .delete_matching_files | .repository_init | .repository_clear | .repository_session_reset
  | .publishers | .repo_stats | .add_publisher | .get_publisher | .repository_response | .remove_publisher =>
    [.PubAdmin]
  | _ => []

/-- The families of endpoints the property text names. -/
inductive Area where
  | api | protocol | repository | taDownload | health | metrics | stats | login | ui | testbed
  | nowhere
deriving DecidableEq, Repr

/-- The family of a path pattern, by its leading literal segments. -/
def areaOf : List Seg → Area
  | .lit .l_api :: .lit .l_v1 :: _ => .api
  | .lit .l_rfc8181 :: _ => .protocol
  | .lit .l_rfc6492 :: _ => .protocol
  | .lit .l_rrdp :: _ => .repository
  | .lit .l_ta :: _ => .taDownload
  | .lit .l_testbed_tal :: _ => .taDownload
  | .lit .l_health :: _ => .health
  | .lit .l_metrics :: _ => .metrics
  | .lit .l_stats :: _ => .stats
  | .lit .l_auth :: _ => .login
  | .lit .l_empty :: _ => .ui
  | .lit .l_ui :: _ => .ui
  | .lit .l_assets :: _ => .ui
  | .lit .l_testbed :: _ => .testbed
  | _ => .nowhere

/-- "Without credentials only the protocol, repository, trust-anchor download, health,
metrics/statistics, login and UI endpoints (and the testbed self-service endpoints when testbed
mode is on) are served." -/
def mayBePublic (a : Area) (testbedOnly : Bool) : Bool :=
  match a with
  | .protocol | .repository | .taDownload | .health | .metrics | .stats | .login | .ui => true
  | .testbed => testbedOnly
  | .api | .nowhere => false

/-- What a public endpoint of each family may do with the server object. -/
def publicOps : Area → List ServerOp
  | .protocol => [.rfc8181, .rfc6492]
  | .repository => [.resolve_rrdp_request_path]
  | .taDownload => [.ta_tal, .ta_cer]
  | .metrics => [.server_info, .authorizer_login_session_cache_size, .cas_stats, .cas_status_map,
      .repo_stats]
  | .stats => [.server_info, .repo_stats, .cas_stats]
  | .login => [.authorizer_login, .authorizer_logout, .authorizer_get_login_url]
  -- testbed self-service: register and remove a child under the testbed CA, a publisher in the
  -- testbed repository, and fetch the responses
  | .testbed => [.ca_add_child, .ca_child_remove, .ca_parent_response, .add_publisher,
      .remove_publisher, .repository_response]
  | .health | .ui | .api | .nowhere => []

/-- Permissions that change something. -/
def mutating : Permission → Bool
  | .PubAdmin | .PubCreate | .PubDelete | .CaCreate | .CaUpdate | .CaAdmin | .CaDelete
  | .RoutesUpdate | .AspasUpdate | .BgpsecUpdate | .RtaUpdate => true
  | _ => false

end KM.Http.Spec
