/-
NOT part of the model of the current code.

`loginTwoLookups` is what `config_file::AuthProvider::login` did on the pinned tree (before the fix
2ee45739 in /repo): password hash and salt were read under the user name *as sent*, the user record
(id, role) under the trimmed + NFKC-normalised name.  It is kept as a named counter-model for the
witness `KM.Props.C20.login_confuses_equivalent_names` (finding F-C20-1, fixed).
-/
import KrillModel.Http.Auth
namespace KM.Http.Pinned
open KM.Generated KM.Http

/-- `login` of the pinned tree (two look-ups).  `norm` is trim followed by NFKC.  `basic` is the decoded
`Authorization: Basic` header (`None` if missing or malformed). -/
def loginTwoLookups (norm : String → String) (cfg : Config) (st : SessState)
    (basic : Option (String × String)) : LoginRes × SessState :=
  match basic with
  | none => (.invalid, st)
  | some (rawName, rawPw) =>
    -- first look-up: the name as sent; an unknown name gets a fake hash that no password matches
    match cfg.users.lookup rawName with
    | none => (.invalid, st)
    | some e =>
      let name := norm rawName
      let pw := norm rawPw
      if StoredHash.term ⟨pw, name, e.salt⟩ ≠ e.hash then (.invalid, st) else
      -- second look-up: the normalised name
      match cfg.users.lookup name with
      | none => (.invalid, st)
      | some u =>
        match cfg.roles.lookup u.role with
        | none => (.invalid, st)
        | some role =>
          if !role.isAllowed .Login none then (.denied, st) else
          let (w, st') := encode cfg.key st name u.role
          (.ok name u.role w, st')

end KM.Http.Pinned
