/-
How a request that matches a row of the generated route table is answered
(src/daemon/http/request.rs: `check_permission`, `proceed_permitted`, `proceed_unchecked`;
authorizer.rs `AuthInfo::check_permission`).
-/
import KrillModel.Http.Auth
import KrillModel.Generated.Routes
namespace KM.Http
open KM.Generated

inductive Outcome where
  /-- 401 -/
  | unauthorized
  /-- 403 -/
  | forbidden
  /-- 405 -/
  | methodNotAllowed
  /-- 404 from the dispatch tree -/
  | notFound
  /-- the handler body runs (whatever it then answers) -/
  | served
deriving DecidableEq, Repr

/-- `AuthInfo::check_permission`: an authentication error is returned as such (401); otherwise the
role decides – the anonymous role for a request without credentials. `none` = check passed. -/
def checkPerm (a : AuthRes) (p : Permission) (res : Option Handle) : Option Outcome :=
  match a with
  | .ok _ role => if role.isAllowed p res then none else some .forbidden
  | .none => if Role.anonymous.isAllowed p res then none else some .forbidden
  | .err => some .unauthorized

/-- The resource a gate names, given the request's path segments. -/
def resolve (segs : List String) : Res → Option (Option Handle)
  | .none => some none
  | .seg i => (segs[i]?).map some
  | .listed => none
  | .unknown => none

/-- One gate; an unresolvable resource refuses (closed). -/
def gate (a : AuthRes) (segs : List String) (g : Permission × Res) : Option Outcome :=
  match resolve segs g.2 with
  | some res => checkPerm a g.1 res
  | none => some .forbidden

/-- The gates in source order: the first that refuses decides. -/
def runGates (a : AuthRes) (segs : List String) : List (Permission × Res) → Option Outcome
  | [] => none
  | g :: gs =>
    match gate a segs g with
    | some o => some o
    | none => runGates a segs gs

/-- Rows that hand the request to the handler body. -/
def _root_.KM.Generated.End.runs : End → Bool
  | .proceed _ => true
  | .static => true
  | .unknown => true
  | .methodNotAllowed => false
  | .notFound => false

def respond (testbed : Bool) (a : AuthRes) (rt : Route) (segs : List String) : Outcome :=
  if rt.testbedOnly && !testbed then .notFound else
  match runGates a segs rt.gates with
  | some o => o
  | none =>
    match rt.fin with
    | .methodNotAllowed => .methodNotAllowed
    | .notFound => .notFound
    | _ => .served

/-- The server operations a request can reach. -/
def serverCalls (testbed : Bool) (a : AuthRes) (rt : Route) (segs : List String) : List OpCall :=
  if respond testbed a rt segs = .served then rt.ops else []

/-- What a listing shows of `all` handles. -/
def listingShown (a : AuthRes) (rt : Route) (all : List Handle) : List Handle :=
  match rt.filter with
  | some (p, .listed) => all.filter fun h => (checkPerm a p (some h)).isNone
  | _ => all

end KM.Http
