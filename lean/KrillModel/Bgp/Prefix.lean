/-
Model of the address prefixes of `src/api/roa.rs` (`TypedPrefix`, `Ipv4Prefix`,
`Ipv6Prefix`) and of `RoutePrefix::covers` in `src/server/bgp/riswhois.rs`.

A prefix is a family, the address as a natural number (`< 2^bits`, IPv4 32 bits, IPv6 128
bits) and a length.  krill keeps the invariant "length ≤ bits and all host bits are zero"
(`Prefix::new` clears them, `Ipv4Prefix::from_str` refuses them); it is `Prefix.WF` here
and is a hypothesis of the theorems that need it.

`covers` follows the code literally:

    if self.addr_len() > other.addr_len() { return false }
    if self.addr_len() == BITS { return self.addr() == other.addr() }
    self.addr().to_bits() == other.addr().to_bits() & !(MAX >> self.addr_len())

`x & !(MAX >> n)` (clear the low `bits - n` bits) is `x / 2^(bits-n) * 2^(bits-n)` on
naturals `< 2^bits`.

Import-free so that the driver can be compiled as a `lean_exe`.
-/
namespace KM.Bgp

inductive Family where
  | v4
  | v6
deriving DecidableEq, Repr, Inhabited

/-- Number of address bits of the family. -/
def Family.bits : Family → Nat
  | .v4 => 32
  | .v6 => 128

structure Prefix where
  fam  : Family
  addr : Nat
  len  : Nat
deriving DecidableEq, Repr, Inhabited

/-- `x & !(MAX >> n)` for an address of `bits` bits: keep the first `n` bits. -/
def truncTo (bits n x : Nat) : Nat := x / 2 ^ (bits - n) * 2 ^ (bits - n)

/-- The invariant krill's constructors establish. -/
def Prefix.WF (p : Prefix) : Prop :=
  p.len ≤ p.fam.bits ∧ p.addr < 2 ^ p.fam.bits ∧ truncTo p.fam.bits p.len p.addr = p.addr

instance (p : Prefix) : Decidable p.WF := by unfold Prefix.WF; exact inferInstance

/-- `RoutePrefix::covers` (the two prefixes are of the same family in the code because the
function is only defined within one prefix type; across families the model says `false`,
which is also what `TypedPrefix::matches_type` guards in api/roa.rs). -/
def Prefix.covers (p q : Prefix) : Bool :=
  p.fam == q.fam &&
  (if p.len > q.len then false
   else if p.len == p.fam.bits then p.addr == q.addr
   else p.addr == truncTo p.fam.bits p.len q.addr)

/-- Smallest address of the prefix (`Prefix::min`): the address itself. -/
def Prefix.lo (p : Prefix) : Nat := p.addr

/-- Largest address of the prefix (`Prefix::max`): all host bits set. -/
def Prefix.hi (p : Prefix) : Nat := p.addr + (2 ^ (p.fam.bits - p.len) - 1)

/-- `TypedPrefix::matching_or_less_specific` (api/roa.rs): same family and the address
range of `q` lies within that of `p`. -/
def Prefix.matchingOrLessSpecific (p q : Prefix) : Bool :=
  p.fam == q.fam && decide (p.lo ≤ q.lo) && decide (q.hi ≤ p.hi)

/-- `RoutePrefix::bit`: bit `idx` counted from the left, `false` beyond the family width. -/
def Prefix.bit (p : Prefix) (idx : Nat) : Bool :=
  if idx < p.fam.bits then (p.addr / 2 ^ (p.fam.bits - 1 - idx)) % 2 == 1 else false

/-- `resize`: same address cut to `n` bits (`n` capped at the family width). -/
def Prefix.resize (p : Prefix) (n : Nat) : Prefix :=
  if n ≥ p.fam.bits then { p with len := p.fam.bits }
  else { p with addr := truncTo p.fam.bits n p.addr, len := n }

/-- Number of leading bits on which two addresses of `bits` bits agree
(`(a ^ b).leading_zeros()`). -/
def commonLeading (bits a b : Nat) : Nat :=
  go bits 0
where
  go : Nat → Nat → Nat
    | 0, acc => acc
    | fuel + 1, acc =>
      if acc < bits ∧ a / 2 ^ (bits - 1 - acc) % 2 = b / 2 ^ (bits - 1 - acc) % 2
      then go fuel (acc + 1) else acc

/-- `RoutePrefix::closest_ancestor`. -/
def Prefix.closestAncestor (p q : Prefix) : Prefix :=
  p.resize (min (commonLeading p.fam.bits p.addr q.addr) (min p.len q.len))

/-- The order of `TypedPrefix`: address first, then length (families are never mixed). -/
def Prefix.lt (p q : Prefix) : Bool :=
  p.addr < q.addr || (p.addr == q.addr && p.len < q.len)

/-! ### rpki-rs's family-less 128-bit address space

`rpki::repository::resources::Addr` is a `u128`; an IPv4 address lives in the top 32 bits.
`RoaIpAddress::range()` of a prefix of length `n` is `(addr, addr | (!0 >> n))` in *that*
space, for both families. -/

/-- The prefix' address in rpki-rs's 128-bit space. -/
def Prefix.addr128 (p : Prefix) : Nat := p.addr * 2 ^ (128 - p.fam.bits)

/-- `RoaIpAddress::range().0` -/
def Prefix.lo128 (p : Prefix) : Nat := p.addr128

/-- `RoaIpAddress::range().1`: all bits after the first `len` set. -/
def Prefix.hi128 (p : Prefix) : Nat := p.addr128 + (2 ^ (128 - p.len) - 1)

end KM.Bgp
