/-
Helper lemmas for the BGP model (prefix arithmetic, the validation loop, the per-ROA sets).
No property statements here; those are in `Props/C17.lean`.
-/
import KrillModel.Bgp.Analyse
namespace KM.Bgp

/-! ## `truncTo` -/

theorem truncTo_le (bits n x : Nat) : truncTo bits n x ≤ x := by
  unfold truncTo
  exact Nat.div_mul_le_self x _

theorem truncTo_full (bits x : Nat) : truncTo bits bits x = x := by
  simp [truncTo]

theorem truncTo_idem (bits n x : Nat) : truncTo bits n (truncTo bits n x) = truncTo bits n x := by
  unfold truncTo
  rw [Nat.mul_div_cancel _ (Nat.two_pow_pos _)]

/-- Cutting to `m` bits and then to `n ≤ m` bits is cutting to `n` bits. -/
theorem truncTo_truncTo (bits n m x : Nat) (h : n ≤ m) :
    truncTo bits n (truncTo bits m x) = truncTo bits n x := by
  unfold truncTo
  -- bits - m ≤ bits - n
  have hle : bits - m ≤ bits - n := Nat.sub_le_sub_left h bits
  obtain ⟨k, hk⟩ := Nat.exists_eq_add_of_le hle
  have hp : 2 ^ (bits - n) = 2 ^ (bits - m) * 2 ^ k := by rw [hk, Nat.pow_add]
  rw [hp]
  congr 1
  rw [← Nat.div_div_eq_div_mul, Nat.mul_div_cancel _ (Nat.two_pow_pos _), Nat.div_div_eq_div_mul]

/-! ## `covers` -/

theorem covers_iff (p q : Prefix) :
    p.covers q = true ↔
      p.fam = q.fam ∧ p.len ≤ q.len ∧
        (if p.len = p.fam.bits then p.addr = q.addr else p.addr = truncTo p.fam.bits p.len q.addr) := by
  unfold Prefix.covers
  by_cases hf : p.fam = q.fam
  · by_cases hl : p.len > q.len
    · simp [hf, hl, Nat.not_le.mpr hl]
    · have hl' : p.len ≤ q.len := Nat.le_of_not_gt hl
      by_cases hb : p.len = p.fam.bits
      · simp [hf, hb] at *
      · simp [hf, hl, hl']
  · simp [hf]

/-- For a well-formed covering prefix the case split on the full length disappears. -/
theorem covers_iff_wf (p q : Prefix) (_hp : p.WF) :
    p.covers q = true ↔
      p.fam = q.fam ∧ p.len ≤ q.len ∧ p.addr = truncTo p.fam.bits p.len q.addr := by
  rw [covers_iff]
  by_cases hb : p.len = p.fam.bits
  · simp [hb, truncTo_full]
  · simp [hb]

theorem covers_refl (p : Prefix) (hp : p.WF) : p.covers p = true := by
  rw [covers_iff_wf p p hp]
  exact ⟨rfl, Nat.le_refl _, hp.2.2.symm⟩

theorem covers_trans (p q r : Prefix) (hp : p.WF) (hq : q.WF)
    (h1 : p.covers q = true) (h2 : q.covers r = true) : p.covers r = true := by
  rw [covers_iff_wf p q hp] at h1
  rw [covers_iff_wf q r hq] at h2
  rw [covers_iff_wf p r hp]
  obtain ⟨f1, l1, a1⟩ := h1
  obtain ⟨f2, l2, a2⟩ := h2
  refine ⟨f1.trans f2, Nat.le_trans l1 l2, ?_⟩
  rw [a1, a2, ← f1, truncTo_truncTo _ _ _ _ l1]

theorem covers_antisymm (p q : Prefix) (hp : p.WF) (hq : q.WF)
    (h1 : p.covers q = true) (h2 : q.covers p = true) : p = q := by
  rw [covers_iff_wf p q hp] at h1
  rw [covers_iff_wf q p hq] at h2
  obtain ⟨f1, l1, a1⟩ := h1
  obtain ⟨_, l2, _⟩ := h2
  have hl : p.len = q.len := Nat.le_antisymm l1 l2
  have ha : p.addr = q.addr := by
    rw [a1, f1, hl]; exact hq.2.2
  have e1 : p = ⟨p.fam, p.addr, p.len⟩ := rfl
  have e2 : q = ⟨q.fam, q.addr, q.len⟩ := rfl
  rw [e1, e2, f1, ha, hl]

theorem covers_fam {p q : Prefix} (h : p.covers q = true) : p.fam = q.fam :=
  ((covers_iff p q).mp h).1

theorem covers_len {p q : Prefix} (h : p.covers q = true) : p.len ≤ q.len :=
  ((covers_iff p q).mp h).2.1

/-! ### `covers` is inclusion of address ranges -/

private theorem pow_split (bits n : Nat) (h : n ≤ bits) : 2 ^ bits = 2 ^ n * 2 ^ (bits - n) := by
  rw [← Nat.pow_add]; congr 1; omega

/-- A well-formed prefix' largest address. -/
theorem hi_eq (p : Prefix) : p.hi = p.addr + (2 ^ (p.fam.bits - p.len) - 1) := rfl

/-- `x` lies in the block of `2^k` addresses starting at the multiple `a` of `2^k`
iff cutting `x` to that block gives `a`. -/
private theorem block_iff (k a x : Nat) (ha : a / 2 ^ k * 2 ^ k = a) :
    (a ≤ x ∧ x ≤ a + (2 ^ k - 1)) ↔ x / 2 ^ k * 2 ^ k = a := by
  have hpos : 0 < 2 ^ k := Nat.two_pow_pos k
  constructor
  · rintro ⟨h1, h2⟩
    have hx : x / 2 ^ k = a / 2 ^ k := by
      apply Nat.le_antisymm
      · -- x < a + 2^k = (a/2^k + 1) * 2^k
        have : x < (a / 2 ^ k + 1) * 2 ^ k := by
          rw [Nat.add_mul, ha, Nat.one_mul]; omega
        exact Nat.le_of_lt_succ ((Nat.div_lt_iff_lt_mul hpos).mpr this)
      · exact Nat.div_le_div_right h1
    rw [hx, ha]
  · intro h
    constructor
    · rw [← h]; exact Nat.div_mul_le_self x _
    · have := Nat.lt_div_mul_add (a := x) hpos  -- x < x / b * b + b
      rw [h] at this; omega

/-- For well-formed prefixes of one family, `covers` says exactly that the address range of
the covered prefix lies within the range of the covering one
(`matching_or_less_specific`, and what `contains_roa` tests). -/
theorem covers_iff_range (p q : Prefix) (hp : p.WF) (hq : q.WF) (hf : p.fam = q.fam) :
    p.covers q = true ↔ (p.lo ≤ q.lo ∧ q.hi ≤ p.hi) := by
  rw [covers_iff_wf p q hp]
  obtain ⟨hpl, _, hpa⟩ := hp
  obtain ⟨hql, _, hqa⟩ := hq
  unfold truncTo at hpa hqa
  unfold Prefix.lo Prefix.hi truncTo
  have hpos := Nat.two_pow_pos (p.fam.bits - p.len)
  constructor
  · rintro ⟨_, hl, ha⟩
    -- q.addr lies in p's block, and q's block is a sub-block
    have hin := (block_iff (p.fam.bits - p.len) p.addr q.addr hpa).mpr ha.symm
    refine ⟨hin.1, ?_⟩
    -- q.hi = q.addr + 2^(B-ql) - 1 ≤ p.addr + 2^(B-pl) - 1
    -- q.addr is a multiple of 2^(B-ql), which divides 2^(B-pl)
    rw [← hf]
    have hk : p.fam.bits - q.len ≤ p.fam.bits - p.len := Nat.sub_le_sub_left hl _
    obtain ⟨d, hd⟩ := Nat.exists_eq_add_of_le hk
    have hpow : 2 ^ (p.fam.bits - p.len) = 2 ^ (p.fam.bits - q.len) * 2 ^ d := by
      rw [hd, Nat.pow_add]
    -- write q.addr = p.addr + m * 2^(B-ql) with m < 2^d
    have hqa' : q.addr / 2 ^ (p.fam.bits - q.len) * 2 ^ (p.fam.bits - q.len) = q.addr := by
      rw [hf]; exact hqa
    have hposq := Nat.two_pow_pos (p.fam.bits - q.len)
    -- q.addr + 2^(B-ql) ≤ p.addr + 2^(B-pl): both sides multiples of 2^(B-ql)
    have hlt : q.addr < p.addr + 2 ^ (p.fam.bits - p.len) := by omega
    have hmul : p.addr + 2 ^ (p.fam.bits - p.len) =
        (p.addr / 2 ^ (p.fam.bits - q.len) + 2 ^ d) * 2 ^ (p.fam.bits - q.len) := by
      rw [Nat.add_mul]
      congr 1
      · -- p.addr is a multiple of 2^(B-pl) hence of 2^(B-ql)
        rw [← hpa, hpow]
        rw [← Nat.mul_assoc, Nat.mul_comm _ (2 ^ (p.fam.bits - q.len)), Nat.mul_assoc,
          Nat.mul_div_cancel_left _ hposq, Nat.mul_comm]
      · rw [hpow, Nat.mul_comm]
    have hq_div : q.addr / 2 ^ (p.fam.bits - q.len) <
        p.addr / 2 ^ (p.fam.bits - q.len) + 2 ^ d := by
      rw [Nat.div_lt_iff_lt_mul hposq, ← hmul]; exact hlt
    have : q.addr + 2 ^ (p.fam.bits - q.len) ≤ p.addr + 2 ^ (p.fam.bits - p.len) := by
      rw [hmul]
      calc q.addr + 2 ^ (p.fam.bits - q.len)
          = (q.addr / 2 ^ (p.fam.bits - q.len) + 1) * 2 ^ (p.fam.bits - q.len) := by
            rw [Nat.add_mul, hqa', Nat.one_mul]
        _ ≤ _ := Nat.mul_le_mul_right _ hq_div
    omega
  · rintro ⟨h1, h2⟩
    have hb : q.fam.bits = p.fam.bits := by rw [hf]
    rw [hb] at h2
    have hposq := Nat.two_pow_pos (p.fam.bits - q.len)
    refine ⟨hf, ?_, ?_⟩
    · -- a smaller range cannot have a smaller length
      apply Nat.le_of_not_gt
      intro hgt
      have hlt : 2 ^ (p.fam.bits - p.len) < 2 ^ (p.fam.bits - q.len) := by
        apply Nat.pow_lt_pow_right (by omega)
        omega
      generalize 2 ^ (p.fam.bits - p.len) = P at *
      generalize 2 ^ (p.fam.bits - q.len) = Q at *
      omega
    · refine ((block_iff (p.fam.bits - p.len) p.addr q.addr hpa).mp ⟨h1, ?_⟩).symm
      generalize 2 ^ (p.fam.bits - p.len) = P at *
      generalize 2 ^ (p.fam.bits - q.len) = Q at *
      omega

/-! ## The validation loop -/

theorem matches_iff (r : Roa) (a : Ann) :
    r.matches a = true ↔ r.asn = a.asn ∧ r.pfx.covers a.pfx = true ∧ a.pfx.len ≤ r.effMax := by
  unfold Roa.matches
  simp [Bool.and_eq_true, and_assoc]

/-- The loop returns at the first matching ROA; without one it has seen every ROA. -/
theorem validateLoop_eq (a : Ann) (l : List Roa) (same nonAs0 : Bool) (inv : List Roa) :
    validateLoop a l same nonAs0 inv =
      match l.find? (fun r => r.matches a) with
      | some r => .inl r
      | none => .inr (same || l.any (fun r => r.asn == a.asn),
                      nonAs0 || l.any (fun r => r.asn != 0), inv ++ l) := by
  induction l generalizing same nonAs0 inv with
  | nil => simp [validateLoop]
  | cons r rest ih =>
    unfold validateLoop
    by_cases hm : r.matches a = true
    · have hm' : (r.asn == a.asn && (r.pfx.covers a.pfx && decide (r.effMax ≥ a.pfx.len))) = true := by
        unfold Roa.matches at hm; rw [Bool.and_assoc] at hm; exact hm
      simp [hm', hm]
    · have hm' : (r.asn == a.asn && (r.pfx.covers a.pfx && decide (r.effMax ≥ a.pfx.len))) = false := by
        unfold Roa.matches at hm; rw [Bool.and_assoc] at hm; simpa using hm
      have hmf : r.matches a = false := by simpa using hm
      simp only [hm', Bool.false_eq_true, if_false, List.find?_cons, hmf]
      rw [ih]
      cases rest.find? (fun r => r.matches a) with
      | some r' => rfl
      | none => simp [List.any_cons, Bool.or_assoc, List.append_assoc]

theorem validate_ann (roas : List Roa) (a : Ann) : (validate roas a).ann = a := by
  unfold validate
  simp only
  split
  · rfl
  · unfold validateCovering
    split <;> rfl

theorem mem_covering {roas : List Roa} {p : Prefix} {r : Roa} :
    r ∈ covering roas p ↔ r ∈ roas ∧ r.pfx.covers p = true := by
  simp [covering]

/-- A matching ROA of the list is found among the covering ones. -/
theorem find_covering (roas : List Roa) (a : Ann) :
    ((covering roas a.pfx).find? (fun r => r.matches a)).isSome =
      roas.any (fun r => r.matches a) := by
  rw [Bool.eq_iff_iff]
  simp only [List.find?_isSome, List.any_eq_true, mem_covering]
  constructor
  · rintro ⟨r, ⟨hr, _⟩, hm⟩; exact ⟨r, hr, hm⟩
  · rintro ⟨r, hr, hm⟩; exact ⟨r, ⟨hr, ((matches_iff r a).mp hm).2.1⟩, hm⟩

theorem find_none_iff (roas : List Roa) (a : Ann) :
    (covering roas a.pfx).find? (fun r => r.matches a) = none ↔
      ∀ r ∈ roas, r.matches a = false := by
  have h := find_covering roas a
  constructor
  · intro hn r hr
    rw [hn] at h
    have : roas.any (fun r => r.matches a) = false := by rw [← h]; rfl
    rw [List.any_eq_false] at this
    simpa using this r hr
  · intro hall
    have : roas.any (fun r => r.matches a) = false := by
      rw [List.any_eq_false]; intro r hr; simp [hall r hr]
    rw [this] at h
    cases hf : (covering roas a.pfx).find? (fun r => r.matches a) with
    | none => rfl
    | some r => rw [hf] at h; cases h


/-- The verdict of `validate` in closed form. -/
theorem validate_validity (roas : List Roa) (a : Ann) :
    (validate roas a).validity =
      match (covering roas a.pfx).find? (fun r => r.matches a) with
      | some r => .valid r
      | none =>
        if (covering roas a.pfx).isEmpty then .notFound
        else if (covering roas a.pfx).any (fun r => r.asn == a.asn) then .invalidLength
        else if (covering roas a.pfx).any (fun r => r.asn != 0) then .invalidAsn
        else .disallowed := by
  unfold validate
  simp only
  by_cases he : (covering roas a.pfx).isEmpty = true
  · have : covering roas a.pfx = [] := List.isEmpty_iff.mp he
    simp [this]
  · simp only [he, Bool.false_eq_true, if_false]
    unfold validateCovering
    rw [validateLoop_eq]
    cases (covering roas a.pfx).find? (fun r => r.matches a) with
    | some r => rfl
    | none => simp

/-- The `disallowing` list: empty when valid or not found, all covering ROAs otherwise. -/
theorem validate_disallowing (roas : List Roa) (a : Ann) :
    (validate roas a).disallowing =
      match (covering roas a.pfx).find? (fun r => r.matches a) with
      | some _ => []
      | none => covering roas a.pfx := by
  unfold validate
  simp only
  by_cases he : (covering roas a.pfx).isEmpty = true
  · have : covering roas a.pfx = [] := List.isEmpty_iff.mp he
    simp [this]
  · simp only [he, Bool.false_eq_true, if_false]
    unfold validateCovering
    rw [validateLoop_eq]
    cases (covering roas a.pfx).find? (fun r => r.matches a) with
    | some r => rfl
    | none => simp

theorem isValid_iff (roas : List Roa) (a : Ann) :
    (validate roas a).validity.isValid = true ↔ ∃ r ∈ roas, r.matches a = true := by
  rw [validate_validity]
  have hf := find_covering roas a
  cases h : (covering roas a.pfx).find? (fun r => r.matches a) with
  | some r =>
    rw [h] at hf
    simp only [Validity.isValid, true_iff]
    have : roas.any (fun r => r.matches a) = true := by rw [← hf]; rfl
    simpa [List.any_eq_true] using this
  | none =>
    rw [h] at hf
    have hn : roas.any (fun r => r.matches a) = false := by rw [← hf]; rfl
    have hne : ¬ ∃ r ∈ roas, r.matches a = true := by
      intro ⟨r, hr, hm⟩
      have : roas.any (fun r => r.matches a) = true := List.any_eq_true.mpr ⟨r, hr, hm⟩
      rw [hn] at this; cases this
    simp only [hne, iff_false]
    split <;> (try split) <;> (try split) <;> simp [Validity.isValid]

/-! ## Textbook vs. code notions -/

theorem covered_iff (vrp : Roa) (route : Ann) (hwf : vrp.pfx.WF) :
    Spec.Covered vrp route ↔ vrp.pfx.covers route.pfx = true := by
  rw [covers_iff_wf _ _ hwf]
  unfold Spec.Covered
  rw [hwf.2.2]

theorem matched_iff (vrp : Roa) (route : Ann) (hwf : vrp.pfx.WF) :
    Spec.Matched vrp route ↔ vrp.matches route = true := by
  unfold Spec.Matched
  rw [covered_iff vrp route hwf, matches_iff]
  constructor
  · rintro ⟨h1, h2, h3⟩; exact ⟨h3.symm, h1, h2⟩
  · rintro ⟨h1, h2, h3⟩; exact ⟨h2, h3, h1.symm⟩

/-! ## Per-ROA sets -/

theorem mem_coveredBy {roa : Roa} {validated : List Validated} {v : Validated} :
    v ∈ coveredBy roa validated ↔ v ∈ validated ∧ roa.pfx.covers v.ann.pfx = true := by
  simp [coveredBy]

theorem mem_authorizesOf (roa : Roa) (roas : List Roa) (anns : List Ann) (a : Ann)
    (hmem : roa ∈ roas) :
    a ∈ authorizesOf roa (anns.map (validate roas)) ↔ a ∈ anns ∧ roa.matches a = true := by
  unfold authorizesOf
  simp only [List.mem_map, List.mem_filter, mem_coveredBy, Bool.and_eq_true, decide_eq_true_eq,
    beq_iff_eq]
  constructor
  · rintro ⟨v, ⟨⟨⟨a', ha', rfl⟩, hc⟩, ⟨_, hl⟩, hasn⟩, rfl⟩
    rw [validate_ann] at *
    exact ⟨ha', (matches_iff roa a').mpr ⟨hasn.symm, hc, hl⟩⟩
  · rintro ⟨ha, hm⟩
    obtain ⟨hasn, hc, hl⟩ := (matches_iff roa a).mp hm
    refine ⟨validate roas a, ⟨⟨⟨a, ha, rfl⟩, by rw [validate_ann]; exact hc⟩, ⟨?_, by rw [validate_ann]; exact hl⟩,
      by rw [validate_ann]; exact hasn.symm⟩, validate_ann roas a⟩
    exact (isValid_iff roas a).mpr ⟨roa, hmem, hm⟩

theorem mem_disallowsOf (roa : Roa) (roas : List Roa) (anns : List Ann) (a : Ann) :
    a ∈ disallowsOf roa (anns.map (validate roas)) ↔
      a ∈ anns ∧ roa.pfx.covers a.pfx = true ∧
        ((validate roas a).validity = .invalidLength ∨ (validate roas a).validity = .invalidAsn) := by
  unfold disallowsOf
  simp only [List.mem_map, List.mem_filter, mem_coveredBy, Bool.or_eq_true, beq_iff_eq]
  constructor
  · rintro ⟨v, ⟨⟨⟨a', ha', rfl⟩, hc⟩, hv⟩, rfl⟩
    rw [validate_ann] at *
    exact ⟨ha', hc, hv⟩
  · rintro ⟨ha, hc, hv⟩
    exact ⟨validate roas a, ⟨⟨⟨a, ha, rfl⟩, by rw [validate_ann]; exact hc⟩, hv⟩, validate_ann roas a⟩

/-! ## `analyse` and `suggest` -/

theorem allSome_eq_some {α} {l : List (Option α)} {ys : List α} (h : allSome l = some ys) :
    l = ys.map some := by
  induction l generalizing ys with
  | nil => simp [allSome] at h; subst h; rfl
  | cons x rest ih =>
    cases x with
    | none => simp [allSome] at h
    | some v =>
      simp only [allSome, Option.map_eq_some_iff] at h
      obtain ⟨zs, hz, rfl⟩ := h
      rw [ih hz]; rfl

/-- What `categoriseRoa` tells about its entry. -/
theorem categorise_facts (rc : RoaConf) (validated : List Validated) (all : List RoaConf) (e : Entry)
    (h : categoriseRoa rc validated all = some e) :
    e.subject = .inl rc ∧
    (e.state = .roaUnseen → rc.payload.asn ≠ 0 ∧ authorizesOf rc.payload validated = []) ∧
    (e.state = .roaRedundant → rc.payload.asn ≠ 0 ∧ othersIncluding rc.payload all ≠ []) ∧
    (e.state = .roaAs0Redundant → rc.payload.asn = 0) ∧
    (e.state = .roaTooPermissive → rc.payload.asn ≠ 0) ∧
    (e.authorizes = [] ∨ (rc.payload.asn ≠ 0 ∧ e.authorizes = authorizesOf rc.payload validated)) := by
  unfold categoriseRoa at h
  simp only at h
  split at h
  · cases h
  · simp only [Option.some.injEq] at h
    by_cases h0 : (rc.payload.asn == 0) = true
    · have hz : rc.payload.asn = 0 := by simpa using h0
      rw [h0] at h
      simp only [if_true] at h
      split at h <;> subst h <;> simp [hz]
    · have h0' : (rc.payload.asn == 0) = false := by simpa using h0
      have hz : rc.payload.asn ≠ 0 := by simpa using h0
      rw [h0'] at h
      simp only [Bool.false_eq_true, if_false] at h
      split at h
      · rename_i hoi
        subst h
        have : othersIncluding rc.payload all ≠ [] := by
          intro hc; rw [hc] at hoi; simp at hoi
        simp [hz, this]
      · split at h
        · rename_i hempty
          subst h
          simp only [Bool.and_eq_true, List.isEmpty_iff] at hempty
          simp [hz, hempty.1]
        · split at h
          · subst h; simp [hz]
          · split at h
            · subst h; simp
            · subst h; simp [hz]

/-- A field of the suggestion that every step only appends to is the concatenation of the
steps' contributions. -/
theorem fold_field {β} (g : Suggestion → List β) (c : Entry → List β) (E : List Entry)
    (hstep : ∀ s e, g (suggestStep E s e) = g s ++ c e) (entries : List Entry) (s0 : Suggestion) :
    g (entries.foldl (suggestStep E) s0) = g s0 ++ entries.flatMap c := by
  induction entries generalizing s0 with
  | nil => simp
  | cons e rest ih => rw [List.foldl_cons, ih, hstep, List.flatMap_cons, List.append_assoc]

def staleOf (e : Entry) : List RoaConf :=
  match e.subject, e.state with
  | .inl rc, .roaUnseen => [rc]
  | _, _ => []

def redundantOf (e : Entry) : List RoaConf :=
  match e.subject, e.state with
  | .inl rc, .roaRedundant => [rc]
  | _, _ => []

def as0RedundantOf (e : Entry) : List RoaConf :=
  match e.subject, e.state with
  | .inl rc, .roaAs0Redundant => [rc]
  | _, _ => []

def tooPermissiveOf (E : List Entry) (e : Entry) : List Replacement :=
  match e.subject, e.state with
  | .inl rc, .roaTooPermissive => [⟨rc, replaceWith E e⟩]
  | _, _ => []

theorem step_stale (E : List Entry) (s : Suggestion) (e : Entry) :
    (suggestStep E s e).stale = s.stale ++ staleOf e := by
  unfold suggestStep staleOf
  rcases e with ⟨subj, st, _, _, _, _, _⟩
  cases subj <;> cases st <;> simp

theorem step_redundant (E : List Entry) (s : Suggestion) (e : Entry) :
    (suggestStep E s e).redundant = s.redundant ++ redundantOf e := by
  unfold suggestStep redundantOf
  rcases e with ⟨subj, st, _, _, _, _, _⟩
  cases subj <;> cases st <;> simp

theorem step_as0Redundant (E : List Entry) (s : Suggestion) (e : Entry) :
    (suggestStep E s e).as0Redundant = s.as0Redundant ++ as0RedundantOf e := by
  unfold suggestStep as0RedundantOf
  rcases e with ⟨subj, st, _, _, _, _, _⟩
  cases subj <;> cases st <;> simp

theorem step_tooPermissive (E : List Entry) (s : Suggestion) (e : Entry) :
    (suggestStep E s e).tooPermissive = s.tooPermissive ++ tooPermissiveOf E e := by
  unfold suggestStep tooPermissiveOf
  rcases e with ⟨subj, st, _, _, _, _, _⟩
  cases subj <;> cases st <;> simp

theorem mem_suggest_stale (entries : List Entry) (rc : RoaConf) :
    rc ∈ (suggestOf entries).stale ↔ ∃ e ∈ entries, e.subject = .inl rc ∧ e.state = .roaUnseen := by
  unfold suggestOf
  rw [fold_field (·.stale) staleOf entries (step_stale entries)]
  simp only [List.nil_append, List.mem_flatMap]
  constructor
  · rintro ⟨e, he, hm⟩
    refine ⟨e, he, ?_⟩
    unfold staleOf at hm
    split at hm
    · rename_i rc' h1 h2; simp at hm; subst hm; exact ⟨h1, h2⟩
    · simp at hm
  · rintro ⟨e, he, h1, h2⟩
    exact ⟨e, he, by unfold staleOf; rw [h1, h2]; simp⟩

theorem mem_suggest_redundant (entries : List Entry) (rc : RoaConf) :
    rc ∈ (suggestOf entries).redundant ↔
      ∃ e ∈ entries, e.subject = .inl rc ∧ e.state = .roaRedundant := by
  unfold suggestOf
  rw [fold_field (·.redundant) redundantOf entries (step_redundant entries)]
  simp only [List.nil_append, List.mem_flatMap]
  constructor
  · rintro ⟨e, he, hm⟩
    refine ⟨e, he, ?_⟩
    unfold redundantOf at hm
    split at hm
    · rename_i rc' h1 h2; simp at hm; subst hm; exact ⟨h1, h2⟩
    · simp at hm
  · rintro ⟨e, he, h1, h2⟩
    exact ⟨e, he, by unfold redundantOf; rw [h1, h2]; simp⟩

theorem mem_suggest_as0Redundant (entries : List Entry) (rc : RoaConf) :
    rc ∈ (suggestOf entries).as0Redundant ↔
      ∃ e ∈ entries, e.subject = .inl rc ∧ e.state = .roaAs0Redundant := by
  unfold suggestOf
  rw [fold_field (·.as0Redundant) as0RedundantOf entries (step_as0Redundant entries)]
  simp only [List.nil_append, List.mem_flatMap]
  constructor
  · rintro ⟨e, he, hm⟩
    refine ⟨e, he, ?_⟩
    unfold as0RedundantOf at hm
    split at hm
    · rename_i rc' h1 h2; simp at hm; subst hm; exact ⟨h1, h2⟩
    · simp at hm
  · rintro ⟨e, he, h1, h2⟩
    exact ⟨e, he, by unfold as0RedundantOf; rw [h1, h2]; simp⟩

theorem mem_suggest_tooPermissive (entries : List Entry) (rep : Replacement) :
    rep ∈ (suggestOf entries).tooPermissive ↔
      ∃ e ∈ entries, e.subject = .inl rep.current ∧ e.state = .roaTooPermissive ∧
        rep.new_ = replaceWith entries e := by
  unfold suggestOf
  rw [fold_field (·.tooPermissive) (tooPermissiveOf entries) entries (step_tooPermissive entries)]
  simp only [List.nil_append, List.mem_flatMap]
  constructor
  · rintro ⟨e, he, hm⟩
    refine ⟨e, he, ?_⟩
    unfold tooPermissiveOf at hm
    split at hm
    · rename_i rc' h1 h2; simp at hm; subst hm; exact ⟨h1, h2, rfl⟩
    · simp at hm
  · rintro ⟨e, he, h1, h2, h3⟩
    refine ⟨e, he, ?_⟩
    unfold tooPermissiveOf
    rw [h1, h2]
    simp only [List.mem_singleton]
    cases rep; simp_all

/-- Injectivity on a list whose images are pairwise distinct. -/
theorem eq_of_nodup_map {α β} (f : α → β) (l : List α) (h : (l.map f).Nodup) (a b : α)
    (ha : a ∈ l) (hb : b ∈ l) (hf : f a = f b) : a = b := by
  induction l with
  | nil => cases ha
  | cons x rest ih =>
    simp only [List.map_cons, List.nodup_cons, List.mem_map, not_exists, not_and] at h
    rcases List.mem_cons.mp ha with rfl | ha'
    · rcases List.mem_cons.mp hb with rfl | hb'
      · rfl
      · exact absurd hf.symm (h.1 b hb')
    · rcases List.mem_cons.mp hb with rfl | hb'
      · exact absurd hf (h.1 a ha')
      · exact ih h.2 ha' hb'

theorem toEntry_subject (v : Validated) : v.toEntry.subject = .inr v.ann := by
  unfold Validated.toEntry; split <;> rfl

theorem toEntry_authorizes (v : Validated) : v.toEntry.authorizes = [] := by
  unfold Validated.toEntry; split <;> rfl

/-- The shape of a report when announcement data is loaded. -/
theorem analyse_shape (i : AnalyseInput) (s : List Ann) (entries : List Entry)
    (hseen : i.seen = some s) (h : analyse i = some entries) :
    ∃ roaEntries,
      allSome (i.roasHeld.map (fun r => categoriseRoa r i.validated i.roasHeld)) = some roaEntries ∧
      entries = i.roasNotHeld.map (fun r => ({ subject := .inl r, state := .roaNotHeld } : Entry)) ++
        roaEntries ++ i.validated.map (·.toEntry) := by
  unfold analyse at h
  rw [hseen] at h
  simp only at h
  split at h
  · cases h
  · rename_i roaEntries hre
    simp only [Option.some.injEq] at h
    exact ⟨roaEntries, hre, h.symm⟩

/-- An entry of the report about a ROA, other than "not held", is the categorisation of a
held ROA. -/
theorem roa_entry_origin (i : AnalyseInput) (s : List Ann) (entries : List Entry)
    (hseen : i.seen = some s) (h : analyse i = some entries) (e : Entry) (he : e ∈ entries)
    (hne : e.state ≠ .roaNotHeld ∨ e.authorizes ≠ []) (hsub : ∃ rc, e.subject = .inl rc) :
    ∃ rc ∈ i.roasHeld, categoriseRoa rc i.validated i.roasHeld = some e := by
  obtain ⟨roaEntries, hre, rfl⟩ := analyse_shape i s entries hseen h
  simp only [List.mem_append, List.mem_map] at he
  rcases he with (⟨r, _, rfl⟩ | he) | ⟨v, _, rfl⟩
  · rcases hne with hne | hne <;> exact absurd rfl hne
  · have := allSome_eq_some hre
    have hm : some e ∈ roaEntries.map some := List.mem_map.mpr ⟨e, he, rfl⟩
    rw [← this] at hm
    obtain ⟨rc, hrc, heq⟩ := List.mem_map.mp hm
    exact ⟨rc, hrc, heq⟩
  · obtain ⟨rc, hrc⟩ := hsub
    rw [toEntry_subject] at hrc; cases hrc


theorem filterMap_of_subject_inl (es : List Entry) (l : List RoaConf)
    (h : es.map (·.subject) = l.map Sum.inl) :
    es.filterMap (·.roaConf?) = l ∧ es.filterMap (·.ann?) = [] := by
  induction es generalizing l with
  | nil => cases l <;> simp_all
  | cons e es ih =>
    cases l with
    | nil => simp at h
    | cons r rest =>
      simp only [List.map_cons, List.cons.injEq] at h
      obtain ⟨i1, i2⟩ := ih rest h.2
      constructor
      · rw [List.filterMap_cons]
        have : e.roaConf? = some r := by unfold Entry.roaConf?; rw [h.1]
        rw [this, i1]
      · rw [List.filterMap_cons]
        have : e.ann? = none := by unfold Entry.ann?; rw [h.1]
        rw [this, i2]

theorem filterMap_of_subject_inr (es : List Entry) (l : List Ann)
    (h : es.map (·.subject) = l.map Sum.inr) :
    es.filterMap (·.ann?) = l ∧ es.filterMap (·.roaConf?) = [] := by
  induction es generalizing l with
  | nil => cases l <;> simp_all
  | cons e es ih =>
    cases l with
    | nil => simp at h
    | cons r rest =>
      simp only [List.map_cons, List.cons.injEq] at h
      obtain ⟨i1, i2⟩ := ih rest h.2
      constructor
      · rw [List.filterMap_cons]
        have : e.ann? = some r := by unfold Entry.ann?; rw [h.1]
        rw [this, i1]
      · rw [List.filterMap_cons]
        have : e.roaConf? = none := by unfold Entry.roaConf?; rw [h.1]
        rw [this, i2]

theorem subjects_of_map_some {α} (f : α → Option Entry) (g : α → Sum RoaConf Ann)
    (hf : ∀ x e, f x = some e → e.subject = g x) (l : List α) (es : List Entry)
    (h : l.map f = es.map some) : es.map (·.subject) = l.map g := by
  induction l generalizing es with
  | nil => cases es <;> simp_all
  | cons x rest ih =>
    cases es with
    | nil => simp at h
    | cons e es' =>
      simp only [List.map_cons, List.cons.injEq] at h ⊢
      exact ⟨hf x e h.1, ih es' h.2⟩

end KM.Bgp
