/-
Model of route origin validation in `src/server/bgp/analyser.rs`
(`ValidatedRouteOrigin::validate_set` / `::validate`, lines 527-603) and the textbook
definition of RFC 6811 (`Spec.rfc6811`) it is compared with in `Props/C17.lean`.

Import-free so that the driver can be compiled as a `lean_exe`.
-/
import KrillModel.Bgp.Prefix
namespace KM.Bgp

/-- `api::roa::RoaPayload`: origin AS, prefix, optional maximum length. -/
structure Roa where
  asn    : Nat
  pfx    : Prefix
  maxLen : Option Nat
deriving DecidableEq, Repr, Inhabited

/-- `RoaPayload::effective_max_length` -/
def Roa.effMax (r : Roa) : Nat := r.maxLen.getD r.pfx.len

/-- `api::bgp::Announcement` (`RouteOrigin<P>` in riswhois.rs). -/
structure Ann where
  asn : Nat
  pfx : Prefix
deriving DecidableEq, Repr, Inhabited

/-- `RouteOriginValidity` -/
inductive Validity where
  | valid (by_ : Roa)
  | invalidLength
  | invalidAsn
  | disallowed
  | notFound
deriving DecidableEq, Repr, Inhabited

/-- A validated route origin: the verdict and the ROAs that "contributed to invalidating"
it (`disallowing`). -/
structure Validated where
  ann         : Ann
  validity    : Validity
  disallowing : List Roa
deriving DecidableEq, Repr, Inhabited

/-- The ROA authorises the announcement: covers it, same origin, maximum length suffices.
(This is the test in the loop of `validate`, analyser.rs:570-573.) -/
def Roa.matches (r : Roa) (a : Ann) : Bool :=
  r.asn == a.asn && r.pfx.covers a.pfx && decide (r.effMax ≥ a.pfx.len)

/-- The loop of `validate` (analyser.rs:566-588): walks the covering ROAs in order, returns
at the first ROA that matches, otherwise accumulates the two flags and the `invalidating`
list.  Result `inl r`: returned early with `Valid(r)`; `inr (same, nonAs0, inv)`: loop
finished. -/
def validateLoop (a : Ann) : List Roa → Bool → Bool → List Roa → Sum Roa (Bool × Bool × List Roa)
  | [], same, nonAs0, inv => .inr (same, nonAs0, inv)
  | r :: rest, same, nonAs0, inv =>
    if r.asn == a.asn && (r.pfx.covers a.pfx && decide (r.effMax ≥ a.pfx.len)) then .inl r
    else
      let same' := same || r.asn == a.asn
      let nonAs0' := nonAs0 || r.asn != 0
      validateLoop a rest same' nonAs0' (inv ++ [r])

/-- `ValidatedRouteOrigin::validate(origin, covering)` -/
def validateCovering (a : Ann) (covering : List Roa) : Validated :=
  match validateLoop a covering false false [] with
  | .inl r => ⟨a, .valid r, []⟩
  | .inr (same, nonAs0, inv) =>
    ⟨a, if same then .invalidLength else if nonAs0 then .invalidAsn else .disallowed, inv⟩

/-- The covering filter of `validate_set` (analyser.rs:538-540). -/
def covering (roas : List Roa) (p : Prefix) : List Roa :=
  roas.filter (fun r => r.pfx.covers p)

/-- Validation of one announcement against the ROA list, as `validate_set` does it for
every member of a route origin set (all members share the prefix). -/
def validate (roas : List Roa) (a : Ann) : Validated :=
  let cov := covering roas a.pfx
  if cov.isEmpty then ⟨a, .notFound, []⟩ else validateCovering a cov

/-! ## RFC 6811, section 2 -/
namespace Spec

/-- The three validation states of RFC 6811. -/
inductive State where
  | valid
  | invalid
  | notFound
deriving DecidableEq, Repr, Inhabited

/-- "Covered: A Route Prefix is said to be Covered by a VRP when the VRP prefix length is
less than or equal to the Route prefix length, and the VRP prefix address and the Route
prefix address are identical for all bits specified by the VRP prefix length." -/
def Covered (vrp : Roa) (route : Ann) : Prop :=
  vrp.pfx.fam = route.pfx.fam ∧ vrp.pfx.len ≤ route.pfx.len ∧
    truncTo vrp.pfx.fam.bits vrp.pfx.len vrp.pfx.addr =
      truncTo vrp.pfx.fam.bits vrp.pfx.len route.pfx.addr

/-- "Matched: A Route Prefix is said to be Matched by a VRP when the Route Prefix is Covered
by that VRP, the Route prefix length is less than or equal to the VRP maximum length, and
the Route Origin ASN is equal to the VRP ASN." -/
def Matched (vrp : Roa) (route : Ann) : Prop :=
  Covered vrp route ∧ route.pfx.len ≤ vrp.effMax ∧ route.asn = vrp.asn

instance (v : Roa) (r : Ann) : Decidable (Covered v r) := by unfold Covered; exact inferInstance
instance (v : Roa) (r : Ann) : Decidable (Matched v r) := by unfold Matched; exact inferInstance

/-- "NotFound: No VRP Covers the Route Prefix.  Valid: At least one VRP Matches the Route
Prefix.  Invalid: At least one VRP Covers the Route Prefix, but no VRP Matches it." -/
def rfc6811 (vrps : List Roa) (route : Ann) : State :=
  if vrps.any (fun v => decide (Matched v route)) then .valid
  else if vrps.any (fun v => decide (Covered v route)) then .invalid
  else .notFound

end Spec

/-- The RFC 6811 state a krill verdict stands for. -/
def Validity.toState : Validity → Spec.State
  | .valid _ => .valid
  | .invalidLength => .invalid
  | .invalidAsn => .invalid
  | .disallowed => .invalid
  | .notFound => .notFound

end KM.Bgp
