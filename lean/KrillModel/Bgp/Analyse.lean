/-
Model of `BgpAnalyser::analyse`, `::categorise_roa` and `::suggest`
(`src/server/bgp/analyser.rs`) and of the report types of `src/api/bgp.rs`.

What is abstracted:
* The RISwhois prefix tree (`riswhois.rs`) is a plain list of announcements; the tree walk
  `eq_or_more_specific(p)` is the list filter `p.covers ·`.  The correspondence run ties the
  tree to this specification.
* Resource sets enter as two predicates on ROA payloads (`held`, `limit` – the results of
  `ResourceSet::contains_roa_address`) and the list of scope prefixes
  (`get_prefixes_from_scope`).  The driver computes them from the block lists the harness
  prints (see `Drivers/Pure.lean`), including rpki-rs's family-blind comparison.
* Entry order.  `BgpAnalysisReport::new` sorts; both sides are compared as multisets.

`categoriseRoa` returns an `Option`: `none` is the arithmetic panic of
`nr_of_specific_prefixes` (see `Input/Checked.lean`).

Import-free so that the driver can be compiled as a `lean_exe`.
-/
import KrillModel.Bgp.Validate
import KrillModel.Input.Checked
namespace KM.Bgp
open KM.Input

/-- `api::roa::RoaConfiguration` (payload and comment). -/
structure RoaConf where
  payload : Roa
  comment : Option String
deriving DecidableEq, Repr, Inhabited

/-- `BgpAnalysisState` -/
inductive RState where
  | roaSeen | roaRedundant | roaUnseen | roaDisallowing | roaTooPermissive | roaAs0
  | roaAs0Redundant | roaNotHeld
  | annValid | annInvalidLength | annInvalidAsn | annDisallowed | annNotFound
  | roaNoAnnouncementInfo
deriving DecidableEq, Repr, Inhabited

/-- `BgpAnalysisEntry` -/
structure Entry where
  subject         : Sum RoaConf Ann
  state           : RState
  allowedBy       : Option Roa := none
  disallowedBy    : List Roa := []
  madeRedundantBy : List Roa := []
  authorizes      : List Ann := []
  disallows       : List Ann := []
deriving DecidableEq, Repr

instance : Inhabited Entry := ⟨{ subject := .inr default, state := .annNotFound }⟩

def Validity.isValid : Validity → Bool
  | .valid _ => true
  | _ => false

/-- `ValidatedRouteOrigin::into_analysis_entry` -/
def Validated.toEntry (v : Validated) : Entry :=
  match v.validity with
  | .valid r => { subject := .inr v.ann, state := .annValid, allowedBy := some r }
  | .disallowed => { subject := .inr v.ann, state := .annDisallowed, disallowedBy := v.disallowing }
  | .invalidLength => { subject := .inr v.ann, state := .annInvalidLength, disallowedBy := v.disallowing }
  | .invalidAsn => { subject := .inr v.ann, state := .annInvalidAsn, disallowedBy := v.disallowing }
  | .notFound => { subject := .inr v.ann, state := .annNotFound }

/-- The announcements among `validated` that the ROA's prefix covers. -/
def coveredBy (roa : Roa) (validated : List Validated) : List Validated :=
  validated.filter (fun v => roa.pfx.covers v.ann.pfx)

/-- `other_roas_covering_this_prefix` (analyser.rs:371-373) -/
def othersCovering (roa : Roa) (all : List RoaConf) : List Roa :=
  (all.filter (fun o => o.payload.pfx.covers roa.pfx && roa != o.payload)).map (·.payload)

/-- `other_roas_including_this_definition` (analyser.rs:377-382) -/
def othersIncluding (roa : Roa) (all : List RoaConf) : List Roa :=
  (othersCovering roa all).filter (fun o =>
    o.asn == roa.asn && decide (o.pfx.len ≤ roa.pfx.len) && decide (o.effMax ≥ roa.effMax))

/-- `authorizes` (analyser.rs:388-393) -/
def authorizesOf (roa : Roa) (validated : List Validated) : List Ann :=
  ((coveredBy roa validated).filter (fun v =>
    v.validity.isValid && decide (v.ann.pfx.len ≤ roa.effMax) && v.ann.asn == roa.asn)).map (·.ann)

/-- `disallows` (analyser.rs:396-402) -/
def disallowsOf (roa : Roa) (validated : List Validated) : List Ann :=
  ((coveredBy roa validated).filter (fun v =>
    v.validity == .invalidLength || v.validity == .invalidAsn)).map (·.ann)

/-- `BgpAnalyser::categorise_roa`.  `none` = panic in `nr_of_specific_prefixes`. -/
def categoriseRoa (rc : RoaConf) (validated : List Validated) (all : List RoaConf) : Option Entry :=
  let roa := rc.payload
  let covered := coveredBy roa validated
  let oc := othersCovering roa all
  let oi := othersIncluding roa all
  let authorizes := authorizesOf roa validated
  let disallows := disallowsOf roa validated
  -- `authorizes_excess` is computed before the case distinction
  match authorizesExcess roa (authorizes.filter (fun a => a.pfx.len == roa.effMax)).length with
  | none => none
  | some excess =>
    some <|
    if roa.asn == 0 then
      if oc.isEmpty then
        { subject := .inl rc, state := .roaAs0, disallows := covered.map (·.ann) }
      else
        { subject := .inl rc, state := .roaAs0Redundant, madeRedundantBy := oc }
    else if !oi.isEmpty then
      { subject := .inl rc, state := .roaRedundant, authorizes := authorizes,
        disallows := disallows, madeRedundantBy := oi }
    else if authorizes.isEmpty && disallows.isEmpty then
      { subject := .inl rc, state := .roaUnseen }
    else if excess then
      { subject := .inl rc, state := .roaTooPermissive, authorizes := authorizes,
        disallows := disallows }
    else if authorizes.isEmpty then
      { subject := .inl rc, state := .roaDisallowing, disallows := disallows }
    else
      { subject := .inl rc, state := .roaSeen, authorizes := authorizes, disallows := disallows }

/-- What `analyse` is given. -/
structure AnalyseInput where
  roas  : List RoaConf
  /-- `resources_held.contains_roa_address` -/
  held  : Roa → Bool
  /-- `limited_scope.contains_roa_address`, if a limit was given -/
  limit : Option (Roa → Bool)
  /-- prefixes of `limited_scope` if given, else of `resources_held` -/
  scope : List Prefix
  /-- the RISwhois data, if loaded -/
  seen  : Option (List Ann)

/-- ROAs within the limit (analyser.rs:131-138). -/
def AnalyseInput.inLimit (i : AnalyseInput) : List RoaConf :=
  match i.limit with
  | none => i.roas
  | some l => i.roas.filter (fun r => l r.payload)

def AnalyseInput.roasHeld (i : AnalyseInput) : List RoaConf :=
  i.inLimit.filter (fun r => i.held r.payload)

def AnalyseInput.roasNotHeld (i : AnalyseInput) : List RoaConf :=
  i.inLimit.filter (fun r => !(i.held r.payload))

/-- The announcements the tree walk yields: for every scope prefix its equal or more
specific announcements. -/
def AnalyseInput.scoped (i : AnalyseInput) : List Ann :=
  match i.seen with
  | none => []
  | some seen => i.scope.flatMap (fun sp => seen.filter (fun a => sp.covers a.pfx))

/-- All scoped announcements validated against the held ROAs (`v4_validated` followed by
`v6_validated`; `covers` is family-aware so no split is needed). -/
def AnalyseInput.validated (i : AnalyseInput) : List Validated :=
  i.scoped.map (validate (i.roasHeld.map (·.payload)))

/-- All results, unless one of them is the panic. -/
def allSome {α} : List (Option α) → Option (List α)
  | [] => some []
  | none :: _ => none
  | some x :: rest => (allSome rest).map (x :: ·)

/-- `BgpAnalyser::analyse`; `none` = panic. -/
def analyse (i : AnalyseInput) : Option (List Entry) :=
  let notHeld : List Entry := i.roasNotHeld.map (fun r => { subject := .inl r, state := .roaNotHeld })
  match i.seen with
  | none =>
    some (notHeld ++ i.roasHeld.map (fun r => { subject := .inl r, state := .roaNoAnnouncementInfo }))
  | some _ =>
    let validated := i.validated
    match allSome (i.roasHeld.map (fun r => categoriseRoa r validated i.roasHeld)) with
    | none => none
    | some roaEntries => some (notHeld ++ roaEntries ++ validated.map (·.toEntry))

/-- `ReplacementRoaSuggestion` -/
structure Replacement where
  current : RoaConf
  new_    : List Roa
deriving DecidableEq, Repr, Inhabited

/-- `BgpAnalysisSuggestion` -/
structure Suggestion where
  stale           : List RoaConf := []
  notFound        : List Ann := []
  invalidAsn      : List Ann := []
  invalidLength   : List Ann := []
  tooPermissive   : List Replacement := []
  disallowing     : List RoaConf := []
  redundant       : List RoaConf := []
  notHeld         : List RoaConf := []
  as0Redundant    : List RoaConf := []
  keep            : List RoaConf := []
  keepDisallowing : List Ann := []
deriving DecidableEq, Repr, Inhabited

def Entry.roaConf? (e : Entry) : Option RoaConf :=
  match e.subject with
  | .inl r => some r
  | .inr _ => none

def Entry.ann? (e : Entry) : Option Ann :=
  match e.subject with
  | .inl _ => none
  | .inr a => some a

/-- `From<Announcement> for RoaPayload` -/
def Ann.toRoa (a : Ann) : Roa := ⟨a.asn, a.pfx, none⟩

/-- The replacement list for a too permissive ROA (analyser.rs:244-254). -/
def replaceWith (entries : List Entry) (e : Entry) : List Roa :=
  (e.authorizes.filter (fun a =>
    !(entries.any (fun o => o != e && o.authorizes.contains a)))).map Ann.toRoa

/-- One step of the loop in `suggest`. -/
def suggestStep (entries : List Entry) (s : Suggestion) (e : Entry) : Suggestion :=
  match e.subject with
  | .inl rc =>
    match e.state with
    | .roaUnseen => { s with stale := s.stale ++ [rc] }
    | .roaTooPermissive => { s with tooPermissive := s.tooPermissive ++ [⟨rc, replaceWith entries e⟩] }
    | .roaSeen | .roaAs0 | .roaNoAnnouncementInfo => { s with keep := s.keep ++ [rc] }
    | .roaDisallowing => { s with disallowing := s.disallowing ++ [rc] }
    | .roaRedundant => { s with redundant := s.redundant ++ [rc] }
    | .roaNotHeld => { s with notHeld := s.notHeld ++ [rc] }
    | .roaAs0Redundant => { s with as0Redundant := s.as0Redundant ++ [rc] }
    | _ => s
  | .inr a =>
    match e.state with
    | .annNotFound => { s with notFound := s.notFound ++ [a] }
    | .annInvalidAsn => { s with invalidAsn := s.invalidAsn ++ [a] }
    | .annInvalidLength => { s with invalidLength := s.invalidLength ++ [a] }
    | .annDisallowed => { s with keepDisallowing := s.keepDisallowing ++ [a] }
    | _ => s

/-- `BgpAnalyser::suggest` on the entries of a report. -/
def suggestOf (entries : List Entry) : Suggestion :=
  entries.foldl (suggestStep entries) {}

/-- `BgpAnalyser::suggest`; `none` = panic. -/
def suggest (i : AnalyseInput) : Option Suggestion := (analyse i).map suggestOf

/-- `From<BgpAnalysisSuggestion> for RoaConfigurationUpdates` (api/roa.rs:554-591):
`(added, removed)`. -/
def Suggestion.toUpdates (s : Suggestion) : List RoaConf × List Roa :=
  let added : List RoaConf :=
    (s.notFound ++ s.invalidAsn ++ s.invalidLength).map (fun a => ⟨a.toRoa, none⟩) ++
    s.tooPermissive.flatMap (fun r => r.new_.map (fun p => (⟨p, none⟩ : RoaConf)))
  let removed : List Roa :=
    s.stale.map (·.payload) ++ s.tooPermissive.map (·.current.payload) ++
    s.as0Redundant.map (·.payload) ++ s.redundant.map (·.payload)
  (added, removed)

end KM.Bgp
