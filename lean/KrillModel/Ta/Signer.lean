/-
Model of the trust anchor signer: `src/tasigner/signer.rs` (`process_signer_request`, `apply`)
and `TrustAnchorObjects::{add_issued, revoke_issued, republish}` (`src/api/ta.rs:127-245`).
Import-free (only the proxy model for the shared message types).
-/
import KrillModel.Ta.Proxy
namespace KM.Ta

/-- `TrustAnchorSigner` (signer.rs:59). `nextSerial` stands for the random serial numbers. -/
structure Signer where
  idKey      : Key
  /-- `proxy_id`: the ID of the associated proxy, fixed at initialisation -/
  proxyKey   : Key
  taKey      : Key
  objects    : Objects
  /-- the exchanges done so far: (request content, response content) -/
  exchanges  : List (ReqBody × RespBody) := []
  nextSerial : Nat := 1
  deriving DecidableEq, Repr

inductive SErr
  | invalidSignature | overrideTooLow | badClass | limitExceeds | badCsr | unknownKey
  deriving DecidableEq, Repr

/-- `TrustAnchorObjects::add_issued`: the new certificate replaces and revokes the previous one
of the same key. -/
def Objects.addIssued (o : Objects) (k : Key) (serial : Nat) : Objects :=
  match aget o.issued k with
  | some old => { o with issued := aput o.issued k serial, revoked := old :: o.revoked }
  | none => { o with issued := aput o.issued k serial }

/-- `TrustAnchorObjects::revoke_issued`. -/
def Objects.revokeIssued (o : Objects) (k : Key) : Option Objects :=
  match aget o.issued k with
  | some old => some { o with issued := adel o.issued k, revoked := old :: o.revoked }
  | none => none

/-- `ObjectSetRevision::next` through `TrustAnchorObjects::republish` (api/ta.rs:127-160,
publishing.rs:1462): the next number, or whatever the operator forces. -/
def Objects.republish (o : Objects) (override : Option Nat) : Objects :=
  { o with number := override.getD (o.number + 1) }

structure Acc where
  objects : Objects
  serial  : Nat
  out     : List (CK × Resp) := []

/-- One child request inside a signer request (signer.rs:392-481). -/
def signOne (resources : List (Child × List Nat)) (a : Acc) (e : CK × Req) : Except SErr Acc :=
  match e.2.kind with
  | .issue =>
    if e.2.cls ≠ 0 then .error .badClass
    else if !(subset e.2.limit ((aget resources e.1.1).getD [])) then .error .limitExceeds
    else if !e.2.csrOk then .error .badCsr
    else .ok { objects := a.objects.addIssued e.1.2 a.serial, serial := a.serial + 1,
               out := a.out ++ [(e.1, .issued a.serial)] }
  | .revoke =>
    if e.2.cls ≠ 0 then .error .badClass
    else match a.objects.revokeIssued e.1.2 with
      | none => .error .unknownKey
      | some o => .ok { a with objects := o, out := a.out ++ [(e.1, .revoked)] }

def signAll (resources : List (Child × List Nat)) : Acc → List (CK × Req) → Except SErr Acc
  | a, [] => .ok a
  | a, e :: t => match signOne resources a e with
    | .ok a' => signAll resources a' t
    | .error x => .error x

/-- `process_signer_request` (signer.rs:368-514) followed by `apply` of the
`ProxySignerExchangeDone` event: validate against the associated proxy's ID, work through every
child request (any failure aborts the whole request), republish, sign the response with the
signer's own ID key.  The nonce is copied, not checked: the signer keeps no record of nonces.
A forced manifest number is refused unless it exceeds the current number. -/
def processSignerRequest (s : Signer) (m : Signed ReqBody) (override : Option Nat) :
    Except SErr (Signer × Signed RespBody) :=
  if !(m.validFor s.proxyKey) then .error .invalidSignature else
  -- a forced number must exceed the current one (fix 109701d8; the pinned tree took it as is)
  if !(override.all fun v => decide (s.objects.number < v)) then .error .overrideTooLow else
  match signAll m.clear.resources { objects := s.objects, serial := s.nextSerial } m.clear.entries with
  | .error e => .error e
  | .ok a =>
    let objects := a.objects.republish override
    let rb : RespBody := { nonce := m.clear.nonce, objects := objects, entries := a.out }
    .ok ({ s with objects := objects, exchanges := s.exchanges ++ [(m.clear, rb)],
                  nextSerial := a.serial },
         { signer := s.idKey, body := rb, clear := rb, fresh := true })

/-- State after a command, refused commands change nothing. -/
def Signer.exec (s : Signer) (m : Signed ReqBody) (override : Option Nat) :
    Signer × Except SErr (Signed RespBody) :=
  match processSignerRequest s m override with
  | .ok (s', r) => (s', .ok r)
  | .error e => (s, .error e)

/-- `process_init_command` (signer.rs:103-132): a fresh ID key, the given proxy ID, a TA key
(new or imported), objects starting at the given number (default 1). -/
def Signer.init (idKey proxyKey taKey : Key) (initialNumber : Option Nat) : Signer :=
  { idKey, proxyKey, taKey, objects := { number := initialNumber.getD 1 } }

/-- `get_signer_info` (signer.rs:212). -/
def Signer.info (s : Signer) : SignerInfo :=
  { idKey := s.idKey, taKey := s.taKey, objects := s.objects }

end KM.Ta
