/-
Manifest/CRL numbers of the trust anchor over runs of the system (helper lemmas; the property
statements are in `Props/C15.lean`).
-/
import KrillModel.Ta.Invariant
namespace KM.Ta

/-- Standing assumption on histories: the first association of the proxy with a signer
(`addSigner`, possible once per proxy) happens while no signer request is open, as in every
documented set-up.  Nothing else is assumed about a history. -/
def regular (s : Sys) : Op → Bool
  | .addSigner _ => s.proxy.openNonce.isNone
  | _ => true

/-- The recorded exception F-C15-2, as a guard on single steps: the proxy is re-associated
(`UpdateSigner`) with a signer whose manifest number is behind the one the proxy publishes – a
signer initialised again with the same TA key and a too low initial number. -/
def lowReassociation (s : Sys) : Op → Bool
  | .updateSigner id =>
    match s.proxy.number, aget s.signers id with
    | some a, some t => decide (t.objects.number < a)
    | _, _ => false
  | _ => false

/-- Regular and not the recorded exception.  (A forced manifest number that does not exceed the
signer's current one and a signer update while a request is open are refused by the code since
109701d8 / 764cd480, so they need no exclusion.) -/
def benign (s : Sys) (o : Op) : Bool := regular s o && !lowReassociation s o

theorem benign_regular (s : Sys) (o : Op) (h : benign s o = true) : regular s o = true := by
  simp only [benign, Bool.and_eq_true] at h; exact h.1

theorem benign_update (s : Sys) (id : Key) (a : Nat) (t : Signer)
    (h : benign s (.updateSigner id) = true) (h1 : s.proxy.number = some a)
    (h2 : aget s.signers id = some t) : a ≤ t.objects.number := by
  simp only [benign, regular, lowReassociation, h1, h2, Bool.true_and, Bool.not_eq_true',
    decide_eq_false_iff_not, Nat.not_lt] at h
  exact h

def numLe : Option Nat → Option Nat → Bool
  | none, _ => true
  | some a, some b => decide (a ≤ b)
  | some _, none => false

def numLt : Option Nat → Option Nat → Bool
  | some a, some b => decide (a < b)
  | _, _ => false

structure NumInv (s : Sys) : Prop where
  respLe : ∀ id t, aget s.signers id = some t → ∀ rb, (id, rb) ∈ s.resps →
      rb.objects.number ≤ t.objects.number
  proxyLe : ∀ i, s.proxy.signer = some i → ∀ t, aget s.signers i.idKey = some t →
      i.objects.number ≤ t.objects.number
  openGt : ∀ n i, s.proxy.openNonce = some n → s.proxy.signer = some i →
      ∀ rb, (i.idKey, rb) ∈ s.resps → rb.nonce = n → i.objects.number < rb.objects.number
  respNonces : ∀ id rb, (id, rb) ∈ s.resps → rb.nonce ∈ s.nonces

theorem numInv_init (k : Key) : NumInv (Sys.init k) := by
  refine ⟨?_, ?_, ?_, ?_⟩
  · intro id t h; simp [Sys.init, aget] at h
  · intro i h; simp [Sys.init, Proxy.init] at h
  · intro n i h; simp [Sys.init, Proxy.init] at h
  · intro id rb h; simp [Sys.init] at h

/-- Commands that leave the association and the open nonce alone. -/
theorem numInv_frame (s : Sys) (p' : Proxy) (hs : p'.signer = s.proxy.signer)
    (hn : p'.openNonce = s.proxy.openNonce) (h : NumInv s) :
    NumInv { s with proxy := p' } := by
  refine ⟨h.respLe, ?_, ?_, h.respNonces⟩
  · intro i hi; rw [hs] at hi; exact h.proxyLe i hi
  · intro n i hn' hi; rw [hn] at hn'; rw [hs] at hi; exact h.openGt n i hn' hi

theorem taSlow_frame (p : Proxy) (c : Child) (r : Req) :
    (taSlowRequest p c r).1.signer = p.signer ∧ (taSlowRequest p c r).1.openNonce = p.openNonce := by
  have hc := taSlow_cases p c r
  generalize taSlowRequest p c r = out at hc
  cases hc <;> exact ⟨rfl, rfl⟩

theorem exec_addChild_frame (p : Proxy) (c : Child) (res : List Nat) :
    (exec p (.addChild c res)).1.signer = p.signer ∧
    (exec p (.addChild c res)).1.openNonce = p.openNonce := by
  cases hp : process p (.addChild c res) with
  | error e => rw [exec_error _ _ _ hp]; exact ⟨rfl, rfl⟩
  | ok evs =>
    rw [exec_ok _ _ _ hp]
    simp only [process] at hp
    split at hp
    · cases hp
    · cases hp; exact ⟨rfl, rfl⟩

theorem numInv_step (s : Sys) (o : Op) (hi : Inv s) (h : NumInv s)
    (ha : admissible s o = true) (hb : regular s o = true) : NumInv (step s o) := by
  cases o with
  | addChild c res =>
    simp only [step]
    obtain ⟨a, b⟩ := exec_addChild_frame s.proxy c res
    exact numInv_frame s _ a b h
  | childRequest c r =>
    simp only [step]
    obtain ⟨a, b⟩ := taSlow_frame s.proxy c r
    have := numInv_frame s _ a b h
    exact ⟨this.respLe, this.proxyLe, this.openGt, this.respNonces⟩
  | makeRequest n =>
    simp only [step]
    have hfresh : n ∉ s.nonces := by simpa [admissible] using ha
    cases hp : process s.proxy (.makeSignerRequest n) with
    | error e =>
      rw [exec_error _ _ _ hp]
      exact ⟨h.respLe, h.proxyLe, h.openGt,
        fun id rb hrb => List.mem_cons_of_mem _ (h.respNonces id rb hrb)⟩
    | ok evs =>
      rw [exec_ok _ _ _ hp]
      have hev : evs = [.signerRequestMade n] := by
        simp only [process] at hp
        split at hp
        · cases hp
        · cases hp; rfl
      subst hev
      simp only [applyAll, List.foldl, apply]
      refine ⟨h.respLe, h.proxyLe, ?_,
        fun id rb hrb => List.mem_cons_of_mem _ (h.respNonces id rb hrb)⟩
      intro n' i hn' hsig rb hrb hnn
      simp only [Option.some.injEq] at hn'
      subst hn'
      exact absurd (hnn ▸ h.respNonces _ rb hrb) hfresh
  | getRequest =>
    simp only [step]
    cases hg : getSignerRequest s.proxy with
    | error e => exact h
    | ok m => exact ⟨h.respLe, h.proxyLe, h.openGt, h.respNonces⟩
  | signerInit id pk tk num =>
    simp only [step]
    have hnew : ahas s.signers id = false := by
      simp only [admissible, Bool.and_eq_true, Bool.not_eq_true'] at ha; exact ha.1
    refine ⟨?_, ?_, h.openGt, h.respNonces⟩
    · intro id' t ht rb hrb
      rw [aget_aput] at ht
      by_cases hid : id = id'
      · subst hid
        have := hi.respKeys id rb hrb
        rw [hnew] at this; cases this
      · simp only [hid, if_false] at ht
        exact h.respLe id' t ht rb hrb
    · intro i hsig t ht
      rw [aget_aput] at ht
      by_cases hid : id = i.idKey
      · obtain ⟨t0, ht0, _⟩ := hi.assoc i hsig
        have : ahas s.signers id = true := by rw [hid]; simp [ahas, ht0]
        rw [hnew] at this; cases this
      · simp only [hid, if_false] at ht
        exact h.proxyLe i hsig t ht
  | addSigner id =>
    simp only [step]
    cases ht : aget s.signers id with
    | none => exact h
    | some t =>
      simp only
      have hopen : s.proxy.openNonce = none := by
        simpa [regular] using hb
      cases hp : process s.proxy (.addSigner t.info) with
      | error e => rw [exec_error _ _ _ hp]; exact h
      | ok evs =>
        rw [exec_ok _ _ _ hp]
        have hev : evs = [.signerAdded t.info] := by
          simp only [process] at hp
          split at hp
          · cases hp
          · cases hp; rfl
        subst hev
        simp only [applyAll, List.foldl, apply]
        refine ⟨h.respLe, ?_, ?_, h.respNonces⟩
        · intro i hsig t' ht'
          simp only [Option.some.injEq] at hsig
          subst hsig
          have hid := hi.signerIds id t ht
          simp only [Signer.info] at ht' ⊢
          rw [hid, ht] at ht'
          simp only [Option.some.injEq] at ht'
          subst ht'; exact Nat.le_refl _
        · intro n i hn; rw [hopen] at hn; cases hn
  | updateSigner id =>
    simp only [step]
    cases ht : aget s.signers id with
    | none => exact h
    | some t =>
      simp only
      cases hp : process s.proxy (.updateSigner t.info) with
      | error e => rw [exec_error _ _ _ hp]; exact h
      | ok evs =>
        rw [exec_ok _ _ _ hp]
        have hopen : s.proxy.openNonce = none := by
          simp only [process] at hp
          split at hp
          · cases hp
          · rename_i hno; simpa using hno
        have hev : evs = [.signerUpdated t.info] := by
          simp only [process] at hp
          split at hp
          · cases hp
          · split at hp
            · split at hp
              · cases hp; rfl
              · cases hp
            · cases hp
        subst hev
        simp only [applyAll, List.foldl, apply]
        refine ⟨h.respLe, ?_, ?_, h.respNonces⟩
        · intro i hsig t' ht'
          simp only [Option.some.injEq] at hsig
          subst hsig
          have hid := hi.signerIds id t ht
          simp only [Signer.info] at ht' ⊢
          rw [hid, ht] at ht'
          simp only [Option.some.injEq] at ht'
          subst ht'; exact Nat.le_refl _
        · intro n i hn; rw [hopen] at hn; cases hn
  | sign id m ovr =>
    simp only [step]
    cases ht : aget s.signers id with
    | none => exact h
    | some t =>
      simp only
      cases hp : processSignerRequest t m ovr with
      | error e => exact h
      | ok out =>
        obtain ⟨t', r⟩ := out
        simp only
        obtain ⟨_, _, _, _, hnonce, _, _, _, _, hobj, _, hgt⟩ :=
          processSignerRequest_ok t t' m ovr r hp
        refine ⟨?_, ?_, ?_, ?_⟩
        · intro id' t'' ht'' rb hrb
          rw [aget_aput] at ht''
          by_cases hidd : id = id'
          · subst hidd
            simp only [if_true, Option.some.injEq] at ht''
            subst ht''
            rw [hobj]
            rcases List.mem_cons.mp hrb with heq | hold
            · simp only [Prod.mk.injEq, true_and] at heq
              subst heq; exact Nat.le_refl _
            · exact Nat.le_trans (h.respLe id t ht rb hold) (Nat.le_of_lt hgt)
          · simp only [hidd, if_false] at ht''
            rcases List.mem_cons.mp hrb with heq | hold
            · simp only [Prod.mk.injEq] at heq
              exact absurd heq.1.symm hidd
            · exact h.respLe id' t'' ht'' rb hold
        · intro i hsig t'' ht''
          rw [aget_aput] at ht''
          by_cases hidd : id = i.idKey
          · simp only [hidd, if_true, Option.some.injEq] at ht''
            subst ht''
            rw [hobj]
            have := h.proxyLe i hsig t (hidd ▸ ht)
            exact Nat.le_trans this (Nat.le_of_lt hgt)
          · simp only [hidd, if_false] at ht''
            exact h.proxyLe i hsig t'' ht''
        · intro n i hn hsig rb hrb hrn
          rcases List.mem_cons.mp hrb with heq | hold
          · simp only [Prod.mk.injEq] at heq
            obtain ⟨e1, e2⟩ := heq
            subst e2
            have := h.proxyLe i hsig t (e1 ▸ ht)
            exact Nat.lt_of_le_of_lt this hgt
          · exact h.openGt n i hn hsig rb hold hrn
        · intro id' rb hrb
          rcases List.mem_cons.mp hrb with heq | hold
          · simp only [Prod.mk.injEq] at heq
            rw [heq.2, hnonce]; exact List.mem_cons_self
          · exact List.mem_cons_of_mem _ (h.respNonces id' rb hold)
  | respond m =>
    simp only [step]
    cases hp : process s.proxy (.processSignerResponse m) with
    | error e => exact h
    | ok evs =>
      simp only
      obtain ⟨n, i, hn, hmn, hsig, hv, hev⟩ := processSignerResponse_ok _ _ _ hp
      subst hev
      obtain ⟨hms, _, hbc⟩ := (validFor_iff m i.idKey).mp hv
      obtain ⟨t, ht, _⟩ := hi.assoc i hsig
      have hres : (i.idKey, m.clear) ∈ s.resps := by
        simp only [admissible, Bool.or_eq_true, Bool.not_eq_true', List.contains_iff_mem] at ha
        rcases ha with ha | ha
        · rw [hms] at ha; simp [ahas, ht] at ha
        · rw [hms, hbc] at ha; exact ha
      obtain ⟨m1, m2, m3, m4⟩ := fold_misc m.clear.entries s.proxy
      simp only [applyAll, List.foldl, apply]
      refine ⟨h.respLe, ?_, ?_, h.respNonces⟩
      · intro i' hi' t' ht'
        simp only [m2, hsig, Option.map_some, Option.some.injEq] at hi'
        subst hi'
        simp only at ht' ⊢
        exact h.respLe i.idKey t' ht' m.clear hres
      · intro n' i' hn'; simp at hn'

/-- The published number after one step. -/
theorem number_step (s : Sys) (o : Op) (hi : Inv s) (h : NumInv s)
    (ha : admissible s o = true) (hb : benign s o = true) :
    numLe s.proxy.number (step s o).proxy.number = true := by
  have refl : ∀ x : Option Nat, numLe x x = true := by
    intro x; cases x <;> simp [numLe]
  cases o with
  | addChild c res =>
    simp only [step, Proxy.number, (exec_addChild_frame s.proxy c res).1]; exact refl _
  | childRequest c r =>
    simp only [step, Proxy.number, (taSlow_frame s.proxy c r).1]; exact refl _
  | makeRequest n =>
    simp only [step]
    cases hp : process s.proxy (.makeSignerRequest n) with
    | error e => rw [exec_error _ _ _ hp]; exact refl _
    | ok evs =>
      rw [exec_ok _ _ _ hp]
      simp only [process] at hp
      split at hp
      · cases hp
      · cases hp; exact refl _
  | getRequest =>
    simp only [step]
    cases getSignerRequest s.proxy <;> exact refl _
  | signerInit id pk tk num => exact refl _
  | addSigner id =>
    simp only [step]
    cases ht : aget s.signers id with
    | none => exact refl _
    | some t =>
      simp only
      cases hp : process s.proxy (.addSigner t.info) with
      | error e => rw [exec_error _ _ _ hp]; exact refl _
      | ok evs =>
        rw [exec_ok _ _ _ hp]
        simp only [process] at hp
        split at hp
        · cases hp
        · rename_i hnone
          cases hp
          have : s.proxy.signer = none := by simpa using hnone
          simp [Proxy.number, this, numLe]
  | updateSigner id =>
    simp only [step]
    cases ht : aget s.signers id with
    | none => exact refl _
    | some t =>
      simp only
      cases hp : process s.proxy (.updateSigner t.info) with
      | error e => rw [exec_error _ _ _ hp]; exact refl _
      | ok evs =>
        rw [exec_ok _ _ _ hp]
        simp only [process] at hp
        split at hp
        · cases hp
        · split at hp
          · rename_i s0 hs0
            split at hp
            · cases hp
              have hle := benign_update s id s0.objects.number t hb (by simp [Proxy.number, hs0]) ht
              simp [applyAll, apply, Proxy.number, hs0, numLe, Signer.info, hle]
            · cases hp
          · cases hp
  | sign id m ovr =>
    simp only [step]
    cases aget s.signers id with
    | none => exact refl _
    | some t =>
      simp only
      cases processSignerRequest t m ovr with
      | error e => exact refl _
      | ok out => exact refl _
  | respond m =>
    simp only [step]
    cases hp : process s.proxy (.processSignerResponse m) with
    | error e => exact refl _
    | ok evs =>
      simp only
      obtain ⟨n, i, hn, hmn, hsig, hv, hev⟩ := processSignerResponse_ok _ _ _ hp
      subst hev
      obtain ⟨hms, _, hbc⟩ := (validFor_iff m i.idKey).mp hv
      obtain ⟨t, ht, _⟩ := hi.assoc i hsig
      have hres : (i.idKey, m.clear) ∈ s.resps := by
        simp only [admissible, Bool.or_eq_true, Bool.not_eq_true', List.contains_iff_mem] at ha
        rcases ha with ha | ha
        · rw [hms] at ha; simp [ahas, ht] at ha
        · rw [hms, hbc] at ha; exact ha
      have := h.openGt n i hn hsig m.clear hres hmn
      obtain ⟨m1, m2, m3, m4⟩ := fold_misc m.clear.entries s.proxy
      simp only [applyAll, List.foldl, apply, Proxy.number, m2, hsig, Option.map_some, numLe,
        decide_eq_true_eq]
      exact Nat.le_of_lt this

/-- An accepted response strictly raises the published number. -/
theorem number_accept (s : Sys) (m : Signed RespBody) (evs : List Ev) (hi : Inv s) (h : NumInv s)
    (ha : admissible s (.respond m) = true)
    (hp : process s.proxy (.processSignerResponse m) = .ok evs) :
    numLt s.proxy.number (step s (.respond m)).proxy.number = true := by
  simp only [step, hp]
  obtain ⟨n, i, hn, hmn, hsig, hv, hev⟩ := processSignerResponse_ok _ _ _ hp
  subst hev
  obtain ⟨hms, _, hbc⟩ := (validFor_iff m i.idKey).mp hv
  obtain ⟨t, ht, _⟩ := hi.assoc i hsig
  have hres : (i.idKey, m.clear) ∈ s.resps := by
    simp only [admissible, Bool.or_eq_true, Bool.not_eq_true', List.contains_iff_mem] at ha
    rcases ha with ha | ha
    · rw [hms] at ha; simp [ahas, ht] at ha
    · rw [hms, hbc] at ha; exact ha
  have := h.openGt n i hn hsig m.clear hres hmn
  obtain ⟨m1, m2, m3, m4⟩ := fold_misc m.clear.entries s.proxy
  simp only [applyAll, List.foldl, apply, Proxy.number, m2, hsig, Option.map_some, numLt,
    decide_eq_true_eq]
  exact this

/-- One step of a regular history: the published number does not decrease, or the step is the
recorded exception. -/
theorem number_step_or (s : Sys) (o : Op) (hi : Inv s) (h : NumInv s)
    (ha : admissible s o = true) (hr : regular s o = true) :
    numLe s.proxy.number (step s o).proxy.number = true ∨ lowReassociation s o = true := by
  cases hl : lowReassociation s o with
  | true => exact Or.inr rfl
  | false =>
    left
    apply number_step s o hi h ha
    simp [benign, hr, hl]

/-- The exception really is one: an accepted re-association with a signer that is behind lowers
the published number strictly. -/
theorem low_reassociation_decreases (s : Sys) (id : Key) (t : Signer) (evs : List Ev)
    (ht : aget s.signers id = some t) (hl : lowReassociation s (.updateSigner id) = true)
    (hp : process s.proxy (.updateSigner t.info) = .ok evs) :
    numLt (step s (.updateSigner id)).proxy.number s.proxy.number = true := by
  simp only [step, ht]
  rw [exec_ok _ _ _ hp]
  simp only [process] at hp
  split at hp
  · cases hp
  · split at hp
    · rename_i s0 hs0
      split at hp
      · cases hp
        simp only [lowReassociation, Proxy.number, hs0, Option.map_some, ht, decide_eq_true_eq] at hl
        simp [applyAll, apply, Proxy.number, hs0, numLt, Signer.info, hl]
      · cases hp
    · cases hp

theorem inv_runWith' (ok : Sys → Op → Bool) (s s' : Sys) (ops : List Op) (hi : Inv s)
    (hr : runWith ok s ops = some s') : Inv s' := by
  induction ops generalizing s with
  | nil => simp only [runWith, Option.some.injEq] at hr; subst hr; exact hi
  | cons o t ih =>
    simp only [runWith] at hr
    split at hr
    · rename_i hab
      simp only [Bool.and_eq_true] at hab
      exact ih (step s o) (inv_step s o hi hab.1) hr
    · cases hr

theorem numInv_regular (s s' : Sys) (ops : List Op) (hi : Inv s) (hn : NumInv s)
    (hr : runWith regular s ops = some s') : NumInv s' := by
  induction ops generalizing s with
  | nil => simp only [runWith, Option.some.injEq] at hr; subst hr; exact hn
  | cons o t ih =>
    simp only [runWith] at hr
    split at hr
    · rename_i hab
      simp only [Bool.and_eq_true] at hab
      exact ih (step s o) (inv_step s o hi hab.1) (numInv_step s o hi hn hab.1 hab.2) hr
    · cases hr

end KM.Ta
