/-
Model of the trust anchor proxy: `src/server/taproxy.rs` (aggregate, commands, events) and the
message types of `src/api/ta.rs`.  Import-free.

Abstractions
* keys, nonces, serial numbers are names (`Nat`); randomness (`Nonce::new()`) is an input;
* a signed message is `Signed α`: the key whose signature the CMS blob carries, the content inside
  the blob, the clear-text copy krill stores next to it and whether the blob's EE certificate is
  within its validity at validation time (`TrustAnchorSignedMessage::validate` + the clear-text
  comparison of `TrustAnchorSignedRequest/Response::validate`);
* `child_details : HashMap<ChildHandle, TrustAnchorChild>` with its three inner hash maps is kept
  as maps keyed by `(child, key)` plus the map of known children – the same partial function;
* resources are lists of atoms; a request limit `[]` means "no limit".
-/
namespace KM.Ta

abbrev Key := Nat
abbrev Nonce := Nat
abbrev Child := String
abbrev CK := Child × Key

instance (priority := low) instDecEqExcept {ε α} [DecidableEq ε] [DecidableEq α] :
    DecidableEq (Except ε α)
  | .ok a, .ok b => if h : a = b then isTrue (by rw [h]) else isFalse (by intro e; cases e; exact h rfl)
  | .error a, .error b =>
    if h : a = b then isTrue (by rw [h]) else isFalse (by intro e; cases e; exact h rfl)
  | .ok _, .error _ => isFalse (by intro e; cases e)
  | .error _, .ok _ => isFalse (by intro e; cases e)

/-! ### association lists -/

def aget {κ β} [DecidableEq κ] : List (κ × β) → κ → Option β
  | [], _ => none
  | (k', v) :: t, k => if k' = k then some v else aget t k

def adel {κ β} [DecidableEq κ] (l : List (κ × β)) (k : κ) : List (κ × β) :=
  l.filter (fun p => !(decide (p.1 = k)))

def aput {κ β} [DecidableEq κ] (l : List (κ × β)) (k : κ) (v : β) : List (κ × β) :=
  (k, v) :: adel l k

def ahas {κ β} [DecidableEq κ] (l : List (κ × β)) (k : κ) : Bool := (aget l k).isSome

def subset (a b : List Nat) : Bool := a.all fun x => b.contains x

/-! ### messages -/

inductive ReqKind | issue | revoke
  deriving DecidableEq, Repr

/-- `ProvisioningRequest` (api/ta.rs:854): an RFC 6492 issuance or revocation request. -/
structure Req where
  kind  : ReqKind
  key   : Key
  /-- resource class name; `0` is the TA's only class (`ta_resource_class_name()`) -/
  cls   : Nat := 0
  limit : List Nat := []
  csrOk : Bool := true
  /-- identity of the remaining CSR content (`CsrInfo`) -/
  tag   : Nat := 0
  deriving DecidableEq, Repr

/-- `ProvisioningResponse` (api/ta.rs:903). -/
inductive Resp
  | issued (serial : Nat)
  | revoked
  | error
  deriving DecidableEq, Repr

/-- `ProvisioningRequest::matches_response` (api/ta.rs:869). -/
def Req.matchesResponse (r : Req) (x : Resp) : Bool :=
  match r.kind, x with
  | .issue, .revoked => false
  | .revoke, .issued _ => false
  | _, _ => true

inductive Used | inUse | revoked
  deriving DecidableEq, Repr

/-- `TrustAnchorObjects` (api/ta.rs:56): revision number of manifest and CRL, the issued
certificates by key, the revoked serials. -/
structure Objects where
  number  : Nat
  issued  : List (Key × Nat) := []
  revoked : List Nat := []
  deriving DecidableEq, Repr

/-- `TrustAnchorSignerInfo` (api/ta.rs:350). -/
structure SignerInfo where
  idKey   : Key
  taKey   : Key
  objects : Objects
  deriving DecidableEq, Repr

/-- `TrustAnchorSignerRequest` (api/ta.rs:635). -/
structure ReqBody where
  nonce     : Nonce
  /-- `child_requests[*].requests`, flattened -/
  entries   : List (CK × Req) := []
  /-- `child_requests[*].resources` -/
  resources : List (Child × List Nat) := []
  deriving DecidableEq, Repr

/-- `TrustAnchorSignerResponse` (api/ta.rs:757). -/
structure RespBody where
  nonce   : Nonce
  objects : Objects
  /-- `child_responses`, flattened -/
  entries : List (CK × Resp) := []
  deriving DecidableEq, Repr

structure Signed (α : Type) where
  /-- key that made the signature on the CMS blob -/
  signer : Key
  /-- content inside the blob -/
  body   : α
  /-- clear-text copy next to the blob -/
  clear  : α
  /-- the blob's EE certificate is valid now -/
  fresh  : Bool := true
  deriving DecidableEq, Repr

/-- `TrustAnchorSignedRequest::validate` / `TrustAnchorSignedResponse::validate`
(api/ta.rs:590, 716): signature under the issuer's key, validity, clear text = signed text. -/
def Signed.validFor {α} [DecidableEq α] (m : Signed α) (k : Key) : Bool :=
  m.signer == k && m.fresh && decide (m.body = m.clear)

/-! ### the aggregate -/

/-- `TrustAnchorProxy` (taproxy.rs:74). -/
structure Proxy where
  idKey    : Key
  signer   : Option SignerInfo := none
  repo     : Bool := false
  /-- known children with their entitlement -/
  children : List (Child × List Nat) := []
  used     : List (CK × Used) := []
  openReq  : List (CK × Req) := []
  openResp : List (CK × Resp) := []
  /-- `open_signer_request` (taproxy.rs:108) -/
  openNonce : Option Nonce := none
  deriving DecidableEq, Repr

def Proxy.known (p : Proxy) (c : Child) : Bool := ahas p.children c

/-- `TrustAnchorProxyCommandDetails` (taproxy.rs:1066). -/
inductive Cmd
  | addRepository
  | addSigner (i : SignerInfo)
  | updateSigner (i : SignerInfo)
  | makeSignerRequest (fresh : Nonce)
  | processSignerResponse (m : Signed RespBody)
  | addChild (c : Child) (res : List Nat)
  | addChildRequest (c : Child) (r : Req)
  | giveChildResponse (c : Child) (k : Key)
  deriving Repr

/-- `TrustAnchorProxyEvent` (taproxy.rs:863). -/
inductive Ev
  | repositoryAdded
  | signerAdded (i : SignerInfo)
  | signerUpdated (i : SignerInfo)
  | signerRequestMade (n : Nonce)
  | signerResponseReceived (b : RespBody)
  | childAdded (c : Child) (res : List Nat)
  | childRequestAdded (c : Child) (r : Req)
  | childResponseGiven (c : Child) (k : Key)
  deriving DecidableEq, Repr

inductive Err
  | hasRepository | hasSigner | differentSigner
  | hasRequest | hasNoRequest | nonceMismatch | invalidSignature | noSigner
  | childDuplicate | childUnknown
  | badClass | limitExceeds | badCsr | unknownKey
  | noResponse | responseMismatch
  deriving DecidableEq, Repr

/-- `process_signer_response` (taproxy.rs:382-425): open request, nonce (of the clear text),
signer present, signature. -/
def processSignerResponse (p : Proxy) (m : Signed RespBody) : Except Err (List Ev) :=
  match p.openNonce with
  | none => .error .hasNoRequest
  | some n =>
    if m.clear.nonce ≠ n then .error .nonceMismatch
    else match p.signer with
      | none => .error .noSigner
      | some s =>
        if m.validFor s.idKey then .ok [.signerResponseReceived m.clear]
        else .error .invalidSignature

/-- `process_add_child_request` (taproxy.rs:446-500). Does *not* look at `open_signer_request`. -/
def processAddChildRequest (p : Proxy) (c : Child) (r : Req) : Except Err (List Ev) :=
  match aget p.children c with
  | none => .error .childUnknown
  | some res =>
    match r.kind with
    | .issue =>
      if r.cls ≠ 0 then .error .badClass
      else if !(subset r.limit res) then .error .limitExceeds
      else if !r.csrOk then .error .badCsr
      else .ok [.childRequestAdded c r]
    | .revoke =>
      if r.cls ≠ 0 then .error .badClass
      else if !(ahas p.used (c, r.key)) then .error .unknownKey
      else .ok [.childRequestAdded c r]

/-- `process_command` (taproxy.rs:243-304). -/
def process (p : Proxy) : Cmd → Except Err (List Ev)
  | .addRepository => if p.repo then .error .hasRepository else .ok [.repositoryAdded]
  | .addSigner i => if p.signer.isSome then .error .hasSigner else .ok [.signerAdded i]
  | .updateSigner i =>
    -- refused while a signer request is open (fix 764cd480; the pinned tree had no such test)
    if p.openNonce.isSome then .error .hasRequest else
    match p.signer with
    | some s => if s.taKey = i.taKey then .ok [.signerUpdated i] else .error .differentSigner
    | none => .error .differentSigner
  | .makeSignerRequest n =>
    if p.openNonce.isSome then .error .hasRequest else .ok [.signerRequestMade n]
  | .processSignerResponse m => processSignerResponse p m
  | .addChild c res =>
    if p.known c then .error .childDuplicate else .ok [.childAdded c res]
  | .addChildRequest c r => processAddChildRequest p c r
  | .giveChildResponse c k =>
    if !(p.known c) then .error .childUnknown
    else if ahas p.openResp (c, k) then .ok [.childResponseGiven c k]
    else .error .noResponse

/-- One entry of an accepted response (taproxy.rs:185-209); entries of unknown children are
skipped. -/
def applyEntry (p : Proxy) (e : CK × Resp) : Proxy :=
  if p.known e.1.1 then
    { p with
      used := match e.2 with
        | .issued _ => aput p.used e.1 .inUse
        | .revoked => aput p.used e.1 .revoked
        | .error => p.used
      openReq := adel p.openReq e.1
      openResp := aput p.openResp e.1 e.2 }
  else p

/-- `apply` (taproxy.rs:155-241). -/
def apply (p : Proxy) : Ev → Proxy
  | .repositoryAdded => { p with repo := true }
  | .signerAdded i => { p with signer := some i }
  | .signerUpdated i => { p with signer := some i }
  | .signerRequestMade n => { p with openNonce := some n }
  | .signerResponseReceived b =>
    let p' := b.entries.foldl applyEntry p
    { p' with signer := p'.signer.map (fun s => { s with objects := b.objects }), openNonce := none }
  | .childAdded c res => { p with children := aput p.children c res }
  | .childRequestAdded c r => { p with openReq := aput p.openReq (c, r.key) r }
  | .childResponseGiven c k => { p with openResp := adel p.openResp (c, k) }

def applyAll (p : Proxy) (evs : List Ev) : Proxy := evs.foldl apply p

/-- A command sent to the aggregate: the new state and the outcome.  A refused command leaves
the aggregate as it was (the store records the failed command and its version only). -/
def exec (p : Proxy) (c : Cmd) : Proxy × Except Err (List Ev) :=
  match process p c with
  | .ok evs => (applyAll p evs, .ok evs)
  | .error e => (p, .error e)

/-- `get_signer_request` (taproxy.rs:529-576): the currently open requests of all children under
the open nonce, signed with the proxy's own ID key.  May be called any number of times while the
nonce is open and reflects the requests open *at the time of the call*. -/
def getSignerRequest (p : Proxy) : Except Err (Signed ReqBody) :=
  match p.openNonce with
  | none => .error .hasNoRequest
  | some n =>
    let b : ReqBody := { nonce := n, entries := p.openReq, resources := p.children }
    .ok { signer := p.idKey, body := b, clear := b, fresh := true }

/-- `TrustAnchorProxy::init` (taproxy.rs:122). -/
def Proxy.init (idKey : Key) : Proxy := { idKey := idKey }

/-- Manifest/CRL number the proxy publishes (`get_trust_anchor_objects().revision().number()`). -/
def Proxy.number (p : Proxy) : Option Nat := p.signer.map (·.objects.number)

/-! ### manager glue: `CaManager::ta_slow_rfc6492_request` (manager.rs:1257-1324) -/

inductive Reply
  /-- the stored response, handed over and removed -/
  | response (r : Resp)
  /-- `not_performed_response`: 1101 already scheduled, 1104 scheduled now -/
  | notPerformed (code : Nat)
  | error (e : Err)
  deriving DecidableEq, Repr

/-- `matching_open_request` (taproxy.rs:734-765). -/
def matchingOpenRequest (p : Proxy) (c : Child) (r : Req) : Except Err Bool :=
  if !(p.known c) then .error .childUnknown else
  match aget p.openReq (c, r.key) with
  | none => .ok false
  | some ex =>
    match ex.kind, r.kind with
    | .issue, .issue =>
      if !r.csrOk then .error .badCsr
      else .ok (ex.cls == r.cls && ex.limit == r.limit && ex.tag == r.tag)
    | .revoke, .revoke => .ok (ex.cls == r.cls)
    | _, _ => .ok false

/-- The child `c` (taken from the sender of the request) asks for `r`: hand over a stored
response (and remove it), or answer 1101 if the same request is already waiting, or store the
request and answer 1104. -/
def taSlowRequest (p : Proxy) (c : Child) (r : Req) : Proxy × Reply :=
  if !(p.known c) then (p, .error .childUnknown) else
  match aget p.openResp (c, r.key) with
  | some x =>
    if r.matchesResponse x then
      match exec p (.giveChildResponse c r.key) with
      | (p', .ok _) => (p', .response x)
      | (p', .error e) => (p', .error e)
    else (p, .error .responseMismatch)
  | none =>
    match matchingOpenRequest p c r with
    | .error e => (p, .error e)
    | .ok true => (p, .notPerformed 1101)
    | .ok false =>
      match exec p (.addChildRequest c r) with
      | (p', .ok _) => (p', .notPerformed 1104)
      | (p', .error e) => (p', .error e)

end KM.Ta
