/-
The inductive invariant behind `exactly_once` (helper lemmas; the property statements are in
`Props/C15.lean`).
-/
import KrillModel.Ta.Lemmas
namespace KM.Ta

structure Inv (s : Sys) : Prop where
  ndReq  : (keysOf s.proxy.openReq).Nodup
  ndResp : (keysOf s.proxy.openResp).Nodup
  /-- open requests belong to known children -/
  reqKnown : ∀ ck, ahas s.proxy.openReq ck = true → s.proxy.known ck.1 = true
  /-- never a waiting request and a waiting response for the same child and key -/
  disj : ∀ ck, ahas s.proxy.openReq ck = true → ahas s.proxy.openResp ck = false
  /-- whatever the proxy signed under the open nonce lists open requests only, each once -/
  reqsOpen : ∀ n, s.proxy.openNonce = some n → ∀ b ∈ s.reqs, b.nonce = n →
      (keysOf b.entries).Nodup ∧ ∀ ck ∈ keysOf b.entries, ahas s.proxy.openReq ck = true
  /-- a response of a signer that belongs to this proxy answers a request the proxy signed -/
  link : ∀ id t, aget s.signers id = some t → t.proxyKey = s.proxy.idKey →
      ∀ rb, (id, rb) ∈ s.resps →
        ∃ b ∈ s.reqs, b.nonce = rb.nonce ∧ keysOf rb.entries = keysOf b.entries
  respKeys : ∀ id rb, (id, rb) ∈ s.resps → ahas s.signers id = true
  /-- the proxy is only ever associated with a signer that is associated with it -/
  assoc : ∀ i, s.proxy.signer = some i →
      ∃ t, aget s.signers i.idKey = some t ∧ t.proxyKey = s.proxy.idKey
  signerIds : ∀ id t, aget s.signers id = some t → t.idKey = id
  reqNonces : ∀ b ∈ s.reqs, b.nonce ∈ s.nonces
  nonceSeen : ∀ n, s.proxy.openNonce = some n → n ∈ s.nonces
  acct : ∀ ck, cntK s.answered ck = cntK s.given ck + openRespN s.proxy ck ∧
               cntK s.answered ck + openReqN s.proxy ck ≤ cnt s.added ck

theorem inv_init (k : Key) : Inv (Sys.init k) := by
  refine ⟨by simp [Sys.init, Proxy.init, keysOf], by simp [Sys.init, Proxy.init, keysOf],
    ?_, ?_, ?_, ?_, ?_, ?_, ?_, ?_, ?_, ?_⟩
  · intro ck h; simp [Sys.init, Proxy.init, ahas, aget] at h
  · intro ck h; simp [Sys.init, Proxy.init, ahas, aget] at h
  · intro n h; simp [Sys.init, Proxy.init] at h
  · intro id t h; simp [Sys.init, aget] at h
  · intro id rb h; simp [Sys.init] at h
  · intro i h; simp [Sys.init, Proxy.init] at h
  · intro id t h; simp [Sys.init, aget] at h
  · intro b h; simp [Sys.init] at h
  · intro n h; simp [Sys.init, Proxy.init] at h
  · intro ck; simp [Sys.init, Proxy.init, cntK, keysOf, cnt, openRespN, openReqN, ahas, aget]

/-! ### counting -/

theorem cntK_cons {β} (l : List (CK × β)) (e : CK × β) (ck : CK) :
    cntK (e :: l) ck = cntK l ck + (if e.1 = ck then 1 else 0) := by
  simp only [cntK, keysOf, List.map_cons, List.count_cons]
  by_cases h : e.1 = ck <;> simp [h]

theorem cnt_cons (l : List CK) (e ck : CK) :
    cnt (e :: l) ck = cnt l ck + (if e = ck then 1 else 0) := by
  simp only [cnt, List.count_cons]
  by_cases h : e = ck <;> simp [h]

theorem openN_adel (l : List (CK × Resp)) (k ck : CK) :
    (if ahas (adel l k) ck then 1 else 0 : Nat) =
      if ck = k then 0 else (if ahas l ck then 1 else 0) := by
  rw [ahas_adel]
  by_cases h : ck = k <;> simp [h]

/-! ### one step -/

theorem inv_addChild (s : Sys) (c : Child) (res : List Nat) (h : Inv s) :
    Inv (step s (.addChild c res)) := by
  simp only [step]
  cases hp : process s.proxy (.addChild c res) with
  | error e => rw [exec_error _ _ _ hp]; exact h
  | ok evs =>
    rw [exec_ok _ _ _ hp]
    have hev : evs = [.childAdded c res] := by
      simp only [process] at hp
      split at hp
      · cases hp
      · cases hp; rfl
    subst hev
    simp only [applyAll, List.foldl, apply]
    refine ⟨h.ndReq, h.ndResp, ?_, h.disj, h.reqsOpen, h.link, h.respKeys, h.assoc, h.signerIds,
      h.reqNonces, h.nonceSeen, h.acct⟩
    intro ck hck
    have := h.reqKnown ck hck
    simp only [Proxy.known] at this ⊢
    rw [ahas_aput]; simp [this]

theorem inv_childRequest (s : Sys) (c : Child) (r : Req) (h : Inv s) :
    Inv (step s (.childRequest c r)) := by
  simp only [step]
  have hc := taSlow_cases s.proxy c r
  generalize taSlowRequest s.proxy c r = out at hc
  cases hc with
  | unchanged rep h1 h2 =>
    have hg : (match rep with
        | .response x => ((c, r.key), x) :: s.given
        | _ => s.given) = s.given := by
      cases rep with
      | response x => exact absurd rfl (h1 x)
      | notPerformed code => rfl
      | error e => rfl
    simp only [hg, if_neg h2]
    exact h
  | given x hx hk hm =>
    simp only [reduceCtorEq, if_false]
    have hhas : ahas s.proxy.openResp (c, r.key) = true := by simp [ahas, hx]
    refine ⟨h.ndReq, nodup_adel _ _ h.ndResp, h.reqKnown, ?_, h.reqsOpen, h.link, h.respKeys,
      h.assoc, h.signerIds, h.reqNonces, h.nonceSeen, ?_⟩
    · intro ck hck
      have := h.disj ck hck
      simp only [ahas_adel, this, Bool.false_and]
    · intro ck
      obtain ⟨a1, a2⟩ := h.acct ck
      refine ⟨?_, a2⟩
      simp only [cntK_cons, openRespN] at a1 ⊢
      rw [openN_adel]
      by_cases hck : ck = (c, r.key)
      · subst hck
        simp only [hhas, if_true] at a1
        simp [a1]
      · have : ¬ (c, r.key) = ck := fun e => hck e.symm
        simp only [this, hck, if_false, Nat.add_zero]
        exact a1
  | added hx hk =>
    simp only [if_true]
    have hno : ahas s.proxy.openResp (c, r.key) = false := by simp [ahas, hx]
    refine ⟨nodup_aput _ _ _ h.ndReq, h.ndResp, ?_, ?_, ?_, h.link, h.respKeys,
      h.assoc, h.signerIds, h.reqNonces, h.nonceSeen, ?_⟩
    · intro ck hck
      rw [ahas_aput] at hck
      simp only [Bool.or_eq_true, decide_eq_true_eq] at hck
      rcases hck with rfl | hck
      · exact hk
      · exact h.reqKnown ck hck
    · intro ck hck
      rw [ahas_aput] at hck
      simp only [Bool.or_eq_true, decide_eq_true_eq] at hck
      rcases hck with rfl | hck
      · exact hno
      · exact h.disj ck hck
    · intro n hn b hb hbn
      obtain ⟨x1, x2⟩ := h.reqsOpen n hn b hb hbn
      refine ⟨x1, ?_⟩
      intro ck hck
      rw [ahas_aput]; simp [x2 ck hck]
    · intro ck
      obtain ⟨a1, a2⟩ := h.acct ck
      refine ⟨a1, ?_⟩
      simp only [cnt_cons, openReqN] at a2 ⊢
      rw [ahas_aput]
      by_cases hck : (c, r.key) = ck
      · subst hck
        simp only [decide_true, Bool.true_or, if_true]
        split at a2 <;> omega
      · simp only [hck, decide_false, Bool.false_or, if_false, Nat.add_zero]
        exact a2

theorem inv_makeRequest (s : Sys) (n : Nonce) (h : Inv s)
    (ha : admissible s (.makeRequest n) = true) : Inv (step s (.makeRequest n)) := by
  simp only [step]
  have hfresh : n ∉ s.nonces := by simpa [admissible] using ha
  cases hp : process s.proxy (.makeSignerRequest n) with
  | error e =>
    rw [exec_error _ _ _ hp]
    refine ⟨h.ndReq, h.ndResp, h.reqKnown, h.disj, h.reqsOpen, h.link, h.respKeys, h.assoc,
      h.signerIds, ?_, ?_, h.acct⟩
    · intro b hb; exact List.mem_cons_of_mem _ (h.reqNonces b hb)
    · intro n' hn'; exact List.mem_cons_of_mem _ (h.nonceSeen n' hn')
  | ok evs =>
    rw [exec_ok _ _ _ hp]
    have hev : evs = [.signerRequestMade n] := by
      simp only [process] at hp
      split at hp
      · cases hp
      · cases hp; rfl
    subst hev
    simp only [applyAll, List.foldl, apply]
    refine ⟨h.ndReq, h.ndResp, h.reqKnown, h.disj, ?_, h.link, h.respKeys, h.assoc,
      h.signerIds, ?_, ?_, h.acct⟩
    · intro n' hn' b hb hbn
      simp only [Option.some.injEq] at hn'
      subst hn'
      exact absurd (hbn ▸ h.reqNonces b hb) hfresh
    · intro b hb; exact List.mem_cons_of_mem _ (h.reqNonces b hb)
    · intro n' hn'
      simp only [Option.some.injEq] at hn'
      subst hn'; exact List.mem_cons_self

theorem inv_getRequest (s : Sys) (h : Inv s) : Inv (step s .getRequest) := by
  simp only [step]
  cases hn : s.proxy.openNonce with
  | none => simp only [getSignerRequest, hn]; exact h
  | some n =>
    simp only [getSignerRequest, hn]
    refine ⟨h.ndReq, h.ndResp, h.reqKnown, h.disj, ?_, ?_, h.respKeys, h.assoc,
      h.signerIds, ?_, h.nonceSeen, h.acct⟩
    · intro n' hn' b hb hbn
      rcases List.mem_cons.mp hb with rfl | hb
      · refine ⟨h.ndReq, ?_⟩
        intro ck hck
        exact (ahas_iff_mem _ _).mpr hck
      · rw [hn] at hn'; exact h.reqsOpen n' (hn ▸ hn') b hb hbn
    · intro id t ht hpk rb hrb
      obtain ⟨b, hb, x⟩ := h.link id t ht hpk rb hrb
      exact ⟨b, List.mem_cons_of_mem _ hb, x⟩
    · intro b hb
      rcases List.mem_cons.mp hb with rfl | hb
      · exact h.nonceSeen n hn
      · exact h.reqNonces b hb

end KM.Ta
