/-
The inductive invariant behind `exactly_once` (helper lemmas; the property statements are in
`Props/C15.lean`).
-/
import KrillModel.Ta.Lemmas
namespace KM.Ta

structure Inv (s : Sys) : Prop where
  ndReq  : (keysOf s.proxy.openReq).Nodup
  ndResp : (keysOf s.proxy.openResp).Nodup
  /-- open requests belong to known children -/
  reqKnown : ∀ ck, ahas s.proxy.openReq ck = true → s.proxy.known ck.1 = true
  /-- never a waiting request and a waiting response for the same child and key -/
  disj : ∀ ck, ahas s.proxy.openReq ck = true → ahas s.proxy.openResp ck = false
  /-- whatever the proxy signed under the open nonce lists open requests only, each once -/
  reqsOpen : ∀ n, s.proxy.openNonce = some n → ∀ b ∈ s.reqs, b.nonce = n →
      (keysOf b.entries).Nodup ∧ ∀ ck ∈ keysOf b.entries, ahas s.proxy.openReq ck = true
  /-- a response of a signer that belongs to this proxy answers a request the proxy signed -/
  link : ∀ id t, aget s.signers id = some t → t.proxyKey = s.proxy.idKey →
      ∀ rb, (id, rb) ∈ s.resps →
        ∃ b ∈ s.reqs, b.nonce = rb.nonce ∧ keysOf rb.entries = keysOf b.entries
  respKeys : ∀ id rb, (id, rb) ∈ s.resps → ahas s.signers id = true
  /-- the proxy is only ever associated with a signer that is associated with it -/
  assoc : ∀ i, s.proxy.signer = some i →
      ∃ t, aget s.signers i.idKey = some t ∧ t.proxyKey = s.proxy.idKey
  signerIds : ∀ id t, aget s.signers id = some t → t.idKey = id
  reqNonces : ∀ b ∈ s.reqs, b.nonce ∈ s.nonces
  nonceSeen : ∀ n, s.proxy.openNonce = some n → n ∈ s.nonces
  acct : ∀ ck, cntK s.answered ck = cntK s.given ck + openRespN s.proxy ck ∧
               cntK s.answered ck + openReqN s.proxy ck ≤ cnt s.added ck

theorem inv_init (k : Key) : Inv (Sys.init k) := by
  refine ⟨by simp [Sys.init, Proxy.init, keysOf], by simp [Sys.init, Proxy.init, keysOf],
    ?_, ?_, ?_, ?_, ?_, ?_, ?_, ?_, ?_, ?_⟩
  · intro ck h; simp [Sys.init, Proxy.init, ahas, aget] at h
  · intro ck h; simp [Sys.init, Proxy.init, ahas, aget] at h
  · intro n h; simp [Sys.init, Proxy.init] at h
  · intro id t h; simp [Sys.init, aget] at h
  · intro id rb h; simp [Sys.init] at h
  · intro i h; simp [Sys.init, Proxy.init] at h
  · intro id t h; simp [Sys.init, aget] at h
  · intro b h; simp [Sys.init] at h
  · intro n h; simp [Sys.init, Proxy.init] at h
  · intro ck; simp [Sys.init, Proxy.init, cntK, cnt, openRespN, openReqN, ahas, aget]

/-! ### counting -/

theorem cntK_cons {β} (l : List (CK × β)) (e : CK × β) (ck : CK) :
    cntK (e :: l) ck = cntK l ck + (if e.1 = ck then 1 else 0) := by
  simp only [cntK, List.map_cons, List.count_cons]
  by_cases h : e.1 = ck <;> simp [h]

theorem cnt_cons (l : List CK) (e ck : CK) :
    cnt (e :: l) ck = cnt l ck + (if e = ck then 1 else 0) := by
  simp only [cnt, List.count_cons]
  by_cases h : e = ck <;> simp [h]

theorem openN_adel (l : List (CK × Resp)) (k ck : CK) :
    (if ahas (adel l k) ck then 1 else 0 : Nat) =
      if ck = k then 0 else (if ahas l ck then 1 else 0) := by
  rw [ahas_adel]
  by_cases h : ck = k <;> simp [h]

/-! ### one step -/

theorem inv_addChild (s : Sys) (c : Child) (res : List Nat) (h : Inv s) :
    Inv (step s (.addChild c res)) := by
  simp only [step]
  cases hp : process s.proxy (.addChild c res) with
  | error e => rw [exec_error _ _ _ hp]; exact h
  | ok evs =>
    rw [exec_ok _ _ _ hp]
    have hev : evs = [.childAdded c res] := by
      simp only [process] at hp
      split at hp
      · cases hp
      · cases hp; rfl
    subst hev
    simp only [applyAll, List.foldl, apply]
    refine ⟨h.ndReq, h.ndResp, ?_, h.disj, h.reqsOpen, h.link, h.respKeys, h.assoc, h.signerIds,
      h.reqNonces, h.nonceSeen, h.acct⟩
    intro ck hck
    have := h.reqKnown ck hck
    simp only [Proxy.known] at this ⊢
    rw [ahas_aput]; simp [this]

theorem inv_childRequest (s : Sys) (c : Child) (r : Req) (h : Inv s) :
    Inv (step s (.childRequest c r)) := by
  simp only [step]
  have hc := taSlow_cases s.proxy c r
  generalize taSlowRequest s.proxy c r = out at hc
  cases hc with
  | unchanged rep h1 h2 =>
    have hg : (match rep with
        | .response x => ((c, r.key), x) :: s.given
        | _ => s.given) = s.given := by
      cases rep with
      | response x => exact absurd rfl (h1 x)
      | notPerformed code => rfl
      | error e => rfl
    simp only [if_neg h2]
    exact h
  | given x hx hk hm =>
    simp only [reduceCtorEq, if_false]
    have hhas : ahas s.proxy.openResp (c, r.key) = true := by simp [ahas, hx]
    refine ⟨h.ndReq, nodup_adel _ _ h.ndResp, h.reqKnown, ?_, h.reqsOpen, h.link, h.respKeys,
      h.assoc, h.signerIds, h.reqNonces, h.nonceSeen, ?_⟩
    · intro ck hck
      have := h.disj ck hck
      simp only [ahas_adel, this, Bool.false_and]
    · intro ck
      obtain ⟨a1, a2⟩ := h.acct ck
      refine ⟨?_, a2⟩
      simp only [cntK_cons, openRespN] at a1 ⊢
      rw [openN_adel]
      by_cases hck : ck = (c, r.key)
      · subst hck
        simp only [hhas, if_true] at a1
        simp [a1]
      · have : ¬ (c, r.key) = ck := fun e => hck e.symm
        simp only [this, hck, if_false, Nat.add_zero]
        exact a1
  | added hx hk =>
    simp only [if_true]
    have hno : ahas s.proxy.openResp (c, r.key) = false := by simp [ahas, hx]
    refine ⟨nodup_aput _ _ _ h.ndReq, h.ndResp, ?_, ?_, ?_, h.link, h.respKeys,
      h.assoc, h.signerIds, h.reqNonces, h.nonceSeen, ?_⟩
    · intro ck hck
      rw [ahas_aput] at hck
      simp only [Bool.or_eq_true, decide_eq_true_eq] at hck
      rcases hck with rfl | hck
      · exact hk
      · exact h.reqKnown ck hck
    · intro ck hck
      rw [ahas_aput] at hck
      simp only [Bool.or_eq_true, decide_eq_true_eq] at hck
      rcases hck with rfl | hck
      · exact hno
      · exact h.disj ck hck
    · intro n hn b hb hbn
      obtain ⟨x1, x2⟩ := h.reqsOpen n hn b hb hbn
      refine ⟨x1, ?_⟩
      intro ck hck
      rw [ahas_aput]; simp [x2 ck hck]
    · intro ck
      obtain ⟨a1, a2⟩ := h.acct ck
      refine ⟨a1, ?_⟩
      simp only [cnt_cons, openReqN] at a2 ⊢
      rw [ahas_aput]
      by_cases hck : (c, r.key) = ck
      · subst hck
        simp only [decide_true, Bool.true_or, if_true]
        split at a2 <;> omega
      · simp only [hck, decide_false, Bool.false_or, if_false, Nat.add_zero]
        exact a2

theorem inv_makeRequest (s : Sys) (n : Nonce) (h : Inv s)
    (ha : admissible s (.makeRequest n) = true) : Inv (step s (.makeRequest n)) := by
  simp only [step]
  have hfresh : n ∉ s.nonces := by simpa [admissible] using ha
  cases hp : process s.proxy (.makeSignerRequest n) with
  | error e =>
    rw [exec_error _ _ _ hp]
    refine ⟨h.ndReq, h.ndResp, h.reqKnown, h.disj, h.reqsOpen, h.link, h.respKeys, h.assoc,
      h.signerIds, ?_, ?_, h.acct⟩
    · intro b hb; exact List.mem_cons_of_mem _ (h.reqNonces b hb)
    · intro n' hn'; exact List.mem_cons_of_mem _ (h.nonceSeen n' hn')
  | ok evs =>
    rw [exec_ok _ _ _ hp]
    have hev : evs = [.signerRequestMade n] := by
      simp only [process] at hp
      split at hp
      · cases hp
      · cases hp; rfl
    subst hev
    simp only [applyAll, List.foldl, apply]
    refine ⟨h.ndReq, h.ndResp, h.reqKnown, h.disj, ?_, h.link, h.respKeys, h.assoc,
      h.signerIds, ?_, ?_, h.acct⟩
    · intro n' hn' b hb hbn
      simp only [Option.some.injEq] at hn'
      subst hn'
      exact absurd (hbn ▸ h.reqNonces b hb) hfresh
    · intro b hb; exact List.mem_cons_of_mem _ (h.reqNonces b hb)
    · intro n' hn'
      simp only [Option.some.injEq] at hn'
      subst hn'; exact List.mem_cons_self

theorem inv_getRequest (s : Sys) (h : Inv s) : Inv (step s .getRequest) := by
  simp only [step]
  cases hn : s.proxy.openNonce with
  | none => simp only [getSignerRequest, hn]; exact h
  | some n =>
    simp only [getSignerRequest, hn]
    refine ⟨h.ndReq, h.ndResp, h.reqKnown, h.disj, ?_, ?_, h.respKeys, h.assoc,
      h.signerIds, ?_, h.nonceSeen, h.acct⟩
    · intro n' hn' b hb hbn
      rcases List.mem_cons.mp hb with rfl | hb
      · refine ⟨h.ndReq, ?_⟩
        intro ck hck
        exact (ahas_iff_mem _ _).mpr hck
      · rw [hn] at hn'; exact h.reqsOpen n' (hn ▸ hn') b hb hbn
    · intro id t ht hpk rb hrb
      obtain ⟨b, hb, x⟩ := h.link id t ht hpk rb hrb
      exact ⟨b, List.mem_cons_of_mem _ hb, x⟩
    · intro b hb
      rcases List.mem_cons.mp hb with rfl | hb
      · exact h.nonceSeen n hn
      · exact h.reqNonces b hb

theorem inv_signerInit (s : Sys) (id pk tk : Key) (num : Option Nat) (h : Inv s)
    (ha : admissible s (.signerInit id pk tk num) = true) :
    Inv (step s (.signerInit id pk tk num)) := by
  simp only [step]
  have hnew : ahas s.signers id = false := by
    simp only [admissible, Bool.and_eq_true, Bool.not_eq_true'] at ha; exact ha.1
  refine ⟨h.ndReq, h.ndResp, h.reqKnown, h.disj, h.reqsOpen, ?_, ?_, ?_, ?_, h.reqNonces,
    h.nonceSeen, h.acct⟩
  · intro id' t ht hpk rb hrb
    rw [aget_aput] at ht
    by_cases hid : id = id'
    · subst hid
      have := h.respKeys id rb hrb
      rw [hnew] at this; cases this
    · simp only [hid, if_false] at ht
      exact h.link id' t ht hpk rb hrb
  · intro id' rb hrb
    rw [ahas_aput]; simp [h.respKeys id' rb hrb]
  · intro i hi
    obtain ⟨t, ht, hpk⟩ := h.assoc i hi
    refine ⟨t, ?_, hpk⟩
    rw [aget_aput]
    by_cases hid : id = i.idKey
    · have : ahas s.signers id = true := by rw [hid]; simp [ahas, ht]
      rw [hnew] at this; cases this
    · simp only [hid, if_false]; exact ht
  · intro id' t ht
    rw [aget_aput] at ht
    by_cases hid : id = id'
    · simp only [hid, if_true, Option.some.injEq] at ht
      subst ht; simp [Signer.init]
    · simp only [hid, if_false] at ht
      exact h.signerIds id' t ht

/-- Associating the proxy with the honest signer `t` (add or update). -/
theorem inv_assoc (s : Sys) (id : Key) (t : Signer) (c : Cmd)
    (hc : c = .addSigner t.info ∨ c = .updateSigner t.info)
    (ht : aget s.signers id = some t) (hpk : t.proxyKey = s.proxy.idKey) (h : Inv s) :
    Inv { s with proxy := (exec s.proxy c).1 } := by
  cases hp : process s.proxy c with
  | error e => rw [exec_error _ _ _ hp]; exact h
  | ok evs =>
    rw [exec_ok _ _ _ hp]
    have hev : evs = [.signerAdded t.info] ∨ evs = [.signerUpdated t.info] := by
      rcases hc with rfl | rfl
      · left
        simp only [process] at hp
        split at hp
        · cases hp
        · cases hp; rfl
      · right
        simp only [process] at hp
        split at hp
        · cases hp
        · split at hp
          · split at hp
            · cases hp; rfl
            · cases hp
          · cases hp
    have hst : applyAll s.proxy evs = { s.proxy with signer := some t.info } := by
      rcases hev with rfl | rfl <;> rfl
    rw [hst]
    refine ⟨h.ndReq, h.ndResp, h.reqKnown, h.disj, h.reqsOpen, h.link, h.respKeys, ?_,
      h.signerIds, h.reqNonces, h.nonceSeen, h.acct⟩
    intro i hi
    simp only [Option.some.injEq] at hi
    subst hi
    refine ⟨t, ?_, hpk⟩
    have := h.signerIds id t ht
    simp only [Signer.info]
    rw [this]; exact ht

theorem inv_addSigner (s : Sys) (id : Key) (h : Inv s)
    (ha : admissible s (.addSigner id) = true) : Inv (step s (.addSigner id)) := by
  simp only [step]
  cases ht : aget s.signers id with
  | none => exact h
  | some t =>
    simp only [admissible, ht, beq_iff_eq] at ha
    exact inv_assoc s id t _ (Or.inl rfl) ht ha h

theorem inv_updateSigner (s : Sys) (id : Key) (h : Inv s)
    (ha : admissible s (.updateSigner id) = true) : Inv (step s (.updateSigner id)) := by
  simp only [step]
  cases ht : aget s.signers id with
  | none => exact h
  | some t =>
    simp only [admissible, ht, beq_iff_eq] at ha
    exact inv_assoc s id t _ (Or.inr rfl) ht ha h

theorem validFor_iff {α} [DecidableEq α] (m : Signed α) (k : Key) :
    m.validFor k = true ↔ m.signer = k ∧ m.fresh = true ∧ m.body = m.clear := by
  simp [Signed.validFor, and_assoc]

theorem inv_sign (s : Sys) (id : Key) (m : Signed ReqBody) (ovr : Option Nat) (h : Inv s)
    (ha : admissible s (.sign id m ovr) = true) : Inv (step s (.sign id m ovr)) := by
  simp only [step]
  cases ht : aget s.signers id with
  | none => exact h
  | some t =>
    simp only
    cases hp : processSignerRequest t m ovr with
    | error e => exact h
    | ok out =>
      obtain ⟨t', r⟩ := out
      simp only
      obtain ⟨hv, _, _, _, hnonce, hkeys, hid, hpk', _, _, _, _⟩ :=
        processSignerRequest_ok t t' m ovr r hp
      obtain ⟨hsig, _, hbc⟩ := (validFor_iff m t.proxyKey).mp hv
      refine ⟨h.ndReq, h.ndResp, h.reqKnown, h.disj, h.reqsOpen, ?_, ?_, ?_, ?_, ?_, ?_, h.acct⟩
      · intro id' t'' ht'' hpk rb hrb
        rw [aget_aput] at ht''
        by_cases hidd : id = id'
        · subst hidd
          simp only [if_true, Option.some.injEq] at ht''
          subst ht''
          rw [hpk'] at hpk
          rcases List.mem_cons.mp hrb with heq | hold
          · simp only [Prod.mk.injEq, true_and] at heq
            subst heq
            have hmem : m.body ∈ s.reqs := by
              simp only [admissible, Bool.or_eq_true, bne_iff_ne, ne_eq,
                List.contains_iff_mem] at ha
              rcases ha with ha | ha
              · exact absurd (hsig.trans hpk) ha
              · exact ha
            refine ⟨m.body, hmem, ?_, ?_⟩
            · rw [hnonce, hbc]
            · rw [hkeys, hbc]
          · exact h.link id t ht hpk rb hold
        · simp only [hidd, if_false] at ht''
          rcases List.mem_cons.mp hrb with heq | hold
          · simp only [Prod.mk.injEq] at heq
            exact absurd heq.1.symm hidd
          · exact h.link id' t'' ht'' hpk rb hold
      · intro id' rb hrb
        rw [ahas_aput]
        rcases List.mem_cons.mp hrb with heq | hold
        · simp only [Prod.mk.injEq] at heq
          simp [heq.1]
        · simp [h.respKeys id' rb hold]
      · intro i hi
        obtain ⟨t0, ht0, hpk0⟩ := h.assoc i hi
        rw [aget_aput]
        by_cases hidd : id = i.idKey
        · refine ⟨t', by simp [hidd], ?_⟩
          rw [hpk']
          rw [← hidd, ht] at ht0
          simp only [Option.some.injEq] at ht0
          rw [ht0]; exact hpk0
        · exact ⟨t0, by simp [hidd, ht0], hpk0⟩
      · intro id' t'' ht''
        rw [aget_aput] at ht''
        by_cases hidd : id = id'
        · simp only [hidd, if_true, Option.some.injEq] at ht''
          subst ht''
          rw [hid, ← hidd]; exact h.signerIds id t ht
        · simp only [hidd, if_false] at ht''
          exact h.signerIds id' t'' ht''
      · intro b hb; exact List.mem_cons_of_mem _ (h.reqNonces b hb)
      · intro n hn; exact List.mem_cons_of_mem _ (h.nonceSeen n hn)

theorem cntK_rev_append {β} (l1 l2 : List (CK × β)) (ck : CK) :
    cntK (l1.reverse ++ l2) ck = cntK l1 ck + cntK l2 ck := by
  simp [cntK, List.count_append]

/-- What it takes for `process_signer_response` to accept. -/
theorem processSignerResponse_ok (p : Proxy) (m : Signed RespBody) (evs : List Ev)
    (h : process p (.processSignerResponse m) = .ok evs) :
    ∃ n i, p.openNonce = some n ∧ m.clear.nonce = n ∧ p.signer = some i ∧
      m.validFor i.idKey = true ∧ evs = [.signerResponseReceived m.clear] := by
  simp only [process, processSignerResponse] at h
  cases hn : p.openNonce with
  | none => simp [hn] at h
  | some n =>
    simp only [hn] at h
    by_cases hne : m.clear.nonce ≠ n
    · simp [hne] at h
    · simp only [hne, if_false] at h
      cases hs : p.signer with
      | none => simp [hs] at h
      | some i =>
        simp only [hs] at h
        by_cases hv : m.validFor i.idKey = true
        · simp only [hv, if_true, Except.ok.injEq] at h
          exact ⟨n, i, rfl, by simpa using hne, rfl, hv, h.symm⟩
        · simp [hv] at h

theorem inv_respond (s : Sys) (m : Signed RespBody) (h : Inv s)
    (ha : admissible s (.respond m) = true) : Inv (step s (.respond m)) := by
  simp only [step]
  cases hp : process s.proxy (.processSignerResponse m) with
  | error e => exact h
  | ok evs =>
    simp only
    obtain ⟨n, i, hn, hmn, hsig, hv, hev⟩ := processSignerResponse_ok _ _ _ hp
    subst hev
    obtain ⟨hms, _, hbc⟩ := (validFor_iff m i.idKey).mp hv
    obtain ⟨t, ht, hpk⟩ := h.assoc i hsig
    -- the response was made by that signer from a request this proxy signed under this nonce
    have hres : (m.signer, m.body) ∈ s.resps := by
      simp only [admissible, Bool.or_eq_true, Bool.not_eq_true', List.contains_iff_mem] at ha
      rcases ha with ha | ha
      · rw [hms] at ha; simp [ahas, ht] at ha
      · exact ha
    rw [hms] at hres
    obtain ⟨b, hb, hbn, hbk⟩ := h.link i.idKey t ht hpk m.body hres
    rw [hbc] at hbn hbk
    obtain ⟨hnd, hopen⟩ := h.reqsOpen n hn b hb (hbn.trans hmn)
    rw [← hbk] at hnd hopen
    -- all entries are for known children
    have hallk : ∀ e ∈ m.clear.entries, entryKnown s.proxy e = true := by
      intro e he
      have : e.1 ∈ keysOf m.clear.entries := List.mem_map_of_mem he
      exact h.reqKnown e.1 (hopen e.1 this)
    have hfilt : m.clear.entries.filter (entryKnown s.proxy) = m.clear.entries :=
      List.filter_eq_self.mpr hallk
    have hact : actedOn s.proxy.children m.clear.entries = keysOf m.clear.entries := by
      unfold actedOn
      have : (fun e : CK × Resp => ahas s.proxy.children e.1.1) = entryKnown s.proxy := by
        funext e; rfl
      rw [this, hfilt]
    simp only [applyAll, List.foldl, apply, hfilt]
    have hfo := fold_openReq s.proxy.children m.clear.entries s.proxy rfl
    have hfr := fold_openResp s.proxy.children m.clear.entries s.proxy rfl
    rw [hact] at hfo hfr
    obtain ⟨m1, m2, m3, m4⟩ := fold_misc m.clear.entries s.proxy
    obtain ⟨nd1, nd2⟩ := fold_nodup m.clear.entries s.proxy h.ndReq h.ndResp
    refine ⟨nd1, nd2, ?_, ?_, ?_, ?_, h.respKeys, ?_, h.signerIds, h.reqNonces, ?_, ?_⟩
    · intro ck hck
      have := h.reqKnown ck ((hfo ck).mp hck).1
      simp only [Proxy.known] at this ⊢
      rw [fold_children]; exact this
    · intro ck hck
      obtain ⟨h1, h2⟩ := (hfo ck).mp hck
      cases hx : ahas (List.foldl applyEntry s.proxy m.clear.entries).openResp ck with
      | false => rfl
      | true =>
        rcases (hfr ck).mp hx with h3 | h3
        · rw [h.disj ck h1] at h3; cases h3
        · exact absurd h3 h2
    · intro n' hn'; simp at hn'
    · intro id t' ht' hpk' rb hrb
      rw [m1] at hpk'
      exact h.link id t' ht' hpk' rb hrb
    · intro i' hi'
      simp only [m2, hsig, Option.map_some, Option.some.injEq] at hi'
      subst hi'
      rw [m1]
      exact ⟨t, ht, hpk⟩
    · intro n' hn'; simp at hn'
    · intro ck
      obtain ⟨a1, a2⟩ := h.acct ck
      rw [cntK_rev_append]
      have hcount : cntK m.clear.entries ck = if ck ∈ keysOf m.clear.entries then 1 else 0 := by
        have e : cntK m.clear.entries ck = if ahas m.clear.entries ck = true then 1 else 0 := by
          have := count_keys m.clear.entries ck hnd
          simp only [cntK] at this ⊢
          exact this
        by_cases hm : ahas m.clear.entries ck = true
        · have hmem : ck ∈ keysOf m.clear.entries := (ahas_iff_mem _ _).mp hm
          rw [e, if_pos hmem, if_pos hm]
        · have hmem : ck ∉ keysOf m.clear.entries := fun x => hm ((ahas_iff_mem _ _).mpr x)
          rw [e, if_neg hmem, if_neg hm]
      rw [hcount]
      simp only [openRespN, openReqN] at a1 a2 ⊢
      by_cases hin : ck ∈ keysOf m.clear.entries
      · have ho := hopen ck hin
        have hr := h.disj ck ho
        have hr' : ahas (List.foldl applyEntry s.proxy m.clear.entries).openResp ck = true :=
          (hfr ck).mpr (Or.inr hin)
        have ho' : ahas (List.foldl applyEntry s.proxy m.clear.entries).openReq ck = false := by
          cases hx : ahas (List.foldl applyEntry s.proxy m.clear.entries).openReq ck with
          | false => rfl
          | true => exact absurd hin ((hfo ck).mp hx).2
        simp only [hin, if_true, ho, hr, ho', hr', Bool.false_eq_true, if_false] at a1 a2 ⊢
        omega
      · have e1 : ahas (List.foldl applyEntry s.proxy m.clear.entries).openResp ck =
            ahas s.proxy.openResp ck := by
          cases hx : ahas s.proxy.openResp ck with
          | true => exact (hfr ck).mpr (Or.inl hx)
          | false =>
            cases hy : ahas (List.foldl applyEntry s.proxy m.clear.entries).openResp ck with
            | false => rfl
            | true =>
              rcases (hfr ck).mp hy with h3 | h3
              · rw [hx] at h3; cases h3
              · exact absurd h3 hin
        have e2 : ahas (List.foldl applyEntry s.proxy m.clear.entries).openReq ck =
            ahas s.proxy.openReq ck := by
          cases hx : ahas s.proxy.openReq ck with
          | true => exact (hfo ck).mpr ⟨hx, hin⟩
          | false =>
            cases hy : ahas (List.foldl applyEntry s.proxy m.clear.entries).openReq ck with
            | false => rfl
            | true => rw [((hfo ck).mp hy).1] at hx; cases hx
        simp only [hin, if_false, e1, e2]
        omega

/-- An accepted response, whatever number of children and requests it answers at once: every
entry answers a request that was waiting (and had no response waiting), no child and key occurs
twice, and afterwards each entry is the waiting response of its child and key – the signer's
value – while the answered requests are gone and everything else is as before. -/
theorem respond_batch (s : Sys) (m : Signed RespBody) (evs : List Ev) (h : Inv s)
    (ha : admissible s (.respond m) = true)
    (hp : process s.proxy (.processSignerResponse m) = .ok evs) :
    (keysOf m.clear.entries).Nodup ∧
    (∀ ck ∈ keysOf m.clear.entries, ahas s.proxy.openReq ck = true ∧
        ahas s.proxy.openResp ck = false ∧ s.proxy.known ck.1 = true) ∧
    (∀ e ∈ m.clear.entries, aget (step s (.respond m)).proxy.openResp e.1 = some e.2) ∧
    (∀ ck, ahas (step s (.respond m)).proxy.openReq ck = true ↔
        ahas s.proxy.openReq ck = true ∧ ck ∉ keysOf m.clear.entries) ∧
    (∀ ck, ck ∉ keysOf m.clear.entries →
        aget (step s (.respond m)).proxy.openResp ck = aget s.proxy.openResp ck) := by
  obtain ⟨n, i, hn, hmn, hsig, hv, hev⟩ := processSignerResponse_ok _ _ _ hp
  subst hev
  obtain ⟨hms, _, hbc⟩ := (validFor_iff m i.idKey).mp hv
  obtain ⟨t, ht, hpk⟩ := h.assoc i hsig
  have hres : (m.signer, m.body) ∈ s.resps := by
    simp only [admissible, Bool.or_eq_true, Bool.not_eq_true', List.contains_iff_mem] at ha
    rcases ha with ha | ha
    · rw [hms] at ha; simp [ahas, ht] at ha
    · exact ha
  rw [hms] at hres
  obtain ⟨b, hb, hbn, hbk⟩ := h.link i.idKey t ht hpk m.body hres
  rw [hbc] at hbn hbk
  obtain ⟨hnd, hopen⟩ := h.reqsOpen n hn b hb (hbn.trans hmn)
  rw [← hbk] at hnd hopen
  have hallk : ∀ e ∈ m.clear.entries, s.proxy.known e.1.1 = true := by
    intro e he
    exact h.reqKnown e.1 (hopen e.1 (List.mem_map_of_mem he))
  have hfilt : m.clear.entries.filter (fun e => ahas s.proxy.children e.1.1) = m.clear.entries :=
    List.filter_eq_self.mpr hallk
  have hact : actedOn s.proxy.children m.clear.entries = keysOf m.clear.entries := by
    unfold actedOn; rw [hfilt]
  have hfo := fold_openReq s.proxy.children m.clear.entries s.proxy rfl
  rw [hact] at hfo
  refine ⟨hnd, ?_, ?_, ?_, ?_⟩
  · intro ck hck
    have ho := hopen ck hck
    exact ⟨ho, h.disj ck ho, h.reqKnown ck ho⟩
  · intro e he
    simp only [step, hp, applyAll, List.foldl, apply]
    exact fold_openResp_get m.clear.entries s.proxy hnd hallk e he
  · intro ck
    simp only [step, hp, applyAll, List.foldl, apply]
    exact hfo ck
  · intro ck hck
    simp only [step, hp, applyAll, List.foldl, apply]
    exact fold_openResp_get_other m.clear.entries s.proxy ck hck

/-- Every admissible step keeps the invariant. -/
theorem inv_step (s : Sys) (o : Op) (h : Inv s) (ha : admissible s o = true) : Inv (step s o) := by
  cases o with
  | addChild c res => exact inv_addChild s c res h
  | childRequest c r => exact inv_childRequest s c r h
  | makeRequest n => exact inv_makeRequest s n h ha
  | getRequest => exact inv_getRequest s h
  | signerInit id pk tk num => exact inv_signerInit s id pk tk num h ha
  | addSigner id => exact inv_addSigner s id h ha
  | updateSigner id => exact inv_updateSigner s id h ha
  | sign id m ovr => exact inv_sign s id m ovr h ha
  | respond m => exact inv_respond s m h ha

theorem inv_run (s s' : Sys) (ops : List Op) (h : Inv s) (hr : run s ops = some s') : Inv s' := by
  induction ops generalizing s with
  | nil => simp only [run, Option.some.injEq] at hr; subst hr; exact h
  | cons o t ih =>
    simp only [run] at hr
    split at hr
    · rename_i ha
      exact ih (step s o) (inv_step s o h ha) hr
    · cases hr

end KM.Ta
