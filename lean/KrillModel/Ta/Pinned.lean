/-
Counter-model of the *pinned* tree (e4e0506a), kept for the record: the two places where it
differed from the current code, before the fixes
  109701d8  the TA signer refuses a manifest number override that does not increase the number
  764cd480  the TA proxy refuses a signer update while a signer request is open.
Everything else is the current model.  Import-free.
-/
import KrillModel.Ta.System
namespace KM.Ta.Pinned
open KM.Ta

/-- `process_signer_request` of the pinned tree: a forced manifest number is taken as is. -/
def processSignerRequest (s : Signer) (m : Signed ReqBody) (override : Option Nat) :
    Except SErr (Signer × Signed RespBody) :=
  if !(m.validFor s.proxyKey) then .error .invalidSignature else
  match signAll m.clear.resources { objects := s.objects, serial := s.nextSerial } m.clear.entries with
  | .error e => .error e
  | .ok a =>
    let objects := a.objects.republish override
    let rb : RespBody := { nonce := m.clear.nonce, objects := objects, entries := a.out }
    .ok ({ s with objects := objects, exchanges := s.exchanges ++ [(m.clear, rb)],
                  nextSerial := a.serial },
         { signer := s.idKey, body := rb, clear := rb, fresh := true })

/-- `process_command` of the pinned tree: `UpdateSigner` does not look at `open_signer_request`. -/
def process (p : Proxy) : Cmd → Except Err (List Ev)
  | .updateSigner i =>
    match p.signer with
    | some s => if s.taKey = i.taKey then .ok [.signerUpdated i] else .error .differentSigner
    | none => .error .differentSigner
  | c => KM.Ta.process p c

def exec (p : Proxy) (c : Cmd) : Proxy × Except Err (List Ev) :=
  match process p c with
  | .ok evs => (applyAll p evs, .ok evs)
  | .error e => (p, .error e)

/-- `step` with the two pinned functions. -/
def step (s : Sys) : Op → Sys
  | .updateSigner id =>
    match aget s.signers id with
    | some t => { s with proxy := (exec s.proxy (.updateSigner t.info)).1 }
    | none => s
  | .sign id m ovr =>
    match aget s.signers id with
    | none => s
    | some t =>
      match processSignerRequest t m ovr with
      | .error _ => s
      | .ok (t', r) =>
        { s with signers := aput s.signers id t', resps := (id, r.body) :: s.resps,
                 nonces := m.clear.nonce :: s.nonces }
  | o => KM.Ta.step s o

def run : Sys → List Op → Option Sys
  | s, [] => some s
  | s, o :: t => if admissible s o then run (step s o) t else none

end KM.Ta.Pinned
