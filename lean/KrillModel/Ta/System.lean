/-
The trust anchor proxy, any number of honest signers, the children's requests coming in through
the manager glue and an adversarial network in between – as one transition system with ghost
bookkeeping.  Import-free.

The network is Dolev–Yao: every message ever signed is known to everybody and may be delivered
to anybody any number of times in any order, next to arbitrary messages signed with other keys
or altered in their clear text.  What the network cannot do is produce a signature of an honest
key on a content that key's owner never signed (`admissible`).
-/
import KrillModel.Ta.Signer
namespace KM.Ta

structure Sys where
  proxy    : Proxy
  /-- the honest signers, by ID key (several after re-initialisation; other pairs' signers) -/
  signers  : List (Key × Signer) := []
  /-- contents ever signed with the proxy's ID key -/
  reqs     : List ReqBody := []
  /-- contents ever signed by an honest signer, with its ID key -/
  resps    : List (Key × RespBody) := []
  /-- every nonce that has occurred in any message or state -/
  nonces   : List Nonce := []
  /-- ghost: `ChildRequestAdded` events -/
  added    : List CK := []
  /-- ghost: entries of accepted signer responses (known children only, as `apply` does) -/
  answered : List (CK × Resp) := []
  /-- ghost: responses handed to a child -/
  given    : List (CK × Resp) := []
  deriving Repr

inductive Op
  | addChild (c : Child) (res : List Nat)
  /-- a request of child `c` arrives at the manager (`ta_slow_rfc6492_request`) -/
  | childRequest (c : Child) (r : Req)
  | makeRequest (n : Nonce)
  /-- `ta_proxy_signer_get_request`: signs the current open requests under the open nonce -/
  | getRequest
  /-- a signer is initialised (first time, again after loss of its state, or for another proxy) -/
  | signerInit (id proxyKey taKey : Key) (number : Option Nat)
  | addSigner (id : Key)
  | updateSigner (id : Key)
  /-- signer `id` is given message `m` (any message) -/
  | sign (id : Key) (m : Signed ReqBody) (override : Option Nat)
  /-- the proxy is given message `m` (any message) -/
  | respond (m : Signed RespBody)
  deriving Repr

/-- What the network may do in state `s`. -/
def admissible (s : Sys) : Op → Bool
  | .makeRequest n => !(s.nonces.contains n)
  | .signerInit id _ _ _ => !(ahas s.signers id) && id != s.proxy.idKey
  | .addSigner id | .updateSigner id =>
    match aget s.signers id with
    | some t => t.proxyKey == s.proxy.idKey
    | none => false
  | .sign _ m _ => m.signer != s.proxy.idKey || s.reqs.contains m.body
  | .respond m => !(ahas s.signers m.signer) || s.resps.contains (m.signer, m.body)
  | _ => true

def entryKnown (p : Proxy) (e : CK × Resp) : Bool := p.known e.1.1

def step (s : Sys) : Op → Sys
  | .addChild c res => { s with proxy := (exec s.proxy (.addChild c res)).1 }
  | .childRequest c r =>
    let out := taSlowRequest s.proxy c r
    { s with proxy := out.1,
             given := (match out.2 with
               | .response x => ((c, r.key), x) :: s.given
               | _ => s.given),
             added := if out.2 = .notPerformed 1104 then (c, r.key) :: s.added else s.added }
  | .makeRequest n =>
    { s with proxy := (exec s.proxy (.makeSignerRequest n)).1, nonces := n :: s.nonces }
  | .getRequest =>
    match getSignerRequest s.proxy with
    | .ok m => { s with reqs := m.body :: s.reqs }
    | .error _ => s
  | .signerInit id pk tk num =>
    { s with signers := aput s.signers id (Signer.init id pk tk num) }
  | .addSigner id =>
    match aget s.signers id with
    | some t => { s with proxy := (exec s.proxy (.addSigner t.info)).1 }
    | none => s
  | .updateSigner id =>
    match aget s.signers id with
    | some t => { s with proxy := (exec s.proxy (.updateSigner t.info)).1 }
    | none => s
  | .sign id m ovr =>
    match aget s.signers id with
    | none => s
    | some t =>
      match processSignerRequest t m ovr with
      | .error _ => s
      | .ok (t', r) =>
        { s with signers := aput s.signers id t', resps := (id, r.body) :: s.resps,
                 nonces := m.clear.nonce :: s.nonces }
  | .respond m =>
    match process s.proxy (.processSignerResponse m) with
    | .error _ => s
    | .ok evs =>
      { s with proxy := applyAll s.proxy evs,
               answered := (m.clear.entries.filter (entryKnown s.proxy)).reverse ++ s.answered }

/-- Runs: every step admissible in the state it is taken in. -/
def run : Sys → List Op → Option Sys
  | s, [] => some s
  | s, o :: t => if admissible s o then run (step s o) t else none

def Sys.init (proxyKey : Key) : Sys := { proxy := Proxy.init proxyKey }

/-! ### command histories of the proxy alone -/

structure Tally where
  proxy    : Proxy
  /-- successful `MakeSignerRequest` commands -/
  made     : Nat := 0
  /-- successful `ProcessSignerResponse` commands -/
  accepted : Nat := 0

def execTally (t : Tally) (c : Cmd) : Tally :=
  match exec t.proxy c, c with
  | (p', .ok _), .makeSignerRequest _ => { t with proxy := p', made := t.made + 1 }
  | (p', .ok _), .processSignerResponse _ => { t with proxy := p', accepted := t.accepted + 1 }
  | (p', _), _ => { t with proxy := p' }

def execAll (p : Proxy) (cs : List Cmd) : Tally := cs.foldl execTally { proxy := p }

def openN (p : Proxy) : Nat := if p.openNonce.isSome then 1 else 0

/-- Admissible and benign-free runs are `run`; this is `run` restricted by a further predicate. -/
def runWith (ok : Sys → Op → Bool) : Sys → List Op → Option Sys
  | s, [] => some s
  | s, o :: t => if admissible s o && ok s o then runWith ok (step s o) t else none

/-! ### ghost counters -/

def cnt {α} [DecidableEq α] (l : List α) (a : α) : Nat := l.count a

def openReqN (p : Proxy) (ck : CK) : Nat := if ahas p.openReq ck then 1 else 0
def openRespN (p : Proxy) (ck : CK) : Nat := if ahas p.openResp ck then 1 else 0

def keysOf {β} (l : List (CK × β)) : List CK := l.map (·.1)

/-- Number of entries for `(child, key)`, whatever the response. -/
def cntK {κ β} [DecidableEq κ] (l : List (κ × β)) (k : κ) : Nat := (l.map (·.1)).count k

/-- Executable form of the exactly-once accounting, for one `(child, key)`. -/
def exactlyOnceAt (s : Sys) (ck : CK) : Bool :=
  cntK s.answered ck == cntK s.given ck + openRespN s.proxy ck &&
  cntK s.answered ck + openReqN s.proxy ck ≤ cnt s.added ck

end KM.Ta
