/-
Helper lemmas for the trust anchor model (no property statements).
-/
import KrillModel.Ta.System
namespace KM.Ta

/-! ### association lists -/

section alist
variable {κ β : Type} [DecidableEq κ]

theorem aget_adel (l : List (κ × β)) (k k' : κ) :
    aget (adel l k) k' = if k' = k then none else aget l k' := by
  induction l with
  | nil => simp [adel, aget]
  | cons h t ih =>
    obtain ⟨hk, hv⟩ := h
    simp only [adel, List.filter] at ih ⊢
    by_cases h1 : hk = k
    · subst h1
      simp only [decide_true, Bool.not_true]
      rw [ih]
      by_cases h2 : k' = hk
      · simp [h2]
      · have : ¬ hk = k' := fun e => h2 e.symm
        simp [h2, aget, this]
    · simp only [h1, decide_false, Bool.not_false, aget]
      by_cases h3 : hk = k'
      · subst h3; simp [h1]
      · simp only [h3, if_false]; exact ih

theorem aget_aput (l : List (κ × β)) (k k' : κ) (v : β) :
    aget (aput l k v) k' = if k = k' then some v else aget l k' := by
  unfold aput
  simp only [aget]
  by_cases h : k = k'
  · simp [h]
  · have : ¬ k' = k := fun e => h e.symm
    simp [h, aget_adel, this]

theorem ahas_adel (l : List (κ × β)) (k k' : κ) :
    ahas (adel l k) k' = (ahas l k' && !decide (k' = k)) := by
  unfold ahas
  rw [aget_adel]
  by_cases h : k' = k <;> simp [h]

theorem ahas_aput (l : List (κ × β)) (k k' : κ) (v : β) :
    ahas (aput l k v) k' = (decide (k = k') || ahas l k') := by
  unfold ahas
  rw [aget_aput]
  by_cases h : k = k' <;> simp [h]

theorem ahas_iff_mem (l : List (κ × β)) (k : κ) :
    ahas l k = true ↔ k ∈ l.map (·.1) := by
  induction l with
  | nil => simp [ahas, aget]
  | cons h t ih =>
    obtain ⟨hk, hv⟩ := h
    unfold ahas at ih ⊢
    simp only [aget, List.map_cons, List.mem_cons]
    by_cases h1 : hk = k
    · simp [h1]
    · have : ¬ k = hk := fun e => h1 e.symm
      simp [h1, this, ih]

theorem ahas_false_iff (l : List (κ × β)) (k : κ) :
    ahas l k = false ↔ k ∉ l.map (·.1) := by
  rw [← ahas_iff_mem]; simp

theorem map_fst_adel (l : List (κ × β)) (k : κ) :
    (adel l k).map (·.1) = (l.map (·.1)).filter (fun x => !decide (x = k)) := by
  unfold adel
  induction l with
  | nil => rfl
  | cons h t ih =>
    simp only [List.filter, List.map_cons]
    by_cases h1 : h.1 = k
    · simp [h1, ih]
    · simp [h1, ih]

theorem nodup_adel (l : List (κ × β)) (k : κ) (h : (l.map (·.1)).Nodup) :
    ((adel l k).map (·.1)).Nodup := by
  rw [map_fst_adel]
  exact List.Pairwise.filter _ h

theorem nodup_aput (l : List (κ × β)) (k : κ) (v : β) (h : (l.map (·.1)).Nodup) :
    ((aput l k v).map (·.1)).Nodup := by
  unfold aput
  simp only [List.map_cons, List.nodup_cons]
  refine ⟨?_, nodup_adel l k h⟩
  rw [← ahas_false_iff, ahas_adel]
  simp

/-- With unique keys, the number of entries for a key is 0 or 1. -/
theorem count_keys (l : List (κ × β)) (k : κ) (h : (l.map (·.1)).Nodup) :
    (l.map (·.1)).count k = if ahas l k then 1 else 0 := by
  induction l with
  | nil => simp [ahas, aget]
  | cons hd t ih =>
    obtain ⟨hk, hv⟩ := hd
    simp only [List.map_cons, List.nodup_cons] at h
    have ih' := ih h.2
    by_cases h1 : hk = k
    · subst h1
      have hz : (t.map (·.1)).count hk = 0 := List.count_eq_zero_of_not_mem h.1
      simp [hz, ahas, aget]
    · have : ahas ((hk, hv) :: t) k = ahas t k := by simp [ahas, aget, h1]
      rw [this, ← ih']
      simp [h1]

end alist

/-! ### an accepted response, entry by entry -/

theorem applyEntry_children (p : Proxy) (e : CK × Resp) :
    (applyEntry p e).children = p.children := by
  unfold applyEntry; split <;> rfl

theorem applyEntry_misc (p : Proxy) (e : CK × Resp) :
    (applyEntry p e).idKey = p.idKey ∧ (applyEntry p e).signer = p.signer ∧
    (applyEntry p e).openNonce = p.openNonce ∧ (applyEntry p e).repo = p.repo := by
  unfold applyEntry; split <;> simp

theorem fold_children (es : List (CK × Resp)) (p : Proxy) :
    (es.foldl applyEntry p).children = p.children := by
  induction es generalizing p with
  | nil => rfl
  | cons e t ih => simp only [List.foldl]; rw [ih, applyEntry_children]

theorem fold_misc (es : List (CK × Resp)) (p : Proxy) :
    (es.foldl applyEntry p).idKey = p.idKey ∧ (es.foldl applyEntry p).signer = p.signer ∧
    (es.foldl applyEntry p).openNonce = p.openNonce ∧ (es.foldl applyEntry p).repo = p.repo := by
  induction es generalizing p with
  | nil => simp
  | cons e t ih =>
    simp only [List.foldl]
    obtain ⟨a, b, c, d⟩ := ih (applyEntry p e)
    obtain ⟨a', b', c', d'⟩ := applyEntry_misc p e
    exact ⟨a.trans a', b.trans b', c.trans c', d.trans d'⟩

/-- The entries of a response that `apply` acts on: those of known children. -/
def actedOn (ch : List (Child × List Nat)) (es : List (CK × Resp)) : List CK :=
  keysOf (es.filter (fun e => ahas ch e.1.1))

theorem fold_openReq (ch : List (Child × List Nat)) (es : List (CK × Resp)) (p : Proxy)
    (hch : p.children = ch) (ck : CK) :
    ahas (es.foldl applyEntry p).openReq ck = true ↔
      ahas p.openReq ck = true ∧ ck ∉ actedOn ch es := by
  induction es generalizing p with
  | nil => simp [actedOn, keysOf]
  | cons e t ih =>
    simp only [List.foldl]
    rw [ih (applyEntry p e) (by rw [applyEntry_children, hch])]
    unfold actedOn keysOf at *
    simp only [List.filter]
    by_cases hk : ahas ch e.1.1 = true
    · have hk' : p.known e.1.1 = true := by unfold Proxy.known; rw [hch]; exact hk
      simp only [hk, List.map_cons, List.mem_cons, not_or]
      unfold applyEntry
      simp only [hk', if_true, ahas_adel]
      constructor
      · rintro ⟨h1, h2⟩
        simp only [Bool.and_eq_true, Bool.not_eq_true', decide_eq_false_iff_not] at h1
        exact ⟨h1.1, h1.2, h2⟩
      · rintro ⟨h1, h2, h3⟩
        simp only [Bool.and_eq_true, Bool.not_eq_true', decide_eq_false_iff_not]
        exact ⟨⟨h1, h2⟩, h3⟩
    · have hk' : p.known e.1.1 = false := by
        unfold Proxy.known; rw [hch]; simpa using hk
      have hk2 : ahas ch e.1.1 = false := by simpa using hk
      simp only [hk2]
      unfold applyEntry
      simp [hk']

theorem fold_openResp (ch : List (Child × List Nat)) (es : List (CK × Resp)) (p : Proxy)
    (hch : p.children = ch) (ck : CK) :
    ahas (es.foldl applyEntry p).openResp ck = true ↔
      ahas p.openResp ck = true ∨ ck ∈ actedOn ch es := by
  induction es generalizing p with
  | nil => simp [actedOn, keysOf]
  | cons e t ih =>
    simp only [List.foldl]
    rw [ih (applyEntry p e) (by rw [applyEntry_children, hch])]
    unfold actedOn keysOf at *
    simp only [List.filter]
    by_cases hk : ahas ch e.1.1 = true
    · have hk' : p.known e.1.1 = true := by unfold Proxy.known; rw [hch]; exact hk
      simp only [hk, List.map_cons, List.mem_cons]
      unfold applyEntry
      simp only [hk', if_true, ahas_aput]
      constructor
      · rintro (h1 | h2)
        · simp only [Bool.or_eq_true, decide_eq_true_eq] at h1
          rcases h1 with h1 | h1
          · exact Or.inr (Or.inl h1.symm)
          · exact Or.inl h1
        · exact Or.inr (Or.inr h2)
      · rintro (h1 | h1 | h1)
        · left; simp [h1]
        · left; simp [h1]
        · exact Or.inr h1
    · have hk' : p.known e.1.1 = false := by
        unfold Proxy.known; rw [hch]; simpa using hk
      have hk2 : ahas ch e.1.1 = false := by simpa using hk
      simp only [hk2]
      unfold applyEntry
      simp [hk']

theorem fold_nodup (es : List (CK × Resp)) (p : Proxy)
    (h1 : (keysOf p.openReq).Nodup) (h2 : (keysOf p.openResp).Nodup) :
    (keysOf (es.foldl applyEntry p).openReq).Nodup ∧
    (keysOf (es.foldl applyEntry p).openResp).Nodup := by
  induction es generalizing p with
  | nil => exact ⟨h1, h2⟩
  | cons e t ih =>
    simp only [List.foldl]
    apply ih
    · unfold applyEntry; split
      · exact nodup_adel _ _ h1
      · exact h1
    · unfold applyEntry; split
      · exact nodup_aput _ _ _ h2
      · exact h2

/-! ### the stored responses are the signer's, value for value -/

theorem applyEntry_openResp_get_ne (p : Proxy) (e : CK × Resp) (ck : CK) (hne : e.1 ≠ ck) :
    aget (applyEntry p e).openResp ck = aget p.openResp ck := by
  unfold applyEntry
  split
  · simp only [aget_aput, hne, if_false]
  · rfl

theorem fold_openResp_get_other (es : List (CK × Resp)) (p : Proxy) (ck : CK)
    (h : ck ∉ keysOf es) : aget (es.foldl applyEntry p).openResp ck = aget p.openResp ck := by
  induction es generalizing p with
  | nil => rfl
  | cons e t ih =>
    simp only [List.foldl]
    simp only [keysOf, List.map_cons, List.mem_cons, not_or] at h
    rw [ih (applyEntry p e) h.2]
    exact applyEntry_openResp_get_ne p e ck (fun x => h.1 x.symm)

/-- After an accepted response every entry (of a known child, keys pairwise different) is stored
as the waiting response for its child and key – exactly the signer's value. -/
theorem fold_openResp_get (es : List (CK × Resp)) (p : Proxy)
    (hnd : (keysOf es).Nodup) (hk : ∀ e ∈ es, p.known e.1.1 = true) (e : CK × Resp) (he : e ∈ es) :
    aget (es.foldl applyEntry p).openResp e.1 = some e.2 := by
  induction es generalizing p with
  | nil => cases he
  | cons x t ih =>
    simp only [List.foldl]
    simp only [keysOf, List.map_cons, List.nodup_cons] at hnd
    have hk' : ∀ e ∈ t, (applyEntry p x).known e.1.1 = true := by
      intro e' he'
      have := hk e' (List.mem_cons_of_mem _ he')
      simp only [Proxy.known] at this ⊢
      rw [applyEntry_children]; exact this
    rcases List.mem_cons.mp he with rfl | he
    · rw [fold_openResp_get_other t (applyEntry p e) e.1 hnd.1]
      have hke := hk e List.mem_cons_self
      unfold applyEntry
      simp only [hke, if_true, aget_aput]
    · exact ih (applyEntry p x) hnd.2 hk' he

/-! ### the signer answers exactly the requests it was given -/

theorem addIssued_number (o : Objects) (k : Key) (n : Nat) :
    (o.addIssued k n).number = o.number := by
  unfold Objects.addIssued; split <;> rfl

theorem revokeIssued_number (o o' : Objects) (k : Key) (h : o.revokeIssued k = some o') :
    o'.number = o.number := by
  unfold Objects.revokeIssued at h
  split at h
  · cases h; rfl
  · cases h

theorem signOne_spec (res : List (Child × List Nat)) (a a' : Acc) (e : CK × Req)
    (h : signOne res a e = .ok a') :
    (∃ x, a'.out = a.out ++ [(e.1, x)]) ∧ a'.objects.number = a.objects.number := by
  unfold signOne at h
  cases hk : e.2.kind
  · simp only [hk] at h
    by_cases c1 : e.2.cls ≠ 0
    · simp [c1] at h
    · simp only [c1, if_false] at h
      cases c2 : subset e.2.limit ((aget res e.1.1).getD []) with
      | false => simp [c2] at h
      | true =>
        cases c3 : e.2.csrOk with
        | false => simp [c2, c3] at h
        | true =>
          simp only [c2, c3, Bool.not_true, Bool.false_eq_true, if_false, Except.ok.injEq] at h
          subst h
          exact ⟨⟨_, rfl⟩, addIssued_number _ _ _⟩
  · simp only [hk] at h
    by_cases c1 : e.2.cls ≠ 0
    · simp [c1] at h
    · simp only [c1, if_false] at h
      cases ho : a.objects.revokeIssued e.1.2 with
      | none => simp [ho] at h
      | some o =>
        simp only [ho, Except.ok.injEq] at h
        subst h
        exact ⟨⟨_, rfl⟩, revokeIssued_number _ _ _ ho⟩

theorem signAll_spec (res : List (Child × List Nat)) (es : List (CK × Req)) (a a' : Acc)
    (h : signAll res a es = .ok a') :
    keysOf a'.out = keysOf a.out ++ keysOf es ∧ a'.objects.number = a.objects.number := by
  induction es generalizing a with
  | nil => simp only [signAll] at h; cases h; simp [keysOf]
  | cons e t ih =>
    simp only [signAll] at h
    cases h1 : signOne res a e with
    | error x => simp [h1] at h
    | ok a1 =>
      simp only [h1] at h
      obtain ⟨⟨x, hx⟩, hn⟩ := signOne_spec res a a1 e h1
      obtain ⟨ih1, ih2⟩ := ih a1 h
      refine ⟨?_, ih2.trans hn⟩
      rw [ih1, hx]
      simp [keysOf]

theorem signOne_kind (res : List (Child × List Nat)) (a a' : Acc) (e : CK × Req)
    (h : signOne res a e = .ok a') :
    ∃ x, a'.out = a.out ++ [(e.1, x)] ∧ e.2.matchesResponse x = true ∧ x ≠ .error := by
  unfold signOne at h
  cases hk : e.2.kind
  · simp only [hk] at h
    by_cases c1 : e.2.cls ≠ 0
    · simp [c1] at h
    · simp only [c1, if_false] at h
      cases c2 : subset e.2.limit ((aget res e.1.1).getD []) with
      | false => simp [c2] at h
      | true =>
        cases c3 : e.2.csrOk with
        | false => simp [c2, c3] at h
        | true =>
          simp only [c2, c3, Bool.not_true, Bool.false_eq_true, if_false, Except.ok.injEq] at h
          subst h
          exact ⟨_, rfl, by simp [Req.matchesResponse, hk], by intro x; cases x⟩
  · simp only [hk] at h
    by_cases c1 : e.2.cls ≠ 0
    · simp [c1] at h
    · simp only [c1, if_false] at h
      cases ho : a.objects.revokeIssued e.1.2 with
      | none => simp [ho] at h
      | some o =>
        simp only [ho, Except.ok.injEq] at h
        subst h
        exact ⟨_, rfl, by simp [Req.matchesResponse, hk], by intro x; cases x⟩

/-- Every answer the signer gives is for one of the requests, of the matching kind, never the
`Error` placeholder. -/
theorem signAll_kinds (res : List (Child × List Nat)) (es : List (CK × Req)) (a a' : Acc)
    (h : signAll res a es = .ok a') :
    ∀ o ∈ a'.out, o ∈ a.out ∨ ∃ e ∈ es, e.1 = o.1 ∧ e.2.matchesResponse o.2 = true ∧ o.2 ≠ .error := by
  induction es generalizing a with
  | nil => simp only [signAll] at h; cases h; intro o ho; exact Or.inl ho
  | cons e t ih =>
    simp only [signAll] at h
    cases h1 : signOne res a e with
    | error x => simp [h1] at h
    | ok a1 =>
      simp only [h1] at h
      obtain ⟨x, hx, hm, hne⟩ := signOne_kind res a a1 e h1
      intro o ho
      rcases ih a1 h o ho with h2 | ⟨e', he', h3⟩
      · rw [hx] at h2
        rcases List.mem_append.mp h2 with h2 | h2
        · exact Or.inl h2
        · simp only [List.mem_singleton] at h2
          subst h2
          exact Or.inr ⟨e, List.mem_cons_self, rfl, hm, hne⟩
      · exact Or.inr ⟨e', List.mem_cons_of_mem _ he', h3⟩

theorem processSignerRequest_ok (s s' : Signer) (m : Signed ReqBody) (ovr : Option Nat)
    (r : Signed RespBody) (h : processSignerRequest s m ovr = .ok (s', r)) :
    m.validFor s.proxyKey = true ∧ r.signer = s.idKey ∧ r.body = r.clear ∧ r.fresh = true ∧
    r.body.nonce = m.clear.nonce ∧ keysOf r.body.entries = keysOf m.clear.entries ∧
    s'.idKey = s.idKey ∧ s'.proxyKey = s.proxyKey ∧ s'.taKey = s.taKey ∧
    s'.objects = r.body.objects ∧
    r.body.objects.number = ovr.getD (s.objects.number + 1) ∧
    s.objects.number < r.body.objects.number := by
  unfold processSignerRequest at h
  by_cases hv : m.validFor s.proxyKey = true
  · simp only [hv, Bool.not_true, Bool.false_eq_true, if_false] at h
    cases ho : ovr.all fun v => decide (s.objects.number < v) with
    | false => simp [ho] at h
    | true =>
      simp only [ho, Bool.not_true, Bool.false_eq_true, if_false] at h
      cases ha : signAll m.clear.resources { objects := s.objects, serial := s.nextSerial } m.clear.entries with
      | error x => simp [ha] at h
      | ok a =>
        simp only [ha, Except.ok.injEq, Prod.mk.injEq] at h
        obtain ⟨h1, h2⟩ := h
        subst h1 h2
        obtain ⟨hk, hn⟩ := signAll_spec _ _ _ _ ha
        have hnum : (a.objects.republish ovr).number = ovr.getD (s.objects.number + 1) := by
          simp [Objects.republish, hn]
        refine ⟨hv, rfl, rfl, rfl, rfl, ?_, rfl, rfl, rfl, rfl, hnum, ?_⟩
        · simpa [keysOf] using hk
        · show s.objects.number < (a.objects.republish ovr).number
          rw [hnum]
          cases ovr with
          | none => simp
          | some v => simpa using ho
  · simp [hv] at h

theorem processSignerRequest_error_of_invalid (s : Signer) (m : Signed ReqBody) (ovr : Option Nat)
    (h : m.validFor s.proxyKey = false) :
    processSignerRequest s m ovr = .error .invalidSignature := by
  unfold processSignerRequest; simp [h]

/-! ### single commands of the proxy -/

theorem exec_error (p : Proxy) (c : Cmd) (e : Err) (h : process p c = .error e) :
    exec p c = (p, .error e) := by
  unfold exec; rw [h]

theorem exec_ok (p : Proxy) (c : Cmd) (evs : List Ev) (h : process p c = .ok evs) :
    exec p c = (applyAll p evs, .ok evs) := by
  unfold exec; rw [h]

/-- What `taSlowRequest` can do to the proxy. -/
inductive SlowOutcome (p : Proxy) (c : Child) (r : Req) : Proxy × Reply → Prop
  | unchanged (rep : Reply) (h1 : ∀ x, rep ≠ .response x) (h2 : rep ≠ .notPerformed 1104) :
      SlowOutcome p c r (p, rep)
  | given (x : Resp) (hx : aget p.openResp (c, r.key) = some x) (hk : p.known c = true)
      (hm : r.matchesResponse x = true) :
      SlowOutcome p c r ({ p with openResp := adel p.openResp (c, r.key) }, .response x)
  | added (hx : aget p.openResp (c, r.key) = none) (hk : p.known c = true) :
      SlowOutcome p c r ({ p with openReq := aput p.openReq (c, r.key) r }, .notPerformed 1104)

theorem taSlow_cases (p : Proxy) (c : Child) (r : Req) :
    SlowOutcome p c r (taSlowRequest p c r) := by
  unfold taSlowRequest
  cases hk : p.known c with
  | false => simp only [Bool.not_false, if_true]; exact .unchanged _ (by intro x h; cases h) (by intro h; cases h)
  | true =>
    simp only [Bool.not_true, Bool.false_eq_true, if_false]
    cases hx : aget p.openResp (c, r.key) with
    | some x =>
      simp only
      cases hm : r.matchesResponse x with
      | false =>
        simp only [Bool.false_eq_true, if_false]
        exact .unchanged _ (by intro x h; cases h) (by intro h; cases h)
      | true =>
        simp only [if_true]
        have hp : process p (.giveChildResponse c r.key) = .ok [.childResponseGiven c r.key] := by
          simp [process, hk, ahas, hx]
        rw [exec_ok _ _ _ hp]
        simp only [applyAll, List.foldl, apply]
        exact .given x hx hk hm
    | none =>
      simp only
      cases hmo : matchingOpenRequest p c r with
      | error e => exact .unchanged _ (by intro x h; cases h) (by intro h; cases h)
      | ok b =>
        cases b with
        | true => exact .unchanged _ (by intro x h; cases h) (by intro h; cases h)
        | false =>
          simp only
          cases hp : process p (.addChildRequest c r) with
          | error e =>
            rw [exec_error _ _ _ hp]
            exact .unchanged _ (by intro x h; cases h) (by intro h; cases h)
          | ok evs =>
            rw [exec_ok _ _ _ hp]
            have : evs = [.childRequestAdded c r] := by
              simp only [process, processAddChildRequest] at hp
              split at hp
              · cases hp
              · split at hp
                · split at hp; · cases hp
                  split at hp; · cases hp
                  split at hp; · cases hp
                  cases hp; rfl
                · split at hp; · cases hp
                  split at hp; · cases hp
                  cases hp; rfl
            subst this
            simp only [applyAll, List.foldl, apply]
            exact .added hx hk

end KM.Ta
