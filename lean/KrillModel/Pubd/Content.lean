/-
Model of the content side of the publication server:
`src/server/pubd/rrdp.rs` (`CurrentObjects`, `CurrentObjectUri`, `DeltaElements`,
`StagedElements::merge_new_elements`, `verify_delta_applies`, `apply_delta`),
`src/server/pubd/content.rs` (`objects_for_publisher`) and
`src/server/pubd/access.rs` (`publisher_rsync_base`), together with the parts of
rpki-rs `uri::Rsync` the decisions depend on (`Eq`, `canonical_module`, `relative_to`,
`is_parent_of`).

Quirks of the code that are modelled on purpose:

* `uri::Rsync` equality ignores the case of scheme and authority only; `eq_module` (used by
  the jail test) also ignores the case of the module name; `CurrentObjectUri` lower-cases
  scheme and authority (since fix 0b03ffe5; before, only if the authority contained an
  upper-case letter – `keyPinned`).
* staged elements are keyed by `uri::Rsync` (equality above) while current objects are keyed by
  `CurrentObjectUri`.
* handles may contain `/`; the publisher base is `<base><handle>/`, the handle `ta` gets the
  repository base itself.

Import-free so that the driver can be compiled as a `lean_exe`.
-/
namespace KM.Pubd

/-! ### URIs -/

/-- A name that is compared case-insensitively in places: its lower-case form and a tag that
identifies how it was written (`0` = written exactly as `canon`). -/
structure CiName where
  canon : String
  var   : Nat
deriving DecidableEq, Repr, Inhabited

def CiName.lower (n : CiName) : CiName := ⟨n.canon, 0⟩
def CiName.hasUpper (n : CiName) : Bool := n.var != 0
def CiName.eqIgnoreCase (a b : CiName) : Bool := a.canon == b.canon

/-- `rsync://<host>/<module>/<segs joined by '/'>[/]`. -/
structure Uri where
  scheme : CiName
  host   : CiName
  module : CiName
  segs   : List String
  dir    : Bool
deriving DecidableEq, Repr, Inhabited

def rsyncLower : CiName := ⟨"rsync", 0⟩

/-- `impl PartialEq for uri::Rsync`: scheme and authority ignoring case, the rest exactly. -/
def rsEq (a b : Uri) : Bool :=
  a.scheme.eqIgnoreCase b.scheme && a.host.eqIgnoreCase b.host &&
  a.module == b.module && a.segs == b.segs && a.dir == b.dir

/-- `CurrentObjectUri::from(&uri::Rsync)`: `rsync://` + canonical (lower-case) authority + module
name + path (fix 0b03ffe5). -/
def key (u : Uri) : Uri := { u with scheme := rsyncLower, host := u.host.lower }

/-- PINNED TREE (before fix 0b03ffe5), kept as a counter-model only: the key was
`canonical_module() + path()`, and rpki-rs `canonical_module` lower-cases scheme and authority
only if the authority contains an upper-case letter. -/
def keyPinned (u : Uri) : Uri :=
  if u.host.hasUpper then { u with scheme := rsyncLower, host := u.host.lower } else u

/-- `uri::Rsync::eq_module`: scheme, authority and module name ignoring case. -/
def eqModule (a b : Uri) : Bool :=
  a.scheme.eqIgnoreCase b.scheme && a.host.eqIgnoreCase b.host &&
  a.module.eqIgnoreCase b.module

/-- `jail.is_parent_of(u)`: same module, the jail's path segments are a proper prefix of
`u`'s. -/
def inJail (jail u : Uri) : Bool :=
  eqModule jail u && jail.segs.isPrefixOf u.segs && decide (jail.segs.length < u.segs.length)

/-- `u.relative_to(base)` as path segments (`none` if `base` is not a parent or equal). -/
def relPath (base u : Uri) : Option (List String) :=
  if eqModule base u && base.segs.isPrefixOf u.segs then some (u.segs.drop base.segs.length)
  else none

/-- Well-formed rsync URIs (what the parser of rpki-rs accepts): the scheme is `rsync` in any
case.  For these `rsEq` and equality of `key` coincide. -/
def Uri.canon (u : Uri) : Bool := u.scheme.canon == "rsync"

/-! ### Handles and the publisher base (`RepositoryAccess::publisher_rsync_base`) -/

/-- A publisher handle split at `/` (`"a/b"` is `["a", "b"]`, `"a/"` is `["a", ""]`). -/
abbrev Handle := List String

def taHandle : Handle := ["ta"]

def segOk (s : String) : Bool := s != "" && s.toList.all (· != '\\')

/-- `<base><handle>/` parsed as an rsync URI; `none` when that is not a valid URI (empty path
segment, backslash).  The handle `ta` gets the repository base. -/
def publisherBase (base : Uri) (h : Handle) : Option Uri :=
  if h == taHandle then some base
  else if h.all segOk then some { base with segs := base.segs ++ h, dir := true }
  else none

/-! ### Objects -/

structure Content where
  id  : Nat
  /-- exact length in bytes -/
  len : Nat
deriving DecidableEq, Repr, Inhabited

abbrev Hash := Nat

/-- Hashes are injective on contents (symbolic). -/
def Content.hash (c : Content) : Hash := c.id

/-- `Base64::size_approx`: `(len(base64) >> 2) * 3` with padded base64. -/
def Content.size (c : Content) : Nat := ((c.len + 2) / 3) * 3

/-- `CurrentObjects`: a map from `CurrentObjectUri` to content, as an association list. -/
abbrev Objs := List (Uri × Content)

def Objs.get? (o : Objs) (k : Uri) : Option Content := o.lookup k
def Objs.erase (o : Objs) (k : Uri) : Objs := o.filter (fun p => p.1 != k)
def Objs.insert (o : Objs) (k : Uri) (c : Content) : Objs := (k, c) :: o.erase k
def Objs.size (o : Objs) : Nat := (o.map (fun p => p.2.size)).sum

/-! ### Delta elements -/

inductive Elem where
  | publish  (uri : Uri) (c : Content)
  | update   (uri : Uri) (h : Hash) (c : Content)
  | withdraw (uri : Uri) (h : Hash)
deriving DecidableEq, Repr, Inhabited

def Elem.uri : Elem → Uri
  | .publish u _ => u
  | .update u _ _ => u
  | .withdraw u _ => u

def Elem.isPublish : Elem → Bool | .publish .. => true | _ => false
def Elem.isUpdate : Elem → Bool | .update .. => true | _ => false
def Elem.isWithdraw : Elem → Bool | .withdraw .. => true | _ => false

/-- What an element leaves at its key. -/
def Elem.effect : Elem → Option Content
  | .publish _ c => some c
  | .update _ _ c => some c
  | .withdraw _ _ => none

/-- `approx size` of an element in an RRDP delta (`DeltaElements::size_approx`). -/
def Elem.size : Elem → Nat
  | .publish _ c => c.size
  | .update _ _ c => c.size
  | .withdraw _ _ => 0

/-- A publication delta in protocol order. -/
abbrev Delta := List Elem

/-- `DeltaElements::from(PublishDelta)` + the order every consumer uses: all publishes, then
all updates, then all withdraws, each in protocol order. -/
def Delta.ordered (d : Delta) : List Elem :=
  d.filter Elem.isPublish ++ d.filter Elem.isUpdate ++ d.filter Elem.isWithdraw

inductive DeltaErr where
  | outside (u : Uri)
  | present (u : Uri)
  | noMatch (u : Uri)
deriving DecidableEq, Repr, Inhabited

/-- One step of `CurrentObjects::verify_delta_applies`. -/
def checkElem (objs : Objs) (jail : Uri) : Elem → Option DeltaErr
  | .publish u _ =>
      if !inJail jail u then some (.outside u)
      else if (objs.get? (key u)).isSome then some (.present u)
      else none
  | .update u h _ =>
      if !inJail jail u then some (.outside u)
      else if (objs.get? (key u)).map Content.hash != some h then some (.noMatch u)
      else none
  | .withdraw u h =>
      if !inJail jail u then some (.outside u)
      else if (objs.get? (key u)).map Content.hash != some h then some (.noMatch u)
      else none

/-- `verify_delta_applies`: publishes, then updates, then withdraws; the first error wins. -/
def verifyDelta (objs : Objs) (jail : Uri) (d : Delta) : Option DeltaErr :=
  d.ordered.findSome? (checkElem objs jail)

def applyElem (objs : Objs) : Elem → Objs
  | .publish u c => objs.insert (key u) c
  | .update u _ c => objs.insert (key u) c
  | .withdraw u _ => objs.erase (key u)

/-- `CurrentObjects::apply_delta`. -/
def applyDelta (objs : Objs) (d : Delta) : Objs := d.ordered.foldl applyElem objs

/-! ### Staged elements -/

/-- `StagedElements`: at most one element per `uri::Rsync` (equality `rsEq`). -/
abbrev Staged := List Elem

/-- The staged operations, parametrised by the equality on URIs that identifies an entry
(`rsEq` in the code). -/
def Staged.findWith (eqv : Uri → Uri → Bool) (s : Staged) (u : Uri) : Option Elem :=
  s.find? (fun e => eqv e.uri u)

def Staged.removeWith (eqv : Uri → Uri → Bool) (s : Staged) (u : Uri) : Staged :=
  s.filter (fun e => !eqv e.uri u)

def Staged.putWith (eqv : Uri → Uri → Bool) (s : Staged) (e : Elem) : Staged :=
  e :: Staged.removeWith eqv s e.uri

/-- `merge_new_elements` for one element: the twelve cases of rrdp.rs:1860-1982. -/
def mergeElemWith (eqv : Uri → Uri → Bool) (s : Staged) : Elem → Staged
  | .publish u c =>
      match Staged.findWith eqv s u with
      | some (.publish _ _) => Staged.putWith eqv s (.publish u c)
      | some (.update u0 h0 _) => Staged.putWith eqv s (.update u0 h0 c)
      | some (.withdraw _ h0) => Staged.putWith eqv s (.update u h0 c)
      | none => Staged.putWith eqv s (.publish u c)
  | .update u h c =>
      match Staged.findWith eqv s u with
      | some (.publish u0 _) => Staged.putWith eqv s (.publish u0 c)
      | some (.update u0 h0 _) => Staged.putWith eqv s (.update u0 h0 c)
      | some (.withdraw _ h0) => Staged.putWith eqv s (.update u h0 c)
      | none => Staged.putWith eqv s (.update u h c)
  | .withdraw u h =>
      match Staged.findWith eqv s u with
      | some (.publish _ _) => Staged.removeWith eqv s u
      | some (.update _ h0 _) => Staged.putWith eqv s (.withdraw u h0)
      | some (.withdraw _ _) => s
      | none => Staged.putWith eqv s (.withdraw u h)

def mergeNewWith (eqv : Uri → Uri → Bool) (s : Staged) (d : Delta) : Staged :=
  d.ordered.foldl (mergeElemWith eqv) s

def mergeElem : Staged → Elem → Staged := mergeElemWith rsEq
/-- `StagedElements::merge_new_elements`. -/
def mergeNew : Staged → Delta → Staged := mergeNewWith rsEq

/-- The same with entries identified by their object key (used in proofs; coincides with
`mergeNew` on canonical URIs). -/
def keyEq (a b : Uri) : Bool := key a == key b

/-- `RepositoryContent::objects_for_publisher`: current objects with the staged elements
applied. -/
def objectsFor (cur : Objs) (s : Staged) : Objs := applyDelta cur s

/-- `process_remove_publisher` / `try_to_withdraw_elements`: withdraws for everything. -/
def withdrawAll (o : Objs) : Delta := o.map (fun p => Elem.withdraw p.1 p.2.hash)

/-- `get_matching_withdraws`: the object itself or, for a `match` ending in `/`, everything
whose key starts with it. -/
def matchesDel (del k : Uri) : Bool :=
  k == key del ||
  ((key del).dir && (key del).scheme == k.scheme && (key del).host == k.host &&
    (key del).module == k.module && (key del).segs.isPrefixOf k.segs &&
    (decide ((key del).segs.length < k.segs.length) || k.dir))

def matchingWithdraws (o : Objs) (del : Uri) : Delta :=
  (o.filter (fun p => matchesDel del p.1)).map (fun p => Elem.withdraw p.1 p.2.hash)

end KM.Pubd
