/-
Model of the file writers of the publication server over abstract file systems:

* `RrdpServer::update_rrdp_files` (`src/server/pubd/rrdp.rs:460-831`): the list of file-system
  mutations it performs (reuse the deltas named by the old notification, write the missing
  deltas, the snapshot, `new-notification.xml`, rename it over `notification.xml`, clean up),
* `RsyncdStore::write` (`src/server/pubd/rsync.rs:72-156`): fill `tmp-<serial>`, rename
  `current` to `old`, rename `tmp-<serial>` to `current`, remove `old`,
* `commons::file::save` / `create_file`: files are truncated when opened (fix 4ab08295; the
  behaviour of the pinned tree, no truncation, is kept in the `…Pinned` definitions),
* a relying party's RRDP client (strict RFC 8182 application of deltas).

A *plan* is a list of phases; the mutations of an ordered phase happen in list order, those of
an unordered phase (directory listings, hash-map iteration) in any order.  `matchLog` decides
whether an observed sequence of mutations is a run (or an interrupted run: a prefix) of a plan;
the driver uses it on the mutation log of the implementation and the cut theorems are stated
about it.
-/
import KrillModel.Pubd.Rrdp
namespace KM.Pubd

/-! ### paths -/

inductive Seg where
  | sess (n : Nat)     -- a session directory `<uuid>`
  | num  (n : Nat)     -- a serial directory
  | rnd  (n : Nat)     -- a random directory
  | name (s : String)
deriving DecidableEq, Repr, Inhabited

abbrev Path := List Seg

/-! ### RRDP files -/

/-- Content of a snapshot or delta file (what its hash stands for). -/
inductive DataFile where
  | snapshot (session serial : Nat) (objs : Objs)
  | delta (session serial : Nat) (elems : List Elem)
deriving DecidableEq, Repr, Inhabited

/-- URI and hash of a file as listed in a notification. -/
structure DataRef where
  path : Path
  data : DataFile
deriving DecidableEq, Repr, Inhabited

structure Notif where
  session : Nat
  serial  : Nat
  snap    : DataRef
  /-- in the order written: newest first -/
  deltas  : List (Nat × DataRef)
deriving DecidableEq, Repr, Inhabited

def digits (n : Nat) : Nat := (toString n).length

/-- Orders notification files by length in bytes: more delta entries are longer; for the same
number, longer serial numbers are longer (session ids, random components and hashes have fixed
lengths). -/
def Notif.weight (n : Notif) : Nat × Nat :=
  (n.deltas.length, 2 * digits n.serial + (n.deltas.map (fun d => 2 * digits d.1)).sum)

def weightLe (a b : Nat × Nat) : Bool := a.1 < b.1 || (a.1 == b.1 && a.2 ≤ b.2)

inductive FileC where
  | data (d : DataFile)
  | notif (n : Notif)
  /-- not a well-formed file: a shorter file written over a longer one of weight `w` -/
  | garbage (w : Nat × Nat)
deriving DecidableEq, Repr, Inhabited

/-- The files below `repo_dir/rrdp` (directories are implied by the files in them). -/
abbrev RrdpFs := List (Path × FileC)

def RrdpFs.get? (fs : RrdpFs) (p : Path) : Option FileC := fs.lookup p
def RrdpFs.remove (fs : RrdpFs) (p : Path) : RrdpFs := fs.filter (fun e => e.1 != p)
def RrdpFs.set (fs : RrdpFs) (p : Path) (c : FileC) : RrdpFs := (p, c) :: fs.remove p
def RrdpFs.removeTree (fs : RrdpFs) (p : Path) : RrdpFs :=
  fs.filter (fun e => !(p.isPrefixOf e.1))

/-- PINNED TREE (before fix 4ab08295), kept as a counter-model only: `create_file` +
`write_all` without truncation – a shorter file written over a longer one keeps its tail. -/
def writeOverPinned (old : Option FileC) (new : FileC) : FileC :=
  match old, new with
  | some (.notif o), .notif n => if weightLe o.weight n.weight then new else .garbage o.weight
  | some (.garbage w), .notif n => if weightLe w n.weight then new else .garbage w
  | _, _ => new

inductive Mut where
  | create (p : Path) (c : FileC)
  | rename (a b : Path)
  | removeTree (p : Path)
  | removeFile (p : Path)
  | removeAny (p : Path)
deriving DecidableEq, Repr, Inhabited

/-- `create_file` truncates (fix 4ab08295): a created file has exactly the new content. -/
def RrdpFs.apply (fs : RrdpFs) : Mut → RrdpFs
  | .create p c => fs.set p c
  | .rename a b =>
      match fs.get? a with
      | some c => (fs.remove a).set b c
      | none => fs
  | .removeTree p => fs.removeTree p
  | .removeFile p => fs.remove p
  | .removeAny p => fs.removeTree p

def RrdpFs.applyAll (fs : RrdpFs) (ms : List Mut) : RrdpFs := ms.foldl RrdpFs.apply fs

/-- PINNED TREE: mutations with non-truncating writes. -/
def RrdpFs.applyPinned (fs : RrdpFs) : Mut → RrdpFs
  | .create p c => fs.set p (writeOverPinned (fs.get? p) c)
  | m => fs.apply m

def RrdpFs.applyAllPinned (fs : RrdpFs) (ms : List Mut) : RrdpFs := ms.foldl RrdpFs.applyPinned fs

def notifPath : Path := [.name "notification.xml"]
def newNotifPath : Path := [.name "new-notification.xml"]

def deltaPath (session : Nat) (d : DeltaRec) : Path :=
  [.sess session, .num d.serial, .rnd d.rnd, .name "delta.xml"]
def snapshotPath (r : Rrdp) : Path :=
  [.sess r.session, .num r.serial, .rnd r.snapRnd, .name "snapshot.xml"]

def deltaFile (session : Nat) (d : DeltaRec) : DataFile := .delta session d.serial d.elems
def snapshotFile (r : Rrdp) : DataFile := .snapshot r.session r.serial (flatten r.snapshot)

/-- The notification on disk, if it parses. -/
def RrdpFs.notification (fs : RrdpFs) : Option Notif :=
  match fs.get? notifPath with
  | some (.notif n) => some n
  | _ => none

/-- `NotificationFile::sort_and_verify_deltas(None)` on the serial numbers: ascending order has
no gaps. -/
def insertAsc (x : Nat × DataRef) : List (Nat × DataRef) → List (Nat × DataRef)
  | [] => [x]
  | y :: ys => if x.1 ≤ y.1 then x :: y :: ys else y :: insertAsc x ys

def sortAsc (l : List (Nat × DataRef)) : List (Nat × DataRef) := l.foldr insertAsc []

def noGaps : List (Nat × DataRef) → Bool
  | [] => true
  | [_] => true
  | x :: y :: rest => x.1 + 1 == y.1 && noGaps (y :: rest)

/-- The entries of the old notification that `write_delta_files` re-uses (ascending). -/
def reusable (r : Rrdp) (old : Option Notif) : List (Nat × DataRef) :=
  match old with
  | none => []
  | some n =>
      if n.session != r.session then []
      else
        let sorted := sortAsc n.deltas
        if !noGaps sorted then []
        else match r.deltas.getLast? with
          | some last => sorted.filter (fun d => last.serial ≤ d.1)
          | none => []

/-- The deltas that have to be written (newest first): those newer than the last re-used one. -/
def deltasToWrite (r : Rrdp) (reused : List (Nat × DataRef)) : List DeltaRec :=
  match reused.getLast? with
  | some last => r.deltas.filter (fun d => last.1 < d.serial)
  | none => r.deltas

def newNotification (r : Rrdp) (old : Option Notif) : Notif :=
  let reused := reusable r old
  let written := deltasToWrite r reused
  { session := r.session, serial := r.serial,
    snap := ⟨snapshotPath r, snapshotFile r⟩,
    deltas := written.map (fun d => (d.serial, ⟨deltaPath r.session d, deltaFile r.session d⟩))
                ++ reused.reverse }

/-- Names directly below `dir`, with a flag telling whether the entry is a directory. -/
def RrdpFs.children (fs : RrdpFs) (dir : Path) : List (Seg × Bool) :=
  (fs.filterMap (fun e =>
    if dir.isPrefixOf e.1 then
      match e.1.drop dir.length with
      | [] => none
      | [s] => some (s, false)
      | s :: _ => some (s, true)
    else none)).eraseDups

/-- `RrdpServer::session_dir_snapshot`. -/
def RrdpFs.snapshotIn (fs : RrdpFs) (session serial : Nat) : Option Path :=
  (fs.find? (fun e =>
    match e.1 with
    | [.sess s, .num n, _, .name f] => s == session && n == serial && f == "snapshot.xml"
    | _ => false)).map (·.1)

/-- Phase: `(ordered, mutations)`. -/
abbrev Plan := List (Bool × List Mut)

/-- First part of `cleanup_old_rrdp_files`: directories of other sessions. -/
def cleanupSessions (r : Rrdp) (fs : RrdpFs) : List Mut :=
  (fs.children []).filterMap (fun (s, isDir) =>
    if s == .sess r.session then none
    else if isDir then some (.removeTree [s]) else none)

/-- Second part: entries of the session directory. -/
def cleanupSerials (r : Rrdp) (fs : RrdpFs) : List Mut :=
  let lowest := (r.deltas.getLast?.map (·.serial)).getD 0
  let highest := (r.deltas.head?.map (·.serial)).getD 0
  (fs.children [.sess r.session]).filterMap (fun (s, isDir) =>
    match s with
    | .num n =>
        if n == r.serial then none
        else if n < lowest || n > highest then
          some (if isDir then .removeTree [.sess r.session, s] else .removeFile [.sess r.session, s])
        else (fs.snapshotIn r.session n).map .removeFile
    | _ => some (.removeAny [.sess r.session, s]))

/-- `update_rrdp_files`. -/
def rrdpPlan (r : Rrdp) (fs : RrdpFs) : Plan :=
  let old := fs.notification
  match old with
  | some n =>
      if n.serial == r.serial && n.session == r.session then []
      else rrdpPlanFrom r fs old
  | none => rrdpPlanFrom r fs old
where
  rrdpPlanFrom (r : Rrdp) (fs : RrdpFs) (old : Option Notif) : Plan :=
    let written := deltasToWrite r (reusable r old)
    let notif := newNotification r old
    let writes : List Mut :=
      written.map (fun d => .create (deltaPath r.session d) (.data (deltaFile r.session d)))
      ++ [.create (snapshotPath r) (.data (snapshotFile r)),
          .create newNotifPath (.notif notif),
          .rename newNotifPath notifPath]
    let fs' := fs.applyAll writes
    [(true, writes), (false, cleanupSessions r fs'), (false, cleanupSerials r fs')]

/-! ### matching an observed mutation log against a plan -/

/-- What the log shows of a mutation: kind, path, target of a rename. -/
structure Sig where
  kind : String
  path : Path
  to   : Path := []
deriving DecidableEq, Repr, Inhabited

def Mut.sig : Mut → Sig
  | .create p _ => ⟨"create", p, []⟩
  | .rename a b => ⟨"rename", a, b⟩
  | .removeTree p => ⟨"remove_dir_all", p, []⟩
  | .removeFile p => ⟨"remove_file", p, []⟩
  | .removeAny p => ⟨"remove_any", p, []⟩

def takeMatching {μ} (f : μ → Sig) (s : Sig) : List μ → Option (μ × List μ)
  | [] => none
  | m :: ms =>
      if f m == s then some (m, ms)
      else (takeMatching f s ms).map (fun (x, rest) => (x, m :: rest))

/-- The mutation of the plan that the log entry `s` can be, and the plan that remains. -/
def planNext {μ} (f : μ → Sig) (s : Sig) : List (Bool × List μ) → Option (μ × List (Bool × List μ))
  | [] => none
  | (_, []) :: ps => planNext f s ps
  | (true, m :: ms) :: ps => if f m == s then some (m, (true, ms) :: ps) else none
  | (false, m :: ms) :: ps =>
      (takeMatching f s (m :: ms)).map (fun (x, rest) => (x, (false, rest) :: ps))

/-- Reads a log against a plan: the mutations in observed order and what remains of the plan
(`none`: the log is not a run of the plan). -/
def matchLog {μ} (f : μ → Sig) (plan : List (Bool × List μ)) :
    List Sig → Option (List μ × List (Bool × List μ))
  | [] => some ([], plan)
  | s :: log =>
      match planNext f s plan with
      | none => none
      | some (m, plan') => (matchLog f plan' log).map (fun (ms, p) => (m :: ms, p))

def planDone {μ} (plan : List (Bool × List μ)) : Bool := plan.all (·.2.isEmpty)

/-! ### the rsync directory -/

/-- A file in the rsync tree: the bytes of one object, or a mixture after a shorter object
was written over a longer one. -/
inductive Raw where
  | clean (c : Content)
  | garbage
deriving DecidableEq, Repr, Inhabited

/-- Files of one top-level directory (`current`, `old`, `tmp-<serial>`), by relative path. -/
abbrev Tree := List (List String × Raw)

/-- Names of the directories directly below `repo_dir/rsync`. -/
inductive Top where
  | current
  | old
  | tmp (serial : Nat)      -- `tmp-<serial>`
  | other (name : String)
deriving DecidableEq, Repr, Inhabited

/-- `repo_dir/rsync`: top-level directories. -/
abbrev RsyncFs := List (Top × Tree)

def RsyncFs.get? (fs : RsyncFs) (n : Top) : Option Tree := fs.lookup n
def RsyncFs.remove (fs : RsyncFs) (n : Top) : RsyncFs := fs.filter (fun e => e.1 != n)
def RsyncFs.set (fs : RsyncFs) (n : Top) (t : Tree) : RsyncFs := (n, t) :: fs.remove n

def Tree.get? (t : Tree) (p : List String) : Option Raw := t.lookup p
def Tree.set (t : Tree) (p : List String) (r : Raw) : Tree := (p, r) :: t.filter (fun e => e.1 != p)

/-- PINNED TREE (before fix 4ab08295), kept as a counter-model only: `file::save` without
truncation over whatever is there. -/
def saveOverPinned (old : Option Raw) (c : Content) : Raw :=
  match old with
  | none => .clean c
  | some (.clean o) => if o.len ≤ c.len || o == c then .clean c else .garbage
  | some .garbage => .garbage

inductive RMut where
  | mkdir (n : Top)
  | save (n : Top) (rel : List String) (c : Content)
  | rename (a b : Top)
  | removeAll (n : Top)
deriving DecidableEq, Repr, Inhabited

/-- `none`: the operation fails with an I/O error (the directory is unchanged). -/
def RsyncFs.apply (fs : RsyncFs) : RMut → Option RsyncFs
  | .mkdir n => some (match fs.get? n with | some _ => fs | none => fs.set n [])
  | .save n rel c =>
      match fs.get? n with
      | some t => some (fs.set n (t.set rel (.clean c)))
      | none => none
  | .rename a b =>
      match fs.get? a with
      | none => none
      | some t =>
          match fs.get? b with
          | some (_ :: _) => none          -- rename(2) onto a non-empty directory: ENOTEMPTY
          | _ => some ((fs.remove a).set b t)
  | .removeAll n => some (fs.remove n)

/-- Applies mutations until one fails; returns the state and whether all succeeded. -/
def RsyncFs.applyAll (fs : RsyncFs) : List RMut → RsyncFs × Bool
  | [] => (fs, true)
  | m :: ms =>
      match fs.apply m with
      | some fs' => RsyncFs.applyAll fs' ms
      | none => (fs, false)

/-- PINNED TREE: saving without truncation. -/
def RsyncFs.applyPinned (fs : RsyncFs) : RMut → Option RsyncFs
  | .save n rel c =>
      match fs.get? n with
      | some t => some (fs.set n (t.set rel (saveOverPinned (t.get? rel) c)))
      | none => none
  | m => fs.apply m

def RsyncFs.applyAllPinned (fs : RsyncFs) : List RMut → RsyncFs × Bool
  | [] => (fs, true)
  | m :: ms =>
      match fs.applyPinned m with
      | some fs' => RsyncFs.applyAllPinned fs' ms
      | none => (fs, false)

def Top.name : Top → String
  | .current => "current"
  | .old => "old"
  | .tmp n => "tmp-" ++ toString n
  | .other s => s

/-- The relative path of an object below the repository base (`uri.relative_to(base)`). -/
def rsyncFiles (base : Uri) (objs : Objs) : List (List String × Content) :=
  objs.filterMap (fun p => (relPath base p.1).map (fun rel => (rel, p.2)))

/-- `RsyncdStore::write` (with fixes 8d070115: a left-over `tmp-<serial>` is removed first, and
5d860534: a left-over `old` is removed before `current` is renamed onto it). -/
def rsyncPlan (fs : RsyncFs) (base : Uri) (serial : Nat) (objs : Objs) : List (Bool × List RMut) :=
  let tmp := Top.tmp serial
  let hasCurrent := (fs.get? .current).isSome
  [(true, (if (fs.get? tmp).isSome then [.removeAll tmp] else []) ++ [.mkdir tmp]),
   (false, (rsyncFiles base objs).map (fun p => .save tmp p.1 p.2)),
   (true, (if (fs.get? .old).isSome then [.removeAll .old] else []) ++
            (if hasCurrent then [.rename .current .old] else []) ++ [.rename tmp .current]
            ++ (if hasCurrent then [.removeAll .old] else []))]

/-- PINNED TREE (before fixes 8d070115 and 5d860534), kept as a counter-model only. -/
def rsyncPlanPinned (fs : RsyncFs) (base : Uri) (serial : Nat) (objs : Objs) :
    List (Bool × List RMut) :=
  let tmp := Top.tmp serial
  let hasCurrent := (fs.get? .current).isSome
  let hasOld := hasCurrent || (fs.get? .old).isSome
  [(true, [.mkdir tmp]),
   (false, (rsyncFiles base objs).map (fun p => .save tmp p.1 p.2)),
   (true, (if hasCurrent then [.rename .current .old] else []) ++ [.rename tmp .current]
            ++ (if hasOld then [.removeAll .old] else []))]

def RMut.sig : RMut → Sig
  | .mkdir n => ⟨"create_dir_all", [.name n.name], []⟩
  | .save n rel _ => ⟨"create", .name n.name :: rel.map .name, []⟩
  | .rename a b => ⟨"rename", [.name a.name], [.name b.name]⟩
  | .removeAll n => ⟨"remove_dir_all", [.name n.name], []⟩

/-- The tree an rsync user sees. -/
def RsyncFs.current (fs : RsyncFs) : Option Tree := fs.get? .current

/-- What the tree should be for a snapshot. -/
def expectedTree (base : Uri) (objs : Objs) : Tree :=
  (rsyncFiles base objs).map (fun p => (p.1, Raw.clean p.2))

/-! ### a relying party's RRDP client -/

/-- RFC 8182, 3.4.2: a publish without hash must not replace an object; update and withdraw
must name the hash of the object they replace or remove. -/
def clientApplyElem (objs : Objs) : Elem → Option Objs
  | .publish u c => if (objs.get? (key u)).isSome then none else some (objs.insert (key u) c)
  | .update u h c =>
      if (objs.get? (key u)).map Content.hash == some h then some (objs.insert (key u) c) else none
  | .withdraw u h =>
      if (objs.get? (key u)).map Content.hash == some h then some (objs.erase (key u)) else none

def clientApply (objs : Objs) : List Elem → Option Objs
  | [] => some objs
  | e :: es => match clientApplyElem objs e with
      | some o => clientApply o es
      | none => none

/-- Applies a chain of deltas (oldest first). -/
def catchUp (held : Objs) : List (List Elem) → Option Objs
  | [] => some held
  | d :: ds => match clientApply held d with
      | some o => catchUp o ds
      | none => none

/-- Same objects (as maps). -/
def Objs.equiv (a b : Objs) : Prop := ∀ k, a.get? k = b.get? k

/-- The notification names only files that exist with the stated content. -/
def RrdpFs.refOk (fs : RrdpFs) (r : DataRef) : Bool := fs.get? r.path == some (.data r.data)

def RrdpFs.consistent (fs : RrdpFs) : Bool :=
  match fs.get? notifPath with
  | none => true
  | some (.notif n) => fs.refOk n.snap && n.deltas.all (fun d => fs.refOk d.2)
  | some _ => false

end KM.Pubd
