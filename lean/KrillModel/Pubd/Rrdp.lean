/-
Model of `RrdpServer` (`src/server/pubd/rrdp.rs:53-455`): session, serial, snapshot (objects per
publisher), deltas newest first, staged elements per publisher; `apply_rrdp_staged`,
`apply_rrdp_updated` (with `deltas_truncate` and `deltas_truncate_size`),
`find_deltas_truncate_age`, `apply_session_reset`, `apply_publisher_added`, `publishers`,
`update_rrdp_needed`.

Clock: `find_deltas_truncate_age` reads the clock through `younger_than_seconds(min_secs)` and
`older_than_seconds(max_secs)` for every delta.  The model takes these answers as a list of
pairs `(young, old)` (one per delta, newest first); theorems quantify over all such lists.

Random values (session ids, the random path component of snapshot and delta files) are inputs.
Hash-map iteration order only influences the order of elements inside a delta; consumers
compare as sets.
-/
import KrillModel.Pubd.Content
namespace KM.Pubd

/-! ### small association maps keyed by handle -/

def hget? {ν} (m : List (Handle × ν)) (h : Handle) : Option ν := m.lookup h
def herase {ν} (m : List (Handle × ν)) (h : Handle) : List (Handle × ν) :=
  m.filter (fun p => p.1 != h)
def hset {ν} (m : List (Handle × ν)) (h : Handle) (v : ν) : List (Handle × ν) :=
  (h, v) :: herase m h

/-! ### state -/

/-- `DeltaData` (without its time stamp, see the clock note above). -/
structure DeltaRec where
  serial : Nat
  rnd    : Nat
  /-- all publishes, then all updates, then all withdraws -/
  elems  : List Elem
deriving DecidableEq, Repr, Inhabited

def DeltaRec.size (d : DeltaRec) : Nat := (d.elems.map Elem.size).sum

structure Rrdp where
  session  : Nat
  serial   : Nat
  /-- random path component of the snapshot: changes only with the session -/
  snapRnd  : Nat
  snapshot : List (Handle × Objs)
  /-- newest first -/
  deltas   : List DeltaRec
  staged   : List (Handle × Staged)
deriving DecidableEq, Repr, Inhabited

/-- `RrdpServer::create`: `RRDP_FIRST_SERIAL = 1`, empty snapshot. -/
def Rrdp.create (session rnd : Nat) : Rrdp :=
  { session, serial := 1, snapRnd := rnd, snapshot := [], deltas := [], staged := [] }

def Rrdp.current (r : Rrdp) (h : Handle) : Objs := (hget? r.snapshot h).getD []
def Rrdp.stagedOf (r : Rrdp) (h : Handle) : Staged := (hget? r.staged h).getD []

/-- `RepositoryContent::objects_for_publisher`. -/
def Rrdp.objectsFor (r : Rrdp) (h : Handle) : Objs := Pubd.objectsFor (r.current h) (r.stagedOf h)

/-- `RrdpServer::publishers`: snapshot keys, then staged keys not in the snapshot. -/
def Rrdp.publishers (r : Rrdp) : List Handle :=
  r.snapshot.map (·.1) ++
    (r.staged.map (·.1)).filter (fun h => (hget? r.snapshot h).isNone)

/-- All objects of the snapshot (the content of `snapshot.xml`, one entry per publisher and
object; a URI held by two publishers appears twice). -/
def flatten (snap : List (Handle × Objs)) : Objs := snap.flatMap (·.2)

def Rrdp.snapshotSize (r : Rrdp) : Nat := (flatten r.snapshot).size

/-! ### changes -/

/-- `SnapshotData::apply_publisher_added`. -/
def Rrdp.publisherAdded (r : Rrdp) (h : Handle) : Rrdp :=
  if (hget? r.snapshot h).isSome then r else { r with snapshot := hset r.snapshot h [] }

/-- `apply_rrdp_staged`. -/
def Rrdp.stage (r : Rrdp) (h : Handle) (d : Delta) : Rrdp :=
  { r with staged := hset r.staged h (mergeNew (r.stagedOf h) d) }

/-- `apply_session_reset`: new session and snapshot random, serial 1, no deltas.  Staged
elements stay staged. -/
def Rrdp.sessionReset (r : Rrdp) (session rnd : Nat) : Rrdp :=
  { r with session, snapRnd := rnd, serial := 1, deltas := [] }

/-- `SnapshotData::apply_delta`. -/
def snapApply (snap : List (Handle × Objs)) (h : Handle) (d : Delta) : List (Handle × Objs) :=
  match hget? snap h with
  | some objs =>
      let o := applyDelta objs d
      if o.isEmpty then herase snap h else hset snap h o
  | none => hset snap h (applyDelta [] d)

/-- `deltas_truncate_size`: the number of newest deltas whose summed size does not exceed the
size of the snapshot. -/
def keepBySize (limit : Nat) : Nat → List DeltaRec → Nat
  | _, [] => 0
  | total, d :: ds =>
      if total + d.size > limit then 0 else 1 + keepBySize limit (total + d.size) ds

/-- The elements of the new RRDP delta: `rrdp_delta_elements.append(delta)` per publisher. -/
def stagedElems (staged : List (Handle × Staged)) : List Elem :=
  staged.flatMap (fun p => p.2.filter Elem.isPublish) ++
  staged.flatMap (fun p => p.2.filter Elem.isUpdate) ++
  staged.flatMap (fun p => p.2.filter Elem.isWithdraw)

/-- `apply_rrdp_updated` for the stored change `RrdpUpdated { random, deltas_truncate, .. }`. -/
def Rrdp.applyUpdated (r : Rrdp) (truncate rnd : Nat) : Rrdp :=
  let serial := r.serial + 1
  let snapshot := r.staged.foldl (fun s p => snapApply s p.1 p.2) r.snapshot
  let delta : DeltaRec := ⟨serial, rnd, stagedElems r.staged⟩
  let deltas := delta :: r.deltas.take truncate
  let keep := keepBySize (flatten snapshot).size 0 deltas
  { r with serial, snapshot, deltas := deltas.take keep, staged := [] }

/-! ### retention by number and age -/

/-- The loop of `find_deltas_truncate_age`; `max_nr.saturating_sub(1)` is `maxNr - 1` on `Nat`
(fix bf93c0cb). -/
def truncLoop (minNr maxNr : Nat) : Nat → List (Bool × Bool) → Nat
  | keep, [] => keep
  | keep, (young, old) :: rest =>
      if keep < minNr || young then truncLoop minNr maxNr (keep + 1) rest
      else if keep == maxNr - 1 || old then keep
      else truncLoop minNr maxNr (keep + 1) rest

def findTruncateAge (minNr maxNr : Nat) (ages : List (Bool × Bool)) : Nat :=
  truncLoop minNr maxNr 0 ages

/-- PINNED TREE (before fix bf93c0cb), kept as a counter-model only: `max_nr - 1` on `usize`
underflows for `max_nr = 0` when the second condition is evaluated (`none` = panic in builds
with overflow checks; without them it wraps and `max_nr` is never reached). -/
def truncLoopPinned (minNr maxNr : Nat) : Nat → List (Bool × Bool) → Option Nat
  | keep, [] => some keep
  | keep, (young, old) :: rest =>
      if keep < minNr || young then truncLoopPinned minNr maxNr (keep + 1) rest
      else if maxNr == 0 then none
      else if keep == maxNr - 1 || old then some keep
      else truncLoopPinned minNr maxNr (keep + 1) rest

/-- `update_rrdp_needed` is `Yes` (for an interval of zero seconds): some publisher has a
non-empty set of staged elements. -/
def Rrdp.hasStaged (r : Rrdp) : Bool := r.staged.any (fun p => !p.2.isEmpty)

/-! ### the aggregate as a state machine -/

inductive RrdpOp where
  | added (h : Handle)
  | stage (h : Handle) (d : Delta)
  | update (truncate rnd : Nat)
  | reset (session rnd : Nat)
deriving Repr, Inhabited

def Rrdp.step (r : Rrdp) : RrdpOp → Rrdp
  | .added h => r.publisherAdded h
  | .stage h d => r.stage h d
  | .update t rnd => r.applyUpdated t rnd
  | .reset s rnd => r.sessionReset s rnd

def Rrdp.run (r : Rrdp) (ops : List RrdpOp) : Rrdp := ops.foldl Rrdp.step r

end KM.Pubd
