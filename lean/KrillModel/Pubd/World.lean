/-
The publication server together with its files, as one state machine over *histories*:
requests of the manager (publish / withdraw / update deltas, publisher addition and removal,
RRDP updates under the configured retention, session resets, deletion of matching files) and
writes of the repository (`RepositoryContent::write_repository`: `update_rrdp_files`, then
`RsyncdStore::write`), each of which may be interrupted before any of its file-system
mutations.

An interrupted or complete write is given by the mutation logs the fault hook shows (what the
harness records): `matchLog` reads them against the plans of `Files.lean`; a log that is not a
run of a prefix of the plan is not a possible behaviour and leaves the world alone.  The rsync
part only starts when the RRDP part is complete.
-/
import KrillModel.Pubd.Files
import KrillModel.Pubd.Manager
namespace KM.Pubd

structure World where
  srv : Server
  /-- files below `repo_dir/rrdp` -/
  rfs : RrdpFs
  /-- directories below `repo_dir/rsync` -/
  sfs : RsyncFs

inductive Event where
  /-- state part of a request -/
  | req (op : Op)
  /-- `write_repository`, cut where the logs end -/
  | write (rlog slog : List Sig)

def World.write (w : World) (rlog slog : List Sig) : World :=
  match matchLog Mut.sig (rrdpPlan w.srv.rrdp w.rfs) rlog with
  | none => w
  | some (ms, rest) =>
      let rfs := w.rfs.applyAll ms
      if planDone rest then
        match matchLog RMut.sig
            (rsyncPlan w.sfs w.srv.base w.srv.rrdp.serial (flatten w.srv.rrdp.snapshot)) slog with
        | none => { w with rfs := rfs }
        | some (sm, _) => { w with rfs := rfs, sfs := (w.sfs.applyAll sm).1 }
      else { w with rfs := rfs }

def World.step (w : World) : Event → World
  | .req op => { w with srv := w.srv.step op }
  | .write rlog slog => w.write rlog slog

def World.run (w : World) (es : List Event) : World := es.foldl World.step w

/-- A freshly initialised server on empty directories (`RepositoryManager::init` then performs
the first write). -/
def World.init (base : Uri) (cfg : Cfg) (session rnd : Nat) : World :=
  ⟨Server.init base cfg session rnd, [], []⟩

end KM.Pubd
