/-
Publisher removal as the code performs it: two separately persisted store calls
(`RepositoryManager::remove_publisher`, pubd/manager.rs), in the order the source has them.

The order is not written down here: it is `KM.Generated.pubdStoreCalls .remove_publisher`, which the
`event_tasks` translator regenerates from manager.rs on every run.  A write that fails (or a crash)
between the two calls leaves the first one persisted; the operator (or the CA that is being
deleted) then submits the removal again.

Import-free apart from the publication server model and the generated table.
-/
import KrillModel.Pubd.Manager
import KrillModel.Generated.EventTasks
namespace KM.Pubd
open KM.Generated

/-- One persisted store call of a removal of `h`; `none` = the call itself refuses
(`access.remove_publisher` for an unknown handle: `PublisherUnknown`).  Calls that are no part of a
removal leave the server alone. -/
def Server.storeCall (s : Server) (h : Handle) : PubdStoreCall → Option Server
  | .content_remove_publisher => some { s with rrdp := s.rrdp.removePublisher h }
  | .access_remove_publisher =>
    if (s.jail? h).isSome then some { s with access := herase s.access h } else none
  | _ => some s

/-- The calls in order, stopping at the first that refuses (`?`).  The flag says whether all ran. -/
def Server.runCalls (s : Server) (h : Handle) : List PubdStoreCall → Server × Bool
  | [] => (s, true)
  | c :: cs =>
    match s.storeCall h c with
    | none => (s, false)
    | some s' => s'.runCalls h cs

/-- An attempt in which the write of call number `k` fails (or the process dies there): the calls
before it are persisted, nothing of the rest is. -/
def Server.removalCutAt (s : Server) (h : Handle) (order : List PubdStoreCall) (k : Nat) : Server :=
  (s.runCalls h (order.take k)).1

/-- A complete attempt. -/
def Server.removalBy (s : Server) (h : Handle) (order : List PubdStoreCall) : Server × Bool :=
  s.runCalls h order

/-- Objects the content store holds for `h` (current ⊕ staged), registered or not. -/
def Server.held (s : Server) (h : Handle) : Objs := s.rrdp.objectsFor h

end KM.Pubd
