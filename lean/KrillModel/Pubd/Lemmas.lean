/-
Helper lemmas for the publication server model (no property statements; those are in
`KrillModel/Props/C10.lean` and `C11.lean`).
-/
import KrillModel.Pubd.Files
import KrillModel.Pubd.Manager
import KrillModel.Pubd.World
namespace KM.Pubd

/-! ## object maps -/

theorem Objs.get?_nil (k : Uri) : Objs.get? [] k = none := rfl

theorem Objs.get?_cons (p : Uri × Content) (o : Objs) (k : Uri) :
    Objs.get? (p :: o) k = if k = p.1 then some p.2 else Objs.get? o k := by
  unfold Objs.get?
  rw [List.lookup_cons]
  by_cases h : k = p.1
  · simp [h]
  · have : (k == p.1) = false := by simp [h]
    simp [this, h]

theorem Objs.get?_erase (o : Objs) (k k' : Uri) :
    (o.erase k').get? k = if k = k' then none else o.get? k := by
  induction o with
  | nil => simp [Objs.erase, Objs.get?]
  | cons p t ih =>
    unfold Objs.erase at ih ⊢
    rw [List.filter_cons]
    by_cases hp : p.1 = k'
    · have : (p.1 != k') = false := by simp [hp]
      simp only [this]
      rw [Objs.get?_cons]
      simp only [Bool.false_eq_true, ↓reduceIte]
      rw [ih]
      by_cases hk : k = k'
      · simp [hk]
      · have : k ≠ p.1 := by rw [hp]; exact hk
        simp [hk, this]
    · have : (p.1 != k') = true := by simp [hp]
      simp only [this, ↓reduceIte]
      rw [Objs.get?_cons, Objs.get?_cons, ih]
      by_cases hk : k = k'
      · have : k' ≠ p.1 := fun h => hp h.symm
        simp [hk, this]
      · simp [hk]

theorem Objs.get?_insert (o : Objs) (k k' : Uri) (c : Content) :
    (o.insert k' c).get? k = if k = k' then some c else o.get? k := by
  unfold Objs.insert
  rw [Objs.get?_cons, Objs.get?_erase]
  by_cases hk : k = k' <;> simp [hk]

theorem Objs.get?_some_mem {o : Objs} {k : Uri} {c : Content} (h : o.get? k = some c) :
    (k, c) ∈ o := by
  induction o with
  | nil => simp [Objs.get?] at h
  | cons p t ih =>
    rw [Objs.get?_cons] at h
    by_cases hk : k = p.1
    · simp only [hk, ↓reduceIte, Option.some.injEq] at h
      subst h; subst hk
      simp
    · simp only [hk, ↓reduceIte] at h
      exact List.mem_cons_of_mem _ (ih h)

/-! ## folding elements over an object map -/

/-- No two elements have the same object key. -/
def KeyNodup (l : List Elem) : Prop := l.Pairwise (fun a b => key a.uri ≠ key b.uri)

/-- The element of a list that acts on key `k`. -/
def findKey (l : List Elem) (k : Uri) : Option Elem := l.find? (fun e => key e.uri == k)

theorem get?_applyElem (o : Objs) (e : Elem) (k : Uri) :
    (applyElem o e).get? k = if k = key e.uri then e.effect else o.get? k := by
  cases e <;> simp only [applyElem, Elem.uri, Elem.effect, Objs.get?_insert, Objs.get?_erase] <;>
    (split <;> simp [*])

theorem findKey_cons (e : Elem) (l : List Elem) (k : Uri) :
    findKey (e :: l) k = if key e.uri = k then some e else findKey l k := by
  unfold findKey
  rw [List.find?_cons]
  by_cases h : key e.uri = k
  · simp [h]
  · have : (key e.uri == k) = false := by simp [h]
    simp [this, h]

theorem findKey_eq_none_of_forall {l : List Elem} {k : Uri} (h : ∀ e ∈ l, key e.uri ≠ k) :
    findKey l k = none := by
  unfold findKey
  rw [List.find?_eq_none]
  intro e he
  simp [h e he]

theorem findKey_some {l : List Elem} {k : Uri} {e : Elem} (h : findKey l k = some e) :
    e ∈ l ∧ key e.uri = k := by
  unfold findKey at h
  have := List.find?_some h
  exact ⟨List.mem_of_find?_eq_some h, by simpa using this⟩

/-- With distinct keys, `findKey` finds *the* element with that key. -/
theorem findKey_of_mem {l : List Elem} (hnd : KeyNodup l) {e : Elem} (he : e ∈ l) :
    findKey l (key e.uri) = some e := by
  induction l with
  | nil => cases he
  | cons a t ih =>
    rw [findKey_cons]
    have hnd' := List.pairwise_cons.mp hnd
    rcases List.mem_cons.mp he with rfl | het
    · simp
    · have : key a.uri ≠ key e.uri := hnd'.1 e het
      simp only [this, ↓reduceIte]
      exact ih hnd'.2 het

theorem get?_foldl_applyElem (l : List Elem) (hnd : KeyNodup l) (o : Objs) (k : Uri) :
    (l.foldl applyElem o).get? k =
      match findKey l k with
      | some e => e.effect
      | none => o.get? k := by
  induction l generalizing o with
  | nil => simp [findKey]
  | cons a t ih =>
    have hnd' := List.pairwise_cons.mp hnd
    rw [List.foldl_cons, ih hnd'.2, findKey_cons]
    by_cases hk : key a.uri = k
    · have hnone : findKey t k = none :=
        findKey_eq_none_of_forall (fun e he => by rw [← hk]; exact fun h => hnd'.1 e he h.symm)
      simp only [hk, ↓reduceIte, hnone]
      rw [get?_applyElem]
      simp [hk]
    · simp only [hk, ↓reduceIte]
      cases hf : findKey t k with
      | some e => rfl
      | none =>
        simp only
        rw [get?_applyElem]
        have : k ≠ key a.uri := fun h => hk h.symm
        simp [this]

/-! ## the order publishes, updates, withdraws -/

theorem Elem.kind_cases (e : Elem) :
    (e.isPublish = true ∧ e.isUpdate = false ∧ e.isWithdraw = false) ∨
    (e.isPublish = false ∧ e.isUpdate = true ∧ e.isWithdraw = false) ∨
    (e.isPublish = false ∧ e.isUpdate = false ∧ e.isWithdraw = true) := by
  cases e <;> simp [Elem.isPublish, Elem.isUpdate, Elem.isWithdraw]

theorem mem_ordered {d : Delta} {e : Elem} : e ∈ d.ordered ↔ e ∈ d := by
  unfold Delta.ordered
  simp only [List.mem_append, List.mem_filter]
  constructor
  · rintro ((⟨h, _⟩ | ⟨h, _⟩) | ⟨h, _⟩) <;> exact h
  · intro h
    rcases e.kind_cases with ⟨hp, _, _⟩ | ⟨_, hu, _⟩ | ⟨_, _, hw⟩
    · exact Or.inl (Or.inl ⟨h, hp⟩)
    · exact Or.inl (Or.inr ⟨h, hu⟩)
    · exact Or.inr ⟨h, hw⟩

theorem keyNodup_ordered {d : Delta} (h : KeyNodup d) : KeyNodup d.ordered := by
  unfold Delta.ordered KeyNodup
  have hf : ∀ p : Elem → Bool, (d.filter p).Pairwise (fun a b => key a.uri ≠ key b.uri) :=
    fun p => List.Pairwise.sublist List.filter_sublist h
  -- elements of different filters are different elements of `d`; use that distinct members of
  -- a pairwise-distinct list have distinct keys
  have hne : ∀ a ∈ d, ∀ b ∈ d, a ≠ b → key a.uri ≠ key b.uri := by
    intro a ha b hb hab
    have hget := List.pairwise_iff_getElem.mp h
    obtain ⟨i, hi, rfl⟩ := List.getElem_of_mem ha
    obtain ⟨j, hj, rfl⟩ := List.getElem_of_mem hb
    rcases Nat.lt_trichotomy i j with hij | hij | hij
    · exact hget i j hi hj hij
    · subst hij; exact absurd rfl hab
    · exact fun heq => hget j i hj hi hij heq.symm
  rw [List.pairwise_append, List.pairwise_append]
  refine ⟨⟨hf _, hf _, ?_⟩, hf _, ?_⟩
  · intro a ha b hb
    simp only [List.mem_filter] at ha hb
    apply hne a ha.1 b hb.1
    intro hab; subst hab
    cases a <;> simp [Elem.isPublish, Elem.isUpdate] at ha hb
  · intro a ha b hb
    simp only [List.mem_append, List.mem_filter] at ha hb
    rcases ha with ha | ha
    · apply hne a ha.1 b hb.1
      intro hab; subst hab
      cases a <;> simp [Elem.isPublish, Elem.isWithdraw] at ha hb
    · apply hne a ha.1 b hb.1
      intro hab; subst hab
      cases a <;> simp [Elem.isUpdate, Elem.isWithdraw] at ha hb

/-- With distinct keys the element found for a key does not depend on the order. -/
theorem findKey_perm {l l' : List Elem} (hnd : KeyNodup l) (hnd' : KeyNodup l')
    (hmem : ∀ e, e ∈ l' ↔ e ∈ l) (k : Uri) : findKey l' k = findKey l k := by
  cases h : findKey l k with
  | some e =>
    obtain ⟨he, hk⟩ := findKey_some h
    rw [← hk]
    exact findKey_of_mem hnd' ((hmem e).mpr he)
  | none =>
    cases h' : findKey l' k with
    | none => rfl
    | some e =>
      obtain ⟨he, hk⟩ := findKey_some h'
      have := findKey_of_mem hnd ((hmem e).mp he)
      rw [hk, h] at this
      cases this

theorem findKey_ordered {d : Delta} (hnd : KeyNodup d) (k : Uri) :
    findKey d.ordered k = findKey d k :=
  findKey_perm hnd (keyNodup_ordered hnd) (fun _ => mem_ordered) k

/-- `apply_delta` key by key. -/
theorem get?_applyDelta (o : Objs) (d : Delta) (hnd : KeyNodup d) (k : Uri) :
    (applyDelta o d).get? k =
      match findKey d k with
      | some e => e.effect
      | none => o.get? k := by
  unfold applyDelta
  rw [get?_foldl_applyElem _ (keyNodup_ordered hnd), findKey_ordered hnd]

/-! ## verification -/

theorem verifyDelta_eq_none_iff (objs : Objs) (jail : Uri) (d : Delta) :
    verifyDelta objs jail d = none ↔ ∀ e ∈ d, checkElem objs jail e = none := by
  unfold verifyDelta
  rw [List.findSome?_eq_none_iff]
  constructor
  · intro h e he; exact h e (mem_ordered.mpr he)
  · intro h e he; exact h e (mem_ordered.mp he)

/-- What `verify_delta_applies` demands of one element. -/
def ElemOk (objs : Objs) (jail : Uri) (e : Elem) : Prop :=
  inJail jail e.uri = true ∧
  match e with
  | .publish u _ => objs.get? (key u) = none
  | .update u h _ => (objs.get? (key u)).map Content.hash = some h
  | .withdraw u h => (objs.get? (key u)).map Content.hash = some h

theorem checkElem_eq_none_iff (objs : Objs) (jail : Uri) (e : Elem) :
    checkElem objs jail e = none ↔ ElemOk objs jail e := by
  cases e with
  | publish u c =>
    simp only [checkElem, ElemOk, Elem.uri]
    by_cases hj : inJail jail u = true
    · simp only [hj, Bool.not_true, Bool.false_eq_true, ↓reduceIte, true_and]
      cases h : objs.get? (key u) <;> simp
    · simp [hj]
  | update u h c =>
    simp only [checkElem, ElemOk, Elem.uri]
    by_cases hj : inJail jail u = true
    · simp only [hj, Bool.not_true, Bool.false_eq_true, ↓reduceIte, true_and]
      by_cases hh : Option.map Content.hash (objs.get? (key u)) = some h <;> simp [hh]
    · simp [hj]
  | withdraw u h =>
    simp only [checkElem, ElemOk, Elem.uri]
    by_cases hj : inJail jail u = true
    · simp only [hj, Bool.not_true, Bool.false_eq_true, ↓reduceIte, true_and]
      by_cases hh : Option.map Content.hash (objs.get? (key u)) = some h <;> simp [hh]
    · simp [hj]

/-! ## staged elements, entries identified by object key -/

/-- What the publisher's objects are at key `k`: staged element if there is one, else the
current object. -/
def viewStaged (cur : Objs) (st : Staged) (k : Uri) : Option Content :=
  match findKey st k with
  | some e => e.effect
  | none => cur.get? k

theorem get?_objectsFor (cur : Objs) (st : Staged) (hnd : KeyNodup st) (k : Uri) :
    (objectsFor cur st).get? k = viewStaged cur st k :=
  get?_applyDelta cur st hnd k

/-- A staged element fits the current (published) objects: publishes are new, updates and
withdraws name the hash of the published object. -/
def ElemWf (cur : Objs) : Elem → Prop
  | .publish u _ => cur.get? (key u) = none
  | .update u h _ => (cur.get? (key u)).map Content.hash = some h
  | .withdraw u h => (cur.get? (key u)).map Content.hash = some h

/-- Invariant of a publisher's staged elements with respect to its published objects. -/
structure WfStaged (cur : Objs) (st : Staged) : Prop where
  nodup : KeyNodup st
  wf : ∀ e ∈ st, ElemWf cur e

theorem WfStaged.nil (cur : Objs) : WfStaged cur [] := ⟨List.Pairwise.nil, by simp⟩

theorem findWith_keyEq (s : Staged) (u : Uri) : Staged.findWith keyEq s u = findKey s (key u) := rfl

theorem mem_removeWith_keyEq {s : Staged} {u : Uri} {e : Elem} :
    e ∈ Staged.removeWith keyEq s u ↔ e ∈ s ∧ key e.uri ≠ key u := by
  simp [Staged.removeWith, keyEq]

theorem keyNodup_remove {s : Staged} (h : KeyNodup s) (u : Uri) :
    KeyNodup (Staged.removeWith keyEq s u) :=
  List.Pairwise.sublist List.filter_sublist h

theorem findKey_remove (s : Staged) (u k : Uri) :
    findKey (Staged.removeWith keyEq s u) k = if k = key u then none else findKey s k := by
  induction s with
  | nil => simp [Staged.removeWith, findKey]
  | cons a t ih =>
    unfold Staged.removeWith at ih ⊢
    rw [List.filter_cons]
    by_cases ha : key a.uri = key u
    · have : (!keyEq a.uri u) = false := by simp [keyEq, ha]
      simp only [this, Bool.false_eq_true, ↓reduceIte]
      rw [ih, findKey_cons]
      by_cases hk : k = key u
      · simp [hk]
      · have : key a.uri ≠ k := by rw [ha]; exact fun h => hk h.symm
        simp [hk, this]
    · have : (!keyEq a.uri u) = true := by simp [keyEq, ha]
      simp only [this, ↓reduceIte]
      rw [findKey_cons, findKey_cons, ih]
      by_cases hk : k = key u
      · subst hk
        simp [ha]
      · simp [hk]

theorem keyNodup_put {s : Staged} (h : KeyNodup s) (e : Elem) :
    KeyNodup (Staged.putWith keyEq s e) := by
  unfold Staged.putWith KeyNodup
  rw [List.pairwise_cons]
  refine ⟨?_, keyNodup_remove h _⟩
  intro a ha
  exact fun heq => (mem_removeWith_keyEq.mp ha).2 heq.symm

theorem findKey_put (s : Staged) (e : Elem) (k : Uri) :
    findKey (Staged.putWith keyEq s e) k = if k = key e.uri then some e else findKey s k := by
  unfold Staged.putWith
  rw [findKey_cons, findKey_remove]
  by_cases hk : k = key e.uri
  · simp [hk]
  · have : key e.uri ≠ k := fun h => hk h.symm
    simp [hk, this]

theorem wf_put {cur : Objs} {s : Staged} (h : WfStaged cur s) {e : Elem} (he : ElemWf cur e) :
    WfStaged cur (Staged.putWith keyEq s e) := by
  refine ⟨keyNodup_put h.nodup e, ?_⟩
  intro a ha
  rcases List.mem_cons.mp ha with rfl | ha
  · exact he
  · exact h.wf a (mem_removeWith_keyEq.mp ha).1

theorem wf_remove {cur : Objs} {s : Staged} (h : WfStaged cur s) (u : Uri) :
    WfStaged cur (Staged.removeWith keyEq s u) :=
  ⟨keyNodup_remove h.nodup u, fun a ha => h.wf a (mem_removeWith_keyEq.mp ha).1⟩

theorem view_put (cur : Objs) (s : Staged) (e : Elem) (k : Uri) :
    viewStaged cur (Staged.putWith keyEq s e) k =
      if k = key e.uri then e.effect else viewStaged cur s k := by
  unfold viewStaged
  rw [findKey_put]
  by_cases hk : k = key e.uri <;> simp [hk]

theorem view_remove (cur : Objs) (s : Staged) (u k : Uri) :
    viewStaged cur (Staged.removeWith keyEq s u) k =
      if k = key u then cur.get? k else viewStaged cur s k := by
  unfold viewStaged
  rw [findKey_remove]
  by_cases hk : k = key u <;> simp [hk]

/-- What a verified element demands, in terms of the view. -/
def ElemOkView (cur : Objs) (st : Staged) : Elem → Prop
  | .publish u _ => viewStaged cur st (key u) = none
  | .update u h _ => (viewStaged cur st (key u)).map Content.hash = some h
  | .withdraw u h => (viewStaged cur st (key u)).map Content.hash = some h

/-- One step of `merge_new_elements` for an element that was verified against current ⊕ staged:
the invariant is kept and the view changes exactly at the element's key. -/
theorem mergeElem_keyEq_spec {cur : Objs} {st : Staged} (hwf : WfStaged cur st) {e : Elem}
    (hok : ElemOkView cur st e) :
    WfStaged cur (mergeElemWith keyEq st e) ∧
    ∀ k, viewStaged cur (mergeElemWith keyEq st e) k =
      if k = key e.uri then e.effect else viewStaged cur st k := by
  cases e with
  | publish u c =>
    simp only [mergeElemWith, findWith_keyEq, Elem.uri, Elem.effect]
    simp only [ElemOkView, viewStaged] at hok
    cases hf : findKey st (key u) with
    | none =>
      simp only [hf] at hok
      exact ⟨wf_put hwf hok, fun k => by rw [view_put]; rfl⟩
    | some e0 =>
      simp only [hf] at hok
      obtain ⟨hmem, hkey⟩ := findKey_some hf
      cases e0 with
      | publish u0 c0 => simp [Elem.effect] at hok
      | update u0 h0 c0 => simp [Elem.effect] at hok
      | withdraw u0 h0 =>
        have hw := hwf.wf _ hmem
        simp only [ElemWf, Elem.uri] at hw hkey
        refine ⟨wf_put hwf (e := .update u h0 c) ?_, fun k => by rw [view_put]; rfl⟩
        simp only [ElemWf]; rw [← hkey]; exact hw
  | update u h c =>
    simp only [mergeElemWith, findWith_keyEq, Elem.uri, Elem.effect]
    simp only [ElemOkView, viewStaged] at hok
    cases hf : findKey st (key u) with
    | none =>
      simp only [hf] at hok
      exact ⟨wf_put hwf hok, fun k => by rw [view_put]; rfl⟩
    | some e0 =>
      simp only [hf] at hok
      obtain ⟨hmem, hkey⟩ := findKey_some hf
      have hw := hwf.wf _ hmem
      cases e0 with
      | publish u0 c0 =>
        simp only [ElemWf, Elem.uri] at hw hkey
        refine ⟨wf_put hwf (e := .publish u0 c) hw, fun k => ?_⟩
        rw [view_put]; simp only [Elem.uri, Elem.effect, hkey]
        by_cases hk : k = key u <;> simp [hk]
      | update u0 h0 c0 =>
        simp only [ElemWf, Elem.uri] at hw hkey
        refine ⟨wf_put hwf (e := .update u0 h0 c) hw, fun k => ?_⟩
        rw [view_put]; simp only [Elem.uri, Elem.effect, hkey]
        by_cases hk : k = key u <;> simp [hk]
      | withdraw u0 h0 => simp [Elem.effect] at hok
  | withdraw u h =>
    simp only [mergeElemWith, findWith_keyEq, Elem.uri, Elem.effect]
    simp only [ElemOkView, viewStaged] at hok
    cases hf : findKey st (key u) with
    | none =>
      simp only [hf] at hok
      exact ⟨wf_put hwf hok, fun k => by rw [view_put]; rfl⟩
    | some e0 =>
      simp only [hf] at hok
      obtain ⟨hmem, hkey⟩ := findKey_some hf
      have hw := hwf.wf _ hmem
      cases e0 with
      | publish u0 c0 =>
        simp only [ElemWf, Elem.uri] at hw hkey
        refine ⟨wf_remove hwf u, fun k => ?_⟩
        rw [view_remove]
        by_cases hk : k = key u
        · simp only [hk, ↓reduceIte]; rw [← hkey]; exact hw
        · simp [hk]
      | update u0 h0 c0 =>
        simp only [ElemWf, Elem.uri] at hw hkey
        refine ⟨wf_put hwf (e := .withdraw u h0) ?_, fun k => by rw [view_put]; rfl⟩
        simp only [ElemWf]; rw [← hkey]; exact hw
      | withdraw u0 h0 => simp [Elem.effect] at hok

/-- Folding verified elements with pairwise distinct keys. -/
theorem foldl_mergeElem_keyEq {cur : Objs} (l : List Elem) (hnd : KeyNodup l) :
    ∀ {st : Staged}, WfStaged cur st → (∀ e ∈ l, ElemOkView cur st e) →
    WfStaged cur (l.foldl (mergeElemWith keyEq) st) ∧
    ∀ k, viewStaged cur (l.foldl (mergeElemWith keyEq) st) k =
      match findKey l k with
      | some e => e.effect
      | none => viewStaged cur st k := by
  induction l with
  | nil => intro st hwf _; exact ⟨hwf, fun k => by simp [findKey]⟩
  | cons a t ih =>
    intro st hwf hok
    have hnd' := List.pairwise_cons.mp hnd
    obtain ⟨hwf1, hview1⟩ := mergeElem_keyEq_spec hwf (hok a (by simp))
    have hok' : ∀ e ∈ t, ElemOkView cur (mergeElemWith keyEq st a) e := by
      intro e he
      have hne : key e.uri ≠ key a.uri := fun h => hnd'.1 e he h.symm
      have := hok e (by simp [he])
      have hv : viewStaged cur (mergeElemWith keyEq st a) (key e.uri) = viewStaged cur st (key e.uri) := by
        rw [hview1]; simp [hne]
      cases e <;> simp only [ElemOkView, Elem.uri] at this hv ⊢ <;> rw [hv] <;> exact this
    obtain ⟨hwf2, hview2⟩ := ih hnd'.2 hwf1 hok'
    rw [List.foldl_cons]
    refine ⟨hwf2, fun k => ?_⟩
    rw [hview2, findKey_cons]
    by_cases hk : key a.uri = k
    · have hnone : findKey t k = none :=
        findKey_eq_none_of_forall (fun e he => by rw [← hk]; exact fun h => hnd'.1 e he h.symm)
      simp only [hk, ↓reduceIte, hnone]
      rw [hview1]; simp [hk]
    · simp only [hk, ↓reduceIte]
      cases findKey t k with
      | some e => rfl
      | none =>
        simp only
        rw [hview1]
        have : k ≠ key a.uri := fun h => hk h.symm
        simp [this]

/-! ## canonical URIs: `rsEq` and equality of keys coincide -/

theorem rsEq_iff_keyEq {u v : Uri} (hu : u.canon = true) (hv : v.canon = true) :
    rsEq u v = keyEq u v := by
  obtain ⟨⟨sc, sv⟩, ⟨hc, hv'⟩, m, segs, dir⟩ := u
  obtain ⟨⟨sc2, sv2⟩, ⟨hc2, hv2⟩, m2, segs2, dir2⟩ := v
  simp only [Uri.canon, beq_iff_eq] at hu hv
  subst hu; subst hv
  simp only [rsEq, keyEq, key, CiName.eqIgnoreCase, CiName.lower, rsyncLower]
  rw [Bool.eq_iff_iff]
  simp
  constructor
  · rintro ⟨⟨⟨ha, hb⟩, hc⟩, hd⟩; exact ⟨ha, hb, hc, hd⟩
  · rintro ⟨ha, hb, hc, hd⟩; exact ⟨⟨⟨ha, hb⟩, hc⟩, hd⟩

/-- All URIs of the elements are canonical. -/
def AllCanon (l : List Elem) : Prop := ∀ e ∈ l, e.uri.canon = true

theorem findWith_congr {s : Staged} (hs : AllCanon s) {u : Uri} (hu : u.canon = true) :
    Staged.findWith rsEq s u = Staged.findWith keyEq s u := by
  unfold Staged.findWith
  induction s with
  | nil => rfl
  | cons a t ih =>
    rw [List.find?_cons, List.find?_cons, rsEq_iff_keyEq (hs a (by simp)) hu,
      ih (fun e he => hs e (by simp [he]))]

theorem removeWith_congr {s : Staged} (hs : AllCanon s) {u : Uri} (hu : u.canon = true) :
    Staged.removeWith rsEq s u = Staged.removeWith keyEq s u := by
  unfold Staged.removeWith
  apply List.filter_congr
  intro e he
  rw [rsEq_iff_keyEq (hs e he) hu]

theorem putWith_congr {s : Staged} (hs : AllCanon s) {e : Elem} (he : e.uri.canon = true) :
    Staged.putWith rsEq s e = Staged.putWith keyEq s e := by
  unfold Staged.putWith
  rw [removeWith_congr hs he]

theorem allCanon_remove {s : Staged} (hs : AllCanon s) (eqv : Uri → Uri → Bool) (u : Uri) :
    AllCanon (Staged.removeWith eqv s u) :=
  fun e he => hs e (List.mem_filter.mp he).1

theorem allCanon_put {s : Staged} (hs : AllCanon s) (eqv : Uri → Uri → Bool) {e : Elem}
    (he : e.uri.canon = true) : AllCanon (Staged.putWith eqv s e) := by
  intro a ha
  rcases List.mem_cons.mp ha with rfl | ha
  · exact he
  · exact allCanon_remove hs eqv _ a ha

/-- On canonical URIs the code's merge (entries identified by `uri::Rsync` equality) is the
merge with entries identified by object key. -/
theorem mergeElem_congr {s : Staged} (hs : AllCanon s) {e : Elem} (he : e.uri.canon = true) :
    mergeElemWith rsEq s e = mergeElemWith keyEq s e ∧ AllCanon (mergeElemWith keyEq s e) := by
  have hfind := findWith_congr hs he
  cases e with
  | publish u c =>
    simp only [Elem.uri] at he hfind
    simp only [mergeElemWith, hfind]
    cases hf : Staged.findWith keyEq s u with
    | none => exact ⟨putWith_congr hs he, allCanon_put hs _ he⟩
    | some e0 =>
      have hm : e0 ∈ s := List.mem_of_find?_eq_some hf
      cases e0 with
      | publish u0 c0 => exact ⟨putWith_congr hs he, allCanon_put hs _ he⟩
      | update u0 h0 c0 =>
        have hu0 : u0.canon = true := hs _ hm
        exact ⟨putWith_congr hs (e := .update u0 h0 c) hu0, allCanon_put hs _ (e := .update u0 h0 c) hu0⟩
      | withdraw u0 h0 => exact ⟨putWith_congr hs he, allCanon_put hs _ he⟩
  | update u h c =>
    simp only [Elem.uri] at he hfind
    simp only [mergeElemWith, hfind]
    cases hf : Staged.findWith keyEq s u with
    | none => exact ⟨putWith_congr hs he, allCanon_put hs _ he⟩
    | some e0 =>
      have hm : e0 ∈ s := List.mem_of_find?_eq_some hf
      cases e0 with
      | publish u0 c0 =>
        have hu0 : u0.canon = true := hs _ hm
        exact ⟨putWith_congr hs (e := .publish u0 c) hu0, allCanon_put hs _ (e := .publish u0 c) hu0⟩
      | update u0 h0 c0 =>
        have hu0 : u0.canon = true := hs _ hm
        exact ⟨putWith_congr hs (e := .update u0 h0 c) hu0, allCanon_put hs _ (e := .update u0 h0 c) hu0⟩
      | withdraw u0 h0 => exact ⟨putWith_congr hs he, allCanon_put hs _ he⟩
  | withdraw u h =>
    simp only [Elem.uri] at he hfind
    simp only [mergeElemWith, hfind]
    cases hf : Staged.findWith keyEq s u with
    | none => exact ⟨putWith_congr hs he, allCanon_put hs _ he⟩
    | some e0 =>
      cases e0 with
      | publish u0 c0 => exact ⟨removeWith_congr hs he, allCanon_remove hs _ _⟩
      | update u0 h0 c0 => exact ⟨putWith_congr hs he, allCanon_put hs _ he⟩
      | withdraw u0 h0 => exact ⟨rfl, hs⟩

theorem foldl_mergeElem_congr (l : List Elem) (hl : AllCanon l) :
    ∀ {s : Staged}, AllCanon s →
      l.foldl (mergeElemWith rsEq) s = l.foldl (mergeElemWith keyEq) s ∧
      AllCanon (l.foldl (mergeElemWith keyEq) s) := by
  induction l with
  | nil => intro s hs; exact ⟨rfl, hs⟩
  | cons a t ih =>
    intro s hs
    obtain ⟨h1, h2⟩ := mergeElem_congr hs (hl a (by simp))
    rw [List.foldl_cons, List.foldl_cons, h1]
    exact ih (fun e he => hl e (by simp [he])) h2

/-! ## maps keyed by handle -/

theorem hget?_cons {ν} (p : Handle × ν) (m : List (Handle × ν)) (h : Handle) :
    hget? (p :: m) h = if h = p.1 then some p.2 else hget? m h := by
  unfold hget?
  rw [List.lookup_cons]
  by_cases hh : h = p.1
  · simp [hh]
  · have : (h == p.1) = false := by simp [hh]
    simp [this, hh]

theorem hget?_herase {ν} (m : List (Handle × ν)) (h q : Handle) :
    hget? (herase m h) q = if q = h then none else hget? m q := by
  induction m with
  | nil => simp [herase, hget?]
  | cons p t ih =>
    unfold herase at ih ⊢
    rw [List.filter_cons]
    by_cases hp : p.1 = h
    · have : (p.1 != h) = false := by simp [hp]
      simp only [this, Bool.false_eq_true, ↓reduceIte]
      rw [ih, hget?_cons]
      by_cases hq : q = h
      · simp [hq]
      · have : q ≠ p.1 := by rw [hp]; exact hq
        simp [hq, this]
    · have : (p.1 != h) = true := by simp [hp]
      simp only [this, ↓reduceIte]
      rw [hget?_cons, hget?_cons, ih]
      by_cases hq : q = h
      · subst hq
        have : q ≠ p.1 := fun e => hp e.symm
        simp [this]
      · simp [hq]

theorem hget?_hset {ν} (m : List (Handle × ν)) (h q : Handle) (v : ν) :
    hget? (hset m h v) q = if q = h then some v else hget? m q := by
  unfold hset
  rw [hget?_cons, hget?_herase]
  by_cases hq : q = h <;> simp [hq]

theorem hget?_hset_self {ν} (m : List (Handle × ν)) (h : Handle) (v : ν) :
    hget? (hset m h v) h = some v := by rw [hget?_hset]; simp

theorem hget?_hset_ne {ν} (m : List (Handle × ν)) (h q : Handle) (v : ν) (hq : q ≠ h) :
    hget? (hset m h v) q = hget? m q := by rw [hget?_hset]; simp [hq]

/-! ## keys -/

theorem key_key (u : Uri) : key (key u) = key u := by
  simp [key, CiName.lower]

theorem canon_key {u : Uri} (_h : u.canon = true) : (key u).canon = true := by
  simp [key, Uri.canon, rsyncLower]

theorem inJail_key (jail : Uri) {u : Uri} (hc : u.canon = true) :
    inJail jail (key u) = inJail jail u := by
  have hs : u.scheme.canon = "rsync" := by
    simp only [Uri.canon, beq_iff_eq] at hc
    exact hc
  simp only [key, inJail, eqModule, CiName.eqIgnoreCase, CiName.lower, rsyncLower, hs]
  rfl

/-! ## well-formed object maps -/

/-- Keys are unique, canonical and fixed by `key`. -/
structure ObjsOk (o : Objs) : Prop where
  nodup : (o.map (·.1)).Nodup
  keys : ∀ p ∈ o, key p.1 = p.1 ∧ p.1.canon = true

theorem ObjsOk.nil : ObjsOk [] := ⟨List.nodup_nil, fun _ h => nomatch h⟩

theorem Objs.mem_erase {o : Objs} {k : Uri} {p : Uri × Content} :
    p ∈ o.erase k ↔ p ∈ o ∧ p.1 ≠ k := by
  simp [Objs.erase]

theorem ObjsOk.erase {o : Objs} (h : ObjsOk o) (k : Uri) : ObjsOk (o.erase k) := by
  refine ⟨?_, fun p hp => h.keys p (Objs.mem_erase.mp hp).1⟩
  unfold Objs.erase
  exact List.Nodup.sublist (List.Sublist.map _ List.filter_sublist) h.nodup

theorem ObjsOk.insert {o : Objs} (h : ObjsOk o) {k : Uri} (hk : key k = k) (hc : k.canon = true)
    (c : Content) : ObjsOk (o.insert k c) := by
  have he := h.erase k
  refine ⟨?_, ?_⟩
  · unfold Objs.insert
    rw [List.map_cons, List.nodup_cons]
    refine ⟨?_, he.nodup⟩
    intro hm
    obtain ⟨p, hp, hpk⟩ := List.mem_map.mp hm
    exact (Objs.mem_erase.mp hp).2 hpk
  · intro p hp
    rcases List.mem_cons.mp hp with rfl | hp
    · exact ⟨hk, hc⟩
    · exact he.keys p hp

theorem ObjsOk.applyElem {o : Objs} (h : ObjsOk o) {e : Elem} (hc : e.uri.canon = true) :
    ObjsOk (applyElem o e) := by
  cases e with
  | publish u c => exact h.insert (key_key u) (canon_key hc) c
  | update u _ c => exact h.insert (key_key u) (canon_key hc) c
  | withdraw u _ => exact h.erase _

theorem ObjsOk.foldl {l : List Elem} (hl : AllCanon l) : ∀ {o : Objs}, ObjsOk o →
    ObjsOk (l.foldl Pubd.applyElem o) := by
  induction l with
  | nil => intro o h; exact h
  | cons a t ih =>
    intro o h
    exact ih (fun e he => hl e (by simp [he])) (h.applyElem (hl a (by simp)))

theorem ObjsOk.applyDelta {o : Objs} (h : ObjsOk o) {d : Delta} (hd : AllCanon d) :
    ObjsOk (applyDelta o d) :=
  ObjsOk.foldl (fun e he => hd e (mem_ordered.mp he)) h

/-- With unique keys, membership and look-up coincide. -/
theorem ObjsOk.get?_of_mem {o : Objs} (h : ObjsOk o) {p : Uri × Content} (hp : p ∈ o) :
    o.get? p.1 = some p.2 := by
  induction o with
  | nil => cases hp
  | cons a t ih =>
    rw [Objs.get?_cons]
    have hnd := h.nodup
    rw [List.map_cons, List.nodup_cons] at hnd
    rcases List.mem_cons.mp hp with rfl | hpt
    · simp
    · have hne : p.1 ≠ a.1 := by
        intro heq
        exact hnd.1 (heq ▸ List.mem_map_of_mem hpt)
      simp only [hne, ↓reduceIte]
      exact ih ⟨hnd.2, fun q hq => h.keys q (by simp [hq])⟩ hpt

/-- Where the objects of `foldl applyElem` come from. -/
theorem mem_foldl_applyElem {l : List Elem} : ∀ {o : Objs} {p : Uri × Content},
    p ∈ l.foldl applyElem o → p ∈ o ∨ ∃ e ∈ l, p.1 = key e.uri := by
  induction l with
  | nil => intro o p h; exact Or.inl h
  | cons a t ih =>
    intro o p h
    rw [List.foldl_cons] at h
    rcases ih h with h1 | ⟨e, he, hk⟩
    · have : p ∈ o ∨ p.1 = key a.uri := by
        cases a with
        | publish u c =>
          rcases List.mem_cons.mp h1 with rfl | h2
          · exact Or.inr rfl
          · exact Or.inl (Objs.mem_erase.mp h2).1
        | update u _ c =>
          rcases List.mem_cons.mp h1 with rfl | h2
          · exact Or.inr rfl
          · exact Or.inl (Objs.mem_erase.mp h2).1
        | withdraw u _ => exact Or.inl (Objs.mem_erase.mp h1).1
      rcases this with h2 | h2
      · exact Or.inl h2
      · exact Or.inr ⟨a, by simp, h2⟩
    · exact Or.inr ⟨e, by simp [he], hk⟩

theorem mem_applyDelta {o : Objs} {d : Delta} {p : Uri × Content} (h : p ∈ applyDelta o d) :
    p ∈ o ∨ ∃ e ∈ d, p.1 = key e.uri := by
  rcases mem_foldl_applyElem h with h1 | ⟨e, he, hk⟩
  · exact Or.inl h1
  · exact Or.inr ⟨e, mem_ordered.mp he, hk⟩

/-! ## what `merge_new_elements` can put into the staged set -/

theorem mem_removeWith {eqv : Uri → Uri → Bool} {s : Staged} {u : Uri} {a : Elem}
    (h : a ∈ Staged.removeWith eqv s u) : a ∈ s := (List.mem_filter.mp h).1

/-- Every URI staged after merging `e` was staged before or is `e`'s. -/
theorem mergeElem_uris (eqv : Uri → Uri → Bool) (P : Uri → Prop) {s : Staged} {e : Elem}
    (hs : ∀ a ∈ s, P a.uri) (he : P e.uri) : ∀ a ∈ mergeElemWith eqv s e, P a.uri := by
  have hput : ∀ (x : Elem), P x.uri → ∀ a ∈ Staged.putWith eqv s x, P a.uri := by
    intro x hx a ha
    rcases List.mem_cons.mp ha with rfl | ha
    · exact hx
    · exact hs a (mem_removeWith ha)
  cases e with
  | publish u c =>
    simp only [mergeElemWith]
    cases hf : Staged.findWith eqv s u with
    | none => exact hput _ he
    | some e0 =>
      have hm : e0 ∈ s := List.mem_of_find?_eq_some hf
      cases e0 with
      | publish u0 c0 => exact hput _ he
      | update u0 h0 c0 => exact hput (.update u0 h0 c) (hs (.update u0 h0 c0) hm)
      | withdraw u0 h0 => exact hput _ he
  | update u h c =>
    simp only [mergeElemWith]
    cases hf : Staged.findWith eqv s u with
    | none => exact hput _ he
    | some e0 =>
      have hm : e0 ∈ s := List.mem_of_find?_eq_some hf
      cases e0 with
      | publish u0 c0 => exact hput (.publish u0 c) (hs (.publish u0 c0) hm)
      | update u0 h0 c0 => exact hput (.update u0 h0 c) (hs (.update u0 h0 c0) hm)
      | withdraw u0 h0 => exact hput _ he
  | withdraw u h =>
    simp only [mergeElemWith]
    cases hf : Staged.findWith eqv s u with
    | none => exact hput _ he
    | some e0 =>
      cases e0 with
      | publish u0 c0 => exact fun a ha => hs a (mem_removeWith ha)
      | update u0 h0 c0 => exact hput _ he
      | withdraw u0 h0 => exact hs

theorem mergeNew_uris (P : Uri → Prop) {s : Staged} {d : Delta}
    (hs : ∀ a ∈ s, P a.uri) (hd : ∀ e ∈ d, P e.uri) : ∀ a ∈ mergeNew s d, P a.uri := by
  unfold mergeNew mergeNewWith
  have : ∀ (l : List Elem) (s : Staged), (∀ a ∈ s, P a.uri) → (∀ e ∈ l, P e.uri) →
      ∀ a ∈ l.foldl (mergeElemWith rsEq) s, P a.uri := by
    intro l
    induction l with
    | nil => intro s hs _; exact hs
    | cons x t ih =>
      intro s hs hl
      rw [List.foldl_cons]
      exact ih _ (mergeElem_uris rsEq P hs (hl x (by simp))) (fun e he => hl e (by simp [he]))
  exact this d.ordered s hs (fun e he => hd e (mem_ordered.mp he))

/-! ## merging a verified delta (the core of `staging_refines`) -/

theorem mergeNew_spec {cur : Objs} {st : Staged} {d : Delta}
    (hwf : WfStaged cur st) (hcs : AllCanon st) (hcd : AllCanon d) (hnd : KeyNodup d)
    (hok : ∀ e ∈ d, ElemOkView cur st e) :
    (∀ k, viewStaged cur (mergeNew st d) k =
      match findKey d k with
      | some e => e.effect
      | none => viewStaged cur st k) ∧
    WfStaged cur (mergeNew st d) ∧ AllCanon (mergeNew st d) := by
  have hndo := keyNodup_ordered hnd
  have hco : AllCanon d.ordered := fun e he => hcd e (mem_ordered.mp he)
  obtain ⟨heq, hcanon⟩ := foldl_mergeElem_congr d.ordered hco hcs
  obtain ⟨hwf', hview⟩ := foldl_mergeElem_keyEq d.ordered hndo hwf
    (fun e he => hok e (mem_ordered.mp he))
  unfold mergeNew mergeNewWith
  rw [heq]
  refine ⟨fun k => ?_, hwf', hcanon⟩
  rw [hview, findKey_ordered hnd]

/-! ## the snapshot as a map from handles -/

def currentOf (snap : List (Handle × Objs)) (h : Handle) : Objs := (hget? snap h).getD []

theorem Rrdp.current_eq (r : Rrdp) (h : Handle) : r.current h = currentOf r.snapshot h := rfl

theorem hget?_eq_none_of_not_mem {ν} {m : List (Handle × ν)} {h : Handle}
    (hn : h ∉ m.map (·.1)) : hget? m h = none := by
  induction m with
  | nil => rfl
  | cons a t ih =>
    rw [hget?_cons]
    simp only [List.map_cons, List.mem_cons, not_or] at hn
    simp only [hn.1, ↓reduceIte]
    exact ih hn.2

theorem hget?_some_mem {ν} {m : List (Handle × ν)} {h : Handle} {v : ν}
    (hs : hget? m h = some v) : (h, v) ∈ m := by
  induction m with
  | nil => simp [hget?] at hs
  | cons a t ih =>
    rw [hget?_cons] at hs
    by_cases hh : h = a.1
    · simp only [hh, ↓reduceIte, Option.some.injEq] at hs
      subst hs; subst hh; simp
    · simp only [hh, ↓reduceIte] at hs
      exact List.mem_cons_of_mem _ (ih hs)

theorem hget?_of_mem_nodup {ν} {m : List (Handle × ν)} (hnd : (m.map (·.1)).Nodup)
    {h : Handle} {v : ν} (hm : (h, v) ∈ m) : hget? m h = some v := by
  induction m with
  | nil => cases hm
  | cons a t ih =>
    rw [hget?_cons]
    rw [List.map_cons, List.nodup_cons] at hnd
    rcases List.mem_cons.mp hm with rfl | hmt
    · simp
    · have : h ≠ a.1 := by
        intro heq
        exact hnd.1 (heq ▸ List.mem_map_of_mem (f := (·.1)) hmt)
      simp only [this, ↓reduceIte]
      exact ih hnd.2 hmt

theorem mem_map_herase {ν} {m : List (Handle × ν)} {h q : Handle}
    (hq : q ∈ (herase m h).map (·.1)) : q ∈ m.map (·.1) ∧ q ≠ h := by
  obtain ⟨p, hp, rfl⟩ := List.mem_map.mp hq
  unfold herase at hp
  have := List.mem_filter.mp hp
  exact ⟨List.mem_map_of_mem this.1, by simpa using this.2⟩

theorem hnodup_herase {ν} {m : List (Handle × ν)} (hnd : (m.map (·.1)).Nodup) (h : Handle) :
    ((herase m h).map (·.1)).Nodup := by
  unfold herase
  exact List.Nodup.sublist (List.Sublist.map _ List.filter_sublist) hnd

theorem hnodup_hset {ν} {m : List (Handle × ν)} (hnd : (m.map (·.1)).Nodup) (h : Handle) (v : ν) :
    ((hset m h v).map (·.1)).Nodup := by
  unfold hset
  rw [List.map_cons, List.nodup_cons]
  exact ⟨fun hm => (mem_map_herase hm).2 rfl, hnodup_herase hnd h⟩

theorem currentOf_snapApply (snap : List (Handle × Objs)) (h q : Handle) (d : Delta) :
    currentOf (snapApply snap h d) q =
      if q = h then applyDelta (currentOf snap h) d else currentOf snap q := by
  unfold snapApply currentOf
  cases hs : hget? snap h with
  | some objs =>
    simp only [Option.getD_some]
    by_cases he : (applyDelta objs d).isEmpty = true
    · simp only [he, ↓reduceIte]
      rw [hget?_herase]
      by_cases hq : q = h
      · simp only [hq, ↓reduceIte, Option.getD_none]
        exact (List.isEmpty_iff.mp he).symm
      · simp [hq]
    · simp only [he, Bool.false_eq_true, ↓reduceIte]
      rw [hget?_hset]
      by_cases hq : q = h <;> simp [hq]
  | none =>
    simp only [Option.getD_none]
    rw [hget?_hset]
    by_cases hq : q = h <;> simp [hq]

theorem hnodup_snapApply {snap : List (Handle × Objs)} (hnd : (snap.map (·.1)).Nodup)
    (h : Handle) (d : Delta) : ((snapApply snap h d).map (·.1)).Nodup := by
  unfold snapApply
  cases hget? snap h with
  | some objs =>
    simp only
    split
    · exact hnodup_herase hnd h
    · exact hnodup_hset hnd h _
  | none => exact hnodup_hset hnd h _

theorem foldl_snapApply (l : List (Handle × Staged)) (hl : (l.map (·.1)).Nodup) :
    ∀ (snap : List (Handle × Objs)), (snap.map (·.1)).Nodup →
      ((l.foldl (fun s p => snapApply s p.1 p.2) snap).map (·.1)).Nodup ∧
      ∀ q, currentOf (l.foldl (fun s p => snapApply s p.1 p.2) snap) q =
        match hget? l q with
        | some st => applyDelta (currentOf snap q) st
        | none => currentOf snap q := by
  induction l with
  | nil => intro snap hs; exact ⟨hs, fun q => by simp [hget?]⟩
  | cons a t ih =>
    intro snap hs
    rw [List.map_cons, List.nodup_cons] at hl
    obtain ⟨hnd, hcur⟩ := ih hl.2 (snapApply snap a.1 a.2) (hnodup_snapApply hs a.1 a.2)
    rw [List.foldl_cons]
    refine ⟨hnd, fun q => ?_⟩
    rw [hcur q, hget?_cons, currentOf_snapApply]
    by_cases hq : q = a.1
    · subst hq
      rw [hget?_eq_none_of_not_mem hl.1]
      simp
    · simp only [hq, ↓reduceIte]

/-! ## invariant of the content aggregate -/

/-- Everything publisher `h` has (published or staged) lies in its jail; a handle for which no
base URI can be derived has nothing. -/
def JailedAt (base : Uri) (r : Rrdp) (h : Handle) : Prop :=
  match publisherBase base h with
  | some jail => (∀ p ∈ r.current h, inJail jail p.1 = true) ∧
                 (∀ e ∈ r.stagedOf h, inJail jail e.uri = true)
  | none => r.current h = [] ∧ r.stagedOf h = []

structure RInv (base : Uri) (r : Rrdp) : Prop where
  snapNodup : (r.snapshot.map (·.1)).Nodup
  stagedNodup : (r.staged.map (·.1)).Nodup
  objs : ∀ h, ObjsOk (r.current h)
  wf : ∀ h, WfStaged (r.current h) (r.stagedOf h)
  canon : ∀ h, AllCanon (r.stagedOf h)
  jailed : ∀ h, JailedAt base r h

theorem RInv.create (base : Uri) (session rnd : Nat) : RInv base (Rrdp.create session rnd) := by
  refine ⟨List.nodup_nil, List.nodup_nil, fun _ => ObjsOk.nil, fun _ => WfStaged.nil _,
    (fun _ e he => nomatch he), fun h => ?_⟩
  unfold JailedAt
  cases publisherBase base h with
  | none => exact ⟨rfl, rfl⟩
  | some jail => exact ⟨(fun p hp => nomatch hp), (fun e he => nomatch he)⟩

theorem current_publisherAdded (r : Rrdp) (h q : Handle) :
    (r.publisherAdded h).current q = r.current q := by
  unfold Rrdp.publisherAdded
  cases hs : hget? r.snapshot h with
  | some o => simp
  | none =>
    simp only [Option.isSome_none, Bool.false_eq_true, ↓reduceIte, Rrdp.current]
    rw [hget?_hset]
    by_cases hq : q = h
    · simp [hq, hs]
    · simp [hq]

theorem RInv.publisherAdded {base : Uri} {r : Rrdp} (hi : RInv base r) (h : Handle) :
    RInv base (r.publisherAdded h) := by
  have hst : ∀ q, (r.publisherAdded h).stagedOf q = r.stagedOf q := by
    intro q; unfold Rrdp.publisherAdded; split <;> rfl
  refine ⟨?_, ?_, ?_, ?_, ?_, ?_⟩
  · unfold Rrdp.publisherAdded
    split
    · exact hi.snapNodup
    · exact hnodup_hset hi.snapNodup h []
  · have : (r.publisherAdded h).staged = r.staged := by
      unfold Rrdp.publisherAdded; split <;> rfl
    rw [this]; exact hi.stagedNodup
  · intro q; rw [current_publisherAdded]; exact hi.objs q
  · intro q; rw [current_publisherAdded, hst]; exact hi.wf q
  · intro q; rw [hst]; exact hi.canon q
  · intro q
    have := hi.jailed q
    unfold JailedAt at this ⊢
    rw [current_publisherAdded, hst]
    exact this

theorem stagedOf_stage (r : Rrdp) (h q : Handle) (d : Delta) :
    (r.stage h d).stagedOf q = if q = h then mergeNew (r.stagedOf h) d else r.stagedOf q := by
  simp only [Rrdp.stage, Rrdp.stagedOf]
  rw [hget?_hset]
  by_cases hq : q = h <;> simp [hq]

/-- Staging a delta whose elements fit current ⊕ staged and lie in the jail keeps the
invariant. -/
theorem RInv.stage {base : Uri} {r : Rrdp} (hi : RInv base r) (h : Handle) {d : Delta}
    (hcd : AllCanon d) (hnd : KeyNodup d)
    (hok : ∀ e ∈ d, ElemOkView (r.current h) (r.stagedOf h) e)
    (hjail : ∀ jail, publisherBase base h = some jail → ∀ e ∈ d, inJail jail e.uri = true)
    (hnone : publisherBase base h = none → d = []) :
    RInv base (r.stage h d) := by
  obtain ⟨_, hwf', hcanon'⟩ := mergeNew_spec (hi.wf h) (hi.canon h) hcd hnd hok
  refine ⟨hi.snapNodup, hnodup_hset hi.stagedNodup h _, hi.objs, ?_, ?_, ?_⟩
  · intro q
    rw [stagedOf_stage]
    by_cases hq : q = h
    · subst hq; simp only [↓reduceIte]; exact hwf'
    · simp only [hq, ↓reduceIte]; exact hi.wf q
  · intro q
    rw [stagedOf_stage]
    by_cases hq : q = h
    · subst hq; simp only [↓reduceIte]; exact hcanon'
    · simp only [hq, ↓reduceIte]; exact hi.canon q
  · intro q
    have hj := hi.jailed q
    unfold JailedAt at hj ⊢
    rw [stagedOf_stage]
    by_cases hq : q = h
    · subst hq
      simp only [↓reduceIte]
      cases hb : publisherBase base q with
      | some jail =>
        simp only [hb] at hj
        exact ⟨hj.1, mergeNew_uris (fun u => inJail jail u = true) hj.2 (hjail jail hb)⟩
      | none =>
        simp only [hb] at hj
        refine ⟨hj.1, ?_⟩
        rw [hnone hb, hj.2]
        rfl
    · simp only [hq, ↓reduceIte]
      exact hj

theorem RInv.sessionReset {base : Uri} {r : Rrdp} (hi : RInv base r) (session rnd : Nat) :
    RInv base (r.sessionReset session rnd) :=
  ⟨hi.snapNodup, hi.stagedNodup, hi.objs, hi.wf, hi.canon, hi.jailed⟩

theorem current_applyUpdated {r : Rrdp} (hnd : (r.staged.map (·.1)).Nodup)
    (hsn : (r.snapshot.map (·.1)).Nodup) (t rnd : Nat) (q : Handle) :
    (r.applyUpdated t rnd).current q = r.objectsFor q := by
  obtain ⟨_, hcur⟩ := foldl_snapApply r.staged hnd r.snapshot hsn
  show currentOf (r.staged.foldl (fun s p => snapApply s p.1 p.2) r.snapshot) q = _
  rw [hcur q]
  unfold Rrdp.objectsFor Rrdp.stagedOf Rrdp.current currentOf
  cases hget? r.staged q with
  | some st => rfl
  | none =>
    simp only [Option.getD_none]
    unfold objectsFor applyDelta
    rfl

theorem RInv.applyUpdated {base : Uri} {r : Rrdp} (hi : RInv base r) (t rnd : Nat) :
    RInv base (r.applyUpdated t rnd) := by
  have hcur := current_applyUpdated hi.stagedNodup hi.snapNodup t rnd
  have hst : ∀ q, (r.applyUpdated t rnd).stagedOf q = [] := fun q => rfl
  refine ⟨(foldl_snapApply r.staged hi.stagedNodup r.snapshot hi.snapNodup).1, List.nodup_nil,
    ?_, ?_, ?_, ?_⟩
  · intro q; rw [hcur]; exact (hi.objs q).applyDelta (hi.canon q)
  · intro q; rw [hst]; exact WfStaged.nil _
  · intro q; rw [hst]; exact fun e he => nomatch he
  · intro q
    have hj := hi.jailed q
    unfold JailedAt at hj ⊢
    rw [hcur, hst]
    cases hb : publisherBase base q with
    | some jail =>
      simp only [hb] at hj
      refine ⟨?_, (fun e he => nomatch he)⟩
      intro p hp
      rcases mem_applyDelta hp with h1 | ⟨e, he, hk⟩
      · exact hj.1 p h1
      · rw [hk, inJail_key jail (hi.canon q e he)]
        exact hj.2 e he
    | none =>
      simp only [hb] at hj
      refine ⟨?_, rfl⟩
      unfold Rrdp.objectsFor
      rw [hj.1, hj.2]
      rfl

/-- The publisher's objects (published ⊕ staged) are a well-formed map inside the jail. -/
theorem RInv.objectsFor_ok {base : Uri} {r : Rrdp} (hi : RInv base r) (h : Handle) :
    ObjsOk (r.objectsFor h) := (hi.objs h).applyDelta (hi.canon h)

theorem RInv.objectsFor_jailed {base : Uri} {r : Rrdp} (hi : RInv base r) {h : Handle} {jail : Uri}
    (hb : publisherBase base h = some jail) : ∀ p ∈ r.objectsFor h, inJail jail p.1 = true := by
  have hj := hi.jailed h
  unfold JailedAt at hj
  simp only [hb] at hj
  intro p hp
  rcases mem_applyDelta hp with h1 | ⟨e, he, hk⟩
  · exact hj.1 p h1
  · rw [hk, inJail_key jail (hi.canon h e he)]
    exact hj.2 e he

theorem RInv.objectsFor_nil {base : Uri} {r : Rrdp} (hi : RInv base r) {h : Handle}
    (hb : publisherBase base h = none) : r.objectsFor h = [] := by
  have hj := hi.jailed h
  unfold JailedAt at hj
  simp only [hb] at hj
  unfold Rrdp.objectsFor
  rw [hj.1, hj.2]
  rfl

/-- Withdraws for some of the publisher's objects are a delta that fits current ⊕ staged. -/
theorem RInv.withdraws_facts {base : Uri} {r : Rrdp} (hi : RInv base r) (h : Handle)
    (f : Uri × Content → Bool) :
    AllCanon (((r.objectsFor h).filter f).map (fun p => Elem.withdraw p.1 p.2.hash)) ∧
    KeyNodup (((r.objectsFor h).filter f).map (fun p => Elem.withdraw p.1 p.2.hash)) ∧
    ∀ e ∈ ((r.objectsFor h).filter f).map (fun p => Elem.withdraw p.1 p.2.hash),
      ElemOkView (r.current h) (r.stagedOf h) e := by
  have hoo := hi.objectsFor_ok h
  have hsub : ∀ p, p ∈ (r.objectsFor h).filter f → p ∈ r.objectsFor h :=
    fun p hp => (List.mem_filter.mp hp).1
  refine ⟨?_, ?_, ?_⟩
  · intro e he
    obtain ⟨p, hp, rfl⟩ := List.mem_map.mp he
    exact (hoo.keys p (hsub p hp)).2
  · unfold KeyNodup
    rw [List.pairwise_map]
    have hnd : ((r.objectsFor h).filter f).Pairwise (fun a b => a.1 ≠ b.1) := by
      have := hoo.nodup
      rw [List.Nodup, List.pairwise_map] at this
      exact List.Pairwise.sublist List.filter_sublist this
    refine List.Pairwise.imp_of_mem ?_ hnd
    intro a b ha hb hab
    simp only [Elem.uri]
    rw [(hoo.keys a (hsub a ha)).1, (hoo.keys b (hsub b hb)).1]
    exact hab
  · intro e he
    obtain ⟨p, hp, rfl⟩ := List.mem_map.mp he
    simp only [ElemOkView]
    rw [(hoo.keys p (hsub p hp)).1, ← get?_objectsFor _ _ (hi.wf h).nodup]
    show Option.map Content.hash ((r.objectsFor h).get? p.1) = _
    rw [hoo.get?_of_mem (hsub p hp)]
    rfl

/-- Staging withdraws for some of the publisher's objects (publisher removal, deletion of
matching files) keeps the invariant. -/
theorem RInv.stage_withdraws {base : Uri} {r : Rrdp} (hi : RInv base r) (h : Handle)
    (f : Uri × Content → Bool) :
    RInv base (r.stage h (((r.objectsFor h).filter f).map (fun p => Elem.withdraw p.1 p.2.hash))) := by
  obtain ⟨hc, hn, hok⟩ := hi.withdraws_facts h f
  have hsub : ∀ p, p ∈ (r.objectsFor h).filter f → p ∈ r.objectsFor h :=
    fun p hp => (List.mem_filter.mp hp).1
  apply hi.stage h hc hn hok
  · intro jail hb e he
    obtain ⟨p, hp, rfl⟩ := List.mem_map.mp he
    exact hi.objectsFor_jailed hb p (hsub p hp)
  · intro hb
    rw [hi.objectsFor_nil hb]
    rfl

theorem filter_true_eq (l : Objs) : l.filter (fun _ => true) = l := by
  induction l with
  | nil => rfl
  | cons a t ih => rw [List.filter_cons]; simp [ih]

/-! ## invariant of the manager -/

theorem objectsFor_stage_ne (r : Rrdp) (h q : Handle) (d : Delta) (hq : q ≠ h) :
    (r.stage h d).objectsFor q = r.objectsFor q := by
  unfold Rrdp.objectsFor
  rw [stagedOf_stage]
  simp only [hq, ↓reduceIte]
  rfl

theorem hget?_none_not_mem {ν} {m : List (Handle × ν)} {h : Handle} (hn : hget? m h = none) :
    h ∉ m.map (·.1) := by
  induction m with
  | nil => simp
  | cons a t ih =>
    rw [hget?_cons] at hn
    by_cases hh : h = a.1
    · simp [hh] at hn
    · simp only [hh, ↓reduceIte] at hn
      simp only [List.map_cons, List.mem_cons, not_or]
      exact ⟨hh, ih hn⟩

theorem RInv.publishers_nodup {base : Uri} {r : Rrdp} (hi : RInv base r) : r.publishers.Nodup := by
  unfold Rrdp.publishers
  rw [List.nodup_append]
  refine ⟨hi.snapNodup, List.Nodup.sublist List.filter_sublist hi.stagedNodup, ?_⟩
  intro a ha b hb hab
  subst hab
  have := (List.mem_filter.mp hb).2
  simp only [Option.isNone_iff_eq_none] at this
  exact hget?_none_not_mem this ha

theorem RInv.deleteFiles {base : Uri} {r : Rrdp} (hi : RInv base r) (del : Uri) :
    RInv base (r.deleteFiles del) := by
  unfold Rrdp.deleteFiles
  have gen : ∀ (l : List Handle), l.Nodup → ∀ (acc : Rrdp), RInv base acc →
      (∀ h ∈ l, acc.objectsFor h = r.objectsFor h) →
      RInv base (l.foldl (fun acc h =>
        let w := matchingWithdraws (r.objectsFor h) del
        if w.isEmpty then acc else acc.stage h w) acc) := by
    intro l
    induction l with
    | nil => intro _ acc ha _; exact ha
    | cons h t ih =>
      intro hl acc ha hobj
      rw [List.nodup_cons] at hl
      rw [List.foldl_cons]
      apply ih hl.2
      · simp only
        split
        · exact ha
        · rw [← hobj h (by simp)]
          exact ha.stage_withdraws h (fun p => matchesDel del p.1)
      · intro q hq
        have hne : q ≠ h := fun e => hl.1 (e ▸ hq)
        simp only
        split
        · exact hobj q (by simp [hq])
        · rw [objectsFor_stage_ne _ _ _ _ hne]
          exact hobj q (by simp [hq])
  exact gen r.publishers hi.publishers_nodup r hi (fun _ _ => rfl)

theorem RInv.removePublisher {base : Uri} {r : Rrdp} (hi : RInv base r) (h : Handle) :
    RInv base (r.removePublisher h) := by
  unfold Rrdp.removePublisher
  simp only
  split
  · exact hi
  · have := hi.stage_withdraws h (fun _ => true)
    have hf : ∀ (l : Objs), l.filter (fun _ => true) = l := by
      intro l; induction l with
      | nil => rfl
      | cons a t ih => rw [List.filter_cons]; simp [ih]
    rw [hf] at this
    exact this

structure SInv (s : Server) : Prop where
  r : RInv s.base s.rrdp
  access : ∀ h jail, s.jail? h = some jail → publisherBase s.base h = some jail
  accessNodup : (s.access.map (·.1)).Nodup

/-- What is asked of the requests of a history: deltas name every URI at most once and use
canonical URIs. -/
def OpOk : Op → Prop
  | .publish _ d => AllCanon d ∧ KeyNodup d
  | _ => True

theorem SInv.init (base : Uri) (cfg : Cfg) (session rnd : Nat) :
    SInv (Server.init base cfg session rnd) :=
  ⟨RInv.create base session rnd, fun h jail hj => by simp [Server.init, Server.jail?, hget?] at hj,
    List.nodup_nil⟩

theorem SInv.update {s : Server} (hi : SInv s) (rnd : Nat) : SInv (s.update rnd).1 := by
  unfold Server.update
  split
  · exact hi
  · split
    · exact hi
    · exact ⟨hi.r.applyUpdated _ rnd, hi.access, hi.accessNodup⟩

theorem SInv.step {s : Server} (hi : SInv s) {op : Op} (hok : OpOk op) : SInv (s.step op) := by
  cases op with
  | addpub h =>
    simp only [Server.step, Server.addPublisher]
    cases hb : publisherBase s.base h with
    | none => exact hi
    | some jail =>
      simp only
      split
      · exact hi
      · refine ⟨hi.r.publisherAdded h, ?_, hnodup_hset hi.accessNodup h jail⟩
        intro q j hq
        simp only [Server.jail?] at hq
        rw [hget?_hset] at hq
        by_cases hqh : q = h
        · simp only [hqh, ↓reduceIte, Option.some.injEq] at hq
          rw [hqh, ← hq]; exact hb
        · simp only [hqh, ↓reduceIte] at hq
          exact hi.access q j hq
  | rmpub h =>
    simp only [Server.step, Server.removePublisher]
    split
    · refine ⟨hi.r.removePublisher h, ?_, hnodup_herase hi.accessNodup h⟩
      intro q j hq
      simp only [Server.jail?] at hq
      rw [hget?_herase] at hq
      by_cases hqh : q = h
      · simp [hqh] at hq
      · simp only [hqh, ↓reduceIte] at hq
        exact hi.access q j hq
    · exact ⟨hi.r.removePublisher h, hi.access, hi.accessNodup⟩
  | publish h d =>
    simp only [Server.step, Server.publish]
    cases hj : s.jail? h with
    | none => exact hi
    | some jail =>
      simp only
      split
      · exact hi
      · cases hv : verifyDelta (s.rrdp.objectsFor h) jail d with
        | some e => exact hi
        | none =>
          simp only
          have hall := (verifyDelta_eq_none_iff _ jail d).mp hv
          refine ⟨hi.r.stage h hok.1 hok.2 ?_ ?_ ?_, hi.access, hi.accessNodup⟩
          · intro e he
            have := (checkElem_eq_none_iff _ jail e).mp (hall e he)
            cases e <;> simp only [ElemOk, ElemOkView] at this ⊢ <;>
              rw [← get?_objectsFor _ _ (hi.r.wf h).nodup] <;> exact this.2
          · intro jail' hb e he
            have hjj : jail' = jail := by
              have := hi.access h jail hj
              rw [hb] at this
              exact Option.some.inj this
            rw [hjj]
            exact ((checkElem_eq_none_iff _ jail e).mp (hall e he)).1
          · intro hb
            have := hi.access h jail hj
            rw [hb] at this
            cases this
  | update rnd => exact hi.update rnd
  | reset session rnd => exact ⟨hi.r.sessionReset session rnd, hi.access, hi.accessNodup⟩
  | delete del rndOf =>
    simp only [Server.step, Server.delete]
    have h1 := hi.update (rndOf (s.rrdp.serial + 1))
    generalize s.update (rndOf (s.rrdp.serial + 1)) = p1 at h1
    obtain ⟨s1, r1⟩ := p1
    simp only
    split
    · exact h1
    · have h2 : SInv { s1 with rrdp := s1.rrdp.deleteFiles del } :=
        ⟨h1.r.deleteFiles del, h1.access, h1.accessNodup⟩
      exact h2.update _

theorem SInv.run {s : Server} (hi : SInv s) : ∀ {ops : List Op}, (∀ op ∈ ops, OpOk op) →
    SInv (s.run ops) := by
  intro ops
  induction ops generalizing s with
  | nil => intro _; exact hi
  | cons op t ih =>
    intro hok
    unfold Server.run
    rw [List.foldl_cons]
    exact ih (hi.step (hok op (by simp))) (fun o ho => hok o (by simp [ho]))

/-! ## requests as sequences of changes of the content aggregate -/

theorem Rrdp.run_append (r : Rrdp) (a b : List RrdpOp) : r.run (a ++ b) = (r.run a).run b := by
  unfold Rrdp.run; rw [List.foldl_append]

theorem update_rrdp_run (s : Server) (rnd : Nat) :
    ∃ rops : List RrdpOp, (s.update rnd).1.rrdp = s.rrdp.run rops ∧
      (s.update rnd).1.base = s.base ∧ (s.update rnd).1.cfg = s.cfg := by
  unfold Server.update
  split
  · exact ⟨[], rfl, rfl, rfl⟩
  · split
    · exact ⟨[], rfl, rfl, rfl⟩
    · exact ⟨[.update (findTruncateAge s.cfg.minNr s.cfg.maxNr s.ages) rnd], rfl, rfl, rfl⟩

theorem deleteFiles_rrdp_run (r : Rrdp) (del : Uri) :
    ∃ rops : List RrdpOp, r.deleteFiles del = r.run rops := by
  unfold Rrdp.deleteFiles
  have gen : ∀ (l : List Handle) (acc : Rrdp), ∃ rops : List RrdpOp,
      l.foldl (fun acc h =>
        let w := matchingWithdraws (r.objectsFor h) del
        if w.isEmpty then acc else acc.stage h w) acc = acc.run rops := by
    intro l
    induction l with
    | nil => intro acc; exact ⟨[], rfl⟩
    | cons h t ih =>
      intro acc
      rw [List.foldl_cons]
      simp only
      split
      · exact ih acc
      · obtain ⟨rops, hr⟩ := ih (acc.stage h (matchingWithdraws (r.objectsFor h) del))
        refine ⟨.stage h (matchingWithdraws (r.objectsFor h) del) :: rops, ?_⟩
        rw [hr]; rfl
  exact gen r.publishers r

theorem server_step_rrdp_run (s : Server) (op : Op) :
    ∃ rops : List RrdpOp, (s.step op).rrdp = s.rrdp.run rops := by
  cases op with
  | addpub h =>
    simp only [Server.step, Server.addPublisher]
    cases publisherBase s.base h with
    | none => exact ⟨[], rfl⟩
    | some jail =>
      simp only
      split
      · exact ⟨[], rfl⟩
      · exact ⟨[.added h], rfl⟩
  | rmpub h =>
    have : (s.removePublisher h).1.rrdp = s.rrdp.removePublisher h := by
      unfold Server.removePublisher; simp only; split <;> rfl
    simp only [Server.step, this, Rrdp.removePublisher]
    split
    · exact ⟨[], rfl⟩
    · exact ⟨[.stage h (withdrawAll (s.rrdp.objectsFor h))], rfl⟩
  | publish h d =>
    simp only [Server.step, Server.publish]
    cases s.jail? h with
    | none => exact ⟨[], rfl⟩
    | some jail =>
      simp only
      split
      · exact ⟨[], rfl⟩
      · cases verifyDelta (s.rrdp.objectsFor h) jail d with
        | some e => exact ⟨[], rfl⟩
        | none => exact ⟨[.stage h d], rfl⟩
  | update rnd =>
    obtain ⟨rops, h, _⟩ := update_rrdp_run s rnd
    exact ⟨rops, h⟩
  | reset session rnd => exact ⟨[.reset session rnd], rfl⟩
  | delete del rndOf =>
    simp only [Server.step, Server.delete]
    obtain ⟨r1, h1, _, _⟩ := update_rrdp_run s (rndOf (s.rrdp.serial + 1))
    generalize s.update (rndOf (s.rrdp.serial + 1)) = p1 at h1
    obtain ⟨s1, ret1⟩ := p1
    simp only at h1 ⊢
    split
    · exact ⟨r1, h1⟩
    · obtain ⟨r2, h2⟩ := deleteFiles_rrdp_run s1.rrdp del
      obtain ⟨r3, h3, _, _⟩ := update_rrdp_run { s1 with rrdp := s1.rrdp.deleteFiles del }
        (rndOf (({ s1 with rrdp := s1.rrdp.deleteFiles del } : Server).rrdp.serial + 1))
      refine ⟨r1 ++ r2 ++ r3, ?_⟩
      rw [h3, Rrdp.run_append, Rrdp.run_append, ← h1]
      show (s1.rrdp.deleteFiles del).run r3 = _
      rw [h2]

/-! ## the retained deltas -/

/-- The deltas are those of the serials `n, n-1, …` (none for serial 1). -/
def contigFrom : Nat → List DeltaRec → Prop
  | _, [] => True
  | n, d :: ds => d.serial = n ∧ 1 < n ∧ contigFrom (n - 1) ds

theorem contigFrom_take : ∀ (n : Nat) (l : List DeltaRec) (k : Nat),
    contigFrom n l → contigFrom n (l.take k) := by
  intro n l
  induction l generalizing n with
  | nil => intro k _; simp [contigFrom]
  | cons d ds ih =>
    intro k h
    cases k with
    | zero => simp [contigFrom]
    | succ k =>
      rw [List.take_succ_cons]
      exact ⟨h.1, h.2.1, ih (n - 1) k h.2.2⟩

/-- A contiguous run ending at the current serial. -/
def Contig (r : Rrdp) : Prop := 0 < r.serial ∧ contigFrom r.serial r.deltas

theorem Contig.create (session rnd : Nat) : Contig (Rrdp.create session rnd) :=
  ⟨Nat.one_pos, trivial⟩

theorem Contig.step {r : Rrdp} (h : Contig r) (op : RrdpOp) : Contig (r.step op) := by
  cases op with
  | added h' =>
    simp only [Rrdp.step, Rrdp.publisherAdded]; split <;> exact h
  | stage h' d => exact h
  | update t rnd =>
    refine ⟨Nat.succ_pos _, ?_⟩
    show contigFrom (r.serial + 1) (List.take _ (_ :: r.deltas.take t))
    apply contigFrom_take
    refine ⟨rfl, Nat.succ_lt_succ h.1, ?_⟩
    rw [Nat.add_sub_cancel]
    exact contigFrom_take _ _ _ h.2
  | reset s rnd => exact ⟨Nat.one_pos, trivial⟩

theorem Contig.run {r : Rrdp} (h : Contig r) (ops : List RrdpOp) : Contig (r.run ops) := by
  induction ops generalizing r with
  | nil => exact h
  | cons op t ih => unfold Rrdp.run; rw [List.foldl_cons]; exact ih (h.step op)

/-- Consequences of contiguity: the `i`-th delta is the one of serial `serial - i`, and there
are fewer deltas than the serial. -/
theorem contigFrom_get : ∀ (n : Nat) (l : List DeltaRec), contigFrom n l →
    ∀ i (hi : i < l.length), l[i].serial + i = n ∧ i + 1 < n := by
  intro n l
  induction l generalizing n with
  | nil => intro _ i hi; cases hi
  | cons d ds ih =>
    intro h i hi
    cases i with
    | zero => exact ⟨h.1, h.2.1⟩
    | succ i =>
      have := ih (n - 1) h.2.2 i (Nat.lt_of_succ_lt_succ hi)
      simp only [List.getElem_cons_succ]
      omega

/-! ## retention by number -/

theorem truncLoop_le (minNr maxNr : Nat) (hmin : minNr + 1 ≤ maxNr) :
    ∀ (l : List (Bool × Bool)) (keep : Nat), keep ≤ maxNr - 1 →
      (∀ j a, l[j]? = some a → maxNr - 1 ≤ keep + j → a.1 = false) →
      truncLoop minNr maxNr keep l ≤ maxNr - 1 := by
  intro l
  induction l with
  | nil =>
    intro keep hk _
    simp only [truncLoop]
    exact hk
  | cons a rest ih =>
    intro keep hk hy
    obtain ⟨young, old⟩ := a
    simp only [truncLoop]
    have hy0 : maxNr - 1 ≤ keep → young = false := fun hle => hy 0 (young, old) rfl (by omega)
    have hyrest : ∀ j a, rest[j]? = some a → maxNr - 1 ≤ (keep + 1) + j → a.1 = false := by
      intro j a hj hle
      exact hy (j + 1) a (by simpa using hj) (by omega)
    by_cases hc : (decide (keep < minNr) || young) = true
    · rw [if_pos hc]
      have hlt : keep < maxNr - 1 := by
        apply Nat.lt_of_le_of_ne hk
        intro heq
        have hyf := hy0 (by omega)
        simp only [hyf, Bool.or_false, decide_eq_true_eq] at hc
        omega
      exact ih (keep + 1) (by omega) hyrest
    · rw [if_neg hc]
      by_cases hb : (keep == maxNr - 1 || old) = true
      · rw [if_pos hb]; exact hk
      · rw [if_neg hb]
        have hne : keep ≠ maxNr - 1 := by
          intro heq
          apply hb
          simp [heq]
        exact ih (keep + 1) (by omega) hyrest

theorem keepBySize_le (limit : Nat) : ∀ (l : List DeltaRec) (total : Nat),
    keepBySize limit total l ≤ l.length := by
  intro l
  induction l with
  | nil => intro _; simp [keepBySize]
  | cons d ds ih =>
    intro total
    simp only [keepBySize]
    split
    · exact Nat.zero_le _
    · have := ih (total + d.size)
      simp only [List.length_cons]
      omega

/-! ## the client -/

theorem clientApplyElem_ok {o : Objs} {e : Elem} (h : ElemWf o e) :
    clientApplyElem o e = some (applyElem o e) := by
  cases e with
  | publish u c => simp only [ElemWf] at h; simp [clientApplyElem, applyElem, h]
  | update u hh c => simp only [ElemWf] at h; simp [clientApplyElem, applyElem, h]
  | withdraw u hh => simp only [ElemWf] at h; simp [clientApplyElem, applyElem, h]

theorem ElemWf_congr {o o' : Objs} {e : Elem} (h : o'.get? (key e.uri) = o.get? (key e.uri)) :
    ElemWf o' e ↔ ElemWf o e := by
  cases e <;> simp only [ElemWf, Elem.uri] at h ⊢ <;> rw [h]

/-- A strict client applying elements with pairwise distinct keys, each of which fits the
objects it starts from, succeeds and ends with the plain application. -/
theorem clientApply_eq_foldl (l : List Elem) (hnd : KeyNodup l) :
    ∀ (o : Objs), (∀ e ∈ l, ElemWf o e) → clientApply o l = some (l.foldl applyElem o) := by
  induction l with
  | nil => intro o _; rfl
  | cons a t ih =>
    intro o hwf
    have hnd' := List.pairwise_cons.mp hnd
    simp only [clientApply, clientApplyElem_ok (hwf a (by simp)), List.foldl_cons]
    apply ih hnd'.2
    intro e he
    have hne : key e.uri ≠ key a.uri := fun h => hnd'.1 e he h.symm
    rw [ElemWf_congr (o := o)]
    · exact hwf e (by simp [he])
    · rw [get?_applyElem]; simp [hne]

theorem clientApplyElem_congr {a b : Objs} (hab : ∀ k, a.get? k = b.get? k) (e : Elem) :
    match clientApplyElem a e, clientApplyElem b e with
    | some a', some b' => ∀ k, a'.get? k = b'.get? k
    | none, none => True
    | _, _ => False := by
  cases e with
  | publish u c =>
    simp only [clientApplyElem, hab (key u)]
    by_cases hc : (b.get? (key u)).isSome = true
    · simp [hc]
    · simp only [hc, Bool.false_eq_true, ↓reduceIte]
      intro k; rw [Objs.get?_insert, Objs.get?_insert, hab k]
  | update u h c =>
    simp only [clientApplyElem, hab (key u)]
    by_cases hc : (Option.map Content.hash (b.get? (key u)) == some h) = true
    · simp only [hc, ↓reduceIte]
      intro k; rw [Objs.get?_insert, Objs.get?_insert, hab k]
    · simp [hc]
  | withdraw u h =>
    simp only [clientApplyElem, hab (key u)]
    by_cases hc : (Option.map Content.hash (b.get? (key u)) == some h) = true
    · simp only [hc, ↓reduceIte]
      intro k; rw [Objs.get?_erase, Objs.get?_erase, hab k]
    · simp [hc]

theorem clientApply_congr (l : List Elem) : ∀ {a b : Objs}, (∀ k, a.get? k = b.get? k) →
    match clientApply a l, clientApply b l with
    | some a', some b' => ∀ k, a'.get? k = b'.get? k
    | none, none => True
    | _, _ => False := by
  induction l with
  | nil => intro a b hab; exact hab
  | cons e t ih =>
    intro a b hab
    have := clientApplyElem_congr hab e
    simp only [clientApply]
    cases ha : clientApplyElem a e <;> cases hb : clientApplyElem b e <;> simp only [ha, hb] at this
    · trivial
    · exact ih this

/-! ## the flattened snapshot -/

theorem Objs.get?_append (a b : Objs) (k : Uri) :
    Objs.get? (a ++ b) k = match a.get? k with | some c => some c | none => b.get? k := by
  induction a with
  | nil => rfl
  | cons p t ih =>
    rw [List.cons_append, Objs.get?_cons, Objs.get?_cons]
    by_cases hk : k = p.1
    · simp [hk]
    · simp only [hk, ↓reduceIte]; exact ih

theorem flatten_cons (p : Handle × Objs) (t : List (Handle × Objs)) :
    flatten (p :: t) = p.2 ++ flatten t := by
  simp [flatten, List.flatMap_cons]

theorem flatten_get?_none {snap : List (Handle × Objs)} {k : Uri}
    (h : ∀ p ∈ snap, p.2.get? k = none) : (flatten snap).get? k = none := by
  induction snap with
  | nil => rfl
  | cons p t ih =>
    rw [flatten_cons, Objs.get?_append, h p (by simp)]
    exact ih (fun q hq => h q (by simp [hq]))

theorem currentOf_cons (p : Handle × Objs) (t : List (Handle × Objs)) (h : Handle) :
    currentOf (p :: t) h = if h = p.1 then p.2 else currentOf t h := by
  unfold currentOf
  rw [hget?_cons]
  by_cases hh : h = p.1 <;> simp [hh]

/-- If no publisher other than `h` has an object at key `k`, the snapshot has `h`'s. -/
theorem flatten_get?_owner {snap : List (Handle × Objs)} (hnd : (snap.map (·.1)).Nodup)
    {h : Handle} {k : Uri} (hoth : ∀ q, q ≠ h → (currentOf snap q).get? k = none) :
    (flatten snap).get? k = (currentOf snap h).get? k := by
  induction snap with
  | nil => rfl
  | cons p t ih =>
    rw [List.map_cons, List.nodup_cons] at hnd
    rw [flatten_cons, Objs.get?_append, currentOf_cons]
    have htail : ∀ q, q ≠ p.1 → currentOf (p :: t) q = currentOf t q := by
      intro q hq; rw [currentOf_cons]; simp [hq]
    by_cases hp : h = p.1
    · simp only [hp, ↓reduceIte]
      have : (flatten t).get? k = none := by
        apply flatten_get?_none
        intro q hq
        have hne : q.1 ≠ p.1 := fun e => hnd.1 (e ▸ List.mem_map_of_mem (f := (·.1)) hq)
        have h1 := hoth q.1 (hp ▸ hne)
        rw [htail q.1 hne] at h1
        have : currentOf t q.1 = q.2 := by
          unfold currentOf
          rw [hget?_of_mem_nodup hnd.2 (h := q.1) (v := q.2) hq]
          rfl
        rw [this] at h1
        exact h1
      rw [this]
      cases p.2.get? k <;> rfl
    · simp only [hp, ↓reduceIte]
      have h1 := hoth p.1 (fun e => hp e.symm)
      rw [currentOf_cons] at h1
      simp only [↓reduceIte] at h1
      rw [h1]
      apply ih hnd.2
      intro q hq
      by_cases hqp : q = p.1
      · subst hqp
        unfold currentOf
        rw [hget?_eq_none_of_not_mem hnd.1]
        rfl
      · rw [← htail q hqp]; exact hoth q hq

/-! ## an RRDP update seen by a client -/

/-- Publisher `h` has, or has staged a change for, key `k`. -/
def touches (r : Rrdp) (h : Handle) (k : Uri) : Prop :=
  (r.current h).get? k ≠ none ∨ ∃ e ∈ r.stagedOf h, key e.uri = k

/-- No object key is held (or staged) by two publishers. -/
def KeysDisjoint (r : Rrdp) : Prop := ∀ h1 h2 k, h1 ≠ h2 → touches r h1 k → ¬ touches r h2 k

theorem stagedElems_eq (staged : List (Handle × Staged)) :
    stagedElems staged = Delta.ordered (staged.flatMap (·.2)) := by
  unfold stagedElems Delta.ordered
  rw [List.filter_flatMap, List.filter_flatMap, List.filter_flatMap]

theorem mem_allStaged {base : Uri} {r : Rrdp} (hi : RInv base r) {e : Elem} :
    e ∈ r.staged.flatMap (·.2) ↔ ∃ h, e ∈ r.stagedOf h := by
  rw [List.mem_flatMap]
  constructor
  · rintro ⟨p, hp, he⟩
    refine ⟨p.1, ?_⟩
    unfold Rrdp.stagedOf
    rw [hget?_of_mem_nodup hi.stagedNodup (h := p.1) (v := p.2) hp]
    exact he
  · rintro ⟨h, he⟩
    unfold Rrdp.stagedOf at he
    cases hg : hget? r.staged h with
    | none => rw [hg] at he; cases he
    | some st =>
      rw [hg] at he
      exact ⟨(h, st), hget?_some_mem hg, he⟩

theorem objectsFor_get?_none {base : Uri} {r : Rrdp} (hi : RInv base r) {q : Handle} {k : Uri}
    (hn : ¬ touches r q k) : (r.objectsFor q).get? k = none := by
  unfold Rrdp.objectsFor
  rw [get?_objectsFor _ _ (hi.wf q).nodup]
  unfold viewStaged
  cases hf : findKey (r.stagedOf q) k with
  | some e =>
    obtain ⟨hm, hk⟩ := findKey_some hf
    exact absurd (Or.inr ⟨e, hm, hk⟩) hn
  | none =>
    simp only
    cases hg : (r.current q).get? k with
    | none => rfl
    | some c => exact absurd (Or.inl (by rw [hg]; exact Option.some_ne_none c)) hn

theorem keyNodup_allStaged {base : Uri} {r : Rrdp} (hi : RInv base r) (hd : KeysDisjoint r) :
    KeyNodup (r.staged.flatMap (·.2)) := by
  unfold KeyNodup
  rw [List.pairwise_flatMap]
  constructor
  · intro p hp
    have := (hi.wf p.1).nodup
    unfold Rrdp.stagedOf at this
    rw [hget?_of_mem_nodup hi.stagedNodup (h := p.1) (v := p.2) hp] at this
    exact this
  · have hnd := hi.stagedNodup
    rw [List.Nodup, List.pairwise_map] at hnd
    refine List.Pairwise.imp_of_mem ?_ hnd
    intro a b ha hb hab x hx y hy heq
    have hxa : x ∈ r.stagedOf a.1 := by
      unfold Rrdp.stagedOf
      rw [hget?_of_mem_nodup hi.stagedNodup (h := a.1) (v := a.2) ha]; exact hx
    have hyb : y ∈ r.stagedOf b.1 := by
      unfold Rrdp.stagedOf
      rw [hget?_of_mem_nodup hi.stagedNodup (h := b.1) (v := b.2) hb]; exact hy
    exact hd a.1 b.1 (key x.uri) hab (Or.inr ⟨x, hxa, rfl⟩) (Or.inr ⟨y, hyb, heq.symm⟩)

/-- The elements a publisher has staged fit the *flattened* snapshot, not only its own
objects, when no key is shared. -/
theorem elemWf_flatten {base : Uri} {r : Rrdp} (hi : RInv base r) (hd : KeysDisjoint r)
    {h : Handle} {e : Elem} (he : e ∈ r.stagedOf h) : ElemWf (flatten r.snapshot) e := by
  rw [ElemWf_congr (o := r.current h)]
  · exact (hi.wf h).wf e he
  · rw [Rrdp.current_eq]
    apply flatten_get?_owner hi.snapNodup
    intro q hq
    cases hg : (currentOf r.snapshot q).get? (key e.uri) with
    | none => rfl
    | some c =>
      exfalso
      exact hd q h (key e.uri) hq (Or.inl (by rw [Rrdp.current_eq, hg]; exact Option.some_ne_none c))
        (Or.inr ⟨e, he, rfl⟩)

/-- The RRDP delta written by an update leads a strict client from the old snapshot to the new
one. -/
theorem update_client {base : Uri} {r : Rrdp} (hi : RInv base r) (hd : KeysDisjoint r)
    (t rnd : Nat) :
    ∃ post, clientApply (flatten r.snapshot) (stagedElems r.staged) = some post ∧
      ∀ k, post.get? k = (flatten (r.applyUpdated t rnd).snapshot).get? k := by
  have hall := keyNodup_allStaged hi hd
  have hord := keyNodup_ordered hall
  rw [stagedElems_eq]
  refine ⟨_, clientApply_eq_foldl _ hord _ ?_, ?_⟩
  · intro e he
    obtain ⟨h, heh⟩ := (mem_allStaged hi).mp (mem_ordered.mp he)
    exact elemWf_flatten hi hd heh
  · intro k
    rw [get?_foldl_applyElem _ hord, findKey_ordered hall]
    have hi' := hi.applyUpdated t rnd
    have hcur' : ∀ q, currentOf (r.applyUpdated t rnd).snapshot q = r.objectsFor q :=
      fun q => current_applyUpdated hi.stagedNodup hi.snapNodup t rnd q
    by_cases hex : ∃ h, touches r h k
    · obtain ⟨h, hth⟩ := hex
      have hoth : ∀ q, q ≠ h → ¬ touches r q k := fun q hq hc => hd q h k hq hc hth
      -- the new snapshot at k is h's
      rw [flatten_get?_owner hi'.snapNodup (h := h)
        (fun q hq => by rw [hcur']; exact objectsFor_get?_none hi (hoth q hq)), hcur']
      unfold Rrdp.objectsFor
      rw [get?_objectsFor _ _ (hi.wf h).nodup]
      unfold viewStaged
      cases hf : findKey (r.stagedOf h) k with
      | some e =>
        obtain ⟨hm, hk⟩ := findKey_some hf
        have := findKey_of_mem hall ((mem_allStaged hi).mpr ⟨h, hm⟩)
        rw [hk] at this
        rw [this]
      | none =>
        have hnone : findKey (r.staged.flatMap (·.2)) k = none := by
          apply findKey_eq_none_of_forall
          intro e he hk
          obtain ⟨q, hq⟩ := (mem_allStaged hi).mp he
          by_cases hqh : q = h
          · subst hqh
            have := findKey_of_mem (hi.wf q).nodup hq
            rw [hk, hf] at this
            cases this
          · exact hoth q hqh (Or.inr ⟨e, hq, hk⟩)
        rw [hnone]
        simp only
        rw [Rrdp.current_eq]
        apply flatten_get?_owner hi.snapNodup
        intro q hq
        cases hg : (currentOf r.snapshot q).get? k with
        | none => rfl
        | some c =>
          exact absurd (Or.inl (by rw [Rrdp.current_eq, hg]; exact Option.some_ne_none c)) (hoth q hq)
    · have hno : ∀ q, ¬ touches r q k := fun q hq => hex ⟨q, hq⟩
      have hnone : findKey (r.staged.flatMap (·.2)) k = none := by
        apply findKey_eq_none_of_forall
        intro e he hk
        obtain ⟨q, hq⟩ := (mem_allStaged hi).mp he
        exact hno q (Or.inr ⟨e, hq, hk⟩)
      rw [hnone]
      simp only
      have h1 : (flatten r.snapshot).get? k = none := by
        apply flatten_get?_none
        intro p hp
        have : r.current p.1 = p.2 := by
          unfold Rrdp.current
          rw [hget?_of_mem_nodup hi.snapNodup (h := p.1) (v := p.2) hp]; rfl
        rw [← this]
        cases hg : (r.current p.1).get? k with
        | none => rfl
        | some c => exact absurd (Or.inl (by rw [hg]; exact Option.some_ne_none c)) (hno p.1)
      have h2 : (flatten (r.applyUpdated t rnd).snapshot).get? k = none := by
        apply flatten_get?_none
        intro p hp
        have : currentOf (r.applyUpdated t rnd).snapshot p.1 = p.2 := by
          unfold currentOf
          rw [hget?_of_mem_nodup hi'.snapNodup (h := p.1) (v := p.2) hp]; rfl
        rw [← this, hcur']
        exact objectsFor_get?_none hi (hno p.1)
      rw [h1, h2]

/-! ## histories within a session, and what a client holding an earlier snapshot gets -/

/-- One change of the content aggregate that keeps the session: it either leaves serial, deltas
and the content of the snapshot alone, or it is an RRDP update in a well-formed state in which
no key is shared between publishers. -/
inductive Small (base : Uri) : Rrdp → Rrdp → Prop
  | quiet {r r' : Rrdp} : r'.session = r.session → r'.serial = r.serial → r'.deltas = r.deltas →
      (∀ k, (flatten r'.snapshot).get? k = (flatten r.snapshot).get? k) → Small base r r'
  | update {r : Rrdp} (t rnd : Nat) : RInv base r → KeysDisjoint r →
      Small base r (r.applyUpdated t rnd)

inductive Reach (base : Uri) : Rrdp → Rrdp → Prop
  | refl (r : Rrdp) : Reach base r r
  | step {r1 r2 r3 : Rrdp} : Reach base r1 r2 → Small base r2 r3 → Reach base r1 r3

theorem Reach.trans {base : Uri} {a b c : Rrdp} (h1 : Reach base a b) (h2 : Reach base b c) :
    Reach base a c := by
  induction h2 with
  | refl => exact h1
  | step _ hs ih => exact Reach.step ih hs

theorem catchUp_append (held : Objs) (a b : List (List Elem)) :
    catchUp held (a ++ b) = match catchUp held a with
      | some o => catchUp o b
      | none => none := by
  induction a generalizing held with
  | nil => rfl
  | cons d t ih =>
    simp only [List.cons_append, catchUp]
    cases clientApply held d with
    | none => rfl
    | some o => exact ih o

theorem take_of_prefix {α} {l1 l2 : List α} (hp : l1 <+: l2) {n : Nat} (hn : n ≤ l1.length) :
    l1.take n = l2.take n := by
  obtain ⟨t, rfl⟩ := hp
  rw [List.take_append_of_le_length hn]

/-- The chain of the `n` newest deltas, oldest first. -/
def chainOf (r : Rrdp) (n : Nat) : List (List Elem) := ((r.deltas.take n).reverse).map (·.elems)

theorem catch_up_of_reach {base : Uri} {r1 r2 : Rrdp} (h : Reach base r1 r2) :
    r2.session = r1.session ∧ r1.serial ≤ r2.serial ∧
    (r2.serial - r1.serial ≤ r2.deltas.length →
      ∃ res, catchUp (flatten r1.snapshot) (chainOf r2 (r2.serial - r1.serial)) = some res ∧
        ∀ k, res.get? k = (flatten r2.snapshot).get? k) := by
  induction h with
  | refl =>
    refine ⟨rfl, Nat.le_refl _, fun _ => ⟨flatten r1.snapshot, ?_, fun _ => rfl⟩⟩
    simp [chainOf, catchUp]
  | @step r2 r3 hr hs ih =>
    obtain ⟨hsess, hle, hcatch⟩ := ih
    cases hs with
    | quiet h1 h2 h3 h4 =>
      refine ⟨h1.trans hsess, h2 ▸ hle, ?_⟩
      intro hn
      rw [h2, h3] at hn
      obtain ⟨res, hres, heq⟩ := hcatch hn
      refine ⟨res, ?_, fun k => (heq k).trans (h4 k).symm⟩
      unfold chainOf at hres ⊢
      rw [h2, h3]; exact hres
    | update t rnd hinv hdis =>
      refine ⟨hsess, Nat.le_succ_of_le hle, ?_⟩
      intro hn
      obtain ⟨new, hnew, hpre⟩ : ∃ new : DeltaRec, new.elems = stagedElems r2.staged ∧
          (r2.applyUpdated t rnd).deltas <+: new :: r2.deltas :=
        ⟨⟨r2.serial + 1, rnd, stagedElems r2.staged⟩, rfl,
          List.IsPrefix.trans (List.take_prefix _ _)
            ((List.prefix_cons_inj _).mpr (List.take_prefix _ _))⟩
      have hser : (r2.applyUpdated t rnd).serial = r2.serial + 1 := rfl
      rw [hser] at hn ⊢
      have hn2 : r2.serial + 1 - r1.serial = (r2.serial - r1.serial) + 1 := by omega
      rw [hn2] at hn ⊢
      have hlen : (r2.applyUpdated t rnd).deltas.length ≤ r2.deltas.length + 1 := by
        have := List.IsPrefix.length_le hpre
        simpa using this
      obtain ⟨res, hres, heq⟩ := hcatch (by omega)
      obtain ⟨post, hpost, hposteq⟩ := update_client hinv hdis t rnd
      have hcong := clientApply_congr (stagedElems r2.staged) heq
      rw [hpost] at hcong
      cases hc : clientApply res (stagedElems r2.staged) with
      | none => rw [hc] at hcong; exact absurd hcong (by simp)
      | some post' =>
        rw [hc] at hcong
        refine ⟨post', ?_, fun k => (hcong k).trans (hposteq k)⟩
        unfold chainOf
        rw [take_of_prefix hpre hn, List.take_succ_cons, List.reverse_cons, List.map_append,
          catchUp_append]
        unfold chainOf at hres
        rw [hres]
        simp only [List.map_cons, List.map_nil, catchUp, hnew, hc]

/-! ## keys stay disjoint under updates and withdraw-only staging -/

theorem touches_applyUpdated {base : Uri} {r : Rrdp} (hi : RInv base r) {t rnd : Nat}
    {h : Handle} {k : Uri} (ht : touches (r.applyUpdated t rnd) h k) : touches r h k := by
  rcases ht with ht | ⟨e, he, _⟩
  · rw [current_applyUpdated hi.stagedNodup hi.snapNodup] at ht
    cases hg : (r.objectsFor h).get? k with
    | none => exact absurd hg ht
    | some c =>
      rcases mem_applyDelta (Objs.get?_some_mem hg) with h1 | ⟨e, he, hk⟩
      · left
        rw [(hi.objs h).get?_of_mem h1]
        exact Option.some_ne_none c
      · exact Or.inr ⟨e, he, hk.symm⟩
  · cases he

theorem KeysDisjoint.applyUpdated {base : Uri} {r : Rrdp} (hi : RInv base r)
    (hd : KeysDisjoint r) (t rnd : Nat) : KeysDisjoint (r.applyUpdated t rnd) :=
  fun h1 h2 k hne t1 t2 => hd h1 h2 k hne (touches_applyUpdated hi t1) (touches_applyUpdated hi t2)

theorem touches_stage {r : Rrdp} {h : Handle} {d : Delta}
    (hsub : ∀ e ∈ d, touches r h (key e.uri)) {q : Handle} {k : Uri}
    (ht : touches (r.stage h d) q k) : touches r q k := by
  by_cases hq : q = h
  · subst hq
    rcases ht with ht | ⟨e, he, hk⟩
    · exact Or.inl ht
    · rw [stagedOf_stage] at he
      simp only [↓reduceIte] at he
      have := mergeNew_uris (fun u => touches r q (key u))
        (fun a ha => Or.inr ⟨a, ha, rfl⟩) hsub e he
      rw [hk] at this
      exact this
  · rcases ht with ht | ⟨e, he, hk⟩
    · exact Or.inl ht
    · rw [stagedOf_stage] at he
      simp only [hq, ↓reduceIte] at he
      exact Or.inr ⟨e, he, hk⟩

theorem KeysDisjoint.stage {r : Rrdp} (hd : KeysDisjoint r) {h : Handle} {d : Delta}
    (hsub : ∀ e ∈ d, touches r h (key e.uri)) : KeysDisjoint (r.stage h d) :=
  fun h1 h2 k hne t1 t2 => hd h1 h2 k hne (touches_stage hsub t1) (touches_stage hsub t2)

theorem touches_of_objectsFor {base : Uri} {r : Rrdp} (hi : RInv base r) {h : Handle}
    {p : Uri × Content} (hp : p ∈ r.objectsFor h) : touches r h p.1 := by
  apply Classical.byContradiction
  intro hn
  have := objectsFor_get?_none hi hn
  rw [(hi.objectsFor_ok h).get?_of_mem hp] at this
  cases this

theorem withdraws_touch {base : Uri} {r : Rrdp} (hi : RInv base r) (h : Handle)
    (f : Uri × Content → Bool) :
    ∀ e ∈ ((r.objectsFor h).filter f).map (fun p => Elem.withdraw p.1 p.2.hash),
      touches r h (key e.uri) := by
  intro e he
  obtain ⟨p, hp, rfl⟩ := List.mem_map.mp he
  have hm := (List.mem_filter.mp hp).1
  simp only [Elem.uri]
  rw [((hi.objectsFor_ok h).keys p hm).1]
  exact touches_of_objectsFor hi hm

/-! ## requests of the manager as session histories -/

theorem herase_eq_self {ν} {m : List (Handle × ν)} {h : Handle} (hn : h ∉ m.map (·.1)) :
    herase m h = m := by
  unfold herase
  rw [List.filter_eq_self]
  intro p hp
  have : p.1 ≠ h := fun e => hn (e ▸ List.mem_map_of_mem (f := (·.1)) hp)
  simp [this]

theorem flatten_publisherAdded (r : Rrdp) (h : Handle) :
    flatten (r.publisherAdded h).snapshot = flatten r.snapshot := by
  unfold Rrdp.publisherAdded
  cases hs : hget? r.snapshot h with
  | some o => simp
  | none =>
    simp only [Option.isSome_none, Bool.false_eq_true, ↓reduceIte]
    unfold hset
    rw [flatten_cons, herase_eq_self (hget?_none_not_mem hs)]
    rfl

theorem deleteFiles_quiet {base : Uri} {r : Rrdp} (hi : RInv base r) (hd : KeysDisjoint r)
    (del : Uri) :
    KeysDisjoint (r.deleteFiles del) ∧ (r.deleteFiles del).session = r.session ∧
    (r.deleteFiles del).serial = r.serial ∧ (r.deleteFiles del).deltas = r.deltas ∧
    (r.deleteFiles del).snapshot = r.snapshot := by
  unfold Rrdp.deleteFiles
  have gen : ∀ (l : List Handle), l.Nodup → ∀ (acc : Rrdp), RInv base acc → KeysDisjoint acc →
      (∀ h ∈ l, acc.objectsFor h = r.objectsFor h) →
      let res := l.foldl (fun acc h =>
        let w := matchingWithdraws (r.objectsFor h) del
        if w.isEmpty then acc else acc.stage h w) acc
      KeysDisjoint res ∧ res.session = acc.session ∧ res.serial = acc.serial ∧
        res.deltas = acc.deltas ∧ res.snapshot = acc.snapshot := by
    intro l
    induction l with
    | nil => intro _ acc _ hk _; exact ⟨hk, rfl, rfl, rfl, rfl⟩
    | cons h t ih =>
      intro hl acc ha hk hobj
      rw [List.nodup_cons] at hl
      simp only [List.foldl_cons]
      by_cases hw : (matchingWithdraws (r.objectsFor h) del).isEmpty = true
      · simp only [hw, ↓reduceIte]
        exact ih hl.2 acc ha hk (fun q hq => hobj q (by simp [hq]))
      · simp only [hw, Bool.false_eq_true, ↓reduceIte]
        have hst : RInv base (acc.stage h (matchingWithdraws (r.objectsFor h) del)) := by
          rw [← hobj h (by simp)]
          exact ha.stage_withdraws h (fun p => matchesDel del p.1)
        have hks : KeysDisjoint (acc.stage h (matchingWithdraws (r.objectsFor h) del)) := by
          apply hk.stage
          rw [← hobj h (by simp)]
          exact withdraws_touch ha h (fun p => matchesDel del p.1)
        have := ih hl.2 _ hst hks (fun q hq => by
          have hne : q ≠ h := fun e => hl.1 (e ▸ hq)
          rw [objectsFor_stage_ne _ _ _ _ hne]
          exact hobj q (by simp [hq]))
        exact this
  exact gen r.publishers hi.publishers_nodup r hi hd (fun _ _ => rfl)

theorem update_reach {s : Server} (hi : SInv s) (hd : KeysDisjoint s.rrdp) (rnd : Nat)
    (b : Uri) (hb : s.base = b) :
    Reach b s.rrdp (s.update rnd).1.rrdp ∧ KeysDisjoint (s.update rnd).1.rrdp ∧
    (s.update rnd).1.base = b := by
  subst hb
  unfold Server.update
  split
  · exact ⟨Reach.refl _, hd, rfl⟩
  · split
    · exact ⟨Reach.refl _, hd, rfl⟩
    · exact ⟨Reach.step (Reach.refl _) (Small.update _ rnd hi.r hd),
        hd.applyUpdated hi.r _ rnd, rfl⟩

def Op.isReset : Op → Bool
  | .reset _ _ => true
  | _ => false

/-- Every request other than a session reset is a history within the session, provided no key
is shared between publishers when it starts. -/
theorem server_step_reach {s : Server} (hi : SInv s) (hd : KeysDisjoint s.rrdp) {op : Op}
    (hnr : op.isReset = false) : Reach s.base s.rrdp (s.step op).rrdp := by
  have quiet_stage : ∀ h d, Small s.base s.rrdp (s.rrdp.stage h d) :=
    fun h d => Small.quiet rfl rfl rfl (fun _ => rfl)
  cases op with
  | addpub h =>
    simp only [Server.step, Server.addPublisher]
    cases publisherBase s.base h with
    | none => exact Reach.refl _
    | some jail =>
      simp only
      split
      · exact Reach.refl _
      · refine Reach.step (Reach.refl _) (Small.quiet ?_ ?_ ?_ ?_)
        · show (s.rrdp.publisherAdded h).session = _
          unfold Rrdp.publisherAdded; split <;> rfl
        · show (s.rrdp.publisherAdded h).serial = _
          unfold Rrdp.publisherAdded; split <;> rfl
        · show (s.rrdp.publisherAdded h).deltas = _
          unfold Rrdp.publisherAdded; split <;> rfl
        · intro k
          show (flatten (s.rrdp.publisherAdded h).snapshot).get? k = _
          rw [flatten_publisherAdded]
  | rmpub h =>
    have : (s.removePublisher h).1.rrdp = s.rrdp.removePublisher h := by
      unfold Server.removePublisher; simp only; split <;> rfl
    simp only [Server.step, this, Rrdp.removePublisher]
    split
    · exact Reach.refl _
    · exact Reach.step (Reach.refl _) (quiet_stage _ _)
  | publish h d =>
    simp only [Server.step, Server.publish]
    cases s.jail? h with
    | none => exact Reach.refl _
    | some jail =>
      simp only
      split
      · exact Reach.refl _
      · cases verifyDelta (s.rrdp.objectsFor h) jail d with
        | some e => exact Reach.refl _
        | none => exact Reach.step (Reach.refl _) (quiet_stage _ _)
  | update rnd => exact (update_reach hi hd rnd s.base rfl).1
  | reset session rnd => simp [Op.isReset] at hnr
  | delete del rndOf =>
    simp only [Server.step, Server.delete]
    have h1 := update_reach hi hd (rndOf (s.rrdp.serial + 1)) s.base rfl
    have hi1 := hi.update (rndOf (s.rrdp.serial + 1))
    generalize s.update (rndOf (s.rrdp.serial + 1)) = p1 at h1 hi1
    obtain ⟨s1, ret1⟩ := p1
    simp only at h1 hi1 ⊢
    obtain ⟨hr1, hk1, hb1⟩ := h1
    split
    · exact hr1
    · obtain ⟨hk2, q1, q2, q3, q4⟩ := deleteFiles_quiet hi1.r hk1 del
      have hi2 : SInv { s1 with rrdp := s1.rrdp.deleteFiles del } :=
        ⟨hi1.r.deleteFiles del, hi1.access, hi1.accessNodup⟩
      have h3 := (update_reach hi2 hk2
        (rndOf (({ s1 with rrdp := s1.rrdp.deleteFiles del } : Server).rrdp.serial + 1))
        s.base hb1).1
      have hstep2 : Reach s.base s.rrdp (s1.rrdp.deleteFiles del) :=
        Reach.step hr1 (Small.quiet q1 q2 q3 (fun _ => by rw [q4]))
      exact Reach.trans hstep2 h3

/-- The keys of different publishers are disjoint when the jails of the publishers that have
content are. -/
theorem keysDisjoint_of_jails {base : Uri} {r : Rrdp} (hi : RInv base r)
    (hj : ∀ h1 h2 j1 j2, h1 ≠ h2 → publisherBase base h1 = some j1 →
      publisherBase base h2 = some j2 → ¬ ∃ u, inJail j1 u = true ∧ inJail j2 u = true) :
    KeysDisjoint r := by
  have inj : ∀ h k, touches r h k → ∃ j, publisherBase base h = some j ∧ inJail j k = true := by
    intro h k ht
    have hja := hi.jailed h
    unfold JailedAt at hja
    cases hb : publisherBase base h with
    | none =>
      simp only [hb] at hja
      rcases ht with ht | ⟨e, he, _⟩
      · rw [hja.1] at ht; exact absurd rfl ht
      · rw [hja.2] at he; cases he
    | some j =>
      simp only [hb] at hja
      refine ⟨j, rfl, ?_⟩
      rcases ht with ht | ⟨e, he, hk⟩
      · cases hg : (r.current h).get? k with
        | none => exact absurd hg ht
        | some c => exact hja.1 _ (Objs.get?_some_mem hg)
      · rw [← hk, inJail_key j (hi.canon h e he)]
        exact hja.2 e he
  intro h1 h2 k hne t1 t2
  obtain ⟨j1, hb1, hin1⟩ := inj h1 k t1
  obtain ⟨j2, hb2, hin2⟩ := inj h2 k t2
  exact hj h1 h2 j1 j2 hne hb1 hb2 ⟨k, hin1, hin2⟩

theorem update_base (s : Server) (rnd : Nat) : (s.update rnd).1.base = s.base := by
  unfold Server.update
  split
  · rfl
  · split
    · rfl
    · rfl

theorem Server.step_base (s : Server) (op : Op) : (s.step op).base = s.base := by
  cases op with
  | addpub h =>
    simp only [Server.step, Server.addPublisher]
    cases publisherBase s.base h with
    | none => rfl
    | some jail => simp only; split <;> rfl
  | rmpub h => simp only [Server.step, Server.removePublisher]; split <;> rfl
  | publish h d =>
    simp only [Server.step, Server.publish]
    cases s.jail? h with
    | none => rfl
    | some jail =>
      simp only
      split
      · rfl
      · cases verifyDelta (s.rrdp.objectsFor h) jail d <;> rfl
  | update rnd => exact update_base s rnd
  | reset session rnd => rfl
  | delete del rndOf =>
    simp only [Server.step, Server.delete]
    have h1 := update_base s (rndOf (s.rrdp.serial + 1))
    generalize s.update (rndOf (s.rrdp.serial + 1)) = p1 at h1
    obtain ⟨s1, ret1⟩ := p1
    simp only at h1 ⊢
    split
    · exact h1
    · rw [update_base]; exact h1

theorem run_reach : ∀ (ops : List Op) (s : Server), SInv s →
    (∀ op ∈ ops, OpOk op ∧ op.isReset = false) →
    (∀ n, KeysDisjoint (s.run (ops.take n)).rrdp) →
    Reach s.base s.rrdp (s.run ops).rrdp := by
  intro ops
  induction ops with
  | nil => intro s _ _ _; exact Reach.refl _
  | cons op t ih =>
    intro s hi hok hdis
    have h0 : KeysDisjoint s.rrdp := by simpa [Server.run] using hdis 0
    have hstep := server_step_reach hi h0 (hok op (by simp)).2
    have hi' := hi.step (hok op (by simp)).1
    have hrest := ih (s.step op) hi' (fun o ho => hok o (by simp [ho]))
      (fun n => by simpa [Server.run] using hdis (n + 1))
    rw [Server.step_base] at hrest
    have : (s.run (op :: t)) = (s.step op).run t := by simp [Server.run]
    rw [this]
    exact Reach.trans hstep hrest

/-! ## reading a mutation log against a plan -/

section MatchLog
variable {μ : Type} (f : μ → Sig)

theorem takeMatching_spec {s : Sig} : ∀ {l : List μ} {x : μ} {rest : List μ},
    takeMatching f s l = some (x, rest) →
      x ∈ l ∧ f x = s ∧ rest.length + 1 = l.length ∧ ∀ y, y ∈ l ↔ y = x ∨ y ∈ rest := by
  intro l
  induction l with
  | nil => intro x rest h; simp [takeMatching] at h
  | cons m ms ih =>
    intro x rest h
    simp only [takeMatching] at h
    by_cases hm : (f m == s) = true
    · rw [if_pos hm] at h
      simp only [Option.some.injEq, Prod.mk.injEq] at h
      obtain ⟨rfl, rfl⟩ := h
      exact ⟨by simp, by simpa using hm, rfl, fun y => by simp⟩
    · rw [if_neg hm] at h
      cases ht : takeMatching f s ms with
      | none => rw [ht] at h; simp at h
      | some pr =>
        obtain ⟨x', rest'⟩ := pr
        rw [ht] at h
        simp only [Option.map_some, Option.some.injEq, Prod.mk.injEq] at h
        obtain ⟨rfl, rfl⟩ := h
        obtain ⟨h1, h2, h3, h4⟩ := ih ht
        refine ⟨by simp [h1], h2, by simp [h3], fun y => ?_⟩
        simp only [List.mem_cons, h4 y]
        constructor
        · rintro (h | h | h)
          · exact Or.inr (Or.inl h)
          · exact Or.inl h
          · exact Or.inr (Or.inr h)
        · rintro (h | h | h)
          · exact Or.inr (Or.inl h)
          · exact Or.inl h
          · exact Or.inr (Or.inr h)

theorem matchLog_nil_plan : ∀ {log : List Sig} {ms : List μ} {rest : List (Bool × List μ)},
    matchLog f [] log = some (ms, rest) → ms = [] ∧ rest = [] := by
  intro log ms rest h
  cases log with
  | nil => simp only [matchLog, Option.some.injEq, Prod.mk.injEq] at h; exact ⟨h.1.symm, h.2.symm⟩
  | cons s l => simp [matchLog, planNext] at h

/-- A leading empty phase is skipped. -/
theorem matchLog_skip_empty (b : Bool) (ps : List (Bool × List μ)) :
    ∀ (log : List Sig) (ms : List μ) (rest : List (Bool × List μ)),
    matchLog f ((b, []) :: ps) log = some (ms, rest) →
      (log = [] ∧ ms = [] ∧ rest = (b, []) :: ps) ∨ matchLog f ps log = some (ms, rest) := by
  intro log ms rest h
  cases log with
  | nil =>
    simp only [matchLog, Option.some.injEq, Prod.mk.injEq] at h
    exact Or.inl ⟨rfl, h.1.symm, h.2.symm⟩
  | cons s l =>
    right
    simp only [matchLog, planNext] at h ⊢
    exact h

/-- An ordered first phase is executed in order: the mutations read are a prefix of it, or all
of it followed by what the rest of the plan yields. -/
theorem matchLog_ordered (ps : List (Bool × List μ)) : ∀ (ws : List μ) (log : List Sig)
    (ms : List μ) (rest : List (Bool × List μ)),
    matchLog f ((true, ws) :: ps) log = some (ms, rest) →
      (∃ n, n ≤ ws.length ∧ ms = ws.take n ∧ rest = (true, ws.drop n) :: ps) ∨
      (∃ cs log', ms = ws ++ cs ∧ matchLog f ps log' = some (cs, rest)) := by
  intro ws
  induction ws with
  | nil =>
    intro log ms rest h
    rcases matchLog_skip_empty f true ps log ms rest h with ⟨_, rfl, rfl⟩ | h'
    · exact Or.inl ⟨0, Nat.le_refl _, rfl, rfl⟩
    · exact Or.inr ⟨ms, log, rfl, h'⟩
  | cons w ws ih =>
    intro log ms rest h
    cases log with
    | nil =>
      simp only [matchLog, Option.some.injEq, Prod.mk.injEq] at h
      exact Or.inl ⟨0, Nat.zero_le _, h.1.symm, h.2.symm⟩
    | cons s l =>
      simp only [matchLog, planNext] at h
      by_cases hw : (f w == s) = true
      · rw [if_pos hw] at h
        simp only at h
        cases hm : matchLog f ((true, ws) :: ps) l with
        | none => rw [hm] at h; simp at h
        | some pr =>
          obtain ⟨ms', rest'⟩ := pr
          rw [hm] at h
          simp only [Option.map_some, Option.some.injEq, Prod.mk.injEq] at h
          obtain ⟨rfl, rfl⟩ := h
          rcases ih l ms' rest' hm with ⟨n, hn, rfl, rfl⟩ | ⟨cs, log', rfl, hcs⟩
          · exact Or.inl ⟨n + 1, Nat.succ_le_succ hn, rfl, rfl⟩
          · exact Or.inr ⟨cs, log', rfl, hcs⟩
      · rw [if_neg hw] at h
        simp at h

/-- An unordered first phase: the mutations read are some of it (interrupted), or all of it in
some order followed by what the rest of the plan yields. -/
theorem matchLog_unordered (ps : List (Bool × List μ)) : ∀ (n : Nat) (pool : List μ),
    pool.length = n → ∀ (log : List Sig) (ms : List μ) (rest : List (Bool × List μ)),
    matchLog f ((false, pool) :: ps) log = some (ms, rest) →
      ((∀ m ∈ ms, m ∈ pool) ∧ ∃ remaining, rest = (false, remaining) :: ps) ∨
      (∃ ss cs log', ms = ss ++ cs ∧ (∀ m ∈ ss, m ∈ pool) ∧ (∀ m ∈ pool, m ∈ ss) ∧
        matchLog f ps log' = some (cs, rest)) := by
  intro n
  induction n with
  | zero =>
    intro pool hp log ms rest h
    have : pool = [] := List.length_eq_zero_iff.mp hp
    subst this
    rcases matchLog_skip_empty f false ps log ms rest h with ⟨_, rfl, rfl⟩ | h'
    · exact Or.inl ⟨(fun _ hm => nomatch hm), [], rfl⟩
    · exact Or.inr ⟨[], ms, log, rfl, (fun _ hm => nomatch hm), (fun _ hm => nomatch hm), h'⟩
  | succ n ih =>
    intro pool hp log ms rest h
    cases pool with
    | nil => simp at hp
    | cons p0 pt =>
      cases log with
      | nil =>
        simp only [matchLog, Option.some.injEq, Prod.mk.injEq] at h
        exact Or.inl ⟨(by rw [← h.1]; exact fun _ hm => nomatch hm), p0 :: pt, h.2.symm⟩
      | cons s l =>
        simp only [matchLog, planNext] at h
        cases ht : takeMatching f s (p0 :: pt) with
        | none => rw [ht] at h; simp at h
        | some pr =>
          obtain ⟨x, restPool⟩ := pr
          rw [ht] at h
          simp only [Option.map_some] at h
          obtain ⟨hx, _, hlen, hmem⟩ := takeMatching_spec f ht
          cases hm : matchLog f ((false, restPool) :: ps) l with
          | none => rw [hm] at h; simp at h
          | some pr2 =>
            obtain ⟨ms', rest'⟩ := pr2
            rw [hm] at h
            simp only [Option.map_some, Option.some.injEq, Prod.mk.injEq] at h
            obtain ⟨rfl, rfl⟩ := h
            have hl : restPool.length = n := by
              simp only [List.length_cons] at hp hlen; omega
            rcases ih restPool hl l ms' rest' hm with ⟨hsub, rem, hrest⟩ | ⟨ss, cs, log', rfl, h1, h2, h3⟩
            · refine Or.inl ⟨?_, rem, hrest⟩
              intro m hmm
              rcases List.mem_cons.mp hmm with rfl | hmm
              · exact hx
              · exact (hmem m).mpr (Or.inr (hsub m hmm))
            · refine Or.inr ⟨x :: ss, cs, log', rfl, ?_, ?_, h3⟩
              · intro m hmm
                rcases List.mem_cons.mp hmm with rfl | hmm
                · exact hx
                · exact (hmem m).mpr (Or.inr (h1 m hmm))
              · intro m hmm
                rcases (hmem m).mp hmm with rfl | hmm
                · simp
                · exact List.mem_cons_of_mem _ (h2 m hmm)

end MatchLog

/-! ## the rsync directory -/

theorem RsyncFs.get?_cons (p : Top × Tree) (fs : RsyncFs) (m : Top) :
    RsyncFs.get? (p :: fs) m = if m = p.1 then some p.2 else RsyncFs.get? fs m := by
  unfold RsyncFs.get?
  rw [List.lookup_cons]
  by_cases h : m = p.1
  · simp [h]
  · have : (m == p.1) = false := by simp [h]
    simp [this, h]

theorem RsyncFs.get?_remove (fs : RsyncFs) (n m : Top) :
    (fs.remove n).get? m = if m = n then none else fs.get? m := by
  induction fs with
  | nil => simp [RsyncFs.remove, RsyncFs.get?]
  | cons p t ih =>
    unfold RsyncFs.remove at ih ⊢
    rw [List.filter_cons]
    by_cases hp : p.1 = n
    · have : (p.1 != n) = false := by simp [hp]
      simp only [this, Bool.false_eq_true, ↓reduceIte]
      rw [ih, RsyncFs.get?_cons]
      by_cases hm : m = n
      · simp [hm]
      · have : m ≠ p.1 := by rw [hp]; exact hm
        simp [hm, this]
    · have : (p.1 != n) = true := by simp [hp]
      simp only [this, ↓reduceIte]
      rw [RsyncFs.get?_cons, RsyncFs.get?_cons, ih]
      by_cases hm : m = n
      · subst hm
        have : m ≠ p.1 := fun e => hp e.symm
        simp [this]
      · simp [hm]

theorem RsyncFs.get?_set (fs : RsyncFs) (n m : Top) (t : Tree) :
    (fs.set n t).get? m = if m = n then some t else fs.get? m := by
  unfold RsyncFs.set
  rw [RsyncFs.get?_cons, RsyncFs.get?_remove]
  by_cases hm : m = n <;> simp [hm]

theorem Tree.get?_cons (p : List String × Raw) (t : Tree) (rel : List String) :
    Tree.get? (p :: t) rel = if rel = p.1 then some p.2 else Tree.get? t rel := by
  unfold Tree.get?
  rw [List.lookup_cons]
  by_cases h : rel = p.1
  · simp [h]
  · have : (rel == p.1) = false := by simp [h]
    simp [this, h]

theorem Tree.get?_set (t : Tree) (p rel : List String) (r : Raw) :
    (t.set p r).get? rel = if rel = p then some r else t.get? rel := by
  unfold Tree.set
  rw [Tree.get?_cons]
  by_cases h : rel = p
  · simp [h]
  · simp only [h, ↓reduceIte]
    induction t with
    | nil => rfl
    | cons a tl ih =>
      rw [List.filter_cons]
      by_cases ha : a.1 = p
      · have : (a.1 != p) = false := by simp [ha]
        simp only [this, Bool.false_eq_true, ↓reduceIte]
        rw [ih, Tree.get?_cons]
        have : rel ≠ a.1 := by rw [ha]; exact h
        simp [this]
      · have : (a.1 != p) = true := by simp [ha]
        simp only [this, ↓reduceIte]
        rw [Tree.get?_cons, Tree.get?_cons, ih]

theorem RsyncFs.applyAll_append (fs : RsyncFs) (a b : List RMut) :
    fs.applyAll (a ++ b) =
      match fs.applyAll a with
      | (fs', true) => fs'.applyAll b
      | (fs', false) => (fs', false) := by
  induction a generalizing fs with
  | nil => simp [RsyncFs.applyAll]
  | cons m ms ih =>
    simp only [List.cons_append, RsyncFs.applyAll]
    cases fs.apply m with
    | none => rfl
    | some fs' => exact ih fs'

/-- The files of a snapshot determine the content at every relative path. -/
def FilesFunctional (files : List (List String × Content)) : Prop :=
  ∀ p ∈ files, ∀ q ∈ files, p.1 = q.1 → p.2 = q.2

/-- Everything in the tree is the clean content of one of the files. -/
def TreeOk (files : List (List String × Content)) (t : Tree) : Prop :=
  ∀ rel r, t.get? rel = some r → ∃ c, (rel, c) ∈ files ∧ r = .clean c

/-- Saving files of a functional file list into `tmp`, in any order, with repetitions. -/
theorem apply_saves (files : List (List String × Content)) (hf : FilesFunctional files)
    (tmp : Top) : ∀ (ss : List RMut), (∀ m ∈ ss, ∃ p ∈ files, m = .save tmp p.1 p.2) →
    ∀ (fs : RsyncFs) (t0 : Tree), fs.get? tmp = some t0 → TreeOk files t0 →
    ∃ fs' t, fs.applyAll ss = (fs', true) ∧ fs'.get? tmp = some t ∧ TreeOk files t ∧
      (∀ n, n ≠ tmp → fs'.get? n = fs.get? n) ∧
      (∀ rel r, t0.get? rel = some r → t.get? rel = some r) ∧
      (∀ p ∈ files, RMut.save tmp p.1 p.2 ∈ ss → t.get? p.1 = some (.clean p.2)) := by
  intro ss
  induction ss with
  | nil =>
    intro _ fs t0 h0 hok
    exact ⟨fs, t0, rfl, h0, hok, fun _ _ => rfl, fun _ _ h => h, fun _ _ h => nomatch h⟩
  | cons m ms ih =>
    intro hall fs t0 h0 hok
    obtain ⟨p, hp, rfl⟩ := hall m (by simp)
    have hstep : fs.apply (.save tmp p.1 p.2) = some (fs.set tmp (t0.set p.1 (.clean p.2))) := by
      simp only [RsyncFs.apply, h0]
    have h1 : (fs.set tmp (t0.set p.1 (.clean p.2))).get? tmp = some (t0.set p.1 (.clean p.2)) := by
      rw [RsyncFs.get?_set]; simp
    have hok1 : TreeOk files (t0.set p.1 (.clean p.2)) := by
      intro rel r hr
      rw [Tree.get?_set] at hr
      by_cases hrel : rel = p.1
      · simp only [hrel, ↓reduceIte, Option.some.injEq] at hr
        exact ⟨p.2, by rw [hrel]; exact hp, hr.symm⟩
      · simp only [hrel, ↓reduceIte] at hr
        exact hok rel r hr
    obtain ⟨fs', t, happ, hget, hokt, hoth, hmono, hall'⟩ :=
      ih (fun m hm => hall m (by simp [hm])) _ _ h1 hok1
    refine ⟨fs', t, ?_, hget, hokt, ?_, ?_, ?_⟩
    · simp only [RsyncFs.applyAll, hstep]; exact happ
    · intro n hn
      rw [hoth n hn, RsyncFs.get?_set]; simp [hn]
    · intro rel r hr
      apply hmono
      rw [Tree.get?_set]
      by_cases hrel : rel = p.1
      · simp only [hrel, ↓reduceIte]
        rw [hrel] at hr
        obtain ⟨c, hc, rfl⟩ := hok p.1 r hr
        have : c = p.2 := hf (p.1, c) hc p hp rfl
        rw [this]
      · simp only [hrel, ↓reduceIte]; exact hr
    · intro q hq hmem
      rcases List.mem_cons.mp hmem with heq | hmem
      · have hq1 : q.1 = p.1 := by injection heq
        have hq2 : q.2 = p.2 := by injection heq
        apply hmono
        rw [Tree.get?_set, hq1, hq2]; simp
      · exact hall' q hq hmem

/-- A tree that holds exactly the files is, as a map, the expected tree. -/
theorem tree_eq_expected {files : List (List String × Content)}
    {t : Tree} (hok : TreeOk files t) (hall : ∀ p ∈ files, t.get? p.1 = some (.clean p.2))
    (rel : List String) :
    t.get? rel = Tree.get? (files.map (fun p => (p.1, Raw.clean p.2))) rel := by
  have hexp : ∀ (l : List (List String × Content)),
      Tree.get? (l.map (fun p => (p.1, Raw.clean p.2))) rel =
        (l.find? (fun p => p.1 == rel)).map (fun p => Raw.clean p.2) := by
    intro l
    induction l with
    | nil => rfl
    | cons a tl ih =>
      rw [List.map_cons, Tree.get?_cons, List.find?_cons, ih]
      by_cases h : rel = a.1
      · simp [h]
      · have : (a.1 == rel) = false := by simp; exact fun e => h e.symm
        simp [h, this]
  rw [hexp]
  cases hfind : files.find? (fun p => p.1 == rel) with
  | some p =>
    have hm := List.mem_of_find?_eq_some hfind
    have hr : p.1 = rel := by simpa using List.find?_some hfind
    rw [← hr]
    exact hall p hm
  | none =>
    simp only [Option.map_none]
    cases hg : t.get? rel with
    | none => rfl
    | some r =>
      obtain ⟨c, hc, _⟩ := hok rel r hg
      have := List.find?_eq_none.mp hfind (rel, c) hc
      simp at this

/-- The three phases of `RsyncdStore::write`. -/
def rsyncHead (fs : RsyncFs) (serial : Nat) : List RMut :=
  (if (fs.get? (.tmp serial)).isSome then [.removeAll (.tmp serial)] else []) ++ [.mkdir (.tmp serial)]

def rsyncSaves (base : Uri) (serial : Nat) (objs : Objs) : List RMut :=
  (rsyncFiles base objs).map (fun p => .save (.tmp serial) p.1 p.2)

def rsyncTail (fs : RsyncFs) (serial : Nat) : List RMut :=
  (if (fs.get? .old).isSome then [.removeAll .old] else []) ++
    (if (fs.get? .current).isSome then [.rename .current .old] else []) ++
    [.rename (.tmp serial) .current] ++
    (if (fs.get? .current).isSome then [.removeAll .old] else [])

theorem rsyncPlan_eq (fs : RsyncFs) (base : Uri) (serial : Nat) (objs : Objs) :
    rsyncPlan fs base serial objs =
      [(true, rsyncHead fs serial), (false, rsyncSaves base serial objs),
       (true, rsyncTail fs serial)] := rfl

theorem rsyncTail_ne_nil (fs : RsyncFs) (serial : Nat) : rsyncTail fs serial ≠ [] := by
  unfold rsyncTail
  intro h
  have := congrArg List.length h
  simp only [List.length_append, List.length_cons, List.length_nil] at this
  omega

/-- A complete run of the rsync writer: clear and create the temporary directory, save all files
in some order, then the removal of a left-over `old`, the renames and the removal of `old`. -/
theorem rsync_complete_shape {fs : RsyncFs} {base : Uri} {serial : Nat} {objs : Objs}
    {log : List Sig} {ms : List RMut} {rest : List (Bool × List RMut)}
    (hm : matchLog RMut.sig (rsyncPlan fs base serial objs) log = some (ms, rest))
    (hd : planDone rest = true) :
    ∃ ss, ms = rsyncHead fs serial ++ ss ++ rsyncTail fs serial ∧
      (∀ m ∈ ss, m ∈ rsyncSaves base serial objs) ∧ (∀ m ∈ rsyncSaves base serial objs, m ∈ ss) := by
  rw [rsyncPlan_eq] at hm
  have htail := rsyncTail_ne_nil fs serial
  have notDone : ∀ (pre : List (Bool × List RMut)),
      planDone (pre ++ [(true, rsyncTail fs serial)]) = false := by
    intro pre
    simp only [planDone, List.all_append, List.all_cons, List.all_nil, Bool.and_true]
    cases ht : rsyncTail fs serial with
    | nil => exact absurd ht htail
    | cons a t => simp
  rcases matchLog_ordered RMut.sig _ _ _ _ _ hm with ⟨n, _, _, hrest⟩ | ⟨cs, log1, rfl, hcs⟩
  · rw [hrest] at hd
    have := notDone [(true, (rsyncHead fs serial).drop n), (false, rsyncSaves base serial objs)]
    simp only [List.cons_append, List.nil_append] at this
    rw [this] at hd; cases hd
  · rcases matchLog_unordered RMut.sig _ _ _ rfl _ _ _ hcs with
      ⟨_, rem, hrest⟩ | ⟨ss, cs2, log2, rfl, h1, h2, hcs2⟩
    · rw [hrest] at hd
      have := notDone [(false, rem)]
      simp only [List.cons_append, List.nil_append] at this
      rw [this] at hd; cases hd
    · refine ⟨ss, ?_, h1, h2⟩
      rcases matchLog_ordered RMut.sig _ _ _ _ _ hcs2 with ⟨n, hn, rfl, hrest⟩ | ⟨cs3, log3, rfl, hcs3⟩
      · rw [hrest] at hd
        simp only [planDone, List.all_cons, List.all_nil, Bool.and_true, List.isEmpty_iff] at hd
        have hlen : (rsyncTail fs serial).length ≤ n := by
          have := congrArg List.length hd
          simp only [List.length_drop, List.length_nil] at this
          omega
        rw [List.take_of_length_le hlen]
        simp
      · obtain ⟨rfl, _⟩ := matchLog_nil_plan RMut.sig hcs3
        simp

theorem applyAll_cons_some {fs fs' : RsyncFs} {m : RMut} (h : fs.apply m = some fs')
    (ms : List RMut) : fs.applyAll (m :: ms) = fs'.applyAll ms := by
  simp only [RsyncFs.applyAll, h]

theorem applyAll_cons_none {fs : RsyncFs} {m : RMut} (h : fs.apply m = none)
    (ms : List RMut) : fs.applyAll (m :: ms) = (fs, false) := by
  simp only [RsyncFs.applyAll, h]

theorem apply_removeAll (fs : RsyncFs) (n : Top) : fs.apply (.removeAll n) = some (fs.remove n) := rfl

/-- Clearing and creating the temporary directory: afterwards it exists and is empty, whatever
was there before. -/
theorem rsync_head_ok (fs : RsyncFs) (serial : Nat) :
    ∃ fs1, fs.applyAll (rsyncHead fs serial) = (fs1, true) ∧ fs1.get? (.tmp serial) = some [] ∧
      ∀ n, n ≠ .tmp serial → fs1.get? n = fs.get? n := by
  unfold rsyncHead
  cases ht : fs.get? (.tmp serial) with
  | none =>
    simp only [Option.isSome_none, Bool.false_eq_true, ↓reduceIte, List.nil_append]
    refine ⟨fs.set (.tmp serial) [], ?_, ?_, ?_⟩
    · have : fs.apply (.mkdir (.tmp serial)) = some (fs.set (.tmp serial) []) := by
        simp only [RsyncFs.apply, ht]
      rw [applyAll_cons_some this]; rfl
    · rw [RsyncFs.get?_set]; simp
    · intro n hn; rw [RsyncFs.get?_set]; simp [hn]
  | some t =>
    simp only [Option.isSome_some, ↓reduceIte, List.cons_append, List.nil_append]
    refine ⟨(fs.remove (.tmp serial)).set (.tmp serial) [], ?_, ?_, ?_⟩
    · have h2 : (fs.remove (.tmp serial)).apply (.mkdir (.tmp serial)) =
          some ((fs.remove (.tmp serial)).set (.tmp serial) []) := by
        have : (fs.remove (.tmp serial)).get? (.tmp serial) = none := by
          rw [RsyncFs.get?_remove]; simp
        simp only [RsyncFs.apply, this]
      rw [applyAll_cons_some (apply_removeAll _ _), applyAll_cons_some h2]; rfl
    · rw [RsyncFs.get?_set]; simp
    · intro n hn; rw [RsyncFs.get?_set, RsyncFs.get?_remove]; simp [hn]

/-- The removal of a left-over `old`, the renames and the final removal, on a directory where
`tmp-<serial>` holds the new tree: they succeed whatever `current` and `old` were. -/
theorem rsync_tail_ok {fs fs2 : RsyncFs} {serial : Nat} {t : Tree}
    (htmp : fs2.get? (.tmp serial) = some t)
    (hoth : ∀ n, n ≠ .tmp serial → fs2.get? n = fs.get? n) :
    ∃ fs5, fs2.applyAll (rsyncTail fs serial) = (fs5, true) ∧
      fs5.get? .current = some t ∧ fs5.get? .old = none ∧ fs5.get? (.tmp serial) = none := by
  have hc2 : fs2.get? .current = fs.get? .current := hoth _ (by simp)
  -- first step: the left-over `old` goes
  obtain ⟨fsA, hA, hAold, hAoth⟩ : ∃ fsA : RsyncFs,
      (∀ l : List RMut, fs2.applyAll ((if (fs.get? .old).isSome then [RMut.removeAll .old] else []) ++ l) =
        fsA.applyAll l) ∧ fsA.get? .old = none ∧ ∀ n, n ≠ .old → fsA.get? n = fs2.get? n := by
    cases ho : fs.get? .old with
    | none =>
      refine ⟨fs2, fun l => by simp [ho], ?_, fun _ _ => rfl⟩
      rw [hoth _ (by simp)]; exact ho
    | some to =>
      refine ⟨fs2.remove .old, fun l => ?_, ?_, fun n hn => ?_⟩
      · simp only [Option.isSome_some, ↓reduceIte, List.cons_append, List.nil_append]
        exact applyAll_cons_some (apply_removeAll _ _) l
      · rw [RsyncFs.get?_remove]; simp
      · rw [RsyncFs.get?_remove]; simp [hn]
  have hAtmp : fsA.get? (.tmp serial) = some t := by rw [hAoth _ (by simp)]; exact htmp
  have hAcur : fsA.get? .current = fs.get? .current := by rw [hAoth _ (by simp)]; exact hc2
  unfold rsyncTail
  simp only [List.append_assoc]
  rw [hA]
  cases hcur : fs.get? .current with
  | some tc =>
    simp only [Option.isSome_some, ↓reduceIte, List.cons_append, List.nil_append]
    have h1 : fsA.apply (.rename .current .old) = some ((fsA.remove .current).set .old tc) := by
      simp only [RsyncFs.apply, hAcur, hcur, hAold]
    have h2 : ((fsA.remove .current).set .old tc).apply (.rename (.tmp serial) .current) =
        some ((((fsA.remove .current).set .old tc).remove (.tmp serial)).set .current t) := by
      have ha : ((fsA.remove .current).set .old tc).get? (.tmp serial) = some t := by
        rw [RsyncFs.get?_set, RsyncFs.get?_remove]; simp [hAtmp]
      have hb : ((fsA.remove .current).set .old tc).get? .current = none := by
        rw [RsyncFs.get?_set, RsyncFs.get?_remove]; simp
      simp only [RsyncFs.apply, ha, hb]
    refine ⟨((((fsA.remove .current).set .old tc).remove (.tmp serial)).set .current t).remove .old,
      ?_, ?_, ?_, ?_⟩
    · rw [applyAll_cons_some h1, applyAll_cons_some h2, applyAll_cons_some (apply_removeAll _ _)]
      rfl
    · rw [RsyncFs.get?_remove, RsyncFs.get?_set]; simp
    · rw [RsyncFs.get?_remove]; simp
    · rw [RsyncFs.get?_remove, RsyncFs.get?_set, RsyncFs.get?_remove]; simp
  | none =>
    simp only [Option.isSome_none, Bool.false_eq_true, ↓reduceIte, List.nil_append]
    have h1 : fsA.apply (.rename (.tmp serial) .current) =
        some ((fsA.remove (.tmp serial)).set .current t) := by
      simp only [RsyncFs.apply, hAtmp, hAcur, hcur]
    refine ⟨(fsA.remove (.tmp serial)).set .current t, ?_, ?_, ?_, ?_⟩
    · rw [List.append_nil, applyAll_cons_some h1]; rfl
    · rw [RsyncFs.get?_set]; simp
    · rw [RsyncFs.get?_set, RsyncFs.get?_remove]; simp [hAold]
    · rw [RsyncFs.get?_set, RsyncFs.get?_remove]; simp

/-- The top-level directories a mutation can change. -/
def RMut.touches : RMut → Top → Bool
  | .mkdir n, m => n == m
  | .save n _ _, m => n == m
  | .rename a b, m => a == m || b == m
  | .removeAll n, m => n == m

theorem apply_other {fs fs' : RsyncFs} {m : RMut} {n : Top} (h : fs.apply m = some fs')
    (hn : m.touches n = false) : fs'.get? n = fs.get? n := by
  cases m with
  | mkdir a =>
    simp only [RMut.touches, beq_eq_false_iff_ne, ne_eq] at hn
    simp only [RsyncFs.apply] at h
    cases hg : fs.get? a with
    | some t => rw [hg] at h; simp only [Option.some.injEq] at h; rw [← h]
    | none =>
      rw [hg] at h; simp only [Option.some.injEq] at h
      rw [← h, RsyncFs.get?_set]
      have : n ≠ a := fun e => hn e.symm
      simp [this]
  | save a rel c =>
    simp only [RMut.touches, beq_eq_false_iff_ne, ne_eq] at hn
    simp only [RsyncFs.apply] at h
    cases hg : fs.get? a with
    | none => rw [hg] at h; cases h
    | some t =>
      rw [hg] at h; simp only [Option.some.injEq] at h
      rw [← h, RsyncFs.get?_set]
      have : n ≠ a := fun e => hn e.symm
      simp [this]
  | rename a b =>
    simp only [RMut.touches, Bool.or_eq_false_iff, beq_eq_false_iff_ne, ne_eq] at hn
    simp only [RsyncFs.apply] at h
    cases hg : fs.get? a with
    | none => rw [hg] at h; cases h
    | some t =>
      rw [hg] at h
      have hna : n ≠ a := fun e => hn.1 e.symm
      have hnb : n ≠ b := fun e => hn.2 e.symm
      have key : ((fs.remove a).set b t).get? n = fs.get? n := by
        rw [RsyncFs.get?_set, RsyncFs.get?_remove]; simp [hna, hnb]
      cases hb : fs.get? b with
      | none => rw [hb] at h; simp only [Option.some.injEq] at h; rw [← h]; exact key
      | some tb =>
        rw [hb] at h
        cases tb with
        | nil => simp only [Option.some.injEq] at h; rw [← h]; exact key
        | cons y ys => cases h
  | removeAll a =>
    simp only [RMut.touches, beq_eq_false_iff_ne, ne_eq] at hn
    simp only [RsyncFs.apply, Option.some.injEq] at h
    rw [← h, RsyncFs.get?_remove]
    have : n ≠ a := fun e => hn e.symm
    simp [this]

/-- Mutations leave alone the directories they do not name (also when one of them fails). -/
theorem applyAll_other (fs : RsyncFs) (ms : List RMut) (n : Top)
    (h : ∀ m ∈ ms, m.touches n = false) : (fs.applyAll ms).1.get? n = fs.get? n := by
  induction ms generalizing fs with
  | nil => rfl
  | cons m t ih =>
    simp only [RsyncFs.applyAll]
    cases ha : fs.apply m with
    | none => rfl
    | some fs' =>
      simp only
      rw [ih fs' (fun x hx => h x (by simp [hx])), apply_other ha (h m (by simp))]

theorem planNext_mem {μ : Type} (f : μ → Sig) {s : Sig} :
    ∀ {plan : List (Bool × List μ)} {m : μ} {plan' : List (Bool × List μ)},
    planNext f s plan = some (m, plan') →
      (∃ ph ∈ plan, m ∈ ph.2) ∧ ∀ ph' ∈ plan', ∀ x ∈ ph'.2, ∃ ph ∈ plan, x ∈ ph.2 := by
  intro plan
  induction plan with
  | nil => intro m plan' h; simp [planNext] at h
  | cons ph ps ih =>
    intro m plan' h
    obtain ⟨b, l⟩ := ph
    cases l with
    | nil =>
      simp only [planNext] at h
      obtain ⟨⟨ph, hph, hm⟩, hrest⟩ := ih h
      exact ⟨⟨ph, by simp [hph], hm⟩, fun ph' hp' x hx => by
        obtain ⟨q, hq, hxq⟩ := hrest ph' hp' x hx
        exact ⟨q, by simp [hq], hxq⟩⟩
    | cons a t =>
      cases b with
      | true =>
        simp only [planNext] at h
        by_cases hfa : (f a == s) = true
        · rw [if_pos hfa] at h
          simp only [Option.some.injEq, Prod.mk.injEq] at h
          obtain ⟨rfl, rfl⟩ := h
          refine ⟨⟨(true, a :: t), by simp, by simp⟩, ?_⟩
          intro ph' hp' x hx
          rcases List.mem_cons.mp hp' with rfl | hp'
          · exact ⟨(true, a :: t), by simp, by simp [hx]⟩
          · exact ⟨ph', by simp [hp'], hx⟩
        · rw [if_neg hfa] at h; cases h
      | false =>
        simp only [planNext] at h
        cases ht : takeMatching f s (a :: t) with
        | none => rw [ht] at h; simp at h
        | some pr =>
          obtain ⟨x0, rest0⟩ := pr
          rw [ht] at h
          simp only [Option.map_some, Option.some.injEq, Prod.mk.injEq] at h
          obtain ⟨rfl, rfl⟩ := h
          obtain ⟨hx0, _, _, hmem⟩ := takeMatching_spec f ht
          refine ⟨⟨(false, a :: t), by simp, hx0⟩, ?_⟩
          intro ph' hp' x hx
          rcases List.mem_cons.mp hp' with rfl | hp'
          · exact ⟨(false, a :: t), by simp, (hmem x).mpr (Or.inr hx)⟩
          · exact ⟨ph', by simp [hp'], hx⟩

/-- Every mutation read from a log is a mutation of the plan. -/
theorem matchLog_mem {μ : Type} (f : μ → Sig) : ∀ {log : List Sig} {plan : List (Bool × List μ)}
    {ms : List μ} {rest : List (Bool × List μ)}, matchLog f plan log = some (ms, rest) →
    ∀ m ∈ ms, ∃ ph ∈ plan, m ∈ ph.2 := by
  intro log
  induction log with
  | nil =>
    intro plan ms rest h
    simp only [matchLog, Option.some.injEq, Prod.mk.injEq] at h
    rw [← h.1]
    exact fun _ hm => nomatch hm
  | cons s l ih =>
    intro plan ms rest h
    simp only [matchLog] at h
    cases hn : planNext f s plan with
    | none => rw [hn] at h; cases h
    | some pr =>
      obtain ⟨m0, plan'⟩ := pr
      rw [hn] at h
      simp only at h
      cases hm : matchLog f plan' l with
      | none => rw [hm] at h; simp at h
      | some pr2 =>
        obtain ⟨ms', rest'⟩ := pr2
        rw [hm] at h
        simp only [Option.map_some, Option.some.injEq, Prod.mk.injEq] at h
        obtain ⟨rfl, rfl⟩ := h
        obtain ⟨h0, hrest⟩ := planNext_mem f hn
        intro m hmm
        rcases List.mem_cons.mp hmm with rfl | hmm
        · exact h0
        · obtain ⟨ph', hp', hx⟩ := ih hm m hmm
          exact hrest ph' hp' m hx

/-! ## RRDP files -/

theorem RrdpFs.get?_cons (e : Path × FileC) (fs : RrdpFs) (p : Path) :
    RrdpFs.get? (e :: fs) p = if p = e.1 then some e.2 else RrdpFs.get? fs p := by
  unfold RrdpFs.get?
  rw [List.lookup_cons]
  by_cases h : p = e.1
  · simp [h]
  · have : (p == e.1) = false := by simp [h]
    simp [this, h]

theorem RrdpFs.get?_filter (fs : RrdpFs) (keep : Path → Bool) (p : Path) :
    RrdpFs.get? (fs.filter (fun e => keep e.1)) p = if keep p then RrdpFs.get? fs p else none := by
  induction fs with
  | nil => simp [RrdpFs.get?]
  | cons e t ih =>
    rw [List.filter_cons]
    by_cases hk : keep e.1 = true
    · simp only [hk, ↓reduceIte]
      rw [RrdpFs.get?_cons, RrdpFs.get?_cons, ih]
      by_cases hp : p = e.1
      · simp [hp, hk]
      · simp [hp]
    · simp only [hk, Bool.false_eq_true, ↓reduceIte]
      rw [ih, RrdpFs.get?_cons]
      by_cases hp : p = e.1
      · subst hp; simp [hk]
      · simp [hp]

theorem RrdpFs.get?_remove (fs : RrdpFs) (q p : Path) :
    (fs.remove q).get? p = if p = q then none else fs.get? p := by
  have := RrdpFs.get?_filter fs (fun x => x != q) p
  unfold RrdpFs.remove
  rw [this]
  by_cases h : p = q <;> simp [h]

theorem RrdpFs.get?_removeTree (fs : RrdpFs) (q p : Path) :
    (fs.removeTree q).get? p = if q.isPrefixOf p then none else fs.get? p := by
  have := RrdpFs.get?_filter fs (fun x => !(q.isPrefixOf x)) p
  unfold RrdpFs.removeTree
  rw [this]
  by_cases h : q.isPrefixOf p = true <;> simp [h]

theorem RrdpFs.get?_set (fs : RrdpFs) (q p : Path) (c : FileC) :
    (fs.set q c).get? p = if p = q then some c else fs.get? p := by
  unfold RrdpFs.set
  rw [RrdpFs.get?_cons, RrdpFs.get?_remove]
  by_cases h : p = q <;> simp [h]

/-- What a removal mutation removes. -/
def Mut.removes : Mut → Path → Bool
  | .create _ _, _ => false
  | .rename _ _, _ => false
  | .removeTree q, p => q.isPrefixOf p
  | .removeFile q, p => p == q
  | .removeAny q, p => q.isPrefixOf p

def Mut.isRemoval : Mut → Bool
  | .removeTree _ => true
  | .removeFile _ => true
  | .removeAny _ => true
  | _ => false

theorem get?_apply_removal (fs : RrdpFs) (m : Mut) (hr : m.isRemoval = true) (p : Path)
    (hp : m.removes p = false) : (fs.apply m).get? p = fs.get? p := by
  cases m with
  | create q c => simp [Mut.isRemoval] at hr
  | rename a b => simp [Mut.isRemoval] at hr
  | removeTree q =>
    simp only [Mut.removes] at hp
    simp only [RrdpFs.apply, RrdpFs.get?_removeTree, hp, Bool.false_eq_true, ↓reduceIte]
  | removeFile q =>
    simp only [Mut.removes, beq_eq_false_iff_ne, ne_eq] at hp
    simp only [RrdpFs.apply, RrdpFs.get?_remove, hp, ↓reduceIte]
  | removeAny q =>
    simp only [Mut.removes] at hp
    simp only [RrdpFs.apply, RrdpFs.get?_removeTree, hp, Bool.false_eq_true, ↓reduceIte]

theorem get?_applyAll_removals (ms : List Mut) (p : Path)
    (h : ∀ m ∈ ms, m.isRemoval = true ∧ m.removes p = false) :
    ∀ (fs : RrdpFs), (fs.applyAll ms).get? p = fs.get? p := by
  induction ms with
  | nil => intro fs; rfl
  | cons m t ih =>
    intro fs
    unfold RrdpFs.applyAll
    rw [List.foldl_cons]
    have := ih (fun x hx => h x (by simp [hx])) (fs.apply m)
    unfold RrdpFs.applyAll at this
    rw [this, get?_apply_removal fs m (h m (by simp)).1 p (h m (by simp)).2]

/-- The files a notification names exist with the stated content. -/
def RefsOk (fs : RrdpFs) (n : Notif) : Prop :=
  fs.refOk n.snap = true ∧ ∀ d ∈ n.deltas, fs.refOk d.2 = true

theorem consistent_iff (fs : RrdpFs) :
    fs.consistent = true ↔
      (fs.get? notifPath = none ∨ ∃ n, fs.get? notifPath = some (.notif n) ∧ RefsOk fs n) := by
  unfold RrdpFs.consistent RefsOk
  cases h : fs.get? notifPath with
  | none => simp
  | some c =>
    cases c with
    | data d => simp
    | notif n => simp [List.all_eq_true]
    | garbage w => simp

theorem refOk_iff (fs : RrdpFs) (r : DataRef) :
    fs.refOk r = true ↔ fs.get? r.path = some (.data r.data) := by
  unfold RrdpFs.refOk; simp

/-- `(path, content)` pairs that may be (re)written: whatever is at such a path already has
that content, and a path determines the content. -/
structure SafeSet (fs : RrdpFs) (S : List (Path × DataFile)) : Prop where
  safe : ∀ e ∈ S, ∀ c, fs.get? e.1 = some c → c = .data e.2
  func : ∀ e ∈ S, ∀ e' ∈ S, e.1 = e'.1 → e.2 = e'.2

theorem apply_create_data (fs : RrdpFs) (p : Path) (x : DataFile) :
    fs.apply (.create p (.data x)) = fs.set p (.data x) := rfl

/-- Writing data files of a safe set: nothing that was there changes, what is written is
there. -/
theorem data_creates (S : List (Path × DataFile)) : ∀ (dc : List (Path × DataFile)),
    (∀ e ∈ dc, e ∈ S) → ∀ (fs : RrdpFs), SafeSet fs S →
    let fs' := fs.applyAll (dc.map (fun e => Mut.create e.1 (.data e.2)))
    SafeSet fs' S ∧
    (∀ q c, fs.get? q = some c → fs'.get? q = some c) ∧
    (∀ q, (∀ e ∈ S, q ≠ e.1) → fs'.get? q = fs.get? q) ∧
    (∀ e ∈ dc, fs'.get? e.1 = some (.data e.2)) := by
  intro dc
  induction dc with
  | nil => intro _ fs hs; exact ⟨hs, fun _ _ h => h, fun _ _ => rfl, fun _ h => nomatch h⟩
  | cons a t ih =>
    intro hsub fs hs
    have ha : a ∈ S := hsub a (by simp)
    -- one create
    have hstep : fs.apply (.create a.1 (.data a.2)) = fs.set a.1 (.data a.2) := apply_create_data _ _ _
    have hs1 : SafeSet (fs.set a.1 (.data a.2)) S := by
      refine ⟨?_, hs.func⟩
      intro e he c hc
      rw [RrdpFs.get?_set] at hc
      by_cases hp : e.1 = a.1
      · simp only [hp, ↓reduceIte, Option.some.injEq] at hc
        rw [← hc, hs.func e he a ha hp]
      · simp only [hp, ↓reduceIte] at hc
        exact hs.safe e he c hc
    have hkeep : ∀ q c, fs.get? q = some c → (fs.set a.1 (.data a.2)).get? q = some c := by
      intro q c hq
      rw [RrdpFs.get?_set]
      by_cases hp : q = a.1
      · simp only [hp, ↓reduceIte]
        rw [hp] at hq
        rw [hs.safe a ha c hq]
      · simp only [hp, ↓reduceIte]; exact hq
    obtain ⟨h1, h2, h3, h4⟩ := ih (fun e he => hsub e (by simp [he])) _ hs1
    simp only [List.map_cons, RrdpFs.applyAll, List.foldl_cons, hstep]
    simp only [RrdpFs.applyAll] at h1 h2 h3 h4
    refine ⟨h1, fun q c hq => h2 q c (hkeep q c hq), ?_, ?_⟩
    · intro q hq
      rw [h3 q hq, RrdpFs.get?_set]
      simp [hq a ha]
    · intro e he
      rcases List.mem_cons.mp he with rfl | het
      · apply h2
        rw [RrdpFs.get?_set]; simp
      · exact h4 e het

/-! ### what `update_rrdp_files` writes and what the new notification names -/

theorem contigFrom_serial_inj {n : Nat} {l : List DeltaRec} (h : contigFrom n l)
    {d d' : DeltaRec} (hd : d ∈ l) (hd' : d' ∈ l) (hs : d.serial = d'.serial) : d = d' := by
  obtain ⟨i, hi, rfl⟩ := List.getElem_of_mem hd
  obtain ⟨j, hj, rfl⟩ := List.getElem_of_mem hd'
  have h1 := (contigFrom_get n l h i hi).1
  have h2 := (contigFrom_get n l h j hj).1
  have : i = j := by omega
  subst this
  rfl

theorem contigFrom_le {n : Nat} {l : List DeltaRec} (h : contigFrom n l) {d : DeltaRec}
    (hd : d ∈ l) : d.serial ≤ n := by
  obtain ⟨i, hi, rfl⟩ := List.getElem_of_mem hd
  have := (contigFrom_get n l h i hi).1
  omega

theorem contigFrom_head {n : Nat} {l : List DeltaRec} (h : contigFrom n l) (hne : l ≠ []) :
    (l.head?.map (·.serial)).getD 0 = n := by
  cases l with
  | nil => exact absurd rfl hne
  | cons d ds => simp [h.1]

theorem contigFrom_last_le {n : Nat} {l : List DeltaRec} (h : contigFrom n l) {d : DeltaRec}
    (hd : d ∈ l) : (l.getLast?.map (·.serial)).getD 0 ≤ d.serial := by
  cases hl : l.getLast? with
  | none => simp
  | some last =>
    simp only [Option.map_some, Option.getD_some]
    have hmem : last ∈ l := List.mem_of_getLast? hl
    obtain ⟨i, hi, rfl⟩ := List.getElem_of_mem hd
    obtain ⟨j, hj, hje⟩ := List.getElem_of_mem hmem
    have h1 := (contigFrom_get n l h i hi).1
    have h2 := (contigFrom_get n l h j hj).1
    -- the last element has the largest index
    have hjl : j = l.length - 1 := by
      rw [List.getLast?_eq_getElem?] at hl
      have hlt : l.length - 1 < l.length := by omega
      rw [List.getElem?_eq_getElem hlt] at hl
      have hser : l[l.length - 1].serial = l[j].serial := by
        rw [hje]; exact congrArg DeltaRec.serial (Option.some.inj hl)
      have h3 := (contigFrom_get n l h (l.length - 1) hlt).1
      omega
    rw [← hje]
    omega

/-- The data files the writer may (re)write. -/
def safeSetOf (r : Rrdp) : List (Path × DataFile) :=
  (snapshotPath r, snapshotFile r) ::
    r.deltas.map (fun d => (deltaPath r.session d, deltaFile r.session d))

/-- Shape of the file names of a notification: `<session>/<serial>/<random>/…`. -/
def RefShape (n : Notif) : Prop :=
  (∃ rnd, n.snap.path = [.sess n.session, .num n.serial, .rnd rnd, .name "snapshot.xml"]) ∧
  ∀ d ∈ n.deltas, ∃ rnd, d.2.path = [.sess n.session, .num d.1, .rnd rnd, .name "delta.xml"]

/-- What `update_rrdp_files` needs of the files it finds. -/
structure RrdpPre (r : Rrdp) (fs : RrdpFs) : Prop where
  shape : ∀ n, fs.notification = some n → RefShape n
  /-- the files are not from the future -/
  past : ∀ n, fs.notification = some n → n.session = r.session → ∀ d ∈ n.deltas, d.1 ≤ r.serial
  contig : Contig r
  /-- a file that already sits at the path of a delta or of the snapshot is that file -/
  safe : ∀ e ∈ safeSetOf r, ∀ c, fs.get? e.1 = some c → c = .data e.2
  /-- `notification.xml` is a file -/
  flat : ∀ e ∈ fs, e.1.head? = some (.name "notification.xml") → e.1 = notifPath

theorem safeSet_of_pre {r : Rrdp} {fs : RrdpFs} (h : RrdpPre r fs) : SafeSet fs (safeSetOf r) := by
  refine ⟨h.safe, ?_⟩
  intro e he e' he' hp
  unfold safeSetOf at he he'
  rcases List.mem_cons.mp he with rfl | he <;> rcases List.mem_cons.mp he' with rfl | he'
  · rfl
  · obtain ⟨d, _, rfl⟩ := List.mem_map.mp he'
    simp [snapshotPath, deltaPath] at hp
  · obtain ⟨d, _, rfl⟩ := List.mem_map.mp he
    simp [snapshotPath, deltaPath] at hp
  · obtain ⟨d, hd, rfl⟩ := List.mem_map.mp he
    obtain ⟨d', hd', rfl⟩ := List.mem_map.mp he'
    simp only [deltaPath, List.cons.injEq, Seg.num.injEq, Seg.rnd.injEq, and_true, true_and] at hp
    have := contigFrom_serial_inj h.contig.2 hd hd' hp.1
    rw [this]

theorem mem_insertAsc {x y : Nat × DataRef} {l : List (Nat × DataRef)} :
    y ∈ insertAsc x l ↔ y = x ∨ y ∈ l := by
  induction l with
  | nil => simp [insertAsc]
  | cons a t ih =>
    simp only [insertAsc]
    split
    · simp
    · simp only [List.mem_cons, ih]
      constructor
      · rintro (h | h | h)
        · exact Or.inr (Or.inl h)
        · exact Or.inl h
        · exact Or.inr (Or.inr h)
      · rintro (h | h | h)
        · exact Or.inr (Or.inl h)
        · exact Or.inl h
        · exact Or.inr (Or.inr h)

theorem mem_sortAsc {y : Nat × DataRef} {l : List (Nat × DataRef)} : y ∈ sortAsc l ↔ y ∈ l := by
  induction l with
  | nil => simp [sortAsc]
  | cons a t ih =>
    simp only [sortAsc, List.foldr_cons] at ih ⊢
    rw [mem_insertAsc, ih]
    simp

/-- What is re-used comes from the old notification of the same session, and is not older than
the oldest retained delta. -/
theorem mem_reusable {r : Rrdp} {old : Option Notif} {x : Nat × DataRef}
    (hx : x ∈ reusable r old) :
    ∃ n, old = some n ∧ n.session = r.session ∧ x ∈ n.deltas ∧ r.deltas ≠ [] ∧
      (r.deltas.getLast?.map (·.serial)).getD 0 ≤ x.1 := by
  unfold reusable at hx
  cases old with
  | none => cases hx
  | some n =>
    by_cases hs : (n.session != r.session) = true
    · simp only [hs, ↓reduceIte] at hx; cases hx
    · simp only [hs, Bool.false_eq_true, ↓reduceIte] at hx
      by_cases hg : (!noGaps (sortAsc n.deltas)) = true
      · simp only [hg, ↓reduceIte] at hx; cases hx
      · simp only [hg, Bool.false_eq_true, ↓reduceIte] at hx
        cases hl : r.deltas.getLast? with
        | none => simp only [hl] at hx; cases hx
        | some last =>
          simp only [hl] at hx
          obtain ⟨h1, h2⟩ := List.mem_filter.mp hx
          refine ⟨n, rfl, by simpa using hs, mem_sortAsc.mp h1, ?_, ?_⟩
          · intro he; rw [he] at hl; cases hl
          · simpa using h2

theorem mem_deltasToWrite {r : Rrdp} {reused : List (Nat × DataRef)} {d : DeltaRec}
    (h : d ∈ deltasToWrite r reused) : d ∈ r.deltas := by
  unfold deltasToWrite at h
  cases hl : reused.getLast? with
  | none => simp only [hl] at h; exact h
  | some last => simp only [hl] at h; exact (List.mem_filter.mp h).1

/-- The data files written: the missing deltas, then the snapshot. -/
def dataWrites (r : Rrdp) (old : Option Notif) : List (Path × DataFile) :=
  (deltasToWrite r (reusable r old)).map (fun d => (deltaPath r.session d, deltaFile r.session d))
    ++ [(snapshotPath r, snapshotFile r)]

theorem dataWrites_sub (r : Rrdp) (old : Option Notif) :
    ∀ e ∈ dataWrites r old, e ∈ safeSetOf r := by
  intro e he
  unfold dataWrites at he
  unfold safeSetOf
  rcases List.mem_append.mp he with he | he
  · obtain ⟨d, hd, rfl⟩ := List.mem_map.mp he
    exact List.mem_cons_of_mem _ (List.mem_map.mpr ⟨d, mem_deltasToWrite hd, rfl⟩)
  · simp only [List.mem_singleton] at he
    subst he; simp

theorem rrdpPlanFrom_eq (r : Rrdp) (fs : RrdpFs) (old : Option Notif) :
    rrdpPlan.rrdpPlanFrom r fs old =
      let writes := (dataWrites r old).map (fun e => Mut.create e.1 (.data e.2)) ++
        [.create newNotifPath (.notif (newNotification r old)), .rename newNotifPath notifPath]
      [(true, writes), (false, cleanupSessions r (fs.applyAll writes)),
       (false, cleanupSerials r (fs.applyAll writes))] := by
  unfold rrdpPlan.rrdpPlanFrom dataWrites
  simp only [List.map_append, List.map_map, List.map_cons, List.map_nil, List.append_assoc,
    List.cons_append, List.nil_append, Function.comp_def]

/-! ### what the clean-up removes -/

theorem mem_cleanupSessions {r : Rrdp} {fs : RrdpFs} {c : Mut} (h : c ∈ cleanupSessions r fs) :
    ∃ s, c = .removeTree [s] ∧ s ≠ .sess r.session ∧
      ∃ e ∈ fs, ∃ x rest, e.1 = s :: x :: rest := by
  unfold cleanupSessions at h
  obtain ⟨⟨s, isDir⟩, hmem, hf⟩ := List.mem_filterMap.mp h
  simp only at hf
  by_cases hs : (s == Seg.sess r.session) = true
  · simp [hs] at hf
  · simp only [hs, Bool.false_eq_true, ↓reduceIte] at hf
    cases isDir with
    | false => simp at hf
    | true =>
      simp only [↓reduceIte, Option.some.injEq] at hf
      refine ⟨s, hf.symm, by simpa using hs, ?_⟩
      unfold RrdpFs.children at hmem
      rw [List.mem_eraseDups] at hmem
      obtain ⟨e, he, hfe⟩ := List.mem_filterMap.mp hmem
      simp only [List.isPrefixOf_nil_left, ↓reduceIte, List.length_nil, List.drop_zero] at hfe
      cases hp : e.1 with
      | nil => rw [hp] at hfe; cases hfe
      | cons a t =>
        rw [hp] at hfe
        cases t with
        | nil => simp at hfe
        | cons x rest =>
          simp only [Option.some.injEq, Prod.mk.injEq, and_true] at hfe
          exact ⟨e, he, x, rest, by rw [hp, hfe]⟩

theorem snapshotIn_shape {fs : RrdpFs} {session serial : Nat} {p : Path}
    (h : fs.snapshotIn session serial = some p) :
    ∃ x, p = [.sess session, .num serial, x, .name "snapshot.xml"] := by
  unfold RrdpFs.snapshotIn at h
  rw [Option.map_eq_some_iff] at h
  obtain ⟨e, hf, rfl⟩ := h
  have hp := List.find?_some hf
  split at hp
  · rename_i s n x f heq
    simp only [Bool.and_eq_true, beq_iff_eq] at hp
    obtain ⟨⟨rfl, rfl⟩, rfl⟩ := hp
    exact ⟨x, heq⟩
  · cases hp

theorem mem_cleanupSerials {r : Rrdp} {fs : RrdpFs} {c : Mut} (h : c ∈ cleanupSerials r fs) :
    (∃ n, n ≠ r.serial ∧
        (n < (r.deltas.getLast?.map (·.serial)).getD 0 ∨ n > (r.deltas.head?.map (·.serial)).getD 0) ∧
        (c = .removeTree [.sess r.session, .num n] ∨ c = .removeFile [.sess r.session, .num n])) ∨
    (∃ n x, n ≠ r.serial ∧ c = .removeFile [.sess r.session, .num n, x, .name "snapshot.xml"]) ∨
    (∃ s, (∀ n, s ≠ .num n) ∧ c = .removeAny [.sess r.session, s]) := by
  unfold cleanupSerials at h
  obtain ⟨⟨s, isDir⟩, _, hf⟩ := List.mem_filterMap.mp h
  simp only at hf
  cases s with
  | num n =>
    simp only at hf
    by_cases hn : (n == r.serial) = true
    · simp [hn] at hf
    · simp only [hn, Bool.false_eq_true, ↓reduceIte] at hf
      have hne : n ≠ r.serial := by simpa using hn
      split at hf
      · rename_i hrange
        simp only [Bool.or_eq_true, decide_eq_true_eq] at hrange
        simp only [Option.some.injEq] at hf
        refine Or.inl ⟨n, hne, hrange, ?_⟩
        cases isDir <;> simp at hf <;> simp [← hf]
      · cases hsnap : fs.snapshotIn r.session n with
        | none => rw [hsnap] at hf; cases hf
        | some p =>
          rw [hsnap] at hf
          simp only [Option.map_some, Option.some.injEq] at hf
          obtain ⟨x, rfl⟩ := snapshotIn_shape hsnap
          exact Or.inr (Or.inl ⟨n, x, hne, hf.symm⟩)
  | sess k =>
    simp only [Option.some.injEq] at hf
    exact Or.inr (Or.inr ⟨.sess k, (fun n hc => nomatch hc), hf.symm⟩)
  | rnd k =>
    simp only [Option.some.injEq] at hf
    exact Or.inr (Or.inr ⟨.rnd k, (fun n hc => nomatch hc), hf.symm⟩)
  | name k =>
    simp only [Option.some.injEq] at hf
    exact Or.inr (Or.inr ⟨.name k, (fun n hc => nomatch hc), hf.symm⟩)

/-! ### the notification stays consistent at every cut -/

theorem mem_newNotification_deltas {r : Rrdp} {old : Option Notif} {x : Nat × DataRef}
    (hx : x ∈ (newNotification r old).deltas) :
    (∃ d ∈ deltasToWrite r (reusable r old),
        x = (d.serial, ⟨deltaPath r.session d, deltaFile r.session d⟩)) ∨
    x ∈ reusable r old := by
  unfold newNotification at hx
  simp only [List.mem_append, List.mem_map, List.mem_reverse] at hx
  rcases hx with ⟨d, hd, rfl⟩ | hx
  · exact Or.inl ⟨d, hd, rfl⟩
  · exact Or.inr hx

/-- Names and serial range of the deltas the new notification lists. -/
theorem newNotification_delta_shape {r : Rrdp} {fs : RrdpFs} (hpre : RrdpPre r fs)
    {x : Nat × DataRef} (hx : x ∈ (newNotification r fs.notification).deltas) :
    (∃ rnd, x.2.path = [.sess r.session, .num x.1, .rnd rnd, .name "delta.xml"]) ∧
    (r.deltas.getLast?.map (·.serial)).getD 0 ≤ x.1 ∧
    x.1 ≤ (r.deltas.head?.map (·.serial)).getD 0 := by
  rcases mem_newNotification_deltas hx with ⟨d, hd, rfl⟩ | hre
  · have hmem := mem_deltasToWrite hd
    refine ⟨⟨d.rnd, rfl⟩, contigFrom_last_le hpre.contig.2 hmem, ?_⟩
    rw [contigFrom_head hpre.contig.2 (List.ne_nil_of_mem hmem)]
    exact contigFrom_le hpre.contig.2 hmem
  · obtain ⟨n, hn, hsess, hmem, hne, hlow⟩ := mem_reusable hre
    obtain ⟨rnd, hp⟩ := (hpre.shape n hn).2 x hmem
    refine ⟨⟨rnd, by rw [hp, hsess]⟩, hlow, ?_⟩
    rw [contigFrom_head hpre.contig.2 hne]
    exact hpre.past n hn hsess x hmem

/-- Targets of the writing mutations. -/
def Mut.target : Mut → Option Path
  | .create p _ => some p
  | .rename _ b => some b
  | _ => none

theorem mem_set_path {fs : RrdpFs} {q : Path} {c : FileC} {e : Path × FileC}
    (h : e ∈ fs.set q c) : e.1 = q ∨ e ∈ fs := by
  unfold RrdpFs.set at h
  rcases List.mem_cons.mp h with rfl | h
  · exact Or.inl rfl
  · exact Or.inr (List.mem_filter.mp h).1

theorem mem_apply_path {fs : RrdpFs} {m : Mut} {e : Path × FileC} (h : e ∈ fs.apply m) :
    (∃ e' ∈ fs, e'.1 = e.1) ∨ m.target = some e.1 := by
  cases m with
  | create p c =>
    rcases mem_set_path h with h | h
    · exact Or.inr (by simp [Mut.target, h])
    · exact Or.inl ⟨e, h, rfl⟩
  | rename a b =>
    simp only [RrdpFs.apply] at h
    cases hg : fs.get? a with
    | none => rw [hg] at h; exact Or.inl ⟨e, h, rfl⟩
    | some c =>
      rw [hg] at h
      rcases mem_set_path h with h | h
      · exact Or.inr (by simp [Mut.target, h])
      · exact Or.inl ⟨e, (List.mem_filter.mp h).1, rfl⟩
  | removeTree p => exact Or.inl ⟨e, (List.mem_filter.mp h).1, rfl⟩
  | removeFile p => exact Or.inl ⟨e, (List.mem_filter.mp h).1, rfl⟩
  | removeAny p => exact Or.inl ⟨e, (List.mem_filter.mp h).1, rfl⟩

theorem mem_applyAll_path (ms : List Mut) : ∀ {fs : RrdpFs} {e : Path × FileC},
    e ∈ fs.applyAll ms → (∃ e' ∈ fs, e'.1 = e.1) ∨ ∃ m ∈ ms, m.target = some e.1 := by
  induction ms with
  | nil => intro fs e h; exact Or.inl ⟨e, h, rfl⟩
  | cons m t ih =>
    intro fs e h
    unfold RrdpFs.applyAll at h
    rw [List.foldl_cons] at h
    rcases ih (fs := fs.apply m) h with ⟨e', he', hp⟩ | ⟨m', hm', ht⟩
    · rcases mem_apply_path he' with ⟨e'', he'', hp'⟩ | ht
      · exact Or.inl ⟨e'', he'', hp'.trans hp⟩
      · exact Or.inr ⟨m, by simp, by rw [ht, hp]⟩
    · exact Or.inr ⟨m', by simp [hm'], ht⟩

theorem applyAll_append_rrdp (fs : RrdpFs) (a b : List Mut) :
    fs.applyAll (a ++ b) = (fs.applyAll a).applyAll b := by
  unfold RrdpFs.applyAll; rw [List.foldl_append]

theorem take_append_two {α} (a : List α) (x y : α) (n : Nat) :
    (∃ k, (a ++ [x, y]).take n = a.take k) ∨ (a ++ [x, y]).take n = a ++ [x] ∨
      (a ++ [x, y]).take n = a ++ [x, y] := by
  by_cases h1 : n ≤ a.length
  · exact Or.inl ⟨n, List.take_append_of_le_length h1⟩
  · by_cases h2 : n = a.length + 1
    · right; left
      rw [h2, List.take_append, List.take_of_length_le (Nat.le_succ _)]
      simp
    · right; right
      apply List.take_of_length_le
      simp only [List.length_append, List.length_cons, List.length_nil]
      omega

theorem safeSet_path_len {r : Rrdp} {e : Path × DataFile} (he : e ∈ safeSetOf r) :
    e.1.length = 4 := by
  unfold safeSetOf at he
  rcases List.mem_cons.mp he with rfl | he
  · rfl
  · obtain ⟨d, _, rfl⟩ := List.mem_map.mp he
    rfl

theorem notification_of_get? {fs : RrdpFs} {n : Notif} (h : fs.notification = some n) :
    fs.get? notifPath = some (.notif n) := by
  unfold RrdpFs.notification at h
  cases hg : fs.get? notifPath with
  | none => rw [hg] at h; cases h
  | some c =>
    rw [hg] at h
    cases c with
    | notif m => simp only [Option.some.injEq] at h; rw [h]
    | data d => cases h
    | garbage w => cases h

/-- State after the data files have been written (any number of them). -/
theorem after_data_writes {r : Rrdp} {fs : RrdpFs} (hpre : RrdpPre r fs)
    (hc : fs.consistent = true) (dw : List (Path × DataFile)) (hsub : ∀ e ∈ dw, e ∈ safeSetOf r) :
    let fs1 := fs.applyAll (dw.map (fun e => Mut.create e.1 (.data e.2)))
    fs1.consistent = true ∧ fs1.get? newNotifPath = fs.get? newNotifPath ∧
    fs1.get? notifPath = fs.get? notifPath ∧
    (∀ q c, fs.get? q = some c → fs1.get? q = some c) ∧
    (∀ e ∈ dw, fs1.get? e.1 = some (.data e.2)) := by
  obtain ⟨_, hkeep, hoth, hwr⟩ := data_creates (safeSetOf r) dw hsub fs (safeSet_of_pre hpre)
  have hnn : ∀ (q : Path), q.length = 1 → ∀ e ∈ safeSetOf r, q ≠ e.1 := by
    intro q hq e he heq
    have := safeSet_path_len he
    rw [← heq] at this
    omega
  have h1 := hoth notifPath (hnn _ rfl)
  have h2 := hoth newNotifPath (hnn _ rfl)
  refine ⟨?_, h2, h1, hkeep, hwr⟩
  rw [consistent_iff] at hc ⊢
  rcases hc with hc | ⟨n, hn, hs, hd⟩
  · exact Or.inl (by rw [h1]; exact hc)
  · refine Or.inr ⟨n, by rw [h1]; exact hn, ?_, ?_⟩
    · rw [refOk_iff] at hs ⊢; exact hkeep _ _ hs
    · intro d hdm
      have := hd d hdm
      rw [refOk_iff] at this ⊢
      exact hkeep _ _ this

/-- All files the new notification names are there once the data files are written. -/
theorem new_refs_present {r : Rrdp} {fs : RrdpFs} (hpre : RrdpPre r fs)
    (hc : fs.consistent = true) :
    let fs1 := fs.applyAll ((dataWrites r fs.notification).map (fun e => Mut.create e.1 (.data e.2)))
    fs1.get? (snapshotPath r) = some (.data (snapshotFile r)) ∧
    ∀ x ∈ (newNotification r fs.notification).deltas, fs1.get? x.2.path = some (.data x.2.data) := by
  obtain ⟨_, _, _, hkeep, hwr⟩ :=
    after_data_writes hpre hc (dataWrites r fs.notification) (dataWrites_sub r _)
  refine ⟨?_, ?_⟩
  · exact hwr (snapshotPath r, snapshotFile r) (by simp [dataWrites])
  · intro x hx
    rcases mem_newNotification_deltas hx with ⟨d, hd, rfl⟩ | hre
    · exact hwr (deltaPath r.session d, deltaFile r.session d)
        (by unfold dataWrites; exact List.mem_append_left _ (List.mem_map.mpr ⟨d, hd, rfl⟩))
    · obtain ⟨n, hn, _, hmem, _, _⟩ := mem_reusable hre
      have hg := notification_of_get? hn
      rw [consistent_iff] at hc
      rcases hc with hc | ⟨n', hn', _, hd⟩
      · rw [hg] at hc; cases hc
      · rw [hg] at hn'
        have : n = n' := by injection hn' with h; injection h
        subst this
        have := hd x hmem
        rw [refOk_iff] at this
        exact hkeep _ _ this

/-- What an interrupted or complete run of `update_rrdp_files` leaves: a consistent
notification, which is the old one or the new one, and the new one (naming the state's session
and serial) if the run was complete. -/
theorem rrdp_cut_facts {r : Rrdp} {fs : RrdpFs} (hpre : RrdpPre r fs)
    (hc : fs.consistent = true) {log : List Sig} {ms : List Mut} {rest : Plan}
    (hm : matchLog Mut.sig (rrdpPlan r fs) log = some (ms, rest)) :
    (fs.applyAll ms).consistent = true ∧
    ((fs.applyAll ms).get? notifPath = fs.get? notifPath ∨
      (fs.applyAll ms).get? notifPath = some (.notif (newNotification r fs.notification))) ∧
    (planDone rest = true → ∃ n, (fs.applyAll ms).get? notifPath = some (.notif n) ∧
      n.session = r.session ∧ n.serial = r.serial) := by
  have hplan : (rrdpPlan r fs = [] ∧ ∃ n, fs.notification = some n ∧ n.serial = r.serial ∧
        n.session = r.session) ∨
      rrdpPlan r fs = rrdpPlan.rrdpPlanFrom r fs fs.notification := by
    unfold rrdpPlan
    cases hn : fs.notification with
    | none => exact Or.inr rfl
    | some n =>
      simp only
      split
      · rename_i h
        simp only [Bool.and_eq_true, beq_iff_eq] at h
        exact Or.inl ⟨rfl, n, rfl, h.1, h.2⟩
      · exact Or.inr rfl
  rcases hplan with ⟨hp, n0, hn0, hser0, hsess0⟩ | hp
  · rw [hp] at hm
    obtain ⟨rfl, _⟩ := matchLog_nil_plan Mut.sig hm
    exact ⟨hc, Or.inl rfl, fun _ => ⟨n0, notification_of_get? hn0, hsess0, hser0⟩⟩
  rw [hp, rrdpPlanFrom_eq] at hm
  simp only at hm
  -- names
  generalize hDW : dataWrites r fs.notification = DW at hm
  generalize hnew : newNotification r fs.notification = new at hm
  have hsubDW : ∀ e ∈ DW, e ∈ safeSetOf r := by rw [← hDW]; exact dataWrites_sub r _
  -- states after the data writes, the new notification, the rename
  obtain ⟨hc1, hnn1, hnp1, hkeep1, _⟩ := after_data_writes hpre hc DW hsubDW
  obtain ⟨hsnap1, hdel1⟩ := new_refs_present hpre hc
  rw [hDW] at hsnap1 hdel1
  rw [hnew] at hdel1
  generalize hfs1 : fs.applyAll (DW.map (fun e => Mut.create e.1 (.data e.2))) = fs1
    at hc1 hnn1 hnp1 hkeep1 hsnap1 hdel1
  have hnotdata : ∀ x, fs1.get? notifPath ≠ some (.data x) := by
    intro x hx
    rw [hnp1] at hx
    rw [consistent_iff] at hc
    rcases hc with hc | ⟨n, hn, _⟩
    · rw [hc] at hx; cases hx
    · rw [hn] at hx; cases hx
  have hstep2 : fs1.apply (.create newNotifPath (.notif new)) = fs1.set newNotifPath (.notif new) := rfl
  have hlen4 : ∀ (p : Path), p.length = 4 → p ≠ newNotifPath ∧ p ≠ notifPath := by
    intro p hp
    constructor <;> (intro he; rw [he] at hp; simp [newNotifPath, notifPath] at hp)
  have hget2 : ∀ p, p ≠ newNotifPath →
      (fs1.set newNotifPath (.notif new)).get? p = fs1.get? p := by
    intro p hp; rw [RrdpFs.get?_set]; simp [hp]
  have hc2 : (fs1.set newNotifPath (.notif new)).consistent = true := by
    rw [consistent_iff] at hc1 ⊢
    have hne : notifPath ≠ newNotifPath := by decide
    rcases hc1 with h | ⟨n, hn, hs, hd⟩
    · exact Or.inl (by rw [hget2 _ hne]; exact h)
    · have hnot : fs.notification = some n := by
        unfold RrdpFs.notification; rw [← hnp1, hn]
      obtain ⟨⟨rnd, hsp⟩, hdp⟩ := hpre.shape n hnot
      refine Or.inr ⟨n, by rw [hget2 _ hne]; exact hn, ?_, ?_⟩
      · rw [refOk_iff] at hs ⊢
        rw [hget2 _ (hlen4 _ (by rw [hsp]; rfl)).1]; exact hs
      · intro d hdm
        have := hd d hdm
        obtain ⟨rnd', hdpath⟩ := hdp d hdm
        rw [refOk_iff] at this ⊢
        rw [hget2 _ (hlen4 _ (by rw [hdpath]; rfl)).1]; exact this
  have hstep3 : (fs1.set newNotifPath (.notif new)).apply (.rename newNotifPath notifPath) =
      ((fs1.set newNotifPath (.notif new)).remove newNotifPath).set notifPath (.notif new) := by
    have : (fs1.set newNotifPath (.notif new)).get? newNotifPath = some (.notif new) := by
      rw [RrdpFs.get?_set]; simp
    simp only [RrdpFs.apply, this]
  generalize hfs3 : ((fs1.set newNotifPath (.notif new)).remove newNotifPath).set notifPath (.notif new)
    = fs3 at hstep3
  have hget3 : ∀ p, p ≠ newNotifPath → p ≠ notifPath → fs3.get? p = fs1.get? p := by
    intro p h1 h2
    rw [← hfs3, RrdpFs.get?_set, RrdpFs.get?_remove, RrdpFs.get?_set]; simp [h1, h2]
  have hnotif3 : fs3.get? notifPath = some (.notif new) := by
    rw [← hfs3, RrdpFs.get?_set]; simp
  have hdata3 : ∀ p x, p.length = 4 → fs1.get? p = some (.data x) → fs3.get? p = some (.data x) := by
    intro p x hp hpx
    rw [hget3 p (hlen4 p hp).1 (hlen4 p hp).2]; exact hpx
  have hdlen : ∀ x ∈ new.deltas, x.2.path.length = 4 := by
    intro x hx
    rw [← hnew] at hx
    obtain ⟨⟨rnd, hpath⟩, _, _⟩ := newNotification_delta_shape hpre hx
    rw [hpath]; rfl
  have hsnapref : new.snap = ⟨snapshotPath r, snapshotFile r⟩ := by rw [← hnew]; rfl
  have hrefs3 : ∀ (fs' : RrdpFs), fs'.get? notifPath = some (.notif new) →
      fs'.get? (snapshotPath r) = some (.data (snapshotFile r)) →
      (∀ x ∈ new.deltas, fs'.get? x.2.path = some (.data x.2.data)) → fs'.consistent = true := by
    intro fs' h1 h2 h3
    rw [consistent_iff]
    refine Or.inr ⟨new, h1, ?_, ?_⟩
    · rw [refOk_iff, hsnapref]; exact h2
    · intro d hd; rw [refOk_iff]; exact h3 d hd
  have hc3 : fs3.consistent = true :=
    hrefs3 fs3 hnotif3 (hdata3 _ _ rfl hsnap1) (fun x hx => hdata3 _ _ (hdlen x hx) (hdel1 x hx))
  -- the writes as one list
  have hwrites : ∀ (l : List Mut),
      fs.applyAll (DW.map (fun e => Mut.create e.1 (.data e.2)) ++ l) = fs1.applyAll l := by
    intro l; rw [applyAll_append_rrdp, hfs1]
  have hall : fs.applyAll (DW.map (fun e => Mut.create e.1 (.data e.2)) ++
      [.create newNotifPath (.notif new), .rename newNotifPath notifPath]) = fs3 := by
    rw [hwrites]
    simp only [RrdpFs.applyAll, List.foldl_cons, List.foldl_nil, hstep2, hstep3]
  have hnewid : new.session = r.session ∧ new.serial = r.serial := by rw [← hnew]; exact ⟨rfl, rfl⟩
  have hdone3 : ∃ n, fs3.get? notifPath = some (.notif n) ∧ n.session = r.session ∧
      n.serial = r.serial := ⟨new, hnotif3, hnewid.1, hnewid.2⟩
  rcases matchLog_ordered Mut.sig _ _ _ _ _ hm with ⟨n, _, rfl, hrest⟩ | ⟨cs, log', rfl, hcs⟩
  · -- interrupted during the writes
    rcases take_append_two (DW.map (fun e => Mut.create e.1 (.data e.2)))
        (.create newNotifPath (.notif new)) (.rename newNotifPath notifPath) n with
      ⟨k, hk⟩ | hk | hk
    · rw [hk, ← List.map_take]
      obtain ⟨h1, _, h3, _, _⟩ := after_data_writes hpre hc (DW.take k)
        (fun e he => hsubDW e (List.mem_of_mem_take he))
      refine ⟨h1, Or.inl h3, fun hd => ?_⟩
      -- a complete run has performed the rename
      exfalso
      rw [hrest] at hd
      simp only [planDone, List.all_cons, Bool.and_eq_true, List.isEmpty_iff] at hd
      have h0 := congrArg List.length hd.1
      have h1' := congrArg List.length hk
      simp only [List.length_drop, List.length_nil, List.length_take, List.length_append,
        List.length_map, List.length_cons] at h0 h1'
      omega
    · rw [hk, hwrites]
      simp only [RrdpFs.applyAll, List.foldl_cons, List.foldl_nil, hstep2]
      refine ⟨hc2, Or.inl ?_, fun hd => ?_⟩
      · rw [hget2 _ (by decide)]; exact hnp1
      · exfalso
        rw [hrest] at hd
        simp only [planDone, List.all_cons, Bool.and_eq_true, List.isEmpty_iff] at hd
        have h0 := congrArg List.length hd.1
        have h1' := congrArg List.length hk
        simp only [List.length_drop, List.length_nil, List.length_take, List.length_append,
          List.length_map, List.length_cons] at h0 h1'
        omega
    · rw [hk, hall]; exact ⟨hc3, Or.inr hnotif3, fun _ => hdone3⟩
  · -- all writes done, some of the clean-up
    rw [applyAll_append_rrdp, hall]
    rw [hall] at hcs
    have hmem := matchLog_mem Mut.sig hcs
    -- protected paths keep their content
    have hprot : ∀ p, (p = notifPath ∨ p = snapshotPath r ∨ ∃ x ∈ new.deltas, p = x.2.path) →
        (fs3.applyAll cs).get? p = fs3.get? p := by
      intro p hp
      apply get?_applyAll_removals
      intro c hcmem
      obtain ⟨ph, hph, hcph⟩ := hmem c hcmem
      simp only [List.mem_cons, List.mem_nil_iff, or_false] at hph
      -- shape of a protected path
      have hshape : p = notifPath ∨
          (∃ k rnd nm, p = [.sess r.session, .num k, .rnd rnd, .name nm] ∧
            ((k = r.serial ∧ nm = "snapshot.xml") ∨
             (nm = "delta.xml" ∧ (r.deltas.getLast?.map (·.serial)).getD 0 ≤ k ∧
               k ≤ (r.deltas.head?.map (·.serial)).getD 0))) := by
        rcases hp with rfl | rfl | ⟨x, hx, rfl⟩
        · exact Or.inl rfl
        · exact Or.inr ⟨r.serial, r.snapRnd, "snapshot.xml", rfl, Or.inl ⟨rfl, rfl⟩⟩
        · rw [← hnew] at hx
          obtain ⟨⟨rnd, hpath⟩, hlo, hhi⟩ := newNotification_delta_shape hpre hx
          exact Or.inr ⟨x.1, rnd, "delta.xml", hpath, Or.inr ⟨rfl, hlo, hhi⟩⟩
      rcases hph with rfl | rfl
      · -- other sessions
        obtain ⟨s, rfl, hs, e, he, x, rest', hep⟩ := mem_cleanupSessions hcph
        refine ⟨rfl, ?_⟩
        rcases hshape with rfl | ⟨k, rnd, nm, rfl, _⟩
        · simp only [Mut.removes, notifPath, List.isPrefixOf, Bool.and_true, beq_eq_false_iff_ne, ne_eq]
          intro hsn
          subst hsn
          -- a path below notification.xml: impossible
          have he0 : e ∈ fs.applyAll (DW.map (fun e => Mut.create e.1 (.data e.2)) ++
              [.create newNotifPath (.notif new), .rename newNotifPath notifPath]) := by
            rw [hall]; exact he
          rcases mem_applyAll_path _ he0 with ⟨e', he', hp'⟩ | ⟨m, hmm, ht⟩
          · have := hpre.flat e' he' (by rw [hp', hep]; rfl)
            rw [hp', hep] at this
            simp [notifPath] at this
          · rw [hep] at ht
            simp only [List.mem_append, List.mem_map, List.mem_cons, List.mem_nil_iff, or_false] at hmm
            rcases hmm with ⟨e0, he0, rfl⟩ | rfl | rfl
            · simp only [Mut.target, Option.some.injEq] at ht
              have := safeSet_path_len (hsubDW e0 he0)
              obtain ⟨hd0, _⟩ : e0.1.head? = some (.name "notification.xml") ∧ True := by
                rw [ht]; exact ⟨rfl, trivial⟩
              have hmemS := hsubDW e0 he0
              unfold safeSetOf at hmemS
              rcases List.mem_cons.mp hmemS with rfl | hmemS
              · simp [snapshotPath] at hd0
              · obtain ⟨d, _, rfl⟩ := List.mem_map.mp hmemS
                simp [deltaPath] at hd0
            · simp [Mut.target, newNotifPath] at ht
            · simp [Mut.target, notifPath] at ht
        · simp only [Mut.removes, List.isPrefixOf, Bool.and_true, beq_eq_false_iff_ne, ne_eq]
          exact hs
      · -- entries of the session directory
        rcases mem_cleanupSerials hcph with ⟨n, hn, hrange, hc'⟩ | ⟨n, x, hn, rfl⟩ | ⟨s, hs, rfl⟩
        · rcases hshape with rfl | ⟨k, rnd, nm, rfl, hk⟩
          · rcases hc' with rfl | rfl <;> exact ⟨rfl, by simp [Mut.removes, notifPath, List.isPrefixOf]⟩
          · have hnk : n ≠ k := by
              rcases hk with ⟨rfl, _⟩ | ⟨_, hlo, hhi⟩
              · exact hn
              · omega
            rcases hc' with rfl | rfl
            · exact ⟨rfl, by simp [Mut.removes, List.isPrefixOf, hnk]⟩
            · exact ⟨rfl, by simp [Mut.removes]⟩
        · rcases hshape with rfl | ⟨k, rnd, nm, rfl, hk⟩
          · exact ⟨rfl, by simp [Mut.removes, notifPath]⟩
          · refine ⟨rfl, ?_⟩
            simp only [Mut.removes, beq_eq_false_iff_ne, ne_eq, List.cons.injEq, Seg.num.injEq,
              Seg.name.injEq, and_true, true_and, not_and]
            intro hkn _
            rcases hk with ⟨rfl, _⟩ | ⟨rfl, _⟩
            · exact absurd hkn.symm hn
            · decide
        · rcases hshape with rfl | ⟨k, rnd, nm, rfl, _⟩
          · exact ⟨rfl, by simp [Mut.removes, notifPath, List.isPrefixOf]⟩
          · refine ⟨rfl, ?_⟩
            have := hs k
            simp only [Mut.removes, List.isPrefixOf, beq_self_eq_true, Bool.true_and, Bool.and_true,
              beq_eq_false_iff_ne, ne_eq]
            exact this
    have hnp : (fs3.applyAll cs).get? notifPath = some (.notif new) := by
      rw [hprot _ (Or.inl rfl)]; exact hnotif3
    refine ⟨?_, Or.inr hnp, fun _ => ⟨new, hnp, hnewid.1, hnewid.2⟩⟩
    apply hrefs3
    · exact hnp
    · rw [hprot _ (Or.inr (Or.inl rfl))]; exact hdata3 _ _ rfl hsnap1
    · intro x hx
      rw [hprot _ (Or.inr (Or.inr ⟨x, hx, rfl⟩))]
      exact hdata3 _ _ (hdlen x hx) (hdel1 x hx)

theorem rrdp_cut_consistent {r : Rrdp} {fs : RrdpFs} (hpre : RrdpPre r fs)
    (hc : fs.consistent = true) {log : List Sig} {ms : List Mut} {rest : Plan}
    (hm : matchLog Mut.sig (rrdpPlan r fs) log = some (ms, rest)) :
    (fs.applyAll ms).consistent = true :=
  (rrdp_cut_facts hpre hc hm).1

/-! ## retention by number: for which configurations the bound holds -/

/-- While the first arm of the loop applies (fewer than `min_nr` kept, or the delta is young)
everything is kept. -/
theorem truncLoop_first_arm (minNr maxNr : Nat) (young old : Bool) :
    ∀ (n keep : Nat), (young = true ∨ keep + n ≤ minNr) →
      truncLoop minNr maxNr keep (List.replicate n (young, old)) = keep + n := by
  intro n
  induction n with
  | zero => intro keep _; simp [truncLoop]
  | succ n ih =>
    intro keep h
    rw [List.replicate_succ]
    simp only [truncLoop]
    have hc : (decide (keep < minNr) || young) = true := by
      rcases h with h | h
      · simp [h]
      · have : keep < minNr := by omega
        simp [this]
    rw [if_pos hc, ih (keep + 1) (by rcases h with h | h; exact Or.inl h; exact Or.inr (by omega))]
    omega

theorem deleteFiles_deltas (r : Rrdp) (del : Uri) :
    (r.deleteFiles del).deltas = r.deltas ∧ (r.deleteFiles del).serial = r.serial ∧
    (r.deleteFiles del).session = r.session := by
  unfold Rrdp.deleteFiles
  have gen : ∀ (l : List Handle) (acc : Rrdp),
      let res := l.foldl (fun acc h =>
        let w := matchingWithdraws (r.objectsFor h) del
        if w.isEmpty then acc else acc.stage h w) acc
      res.deltas = acc.deltas ∧ res.serial = acc.serial ∧ res.session = acc.session := by
    intro l
    induction l with
    | nil => intro acc; exact ⟨rfl, rfl, rfl⟩
    | cons h t ih =>
      intro acc
      simp only [List.foldl_cons]
      split
      · exact ih acc
      · exact ih _
  exact gen r.publishers r

/-- Under the guard `min_nr + 1 ≤ max_nr` and with no retained delta younger than `min_seconds`,
an RRDP update keeps the number of deltas within `max_nr`. -/
theorem update_deltas_le {s : Server} (c : Cfg) (hc : s.cfg = c) (hmin : c.minNr + 1 ≤ c.maxNr)
    (hy : c.young = false) (rnd : Nat) (hb : s.rrdp.deltas.length ≤ c.maxNr) :
    (s.update rnd).1.rrdp.deltas.length ≤ c.maxNr ∧ (s.update rnd).1.cfg = c := by
  subst hc
  unfold Server.update
  split
  · exact ⟨hb, rfl⟩
  · split
    · exact ⟨hb, rfl⟩
    · refine ⟨?_, rfl⟩
      have hle : findTruncateAge s.cfg.minNr s.cfg.maxNr s.ages ≤ s.cfg.maxNr - 1 := by
        apply truncLoop_le _ _ hmin _ 0 (Nat.zero_le _)
        intro j a hj _
        unfold Server.ages at hj
        rw [List.getElem?_map] at hj
        cases hd : s.rrdp.deltas[j]? with
        | none => rw [hd] at hj; cases hj
        | some d => rw [hd] at hj; simp only [Option.map_some, Option.some.injEq] at hj; rw [← hj]; exact hy
      show (List.take _ (_ :: s.rrdp.deltas.take _)).length ≤ s.cfg.maxNr
      rw [List.length_take]
      have : (s.rrdp.deltas.take (findTruncateAge s.cfg.minNr s.cfg.maxNr s.ages)).length ≤
          findTruncateAge s.cfg.minNr s.cfg.maxNr s.ages := by
        rw [List.length_take]; exact Nat.min_le_left _ _
      simp only [List.length_cons]
      omega

theorem step_deltas_le {s : Server} (hmin : s.cfg.minNr + 1 ≤ s.cfg.maxNr)
    (hy : s.cfg.young = false) (hb : s.rrdp.deltas.length ≤ s.cfg.maxNr) (op : Op) :
    (s.step op).rrdp.deltas.length ≤ s.cfg.maxNr ∧ (s.step op).cfg = s.cfg := by
  cases op with
  | addpub h =>
    simp only [Server.step, Server.addPublisher]
    cases publisherBase s.base h with
    | none => exact ⟨hb, rfl⟩
    | some jail =>
      simp only
      split
      · exact ⟨hb, rfl⟩
      · refine ⟨?_, rfl⟩
        show (s.rrdp.publisherAdded h).deltas.length ≤ _
        unfold Rrdp.publisherAdded; split <;> exact hb
  | rmpub h =>
    have : (s.removePublisher h).1.rrdp = s.rrdp.removePublisher h ∧
        (s.removePublisher h).1.cfg = s.cfg := by
      unfold Server.removePublisher; simp only; split <;> exact ⟨rfl, rfl⟩
    simp only [Server.step]
    rw [this.1, this.2]
    refine ⟨?_, rfl⟩
    unfold Rrdp.removePublisher
    simp only
    split <;> exact hb
  | publish h d =>
    simp only [Server.step, Server.publish]
    cases s.jail? h with
    | none => exact ⟨hb, rfl⟩
    | some jail =>
      simp only
      split
      · exact ⟨hb, rfl⟩
      · cases verifyDelta (s.rrdp.objectsFor h) jail d with
        | some e => exact ⟨hb, rfl⟩
        | none => exact ⟨hb, rfl⟩
  | update rnd => exact update_deltas_le s.cfg rfl hmin hy rnd hb
  | reset session rnd => exact ⟨Nat.zero_le _, rfl⟩
  | delete del rndOf =>
    simp only [Server.step, Server.delete]
    have h1 := update_deltas_le s.cfg rfl hmin hy (rndOf (s.rrdp.serial + 1)) hb
    generalize s.update (rndOf (s.rrdp.serial + 1)) = p1 at h1
    obtain ⟨s1, r1⟩ := p1
    simp only at h1 ⊢
    obtain ⟨hb1, hc1⟩ := h1
    split
    · exact ⟨hb1, hc1⟩
    · exact update_deltas_le (s := { s1 with rrdp := s1.rrdp.deleteFiles del }) s.cfg hc1 hmin hy _
        (by show (s1.rrdp.deleteFiles del).deltas.length ≤ _
            rw [(deleteFiles_deltas s1.rrdp del).1]; exact hb1)

theorem run_deltas_le : ∀ (ops : List Op) (s : Server), s.cfg.minNr + 1 ≤ s.cfg.maxNr →
    s.cfg.young = false → s.rrdp.deltas.length ≤ s.cfg.maxNr →
    (s.run ops).rrdp.deltas.length ≤ s.cfg.maxNr := by
  intro ops
  induction ops with
  | nil => intro s _ _ hb; exact hb
  | cons op t ih =>
    intro s hmin hy hb
    obtain ⟨h1, h2⟩ := step_deltas_le hmin hy hb op
    have := ih (s.step op) (by rw [h2]; exact hmin) (by rw [h2]; exact hy) (by rw [h2]; exact h1)
    rw [h2] at this
    simpa [Server.run] using this

/-! ## histories of requests and (interrupted) writes: what the files always satisfy -/

/-- No file of the current session belongs to a serial beyond the current one. -/
def FsBound (r : Rrdp) (fs : RrdpFs) : Prop :=
  ∀ e ∈ fs, ∀ n rest, e.1 = .sess r.session :: .num n :: rest → n ≤ r.serial

/-- The part of the file invariant that every single mutation of the writer keeps. -/
structure FsInv (r : Rrdp) (fs : RrdpFs) : Prop where
  safe : ∀ e ∈ safeSetOf r, ∀ c, fs.get? e.1 = some c → c = .data e.2
  flat : ∀ e ∈ fs, e.1.head? = some (.name "notification.xml") → e.1 = notifPath
  bound : FsBound r fs

/-- The mutations `update_rrdp_files` performs. -/
def MutClass (r : Rrdp) (m : Mut) : Prop :=
  (∃ e ∈ safeSetOf r, m = .create e.1 (.data e.2)) ∨ (∃ n, m = .create newNotifPath (.notif n)) ∨
  m = .rename newNotifPath notifPath ∨ m.isRemoval = true

theorem mem_rrdpPlan_class {r : Rrdp} {fs : RrdpFs} {ph : Bool × List Mut} (hph : ph ∈ rrdpPlan r fs)
    {m : Mut} (hm : m ∈ ph.2) : MutClass r m := by
  unfold rrdpPlan at hph
  have from_ : ∀ old, ph ∈ rrdpPlan.rrdpPlanFrom r fs old → MutClass r m := by
    intro old h
    rw [rrdpPlanFrom_eq] at h
    simp only [List.mem_cons, List.mem_nil_iff, or_false] at h
    rcases h with rfl | rfl | rfl
    · simp only [List.mem_append, List.mem_map, List.mem_cons, List.mem_nil_iff, or_false] at hm
      rcases hm with ⟨e, he, rfl⟩ | rfl | rfl
      · exact Or.inl ⟨e, dataWrites_sub r old e he, rfl⟩
      · exact Or.inr (Or.inl ⟨_, rfl⟩)
      · exact Or.inr (Or.inr (Or.inl rfl))
    · obtain ⟨s, rfl, _⟩ := mem_cleanupSessions hm
      exact Or.inr (Or.inr (Or.inr rfl))
    · rcases mem_cleanupSerials hm with ⟨n, _, _, rfl | rfl⟩ | ⟨n, x, _, rfl⟩ | ⟨s, _, rfl⟩ <;>
        exact Or.inr (Or.inr (Or.inr rfl))
  cases hn : fs.notification with
  | none => rw [hn] at hph; exact from_ _ hph
  | some n =>
    rw [hn] at hph
    simp only at hph
    split at hph
    · cases hph
    · exact from_ _ hph

theorem get?_apply_removal_some {fs : RrdpFs} {m : Mut} (hr : m.isRemoval = true) {p : Path}
    {c : FileC} (h : (fs.apply m).get? p = some c) : fs.get? p = some c := by
  cases m with
  | create q c' => simp [Mut.isRemoval] at hr
  | rename a b => simp [Mut.isRemoval] at hr
  | removeTree q =>
    simp only [RrdpFs.apply, RrdpFs.get?_removeTree] at h
    split at h
    · cases h
    · exact h
  | removeFile q =>
    simp only [RrdpFs.apply, RrdpFs.get?_remove] at h
    split at h
    · cases h
    · exact h
  | removeAny q =>
    simp only [RrdpFs.apply, RrdpFs.get?_removeTree] at h
    split at h
    · cases h
    · exact h

theorem safeSet_shape {r : Rrdp} (hc : Contig r) {e : Path × DataFile} (he : e ∈ safeSetOf r) :
    ∃ k rnd nm, e.1 = [.sess r.session, .num k, .rnd rnd, .name nm] ∧ k ≤ r.serial := by
  unfold safeSetOf at he
  rcases List.mem_cons.mp he with rfl | he
  · exact ⟨r.serial, r.snapRnd, "snapshot.xml", rfl, Nat.le_refl _⟩
  · obtain ⟨d, hd, rfl⟩ := List.mem_map.mp he
    exact ⟨d.serial, d.rnd, "delta.xml", rfl, contigFrom_le hc.2 hd⟩

theorem FsInv.apply {r : Rrdp} {fs : RrdpFs} (hc : Contig r) (hfunc : ∀ e ∈ safeSetOf r,
    ∀ e' ∈ safeSetOf r, e.1 = e'.1 → e.2 = e'.2) (hi : FsInv r fs) {m : Mut} (hm : MutClass r m) :
    FsInv r (fs.apply m) := by
  -- paths of the new file system
  have hpaths : ∀ e ∈ fs.apply m, (∃ e' ∈ fs, e'.1 = e.1) ∨ m.target = some e.1 :=
    fun e he => mem_apply_path he
  rcases hm with ⟨e0, he0, rfl⟩ | ⟨n, rfl⟩ | rfl | hrem
  · obtain ⟨k, rnd, nm, hp0, hk⟩ := safeSet_shape hc he0
    refine ⟨?_, ?_, ?_⟩
    · intro e he c hg
      rw [apply_create_data, RrdpFs.get?_set] at hg
      by_cases hp : e.1 = e0.1
      · simp only [hp, ↓reduceIte, Option.some.injEq] at hg
        rw [← hg, hfunc e he e0 he0 hp]
      · simp only [hp, ↓reduceIte] at hg
        exact hi.safe e he c hg
    · intro e he hh
      rcases hpaths e he with ⟨e', he', hp⟩ | ht
      · rw [← hp]; exact hi.flat e' he' (by rw [hp]; exact hh)
      · simp only [Mut.target, Option.some.injEq] at ht
        rw [← ht, hp0] at hh; simp at hh
    · intro e he n rest hp
      rcases hpaths e he with ⟨e', he', hp'⟩ | ht
      · exact hi.bound e' he' n rest (hp'.trans hp)
      · simp only [Mut.target, Option.some.injEq] at ht
        rw [← ht, hp0] at hp
        simp only [List.cons.injEq, Seg.num.injEq, true_and] at hp
        rw [← hp.1]; exact hk
  · refine ⟨?_, ?_, ?_⟩
    · intro e he c hg
      have hlen := safeSet_path_len he
      simp only [RrdpFs.apply] at hg
      rw [RrdpFs.get?_set] at hg
      have : e.1 ≠ newNotifPath := by intro h; rw [h] at hlen; simp [newNotifPath] at hlen
      simp only [this, ↓reduceIte] at hg
      exact hi.safe e he c hg
    · intro e he hh
      rcases hpaths e he with ⟨e', he', hp⟩ | ht
      · rw [← hp]; exact hi.flat e' he' (by rw [hp]; exact hh)
      · simp only [Mut.target, Option.some.injEq] at ht
        rw [← ht] at hh; simp [newNotifPath] at hh
    · intro e he n' rest hp
      rcases hpaths e he with ⟨e', he', hp'⟩ | ht
      · exact hi.bound e' he' n' rest (hp'.trans hp)
      · simp only [Mut.target, Option.some.injEq] at ht
        rw [← ht] at hp; simp [newNotifPath] at hp
  · refine ⟨?_, ?_, ?_⟩
    · intro e he c hg
      have hlen := safeSet_path_len he
      have h1 : e.1 ≠ newNotifPath := by intro h; rw [h] at hlen; simp [newNotifPath] at hlen
      have h2 : e.1 ≠ notifPath := by intro h; rw [h] at hlen; simp [notifPath] at hlen
      simp only [RrdpFs.apply] at hg
      cases hsrc : fs.get? newNotifPath with
      | none => rw [hsrc] at hg; exact hi.safe e he c hg
      | some c0 =>
        rw [hsrc] at hg
        simp only at hg
        rw [RrdpFs.get?_set, RrdpFs.get?_remove] at hg
        simp only [h1, h2, ↓reduceIte] at hg
        exact hi.safe e he c hg
    · intro e he hh
      rcases hpaths e he with ⟨e', he', hp⟩ | ht
      · rw [← hp]; exact hi.flat e' he' (by rw [hp]; exact hh)
      · simp only [Mut.target, Option.some.injEq] at ht
        exact ht.symm
    · intro e he n' rest hp
      rcases hpaths e he with ⟨e', he', hp'⟩ | ht
      · exact hi.bound e' he' n' rest (hp'.trans hp)
      · simp only [Mut.target, Option.some.injEq] at ht
        rw [← ht] at hp; simp [notifPath] at hp
  · have hsub : ∀ e ∈ fs.apply m, e ∈ fs := by
      intro e he
      rcases hpaths e he with ⟨e', _, _⟩ | ht
      · cases m with
        | create q c' => simp [Mut.isRemoval] at hrem
        | rename a b => simp [Mut.isRemoval] at hrem
        | removeTree q => exact (List.mem_filter.mp he).1
        | removeFile q => exact (List.mem_filter.mp he).1
        | removeAny q => exact (List.mem_filter.mp he).1
      · cases m <;> simp [Mut.isRemoval] at hrem <;> simp [Mut.target] at ht
    exact ⟨fun e he c hg => hi.safe e he c (get?_apply_removal_some hrem hg),
      fun e he hh => hi.flat e (hsub e he) hh,
      fun e he n rest hp => hi.bound e (hsub e he) n rest hp⟩

theorem FsInv.applyAll {r : Rrdp} (hc : Contig r) (hfunc : ∀ e ∈ safeSetOf r,
    ∀ e' ∈ safeSetOf r, e.1 = e'.1 → e.2 = e'.2) : ∀ (ms : List Mut) {fs : RrdpFs},
    FsInv r fs → (∀ m ∈ ms, MutClass r m) → FsInv r (fs.applyAll ms) := by
  intro ms
  induction ms with
  | nil => intro fs hi _; exact hi
  | cons m t ih =>
    intro fs hi hcl
    unfold RrdpFs.applyAll
    rw [List.foldl_cons]
    exact ih (hi.apply hc hfunc (hcl m (by simp))) (fun x hx => hcl x (by simp [hx]))

theorem RrdpFs.get?_some_mem {fs : RrdpFs} {p : Path} {c : FileC} (h : fs.get? p = some c) :
    (p, c) ∈ fs := by
  induction fs with
  | nil => simp [RrdpFs.get?] at h
  | cons a t ih =>
    rw [RrdpFs.get?_cons] at h
    by_cases hp : p = a.1
    · simp only [hp, ↓reduceIte, Option.some.injEq] at h
      subst h; subst hp; simp
    · simp only [hp, ↓reduceIte] at h
      exact List.mem_cons_of_mem _ (ih h)

/-- A session id that no file and no notification on disk uses (session ids are random UUIDs). -/
def SessionFresh (s : Nat) (fs : RrdpFs) : Prop :=
  (∀ e ∈ fs, e.1.head? ≠ some (.sess s)) ∧ ∀ n, fs.notification = some n → n.session ≠ s

/-- The invariant relating the state of the RRDP server and the files below `rrdp/`. -/
structure FInv (r : Rrdp) (fs : RrdpFs) : Prop where
  pre : RrdpPre r fs
  cons : fs.consistent = true
  bound : FsBound r fs

theorem FInv.empty (session rnd : Nat) : FInv (Rrdp.create session rnd) [] := by
  refine ⟨⟨?_, ?_, Contig.create session rnd, ?_, ?_⟩, rfl, ?_⟩
  · intro n hn; simp [RrdpFs.notification, RrdpFs.get?] at hn
  · intro n hn; simp [RrdpFs.notification, RrdpFs.get?] at hn
  · intro e _ c hc; simp [RrdpFs.get?] at hc
  · intro e he; cases he
  · intro e he; cases he

theorem safeSetOf_publisherAdded (r : Rrdp) (h : Handle) :
    safeSetOf (r.publisherAdded h) = safeSetOf r := by
  have hfl := flatten_publisherAdded r h
  unfold Rrdp.publisherAdded at hfl ⊢
  split
  · rfl
  · rename_i hn
    simp only [hn, Bool.false_eq_true, ↓reduceIte] at hfl
    unfold safeSetOf snapshotPath snapshotFile
    simp only [hfl]

theorem FInv.rstep {r : Rrdp} {fs : RrdpFs} (hi : FInv r fs) (rop : RrdpOp)
    (hnr : ∀ s rnd, rop ≠ .reset s rnd) : FInv (r.step rop) fs := by
  obtain ⟨⟨hshape, hpast, hcontig, hsafe, hflat⟩, hcons, hbound⟩ := hi
  cases rop with
  | added h =>
    have hs : (r.publisherAdded h).session = r.session ∧ (r.publisherAdded h).serial = r.serial := by
      unfold Rrdp.publisherAdded; split <;> exact ⟨rfl, rfl⟩
    refine ⟨⟨hshape, ?_, hcontig.step (.added h), ?_, hflat⟩, hcons, ?_⟩
    · intro n hn hsess d hd
      show d.1 ≤ (r.publisherAdded h).serial
      rw [hs.2]; exact hpast n hn (hsess.trans hs.1) d hd
    · show ∀ e ∈ safeSetOf (r.publisherAdded h), _
      rw [safeSetOf_publisherAdded]; exact hsafe
    · intro e he n rest hp
      show n ≤ (r.publisherAdded h).serial
      rw [hs.2]
      exact hbound e he n rest (by rw [hp]; show _ = Seg.sess r.session :: _; rw [← hs.1]; rfl)
  | stage h d => exact ⟨⟨hshape, hpast, hcontig, hsafe, hflat⟩, hcons, hbound⟩
  | update t rnd =>
    refine ⟨⟨hshape, ?_, hcontig.step (.update t rnd), ?_, hflat⟩, hcons, ?_⟩
    · intro n hn hsess d hd
      exact Nat.le_succ_of_le (hpast n hn hsess d hd)
    · intro e he c hg
      -- a file at a path of the new serial does not exist
      have hnew : ∀ (rest : List Seg), e.1 = .sess r.session :: .num (r.serial + 1) :: rest → False := by
        intro rest hp
        have hmem := RrdpFs.get?_some_mem hg
        have := hbound (e.1, c) hmem (r.serial + 1) rest hp
        omega
      unfold safeSetOf at he
      rcases List.mem_cons.mp he with rfl | he
      · exact (hnew _ rfl).elim
      · obtain ⟨d, hd, rfl⟩ := List.mem_map.mp he
        have hd' : d ∈ (⟨r.serial + 1, rnd, stagedElems r.staged⟩ : DeltaRec) :: r.deltas.take t :=
          List.mem_of_mem_take hd
        rcases List.mem_cons.mp hd' with rfl | hd'
        · exact (hnew _ rfl).elim
        · apply hsafe (deltaPath r.session d, deltaFile r.session d) _ c hg
          unfold safeSetOf
          exact List.mem_cons_of_mem _ (List.mem_map.mpr ⟨d, List.mem_of_mem_take hd', rfl⟩)
    · intro e he n rest hp
      exact Nat.le_succ_of_le (hbound e he n rest hp)
  | reset s rnd => exact absurd rfl (hnr s rnd)

theorem FInv.reset {r : Rrdp} {fs : RrdpFs} (hi : FInv r fs) (s rnd : Nat) (hf : SessionFresh s fs) :
    FInv (r.sessionReset s rnd) fs := by
  obtain ⟨⟨hshape, _, _, _, hflat⟩, hcons, _⟩ := hi
  refine ⟨⟨hshape, ?_, ⟨Nat.one_pos, trivial⟩, ?_, hflat⟩, hcons, ?_⟩
  · intro n hn hsess; exact absurd hsess (hf.2 n hn)
  · intro e he c hg
    exfalso
    have hmem := RrdpFs.get?_some_mem hg
    have : e.1.head? = some (.sess s) := by
      unfold safeSetOf at he
      rcases List.mem_cons.mp he with rfl | he
      · rfl
      · obtain ⟨d, hd, _⟩ := List.mem_map.mp he
        cases hd
    exact hf.1 (e.1, c) hmem this
  · intro e he n rest hp
    exfalso
    exact hf.1 e he (by rw [hp]; rfl)

theorem notification_congr {fs fs' : RrdpFs} (h : fs'.get? notifPath = fs.get? notifPath) :
    fs'.notification = fs.notification := by
  unfold RrdpFs.notification; rw [h]

/-- An interrupted or complete run of `update_rrdp_files` keeps the invariant. -/
theorem FInv.write {r : Rrdp} {fs : RrdpFs} (hi : FInv r fs) {log : List Sig} {ms : List Mut}
    {rest : Plan} (hm : matchLog Mut.sig (rrdpPlan r fs) log = some (ms, rest)) :
    FInv r (fs.applyAll ms) := by
  obtain ⟨hcons', hnotif, _⟩ := rrdp_cut_facts hi.pre hi.cons hm
  have hfi : FInv.pre hi = hi.pre := rfl
  have hclass : ∀ m ∈ ms, MutClass r m := by
    intro m hmm
    obtain ⟨ph, hph, hmem⟩ := matchLog_mem Mut.sig hm m hmm
    exact mem_rrdpPlan_class hph hmem
  have hfs := FsInv.applyAll hi.pre.contig (safeSet_of_pre hi.pre).func ms
    ⟨hi.pre.safe, hi.pre.flat, hi.bound⟩ hclass
  refine ⟨⟨?_, ?_, hi.pre.contig, hfs.safe, hfs.flat⟩, hcons', hfs.bound⟩
  · intro n hn
    rcases hnotif with h | h
    · exact hi.pre.shape n (by rw [← notification_congr h]; exact hn)
    · have : n = newNotification r fs.notification := by
        unfold RrdpFs.notification at hn; rw [h] at hn; exact (Option.some.inj hn).symm
      subst this
      refine ⟨⟨r.snapRnd, rfl⟩, fun d hd => ?_⟩
      obtain ⟨⟨rnd, hp⟩, _, _⟩ := newNotification_delta_shape hi.pre hd
      exact ⟨rnd, hp⟩
  · intro n hn hsess d hd
    rcases hnotif with h | h
    · exact hi.pre.past n (by rw [← notification_congr h]; exact hn) hsess d hd
    · have : n = newNotification r fs.notification := by
        unfold RrdpFs.notification at hn; rw [h] at hn; exact (Option.some.inj hn).symm
      subst this
      rcases mem_newNotification_deltas hd with ⟨x, hx, rfl⟩ | hre
      · exact contigFrom_le hi.pre.contig.2 (mem_deltasToWrite hx)
      · obtain ⟨n0, hn0, hs0, hmem, _, _⟩ := mem_reusable hre
        exact hi.pre.past n0 hn0 hs0 d hmem

theorem deleteFiles_fields (r : Rrdp) (del : Uri) :
    (r.deleteFiles del).deltas = r.deltas ∧ (r.deleteFiles del).serial = r.serial ∧
    (r.deleteFiles del).session = r.session ∧ (r.deleteFiles del).snapRnd = r.snapRnd ∧
    (r.deleteFiles del).snapshot = r.snapshot := by
  unfold Rrdp.deleteFiles
  have gen : ∀ (l : List Handle) (acc : Rrdp),
      let res := l.foldl (fun acc h =>
        let w := matchingWithdraws (r.objectsFor h) del
        if w.isEmpty then acc else acc.stage h w) acc
      res.deltas = acc.deltas ∧ res.serial = acc.serial ∧ res.session = acc.session ∧
        res.snapRnd = acc.snapRnd ∧ res.snapshot = acc.snapshot := by
    intro l
    induction l with
    | nil => intro acc; exact ⟨rfl, rfl, rfl, rfl, rfl⟩
    | cons h t ih =>
      intro acc
      simp only [List.foldl_cons]
      split
      · exact ih acc
      · exact ih _
  exact gen r.publishers r

theorem FInv.congr {r r' : Rrdp} {fs : RrdpFs} (h1 : r'.session = r.session)
    (h2 : r'.serial = r.serial) (h3 : r'.deltas = r.deltas) (h4 : r'.snapRnd = r.snapRnd)
    (h5 : r'.snapshot = r.snapshot) (hi : FInv r fs) : FInv r' fs := by
  have hsafe : safeSetOf r' = safeSetOf r := by
    unfold safeSetOf snapshotPath snapshotFile
    rw [h1, h2, h3, h4, h5]
  obtain ⟨⟨hshape, hpast, hcontig, hsafe', hflat⟩, hcons, hbound⟩ := hi
  refine ⟨⟨hshape, ?_, ?_, ?_, hflat⟩, hcons, ?_⟩
  · intro n hn hs d hd; rw [h2]; exact hpast n hn (hs.trans h1) d hd
  · unfold Contig; rw [h2, h3]; exact hcontig
  · rw [hsafe]; exact hsafe'
  · intro e he n rest hp; rw [h2]; exact hbound e he n rest (by rw [hp, h1])

theorem FInv.update {s : Server} {fs : RrdpFs} (hi : FInv s.rrdp fs) (rnd : Nat) :
    FInv (s.update rnd).1.rrdp fs := by
  unfold Server.update
  split
  · exact hi
  · split
    · exact hi
    · exact hi.rstep (.update _ rnd) (fun _ _ h => nomatch h)

/-- Requests keep the file invariant (a session reset must choose a fresh session id). -/
theorem FInv.server_step {s : Server} {fs : RrdpFs} (hi : FInv s.rrdp fs) (op : Op)
    (hfresh : ∀ sess rnd, op = .reset sess rnd → SessionFresh sess fs) :
    FInv (s.step op).rrdp fs := by
  cases op with
  | addpub h =>
    simp only [Server.step, Server.addPublisher]
    cases publisherBase s.base h with
    | none => exact hi
    | some jail =>
      simp only
      split
      · exact hi
      · exact hi.rstep (.added h) (fun _ _ hh => nomatch hh)
  | rmpub h =>
    have : (s.removePublisher h).1.rrdp = s.rrdp.removePublisher h := by
      unfold Server.removePublisher; simp only; split <;> rfl
    simp only [Server.step, this, Rrdp.removePublisher]
    split
    · exact hi
    · exact hi.rstep (.stage h _) (fun _ _ hh => nomatch hh)
  | publish h d =>
    simp only [Server.step, Server.publish]
    cases s.jail? h with
    | none => exact hi
    | some jail =>
      simp only
      split
      · exact hi
      · cases verifyDelta (s.rrdp.objectsFor h) jail d with
        | some e => exact hi
        | none => exact hi.rstep (.stage h d) (fun _ _ hh => nomatch hh)
  | update rnd => exact hi.update rnd
  | reset sess rnd => exact hi.reset sess rnd (hfresh sess rnd rfl)
  | delete del rndOf =>
    simp only [Server.step, Server.delete]
    have h1 := hi.update (rndOf (s.rrdp.serial + 1))
    generalize s.update (rndOf (s.rrdp.serial + 1)) = p1 at h1
    obtain ⟨s1, r1⟩ := p1
    simp only at h1 ⊢
    split
    · exact h1
    · obtain ⟨q3, q2, q1, q4, q5⟩ := deleteFiles_fields s1.rrdp del
      exact FInv.update (s := { s1 with rrdp := s1.rrdp.deleteFiles del })
        (FInv.congr q1 q2 q3 q4 q5 h1) _

/-! ### the world: requests and interrupted writes -/

def EventOk (w : World) : Event → Prop
  | .req op => OpOk op ∧ ∀ sess rnd, op = .reset sess rnd → SessionFresh sess w.rfs
  | .write _ _ => True

/-- Every event of the history is admissible in the world it meets. -/
def World.Valid : World → List Event → Prop
  | _, [] => True
  | w, e :: es => EventOk w e ∧ World.Valid (w.step e) es

/-- The invariant of the world: the manager's invariant and the file invariant.  Nothing is
asked of the rsync directory. -/
structure WInv (w : World) : Prop where
  srv : SInv w.srv
  files : FInv w.srv.rrdp w.rfs

theorem WInv.init (base : Uri) (cfg : Cfg) (session rnd : Nat) :
    WInv (World.init base cfg session rnd) :=
  ⟨SInv.init base cfg session rnd, FInv.empty session rnd⟩

theorem World.write_srv (w : World) (rlog slog : List Sig) : (w.write rlog slog).srv = w.srv := by
  unfold World.write
  cases matchLog Mut.sig (rrdpPlan w.srv.rrdp w.rfs) rlog with
  | none => rfl
  | some p =>
    obtain ⟨ms, rest⟩ := p
    simp only
    split
    · cases matchLog RMut.sig (rsyncPlan w.sfs w.srv.base w.srv.rrdp.serial
        (flatten w.srv.rrdp.snapshot)) slog with
      | none => rfl
      | some q => rfl
    · rfl

/-- What a write event does to the RRDP files: nothing, or the mutations of a run of a prefix of
the plan. -/
theorem World.write_rfs (w : World) (rlog slog : List Sig) :
    (w.write rlog slog).rfs = w.rfs ∨
    ∃ ms rest, matchLog Mut.sig (rrdpPlan w.srv.rrdp w.rfs) rlog = some (ms, rest) ∧
      (w.write rlog slog).rfs = w.rfs.applyAll ms := by
  unfold World.write
  cases hm : matchLog Mut.sig (rrdpPlan w.srv.rrdp w.rfs) rlog with
  | none => exact Or.inl rfl
  | some p =>
    obtain ⟨ms, rest⟩ := p
    refine Or.inr ⟨ms, rest, rfl, ?_⟩
    simp only
    split
    · cases matchLog RMut.sig (rsyncPlan w.sfs w.srv.base w.srv.rrdp.serial
        (flatten w.srv.rrdp.snapshot)) slog with
      | none => rfl
      | some q => rfl
    · rfl

theorem WInv.step {w : World} (hi : WInv w) {e : Event} (hok : EventOk w e) : WInv (w.step e) := by
  cases e with
  | req op => exact ⟨hi.srv.step hok.1, hi.files.server_step op hok.2⟩
  | write rlog slog =>
    refine ⟨by show SInv (w.write rlog slog).srv; rw [World.write_srv]; exact hi.srv, ?_⟩
    show FInv (w.write rlog slog).srv.rrdp (w.write rlog slog).rfs
    rw [World.write_srv]
    rcases World.write_rfs w rlog slog with h | ⟨ms, rest, hm, h⟩
    · rw [h]; exact hi.files
    · rw [h]; exact hi.files.write hm

theorem WInv.run : ∀ (es : List Event) {w : World}, WInv w → World.Valid w es → WInv (w.run es) := by
  intro es
  induction es with
  | nil => intro w hi _; exact hi
  | cons e t ih =>
    intro w hi hv
    unfold World.run
    rw [List.foldl_cons]
    exact ih (hi.step hv.1) hv.2

end KM.Pubd
