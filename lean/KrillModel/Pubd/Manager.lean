/-
Model of `RepositoryManager` (`src/server/pubd/manager.rs`) on top of the access aggregate
(`access.rs`: registered publishers with their base URI) and the content aggregate
(`content.rs`: the commands `AddPublisher`, `RemovePublisher`, `Publish`, `CreateRrdpDelta`,
`DeleteMatchingFiles`, `ResetSession`).  File writing is in `Files.lean`.
-/
import KrillModel.Pubd.Rrdp
namespace KM.Pubd

/-- `RrdpUpdatesConfig`, with the clock-dependent tests answered per regime: `young` – every
retained delta is younger than `rrdp_delta_files_min_seconds`; `old` – every retained delta is
older than `rrdp_delta_files_max_seconds`; `neverDue` – the minimal interval between deltas has
not passed. -/
structure Cfg where
  minNr    : Nat
  maxNr    : Nat
  young    : Bool
  old      : Bool
  neverDue : Bool
deriving DecidableEq, Repr, Inhabited

structure Server where
  base   : Uri
  cfg    : Cfg
  /-- `RepositoryAccess.publishers`: handle and base URI (jail) -/
  access : List (Handle × Uri)
  rrdp   : Rrdp
deriving DecidableEq, Repr, Inhabited

def Server.jail? (s : Server) (h : Handle) : Option Uri := hget? s.access h

inductive Reply where
  | ok
  | unknown
  | dup
  | badBase
  | refused (e : DeltaErr)
deriving DecidableEq, Repr, Inhabited

/-- `create_publisher`: access first (base derivable, handle not taken), then content. -/
def Server.addPublisher (s : Server) (h : Handle) : Server × Reply :=
  match publisherBase s.base h with
  | none => (s, .badBase)
  | some jail =>
      if (s.jail? h).isSome then (s, .dup)
      else ({ s with access := hset s.access h jail, rrdp := s.rrdp.publisherAdded h }, .ok)

/-- The content command `RemovePublisher`: withdraws for everything the publisher has. -/
def Rrdp.removePublisher (r : Rrdp) (h : Handle) : Rrdp :=
  let objs := r.objectsFor h
  if objs.isEmpty then r else r.stage h (withdrawAll objs)

/-- `remove_publisher`: content first, then access (which fails for an unknown handle). -/
def Server.removePublisher (s : Server) (h : Handle) : Server × Reply :=
  let r := s.rrdp.removePublisher h
  if (s.jail? h).isSome then ({ s with access := herase s.access h, rrdp := r }, .ok)
  else ({ s with rrdp := r }, .unknown)

/-- `publish` = `rfc8181_message(Query::Delta)`: the publisher must be registered; an empty
delta changes nothing; otherwise verify against current ⊕ staged inside the jail, then
stage. -/
def Server.publish (s : Server) (h : Handle) (d : Delta) : Server × Reply :=
  match s.jail? h with
  | none => (s, .unknown)
  | some jail =>
      if d.isEmpty then (s, .ok)
      else match verifyDelta (s.rrdp.objectsFor h) jail d with
        | some e => (s, .refused e)
        | none => ({ s with rrdp := s.rrdp.stage h d }, .ok)

/-- `list` = `rfc8181_message(Query::List)`. -/
def Server.list (s : Server) (h : Handle) : Objs := s.rrdp.objectsFor h

inductive UpdRet where
  | done | none | later | panic
deriving DecidableEq, Repr, Inhabited

def Server.ages (s : Server) : List (Bool × Bool) := s.rrdp.deltas.map (fun _ => (s.cfg.young, s.cfg.old))

/-- `update_rrdp_if_needed` (state part). -/
def Server.update (s : Server) (rnd : Nat) : Server × UpdRet :=
  if !s.rrdp.hasStaged then (s, .none)
  else if s.cfg.neverDue then (s, .later)
  else ({ s with rrdp := s.rrdp.applyUpdated (findTruncateAge s.cfg.minNr s.cfg.maxNr s.ages) rnd }, .done)

/-- `rrdp_session_reset` (state part). -/
def Server.reset (s : Server) (session rnd : Nat) : Server :=
  { s with rrdp := s.rrdp.sessionReset session rnd }

/-- The content command `DeleteMatchingFiles`. -/
def Rrdp.deleteFiles (r : Rrdp) (del : Uri) : Rrdp :=
  r.publishers.foldl (fun acc h =>
    let w := matchingWithdraws (r.objectsFor h) del
    if w.isEmpty then acc else acc.stage h w) r

/-- `delete_matching_files` (state part): update, stage the withdraws, update again.  `rndOf`
gives the random component chosen for the delta of a serial.  The flag tells whether one of
the updates panicked (the earlier steps stay applied). -/
def Server.delete (s : Server) (del : Uri) (rndOf : Nat → Nat) : Server × Bool :=
  let (s1, r1) := s.update (rndOf (s.rrdp.serial + 1))
  if r1 == .panic then (s1, true)
  else
    let s2 := { s1 with rrdp := s1.rrdp.deleteFiles del }
    let (s3, r3) := s2.update (rndOf (s2.rrdp.serial + 1))
    (s3, r3 == .panic)

/-- `repo_stats().publishers`: number and approximate size of the objects per publisher. -/
def Server.stats (s : Server) : List (Handle × Nat × Nat) :=
  s.rrdp.publishers.map (fun h => let o := s.rrdp.objectsFor h; (h, o.length, o.size))

/-! ### the manager as a state machine (state part of every request) -/

inductive Op where
  | addpub (h : Handle)
  | rmpub (h : Handle)
  | publish (h : Handle) (d : Delta)
  | update (rnd : Nat)
  | reset (session rnd : Nat)
  | delete (del : Uri) (rndOf : Nat → Nat)

def Server.step (s : Server) : Op → Server
  | .addpub h => (s.addPublisher h).1
  | .rmpub h => (s.removePublisher h).1
  | .publish h d => (s.publish h d).1
  | .update rnd => (s.update rnd).1
  | .reset session rnd => s.reset session rnd
  | .delete del rndOf => (s.delete del rndOf).1

def Server.run (s : Server) (ops : List Op) : Server := ops.foldl Server.step s

/-- `RepositoryManager::init`. -/
def Server.init (base : Uri) (cfg : Cfg) (session rnd : Nat) : Server :=
  { base, cfg, access := [], rrdp := Rrdp.create session rnd }

end KM.Pubd
