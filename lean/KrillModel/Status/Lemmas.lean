/-
Helper lemmas for the status model (no property statements here, see `Props/C19.lean`).
-/
import KrillModel.Status.Status
namespace KM.Status

/-! ## association lists -/

theorem alookup_aset {α} (l : AList α) (k k' : String) (v : α) :
    alookup (aset l k v) k' = if k = k' then some v else alookup l k' := by
  induction l with
  | nil => simp [aset, alookup]
  | cons h t ih =>
    obtain ⟨hk, hv⟩ := h
    by_cases h1 : hk = k
    · subst h1
      by_cases h2 : hk = k' <;> simp [aset, alookup, h2]
    · have h1' : ¬ k = hk := fun h => h1 h.symm
      by_cases h2 : hk = k'
      · subst h2
        simp [aset, alookup, h1, h1']
      · simp [aset, alookup, h1, h2, ih]

theorem alookup_aerase {α} (l : AList α) (k k' : String) :
    alookup (aerase l k) k' = if k = k' then none else alookup l k' := by
  induction l with
  | nil => simp [aerase, alookup]
  | cons h t ih =>
    obtain ⟨hk, hv⟩ := h
    by_cases h1 : hk = k
    · subst h1
      by_cases h2 : hk = k'
      · subst h2; simp [aerase, ih]
      · simp [aerase, alookup, ih, h2]
    · have h1' : ¬ k = hk := fun h => h1 h.symm
      by_cases h2 : hk = k'
      · subst h2
        simp [aerase, alookup, h1, h1']
      · simp [aerase, alookup, h1, h2, ih]

theorem aerase_of_lookup_none {α} (l : AList α) (k : String) (h : alookup l k = none) :
    aerase l k = l := by
  induction l with
  | nil => rfl
  | cons hd t ih =>
    obtain ⟨hk, hv⟩ := hd
    simp only [alookup] at h
    by_cases h1 : hk = k
    · simp [h1] at h
    · simp only [h1, if_false] at h
      simp [aerase, h1, ih h]

theorem alookup_map {α β} (l : AList α) (f : α → β) (k : String) :
    alookup (l.map fun (x : String × α) => (x.1, f x.2)) k = (alookup l k).map f := by
  induction l with
  | nil => rfl
  | cons h t ih =>
    obtain ⟨hk, hv⟩ := h
    simp only [List.map, alookup]
    by_cases h1 : hk = k
    · simp [h1]
    · simp [h1, ih]

/-! ## disk scopes -/

theorem toCa_default : ({} : DiskCa).toCa = {} := rfl

theorem toCa_of_isEmpty (d : DiskCa) (h : d.isEmpty = true) : d.toCa = {} := by
  obtain ⟨r, p, c⟩ := d
  simp only [DiskCa.isEmpty, Bool.and_eq_true, Option.isNone_iff_eq_none, List.isEmpty_iff] at h
  obtain ⟨⟨h1, h2⟩, h3⟩ := h
  subst h1 h2 h3
  rfl

theorem diskOr_diskUpdate (disk : AList DiskCa) (ca ca' : String) (g : DiskCa → DiskCa) :
    (diskOr (diskUpdate disk ca g) ca').toCa =
      if ca = ca' then (g (diskOr disk ca)).toCa else (diskOr disk ca').toCa := by
  unfold diskUpdate
  by_cases he : (g (diskOr disk ca)).isEmpty = true
  · simp only [he, if_true]
    unfold diskOr
    rw [alookup_aerase]
    by_cases h : ca = ca'
    · simp only [h, if_true, Option.getD_none]
      rw [toCa_default]
      subst h
      exact (toCa_of_isEmpty _ he).symm
    · simp [h]
  · simp only [he]
    unfold diskOr
    simp only [Bool.false_eq_true, if_false]
    rw [alookup_aset]
    by_cases h : ca = ca'
    · simp [h]
    · simp [h]

/-! ## consistency of cache and storage -/

/-- The cache shows what a reload of the storage would show. -/
def Consistent (s : Store) : Prop := ∀ ca, s.view ca = (diskOr s.disk ca).toCa

theorem consistent_empty : Consistent Store.empty := by
  intro ca; rfl

theorem view_restart (s : Store) (ca : String) : s.restart.view ca = (diskOr s.disk ca).toCa := by
  unfold Store.restart Store.view diskOr
  simp only
  rw [alookup_map s.disk DiskCa.toCa ca]
  cases alookup s.disk ca <;> rfl

theorem view_updateRepo (s : Store) (ca ca' : String) (f : RepoStatus → RepoStatus) :
    (s.updateRepo ca f).view ca' =
      if ca = ca' then (s.view ca).setRepo (f (s.view ca).repo) else s.view ca' := by
  unfold Store.updateRepo
  simp only [Store.view, alookup_aset]
  by_cases h : ca = ca' <;> simp [h]

theorem view_updateParent (s : Store) (ca ca' p : String) (f : ParentStatus → ParentStatus) :
    (s.updateParent ca p f).view ca' =
      if ca = ca' then (s.view ca).setParents
        (aset (s.view ca).parents p (f ((alookup (s.view ca).parents p).getD {})))
      else s.view ca' := by
  unfold Store.updateParent
  simp only [Store.view, alookup_aset]
  by_cases h : ca = ca' <;> simp [h]

theorem view_updateChild (s : Store) (ca ca' c : String) (f : ChildStatus → ChildStatus) :
    (s.updateChild ca c f).view ca' =
      if ca = ca' then (s.view ca).setChildren
        (aset (s.view ca).children c (f ((alookup (s.view ca).children c).getD {})))
      else s.view ca' := by
  unfold Store.updateChild
  simp only [Store.view, alookup_aset]
  by_cases h : ca = ca' <;> simp [h]

theorem view_removeParent (s : Store) (ca ca' p : String) :
    (s.removeParent ca p).view ca' =
      if ca = ca' then (s.view ca).setParents (aerase (s.view ca).parents p)
      else s.view ca' := by
  unfold Store.removeParent
  cases hc : alookup s.cache ca with
  | none =>
    by_cases h : ca = ca'
    · subst h
      simp only [Store.view, hc, if_true, Option.getD_none]
      rfl
    · simp [h]
  | some cs =>
    cases hp : alookup cs.parents p with
    | none =>
      simp only [hp]
      by_cases h : ca = ca'
      · subst h
        simp only [Store.view, hc, Option.getD_some, if_true]
        rw [aerase_of_lookup_none _ _ hp]
        rfl
      · simp [h]
    | some ps =>
      simp only [hp, Store.view, alookup_aset, hc, Option.getD_some]
      by_cases h : ca = ca' <;> simp [h]

theorem view_removeChild (s : Store) (ca ca' c : String) :
    (s.removeChild ca c).view ca' =
      if ca = ca' then (s.view ca).setChildren (aerase (s.view ca).children c)
      else s.view ca' := by
  unfold Store.removeChild
  cases hc : alookup s.cache ca with
  | none =>
    by_cases h : ca = ca'
    · subst h
      simp only [Store.view, hc, if_true, Option.getD_none]
      rfl
    · simp [h]
  | some cs =>
    cases hp : alookup cs.children c with
    | none =>
      simp only [hp]
      by_cases h : ca = ca'
      · subst h
        simp only [Store.view, hc, Option.getD_some, if_true]
        rw [aerase_of_lookup_none _ _ hp]
        rfl
      · simp [h]
    | some ps =>
      simp only [hp, Store.view, alookup_aset, hc, Option.getD_some]
      by_cases h : ca = ca' <;> simp [h]

theorem view_removeCa (s : Store) (ca ca' : String) :
    (s.removeCa ca).view ca' = if ca = ca' then {} else s.view ca' := by
  unfold Store.removeCa
  simp only [Store.view, alookup_aerase]
  by_cases h : ca = ca' <;> simp [h]

/-! ### every store operation keeps cache and storage consistent -/

theorem consistent_updateRepo (s : Store) (h : Consistent s) (ca : String)
    (f : RepoStatus → RepoStatus) : Consistent (s.updateRepo ca f) := by
  intro ca'
  rw [view_updateRepo]
  have hd : (s.updateRepo ca f).disk =
      diskUpdate s.disk ca (fun d => { d with repo := some (f (s.view ca).repo) }) := rfl
  rw [hd, diskOr_diskUpdate]
  by_cases hh : ca = ca'
  · simp only [hh, if_true]
    have := h ca'
    subst hh
    rw [this]
    rfl
  · simp only [hh, if_false]; exact h ca'

theorem consistent_updateParent (s : Store) (h : Consistent s) (ca p : String)
    (f : ParentStatus → ParentStatus) : Consistent (s.updateParent ca p f) := by
  intro ca'
  rw [view_updateParent]
  have hd : (s.updateParent ca p f).disk =
      diskUpdate s.disk ca (fun d =>
        { d with parents := (aset d.parents p (f ((alookup (s.view ca).parents p).getD {}))) }) := rfl
  rw [hd, diskOr_diskUpdate]
  by_cases hh : ca = ca'
  · simp only [hh, if_true]
    have := h ca'
    subst hh
    rw [this]
    rfl
  · simp only [hh, if_false]; exact h ca'

theorem consistent_updateChild (s : Store) (h : Consistent s) (ca c : String)
    (f : ChildStatus → ChildStatus) : Consistent (s.updateChild ca c f) := by
  intro ca'
  rw [view_updateChild]
  have hd : (s.updateChild ca c f).disk =
      diskUpdate s.disk ca (fun d =>
        { d with children := (aset d.children c (f ((alookup (s.view ca).children c).getD {}))) }) := rfl
  rw [hd, diskOr_diskUpdate]
  by_cases hh : ca = ca'
  · simp only [hh, if_true]
    have := h ca'
    subst hh
    rw [this]
    rfl
  · simp only [hh, if_false]; exact h ca'

theorem disk_removeParent (s : Store) (h : Consistent s) (ca ca' p : String) :
    (diskOr (s.removeParent ca p).disk ca').toCa =
      if ca = ca' then (s.view ca).setParents (aerase (s.view ca).parents p)
      else s.view ca' := by
  unfold Store.removeParent
  cases hc : alookup s.cache ca with
  | none =>
    simp only []
    rw [← h ca']
    by_cases hh : ca = ca'
    · subst hh
      simp only [Store.view, hc, if_true, Option.getD_none]
      rfl
    · simp [hh]
  | some cs =>
    cases hp : alookup cs.parents p with
    | none =>
      simp only [hp]
      rw [← h ca']
      by_cases hh : ca = ca'
      · subst hh
        simp only [Store.view, hc, Option.getD_some, if_true]
        rw [aerase_of_lookup_none _ _ hp]
        rfl
      · simp [hh]
    | some ps =>
      simp only [hp]
      rw [diskOr_diskUpdate]
      by_cases hh : ca = ca'
      · subst hh
        simp only [if_true]
        have := h ca
        rw [this]
        rfl
      · simp only [hh, if_false]; exact (h ca').symm

theorem consistent_removeParent (s : Store) (h : Consistent s) (ca p : String) :
    Consistent (s.removeParent ca p) := by
  intro ca'
  rw [view_removeParent, disk_removeParent s h]

theorem disk_removeChild (s : Store) (h : Consistent s) (ca ca' c : String) :
    (diskOr (s.removeChild ca c).disk ca').toCa =
      if ca = ca' then (s.view ca).setChildren (aerase (s.view ca).children c)
      else s.view ca' := by
  unfold Store.removeChild
  cases hc : alookup s.cache ca with
  | none =>
    simp only []
    rw [← h ca']
    by_cases hh : ca = ca'
    · subst hh
      simp only [Store.view, hc, if_true, Option.getD_none]
      rfl
    · simp [hh]
  | some cs =>
    cases hp : alookup cs.children c with
    | none =>
      simp only [hp]
      rw [← h ca']
      by_cases hh : ca = ca'
      · subst hh
        simp only [Store.view, hc, Option.getD_some, if_true]
        rw [aerase_of_lookup_none _ _ hp]
        rfl
      · simp [hh]
    | some ps =>
      simp only [hp]
      rw [diskOr_diskUpdate]
      by_cases hh : ca = ca'
      · subst hh
        simp only [if_true]
        have := h ca
        rw [this]
        rfl
      · simp only [hh, if_false]; exact (h ca').symm

theorem consistent_removeChild (s : Store) (h : Consistent s) (ca c : String) :
    Consistent (s.removeChild ca c) := by
  intro ca'
  rw [view_removeChild, disk_removeChild s h]

theorem consistent_removeCa (s : Store) (h : Consistent s) (ca : String) :
    Consistent (s.removeCa ca) := by
  intro ca'
  rw [view_removeCa]
  show _ = (diskOr (aerase s.disk ca) ca').toCa
  unfold diskOr
  rw [alookup_aerase]
  by_cases hh : ca = ca'
  · simp [hh, toCa_default]
  · simp only [hh, if_false]; exact h ca'

theorem consistent_restart (s : Store) : Consistent s.restart := by
  intro ca
  rw [view_restart]
  rfl

theorem consistent_step (s : Store) (h : Consistent s) (e : Ev) : Consistent (step s e) := by
  cases e with
  | repoList ca uri reply now =>
    cases reply with
    | ok u => cases u; exact consistent_updateRepo s h _ _
    | error e => exact consistent_updateRepo s h _ _
  | repoDelta ca uri d reply now =>
    cases reply with
    | ok u => cases u; exact consistent_updateRepo s h _ _
    | error e => exact consistent_updateRepo s h _ _
  | parentList ca p uri ex reply now =>
    cases reply with
    | ok ent => exact consistent_updateParent s h _ _ _
    | error e =>
      simp only [step]
      split
      · exact consistent_updateParent s h _ _ _
      · exact h
  | parentRevokes ca p uri reply now =>
    cases reply with
    | ok u => cases u; exact consistent_updateParent s h _ _ _
    | error e => exact consistent_updateParent s h _ _ _
  | parentCerts ca p uri reply now =>
    cases reply with
    | ok u => cases u; exact consistent_updateParent s h _ _ _
    | error e => exact consistent_updateParent s h _ _ _
  | childRequest ca c agent outcome now =>
    cases outcome with
    | ok u => cases u; exact consistent_updateChild s h _ _ _
    | error e => exact consistent_updateChild s h _ _ _
  | childSuspended ca c now => exact consistent_updateChild s h _ _ _
  | parentRemove ca p => exact consistent_removeParent s h _ _
  | childRemove ca c => exact consistent_removeChild s h _ _
  | caRemove ca => exact consistent_removeCa s h _
  | restart => exact consistent_restart s

theorem consistent_run (s : Store) (h : Consistent s) (evs : List Ev) : Consistent (run s evs) := by
  induction evs generalizing s with
  | nil => exact h
  | cons e t ih => exact ih (step s e) (consistent_step s h e)

theorem run_append (s : Store) (a b : List Ev) : run s (a ++ b) = run (run s a) b := by
  simp [run, List.foldl_append]

theorem run_cons (s : Store) (e : Ev) (t : List Ev) : run s (e :: t) = run (step s e) t := rfl

/-- A restart shows what was shown before. -/
theorem view_restart_of_consistent (s : Store) (h : Consistent s) (ca : String) :
    s.restart.view ca = s.view ca := by
  rw [view_restart, h ca]

end KM.Status
