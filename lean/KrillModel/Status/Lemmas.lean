/-
Helper lemmas for the status model (no property statements here, see `Props/C19.lean`).
-/
import KrillModel.Status.Status
namespace KM.Status

/-! ## association lists -/

theorem alookup_aset {α} (l : AList α) (k k' : String) (v : α) :
    alookup (aset l k v) k' = if k = k' then some v else alookup l k' := by
  induction l with
  | nil => simp [aset, alookup]
  | cons h t ih =>
    obtain ⟨hk, hv⟩ := h
    by_cases h1 : hk = k
    · subst h1
      by_cases h2 : hk = k' <;> simp [aset, alookup, h2]
    · have h1' : ¬ k = hk := fun h => h1 h.symm
      by_cases h2 : hk = k'
      · subst h2
        simp [aset, alookup, h1, h1']
      · simp [aset, alookup, h1, h2, ih]

theorem alookup_aerase {α} (l : AList α) (k k' : String) :
    alookup (aerase l k) k' = if k = k' then none else alookup l k' := by
  induction l with
  | nil => simp [aerase, alookup]
  | cons h t ih =>
    obtain ⟨hk, hv⟩ := h
    by_cases h1 : hk = k
    · subst h1
      by_cases h2 : hk = k'
      · subst h2; simp [aerase, ih]
      · simp [aerase, alookup, ih, h2]
    · have h1' : ¬ k = hk := fun h => h1 h.symm
      by_cases h2 : hk = k'
      · subst h2
        simp [aerase, alookup, h1, h1']
      · simp [aerase, alookup, h1, h2, ih]

theorem aerase_of_lookup_none {α} (l : AList α) (k : String) (h : alookup l k = none) :
    aerase l k = l := by
  induction l with
  | nil => rfl
  | cons hd t ih =>
    obtain ⟨hk, hv⟩ := hd
    simp only [alookup] at h
    by_cases h1 : hk = k
    · simp [h1] at h
    · simp only [h1, if_false] at h
      simp [aerase, h1, ih h]

theorem alookup_map {α β} (l : AList α) (f : α → β) (k : String) :
    alookup (l.map fun (x : String × α) => (x.1, f x.2)) k = (alookup l k).map f := by
  induction l with
  | nil => rfl
  | cons h t ih =>
    obtain ⟨hk, hv⟩ := h
    simp only [List.map, alookup]
    by_cases h1 : hk = k
    · simp [h1]
    · simp [h1, ih]

/-! ## disk scopes -/

theorem toCa_default : ({} : DiskCa).toCa = {} := rfl

theorem toCa_of_isEmpty (d : DiskCa) (h : d.isEmpty = true) : d.toCa = {} := by
  obtain ⟨r, p, c⟩ := d
  simp only [DiskCa.isEmpty, Bool.and_eq_true, Option.isNone_iff_eq_none, List.isEmpty_iff] at h
  obtain ⟨⟨h1, h2⟩, h3⟩ := h
  subst h1 h2 h3
  rfl

theorem diskOr_diskUpdate (disk : AList DiskCa) (ca ca' : String) (g : DiskCa → DiskCa) :
    (diskOr (diskUpdate disk ca g) ca').toCa =
      if ca = ca' then (g (diskOr disk ca)).toCa else (diskOr disk ca').toCa := by
  unfold diskUpdate
  by_cases he : (g (diskOr disk ca)).isEmpty = true
  · simp only [he, if_true]
    unfold diskOr
    rw [alookup_aerase]
    by_cases h : ca = ca'
    · simp only [h, if_true, Option.getD_none]
      rw [toCa_default]
      subst h
      exact (toCa_of_isEmpty _ he).symm
    · simp [h]
  · simp only [he]
    unfold diskOr
    simp only [Bool.false_eq_true, if_false]
    rw [alookup_aset]
    by_cases h : ca = ca'
    · simp [h]
    · simp [h]

/-! ## consistency of cache and storage -/

/-- The cache shows what a reload of the storage would show. -/
def Consistent (s : Store) : Prop := ∀ ca, s.view ca = (diskOr s.disk ca).toCa

theorem consistent_empty : Consistent Store.empty := by
  intro ca; rfl

theorem view_restart (s : Store) (ca : String) : s.restart.view ca = (diskOr s.disk ca).toCa := by
  unfold Store.restart Store.view diskOr
  simp only
  rw [alookup_map s.disk DiskCa.toCa ca]
  cases alookup s.disk ca <;> rfl

theorem view_updateRepo (s : Store) (ca ca' : String) (f : RepoStatus → RepoStatus) :
    (s.updateRepo ca f).view ca' =
      if ca = ca' then (s.view ca).setRepo (f (s.view ca).repo) else s.view ca' := by
  unfold Store.updateRepo
  simp only [Store.view, alookup_aset]
  by_cases h : ca = ca' <;> simp [h]

theorem view_updateParent (s : Store) (ca ca' p : String) (f : ParentStatus → ParentStatus) :
    (s.updateParent ca p f).view ca' =
      if ca = ca' then (s.view ca).setParents
        (aset (s.view ca).parents p (f ((alookup (s.view ca).parents p).getD {})))
      else s.view ca' := by
  unfold Store.updateParent
  simp only [Store.view, alookup_aset]
  by_cases h : ca = ca' <;> simp [h]

theorem view_updateChild (s : Store) (ca ca' c : String) (f : ChildStatus → ChildStatus) :
    (s.updateChild ca c f).view ca' =
      if ca = ca' then (s.view ca).setChildren
        (aset (s.view ca).children c (f ((alookup (s.view ca).children c).getD {})))
      else s.view ca' := by
  unfold Store.updateChild
  simp only [Store.view, alookup_aset]
  by_cases h : ca = ca' <;> simp [h]

theorem view_removeParent (s : Store) (ca ca' p : String) :
    (s.removeParent ca p).view ca' =
      if ca = ca' then (s.view ca).setParents (aerase (s.view ca).parents p)
      else s.view ca' := by
  unfold Store.removeParent
  cases hc : alookup s.cache ca with
  | none =>
    by_cases h : ca = ca'
    · subst h
      simp only [Store.view, hc, if_true, Option.getD_none]
      rfl
    · simp [h]
  | some cs =>
    cases hp : alookup cs.parents p with
    | none =>
      simp only [hp]
      by_cases h : ca = ca'
      · subst h
        simp only [Store.view, hc, Option.getD_some, if_true]
        rw [aerase_of_lookup_none _ _ hp]
        rfl
      · simp [h]
    | some ps =>
      simp only [hp, Store.view, alookup_aset, hc, Option.getD_some]
      by_cases h : ca = ca' <;> simp [h]

theorem view_removeChild (s : Store) (ca ca' c : String) :
    (s.removeChild ca c).view ca' =
      if ca = ca' then (s.view ca).setChildren (aerase (s.view ca).children c)
      else s.view ca' := by
  unfold Store.removeChild
  cases hc : alookup s.cache ca with
  | none =>
    by_cases h : ca = ca'
    · subst h
      simp only [Store.view, hc, if_true, Option.getD_none]
      rfl
    · simp [h]
  | some cs =>
    cases hp : alookup cs.children c with
    | none =>
      simp only [hp]
      by_cases h : ca = ca'
      · subst h
        simp only [Store.view, hc, Option.getD_some, if_true]
        rw [aerase_of_lookup_none _ _ hp]
        rfl
      · simp [h]
    | some ps =>
      simp only [hp, Store.view, alookup_aset, hc, Option.getD_some]
      by_cases h : ca = ca' <;> simp [h]

theorem view_removeCa (s : Store) (ca ca' : String) :
    (s.removeCa ca).view ca' = if ca = ca' then {} else s.view ca' := by
  unfold Store.removeCa
  simp only [Store.view, alookup_aerase]
  by_cases h : ca = ca' <;> simp [h]

/-! ### every store operation keeps cache and storage consistent -/

theorem consistent_updateRepo (s : Store) (h : Consistent s) (ca : String)
    (f : RepoStatus → RepoStatus) : Consistent (s.updateRepo ca f) := by
  intro ca'
  rw [view_updateRepo]
  have hd : (s.updateRepo ca f).disk =
      diskUpdate s.disk ca (fun d => { d with repo := some (f (s.view ca).repo) }) := rfl
  rw [hd, diskOr_diskUpdate]
  by_cases hh : ca = ca'
  · simp only [hh, if_true]
    have := h ca'
    subst hh
    rw [this]
    rfl
  · simp only [hh, if_false]; exact h ca'

theorem consistent_updateParent (s : Store) (h : Consistent s) (ca p : String)
    (f : ParentStatus → ParentStatus) : Consistent (s.updateParent ca p f) := by
  intro ca'
  rw [view_updateParent]
  have hd : (s.updateParent ca p f).disk =
      diskUpdate s.disk ca (fun d =>
        { d with parents := (aset d.parents p (f ((alookup (s.view ca).parents p).getD {}))) }) := rfl
  rw [hd, diskOr_diskUpdate]
  by_cases hh : ca = ca'
  · simp only [hh, if_true]
    have := h ca'
    subst hh
    rw [this]
    rfl
  · simp only [hh, if_false]; exact h ca'

theorem consistent_updateChild (s : Store) (h : Consistent s) (ca c : String)
    (f : ChildStatus → ChildStatus) : Consistent (s.updateChild ca c f) := by
  intro ca'
  rw [view_updateChild]
  have hd : (s.updateChild ca c f).disk =
      diskUpdate s.disk ca (fun d =>
        { d with children := (aset d.children c (f ((alookup (s.view ca).children c).getD {}))) }) := rfl
  rw [hd, diskOr_diskUpdate]
  by_cases hh : ca = ca'
  · simp only [hh, if_true]
    have := h ca'
    subst hh
    rw [this]
    rfl
  · simp only [hh, if_false]; exact h ca'

theorem disk_removeParent (s : Store) (h : Consistent s) (ca ca' p : String) :
    (diskOr (s.removeParent ca p).disk ca').toCa =
      if ca = ca' then (s.view ca).setParents (aerase (s.view ca).parents p)
      else s.view ca' := by
  unfold Store.removeParent
  cases hc : alookup s.cache ca with
  | none =>
    simp only []
    rw [← h ca']
    by_cases hh : ca = ca'
    · subst hh
      simp only [Store.view, hc, if_true, Option.getD_none]
      rfl
    · simp [hh]
  | some cs =>
    cases hp : alookup cs.parents p with
    | none =>
      simp only [hp]
      rw [← h ca']
      by_cases hh : ca = ca'
      · subst hh
        simp only [Store.view, hc, Option.getD_some, if_true]
        rw [aerase_of_lookup_none _ _ hp]
        rfl
      · simp [hh]
    | some ps =>
      simp only [hp]
      rw [diskOr_diskUpdate]
      by_cases hh : ca = ca'
      · subst hh
        simp only [if_true]
        have := h ca
        rw [this]
        rfl
      · simp only [hh, if_false]; exact (h ca').symm

theorem consistent_removeParent (s : Store) (h : Consistent s) (ca p : String) :
    Consistent (s.removeParent ca p) := by
  intro ca'
  rw [view_removeParent, disk_removeParent s h]

theorem disk_removeChild (s : Store) (h : Consistent s) (ca ca' c : String) :
    (diskOr (s.removeChild ca c).disk ca').toCa =
      if ca = ca' then (s.view ca).setChildren (aerase (s.view ca).children c)
      else s.view ca' := by
  unfold Store.removeChild
  cases hc : alookup s.cache ca with
  | none =>
    simp only []
    rw [← h ca']
    by_cases hh : ca = ca'
    · subst hh
      simp only [Store.view, hc, if_true, Option.getD_none]
      rfl
    · simp [hh]
  | some cs =>
    cases hp : alookup cs.children c with
    | none =>
      simp only [hp]
      rw [← h ca']
      by_cases hh : ca = ca'
      · subst hh
        simp only [Store.view, hc, Option.getD_some, if_true]
        rw [aerase_of_lookup_none _ _ hp]
        rfl
      · simp [hh]
    | some ps =>
      simp only [hp]
      rw [diskOr_diskUpdate]
      by_cases hh : ca = ca'
      · subst hh
        simp only [if_true]
        have := h ca
        rw [this]
        rfl
      · simp only [hh, if_false]; exact (h ca').symm

theorem consistent_removeChild (s : Store) (h : Consistent s) (ca c : String) :
    Consistent (s.removeChild ca c) := by
  intro ca'
  rw [view_removeChild, disk_removeChild s h]

theorem consistent_removeCa (s : Store) (h : Consistent s) (ca : String) :
    Consistent (s.removeCa ca) := by
  intro ca'
  rw [view_removeCa]
  show _ = (diskOr (aerase s.disk ca) ca').toCa
  unfold diskOr
  rw [alookup_aerase]
  by_cases hh : ca = ca'
  · simp [hh, toCa_default]
  · simp only [hh, if_false]; exact h ca'

theorem consistent_restart (s : Store) : Consistent s.restart := by
  intro ca
  rw [view_restart]
  rfl

theorem consistent_step (s : Store) (h : Consistent s) (e : Ev) : Consistent (step s e) := by
  cases e with
  | repoList ca uri reply now =>
    cases reply with
    | ok u => cases u; exact consistent_updateRepo s h _ _
    | error e => exact consistent_updateRepo s h _ _
  | repoDelta ca uri d reply now =>
    cases reply with
    | ok u => cases u; exact consistent_updateRepo s h _ _
    | error e => exact consistent_updateRepo s h _ _
  | parentList ca p uri ex reply now =>
    cases reply with
    | ok ent => exact consistent_updateParent s h _ _ _
    | error e =>
      simp only [step]
      split
      · exact consistent_updateParent s h _ _ _
      · exact h
  | parentRevokes ca p uri sent reply now =>
    cases reply with
    | ok u => cases u; exact consistent_updateParent s h _ _ _
    | error e => exact consistent_updateParent s h _ _ _
  | parentCerts ca p uri reply now =>
    cases reply with
    | ok u => cases u; exact consistent_updateParent s h _ _ _
    | error e => exact consistent_updateParent s h _ _ _
  | childRequest ca c agent outcome now =>
    cases outcome with
    | ok u => cases u; exact consistent_updateChild s h _ _ _
    | error e => exact consistent_updateChild s h _ _ _
  | childSuspended ca c now => exact consistent_updateChild s h _ _ _
  | parentRemove ca p => exact consistent_removeParent s h _ _
  | childRemove ca c => exact consistent_removeChild s h _ _
  | caRemove ca => exact consistent_removeCa s h _
  | restart => exact consistent_restart s

theorem consistent_run (s : Store) (h : Consistent s) (evs : List Ev) : Consistent (run s evs) := by
  induction evs generalizing s with
  | nil => exact h
  | cons e t ih => exact ih (step s e) (consistent_step s h e)

theorem run_append (s : Store) (a b : List Ev) : run s (a ++ b) = run (run s a) b := by
  simp [run, List.foldl_append]

theorem run_cons (s : Store) (e : Ev) (t : List Ev) : run s (e :: t) = run (step s e) t := rfl

/-- A restart shows what was shown before. -/
theorem view_restart_of_consistent (s : Store) (h : Consistent s) (ca : String) :
    s.restart.view ca = s.view ca := by
  rw [view_restart, h ca]

/-! ## What one event does to one entry (projection of `step`) -/

/-- Effect of an event on the entry of parent `p` of `ca`. -/
def parentProj (e : Ev) (ca p : String) (o : Option ParentStatus) : Option ParentStatus :=
  match e with
  | .parentList ca' p' uri _ (.ok ent) now =>
      if ca' = ca ∧ p' = p then some ((o.getD {}).setEntitlements uri ent now) else o
  | .parentList ca' p' uri ex (.error err) now =>
      if ca' = ca ∧ p' = p ∧ ex = true then some ((o.getD {}).setFailure uri err now) else o
  | .parentRevokes ca' p' uri _ (.ok ()) now =>
      if ca' = ca ∧ p' = p then some ((o.getD {}).setLastUpdated uri now) else o
  | .parentRevokes ca' p' uri _ (.error err) now =>
      if ca' = ca ∧ p' = p then some ((o.getD {}).setFailure uri err now) else o
  | .parentCerts ca' p' uri (.ok ()) now =>
      if ca' = ca ∧ p' = p then some ((o.getD {}).setLastUpdated uri now) else o
  | .parentCerts ca' p' uri (.error err) now =>
      if ca' = ca ∧ p' = p then some ((o.getD {}).setFailure uri err now) else o
  | .parentRemove ca' p' => if ca' = ca ∧ p' = p then none else o
  | .caRemove ca' => if ca' = ca then none else o
  | _ => o

/-- Effect of an event on the entry of child `c` of `ca`. -/
def childProj (e : Ev) (ca c : String) (o : Option ChildStatus) : Option ChildStatus :=
  match e with
  | .childRequest ca' c' agent (.ok ()) now =>
      if ca' = ca ∧ c' = c then some ((o.getD {}).setSuccess agent now) else o
  | .childRequest ca' c' agent (.error err) now =>
      if ca' = ca ∧ c' = c then some ((o.getD {}).setFailure agent err now) else o
  | .childSuspended ca' c' now =>
      if ca' = ca ∧ c' = c then some ((o.getD {}).setSuspended now) else o
  | .childRemove ca' c' => if ca' = ca ∧ c' = c then none else o
  | .caRemove ca' => if ca' = ca then none else o
  | _ => o

/-- Effect of an event on the repository status of `ca`. -/
def repoProj (e : Ev) (ca : String) (r : RepoStatus) : RepoStatus :=
  match e with
  | .repoList ca' uri (.ok ()) now => if ca' = ca then r.setLastUpdated uri now else r
  | .repoList ca' uri (.error err) now => if ca' = ca then r.setFailure uri err now else r
  | .repoDelta ca' uri d (.ok ()) now => if ca' = ca then r.updatePublished uri d now else r
  | .repoDelta ca' uri _ (.error err) now => if ca' = ca then r.setFailure uri err now else r
  | .caRemove ca' => if ca' = ca then {} else r
  | _ => r

theorem parent?_updateParent (s : Store) (ca ca' p p' : String) (f : ParentStatus → ParentStatus) :
    (s.updateParent ca' p' f).parent? ca p =
      if ca' = ca ∧ p' = p then some (f ((s.parent? ca p).getD {})) else s.parent? ca p := by
  unfold Store.parent?
  rw [view_updateParent]
  by_cases h : ca' = ca
  · subst h
    simp only [if_true, CaStatus.setParents, alookup_aset, true_and]
    by_cases h2 : p' = p
    · subst h2; simp
    · simp [h2]
  · simp [h]

theorem parent?_updateRepo (s : Store) (ca ca' p : String) (f : RepoStatus → RepoStatus) :
    (s.updateRepo ca' f).parent? ca p = s.parent? ca p := by
  unfold Store.parent?
  rw [view_updateRepo]
  by_cases h : ca' = ca
  · subst h; simp [CaStatus.setRepo]
  · simp [h]

theorem parent?_updateChild (s : Store) (ca ca' p c : String) (f : ChildStatus → ChildStatus) :
    (s.updateChild ca' c f).parent? ca p = s.parent? ca p := by
  unfold Store.parent?
  rw [view_updateChild]
  by_cases h : ca' = ca
  · subst h; simp [CaStatus.setChildren]
  · simp [h]

theorem parent?_removeParent (s : Store) (ca ca' p p' : String) :
    (s.removeParent ca' p').parent? ca p =
      if ca' = ca ∧ p' = p then none else s.parent? ca p := by
  unfold Store.parent?
  rw [view_removeParent]
  by_cases h : ca' = ca
  · subst h
    simp only [if_true, CaStatus.setParents, alookup_aerase, true_and]
  · simp [h]

theorem parent?_removeChild (s : Store) (ca ca' p c : String) :
    (s.removeChild ca' c).parent? ca p = s.parent? ca p := by
  unfold Store.parent?
  rw [view_removeChild]
  by_cases h : ca' = ca
  · subst h; simp [CaStatus.setChildren]
  · simp [h]

theorem parent?_removeCa (s : Store) (ca ca' p : String) :
    (s.removeCa ca').parent? ca p = if ca' = ca then none else s.parent? ca p := by
  unfold Store.parent?
  rw [view_removeCa]
  by_cases h : ca' = ca
  · subst h; simp [alookup]
  · simp [h]

theorem parent?_step (s : Store) (h : Consistent s) (e : Ev) (ca p : String) :
    (step s e).parent? ca p = parentProj e ca p (s.parent? ca p) := by
  cases e with
  | repoList ca' uri reply now =>
    cases reply with
    | ok u => cases u; exact parent?_updateRepo s _ _ _ _
    | error e => exact parent?_updateRepo s _ _ _ _
  | repoDelta ca' uri d reply now =>
    cases reply with
    | ok u => cases u; exact parent?_updateRepo s _ _ _ _
    | error e => exact parent?_updateRepo s _ _ _ _
  | parentList ca' p' uri ex reply now =>
    cases reply with
    | ok ent => exact parent?_updateParent s _ _ _ _ _
    | error e =>
      simp only [step, parentProj]
      cases ex with
      | true => simp only [if_true, and_true]; exact parent?_updateParent s _ _ _ _ _
      | false => simp
  | parentRevokes ca' p' uri sent reply now =>
    cases reply with
    | ok u => cases u; exact parent?_updateParent s _ _ _ _ _
    | error e => exact parent?_updateParent s _ _ _ _ _
  | parentCerts ca' p' uri reply now =>
    cases reply with
    | ok u => cases u; exact parent?_updateParent s _ _ _ _ _
    | error e => exact parent?_updateParent s _ _ _ _ _
  | childRequest ca' c agent outcome now =>
    cases outcome with
    | ok u => cases u; exact parent?_updateChild s _ _ _ _ _
    | error e => exact parent?_updateChild s _ _ _ _ _
  | childSuspended ca' c now => exact parent?_updateChild s _ _ _ _ _
  | parentRemove ca' p' => exact parent?_removeParent s _ _ _ _
  | childRemove ca' c => exact parent?_removeChild s _ _ _ _
  | caRemove ca' => exact parent?_removeCa s _ _ _
  | restart =>
    simp only [step, parentProj, Store.parent?]
    rw [view_restart_of_consistent s h]

theorem parent?_run (s : Store) (h : Consistent s) (evs : List Ev) (ca p : String) :
    (run s evs).parent? ca p = evs.foldl (fun o e => parentProj e ca p o) (s.parent? ca p) := by
  induction evs generalizing s with
  | nil => rfl
  | cons e t ih =>
    rw [run_cons, ih (step s e) (consistent_step s h e), parent?_step s h]
    rfl

/-! ### children -/

theorem child?_updateChild (s : Store) (ca ca' c c' : String) (f : ChildStatus → ChildStatus) :
    (s.updateChild ca' c' f).child? ca c =
      if ca' = ca ∧ c' = c then some (f ((s.child? ca c).getD {})) else s.child? ca c := by
  unfold Store.child?
  rw [view_updateChild]
  by_cases h : ca' = ca
  · subst h
    simp only [if_true, CaStatus.setChildren, alookup_aset, true_and]
    by_cases h2 : c' = c
    · subst h2; simp
    · simp [h2]
  · simp [h]

theorem child?_updateRepo (s : Store) (ca ca' c : String) (f : RepoStatus → RepoStatus) :
    (s.updateRepo ca' f).child? ca c = s.child? ca c := by
  unfold Store.child?
  rw [view_updateRepo]
  by_cases h : ca' = ca
  · subst h; simp [CaStatus.setRepo]
  · simp [h]

theorem child?_updateParent (s : Store) (ca ca' p c : String) (f : ParentStatus → ParentStatus) :
    (s.updateParent ca' p f).child? ca c = s.child? ca c := by
  unfold Store.child?
  rw [view_updateParent]
  by_cases h : ca' = ca
  · subst h; simp [CaStatus.setParents]
  · simp [h]

theorem child?_removeChild (s : Store) (ca ca' c c' : String) :
    (s.removeChild ca' c').child? ca c =
      if ca' = ca ∧ c' = c then none else s.child? ca c := by
  unfold Store.child?
  rw [view_removeChild]
  by_cases h : ca' = ca
  · subst h
    simp only [if_true, CaStatus.setChildren, alookup_aerase, true_and]
  · simp [h]

theorem child?_removeParent (s : Store) (ca ca' p c : String) :
    (s.removeParent ca' p).child? ca c = s.child? ca c := by
  unfold Store.child?
  rw [view_removeParent]
  by_cases h : ca' = ca
  · subst h; simp [CaStatus.setParents]
  · simp [h]

theorem child?_removeCa (s : Store) (ca ca' c : String) :
    (s.removeCa ca').child? ca c = if ca' = ca then none else s.child? ca c := by
  unfold Store.child?
  rw [view_removeCa]
  by_cases h : ca' = ca
  · subst h; simp [alookup]
  · simp [h]

theorem child?_step (s : Store) (h : Consistent s) (e : Ev) (ca c : String) :
    (step s e).child? ca c = childProj e ca c (s.child? ca c) := by
  cases e with
  | repoList ca' uri reply now =>
    cases reply with
    | ok u => cases u; exact child?_updateRepo s _ _ _ _
    | error e => exact child?_updateRepo s _ _ _ _
  | repoDelta ca' uri d reply now =>
    cases reply with
    | ok u => cases u; exact child?_updateRepo s _ _ _ _
    | error e => exact child?_updateRepo s _ _ _ _
  | parentList ca' p' uri ex reply now =>
    cases reply with
    | ok ent => exact child?_updateParent s _ _ _ _ _
    | error e =>
      simp only [step, childProj]
      split
      · exact child?_updateParent s _ _ _ _ _
      · rfl
  | parentRevokes ca' p' uri sent reply now =>
    cases reply with
    | ok u => cases u; exact child?_updateParent s _ _ _ _ _
    | error e => exact child?_updateParent s _ _ _ _ _
  | parentCerts ca' p' uri reply now =>
    cases reply with
    | ok u => cases u; exact child?_updateParent s _ _ _ _ _
    | error e => exact child?_updateParent s _ _ _ _ _
  | childRequest ca' c' agent outcome now =>
    cases outcome with
    | ok u => cases u; exact child?_updateChild s _ _ _ _ _
    | error e => exact child?_updateChild s _ _ _ _ _
  | childSuspended ca' c' now => exact child?_updateChild s _ _ _ _ _
  | parentRemove ca' p' => exact child?_removeParent s _ _ _ _
  | childRemove ca' c' => exact child?_removeChild s _ _ _ _
  | caRemove ca' => exact child?_removeCa s _ _ _
  | restart =>
    simp only [step, childProj, Store.child?]
    rw [view_restart_of_consistent s h]

theorem child?_run (s : Store) (h : Consistent s) (evs : List Ev) (ca c : String) :
    (run s evs).child? ca c = evs.foldl (fun o e => childProj e ca c o) (s.child? ca c) := by
  induction evs generalizing s with
  | nil => rfl
  | cons e t ih =>
    rw [run_cons, ih (step s e) (consistent_step s h e), child?_step s h]
    rfl

/-! ### repository -/

theorem repo_updateRepo (s : Store) (ca ca' : String) (f : RepoStatus → RepoStatus) :
    (s.updateRepo ca' f).repo ca = if ca' = ca then f (s.repo ca) else s.repo ca := by
  unfold Store.repo
  rw [view_updateRepo]
  by_cases h : ca' = ca
  · subst h; simp [CaStatus.setRepo]
  · simp [h]

theorem repo_updateParent (s : Store) (ca ca' p : String) (f : ParentStatus → ParentStatus) :
    (s.updateParent ca' p f).repo ca = s.repo ca := by
  unfold Store.repo
  rw [view_updateParent]
  by_cases h : ca' = ca
  · subst h; simp [CaStatus.setParents]
  · simp [h]

theorem repo_updateChild (s : Store) (ca ca' c : String) (f : ChildStatus → ChildStatus) :
    (s.updateChild ca' c f).repo ca = s.repo ca := by
  unfold Store.repo
  rw [view_updateChild]
  by_cases h : ca' = ca
  · subst h; simp [CaStatus.setChildren]
  · simp [h]

theorem repo_removeParent (s : Store) (ca ca' p : String) :
    (s.removeParent ca' p).repo ca = s.repo ca := by
  unfold Store.repo
  rw [view_removeParent]
  by_cases h : ca' = ca
  · subst h; simp [CaStatus.setParents]
  · simp [h]

theorem repo_removeChild (s : Store) (ca ca' c : String) :
    (s.removeChild ca' c).repo ca = s.repo ca := by
  unfold Store.repo
  rw [view_removeChild]
  by_cases h : ca' = ca
  · subst h; simp [CaStatus.setChildren]
  · simp [h]

theorem repo_removeCa (s : Store) (ca ca' : String) :
    (s.removeCa ca').repo ca = if ca' = ca then {} else s.repo ca := by
  unfold Store.repo
  rw [view_removeCa]
  by_cases h : ca' = ca
  · subst h; simp
  · simp [h]

theorem repo_step (s : Store) (h : Consistent s) (e : Ev) (ca : String) :
    (step s e).repo ca = repoProj e ca (s.repo ca) := by
  cases e with
  | repoList ca' uri reply now =>
    cases reply with
    | ok u => cases u; exact repo_updateRepo s _ _ _
    | error e => exact repo_updateRepo s _ _ _
  | repoDelta ca' uri d reply now =>
    cases reply with
    | ok u => cases u; exact repo_updateRepo s _ _ _
    | error e => exact repo_updateRepo s _ _ _
  | parentList ca' p' uri ex reply now =>
    cases reply with
    | ok ent => exact repo_updateParent s _ _ _ _
    | error e =>
      simp only [step, repoProj]
      split
      · exact repo_updateParent s _ _ _ _
      · rfl
  | parentRevokes ca' p' uri sent reply now =>
    cases reply with
    | ok u => cases u; exact repo_updateParent s _ _ _ _
    | error e => exact repo_updateParent s _ _ _ _
  | parentCerts ca' p' uri reply now =>
    cases reply with
    | ok u => cases u; exact repo_updateParent s _ _ _ _
    | error e => exact repo_updateParent s _ _ _ _
  | childRequest ca' c' agent outcome now =>
    cases outcome with
    | ok u => cases u; exact repo_updateChild s _ _ _ _
    | error e => exact repo_updateChild s _ _ _ _
  | childSuspended ca' c' now => exact repo_updateChild s _ _ _ _
  | parentRemove ca' p' => exact repo_removeParent s _ _ _
  | childRemove ca' c' => exact repo_removeChild s _ _ _
  | caRemove ca' => exact repo_removeCa s _ _
  | restart =>
    simp only [step, repoProj, Store.repo]
    rw [view_restart_of_consistent s h]

theorem repo_run (s : Store) (h : Consistent s) (evs : List Ev) (ca : String) :
    (run s evs).repo ca = evs.foldl (fun r e => repoProj e ca r) (s.repo ca) := by
  induction evs generalizing s with
  | nil => rfl
  | cons e t ih =>
    rw [run_cons, ih (step s e) (consistent_step s h e), repo_step s h]
    rfl

/-! ## folds over histories -/

theorem foldl_preserves {σ ε β} (f : σ → ε → σ) (g : σ → β) (l : List ε)
    (h : ∀ e ∈ l, ∀ o, g (f o e) = g o) (o : σ) : g (l.foldl f o) = g o := by
  induction l generalizing o with
  | nil => rfl
  | cons e t ih =>
    simp only [List.foldl_cons]
    rw [ih (fun e' he' => h e' (List.mem_cons_of_mem _ he')), h e (List.mem_cons_self ..)]

/-! ### parents -/

theorem parentProj_of_not_touches (e : Ev) (ca p : String) (o : Option ParentStatus)
    (h : e.touchesParent ca p = false) : parentProj e ca p o = o := by
  cases e with
  | parentList ca' p' uri ex reply now =>
    simp only [Ev.touchesParent, Bool.and_eq_false_iff, decide_eq_false_iff_not] at h
    have : ¬ (ca' = ca ∧ p' = p) := fun ⟨a, b⟩ => by rcases h with h | h <;> contradiction
    cases reply with
    | ok ent => simp [parentProj, this]
    | error err =>
      have : ¬ (ca' = ca ∧ p' = p ∧ ex = true) := fun ⟨a, b, _⟩ => this ⟨a, b⟩
      simp [parentProj, this]
  | parentRevokes ca' p' uri sent reply now =>
    simp only [Ev.touchesParent, Bool.and_eq_false_iff, decide_eq_false_iff_not] at h
    have : ¬ (ca' = ca ∧ p' = p) := fun ⟨a, b⟩ => by rcases h with h | h <;> contradiction
    cases reply with
    | ok u => cases u; simp [parentProj, this]
    | error err => simp [parentProj, this]
  | parentCerts ca' p' uri reply now =>
    simp only [Ev.touchesParent, Bool.and_eq_false_iff, decide_eq_false_iff_not] at h
    have : ¬ (ca' = ca ∧ p' = p) := fun ⟨a, b⟩ => by rcases h with h | h <;> contradiction
    cases reply with
    | ok u => cases u; simp [parentProj, this]
    | error err => simp [parentProj, this]
  | parentRemove ca' p' =>
    simp only [Ev.touchesParent, Ev.removesParent, Bool.and_eq_false_iff,
      decide_eq_false_iff_not] at h
    have : ¬ (ca' = ca ∧ p' = p) := fun ⟨a, b⟩ => by rcases h with h | h <;> contradiction
    simp [parentProj, this]
  | caRemove ca' =>
    simp only [Ev.touchesParent, Ev.removesParent, Ev.removesCa, decide_eq_false_iff_not] at h
    simp [parentProj, h]
  | repoList ca' uri reply now => cases reply <;> rfl
  | repoDelta ca' uri d reply now => cases reply <;> rfl
  | childRequest ca' c agent outcome now => cases outcome <;> rfl
  | childSuspended ca' c now => rfl
  | childRemove ca' c => rfl
  | restart => rfl

theorem parentProj_attempt (e : Ev) (ca p : String) (x : Exchange) (o : Option ParentStatus)
    (h : e.parentAttempt? = some (ca, p, x)) :
    ∃ st, parentProj e ca p o = some st ∧ st.lastExchange = some x ∧
      (x.result = .success → st.lastSuccess = some x.time) ∧
      (x.result ≠ .success → st.lastSuccess = (o.getD {}).lastSuccess ∧
        st.classes = (o.getD {}).classes ∧ st.allResources = (o.getD {}).allResources) := by
  cases e with
  | parentList ca' p' uri ex reply now =>
    cases reply with
    | ok ent =>
      simp only [Ev.parentAttempt?, Option.some.injEq, Prod.mk.injEq] at h
      obtain ⟨rfl, rfl, rfl⟩ := h
      refine ⟨(o.getD {}).setEntitlements uri ent now, by simp [parentProj], rfl, fun _ => rfl, ?_⟩
      intro h; exact absurd rfl h
    | error err =>
      cases ex with
      | false => simp [Ev.parentAttempt?] at h
      | true =>
        simp only [Ev.parentAttempt?, Option.some.injEq, Prod.mk.injEq] at h
        obtain ⟨rfl, rfl, rfl⟩ := h
        refine ⟨(o.getD {}).setFailure uri err now, by simp [parentProj], rfl, ?_, ?_⟩
        · intro h; cases h
        · intro _; exact ⟨rfl, rfl, rfl⟩
  | parentRevokes ca' p' uri sent reply now =>
    simp only [Ev.parentAttempt?, Option.some.injEq, Prod.mk.injEq] at h
    obtain ⟨rfl, rfl, rfl⟩ := h
    cases reply with
    | ok u =>
      cases u
      refine ⟨(o.getD {}).setLastUpdated uri now, by simp [parentProj], rfl, fun _ => rfl, ?_⟩
      intro h; exact absurd rfl h
    | error err =>
      refine ⟨(o.getD {}).setFailure uri err now, by simp [parentProj], rfl, ?_, ?_⟩
      · intro h; cases h
      · intro _; exact ⟨rfl, rfl, rfl⟩
  | parentCerts ca' p' uri reply now =>
    simp only [Ev.parentAttempt?, Option.some.injEq, Prod.mk.injEq] at h
    obtain ⟨rfl, rfl, rfl⟩ := h
    cases reply with
    | ok u =>
      cases u
      refine ⟨(o.getD {}).setLastUpdated uri now, by simp [parentProj], rfl, fun _ => rfl, ?_⟩
      intro h; exact absurd rfl h
    | error err =>
      refine ⟨(o.getD {}).setFailure uri err now, by simp [parentProj], rfl, ?_, ?_⟩
      · intro h; cases h
      · intro _; exact ⟨rfl, rfl, rfl⟩
  | repoList ca' uri reply now => simp [Ev.parentAttempt?] at h
  | repoDelta ca' uri d reply now => simp [Ev.parentAttempt?] at h
  | childRequest ca' c agent outcome now => simp [Ev.parentAttempt?] at h
  | childSuspended ca' c now => simp [Ev.parentAttempt?] at h
  | parentRemove ca' p' => simp [Ev.parentAttempt?] at h
  | childRemove ca' c => simp [Ev.parentAttempt?] at h
  | caRemove ca' => simp [Ev.parentAttempt?] at h
  | restart => simp [Ev.parentAttempt?] at h

theorem parentProj_keeps_lastSuccess (e : Ev) (ca p : String) (o : Option ParentStatus)
    (h1 : e.parentSuccess ca p = false) (h2 : e.removesParent ca p = false) :
    (parentProj e ca p o).bind (·.lastSuccess) = o.bind (·.lastSuccess) := by
  cases e with
  | parentList ca' p' uri ex reply now =>
    cases reply with
    | ok ent =>
      have : ¬ (ca' = ca ∧ p' = p) := by
        intro ⟨a, b⟩
        simp [Ev.parentSuccess, Ev.parentAttempt?, a, b, Result.wasSuccess] at h1
      simp [parentProj, this]
    | error err =>
      simp only [parentProj]
      split
      · cases o <;> rfl
      · rfl
  | parentRevokes ca' p' uri sent reply now =>
    cases reply with
    | ok u =>
      cases u
      have : ¬ (ca' = ca ∧ p' = p) := by
        intro ⟨a, b⟩
        simp [Ev.parentSuccess, Ev.parentAttempt?, a, b, Result.wasSuccess, resultOf] at h1
      simp [parentProj, this]
    | error err =>
      simp only [parentProj]
      split
      · cases o <;> rfl
      · rfl
  | parentCerts ca' p' uri reply now =>
    cases reply with
    | ok u =>
      cases u
      have : ¬ (ca' = ca ∧ p' = p) := by
        intro ⟨a, b⟩
        simp [Ev.parentSuccess, Ev.parentAttempt?, a, b, Result.wasSuccess, resultOf] at h1
      simp [parentProj, this]
    | error err =>
      simp only [parentProj]
      split
      · cases o <;> rfl
      · rfl
  | parentRemove ca' p' =>
    simp only [Ev.removesParent, Bool.and_eq_false_iff, decide_eq_false_iff_not] at h2
    have : ¬ (ca' = ca ∧ p' = p) := fun ⟨a, b⟩ => by rcases h2 with h | h <;> contradiction
    simp [parentProj, this]
  | caRemove ca' =>
    simp only [Ev.removesParent, Ev.removesCa, decide_eq_false_iff_not] at h2
    simp [parentProj, h2]
  | repoList ca' uri reply now => cases reply <;> rfl
  | repoDelta ca' uri d reply now => cases reply <;> rfl
  | childRequest ca' c agent outcome now => cases outcome <;> rfl
  | childSuspended ca' c now => rfl
  | childRemove ca' c => rfl
  | restart => rfl

theorem parentProj_keeps_classes (e : Ev) (ca p : String) (o : Option ParentStatus)
    (h1 : e.parentListSuccess ca p = false) (h2 : e.removesParent ca p = false) :
    ((parentProj e ca p o).getD {}).classes = (o.getD {}).classes ∧
    ((parentProj e ca p o).getD {}).allResources = (o.getD {}).allResources := by
  cases e with
  | parentList ca' p' uri ex reply now =>
    cases reply with
    | ok ent =>
      have : ¬ (ca' = ca ∧ p' = p) := by
        intro ⟨a, b⟩
        simp [Ev.parentListSuccess, a, b] at h1
      simp [parentProj, this]
    | error err =>
      simp only [parentProj]
      split
      · exact ⟨rfl, rfl⟩
      · exact ⟨rfl, rfl⟩
  | parentRevokes ca' p' uri sent reply now =>
    cases reply with
    | ok u =>
      cases u
      simp only [parentProj]
      split
      · exact ⟨rfl, rfl⟩
      · exact ⟨rfl, rfl⟩
    | error err =>
      simp only [parentProj]
      split
      · exact ⟨rfl, rfl⟩
      · exact ⟨rfl, rfl⟩
  | parentCerts ca' p' uri reply now =>
    cases reply with
    | ok u =>
      cases u
      simp only [parentProj]
      split
      · exact ⟨rfl, rfl⟩
      · exact ⟨rfl, rfl⟩
    | error err =>
      simp only [parentProj]
      split
      · exact ⟨rfl, rfl⟩
      · exact ⟨rfl, rfl⟩
  | parentRemove ca' p' =>
    simp only [Ev.removesParent, Bool.and_eq_false_iff, decide_eq_false_iff_not] at h2
    have : ¬ (ca' = ca ∧ p' = p) := fun ⟨a, b⟩ => by rcases h2 with h | h <;> contradiction
    simp [parentProj, this]
  | caRemove ca' =>
    simp only [Ev.removesParent, Ev.removesCa, decide_eq_false_iff_not] at h2
    simp [parentProj, h2]
  | repoList ca' uri reply now => cases reply <;> exact ⟨rfl, rfl⟩
  | repoDelta ca' uri d reply now => cases reply <;> exact ⟨rfl, rfl⟩
  | childRequest ca' c agent outcome now => cases outcome <;> exact ⟨rfl, rfl⟩
  | childSuspended ca' c now => exact ⟨rfl, rfl⟩
  | childRemove ca' c => exact ⟨rfl, rfl⟩
  | restart => exact ⟨rfl, rfl⟩

/-! ### repository -/

theorem repoProj_of_not_touches (e : Ev) (ca : String) (r : RepoStatus)
    (h : e.touchesRepo ca = false) : repoProj e ca r = r := by
  cases e with
  | repoList ca' uri reply now =>
    simp only [Ev.touchesRepo, decide_eq_false_iff_not] at h
    cases reply with
    | ok u => cases u; simp [repoProj, h]
    | error err => simp [repoProj, h]
  | repoDelta ca' uri d reply now =>
    simp only [Ev.touchesRepo, decide_eq_false_iff_not] at h
    cases reply with
    | ok u => cases u; simp [repoProj, h]
    | error err => simp [repoProj, h]
  | caRemove ca' =>
    simp only [Ev.touchesRepo, Ev.removesCa, decide_eq_false_iff_not] at h
    simp [repoProj, h]
  | parentList ca' p' uri ex reply now => cases reply <;> rfl
  | parentRevokes ca' p' uri sent reply now => cases reply <;> rfl
  | parentCerts ca' p' uri reply now => cases reply <;> rfl
  | childRequest ca' c agent outcome now => cases outcome <;> rfl
  | childSuspended ca' c now => rfl
  | parentRemove ca' p' => rfl
  | childRemove ca' c => rfl
  | restart => rfl

theorem repoProj_attempt (e : Ev) (ca : String) (x : Exchange) (r : RepoStatus)
    (h : e.repoAttempt? = some (ca, x)) :
    (repoProj e ca r).lastExchange = some x ∧
      (x.result = .success → (repoProj e ca r).lastSuccess = some x.time) ∧
      (x.result ≠ .success → (repoProj e ca r).lastSuccess = r.lastSuccess ∧
        (repoProj e ca r).published = r.published) := by
  cases e with
  | repoList ca' uri reply now =>
    simp only [Ev.repoAttempt?, Option.some.injEq, Prod.mk.injEq] at h
    obtain ⟨rfl, rfl⟩ := h
    cases reply with
    | ok u =>
      cases u
      refine ⟨by simp [repoProj, RepoStatus.setLastUpdated, resultOf], ?_, ?_⟩
      · intro _; simp [repoProj, RepoStatus.setLastUpdated]
      · intro h; exact absurd rfl h
    | error err =>
      refine ⟨by simp [repoProj, RepoStatus.setFailure, resultOf], ?_, ?_⟩
      · intro h; cases h
      · intro _; simp [repoProj, RepoStatus.setFailure]
  | repoDelta ca' uri d reply now =>
    simp only [Ev.repoAttempt?, Option.some.injEq, Prod.mk.injEq] at h
    obtain ⟨rfl, rfl⟩ := h
    cases reply with
    | ok u =>
      cases u
      refine ⟨by simp [repoProj, RepoStatus.updatePublished, resultOf], ?_, ?_⟩
      · intro _; simp [repoProj, RepoStatus.updatePublished]
      · intro h; exact absurd rfl h
    | error err =>
      refine ⟨by simp [repoProj, RepoStatus.setFailure, resultOf], ?_, ?_⟩
      · intro h; cases h
      · intro _; simp [repoProj, RepoStatus.setFailure]
  | parentList ca' p' uri ex reply now => simp [Ev.repoAttempt?] at h
  | parentRevokes ca' p' uri sent reply now => simp [Ev.repoAttempt?] at h
  | parentCerts ca' p' uri reply now => simp [Ev.repoAttempt?] at h
  | childRequest ca' c agent outcome now => simp [Ev.repoAttempt?] at h
  | childSuspended ca' c now => simp [Ev.repoAttempt?] at h
  | parentRemove ca' p' => simp [Ev.repoAttempt?] at h
  | childRemove ca' c => simp [Ev.repoAttempt?] at h
  | caRemove ca' => simp [Ev.repoAttempt?] at h
  | restart => simp [Ev.repoAttempt?] at h

theorem repoProj_keeps_lastSuccess (e : Ev) (ca : String) (r : RepoStatus)
    (h1 : e.repoSuccess ca = false) (h2 : e.removesCa ca = false) :
    (repoProj e ca r).lastSuccess = r.lastSuccess ∧ (repoProj e ca r).published = r.published := by
  cases e with
  | repoList ca' uri reply now =>
    cases reply with
    | ok u =>
      cases u
      have : ¬ ca' = ca := by
        intro a
        simp [Ev.repoSuccess, Ev.repoAttempt?, a, Result.wasSuccess, resultOf] at h1
      simp [repoProj, this]
    | error err =>
      simp only [repoProj]
      split
      · exact ⟨rfl, rfl⟩
      · exact ⟨rfl, rfl⟩
  | repoDelta ca' uri d reply now =>
    cases reply with
    | ok u =>
      cases u
      have : ¬ ca' = ca := by
        intro a
        simp [Ev.repoSuccess, Ev.repoAttempt?, a, Result.wasSuccess, resultOf] at h1
      simp [repoProj, this]
    | error err =>
      simp only [repoProj]
      split
      · exact ⟨rfl, rfl⟩
      · exact ⟨rfl, rfl⟩
  | caRemove ca' =>
    simp only [Ev.removesCa, decide_eq_false_iff_not] at h2
    simp [repoProj, h2]
  | parentList ca' p' uri ex reply now => cases reply <;> exact ⟨rfl, rfl⟩
  | parentRevokes ca' p' uri sent reply now => cases reply <;> exact ⟨rfl, rfl⟩
  | parentCerts ca' p' uri reply now => cases reply <;> exact ⟨rfl, rfl⟩
  | childRequest ca' c agent outcome now => cases outcome <;> exact ⟨rfl, rfl⟩
  | childSuspended ca' c now => exact ⟨rfl, rfl⟩
  | parentRemove ca' p' => exact ⟨rfl, rfl⟩
  | childRemove ca' c => exact ⟨rfl, rfl⟩
  | restart => exact ⟨rfl, rfl⟩

/-! ### children -/

theorem childProj_of_not_touches (e : Ev) (ca c : String) (o : Option ChildStatus)
    (h : e.touchesChild ca c = false) : childProj e ca c o = o := by
  cases e with
  | childRequest ca' c' agent outcome now =>
    simp only [Ev.touchesChild, Bool.and_eq_false_iff, decide_eq_false_iff_not] at h
    have : ¬ (ca' = ca ∧ c' = c) := fun ⟨a, b⟩ => by rcases h with h | h <;> contradiction
    cases outcome with
    | ok u => cases u; simp [childProj, this]
    | error err => simp [childProj, this]
  | childSuspended ca' c' now =>
    simp only [Ev.touchesChild, Bool.and_eq_false_iff, decide_eq_false_iff_not] at h
    have : ¬ (ca' = ca ∧ c' = c) := fun ⟨a, b⟩ => by rcases h with h | h <;> contradiction
    simp [childProj, this]
  | childRemove ca' c' =>
    simp only [Ev.touchesChild, Ev.removesChild, Bool.and_eq_false_iff,
      decide_eq_false_iff_not] at h
    have : ¬ (ca' = ca ∧ c' = c) := fun ⟨a, b⟩ => by rcases h with h | h <;> contradiction
    simp [childProj, this]
  | caRemove ca' =>
    simp only [Ev.touchesChild, Ev.removesChild, Ev.removesCa, decide_eq_false_iff_not] at h
    simp [childProj, h]
  | repoList ca' uri reply now => cases reply <;> rfl
  | repoDelta ca' uri d reply now => cases reply <;> rfl
  | parentList ca' p' uri ex reply now => cases reply <;> rfl
  | parentRevokes ca' p' uri sent reply now => cases reply <;> rfl
  | parentCerts ca' p' uri reply now => cases reply <;> rfl
  | parentRemove ca' p' => rfl
  | restart => rfl

theorem childProj_attempt (e : Ev) (ca c : String) (x : ChildExchange) (o : Option ChildStatus)
    (h : e.childAttempt? = some (ca, c, x)) :
    ∃ st, childProj e ca c o = some st ∧ st.lastExchange = some x ∧ st.suspended = none ∧
      (x.result = .success → st.lastSuccess = some x.time) ∧
      (x.result ≠ .success → st.lastSuccess = (o.getD {}).lastSuccess) := by
  cases e with
  | childRequest ca' c' agent outcome now =>
    simp only [Ev.childAttempt?, Option.some.injEq, Prod.mk.injEq] at h
    obtain ⟨rfl, rfl, rfl⟩ := h
    cases outcome with
    | ok u =>
      cases u
      refine ⟨(o.getD {}).setSuccess agent now, by simp [childProj], rfl, rfl, fun _ => rfl, ?_⟩
      intro h; exact absurd rfl h
    | error err =>
      refine ⟨(o.getD {}).setFailure agent err now, by simp [childProj], rfl, rfl, ?_, fun _ => rfl⟩
      intro h; cases h
  | repoList ca' uri reply now => simp [Ev.childAttempt?] at h
  | repoDelta ca' uri d reply now => simp [Ev.childAttempt?] at h
  | parentList ca' p' uri ex reply now => simp [Ev.childAttempt?] at h
  | parentRevokes ca' p' uri sent reply now => simp [Ev.childAttempt?] at h
  | parentCerts ca' p' uri reply now => simp [Ev.childAttempt?] at h
  | childSuspended ca' c' now => simp [Ev.childAttempt?] at h
  | parentRemove ca' p' => simp [Ev.childAttempt?] at h
  | childRemove ca' c' => simp [Ev.childAttempt?] at h
  | caRemove ca' => simp [Ev.childAttempt?] at h
  | restart => simp [Ev.childAttempt?] at h

/-- Anything but a request of this child or its removal leaves the recorded exchange alone
(the suspension marker is a separate field). -/
theorem childProj_keeps_lastExchange (e : Ev) (ca c : String) (o : Option ChildStatus)
    (h1 : e.childRequestOf ca c = false) (h2 : e.removesChild ca c = false) :
    (childProj e ca c o).bind (·.lastExchange) = o.bind (·.lastExchange) ∧
    (childProj e ca c o).bind (·.lastSuccess) = o.bind (·.lastSuccess) := by
  cases e with
  | childRequest ca' c' agent outcome now =>
    simp only [Ev.childRequestOf, Bool.and_eq_false_iff, decide_eq_false_iff_not] at h1
    have : ¬ (ca' = ca ∧ c' = c) := fun ⟨a, b⟩ => by rcases h1 with h | h <;> contradiction
    cases outcome with
    | ok u => cases u; simp [childProj, this]
    | error err => simp [childProj, this]
  | childSuspended ca' c' now =>
    simp only [childProj]
    split
    · cases o <;> exact ⟨rfl, rfl⟩
    · exact ⟨rfl, rfl⟩
  | childRemove ca' c' =>
    simp only [Ev.removesChild, Bool.and_eq_false_iff, decide_eq_false_iff_not] at h2
    have : ¬ (ca' = ca ∧ c' = c) := fun ⟨a, b⟩ => by rcases h2 with h | h <;> contradiction
    simp [childProj, this]
  | caRemove ca' =>
    simp only [Ev.removesChild, Ev.removesCa, decide_eq_false_iff_not] at h2
    simp [childProj, h2]
  | repoList ca' uri reply now => cases reply <;> exact ⟨rfl, rfl⟩
  | repoDelta ca' uri d reply now => cases reply <;> exact ⟨rfl, rfl⟩
  | parentList ca' p' uri ex reply now => cases reply <;> exact ⟨rfl, rfl⟩
  | parentRevokes ca' p' uri sent reply now => cases reply <;> exact ⟨rfl, rfl⟩
  | parentCerts ca' p' uri reply now => cases reply <;> exact ⟨rfl, rfl⟩
  | parentRemove ca' p' => exact ⟨rfl, rfl⟩
  | restart => exact ⟨rfl, rfl⟩

theorem childProj_keeps_lastSuccess (e : Ev) (ca c : String) (o : Option ChildStatus)
    (h1 : e.childSuccess ca c = false) (h2 : e.removesChild ca c = false) :
    (childProj e ca c o).bind (·.lastSuccess) = o.bind (·.lastSuccess) := by
  cases e with
  | childRequest ca' c' agent outcome now =>
    cases outcome with
    | ok u =>
      cases u
      have : ¬ (ca' = ca ∧ c' = c) := by
        intro ⟨a, b⟩
        simp [Ev.childSuccess, Ev.childAttempt?, a, b, Result.wasSuccess, resultOf] at h1
      simp [childProj, this]
    | error err =>
      simp only [childProj]
      split
      · cases o <;> rfl
      · rfl
  | childSuspended ca' c' now =>
    simp only [childProj]
    split
    · cases o <;> rfl
    · rfl
  | childRemove ca' c' =>
    simp only [Ev.removesChild, Bool.and_eq_false_iff, decide_eq_false_iff_not] at h2
    have : ¬ (ca' = ca ∧ c' = c) := fun ⟨a, b⟩ => by rcases h2 with h | h <;> contradiction
    simp [childProj, this]
  | caRemove ca' =>
    simp only [Ev.removesChild, Ev.removesCa, decide_eq_false_iff_not] at h2
    simp [childProj, h2]
  | repoList ca' uri reply now => cases reply <;> rfl
  | repoDelta ca' uri d reply now => cases reply <;> rfl
  | parentList ca' p' uri ex reply now => cases reply <;> rfl
  | parentRevokes ca' p' uri sent reply now => cases reply <;> rfl
  | parentCerts ca' p' uri reply now => cases reply <;> rfl
  | parentRemove ca' p' => rfl
  | restart => rfl

/-! ## the shadow list of published files -/

theorem entries_append (p q : List File) (u : String) :
    entries (p ++ q) u = entries p u ++ entries q u := by
  simp [entries, List.filter_append]

theorem entries_filter_ne (p : List File) (u v : String) :
    entries (p.filter fun e => e.1 != u) v = if u = v then [] else entries p v := by
  unfold entries
  rw [List.filter_filter]
  by_cases h : u = v
  · subst h
    simp only [if_true, List.map_eq_nil_iff, List.filter_eq_nil_iff]
    intro a _
    by_cases ha : a.1 = u <;> simp [ha]
  · simp only [h, if_false]
    congr 1
    apply List.filter_congr
    intro a _
    by_cases ha : a.1 = v
    · simp [ha]
      intro hh; exact absurd hh.symm h
    · simp [ha]

/-- What one delta element does to the contents listed for a URI: a function of those contents
only. -/
def elEffect (el : DeltaEl) (v : String) (cs : List String) : List String :=
  match el with
  | .publish u c => if u = v then [c] else cs
  | .update u c => if u = v then [c] else cs
  | .withdraw u => if u = v then [] else cs

theorem entries_applyEl (p : List File) (el : DeltaEl) (v : String) :
    entries (applyEl p el) v = elEffect el v (entries p v) := by
  cases el with
  | publish u c =>
    simp only [applyEl, elEffect, entries_append, entries_filter_ne]
    by_cases h : u = v <;> simp [entries, h]
  | update u c =>
    simp only [applyEl, elEffect, entries_append, entries_filter_ne]
    by_cases h : u = v <;> simp [entries, h]
  | withdraw u =>
    simp only [applyEl, elEffect, entries_filter_ne]

theorem inSync_applyEl (p m : List File) (el : DeltaEl) (h : InSync p m) :
    InSync (applyEl p el) (applyEl m el) := by
  intro v
  rw [entries_applyEl, entries_applyEl, h v]

theorem inSync_applyDelta (p m : List File) (d : List DeltaEl) (h : InSync p m) :
    InSync (applyDelta p d) (applyDelta m d) := by
  induction d generalizing p m with
  | nil => exact h
  | cons el t ih => exact ih _ _ (inSync_applyEl p m el h)

theorem filter_ne_of_absent (m : List File) (u : String) (h : m.any (fun e => decide (e.1 = u)) = false) :
    m.filter (fun e => e.1 != u) = m := by
  rw [List.filter_eq_self]
  intro a ha
  simp only [List.any_eq_false, decide_eq_true_eq] at h
  simp [h a ha]

/-- The server applies an accepted element exactly as the shadow list does (the refusals are what
keeps the server's own list free of duplicates). -/
theorem srvApplyEl_eq (m m' : List File) (el : DeltaEl) (h : srvApplyEl m el = some m') :
    m' = applyEl m el := by
  cases el with
  | publish u c =>
    simp only [srvApplyEl] at h
    split at h
    · cases h
    · rename_i hany
      cases h
      simp only [applyEl]
      have habs : m.any (fun e => decide (e.1 = u)) = false := by
        cases hb : m.any (fun e => decide (e.1 = u)) with
        | false => rfl
        | true => exact absurd hb hany
      rw [filter_ne_of_absent m u habs]
  | update u c =>
    simp only [srvApplyEl] at h
    split at h
    · cases h; rfl
    · cases h
  | withdraw u =>
    simp only [srvApplyEl] at h
    split at h
    · cases h; rfl
    · cases h

theorem srvApply_eq (m m' : List File) (d : List DeltaEl) (h : srvApply m d = some m') :
    m' = applyDelta m d := by
  induction d generalizing m with
  | nil => simp [srvApply] at h; exact h.symm
  | cons el t ih =>
    simp only [srvApply] at h
    cases h1 : srvApplyEl m el with
    | none => simp [h1] at h
    | some m1 =>
      simp only [h1, Option.bind_some] at h
      rw [ih m1 h, srvApplyEl_eq m m1 el h1]
      rfl

theorem inSync_refl (p : List File) : InSync p p := fun _ => rfl

theorem inSyncB_iff (p m : List File) : inSyncB p m = true ↔ InSync p m := by
  unfold inSyncB InSync
  constructor
  · intro h u
    simp only [List.all_eq_true, List.mem_append, List.mem_map, beq_iff_eq] at h
    by_cases hu : (∃ a ∈ p, a.1 = u) ∨ (∃ a ∈ m, a.1 = u)
    · exact h u hu
    · have hp : entries p u = [] := by
        simp only [entries, List.map_eq_nil_iff, List.filter_eq_nil_iff, decide_eq_true_eq]
        intro a ha hau; exact hu (Or.inl ⟨a, ha, hau⟩)
      have hm : entries m u = [] := by
        simp only [entries, List.map_eq_nil_iff, List.filter_eq_nil_iff, decide_eq_true_eq]
        intro a ha hau; exact hu (Or.inr ⟨a, ha, hau⟩)
      rw [hp, hm]
  · intro h
    simp only [List.all_eq_true, beq_iff_eq]
    intro u _
    exact h u

theorem nodup_filter_ne (p : List File) (u : String) (h : (p.map (·.1)).Nodup) :
    ((p.filter fun e => e.1 != u).map (·.1)).Nodup :=
  List.Nodup.sublist (List.Sublist.map _ List.filter_sublist) h

theorem not_mem_filter_ne (p : List File) (u : String) :
    u ∉ (p.filter fun e => e.1 != u).map (·.1) := by
  simp only [List.mem_map, List.mem_filter, not_exists, not_and, and_imp]
  intro a _ ha hau
  simp [hau] at ha

theorem nodup_applyEl (p : List File) (el : DeltaEl) (h : (p.map (·.1)).Nodup) :
    ((applyEl p el).map (·.1)).Nodup := by
  have push : ∀ (u c : String),
      (((p.filter fun (e : File) => e.1 != u) ++ [(u, c)]).map (fun (e : File) => e.1)).Nodup := by
    intro u c
    simp only [List.map_append, List.map_cons, List.map_nil]
    rw [List.nodup_append]
    refine ⟨nodup_filter_ne p u h, by simp, ?_⟩
    intro a ha b hb
    simp only [List.mem_singleton] at hb
    subst hb
    intro hab
    subst hab
    exact not_mem_filter_ne p a ha
  cases el with
  | publish u c => exact push u c
  | update u c => exact push u c
  | withdraw u => exact nodup_filter_ne p u h

theorem nodup_applyDelta (p : List File) (d : List DeltaEl) (h : (p.map (·.1)).Nodup) :
    ((applyDelta p d).map (·.1)).Nodup := by
  induction d generalizing p with
  | nil => exact h
  | cons el t ih => exact ih (applyEl p el) (nodup_applyEl p el h)

/-! ## status store next to the publication server -/

/-- One accepted delta: the shadow list does to itself what the server did to its content. -/
theorem inSync_of_accepted (p m m' : List File) (d : List DeltaEl)
    (hsync : InSync p m) (hacc : srvApply m d = some m') : InSync (applyDelta p d) m' := by
  rw [srvApply_eq m m' d hacc]
  exact inSync_applyDelta p m d hsync

theorem wstep_keeps_inSync (ca uri : String) (w : World) (m : List File)
    (hc : Consistent w.store) (hs : w.server = some m)
    (hin : InSync (w.store.repo ca).published m)
    (e : WEv) (he : e.outOfBand = false ∧ e.foreign ca = false) :
    Consistent (wstep ca uri w e).store ∧
    ∃ m', (wstep ca uri w e).server = some m' ∧
      InSync ((wstep ca uri w e).store.repo ca).published m' := by
  cases e with
  | publisherRemoved => simp [WEv.outOfBand] at he
  | publisherAdded => simp [WEv.outOfBand] at he
  | other ev =>
    simp only [WEv.foreign] at he
    refine ⟨consistent_step _ hc ev, m, hs, ?_⟩
    show InSync ((step w.store ev).repo ca).published m
    rw [repo_step _ hc, repoProj_of_not_touches ev ca _ he.2]
    exact hin
  | sync objects now =>
    have hw : wstep ca uri w (.sync objects now) =
        { store := run w.store
            (repoSyncEvents ca uri true (some m) objects "list-refused" "delta-refused" now).1,
          server := (repoSyncEvents ca uri true (some m) objects "list-refused" "delta-refused" now).2 } := by
      simp [wstep, hs]
    rw [hw]
    refine ⟨consistent_run _ hc _, ?_⟩
    simp only [repoSyncEvents]
    by_cases hd : (diffDelta m objects).isEmpty = true
    · simp only [hd, if_true]
      refine ⟨m, rfl, ?_⟩
      rw [repo_run _ hc]
      simpa [repoProj, RepoStatus.setLastUpdated] using hin
    · simp only [hd, Bool.false_eq_true, if_false]
      cases hacc : srvApply m (diffDelta m objects) with
      | some m' =>
        refine ⟨m', rfl, ?_⟩
        simp only []
        rw [repo_run _ hc]
        simp only [List.foldl_cons, List.foldl_nil, repoProj, if_true,
          RepoStatus.updatePublished, RepoStatus.setLastUpdated]
        exact inSync_of_accepted _ m m' _ hin hacc
      | none =>
        refine ⟨m, rfl, ?_⟩
        simp only []
        rw [repo_run _ hc]
        simpa [repoProj, RepoStatus.setLastUpdated, RepoStatus.setFailure] using hin

set_option linter.unusedSimpArgs false

/-! ## the view is what the most recent event says (arbitrary histories) -/

theorem lastTouch_cons {β} (cls : Ev → Option β) (e : Ev) (t : List Ev) :
    lastTouch cls (e :: t) = (lastTouch cls t).or (cls e) := by
  simp [lastTouch, List.findSome?_append]

/-- If every event either leaves an observation of an entry alone or determines it outright, the
observation after a history is what the most recent determining event says. -/
theorem foldl_lastTouch {σ γ} (proj : Ev → σ → σ) (obs : σ → γ) (cls : Ev → Option γ)
    (h : ∀ e o, obs (proj e o) = (cls e).getD (obs o))
    (evs : List Ev) (o0 : σ) :
    obs (evs.foldl (fun o e => proj e o) o0) = (lastTouch cls evs).getD (obs o0) := by
  induction evs generalizing o0 with
  | nil => rfl
  | cons e t ih =>
    simp only [List.foldl_cons]
    rw [ih (proj e o0), lastTouch_cons]
    cases lastTouch cls t with
    | some g => rfl
    | none => simpa using h e o0

theorem parentProj_exchangeSays (e : Ev) (ca p : String) (o : Option ParentStatus) :
    (parentProj e ca p o).bind (·.lastExchange) =
      (e.parentExchangeSays ca p).getD (o.bind (·.lastExchange)) := by
  cases e with
  | parentList ca' p' uri ex reply now =>
    by_cases h : ca' = ca ∧ p' = p
    · cases reply with
      | ok ent => simp [parentProj, Ev.parentExchangeSays, Ev.parentAttempt?, h, ParentStatus.setEntitlements, ParentStatus.setLastUpdated]
      | error err =>
        cases ex <;> simp [parentProj, Ev.parentExchangeSays, Ev.parentAttempt?, h, ParentStatus.setFailure, Ev.removesParent, Ev.removesCa]
    · cases reply with
      | ok ent => simp [parentProj, Ev.parentExchangeSays, Ev.parentAttempt?, h]
      | error err =>
        have h' : ¬ (ca' = ca ∧ p' = p ∧ ex = true) := fun ⟨a, b, _⟩ => h ⟨a, b⟩
        cases ex <;> simp [parentProj, Ev.parentExchangeSays, Ev.parentAttempt?, h, Ev.removesParent, Ev.removesCa]
  | parentRevokes ca' p' uri sent reply now =>
    by_cases h : ca' = ca ∧ p' = p
    · cases reply with
      | ok u => cases u; simp [parentProj, Ev.parentExchangeSays, Ev.parentAttempt?, h, ParentStatus.setLastUpdated, resultOf]
      | error err => simp [parentProj, Ev.parentExchangeSays, Ev.parentAttempt?, h, ParentStatus.setFailure, resultOf]
    · cases reply with
      | ok u => cases u; simp [parentProj, Ev.parentExchangeSays, Ev.parentAttempt?, h]
      | error err => simp [parentProj, Ev.parentExchangeSays, Ev.parentAttempt?, h]
  | parentCerts ca' p' uri reply now =>
    by_cases h : ca' = ca ∧ p' = p
    · cases reply with
      | ok u => cases u; simp [parentProj, Ev.parentExchangeSays, Ev.parentAttempt?, h, ParentStatus.setLastUpdated, resultOf]
      | error err => simp [parentProj, Ev.parentExchangeSays, Ev.parentAttempt?, h, ParentStatus.setFailure, resultOf]
    · cases reply with
      | ok u => cases u; simp [parentProj, Ev.parentExchangeSays, Ev.parentAttempt?, h]
      | error err => simp [parentProj, Ev.parentExchangeSays, Ev.parentAttempt?, h]
  | parentRemove ca' p' =>
    by_cases h : ca' = ca ∧ p' = p
    · simp [parentProj, Ev.parentExchangeSays, Ev.parentAttempt?, Ev.removesParent, h]
    · have : (decide (ca' = ca) && decide (p' = p)) = false := by
        simp only [Bool.and_eq_false_iff, decide_eq_false_iff_not]
        by_cases a : ca' = ca
        · exact Or.inr (fun b => h ⟨a, b⟩)
        · exact Or.inl a
      simp [parentProj, Ev.parentExchangeSays, Ev.parentAttempt?, Ev.removesParent, h, this]
  | caRemove ca' =>
    by_cases h : ca' = ca <;> simp [parentProj, Ev.parentExchangeSays, Ev.parentAttempt?, Ev.removesParent, Ev.removesCa, h]
  | repoList ca' uri reply now => cases reply <;> simp [parentProj, Ev.parentExchangeSays, Ev.parentAttempt?, Ev.removesParent, Ev.removesCa]
  | repoDelta ca' uri d reply now => cases reply <;> simp [parentProj, Ev.parentExchangeSays, Ev.parentAttempt?, Ev.removesParent, Ev.removesCa]
  | childRequest ca' c agent outcome now => cases outcome <;> simp [parentProj, Ev.parentExchangeSays, Ev.parentAttempt?, Ev.removesParent, Ev.removesCa]
  | childSuspended ca' c now => simp [parentProj, Ev.parentExchangeSays, Ev.parentAttempt?, Ev.removesParent, Ev.removesCa]
  | childRemove ca' c => simp [parentProj, Ev.parentExchangeSays, Ev.parentAttempt?, Ev.removesParent, Ev.removesCa]
  | restart => simp [parentProj, Ev.parentExchangeSays, Ev.parentAttempt?, Ev.removesParent, Ev.removesCa]

theorem parentProj_successSays (e : Ev) (ca p : String) (o : Option ParentStatus) :
    (fun (o : Option ParentStatus) => o.bind (·.lastSuccess)) (parentProj e ca p o) = (e.parentSuccessSays ca p).getD ((fun (o : Option ParentStatus) => o.bind (·.lastSuccess)) o) := by
  cases e with
  | parentList ca' p' uri ex reply now =>
    by_cases h : ca' = ca ∧ p' = p
    all_goals (have h3 : ¬ (ca' = ca ∧ p' = p) → ∀ (q : Prop), ¬ (ca' = ca ∧ p' = p ∧ q) := fun hh q ⟨a, b, _⟩ => hh ⟨a, b⟩)
    · cases reply with
      | ok ent => cases o <;> simp [parentProj, Ev.parentSuccessSays, Ev.parentAttempt?, h, ParentStatus.setEntitlements, ParentStatus.setLastUpdated, ParentStatus.setFailure, resultOf]
      | error err =>
        cases ex <;> cases o <;> simp [parentProj, Ev.parentSuccessSays, Ev.parentAttempt?, h, ParentStatus.setEntitlements, ParentStatus.setLastUpdated, ParentStatus.setFailure, resultOf, Ev.removesParent, Ev.removesCa]
    · cases reply with
      | ok ent => simp [parentProj, Ev.parentSuccessSays, Ev.parentAttempt?, h, h3 h, Ev.removesParent, Ev.removesCa]
      | error err =>
        cases ex <;> simp [parentProj, Ev.parentSuccessSays, Ev.parentAttempt?, h, h3 h, Ev.removesParent, Ev.removesCa]
  | parentRevokes ca' p' uri sent reply now =>
    by_cases h : ca' = ca ∧ p' = p
    all_goals (have h3 : ¬ (ca' = ca ∧ p' = p) → ∀ (q : Prop), ¬ (ca' = ca ∧ p' = p ∧ q) := fun hh q ⟨a, b, _⟩ => hh ⟨a, b⟩)
    · cases reply with
      | ok u => cases u; cases o <;> simp [parentProj, Ev.parentSuccessSays, Ev.parentAttempt?, h, ParentStatus.setEntitlements, ParentStatus.setLastUpdated, ParentStatus.setFailure, resultOf, Ev.removesParent, Ev.removesCa]
      | error err => cases o <;> simp [parentProj, Ev.parentSuccessSays, Ev.parentAttempt?, h, ParentStatus.setEntitlements, ParentStatus.setLastUpdated, ParentStatus.setFailure, resultOf, Ev.removesParent, Ev.removesCa]
    · cases reply with
      | ok u => cases u; simp [parentProj, Ev.parentSuccessSays, Ev.parentAttempt?, h, h3 h, Ev.removesParent, Ev.removesCa]
      | error err => simp [parentProj, Ev.parentSuccessSays, Ev.parentAttempt?, h, h3 h, Ev.removesParent, Ev.removesCa]
  | parentCerts ca' p' uri reply now =>
    by_cases h : ca' = ca ∧ p' = p
    all_goals (have h3 : ¬ (ca' = ca ∧ p' = p) → ∀ (q : Prop), ¬ (ca' = ca ∧ p' = p ∧ q) := fun hh q ⟨a, b, _⟩ => hh ⟨a, b⟩)
    · cases reply with
      | ok u => cases u; cases o <;> simp [parentProj, Ev.parentSuccessSays, Ev.parentAttempt?, h, ParentStatus.setEntitlements, ParentStatus.setLastUpdated, ParentStatus.setFailure, resultOf, Ev.removesParent, Ev.removesCa]
      | error err => cases o <;> simp [parentProj, Ev.parentSuccessSays, Ev.parentAttempt?, h, ParentStatus.setEntitlements, ParentStatus.setLastUpdated, ParentStatus.setFailure, resultOf, Ev.removesParent, Ev.removesCa]
    · cases reply with
      | ok u => cases u; simp [parentProj, Ev.parentSuccessSays, Ev.parentAttempt?, h, h3 h, Ev.removesParent, Ev.removesCa]
      | error err => simp [parentProj, Ev.parentSuccessSays, Ev.parentAttempt?, h, h3 h, Ev.removesParent, Ev.removesCa]
  | parentRemove ca' p' =>
    by_cases h : ca' = ca ∧ p' = p
    · simp [parentProj, Ev.parentSuccessSays, Ev.parentAttempt?, Ev.removesParent, h]
    · have : (decide (ca' = ca) && decide (p' = p)) = false := by
        simp only [Bool.and_eq_false_iff, decide_eq_false_iff_not]
        by_cases a : ca' = ca
        · exact Or.inr (fun b => h ⟨a, b⟩)
        · exact Or.inl a
      simp [parentProj, Ev.parentSuccessSays, Ev.parentAttempt?, Ev.removesParent, h, this]
  | caRemove ca' =>
    by_cases h : ca' = ca <;> simp [parentProj, Ev.parentSuccessSays, Ev.parentAttempt?, Ev.removesParent, Ev.removesCa, h]
  | repoList ca' uri reply now => cases reply <;> simp [parentProj, Ev.parentSuccessSays, Ev.parentAttempt?, Ev.removesParent, Ev.removesCa]
  | repoDelta ca' uri d reply now => cases reply <;> simp [parentProj, Ev.parentSuccessSays, Ev.parentAttempt?, Ev.removesParent, Ev.removesCa]
  | childRequest ca' c agent outcome now => cases outcome <;> simp [parentProj, Ev.parentSuccessSays, Ev.parentAttempt?, Ev.removesParent, Ev.removesCa]
  | childSuspended ca' c now => simp [parentProj, Ev.parentSuccessSays, Ev.parentAttempt?, Ev.removesParent, Ev.removesCa]
  | childRemove ca' c => simp [parentProj, Ev.parentSuccessSays, Ev.parentAttempt?, Ev.removesParent, Ev.removesCa]
  | restart => simp [parentProj, Ev.parentSuccessSays, Ev.parentAttempt?, Ev.removesParent, Ev.removesCa]

theorem parentProj_entitlementsSay (e : Ev) (ca p : String) (o : Option ParentStatus) :
    (fun (o : Option ParentStatus) => (o.getD {}).classes) (parentProj e ca p o) = (e.entitlementsSay ca p).getD ((fun (o : Option ParentStatus) => (o.getD {}).classes) o) := by
  cases e with
  | parentList ca' p' uri ex reply now =>
    by_cases h : ca' = ca ∧ p' = p
    all_goals (have h3 : ¬ (ca' = ca ∧ p' = p) → ∀ (q : Prop), ¬ (ca' = ca ∧ p' = p ∧ q) := fun hh q ⟨a, b, _⟩ => hh ⟨a, b⟩)
    · cases reply with
      | ok ent => cases o <;> simp [parentProj, Ev.entitlementsSay, Ev.parentAttempt?, h, ParentStatus.setEntitlements, ParentStatus.setLastUpdated, ParentStatus.setFailure, resultOf]
      | error err =>
        cases ex <;> cases o <;> simp [parentProj, Ev.entitlementsSay, Ev.parentAttempt?, h, ParentStatus.setEntitlements, ParentStatus.setLastUpdated, ParentStatus.setFailure, resultOf, Ev.removesParent, Ev.removesCa]
    · cases reply with
      | ok ent => simp [parentProj, Ev.entitlementsSay, Ev.parentAttempt?, h, h3 h, Ev.removesParent, Ev.removesCa]
      | error err =>
        cases ex <;> simp [parentProj, Ev.entitlementsSay, Ev.parentAttempt?, h, h3 h, Ev.removesParent, Ev.removesCa]
  | parentRevokes ca' p' uri sent reply now =>
    by_cases h : ca' = ca ∧ p' = p
    all_goals (have h3 : ¬ (ca' = ca ∧ p' = p) → ∀ (q : Prop), ¬ (ca' = ca ∧ p' = p ∧ q) := fun hh q ⟨a, b, _⟩ => hh ⟨a, b⟩)
    · cases reply with
      | ok u => cases u; cases o <;> simp [parentProj, Ev.entitlementsSay, Ev.parentAttempt?, h, ParentStatus.setEntitlements, ParentStatus.setLastUpdated, ParentStatus.setFailure, resultOf, Ev.removesParent, Ev.removesCa]
      | error err => cases o <;> simp [parentProj, Ev.entitlementsSay, Ev.parentAttempt?, h, ParentStatus.setEntitlements, ParentStatus.setLastUpdated, ParentStatus.setFailure, resultOf, Ev.removesParent, Ev.removesCa]
    · cases reply with
      | ok u => cases u; simp [parentProj, Ev.entitlementsSay, Ev.parentAttempt?, h, h3 h, Ev.removesParent, Ev.removesCa]
      | error err => simp [parentProj, Ev.entitlementsSay, Ev.parentAttempt?, h, h3 h, Ev.removesParent, Ev.removesCa]
  | parentCerts ca' p' uri reply now =>
    by_cases h : ca' = ca ∧ p' = p
    all_goals (have h3 : ¬ (ca' = ca ∧ p' = p) → ∀ (q : Prop), ¬ (ca' = ca ∧ p' = p ∧ q) := fun hh q ⟨a, b, _⟩ => hh ⟨a, b⟩)
    · cases reply with
      | ok u => cases u; cases o <;> simp [parentProj, Ev.entitlementsSay, Ev.parentAttempt?, h, ParentStatus.setEntitlements, ParentStatus.setLastUpdated, ParentStatus.setFailure, resultOf, Ev.removesParent, Ev.removesCa]
      | error err => cases o <;> simp [parentProj, Ev.entitlementsSay, Ev.parentAttempt?, h, ParentStatus.setEntitlements, ParentStatus.setLastUpdated, ParentStatus.setFailure, resultOf, Ev.removesParent, Ev.removesCa]
    · cases reply with
      | ok u => cases u; simp [parentProj, Ev.entitlementsSay, Ev.parentAttempt?, h, h3 h, Ev.removesParent, Ev.removesCa]
      | error err => simp [parentProj, Ev.entitlementsSay, Ev.parentAttempt?, h, h3 h, Ev.removesParent, Ev.removesCa]
  | parentRemove ca' p' =>
    by_cases h : ca' = ca ∧ p' = p
    · simp [parentProj, Ev.entitlementsSay, Ev.parentAttempt?, Ev.removesParent, h]
    · have : (decide (ca' = ca) && decide (p' = p)) = false := by
        simp only [Bool.and_eq_false_iff, decide_eq_false_iff_not]
        by_cases a : ca' = ca
        · exact Or.inr (fun b => h ⟨a, b⟩)
        · exact Or.inl a
      simp [parentProj, Ev.entitlementsSay, Ev.parentAttempt?, Ev.removesParent, h, this]
  | caRemove ca' =>
    by_cases h : ca' = ca <;> simp [parentProj, Ev.entitlementsSay, Ev.parentAttempt?, Ev.removesParent, Ev.removesCa, h]
  | repoList ca' uri reply now => cases reply <;> simp [parentProj, Ev.entitlementsSay, Ev.parentAttempt?, Ev.removesParent, Ev.removesCa]
  | repoDelta ca' uri d reply now => cases reply <;> simp [parentProj, Ev.entitlementsSay, Ev.parentAttempt?, Ev.removesParent, Ev.removesCa]
  | childRequest ca' c agent outcome now => cases outcome <;> simp [parentProj, Ev.entitlementsSay, Ev.parentAttempt?, Ev.removesParent, Ev.removesCa]
  | childSuspended ca' c now => simp [parentProj, Ev.entitlementsSay, Ev.parentAttempt?, Ev.removesParent, Ev.removesCa]
  | childRemove ca' c => simp [parentProj, Ev.entitlementsSay, Ev.parentAttempt?, Ev.removesParent, Ev.removesCa]
  | restart => simp [parentProj, Ev.entitlementsSay, Ev.parentAttempt?, Ev.removesParent, Ev.removesCa]

theorem repoProj_exchangeSays (e : Ev) (ca : String) (r : RepoStatus) :
    (fun (r : RepoStatus) => r.lastExchange) (repoProj e ca r) = (e.repoExchangeSays ca).getD ((fun (r : RepoStatus) => r.lastExchange) r) := by
  cases e with
  | repoList ca' uri reply now =>
    by_cases h : ca' = ca
    all_goals (have h3 : ¬ (ca' = ca) → ∀ (q : Prop), ¬ (ca' = ca ∧ q) := fun hh q ⟨a, _⟩ => hh a)
    · cases reply with
      | ok u => cases u; simp [repoProj, Ev.repoExchangeSays, Ev.repoAttempt?, h, RepoStatus.setLastUpdated, RepoStatus.setFailure, RepoStatus.updatePublished, resultOf]
      | error err => simp [repoProj, Ev.repoExchangeSays, Ev.repoAttempt?, h, RepoStatus.setLastUpdated, RepoStatus.setFailure, RepoStatus.updatePublished, resultOf]
    · cases reply with
      | ok u => cases u; simp [repoProj, Ev.repoExchangeSays, Ev.repoAttempt?, h, h3 h]
      | error err => simp [repoProj, Ev.repoExchangeSays, Ev.repoAttempt?, h, h3 h]
  | repoDelta ca' uri d reply now =>
    by_cases h : ca' = ca
    all_goals (have h3 : ¬ (ca' = ca) → ∀ (q : Prop), ¬ (ca' = ca ∧ q) := fun hh q ⟨a, _⟩ => hh a)
    · cases reply with
      | ok u => cases u; simp [repoProj, Ev.repoExchangeSays, Ev.repoAttempt?, h, RepoStatus.setLastUpdated, RepoStatus.setFailure, RepoStatus.updatePublished, resultOf]
      | error err => simp [repoProj, Ev.repoExchangeSays, Ev.repoAttempt?, h, RepoStatus.setLastUpdated, RepoStatus.setFailure, RepoStatus.updatePublished, resultOf]
    · cases reply with
      | ok u => cases u; simp [repoProj, Ev.repoExchangeSays, Ev.repoAttempt?, h, h3 h]
      | error err => simp [repoProj, Ev.repoExchangeSays, Ev.repoAttempt?, h, h3 h]
  | caRemove ca' =>
    by_cases h : ca' = ca <;> simp [repoProj, Ev.repoExchangeSays, Ev.repoAttempt?, Ev.removesCa, h]
  | parentList ca' p' uri ex reply now => cases reply <;> simp [repoProj, Ev.repoExchangeSays, Ev.repoAttempt?, Ev.removesCa]
  | parentRevokes ca' p' uri sent reply now => cases reply <;> simp [repoProj, Ev.repoExchangeSays, Ev.repoAttempt?, Ev.removesCa]
  | parentCerts ca' p' uri reply now => cases reply <;> simp [repoProj, Ev.repoExchangeSays, Ev.repoAttempt?, Ev.removesCa]
  | childRequest ca' c agent outcome now => cases outcome <;> simp [repoProj, Ev.repoExchangeSays, Ev.repoAttempt?, Ev.removesCa]
  | childSuspended ca' c now => simp [repoProj, Ev.repoExchangeSays, Ev.repoAttempt?, Ev.removesCa]
  | parentRemove ca' p' => simp [repoProj, Ev.repoExchangeSays, Ev.repoAttempt?, Ev.removesCa]
  | childRemove ca' c => simp [repoProj, Ev.repoExchangeSays, Ev.repoAttempt?, Ev.removesCa]
  | restart => simp [repoProj, Ev.repoExchangeSays, Ev.repoAttempt?, Ev.removesCa]

theorem repoProj_successSays (e : Ev) (ca : String) (r : RepoStatus) :
    (fun (r : RepoStatus) => r.lastSuccess) (repoProj e ca r) = (e.repoSuccessSays ca).getD ((fun (r : RepoStatus) => r.lastSuccess) r) := by
  cases e with
  | repoList ca' uri reply now =>
    by_cases h : ca' = ca
    all_goals (have h3 : ¬ (ca' = ca) → ∀ (q : Prop), ¬ (ca' = ca ∧ q) := fun hh q ⟨a, _⟩ => hh a)
    · cases reply with
      | ok u => cases u; simp [repoProj, Ev.repoSuccessSays, Ev.repoAttempt?, h, RepoStatus.setLastUpdated, RepoStatus.setFailure, RepoStatus.updatePublished, resultOf]
      | error err => simp [repoProj, Ev.repoSuccessSays, Ev.repoAttempt?, h, RepoStatus.setLastUpdated, RepoStatus.setFailure, RepoStatus.updatePublished, resultOf]
    · cases reply with
      | ok u => cases u; simp [repoProj, Ev.repoSuccessSays, Ev.repoAttempt?, h, h3 h]
      | error err => simp [repoProj, Ev.repoSuccessSays, Ev.repoAttempt?, h, h3 h]
  | repoDelta ca' uri d reply now =>
    by_cases h : ca' = ca
    all_goals (have h3 : ¬ (ca' = ca) → ∀ (q : Prop), ¬ (ca' = ca ∧ q) := fun hh q ⟨a, _⟩ => hh a)
    · cases reply with
      | ok u => cases u; simp [repoProj, Ev.repoSuccessSays, Ev.repoAttempt?, h, RepoStatus.setLastUpdated, RepoStatus.setFailure, RepoStatus.updatePublished, resultOf]
      | error err => simp [repoProj, Ev.repoSuccessSays, Ev.repoAttempt?, h, RepoStatus.setLastUpdated, RepoStatus.setFailure, RepoStatus.updatePublished, resultOf]
    · cases reply with
      | ok u => cases u; simp [repoProj, Ev.repoSuccessSays, Ev.repoAttempt?, h, h3 h]
      | error err => simp [repoProj, Ev.repoSuccessSays, Ev.repoAttempt?, h, h3 h]
  | caRemove ca' =>
    by_cases h : ca' = ca <;> simp [repoProj, Ev.repoSuccessSays, Ev.repoAttempt?, Ev.removesCa, h]
  | parentList ca' p' uri ex reply now => cases reply <;> simp [repoProj, Ev.repoSuccessSays, Ev.repoAttempt?, Ev.removesCa]
  | parentRevokes ca' p' uri sent reply now => cases reply <;> simp [repoProj, Ev.repoSuccessSays, Ev.repoAttempt?, Ev.removesCa]
  | parentCerts ca' p' uri reply now => cases reply <;> simp [repoProj, Ev.repoSuccessSays, Ev.repoAttempt?, Ev.removesCa]
  | childRequest ca' c agent outcome now => cases outcome <;> simp [repoProj, Ev.repoSuccessSays, Ev.repoAttempt?, Ev.removesCa]
  | childSuspended ca' c now => simp [repoProj, Ev.repoSuccessSays, Ev.repoAttempt?, Ev.removesCa]
  | parentRemove ca' p' => simp [repoProj, Ev.repoSuccessSays, Ev.repoAttempt?, Ev.removesCa]
  | childRemove ca' c => simp [repoProj, Ev.repoSuccessSays, Ev.repoAttempt?, Ev.removesCa]
  | restart => simp [repoProj, Ev.repoSuccessSays, Ev.repoAttempt?, Ev.removesCa]

theorem childProj_exchangeSays (e : Ev) (ca c : String) (o : Option ChildStatus) :
    (fun (o : Option ChildStatus) => o.bind (·.lastExchange)) (childProj e ca c o) = (e.childExchangeSays ca c).getD ((fun (o : Option ChildStatus) => o.bind (·.lastExchange)) o) := by
  cases e with
  | childRequest ca' c' agent outcome now =>
    by_cases h : ca' = ca ∧ c' = c
    · cases outcome with
      | ok u => cases u; cases o <;> simp [childProj, Ev.childExchangeSays, Ev.childAttempt?, h, ChildStatus.setSuccess, ChildStatus.setFailure, ChildStatus.setSuspended, resultOf]
      | error err => cases o <;> simp [childProj, Ev.childExchangeSays, Ev.childAttempt?, h, ChildStatus.setSuccess, ChildStatus.setFailure, ChildStatus.setSuspended, resultOf]
    · cases outcome with
      | ok u => cases u; simp [childProj, Ev.childExchangeSays, Ev.childAttempt?, h, Ev.removesChild, Ev.removesCa]
      | error err => simp [childProj, Ev.childExchangeSays, Ev.childAttempt?, h, Ev.removesChild, Ev.removesCa]
  | childSuspended ca' c' now =>
    by_cases h : ca' = ca ∧ c' = c
    · cases o <;> simp [childProj, Ev.childExchangeSays, Ev.childAttempt?, h, ChildStatus.setSuccess, ChildStatus.setFailure, ChildStatus.setSuspended, resultOf, Ev.removesChild, Ev.removesCa]
    · simp [childProj, Ev.childExchangeSays, Ev.childAttempt?, h, Ev.removesChild, Ev.removesCa]
  | childRemove ca' c' =>
    by_cases h : ca' = ca ∧ c' = c
    · simp [childProj, Ev.childExchangeSays, Ev.childAttempt?, Ev.removesChild, h]
    · have : (decide (ca' = ca) && decide (c' = c)) = false := by
        simp only [Bool.and_eq_false_iff, decide_eq_false_iff_not]
        by_cases a : ca' = ca
        · exact Or.inr (fun b => h ⟨a, b⟩)
        · exact Or.inl a
      simp [childProj, Ev.childExchangeSays, Ev.childAttempt?, Ev.removesChild, h, this]
  | caRemove ca' =>
    by_cases h : ca' = ca <;> simp [childProj, Ev.childExchangeSays, Ev.childAttempt?, Ev.removesChild, Ev.removesCa, h]
  | repoList ca' uri reply now => cases reply <;> simp [childProj, Ev.childExchangeSays, Ev.childAttempt?, Ev.removesChild, Ev.removesCa]
  | repoDelta ca' uri d reply now => cases reply <;> simp [childProj, Ev.childExchangeSays, Ev.childAttempt?, Ev.removesChild, Ev.removesCa]
  | parentList ca' p' uri ex reply now => cases reply <;> simp [childProj, Ev.childExchangeSays, Ev.childAttempt?, Ev.removesChild, Ev.removesCa]
  | parentRevokes ca' p' uri sent reply now => cases reply <;> simp [childProj, Ev.childExchangeSays, Ev.childAttempt?, Ev.removesChild, Ev.removesCa]
  | parentCerts ca' p' uri reply now => cases reply <;> simp [childProj, Ev.childExchangeSays, Ev.childAttempt?, Ev.removesChild, Ev.removesCa]
  | parentRemove ca' p' => simp [childProj, Ev.childExchangeSays, Ev.childAttempt?, Ev.removesChild, Ev.removesCa]
  | restart => simp [childProj, Ev.childExchangeSays, Ev.childAttempt?, Ev.removesChild, Ev.removesCa]

theorem childProj_suspendedSays (e : Ev) (ca c : String) (o : Option ChildStatus) :
    (fun (o : Option ChildStatus) => o.bind (·.suspended)) (childProj e ca c o) = (e.suspendedSays ca c).getD ((fun (o : Option ChildStatus) => o.bind (·.suspended)) o) := by
  cases e with
  | childRequest ca' c' agent outcome now =>
    by_cases h : ca' = ca ∧ c' = c
    · cases outcome with
      | ok u => cases u; cases o <;> simp [childProj, Ev.suspendedSays, Ev.childAttempt?, h, ChildStatus.setSuccess, ChildStatus.setFailure, ChildStatus.setSuspended, resultOf]
      | error err => cases o <;> simp [childProj, Ev.suspendedSays, Ev.childAttempt?, h, ChildStatus.setSuccess, ChildStatus.setFailure, ChildStatus.setSuspended, resultOf]
    · cases outcome with
      | ok u => cases u; simp [childProj, Ev.suspendedSays, Ev.childAttempt?, h, Ev.removesChild, Ev.removesCa]
      | error err => simp [childProj, Ev.suspendedSays, Ev.childAttempt?, h, Ev.removesChild, Ev.removesCa]
  | childSuspended ca' c' now =>
    by_cases h : ca' = ca ∧ c' = c
    · cases o <;> simp [childProj, Ev.suspendedSays, Ev.childAttempt?, h, ChildStatus.setSuccess, ChildStatus.setFailure, ChildStatus.setSuspended, resultOf, Ev.removesChild, Ev.removesCa]
    · simp [childProj, Ev.suspendedSays, Ev.childAttempt?, h, Ev.removesChild, Ev.removesCa]
  | childRemove ca' c' =>
    by_cases h : ca' = ca ∧ c' = c
    · simp [childProj, Ev.suspendedSays, Ev.childAttempt?, Ev.removesChild, h]
    · have : (decide (ca' = ca) && decide (c' = c)) = false := by
        simp only [Bool.and_eq_false_iff, decide_eq_false_iff_not]
        by_cases a : ca' = ca
        · exact Or.inr (fun b => h ⟨a, b⟩)
        · exact Or.inl a
      simp [childProj, Ev.suspendedSays, Ev.childAttempt?, Ev.removesChild, h, this]
  | caRemove ca' =>
    by_cases h : ca' = ca <;> simp [childProj, Ev.suspendedSays, Ev.childAttempt?, Ev.removesChild, Ev.removesCa, h]
  | repoList ca' uri reply now => cases reply <;> simp [childProj, Ev.suspendedSays, Ev.childAttempt?, Ev.removesChild, Ev.removesCa]
  | repoDelta ca' uri d reply now => cases reply <;> simp [childProj, Ev.suspendedSays, Ev.childAttempt?, Ev.removesChild, Ev.removesCa]
  | parentList ca' p' uri ex reply now => cases reply <;> simp [childProj, Ev.suspendedSays, Ev.childAttempt?, Ev.removesChild, Ev.removesCa]
  | parentRevokes ca' p' uri sent reply now => cases reply <;> simp [childProj, Ev.suspendedSays, Ev.childAttempt?, Ev.removesChild, Ev.removesCa]
  | parentCerts ca' p' uri reply now => cases reply <;> simp [childProj, Ev.suspendedSays, Ev.childAttempt?, Ev.removesChild, Ev.removesCa]
  | parentRemove ca' p' => simp [childProj, Ev.suspendedSays, Ev.childAttempt?, Ev.removesChild, Ev.removesCa]
  | restart => simp [childProj, Ev.suspendedSays, Ev.childAttempt?, Ev.removesChild, Ev.removesCa]

theorem lastTouch_snoc {β} (cls : Ev → Option β) (evs : List Ev) (e : Ev) (d : β) :
    (lastTouch cls (evs ++ [e])).getD d = (cls e).getD ((lastTouch cls evs).getD d) := by
  simp only [lastTouch, List.reverse_append, List.reverse_cons, List.reverse_nil, List.nil_append,
    List.singleton_append, List.findSome?_cons]
  cases cls e <;> rfl

theorem repoProj_keeps_nodup (e : Ev) (ca : String) (r : RepoStatus)
    (hr : (r.published.map (·.1)).Nodup) : ((repoProj e ca r).published.map (·.1)).Nodup := by
  cases e with
  | repoList ca' uri reply now =>
    cases reply with
    | ok u => cases u; simp only [repoProj]; split <;> simpa [RepoStatus.setLastUpdated] using hr
    | error err => simp only [repoProj]; split <;> simpa [RepoStatus.setFailure] using hr
  | repoDelta ca' uri d reply now =>
    cases reply with
    | ok u =>
      cases u
      simp only [repoProj]
      split
      · exact nodup_applyDelta r.published d hr
      · exact hr
    | error err => simp only [repoProj]; split <;> simpa [RepoStatus.setFailure] using hr
  | caRemove ca' =>
    simp only [repoProj]
    split
    · exact List.nodup_nil
    · exact hr
  | parentList ca' p' uri ex reply now => cases reply <;> exact hr
  | parentRevokes ca' p' uri sent reply now => cases reply <;> exact hr
  | parentCerts ca' p' uri reply now => cases reply <;> exact hr
  | childRequest ca' c agent outcome now => cases outcome <;> exact hr
  | childSuspended ca' c now => exact hr
  | parentRemove ca' p' => exact hr
  | childRemove ca' c => exact hr
  | restart => exact hr

/-! ## the invariant -/

/-- **The invariant of the status store.**  `s` is the store after history `evs` (any events:
exchanges with any outcome, removals, re-adding – which is just a new exchange –, restarts):
cache and storage agree, and every field of every view is what the most recent event concerning
it says; no URI is listed twice. -/
structure StatusInv (evs : List Ev) (s : Store) : Prop where
  consistent : Consistent s
  parentExchange : ∀ ca p, (s.parent? ca p).bind (·.lastExchange) =
    (lastTouch (Ev.parentExchangeSays ca p) evs).getD none
  parentSuccess : ∀ ca p, (s.parent? ca p).bind (·.lastSuccess) =
    (lastTouch (Ev.parentSuccessSays ca p) evs).getD none
  entitlements : ∀ ca p, ((s.parent? ca p).getD {}).classes =
    (lastTouch (Ev.entitlementsSay ca p) evs).getD []
  repoExchange : ∀ ca, (s.repo ca).lastExchange = (lastTouch (Ev.repoExchangeSays ca) evs).getD none
  repoSuccess : ∀ ca, (s.repo ca).lastSuccess = (lastTouch (Ev.repoSuccessSays ca) evs).getD none
  childExchange : ∀ ca c, (s.child? ca c).bind (·.lastExchange) =
    (lastTouch (Ev.childExchangeSays ca c) evs).getD none
  suspended : ∀ ca c, (s.child? ca c).bind (·.suspended) =
    (lastTouch (Ev.suspendedSays ca c) evs).getD none
  noDuplicates : ∀ ca, ((s.repo ca).published.map (·.1)).Nodup

theorem statusInv_init : StatusInv [] Store.empty where
  consistent := consistent_empty
  parentExchange := fun _ _ => rfl
  parentSuccess := fun _ _ => rfl
  entitlements := fun _ _ => rfl
  repoExchange := fun _ => rfl
  repoSuccess := fun _ => rfl
  childExchange := fun _ _ => rfl
  suspended := fun _ _ => rfl
  noDuplicates := fun _ => List.nodup_nil

/-- Every step preserves the invariant. -/
theorem statusInv_step (evs : List Ev) (s : Store) (h : StatusInv evs s) (e : Ev) :
    StatusInv (evs ++ [e]) (step s e) where
  consistent := consistent_step s h.consistent e
  parentExchange := fun ca p => by
    rw [parent?_step s h.consistent, lastTouch_snoc, ← h.parentExchange ca p]
    exact parentProj_exchangeSays e ca p _
  parentSuccess := fun ca p => by
    rw [parent?_step s h.consistent, lastTouch_snoc, ← h.parentSuccess ca p]
    exact parentProj_successSays e ca p _
  entitlements := fun ca p => by
    rw [parent?_step s h.consistent, lastTouch_snoc, ← h.entitlements ca p]
    exact parentProj_entitlementsSay e ca p _
  repoExchange := fun ca => by
    rw [repo_step s h.consistent, lastTouch_snoc, ← h.repoExchange ca]
    exact repoProj_exchangeSays e ca _
  repoSuccess := fun ca => by
    rw [repo_step s h.consistent, lastTouch_snoc, ← h.repoSuccess ca]
    exact repoProj_successSays e ca _
  childExchange := fun ca c => by
    rw [child?_step s h.consistent, lastTouch_snoc, ← h.childExchange ca c]
    exact childProj_exchangeSays e ca c _
  suspended := fun ca c => by
    rw [child?_step s h.consistent, lastTouch_snoc, ← h.suspended ca c]
    exact childProj_suspendedSays e ca c _
  noDuplicates := fun ca => by
    rw [repo_step s h.consistent]
    exact repoProj_keeps_nodup e ca _ (h.noDuplicates ca)

theorem statusInv_run_from (pre evs : List Ev) (s : Store) (h : StatusInv pre s) :
    StatusInv (pre ++ evs) (run s evs) := by
  induction evs generalizing pre s with
  | nil => simpa [run] using h
  | cons e t ih =>
    have := ih (pre ++ [e]) (step s e) (statusInv_step pre s h e)
    rw [run_cons]
    simpa [List.append_assoc] using this

theorem statusInv_run (evs : List Ev) : StatusInv evs (run Store.empty evs) := by
  simpa using statusInv_run_from [] evs Store.empty statusInv_init

/-! ## shadow list covers the server's content, whatever happens to the server -/

theorem covers_applyEl (p m : List File) (el : DeltaEl) (h : Covers p m) :
    Covers (applyEl p el) (applyEl m el) := by
  intro u hu
  rw [entries_applyEl] at hu ⊢
  rw [entries_applyEl]
  cases el with
  | publish v c =>
    simp only [elEffect] at hu ⊢
    by_cases hv : v = u
    · simp [hv]
    · simp only [hv, if_false] at hu ⊢; exact h u hu
  | update v c =>
    simp only [elEffect] at hu ⊢
    by_cases hv : v = u
    · simp [hv]
    · simp only [hv, if_false] at hu ⊢; exact h u hu
  | withdraw v =>
    simp only [elEffect] at hu ⊢
    by_cases hv : v = u
    · simp [hv] at hu
    · simp only [hv, if_false] at hu ⊢; exact h u hu

theorem covers_applyDelta (p m : List File) (d : List DeltaEl) (h : Covers p m) :
    Covers (applyDelta p d) (applyDelta m d) := by
  induction d generalizing p m with
  | nil => exact h
  | cons el t ih => exact ih _ _ (covers_applyEl p m el h)

theorem covers_nil (p : List File) : Covers p [] := by
  intro u hu; simp [entries] at hu

theorem covers_of_inSync (p m : List File) (h : InSync p m) : Covers p m := fun u _ => h u

theorem coversB_iff (p m : List File) : coversB p m = true ↔ Covers p m := by
  unfold coversB Covers
  constructor
  · intro h u hu
    simp only [List.all_eq_true, beq_iff_eq] at h
    have : ∃ f ∈ m, f.1 = u := by
      cases hm : m.filter (fun e => decide (e.1 = u)) with
      | nil => simp [entries, hm] at hu
      | cons f t =>
        have hf : f ∈ m.filter (fun e => decide (e.1 = u)) := by rw [hm]; exact List.mem_cons_self ..
        rw [List.mem_filter] at hf
        exact ⟨f, hf.1, by simpa using hf.2⟩
    obtain ⟨f, hf, rfl⟩ := this
    exact h f hf
  · intro h
    simp only [List.all_eq_true, beq_iff_eq]
    intro f hf
    apply h
    simp only [entries, ne_eq, List.map_eq_nil_iff, List.filter_eq_nil_iff, decide_eq_true_eq]
    intro hall
    exact hall f hf rfl

/-- The world invariant that survives the server losing content. -/
def WorldCovers (ca : String) (w : World) : Prop :=
  Consistent w.store ∧ ∀ m, w.server = some m → Covers (w.store.repo ca).published m

theorem wstep_keeps_covers (ca uri : String) (w : World) (h : WorldCovers ca w)
    (e : WEv) (he : e.foreign ca = false) : WorldCovers ca (wstep ca uri w e) := by
  obtain ⟨hc, hcov⟩ := h
  cases e with
  | publisherRemoved => exact ⟨hc, fun m hm => by simp [wstep] at hm⟩
  | publisherAdded =>
    refine ⟨hc, fun m hm => ?_⟩
    simp only [wstep, Option.some.injEq] at hm
    cases hs : w.server with
    | none => rw [hs] at hm; simp at hm; subst hm; exact covers_nil _
    | some m0 => rw [hs] at hm; simp at hm; subst hm; exact hcov m0 hs
  | other ev =>
    simp only [WEv.foreign] at he
    refine ⟨consistent_step _ hc ev, fun m hm => ?_⟩
    show Covers ((step w.store ev).repo ca).published m
    rw [repo_step _ hc, repoProj_of_not_touches ev ca _ he]
    exact hcov m hm
  | sync objects now =>
    cases hs : w.server with
    | none =>
      have hw : (wstep ca uri w (.sync objects now)).server = none := by
        simp only [wstep, hs, repoSyncEvents, if_true]
        split <;> rfl
      exact ⟨consistent_run _ hc _, fun m hm => by rw [hw] at hm; cases hm⟩
    | some m0 =>
      have hin := hcov m0 hs
      have hw : wstep ca uri w (.sync objects now) =
          { store := run w.store
              (repoSyncEvents ca uri true (some m0) objects "list-refused" "delta-refused" now).1,
            server := (repoSyncEvents ca uri true (some m0) objects "list-refused" "delta-refused" now).2 } := by
        simp [wstep, hs]
      rw [hw]
      refine ⟨consistent_run _ hc _, ?_⟩
      simp only [repoSyncEvents]
      by_cases hd : (diffDelta m0 objects).isEmpty = true
      · simp only [hd, if_true]
        intro m hm
        cases hm
        rw [repo_run _ hc]
        simpa [repoProj, RepoStatus.setLastUpdated] using hin
      · simp only [hd, Bool.false_eq_true, if_false]
        cases hacc : srvApply m0 (diffDelta m0 objects) with
        | some m' =>
          intro m hm
          simp only [Option.some.injEq] at hm
          subst hm
          simp only []
          rw [repo_run _ hc]
          simp only [List.foldl_cons, List.foldl_nil, repoProj, if_true,
            RepoStatus.updatePublished, RepoStatus.setLastUpdated]
          rw [srvApply_eq m0 m' _ hacc]
          exact covers_applyDelta _ m0 _ hin
        | none =>
          intro m hm
          simp only [Option.some.injEq] at hm
          subst hm
          simp only []
          rw [repo_run _ hc]
          simpa [repoProj, RepoStatus.setLastUpdated, RepoStatus.setFailure] using hin

end KM.Status
