/-
Model of krill's CA status store and of the way the CA manager drives it.

Code modelled (line numbers of /repo at the time of writing):
* `src/api/ca.rs`            `ParentStatus` 1111-1178, `RepoStatus` 1185-1256 (`update_published`
                             1217-1245, three arms exactly as written), `ChildStatus` 1448-1501,
                             `ParentExchange`, `ExchangeResult`, `ChildExchange::is_krill_above_0_9_1`
* `src/server/ca/status.rs`  `CaStatusStore`: cache + key-value store, `warm`/`load_full_status`,
                             `update_repo_status`, `update_ca_parent_status`, `update_ca_child_status`,
                             `remove_parent`, `remove_child`, `remove_ca`
* `src/server/ca/manager.rs` every call of the status store: `send_rfc8181_list` / `send_rfc8181_delta`
                             (2791-2907), `ca_repo_sync` (2642-2703), `send_revoke_requests` (1765-1794),
                             `send_cert_requests_handle_responses` (1973-1990),
                             `get_entitlements_from_contact` (2272-2309), `ca_sync_parent` (1588-1615),
                             `rfc6492` / `rfc6492_process_request` (997-1123), `ca_child_remove` (977-991),
                             `ca_parent_remove` (1369-1392), `delete_ca` (681-737),
                             `ca_suspend_inactive_children` (1463-1519), `get_ca_issues` (657-674)

Abstractions: handles, URIs, error labels and object contents are strings (a content string stands
for the base64 blob *and* its hash – hashes are injective on the contents of a run); resources are
lists of atoms; time is an explicit `Nat` handed to every function that reads the clock; hash-map
iteration order never matters (association lists, looked up by key).

Import-free so that the driver can be compiled as a `lean_exe`.
-/
namespace KM.Status

/-! ## Association lists (a `HashMap<String, _>` looked up by key) -/

abbrev AList (α : Type) := List (String × α)

def alookup {α} : AList α → String → Option α
  | [], _ => none
  | (k', v) :: t, k => if k' = k then some v else alookup t k

/-- `insert`: overwrite in place or append. -/
def aset {α} : AList α → String → α → AList α
  | [], k, v => [(k, v)]
  | (k', v') :: t, k, v => if k' = k then (k, v) :: t else (k', v') :: aset t k v

def aerase {α} : AList α → String → AList α
  | [], _ => []
  | (k', v') :: t, k => if k' = k then aerase t k else (k', v') :: aerase t k

def akeys {α} (l : AList α) : List String := l.map (·.1)

/-! ## Status values (`src/api/ca.rs`) -/

/-- `ExchangeResult`; the error response is represented by its label. -/
inductive Result where
  | success
  | failure (err : String)
deriving DecidableEq, Repr, Inhabited

def Result.wasSuccess : Result → Bool
  | .success => true
  | .failure _ => false

/-- `ParentExchange` (used for parents and for the repository). -/
structure Exchange where
  time   : Nat
  uri    : String
  result : Result
deriving DecidableEq, Repr, Inhabited

def Exchange.optFailure (e : Exchange) : Option String :=
  match e.result with
  | .success => none
  | .failure err => some err

/-- `ChildExchange`. -/
structure ChildExchange where
  time   : Nat
  result : Result
  agent  : Option String
deriving DecidableEq, Repr, Inhabited

/-- A published file: URI and content. -/
abbrev File := String × String

/-- `PublishDeltaElement` (the hash of the replaced / withdrawn object is not looked at by the
status code). -/
inductive DeltaEl where
  | publish (uri content : String)
  | update (uri content : String)
  | withdraw (uri : String)
deriving DecidableEq, Repr, Inhabited

def DeltaEl.uri : DeltaEl → String
  | .publish u _ => u
  | .update u _ => u
  | .withdraw u => u

/-! ### RepoStatus -/

structure RepoStatus where
  lastExchange : Option Exchange := none
  lastSuccess  : Option Nat := none
  published    : List File := []
deriving DecidableEq, Repr, Inhabited

def RepoStatus.optFailure (s : RepoStatus) : Option String :=
  s.lastExchange.bind Exchange.optFailure

/-- `RepoStatus::set_failure`. -/
def RepoStatus.setFailure (s : RepoStatus) (uri err : String) (now : Nat) : RepoStatus :=
  { s with lastExchange := some ⟨now, uri, .failure err⟩ }

/-- `RepoStatus::set_last_updated`. -/
def RepoStatus.setLastUpdated (s : RepoStatus) (uri : String) (now : Nat) : RepoStatus :=
  { s with lastExchange := some ⟨now, uri, .success⟩, lastSuccess := some now }

/-- One arm of the `match element` in `update_published` (ca.rs:1226-1241).  Since 7b4aa6c7 the
`Publish` arm removes an entry of the same URI before it pushes, like the `Update` arm. -/
def applyEl (p : List File) : DeltaEl → List File
  | .publish u c => p.filter (fun e => e.1 != u) ++ [(u, c)]
  | .update u c => p.filter (fun e => e.1 != u) ++ [(u, c)]
  | .withdraw u => p.filter (fun e => e.1 != u)

/-- The `Publish` arm of the pinned tree (before 7b4aa6c7): a push without the `retain`.  Only used
for the labelled counter-model in `Props/C19.lean`. -/
def applyElPinned (p : List File) : DeltaEl → List File
  | .publish u c => p ++ [(u, c)]
  | el => applyEl p el

def applyDelta (p : List File) (d : List DeltaEl) : List File := d.foldl applyEl p

/-- `RepoStatus::update_published`. -/
def RepoStatus.updatePublished (s : RepoStatus) (uri : String) (d : List DeltaEl) (now : Nat) :
    RepoStatus :=
  { lastExchange := some ⟨now, uri, .success⟩, lastSuccess := some now,
    published := applyDelta s.published d }

/-! ### ParentStatus -/

/-- A resource class entitlement as far as the status view shows it: name and resources. -/
abbrev Entitlements := List (String × List Nat)

def unionAtoms (a b : List Nat) : List Nat := b.foldl (fun acc x => if acc.contains x then acc else acc ++ [x]) a

structure ParentStatus where
  lastExchange : Option Exchange := none
  lastSuccess  : Option Nat := none
  allResources : List Nat := []
  classes      : Entitlements := []
deriving DecidableEq, Repr, Inhabited

def ParentStatus.optFailure (s : ParentStatus) : Option String :=
  s.lastExchange.bind Exchange.optFailure

/-- `ParentStatus::set_failure`. -/
def ParentStatus.setFailure (s : ParentStatus) (uri err : String) (now : Nat) : ParentStatus :=
  { s with lastExchange := some ⟨now, uri, .failure err⟩ }

/-- `ParentStatus::set_last_updated`. -/
def ParentStatus.setLastUpdated (s : ParentStatus) (uri : String) (now : Nat) : ParentStatus :=
  { s with lastExchange := some ⟨now, uri, .success⟩, lastSuccess := some now }

/-- `ParentStatus::set_entitlements`. -/
def ParentStatus.setEntitlements (s : ParentStatus) (uri : String) (ent : Entitlements) (now : Nat) :
    ParentStatus :=
  { (s.setLastUpdated uri now) with
    classes := ent, allResources := ent.foldl (fun acc c => unionAtoms acc c.2) [] }

/-! ### ChildStatus -/

structure ChildStatus where
  lastExchange : Option ChildExchange := none
  lastSuccess  : Option Nat := none
  suspended    : Option Nat := none
deriving DecidableEq, Repr, Inhabited

/-- `ChildStatus::set_success`. -/
def ChildStatus.setSuccess (_s : ChildStatus) (agent : Option String) (now : Nat) : ChildStatus :=
  { lastExchange := some ⟨now, .success, agent⟩, lastSuccess := some now, suspended := none }

/-- `ChildStatus::set_failure`. -/
def ChildStatus.setFailure (s : ChildStatus) (agent : Option String) (err : String) (now : Nat) :
    ChildStatus :=
  { s with lastExchange := some ⟨now, .failure err, agent⟩, suspended := none }

/-- `ChildStatus::set_suspended`. -/
def ChildStatus.setSuspended (s : ChildStatus) (now : Nat) : ChildStatus :=
  { s with suspended := some now }

/-! #### suspension candidates (`ChildConnectionStats::is_suspension_candidate`) -/

def parseNat? (cs : List Char) : Option Nat :=
  if cs.isEmpty || !(cs.all Char.isDigit) then none
  else some (cs.foldl (fun n c => n * 10 + (c.toNat - '0'.toNat)) 0)

def splitDots (cs : List Char) : List (List Char) :=
  cs.foldr (fun c acc => if c == '.' then [] :: acc else
    match acc with
    | [] => [[c]]
    | h :: t => (c :: h) :: t) [[]]

/-- `KrillVersion::from_str` for plain `major.minor.patch` versions (release candidates and
other suffixes are not modelled: the harness does not send them). -/
def parseVersion? (cs : List Char) : Option (Nat × Nat × Nat) :=
  match splitDots cs with
  | [a, b, c] =>
    match parseNat? a, parseNat? b, parseNat? c with
    | some x, some y, some z => some (x, y, z)
    | _, _, _ => none
  | _ => none

/-- `ChildExchange::is_krill_above_0_9_1`. -/
def agentAbove091 (agent : Option String) : Bool :=
  match agent with
  | none => false
  | some a =>
    if a = "local-child" then true else
    let cs := a.toList
    let pfx := "krill/".toList
    if cs.take pfx.length = pfx then
      match parseVersion? (cs.drop pfx.length) with
      | some (x, y, z) => x > 0 || (x = 0 && (y > 9 || (y = 9 && z > 1)))
      | none => false
    else false

/-- Candidate for suspension: not suspended, talks like krill > 0.9.1, last exchange before
`now - threshold`. -/
def ChildStatus.isSuspensionCandidate (s : ChildStatus) (threshold now : Nat) : Bool :=
  if s.suspended.isSome then false
  else match s.lastExchange with
    | none => false
    | some e => agentAbove091 e.agent && e.time + threshold < now

/-! ## The store (`src/server/ca/status.rs`) -/

/-- `CaStatus`. -/
structure CaStatus where
  repo     : RepoStatus := {}
  parents  : AList ParentStatus := []
  children : AList ChildStatus := []
deriving DecidableEq, Repr, Inhabited

/-- What the key-value store holds in the scope of one CA: `repos-main.json`,
`parents-<p>.json`, `children-<c>.json`. -/
def CaStatus.setRepo (cs : CaStatus) (r : RepoStatus) : CaStatus := { cs with repo := r }
def CaStatus.setParents (cs : CaStatus) (ps : AList ParentStatus) : CaStatus := { cs with parents := ps }
def CaStatus.setChildren (cs : CaStatus) (ch : AList ChildStatus) : CaStatus := { cs with children := ch }

structure DiskCa where
  repo     : Option RepoStatus := none
  parents  : AList ParentStatus := []
  children : AList ChildStatus := []
deriving DecidableEq, Repr, Inhabited

def DiskCa.isEmpty (d : DiskCa) : Bool := d.repo.isNone && d.parents.isEmpty && d.children.isEmpty

/-- `load_full_status` for one scope: a missing repository key gives the default. -/
def DiskCa.toCa (d : DiskCa) : CaStatus :=
  { repo := d.repo.getD {}, parents := d.parents, children := d.children }

structure Store where
  /-- in-memory cache: the only thing read while running -/
  cache : AList CaStatus := []
  /-- namespace `status` of the key-value store: written through, read at start-up.  A scope
  exists iff it holds a key. -/
  disk  : AList DiskCa := []
deriving DecidableEq, Repr, Inhabited

def Store.empty : Store := {}

/-- `get_ca_status`: the cached value or the default. -/
def Store.view (s : Store) (ca : String) : CaStatus := (alookup s.cache ca).getD {}

def diskOr (disk : AList DiskCa) (ca : String) : DiskCa := (alookup disk ca).getD {}

/-- Change the keys of one scope; a scope left without keys disappears. -/
def diskUpdate (disk : AList DiskCa) (ca : String) (g : DiskCa → DiskCa) : AList DiskCa :=
  let d := g (diskOr disk ca)
  if d.isEmpty then aerase disk ca else aset disk ca d

/-- `update_repo_status`. -/
def Store.updateRepo (s : Store) (ca : String) (f : RepoStatus → RepoStatus) : Store :=
  let cs := s.view ca
  let r := f cs.repo
  { cache := aset s.cache ca (cs.setRepo r),
    disk := diskUpdate s.disk ca fun d => { d with repo := some r } }

/-- `update_ca_parent_status`. -/
def Store.updateParent (s : Store) (ca p : String) (f : ParentStatus → ParentStatus) : Store :=
  let cs := s.view ca
  let ps := f ((alookup cs.parents p).getD {})
  { cache := aset s.cache ca (cs.setParents (aset cs.parents p ps)),
    disk := diskUpdate s.disk ca fun d => { d with parents := aset d.parents p ps } }

/-- `update_ca_child_status`. -/
def Store.updateChild (s : Store) (ca c : String) (f : ChildStatus → ChildStatus) : Store :=
  let cs := s.view ca
  let st := f ((alookup cs.children c).getD {})
  { cache := aset s.cache ca (cs.setChildren (aset cs.children c st)),
    disk := diskUpdate s.disk ca fun d => { d with children := aset d.children c st } }

/-- `remove_parent`: only if the cache knows the CA and the parent. -/
def Store.removeParent (s : Store) (ca p : String) : Store :=
  match alookup s.cache ca with
  | none => s
  | some cs =>
    match alookup cs.parents p with
    | none => s
    | some _ =>
      { cache := aset s.cache ca (cs.setParents (aerase cs.parents p)),
        disk := diskUpdate s.disk ca fun d => { d with parents := aerase d.parents p } }

/-- `remove_child`. -/
def Store.removeChild (s : Store) (ca c : String) : Store :=
  match alookup s.cache ca with
  | none => s
  | some cs =>
    match alookup cs.children c with
    | none => s
    | some _ =>
      { cache := aset s.cache ca (cs.setChildren (aerase cs.children c)),
        disk := diskUpdate s.disk ca fun d => { d with children := aerase d.children c } }

/-- `remove_ca`: cache entry and the whole scope. -/
def Store.removeCa (s : Store) (ca : String) : Store :=
  { cache := aerase s.cache ca, disk := aerase s.disk ca }

/-- `CaStatusStore::create` on existing storage: empty cache, then `warm` (every scope is
loaded with `load_full_status`). -/
def Store.restart (s : Store) : Store :=
  { cache := s.disk.map fun (ca, d) => (ca, d.toCa), disk := s.disk }

/-! ## How the CA manager drives the store (`src/server/ca/manager.rs`)

One event per place where manager.rs calls the status store; the payload is what the other
side answered. -/

inductive Ev where
  /-- `send_rfc8181_list`: `err` = transport error, error reply or unexpected reply. -/
  | repoList (ca uri : String) (reply : Except String Unit) (now : Nat)
  /-- `send_rfc8181_delta`: the delta is applied to the shadow list only on a success reply. -/
  | repoDelta (ca uri : String) (delta : List DeltaEl) (reply : Except String Unit) (now : Nat)
  /-- `get_entitlements_from_contact`: a failure is only recorded for an existing parent. -/
  | parentList (ca p uri : String) (existing : Bool) (reply : Except String Entitlements) (now : Nat)
  /-- `send_revoke_requests` with `sent` revocation requests.  With no request at all it records a
  success without talking to the parent; since 0cf51f5b `ca_sync_parent` no longer calls it then,
  only the best-effort revocation of `ca_parent_remove` / `delete_ca` can (and removes the entry
  right afterwards). -/
  | parentRevokes (ca p uri : String) (sent : Nat) (reply : Except String Unit) (now : Nat)
  /-- `send_cert_requests_handle_responses`: `err` iff `errors` is not empty. -/
  | parentCerts (ca p uri : String) (reply : Except String Unit) (now : Nat)
  /-- `rfc6492_process_request` reached its `// Set child status` block. -/
  | childRequest (ca c : String) (agent : Option String) (outcome : Except String Unit) (now : Nat)
  /-- `ca_suspend_inactive_children` for one candidate. -/
  | childSuspended (ca c : String) (now : Nat)
  /-- `ca_parent_remove` (after the best-effort revocation, which is a `parentRevokes`). -/
  | parentRemove (ca p : String)
  /-- `ca_child_remove`. -/
  | childRemove (ca c : String)
  /-- `delete_ca` (after the best-effort revocations and the empty repository sync). -/
  | caRemove (ca : String)
  /-- a new `CaStatusStore` on the same storage -/
  | restart
deriving Repr, Inhabited

def step (s : Store) : Ev → Store
  | .repoList ca uri (.ok ()) now => s.updateRepo ca fun r => r.setLastUpdated uri now
  | .repoList ca uri (.error e) now => s.updateRepo ca fun r => r.setFailure uri e now
  | .repoDelta ca uri d (.ok ()) now => s.updateRepo ca fun r => r.updatePublished uri d now
  | .repoDelta ca uri _ (.error e) now => s.updateRepo ca fun r => r.setFailure uri e now
  | .parentList ca p uri _ (.ok ent) now => s.updateParent ca p fun x => x.setEntitlements uri ent now
  | .parentList ca p uri existing (.error e) now =>
      if existing then s.updateParent ca p fun x => x.setFailure uri e now else s
  | .parentRevokes ca p uri _ (.ok ()) now => s.updateParent ca p fun x => x.setLastUpdated uri now
  | .parentRevokes ca p uri _ (.error e) now => s.updateParent ca p fun x => x.setFailure uri e now
  | .parentCerts ca p uri (.ok ()) now => s.updateParent ca p fun x => x.setLastUpdated uri now
  | .parentCerts ca p uri (.error e) now => s.updateParent ca p fun x => x.setFailure uri e now
  | .childRequest ca c agent (.ok ()) now => s.updateChild ca c fun x => x.setSuccess agent now
  | .childRequest ca c agent (.error e) now => s.updateChild ca c fun x => x.setFailure agent e now
  | .childSuspended ca c now => s.updateChild ca c fun x => x.setSuspended now
  | .parentRemove ca p => s.removeParent ca p
  | .childRemove ca c => s.removeChild ca c
  | .caRemove ca => s.removeCa ca
  | .restart => s.restart

def run (s : Store) (evs : List Ev) : Store := evs.foldl step s


/-! ## Classification of events (used to state "the most recent attempt") -/

def resultOf {α} : Except String α → Result
  | .ok _ => .success
  | .error e => .failure e

/-- The exchange an event records for parent `p` of `ca` (`none`: not a recorded attempt to talk
to a parent; the refused check of a parent that is only being added is not recorded). -/
def Ev.parentAttempt? : Ev → Option (String × String × Exchange)
  | .parentList ca p uri _ (.ok _) now => some (ca, p, ⟨now, uri, .success⟩)
  | .parentList ca p uri true (.error e) now => some (ca, p, ⟨now, uri, .failure e⟩)
  | .parentRevokes ca p uri _ r now => some (ca, p, ⟨now, uri, resultOf r⟩)
  | .parentCerts ca p uri r now => some (ca, p, ⟨now, uri, resultOf r⟩)
  | _ => none

/-- The exchange an event records for the repository of `ca`. -/
def Ev.repoAttempt? : Ev → Option (String × Exchange)
  | .repoList ca uri r now => some (ca, ⟨now, uri, resultOf r⟩)
  | .repoDelta ca uri _ r now => some (ca, ⟨now, uri, resultOf r⟩)
  | _ => none

/-- The exchange an event records for child `c` of `ca`. -/
def Ev.childAttempt? : Ev → Option (String × String × ChildExchange)
  | .childRequest ca c agent r now => some (ca, c, ⟨now, resultOf r, agent⟩)
  | _ => none

def Ev.removesCa (e : Ev) (ca : String) : Bool :=
  match e with
  | .caRemove ca' => ca' = ca
  | _ => false

def Ev.removesParent (e : Ev) (ca p : String) : Bool :=
  match e with
  | .parentRemove ca' p' => ca' = ca && p' = p
  | _ => e.removesCa ca

def Ev.removesChild (e : Ev) (ca c : String) : Bool :=
  match e with
  | .childRemove ca' c' => ca' = ca && c' = c
  | _ => e.removesCa ca

/-- The event is about parent `p` of `ca`: an exchange with it or its removal. -/
def Ev.touchesParent (e : Ev) (ca p : String) : Bool :=
  match e with
  | .parentList ca' p' _ _ _ _ => ca' = ca && p' = p
  | .parentRevokes ca' p' _ _ _ _ => ca' = ca && p' = p
  | .parentCerts ca' p' _ _ _ => ca' = ca && p' = p
  | _ => e.removesParent ca p

/-- The event is about the repository of `ca`. -/
def Ev.touchesRepo (e : Ev) (ca : String) : Bool :=
  match e with
  | .repoList ca' _ _ _ => ca' = ca
  | .repoDelta ca' _ _ _ _ => ca' = ca
  | _ => e.removesCa ca

/-- The event is about child `c` of `ca`: a request, the suspension marker, or removal. -/
def Ev.touchesChild (e : Ev) (ca c : String) : Bool :=
  match e with
  | .childRequest ca' c' _ _ _ => ca' = ca && c' = c
  | .childSuspended ca' c' _ => ca' = ca && c' = c
  | _ => e.removesChild ca c

/-- A successful exchange with parent `p` of `ca`. -/
def Ev.parentSuccess (e : Ev) (ca p : String) : Bool :=
  match e.parentAttempt? with
  | some (ca', p', x) => ca' = ca && p' = p && x.result.wasSuccess
  | none => false

/-- An exchange in which parent `p` of `ca` really answered positively: a "success" of
`send_revoke_requests` with no request to send is not one. -/
def Ev.parentAnswered (e : Ev) (ca p : String) : Bool :=
  match e with
  | .parentRevokes _ _ _ sent _ _ => e.parentSuccess ca p && decide (sent > 0)
  | _ => e.parentSuccess ca p

/-- A recorded "success" without an answer of the parent. -/
def Ev.vacuousSuccess (e : Ev) (ca p : String) : Bool := e.parentSuccess ca p && !(e.parentAnswered ca p)

/-- A successful list query to parent `p` of `ca` (the only exchange that returns entitlements). -/
def Ev.parentListSuccess (e : Ev) (ca p : String) : Bool :=
  match e with
  | .parentList ca' p' _ _ (.ok _) _ => ca' = ca && p' = p
  | _ => false

def Ev.repoSuccess (e : Ev) (ca : String) : Bool :=
  match e.repoAttempt? with
  | some (ca', x) => ca' = ca && x.result.wasSuccess
  | none => false

/-- A successful request of child `c` of `ca`. -/
def Ev.childSuccess (e : Ev) (ca c : String) : Bool :=
  match e.childAttempt? with
  | some (ca', c', x) => ca' = ca && c' = c && x.result.wasSuccess
  | none => false

/-- A request of child `c` of `ca` that was processed (success or failure). -/
def Ev.childRequestOf (e : Ev) (ca c : String) : Bool :=
  match e with
  | .childRequest ca' c' _ _ _ => ca' = ca && c' = c
  | _ => false

/-! ### Composite manager functions: which events one call produces -/

/-- The publication server's content for one publisher as the CA's list query sees it, and how a
delta changes it (`RepositoryContent`: a publish of a present URI, an update or withdraw of
an absent one is refused and nothing is applied). -/
def srvApplyEl (m : List File) : DeltaEl → Option (List File)
  | .publish u c => if m.any (fun e => e.1 = u) then none else some (m ++ [(u, c)])
  | .update u c =>
      if m.any (fun e => e.1 = u) then some (m.filter (fun e => e.1 != u) ++ [(u, c)]) else none
  | .withdraw u => if m.any (fun e => e.1 = u) then some (m.filter (fun e => e.1 != u)) else none

def srvApply (m : List File) : List DeltaEl → Option (List File)
  | [] => some m
  | el :: rest => (srvApplyEl m el).bind fun m' => srvApply m' rest

/-- The delta `ca_repo_sync` computes from the list reply and the CA's objects
(manager.rs:2660-2685), in one of the orders the hash maps may produce. -/
def diffDelta (listed objects : List File) : List DeltaEl :=
  listed.filterMap (fun (u, h) =>
    match objects.find? (fun o => o.1 = u) with
    | some (_, c) => if c = h then none else some (.update u c)
    | none => some (.withdraw u)) ++
  (objects.filter fun o => !(listed.any fun l => l.1 = o.1)).map fun (u, c) => .publish u c

/-- `ca_repo_sync`.  `server = none` means the server does not know the publisher.  A remote
server (`embedded = false`) then refuses the list query.  The server embedded in the same krill
(`send_rfc8181_and_validate_response` calls `rfc8181_message` directly) answers a list query of an
unknown publisher with the empty list and only refuses the delta – so the exchange is "list
succeeded, delta failed" unless there is nothing to publish.  With a known publisher the delta (if
any) is sent and the server accepts or refuses it.  Returns the events and the server's new
content. -/
def repoSyncEvents (ca uri : String) (embedded : Bool) (server : Option (List File))
    (objects : List File) (listErr deltaErr : String) (now : Nat) : List Ev × Option (List File) :=
  match server with
  | none =>
    if embedded then
      let d := diffDelta [] objects
      if d.isEmpty then ([.repoList ca uri (.ok ()) now], none)
      else ([.repoList ca uri (.ok ()) now, .repoDelta ca uri d (.error deltaErr) now], none)
    else ([.repoList ca uri (.error listErr) now], none)
  | some m =>
    let d := diffDelta m objects
    if d.isEmpty then ([.repoList ca uri (.ok ()) now], some m)
    else match srvApply m d with
      | some m' => ([.repoList ca uri (.ok ()) now, .repoDelta ca uri d (.ok ()) now], some m')
      | none => ([.repoList ca uri (.ok ()) now, .repoDelta ca uri d (.error deltaErr) now], some m)

/-- `ca_sync_parent`: with pending requests first the revocations – skipped altogether when there
is nothing to revoke (0cf51f5b: no exchange, no status) –, then (only if those went through) the
certificate requests; otherwise one list query. -/
def syncParentEvents (ca p uri : String) (pending : Bool) (nRevokes : Nat)
    (revokes certs : Except String Unit) (list : Except String Entitlements) (now : Nat) : List Ev :=
  if pending then
    if nRevokes = 0 then [.parentCerts ca p uri certs now]
    else match revokes with
      | .error e => [.parentRevokes ca p uri nRevokes (.error e) now]
      | .ok () => [.parentRevokes ca p uri nRevokes (.ok ()) now, .parentCerts ca p uri certs now]
  else [.parentList ca p uri true list now]

/-- `ca_parent_remove` (and, per parent, `delete_ca`): best-effort revocation of the `nKeys` keys
under the parent, then the entry is removed. -/
def parentRemoveEvents (ca p uri : String) (nKeys : Nat) (revokes : Except String Unit) (now : Nat) :
    List Ev :=
  [.parentRevokes ca p uri nKeys revokes now, .parentRemove ca p]

/-- A provisioning request arriving at `parent` from `child`.
* remote (`rfc6492`): `verify_rfc6492` refuses an unknown child or a signature that does not
  validate against the registered identity *before* the status is touched;
* local (`send_rfc6492_and_validate_response` for a parent in the same krill): no signature, an
  unknown child is refused before the status is touched – except by the trust anchor, which
  processes the request and records the failure. -/
def childRequestEvents (parent child : String) (remote parentIsTa known sigValid : Bool)
    (agent : Option String) (outcome : Except String Unit) (now : Nat) : List Ev :=
  if remote then
    if known && sigValid then [.childRequest parent child agent outcome now] else []
  else
    if known || parentIsTa then [.childRequest parent child (some "local-child") outcome now] else []

/-- `ca_suspend_inactive_children`: every candidate among the children in the status. -/
def suspendEvents (s : Store) (ca : String) (threshold now : Nat) : List Ev :=
  ((s.view ca).children.filter fun (_, st) => st.isSuspensionCandidate threshold now).map
    fun (c, _) => .childSuspended ca c now

/-! ## Views -/

def Store.repo (s : Store) (ca : String) : RepoStatus := (s.view ca).repo
def Store.parent? (s : Store) (ca p : String) : Option ParentStatus := alookup (s.view ca).parents p
def Store.child? (s : Store) (ca c : String) : Option ChildStatus := alookup (s.view ca).children c

/-- `get_ca_issues`: the repository failure and the failing parents. -/
def Store.issues (s : Store) (ca : String) : Option String × AList String :=
  ((s.repo ca).optFailure,
   (s.view ca).parents.filterMap fun (p, st) => st.optFailure.map fun e => (p, e))

/-! ## Executable predicates used by the theorems and by the oracle -/

/-- Contents listed for a URI. -/
def entries (l : List File) (u : String) : List String := (l.filter fun e => e.1 = u).map (·.2)

/-- The shadow list and the server's content are the same multiset of files. -/
def InSync (p m : List File) : Prop := ∀ u, entries p u = entries m u

def inSyncB (p m : List File) : Bool :=
  (p.map (·.1) ++ m.map (·.1)).all fun u => entries p u == entries m u

/-- No URI listed twice. -/
def noDupUris (l : List File) : Bool := l.all fun e => (entries l e.1).length == 1

/-! ## Specification side: what the most recent event that concerns an entry says

`lastTouch cls evs` scans the history from its end for the first event `cls` has something to say
about.  The `…Says` classifiers read an event on its own – no store, no other field – so that "the
view shows X" can be stated as `view = lastTouch …Says history` for arbitrary histories. -/

def lastTouch {β} (cls : Ev → Option β) (evs : List Ev) : Option β := evs.reverse.findSome? cls

/-- `last_exchange` of parent `p` of `ca`: a recorded attempt says "this exchange", a removal says
"no entry". -/
def Ev.parentExchangeSays (ca p : String) (e : Ev) : Option (Option Exchange) :=
  match e.parentAttempt? with
  | some (ca', p', x) => if ca' = ca ∧ p' = p then some (some x) else none
  | none => if e.removesParent ca p then some none else none

/-- `last_success` of parent `p` of `ca`: only a successful attempt or a removal says something. -/
def Ev.parentSuccessSays (ca p : String) (e : Ev) : Option (Option Nat) :=
  match e.parentAttempt? with
  | some (ca', p', x) => if ca' = ca ∧ p' = p ∧ x.result = .success then some (some x.time) else none
  | none => if e.removesParent ca p then some none else none

/-- Entitlements shown for parent `p` of `ca`: only a successful list query or a removal says
something. -/
def Ev.entitlementsSay (ca p : String) (e : Ev) : Option Entitlements :=
  match e with
  | .parentList ca' p' _ _ (.ok ent) _ => if ca' = ca ∧ p' = p then some ent else none
  | _ => if e.removesParent ca p then some [] else none

def Ev.repoExchangeSays (ca : String) (e : Ev) : Option (Option Exchange) :=
  match e.repoAttempt? with
  | some (ca', x) => if ca' = ca then some (some x) else none
  | none => if e.removesCa ca then some none else none

def Ev.repoSuccessSays (ca : String) (e : Ev) : Option (Option Nat) :=
  match e.repoAttempt? with
  | some (ca', x) => if ca' = ca ∧ x.result = .success then some (some x.time) else none
  | none => if e.removesCa ca then some none else none

/-- `last_exchange` of child `c` of `ca`: a processed request or a removal. -/
def Ev.childExchangeSays (ca c : String) (e : Ev) : Option (Option ChildExchange) :=
  match e.childAttempt? with
  | some (ca', c', x) => if ca' = ca ∧ c' = c then some (some x) else none
  | none => if e.removesChild ca c then some none else none

/-- The suspension marker of child `c` of `ca`: set by the inactivity check, cleared by a processed
request (and gone with a removal). -/
def Ev.suspendedSays (ca c : String) (e : Ev) : Option (Option Nat) :=
  match e with
  | .childSuspended ca' c' now => if ca' = ca ∧ c' = c then some (some now) else none
  | .childRequest ca' c' _ _ _ => if ca' = ca ∧ c' = c then some none else none
  | _ => if e.removesChild ca c then some none else none

/-- Exactly the refusals that happen before `rfc6492_process_request` touches the status: a remote
request of an unknown child or with a signature that does not validate against the registered
identity (`verify_rfc6492`); a local request of an unknown child unless the parent is the trust
anchor (`get_child` fails first). -/
def refusedBeforeProcessing (remote parentIsTa known sigValid : Bool) : Bool :=
  if remote then !(known && sigValid) else !(known || parentIsTa)

/-! ### shadow list vs. server when the server may lose content -/

/-- Everything the server holds is shown, with the same content (the shown list may hold more). -/
def Covers (p m : List File) : Prop := ∀ u, entries m u ≠ [] → entries p u = entries m u

def coversB (p m : List File) : Bool := m.all fun f => entries p f.1 == entries m f.1

/-! ## The CA's status store next to the publication server (for `published = server content`) -/

/-- The status store together with what the publication server holds for the same CA
(`none`: the server does not know the publisher). -/
structure World where
  store  : Store := {}
  server : Option (List File) := some []
deriving Repr, Inhabited

inductive WEv where
  /-- `ca_repo_sync` of this CA with the given objects -/
  | sync (objects : List File) (now : Nat)
  /-- anything else the CA manager does with the status store -/
  | other (e : Ev)
  /-- out of band, at the server: the publisher is removed (its content is dropped) -/
  | publisherRemoved
  /-- out of band, at the server: the publisher is added (again), without content -/
  | publisherAdded
deriving Repr, Inhabited

def WEv.outOfBand : WEv → Bool
  | .publisherRemoved => true
  | .publisherAdded => true
  | _ => false

/-- An `other` event that claims to be a repository exchange of this CA (those only happen
inside `sync`). -/
def WEv.foreign (ca : String) : WEv → Bool
  | .other e => e.touchesRepo ca
  | _ => false

def wstep (ca uri : String) (w : World) : WEv → World
  | .sync objects now =>
    let r := repoSyncEvents ca uri true w.server objects "list-refused" "delta-refused" now
    { store := run w.store r.1, server := r.2 }
  | .other e => { w with store := step w.store e }
  | .publisherRemoved => { w with server := none }
  | .publisherAdded => { w with server := some (w.server.getD []) }

def wrun (ca uri : String) (w : World) (hist : List WEv) : World := hist.foldl (wstep ca uri) w

end KM.Status
