/-
The parent/child exchange as a step function on TWO aggregates (each with its published object
sets), built from the real commands of `Ca/CertAuth.lean`:
`ca_sync_parent` (manager.rs:1588-1615, 1722-1760, 1913-1991) – "has pending requests → send them
(revocations first, then certificate requests, handle every response) else fetch the
entitlements and store `UpdateEntitlements`" – against `CertAuth::list` / `issue` / `revoke` of
the parent (certauth.rs:940-1084, 1338-1470).  A certificate request that a krill parent refuses
comes back as an error, never as an RFC 6492 1201/1202/1204 response (manager.rs:2377-2397 for a
local parent, an HTTP error for a remote one): the child keeps the request (manager.rs:1961-1980;
replayed: corpus/system-findings/c02-h-request-for-lost-class.ops).  An issued certificate that the
child's `UpdateRcvdCert` refuses makes the child drop the class (`handle_cert_response`,
manager.rs:2090-2128; replayed: corpus/system-findings-limit/c02-b-limit-grandchild-shrink.ops).
Import-free (model files only).
-/
import KrillModel.Ca.Preds
namespace KM.CaK
open KM.Res KM.AMap

/-- Parent and child of one delegation. -/
structure Pair where
  parent : Sys
  child : Sys
  /-- the child's handle at the parent -/
  ch : Handle
  /-- the parent's handle at the child -/
  ph : Handle
deriving DecidableEq, Repr

/-- `CertAuth::list` → `entitlement_class` (certauth.rs:986-1084) for every class: none without a
current key or when the child holds nothing of the class; the class under the child's name for
it; the keys of the certificates currently issued. -/
def Ca.entitlementsFor (p : Ca) (ch : Handle) (na : Int) : List Entitlement :=
  match get p.children ch with
  | none => []
  | some c =>
    p.classes.filterMap fun q =>
      match q.2.keys.current with
      | none => none
      | some k =>
        let res := inter k.cert.res c.res
        if isEmpty res then none
        else some { rcn := c.nameForChild q.1, res := res, na := na,
                    issued := (c.issuedKeys q.1).filter fun ki => (get q.2.certs.issued ki).isSome }

/-- The certificate the parent holds for the child's key after a certify command. -/
def Ca.issuedFor (p : Ca) (ch : Handle) (childRcn : Rcn) (ki : KeyId) : Option ChildCert :=
  match get p.children ch with
  | none => none
  | some c =>
    match get p.classes (c.nameInParent childRcn) with
    | none => none
    | some rc => get rc.certs.issued ki

/-- `handle_cert_response` for an issue response (manager.rs:2028-2128): `UpdateRcvdCert`; if that
command fails, `DropResourceClass`. -/
def Sys.receiveOrDrop (s : Sys) (r : Rcn) (ki : KeyId) (cert : Cert) (na : Int) : Sys :=
  match s.exec (.updateRcvdCert r ki cert na []) with
  | .stored _ s' => s'
  | _ => s.next (.dropClass r)

/-- One certificate request of class `r` of the child, with the response handled.  A request the
parent refuses changes nothing: the request stays open. -/
def Pair.certRequest (x : Pair) (r : Rcn) (parentRcn : Rcn) (ki : KeyId) (na : Int) : Pair :=
  match x.parent.exec (.childCertify x.ch parentRcn ki none na) with
  | .stored _ p' =>
    match p'.ca.issuedFor x.ch parentRcn ki with
    | some cc =>
      { x with parent := p', child := x.child.receiveOrDrop r ki { res := cc.res, na := cc.na } na }
    | none => { x with parent := p' }
  | _ => x

/-- The requests of one class: revocation first, then the certificate requests. -/
def Pair.classRequests (x : Pair) (r : Rcn) (na : Int) : Pair :=
  match get x.child.ca.classes r with
  | none => x
  | some rc =>
    if rc.parent ≠ x.ph then x
    else
      let x1 : Pair := match rc.keys.revokeRequest with
        | some k =>
          match x.parent.exec (.childRevokeKey x.ch rc.parentRcn k) with
          | .stored _ p' => { x with parent := p', child := x.child.next (.keyrollFinish r) }
          | _ => x
        | none => x
      rc.keys.certRequests.foldl (fun y ki =>
        -- the class may have been dropped after an earlier response (refused `UpdateRcvdCert`)
        if (get y.child.ca.classes r).isSome then y.certRequest r rc.parentRcn ki na else y) x1

/-- One `ca_sync_parent`: `now` is the child's clock, `na` the not-after the parent offers and
uses, `fresh` the keys the child's signer creates for new classes. -/
def Pair.sync (x : Pair) (now na : Int) (fresh : List KeyId) : Pair :=
  if x.child.ca.hasPendingRequests x.ph then
    (keys x.child.ca.classes).foldl (fun y r => y.classRequests r na) x
  else
    { x with child := x.child.next (.updateEntitlements x.ph (x.parent.ca.entitlementsFor x.ch na) now fresh) }

def Pair.syncs (x : Pair) (now na : Int) : List (List KeyId) → Pair
  | [] => x
  | f :: fs => (x.sync now na f).syncs now na fs

/-- What convergence means for the pair: the child has nothing to send, holds exactly one class
per entitlement of the parent and each is `Active` with a certificate for exactly the entitled
resources; the parent has issued exactly that certificate for the class's key. -/
def Pair.converged (x : Pair) (na : Int) : Bool :=
  let ents := x.parent.ca.entitlementsFor x.ch na
  !x.child.ca.hasPendingRequests x.ph &&
  ((x.child.ca.classes.filter fun q => q.2.parent = x.ph).length == ents.length) &&
  ents.all fun ent =>
    match x.child.ca.findParentRc x.ph ent.rcn with
    | some q =>
      match q.2.keys with
      | .active k => seteq k.cert.res ent.res && !k.req &&
          (match x.parent.ca.issuedFor x.ch ent.rcn k.id with
            | some cc => seteq cc.res ent.res
            | none => false)
      | _ => false
    | none => false

/-! ## Concrete pairs used as witnesses by `Props/C02.lean` -/

/-- A parent holding `{1,2,3,4}` in one class with a child entitled to `{1,2}`; a child CA that has
a repository and knows the parent, nothing else. -/
def xParent : Sys := Sys.run {} [ .repoUpdate [], .addParent 99,
    .updateEntitlements 99 [⟨0, [1, 2, 3, 4], 1000, []⟩] 0 [4],
    .updateRcvdCert 0 4 { res := [1, 2, 3, 4], na := 1000 } 500 [],
    .childAdd 7 [1, 2] ]

def xChild : Sys := Sys.run {} [ .repoUpdate [], .addParent 9 ]

def xStart : Pair := ⟨xParent, xChild, 7, 9⟩

/-- after the first two syncs -/
def xConv : Pair := xStart.syncs 10 900 [[20], []]

/-- the child's entitlement shrinks to a part -/
def xShrunk : Pair := { xConv with parent := xConv.parent.next (.childUpdateResources 7 [1]) }

/-- the parent itself loses everything the child is entitled to -/
def xNothing : Pair :=
  { xConv with parent := xConv.parent.next (.updateRcvdCert 0 4 { res := [3, 4], na := 1000 } 500 []) }

/-- … and regains it after the child dropped the class -/
def xRegain : Pair :=
  let y := xNothing.syncs 10 900 [[]]
  { y with parent := y.parent.next (.updateRcvdCert 0 4 { res := [1, 2, 3, 4], na := 1000 } 500 []) }

/-- a parent with two classes (two parents of its own), the child entitled to a part of each -/
def xTwoParent : Sys := Sys.run {} [ .repoUpdate [], .addParent 98, .addParent 99,
    .updateEntitlements 98 [⟨0, [1, 2], 1000, []⟩] 0 [4],
    .updateEntitlements 99 [⟨0, [5, 6], 1000, []⟩] 0 [5],
    .updateRcvdCert 0 4 { res := [1, 2], na := 1000 } 500 [],
    .updateRcvdCert 1 5 { res := [5, 6], na := 1000 } 500 [],
    .childAdd 7 [1, 5] ]

def xTwo : Pair := ⟨xTwoParent, xChild, 7, 9⟩

/-- the parent calls its class 0 "5" for this child (class-name mapping) -/
def xMapped : Pair := { xStart with parent := xStart.parent.next (.childMapping 7 0 5) }

/-- the converged child starts a key roll -/
def xRoll : Pair := { xConv with child := xConv.child.next (.keyrollInit [(0, 30)]) }

end KM.CaK
