/-
The published-object side of a CA: `CaObjects` / `ResourceClassObjects` /
`ResourceClassKeyState` (`Current | Staging | Old`) / `KeyObjectSet` of
src/server/ca/publishing.rs, driven by the pre-save listener
`CaObjectsStore::cert_auth_pre_save_events` (publishing.rs:83-198).  Functions return `Except`
where the code returns `Error::publishing(..)` / `Error::PublishingObjects(..)`.

Not modelled here: revocations, manifest/CRL numbers and re-issuance (C03, C14), old
repositories.  A published object is a name with an abstract value (payload of a ROA / ASPA /
router certificate, or the resources of a child certificate).  Import-free (model files only).
-/
import KrillModel.Ca.Events
namespace KM.CaK
open KM.Res KM.AMap

/-- Name of a published object (`ObjectName`): products by kind and identifier, child
certificates by the child's key (`<key>.cer`). -/
inductive OName where
  | prod (kind : PKind) (id : Nat)
  | cer (k : KeyId)
deriving DecidableEq, Repr

inductive OVal where
  | prod (payload : Nat)
  | cert (cc : ChildCert)
deriving DecidableEq, Repr

/-- `KeyObjectSet` -/
structure ObjSet where
  /-- key of the signing certificate -/
  key : KeyId
  /-- `signing_cert` -/
  cert : Cert
  /-- `published_objects` -/
  published : AMap OName OVal := []
deriving DecidableEq, Repr

inductive ObjErr where
  /-- "Duplicate resource class" -/
  | duplicateClass
  /-- "Missing resource class" -/
  | missingClass
  /-- "published resource class in the wrong key state" -/
  | wrongKeyState
  /-- "received new cert for unknown key id" -/
  | unknownKey
deriving DecidableEq, Repr

/-- `KeyObjectSet::create`: manifest and CRL only, nothing published. -/
def ObjSet.create (k : CertKey) : ObjSet := { key := k.id, cert := k.cert, published := [] }

/-- `update_signing_cert` (publishing.rs:1228-1242) -/
def ObjSet.updateSigningCert (s : ObjSet) (ki : KeyId) (cert : Cert) : Except ObjErr ObjSet :=
  if s.key = ki then .ok { s with cert := cert } else .error .unknownKey

/-- `update_roas` / `update_aspas` / `update_bgpsec_certs`: insert the added, then remove. -/
def ObjSet.updateProducts (s : ObjSet) (u : ProdUpd) : ObjSet :=
  let p := u.added.foldl (fun m a => set m (OName.prod u.kind a.1) (OVal.prod a.2)) s.published
  { s with published := u.removed.foldl (fun m r => del m (OName.prod u.kind r)) p }

/-- `update_certs` (publishing.rs:1305-1338): removed, issued, unsuspended, suspended – in
that order (not the order of `CertAuth::apply`). -/
def ObjSet.updateCerts (s : ObjSet) (u : CertUpd) : ObjSet :=
  let p := u.removed.foldl (fun m k => del m (OName.cer k)) s.published
  let p := u.issued.foldl (fun m a => set m (OName.cer a.1) (OVal.cert a.2)) p
  let p := u.unsuspended.foldl (fun m a => set m (OName.cer a.1) (OVal.cert a.2)) p
  { s with published := u.suspended.foldl (fun m a => del m (OName.cer a.1)) p }

/-- `retire` (publishing.rs:1379-1397): everything revoked, nothing published. -/
def ObjSet.retire (s : ObjSet) : ObjSet := { s with published := [] }

/-- `ResourceClassKeyState` -/
inductive ObjKeys where
  | current (c : ObjSet)
  | staging (s : ObjSet) (c : ObjSet)
  | old (c : ObjSet) (o : ObjSet)
deriving DecidableEq, Repr

def ObjKeys.currentSet : ObjKeys → ObjSet
  | .current c => c
  | .staging _ c => c
  | .old c _ => c

/-- The ROA / ASPA / BGPsec / certificate updates all go to the current set in every state
(publishing.rs:788-842). -/
def ObjKeys.mapCurrent (f : ObjSet → ObjSet) : ObjKeys → ObjKeys
  | .current c => .current (f c)
  | .staging s c => .staging s (f c)
  | .old c o => .old (f c) o

/-- `keyroll_stage` (publishing.rs:720-745) -/
def ObjKeys.keyrollStage (ks : ObjKeys) (k : CertKey) : Except ObjErr ObjKeys :=
  match ks with
  | .current c => .ok (.staging (ObjSet.create k) c)
  | _ => .error .wrongKeyState

/-- `keyroll_activate` (publishing.rs:747-766) -/
def ObjKeys.keyrollActivate (ks : ObjKeys) : Except ObjErr ObjKeys :=
  match ks with
  | .staging s c => .ok (.old s c.retire)
  | _ => .error .wrongKeyState

/-- `keyroll_finish` (publishing.rs:768-779) -/
def ObjKeys.keyrollFinish (ks : ObjKeys) : Except ObjErr ObjKeys :=
  match ks with
  | .old c _ => .ok (.current c)
  | _ => .error .wrongKeyState

/-- `ResourceClassKeyState::update_received_cert` (publishing.rs:967-990): staging / old set
first, the current set if that one has another key. -/
def ObjKeys.updateReceivedCert (ks : ObjKeys) (ki : KeyId) (cert : Cert) : Except ObjErr ObjKeys :=
  match ks with
  | .current c =>
    match c.updateSigningCert ki cert with
    | .ok c' => .ok (.current c')
    | .error e => .error e
  | .staging s c =>
    match s.updateSigningCert ki cert with
    | .ok s' => .ok (.staging s' c)
    | .error _ =>
      match c.updateSigningCert ki cert with
      | .ok c' => .ok (.staging s c')
      | .error e => .error e
  | .old c o =>
    match o.updateSigningCert ki cert with
    | .ok o' => .ok (.old c o')
    | .error _ =>
      match c.updateSigningCert ki cert with
      | .ok c' => .ok (.old c' o)
      | .error e => .error e

/-- `CaObjects.classes` -/
abbrev Objs := AMap Rcn ObjKeys

/-- Update of an existing class (`get_class_mut` → "Missing resource class"). -/
def Objs.withClass (o : Objs) (rcn : Rcn) (f : ObjKeys → Except ObjErr ObjKeys) : Except ObjErr Objs :=
  match get o rcn with
  | none => .error .missingClass
  | some ks =>
    match f ks with
    | .ok ks' => .ok (set o rcn ks')
    | .error e => .error e

/-- One event of the pre-save listener (publishing.rs:95-191). -/
def Objs.step (o : Objs) : Ev → Except ObjErr Objs
  | .products rcn u => o.withClass rcn fun ks => .ok (ks.mapCurrent (·.updateProducts u))
  | .childCerts rcn u => o.withClass rcn fun ks => .ok (ks.mapCurrent (·.updateCerts u))
  | .key rcn (.pendingToActive k) =>
    if (get o rcn).isSome then .error .duplicateClass else .ok (set o rcn (.current (ObjSet.create k)))
  | .key rcn (.pendingToNew k) => o.withClass rcn (·.keyrollStage k)
  | .key rcn .activated => o.withClass rcn (·.keyrollActivate)
  | .key rcn .finished => o.withClass rcn (·.keyrollFinish)
  | .key rcn (.received ki cert) => o.withClass rcn (·.updateReceivedCert ki cert)
  | .rcRemoved rcn => .ok (del o rcn)
  | _ => .ok o

def Objs.stepAll (o : Objs) : List Ev → Except ObjErr Objs
  | [] => .ok o
  | e :: es =>
    match o.step e with
    | .ok o' => o'.stepAll es
    | .error err => .error err

/-- Products and certificates of the object sets that are *not* current. -/
def ObjKeys.sideSetsEmpty : ObjKeys → Bool
  | .current _ => true
  | .staging s _ => s.published.isEmpty
  | .old _ o => o.published.isEmpty

/-! ## Non-vacuity -/

private def k1 : CertKey := ⟨1, { res := [1, 2] }, false⟩
private def k2 : CertKey := ⟨2, { res := [1, 2] }, false⟩

example :
    (Objs.stepAll [] [.key 0 (.pendingToActive k1), .products 0 ⟨.roa, [(5, 50)], []⟩,
        .key 0 (.pendingToNew k2)]) =
      .ok [(0, .staging (ObjSet.create k2) ⟨1, k1.cert, [(.prod .roa 5, .prod 50)]⟩)] ∧
    (Objs.stepAll [] [.key 0 (.pendingToActive k1), .products 0 ⟨.roa, [(5, 50)], []⟩,
        .key 0 (.pendingToNew k2), .key 0 .activated, .products 0 ⟨.roa, [(5, 50)], []⟩]) =
      .ok [(0, .old ⟨2, k2.cert, [(.prod .roa 5, .prod 50)]⟩ ⟨1, k1.cert, []⟩)] ∧
    (Objs.stepAll [] [.key 0 .activated]) = .error .missingClass ∧
    (Objs.stepAll [] [.key 0 (.pendingToActive k1), .key 0 .activated]) = .error .wrongKeyState ∧
    (Objs.stepAll [] [.key 0 (.pendingToActive k1), .key 0 (.received 9 k1.cert)]) = .error .unknownKey := by
  decide

end KM.CaK
