/- Helper lemmas about `Ca/Objects.lean` (no property statements; those are in `Props/`). -/
import KrillModel.Ca.Objects
namespace KM.Ca.Pub

/-! ### Predicates the properties are about -/

/-- Manifest and CRL carry the number and window of the stored revision. -/
def NumbersAgree (s : KeyObjectSet) : Prop :=
  s.manifest.number = s.revision.number ∧ s.crl.number = s.revision.number ∧
  s.manifest.thisUpdate = s.revision.thisUpdate ∧ s.manifest.nextUpdate = s.revision.nextUpdate ∧
  s.crl.thisUpdate = s.revision.thisUpdate ∧ s.crl.nextUpdate = s.revision.nextUpdate

/-- The CRL lists exactly the recorded revocations. -/
def CrlOk (s : KeyObjectSet) : Prop :=
  s.crl.revoked = s.revocations.map (·.serial) ∧ s.crl.name = s.crlName

/-- The manifest lists the CRL and exactly the published objects. -/
def ListsExactly (s : KeyObjectSet) : Prop := s.manifest.entries = mkEntries s.crl s.published

def GoodSet (s : KeyObjectSet) : Prop := CrlOk s ∧ ListsExactly s ∧ NumbersAgree s

theorem numbersAgree_reissue (s : KeyObjectSet) (t : Timing) (i : IssueIn) : NumbersAgree (s.reissue t i) := by
  simp [NumbersAgree, KeyObjectSet.reissue, buildMft, buildCrl]

theorem numbersAgree_create (b c m : Nat) (t : Timing) (i : IssueIn) :
    NumbersAgree (KeyObjectSet.create b c m t i) := by
  simp [NumbersAgree, KeyObjectSet.create, buildMft, buildCrl]

theorem good_reissue (s : KeyObjectSet) (t : Timing) (i : IssueIn) : GoodSet (s.reissue t i) := by
  refine ⟨?_, ?_, numbersAgree_reissue s t i⟩
  · simp [CrlOk, KeyObjectSet.reissue, buildCrl]
  · simp [ListsExactly, KeyObjectSet.reissue, buildMft]

theorem good_create (k : NewKey) (t : Timing) : GoodSet (k.create t) := by
  refine ⟨?_, ?_, numbersAgree_create _ _ _ t _⟩
  · simp [CrlOk, NewKey.create, KeyObjectSet.create, buildCrl]
  · simp [ListsExactly, NewKey.create, KeyObjectSet.create, buildMft]

/-! ### Association lists -/

theorem get?_some_mem {κ ν} [DecidableEq κ] {m : List (κ × ν)} {k : κ} {v : ν} (h : get? m k = some v) :
    (k, v) ∈ m := by
  unfold get? at h
  cases hf : m.find? (fun e => decide (e.1 = k)) with
  | none => simp [hf] at h
  | some e =>
    simp [hf] at h
    have h1 := List.find?_some hf
    have h2 := List.mem_of_find?_eq_some hf
    simp at h1
    cases e with
    | mk a b => simp at h h1; subst h; subst h1; exact h2

/-! ### Updates leave revision, manifest and CRL alone -/

theorem insert_fixed (s : KeyObjectSet) (n : Nat) (o : PubObj) :
    (s.insert n o).revision = s.revision ∧ (s.insert n o).manifest = s.manifest ∧ (s.insert n o).crl = s.crl :=
  ⟨rfl, rfl, rfl⟩

theorem remove_fixed (s : KeyObjectSet) (n : Nat) :
    (s.remove n).revision = s.revision ∧ (s.remove n).manifest = s.manifest ∧ (s.remove n).crl = s.crl := by
  unfold KeyObjectSet.remove
  cases get? s.published n <;> simp

theorem insertNoRevoke_fixed (s : KeyObjectSet) (n : Nat) (o : PubObj) :
    (s.insertNoRevoke n o).revision = s.revision ∧ (s.insertNoRevoke n o).manifest = s.manifest ∧
    (s.insertNoRevoke n o).crl = s.crl := ⟨rfl, rfl, rfl⟩

theorem foldl_fixed {α} (f : KeyObjectSet → α → KeyObjectSet)
    (hf : ∀ s a, (f s a).revision = s.revision ∧ (f s a).manifest = s.manifest ∧ (f s a).crl = s.crl)
    (l : List α) (s : KeyObjectSet) :
    (l.foldl f s).revision = s.revision ∧ (l.foldl f s).manifest = s.manifest ∧ (l.foldl f s).crl = s.crl := by
  induction l generalizing s with
  | nil => exact ⟨rfl, rfl, rfl⟩
  | cons a l ih =>
    have h1 := ih (f s a)
    have h2 := hf s a
    simp only [List.foldl_cons]
    exact ⟨h1.1.trans h2.1, h1.2.1.trans h2.2.1, h1.2.2.trans h2.2.2⟩

theorem update_fixed (s : KeyObjectSet) (u : ObjUpdates) :
    (s.update u).revision = s.revision ∧ (s.update u).manifest = s.manifest ∧ (s.update u).crl = s.crl := by
  unfold KeyObjectSet.update
  have h1 := foldl_fixed (fun s (e : Nat × PubObj) => s.insert e.1 e.2) (fun s e => insert_fixed s e.1 e.2) u.added s
  have h2 := foldl_fixed KeyObjectSet.remove remove_fixed u.removed
    (u.added.foldl (fun s e => s.insert e.1 e.2) s)
  exact ⟨h2.1.trans h1.1, h2.2.1.trans h1.2.1, h2.2.2.trans h1.2.2⟩

theorem updateCerts_fixed (s : KeyObjectSet) (c : CertUpdates) :
    (s.updateCerts c).revision = s.revision ∧ (s.updateCerts c).manifest = s.manifest ∧
    (s.updateCerts c).crl = s.crl := by
  unfold KeyObjectSet.updateCerts
  have h1 := foldl_fixed KeyObjectSet.remove remove_fixed c.removed s
  have h2 := foldl_fixed (fun s (e : Nat × PubObj) => s.insert e.1 e.2) (fun s e => insert_fixed s e.1 e.2)
    c.issued (c.removed.foldl KeyObjectSet.remove s)
  have h3 := foldl_fixed (fun s (e : Nat × PubObj) => s.insertNoRevoke e.1 e.2)
    (fun s e => insertNoRevoke_fixed s e.1 e.2) c.unsuspended
    (c.issued.foldl (fun s e => s.insert e.1 e.2) (c.removed.foldl KeyObjectSet.remove s))
  have h4 := foldl_fixed KeyObjectSet.remove remove_fixed c.suspended
    (c.unsuspended.foldl (fun s e => s.insertNoRevoke e.1 e.2)
      (c.issued.foldl (fun s e => s.insert e.1 e.2) (c.removed.foldl KeyObjectSet.remove s)))
  exact ⟨h4.1.trans (h3.1.trans (h2.1.trans h1.1)), h4.2.1.trans (h3.2.1.trans (h2.2.1.trans h1.2.1)),
    h4.2.2.trans (h3.2.2.trans (h2.2.2.trans h1.2.2))⟩

theorem update_manifest (s : KeyObjectSet) (u : ObjUpdates) : (s.update u).manifest = s.manifest :=
  (update_fixed s u).2.1

theorem updateCerts_manifest (s : KeyObjectSet) (c : CertUpdates) : (s.updateCerts c).manifest = s.manifest :=
  (updateCerts_fixed s c).2.1

/-! ### Numbers along a history of one set -/

theorem step_number (t : Timing) (s : KeyObjectSet) (op : SetOp) :
    (s.step t op).revision.number = s.revision.number + (if op.isReissue then 1 else 0) := by
  cases op with
  | update u => simp [KeyObjectSet.step, SetOp.isReissue, (update_fixed s u).1]
  | updateCerts c => simp [KeyObjectSet.step, SetOp.isReissue, (updateCerts_fixed s c).1]
  | reissue i => simp [KeyObjectSet.step, SetOp.isReissue, KeyObjectSet.reissue, Revision.next]
  | retire now => simp [KeyObjectSet.step, SetOp.isReissue, KeyObjectSet.retire]

theorem run_number (t : Timing) (ops : List SetOp) (s : KeyObjectSet) :
    (s.run t ops).revision.number = s.revision.number + (ops.filter SetOp.isReissue).length := by
  induction ops generalizing s with
  | nil => simp [KeyObjectSet.run]
  | cons op ops ih =>
    have := ih (s.step t op)
    simp only [KeyObjectSet.run, List.foldl_cons] at this ⊢
    rw [this, step_number]
    cases h : op.isReissue <;> simp [List.filter, h] <;> omega

/-! ### `re_issue` over all classes -/

theorem class_reissue_published (t : Timing) (i1 i2 : IssueIn) (c : ClassObjects) :
    (c.reissue t i1 i2).sets.map (·.published) = c.sets.map (·.published) := by
  cases c <;> simp [ClassObjects.reissue, ClassObjects.sets, KeyObjectSet.reissue]

theorem reIssue_published (o : CaObjects) (force : Bool) (now : Nat) (t : Timing) (ins : IssueInputs) :
    (allSets (reIssue o force now t ins).1).map (·.published) = (allSets o).map (·.published) := by
  unfold reIssue allSets
  induction o with
  | nil => simp
  | cons e o ih =>
    simp only [List.map_cons, List.flatMap_cons, List.map_append]
    rw [ih]
    by_cases h : (force || e.2.requiresReissuance now t.hoursBefore) = true
    · simp [h, class_reissue_published]
    · simp [h]

theorem set_due_class_due (now hours : Nat) (c : ClassObjects) (s : KeyObjectSet) (hs : s ∈ c.sets)
    (h : s.requiresReissuance now hours = true) : c.requiresReissuance now hours = true := by
  cases c <;> simp [ClassObjects.sets] at hs <;> simp [ClassObjects.requiresReissuance]
  · subst hs; exact h
  · rcases hs with rfl | rfl
    · exact Or.inl h
    · exact Or.inr h
  · rcases hs with rfl | rfl
    · exact Or.inl h
    · exact Or.inr h

theorem class_reissue_sets (t : Timing) (i1 i2 : IssueIn) (c : ClassObjects) :
    ∀ s' ∈ (c.reissue t i1 i2).sets, ∃ s₀ ∈ c.sets, ∃ i,
      s' = s₀.reissue t i ∧ s'.revision.number = s₀.revision.number + 1 := by
  intro s' hs'
  cases c with
  | current c =>
    simp only [ClassObjects.reissue, ClassObjects.sets, List.mem_singleton] at hs'
    subst hs'
    exact ⟨c, by simp [ClassObjects.sets], i1, rfl, rfl⟩
  | staging sg c =>
    simp only [ClassObjects.reissue, ClassObjects.sets, List.mem_cons, List.not_mem_nil, or_false] at hs'
    rcases hs' with rfl | rfl
    · exact ⟨sg, by simp [ClassObjects.sets], i1, rfl, rfl⟩
    · exact ⟨c, by simp [ClassObjects.sets], i2, rfl, rfl⟩
  | old c ol =>
    simp only [ClassObjects.reissue, ClassObjects.sets, List.mem_cons, List.not_mem_nil, or_false] at hs'
    rcases hs' with rfl | rfl
    · exact ⟨ol, by simp [ClassObjects.sets], i1, rfl, rfl⟩
    · exact ⟨c, by simp [ClassObjects.sets], i2, rfl, rfl⟩

theorem due_reissued (o : CaObjects) (now : Nat) (t : Timing) (ins : IssueInputs)
    (rcn : Nat) (c : ClassObjects) (hc : (rcn, c) ∈ o) (s : KeyObjectSet) (hs : s ∈ c.sets)
    (hdue : s.requiresReissuance now t.hoursBefore = true) :
    (rcn, c.reissue t (ins rcn).1 (ins rcn).2) ∈ (reissueIfNeeded o false now t ins).1 ∧
    (reissueIfNeeded o false now t ins).2 = true ∧
    (∀ s' ∈ (c.reissue t (ins rcn).1 (ins rcn).2).sets, ∃ s₀ ∈ c.sets, ∃ i,
        s' = s₀.reissue t i ∧ s'.revision.number = s₀.revision.number + 1) := by
  have hcd := set_due_class_due now t.hoursBefore c s hs hdue
  refine ⟨?_, ?_, class_reissue_sets t _ _ c⟩
  · simp only [reissueIfNeeded, reIssue, List.mem_map]
    exact ⟨(rcn, c), hc, by simp [hcd]⟩
  · simp only [reissueIfNeeded, reIssue, List.any_eq_true]
    exact ⟨(rcn, c), hc, by simp [hcd]⟩

theorem class_notDue (now hours : Nat) (c : ClassObjects)
    (h : ∀ s ∈ c.sets, s.requiresReissuance now hours = false) : c.requiresReissuance now hours = false := by
  cases c <;> simp [ClassObjects.sets] at h <;> simp [ClassObjects.requiresReissuance, h]

theorem notDue_unchanged (o : CaObjects) (now : Nat) (t : Timing) (ins : IssueInputs)
    (h : ∀ e ∈ o, ∀ s ∈ e.2.sets, s.requiresReissuance now t.hoursBefore = false) :
    reissueIfNeeded o false now t ins = (o, false) := by
  have hc : ∀ e ∈ o, e.2.requiresReissuance now t.hoursBefore = false :=
    fun e he => class_notDue now _ e.2 (h e he)
  simp only [reissueIfNeeded, reIssue, Bool.false_or]
  congr 1
  · have : o.map (fun e => if e.2.requiresReissuance now t.hoursBefore = true
        then (e.1, e.2.reissue t (ins e.1).1 (ins e.1).2) else e) = o.map id := by
      apply List.map_congr_left
      intro e he
      simp [hc e he]
    simpa using this
  · rw [Bool.eq_false_iff]
    intro hany
    rw [List.any_eq_true] at hany
    obtain ⟨e, he, h'⟩ := hany
    simp [hc e he] at h'

/-! ### The pre-save listener keeps every key set well-formed -/

theorem mem_allSets {o : CaObjects} {s : KeyObjectSet} :
    s ∈ allSets o ↔ ∃ e ∈ o, s ∈ e.2.sets := by
  simp [allSets, List.mem_flatMap]

theorem allSets_modify {o o' : CaObjects} {rcn : Nat} {f : ClassObjects → Option ClassObjects}
    (h : modifyClass o rcn f = some o') :
    ∃ c c', (rcn, c) ∈ o ∧ f c = some c' ∧ ∀ s' ∈ allSets o', s' ∈ allSets o ∨ s' ∈ c'.sets := by
  unfold modifyClass at h
  cases hg : get? o rcn with
  | none => simp [hg] at h
  | some c =>
    cases hf : f c with
    | none => simp [hg, hf] at h
    | some c' =>
      simp [hg, hf] at h
      refine ⟨c, c', get?_some_mem hg, hf, ?_⟩
      intro s' hs'
      rw [mem_allSets] at hs'
      obtain ⟨e', he', hse'⟩ := hs'
      rw [← h, List.mem_map] at he'
      obtain ⟨e, he, hee⟩ := he'
      by_cases hk : e.1 = rcn
      · simp [hk] at hee
        subst hee
        exact Or.inr hse'
      · simp [hk] at hee
        subst hee
        exact Or.inl (mem_allSets.mpr ⟨e, he, hse'⟩)

/-- Every set of `o'` is a set of `o` or freshly created. -/
def Stable (t : Timing) (o o' : CaObjects) : Prop :=
  ∀ s' ∈ allSets o', s' ∈ allSets o ∨ ∃ k : NewKey, s' = k.create t

theorem Stable.refl (t : Timing) (o : CaObjects) : Stable t o o := fun _ h => Or.inl h

theorem Stable.trans {t : Timing} {a b c : CaObjects} (h1 : Stable t a b) (h2 : Stable t b c) : Stable t a c := by
  intro s hs
  rcases h2 s hs with h | h
  · exact h1 s h
  · exact Or.inr h

theorem applyEvent_false_stable (t : Timing) (o o' : CaObjects) (e : ObjEvent)
    (h : applyEvent t o e = some (o', false)) : Stable t o o' := by
  cases e with
  | roasUpdated rcn u => simp [applyEvent, Option.map] at h; split at h <;> simp at h
  | aspasUpdated rcn u => simp [applyEvent, Option.map] at h; split at h <;> simp at h
  | bgpsecUpdated rcn u => simp [applyEvent, Option.map] at h; split at h <;> simp at h
  | certsUpdated rcn c => simp [applyEvent, Option.map] at h; split at h <;> simp at h
  | keyRollActivated rcn now => simp [applyEvent, Option.map] at h; split at h <;> simp at h
  | resourceClassRemoved rcn => simp [applyEvent] at h
  | repoUpdated => simp [applyEvent] at h
  | other => simp [applyEvent] at h; subst h; exact Stable.refl t o
  | certificateReceived rcn =>
    simp [applyEvent] at h
    obtain ⟨_, h⟩ := h
    subst h; exact Stable.refl t o
  | keyPendingToActive rcn key =>
    simp [applyEvent] at h
    obtain ⟨_, h⟩ := h
    subst h
    intro s' hs'
    rw [mem_allSets] at hs'
    obtain ⟨e, he, hse⟩ := hs'
    rw [List.mem_append] at he
    rcases he with he | he
    · exact Or.inl (mem_allSets.mpr ⟨e, he, hse⟩)
    · simp at he; subst he
      simp [ClassObjects.sets] at hse
      exact Or.inr ⟨key, hse⟩
  | keyPendingToNew rcn key =>
    simp only [applyEvent, Option.map] at h
    split at h
    · rename_i o1 hm
      simp at h; subst h
      obtain ⟨c, c', hc, hf, hall⟩ := allSets_modify hm
      intro s' hs'
      rcases hall s' hs' with h1 | h1
      · exact Or.inl h1
      · cases c with
        | current c0 =>
          simp [ClassObjects.keyrollStage] at hf; subst hf
          simp [ClassObjects.sets] at h1
          rcases h1 with rfl | rfl
          · exact Or.inr ⟨key, rfl⟩
          · exact Or.inl (mem_allSets.mpr ⟨_, hc, by simp [ClassObjects.sets]⟩)
        | staging _ _ => simp [ClassObjects.keyrollStage] at hf
        | old _ _ => simp [ClassObjects.keyrollStage] at hf
    · simp at h
  | keyRollFinished rcn =>
    simp only [applyEvent, Option.map] at h
    split at h
    · rename_i o1 hm
      simp at h; subst h
      obtain ⟨c, c', hc, hf, hall⟩ := allSets_modify hm
      intro s' hs'
      rcases hall s' hs' with h1 | h1
      · exact Or.inl h1
      · cases c with
        | old cur ol =>
          simp [ClassObjects.keyrollFinish] at hf; subst hf
          simp [ClassObjects.sets] at h1; subst h1
          exact Or.inl (mem_allSets.mpr ⟨_, hc, by simp [ClassObjects.sets]⟩)
        | current _ => simp [ClassObjects.keyrollFinish] at hf
        | staging _ _ => simp [ClassObjects.keyrollFinish] at hf
    · simp at h

theorem applyEvents_false_stable (t : Timing) (evs : List ObjEvent) (o o' : CaObjects)
    (h : applyEvents t o evs = some (o', false)) : Stable t o o' := by
  induction evs generalizing o with
  | nil => simp [applyEvents] at h; subst h; exact Stable.refl t o
  | cons e es ih =>
    simp only [applyEvents] at h
    cases he : applyEvent t o e with
    | none => simp [he] at h
    | some r =>
      obtain ⟨o1, f1⟩ := r
      simp only [he] at h
      cases hes : applyEvents t o1 es with
      | none => simp [hes] at h
      | some r2 =>
        obtain ⟨o2, f2⟩ := r2
        simp [hes] at h
        obtain ⟨rfl, hf⟩ := h
        have hf1 : f1 = false := by cases f1 <;> simp_all
        have hf2 : f2 = false := by cases f2 <;> simp_all
        subst hf1; subst hf2
        exact (applyEvent_false_stable t o o1 e he).trans (ih o1 hes)

theorem reIssue_sets (o : CaObjects) (force : Bool) (now : Nat) (t : Timing) (ins : IssueInputs) :
    ∀ s' ∈ allSets (reIssue o force now t ins).1,
      (s' ∈ allSets o ∧ force = false) ∨ ∃ s i, s' = KeyObjectSet.reissue s t i := by
  intro s' hs'
  rw [mem_allSets] at hs'
  obtain ⟨e', he', hse'⟩ := hs'
  simp only [reIssue, List.mem_map] at he'
  obtain ⟨e, he, hee⟩ := he'
  by_cases hc : (force || e.2.requiresReissuance now t.hoursBefore) = true
  · simp [hc] at hee
    subst hee
    obtain ⟨s₀, _, i, hi, _⟩ := class_reissue_sets t _ _ e.2 s' hse'
    exact Or.inr ⟨s₀, i, hi⟩
  · simp [hc] at hee
    subst hee
    have hf : force = false := by cases force <;> simp_all
    exact Or.inl ⟨mem_allSets.mpr ⟨e, he, hse'⟩, hf⟩

theorem good_caStep (t : Timing) (o : CaObjects) (op : CaOp) (h : ∀ s ∈ allSets o, GoodSet s) :
    ∀ s ∈ allSets (caStep t o op), GoodSet s := by
  cases op with
  | republish force now ins =>
    intro s hs
    simp only [caStep, reissueIfNeeded] at hs
    rcases reIssue_sets o force now t ins s hs with ⟨h1, _⟩ | ⟨s₀, i, rfl⟩
    · exact h s h1
    · exact good_reissue s₀ t i
  | command evs now ins =>
    intro s hs
    simp only [caStep, preSave] at hs
    cases hev : applyEvents t o evs with
    | none => simp [hev] at hs; exact h s hs
    | some r =>
      obtain ⟨o1, f⟩ := r
      simp [hev] at hs
      rcases reIssue_sets o1 f now t ins s hs with ⟨h1, hf⟩ | ⟨s₀, i, rfl⟩
      · subst hf
        rcases applyEvents_false_stable t evs o o1 hev s h1 with h2 | ⟨k, rfl⟩
        · exact h s h2
        · exact good_create k t
      · exact good_reissue s₀ t i

theorem good_caRun (t : Timing) (ops : List CaOp) (o : CaObjects) (h : ∀ s ∈ allSets o, GoodSet s) :
    ∀ s ∈ allSets (caRun t o ops), GoodSet s := by
  induction ops generalizing o with
  | nil => exact h
  | cons op ops ih => exact ih (caStep t o op) (good_caStep t o op h)

/-! ### No repository sync queued ⇒ nothing changed -/

theorem reIssue_false_id (o : CaObjects) (force : Bool) (now : Nat) (t : Timing) (ins : IssueInputs)
    (h : (reIssue o force now t ins).2 = false) : (reIssue o force now t ins).1 = o := by
  simp only [reIssue] at h ⊢
  have hall : ∀ e ∈ o, (force || e.2.requiresReissuance now t.hoursBefore) = false := by
    intro e he
    cases hc : (force || e.2.requiresReissuance now t.hoursBefore)
    · rfl
    · have : (o.any fun e => force || e.2.requiresReissuance now t.hoursBefore) = true :=
        List.any_eq_true.mpr ⟨e, he, hc⟩
      rw [h] at this; cases this
  have : o.map (fun e => if (force || e.2.requiresReissuance now t.hoursBefore) = true
      then (e.1, e.2.reissue t (ins e.1).1 (ins e.1).2) else e) = o.map id := by
    apply List.map_congr_left
    intro e he
    simp [hall e he]
  simpa using this

theorem applyEvent_nosync_id (t : Timing) (o o' : CaObjects) (e : ObjEvent) (f : Bool)
    (hs : schedulesSync e = false) (h : applyEvent t o e = some (o', f)) : o' = o := by
  cases e <;> simp [schedulesSync] at hs
  · simp [applyEvent] at h; exact h.2.1.symm
  · simp [applyEvent] at h; exact h.1.symm
  · simp [applyEvent] at h; exact h.1.symm

theorem applyEvents_nosync_id (t : Timing) (evs : List ObjEvent) (o o' : CaObjects) (f : Bool)
    (hs : evs.any schedulesSync = false) (h : applyEvents t o evs = some (o', f)) : o' = o := by
  induction evs generalizing o f with
  | nil => simp [applyEvents] at h; exact h.1.symm
  | cons e es ih =>
    simp only [List.any_cons, Bool.or_eq_false_iff] at hs
    simp only [applyEvents] at h
    cases he : applyEvent t o e with
    | none => simp [he] at h
    | some r =>
      obtain ⟨o1, f1⟩ := r
      simp only [he] at h
      cases hes : applyEvents t o1 es with
      | none => simp [hes] at h
      | some r2 =>
        obtain ⟨o2, f2⟩ := r2
        simp [hes] at h
        obtain ⟨rfl, _⟩ := h
        have h1 := applyEvent_nosync_id t o o1 e f1 hs.1 he
        subst h1
        exact ih o1 f2 hs.2 hes

end KM.Ca.Pub
