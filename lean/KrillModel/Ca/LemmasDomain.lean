/-
Tie between the model's partial `apply` and the panic domains GENERATED from the source
(`Generated/ApplyDomain.lean`): helper definitions and lemmas, no property statements.
-/
import KrillModel.Ca.Preds
import KrillModel.Generated.ApplyDomain
namespace KM.CaK
open KM.Generated.ApplyDomain KM.AMap

/-- Model variant → source variant. -/
def KVar.gen : KVar → KsVariant
  | .pending => .Pending
  | .active => .Active
  | .rollPending => .RollPending
  | .rollNew => .RollNew
  | .rollOld => .RollOld

/-- Source event kind of a key event. -/
def KeyEv.kind : KeyEv → ApplyEvent
  | .requested _ => .CertificateRequested
  | .received .. => .CertificateReceived
  | .pendingAdded _ => .KeyRollPendingKeyAdded
  | .pendingToNew _ => .KeyPendingToNew
  | .pendingToActive _ => .KeyPendingToActive
  | .activated => .KeyRollActivated
  | .finished => .KeyRollFinished
  | .unexpected _ => .UnexpectedKeyFound

def PKind.event : PKind → ApplyEvent
  | .roa => .RoasUpdated
  | .aspa => .AspaObjectsUpdated
  | .bgpsec => .BgpSecCertificatesUpdated

/-- Source event kind of a model event (`other` stands for the kinds listed in `otherKinds`). -/
def Ev.kind : Ev → ApplyEvent
  | .rcAdded .. => .ResourceClassAdded
  | .rcRemoved _ => .ResourceClassRemoved
  | .key _ e => e.kind
  | .products _ u => u.kind.event
  | .childCerts .. => .ChildCertificatesUpdated
  | .childAdded .. => .ChildAdded
  | .childCertIssued .. => .ChildCertificateIssued
  | .childKeyRevoked .. => .ChildKeyRevoked
  | .childUpdatedResources .. => .ChildUpdatedResources
  | .childUpdatedId _ => .ChildUpdatedIdCert
  | .childMapping .. => .ChildUpdatedResourceClassNameMapping
  | .childRemoved _ => .ChildRemoved
  | .childSuspended _ => .ChildSuspended
  | .childUnsuspended _ => .ChildUnsuspended
  | .parentAdded _ => .ParentAdded
  | .parentRemoved _ => .ParentRemoved
  | .repoUpdated => .RepoUpdated
  | .other => .IdUpdated

/-- The event kinds the model lumps into `Ev.other`. -/
def otherKinds : List ApplyEvent :=
  [.IdUpdated, .ParentUpdated, .RouteAuthorizationAdded, .RouteAuthorizationComment,
   .RouteAuthorizationRemoved, .AspaConfigAdded, .AspaConfigUpdated, .AspaConfigRemoved,
   .BgpSecDefinitionAdded, .BgpSecDefinitionUpdated, .BgpSecDefinitionRemoved, .RtaSigned, .RtaPrepared]

def allVariants : List KsVariant := [.Pending, .Active, .RollPending, .RollNew, .RollOld]

/-- The child an event needs. -/
def Ev.child? : Ev → Option Handle
  | .childCertIssued ch .. => some ch
  | .childKeyRevoked ch .. => some ch
  | .childUpdatedResources ch _ => some ch
  | .childUpdatedId ch => some ch
  | .childMapping ch .. => some ch
  | .childSuspended ch => some ch
  | .childUnsuspended ch => some ch
  | _ => none

/-- Applicability of an event in a state **according to the generated table**: the class is
there if the arm unwraps a class look-up, its key state is one of the variants whose `apply_*`
arm does not panic, the child is there if the arm unwraps a child look-up. -/
def applicable (s : Ca) (e : Ev) : Bool :=
  let d := dom e.kind
  !d.otherPanic &&
  (!d.needsClass ||
    match e.rcn? with
    | none => false
    | some r =>
      match get s.classes r with
      | none => false
      | some rc => d.okVariants.contains rc.keys.variant.gen) &&
  (!d.needsChild ||
    match e.child? with
    | none => false
    | some ch => (get s.children ch).isSome)

/-! ## The model's `apply` is defined exactly where the table says the code does not panic -/

theorem gen_any (v : KVar) : v.gen = KsVariant.Pending ∨ v.gen = KsVariant.Active ∨
    v.gen = KsVariant.RollPending ∨ v.gen = KsVariant.RollNew ∨ v.gen = KsVariant.RollOld := by
  cases v <;> simp [KVar.gen]

theorem keyApply_isSome (ks : KeyState) (e : KeyEv) :
    (ks.apply e).isSome = (dom e.kind).okVariants.contains ks.variant.gen := by
  cases e <;> cases ks <;> simp [KeyState.apply, KeyEv.kind, dom, KeyState.variant, KVar.gen,
    KeyState.applyReceived, KeyState.applyPendingAdded, KeyState.applyPendingToNew,
    KeyState.applyPendingToActive, KeyState.applyActivated, KeyState.applyFinished] <;>
    (try split) <;> simp

theorem withClass_isSome (s : Ca) (r : Rcn) (f : Rc → Option Rc) :
    (s.withClass r f).isSome = (match get s.classes r with | none => false | some rc => (f rc).isSome) := by
  unfold Ca.withClass
  cases get s.classes r with
  | none => rfl
  | some rc => simp only; cases h : f rc <;> simp

theorem withChild_isSome (s : Ca) (ch : Handle) (f : Child → Child) :
    (s.withChild ch f).isSome = (get s.children ch).isSome := by
  unfold Ca.withChild
  cases get s.children ch <;> rfl

theorem apply_isSome_eq_applicable (s : Ca) (e : Ev) : (s.apply e).isSome = applicable s e := by
  cases e with
  | key r ke =>
    by_cases hu : ∃ k, ke = .unexpected k
    · obtain ⟨k, rfl⟩ := hu
      simp [Ca.apply, applicable, Ev.kind, KeyEv.kind, dom]
    · have happ : s.apply (.key r ke) =
          s.withClass r fun rc => (rc.keys.apply ke).map fun ks => { rc with keys := ks } := by
        cases ke <;> first | rfl | exact absurd ⟨_, rfl⟩ hu
      rw [happ]
      simp only [withClass_isSome, applicable, Ev.kind, Ev.rcn?, Ev.child?]
      cases hg : get s.classes r with
      | none => cases ke <;> simp [KeyEv.kind, dom] <;> exact absurd ⟨_, rfl⟩ hu
      | some rc =>
        simp only [Option.isSome_map]
        rw [keyApply_isSome]
        cases ke <;> simp [KeyEv.kind, dom] <;> exact absurd ⟨_, rfl⟩ hu
  | rcAdded r p pr k => simp [Ca.apply, applicable, Ev.kind, dom]
  | rcRemoved r => simp [Ca.apply, applicable, Ev.kind, dom]
  | products r u =>
    simp only [Ca.apply, withClass_isSome, applicable, Ev.kind, Ev.rcn?, Ev.child?]
    cases hg : get s.classes r with
    | none => cases hk : u.kind <;> simp [PKind.event, dom]
    | some rc => cases hk : u.kind <;> simp [PKind.event, dom, gen_any]
  | childCerts r u =>
    simp only [Ca.apply, applicable, Ev.kind, Ev.rcn?, Ev.child?]
    have h := withClass_isSome s r (fun rc => some { rc with certs := rc.certs.applyUpd u })
    cases hw : s.withClass r (fun rc => some { rc with certs := rc.certs.applyUpd u }) with
    | none =>
      rw [hw] at h
      cases hg : get s.classes r with
      | none => simp [dom]
      | some rc => rw [hg] at h; simp at h
    | some s' =>
      rw [hw] at h
      cases hg : get s.classes r with
      | none => rw [hg] at h; simp at h
      | some rc => simp [dom, gen_any]
  | childAdded ch res => simp [Ca.apply, applicable, Ev.kind, dom]
  | childCertIssued ch r k => simp [Ca.apply, applicable, Ev.kind, dom, withChild_isSome, Ev.child?]
  | childKeyRevoked ch r k =>
    simp only [Ca.apply, applicable, Ev.kind, Ev.rcn?, Ev.child?]
    have h := withClass_isSome s r (fun rc => some { rc with certs := rc.certs.removeRevoked k })
    cases hw : s.withClass r (fun rc => some { rc with certs := rc.certs.removeRevoked k }) with
    | none =>
      rw [hw] at h
      cases hg : get s.classes r with
      | none => simp [dom]
      | some rc => rw [hg] at h; simp at h
    | some s' =>
      rw [hw] at h
      have hch : s'.children = s.children := by
        unfold Ca.withClass at hw
        cases hg : get s.classes r with
        | none => rw [hg] at hw; simp at hw
        | some rc => rw [hg] at hw; simp at hw; rw [← hw]
      cases hg : get s.classes r with
      | none => rw [hg] at h; simp at h
      | some rc => simp [dom, gen_any, withChild_isSome, hch]
  | childUpdatedResources ch res => simp [Ca.apply, applicable, Ev.kind, dom, withChild_isSome, Ev.child?]
  | childUpdatedId ch => simp [Ca.apply, applicable, Ev.kind, dom, withChild_isSome, Ev.child?]
  | childMapping ch n m => simp [Ca.apply, applicable, Ev.kind, dom, withChild_isSome, Ev.child?]
  | childRemoved ch => simp [Ca.apply, applicable, Ev.kind, dom]
  | childSuspended ch => simp [Ca.apply, applicable, Ev.kind, dom, withChild_isSome, Ev.child?]
  | childUnsuspended ch => simp [Ca.apply, applicable, Ev.kind, dom, withChild_isSome, Ev.child?]
  | parentAdded p => simp [Ca.apply, applicable, Ev.kind, dom]
  | parentRemoved p => simp [Ca.apply, applicable, Ev.kind, dom]
  | repoUpdated => simp [Ca.apply, applicable, Ev.kind, dom]
  | other => simp [Ca.apply, applicable, Ev.kind, dom]
end KM.CaK
