/-
Helper lemmas for C02 (`exchange_converges` with a key roll of the child in progress): the
schedule sync, sync, sync, activate, sync on a coupled pair – class by class on the finite
abstraction of the key-state machine (`Ca/KeySync.lean`), then for the pair.  No property
statements.
-/
import KrillModel.Ca.ExchangeRollEnt
import KrillModel.Ca.LemmasTidyReach
set_option linter.unusedSimpArgs false
namespace KM.CaK
open KM.Res KM.AMap

/-! ## The schedule on the finite abstraction of one class -/

def AState.hasPending : AState → Bool
  | .pending req => req
  | .active c => c.req
  | .rollPending preq c => preq || c.req
  | .rollNew n c => n.req || c.req
  | .rollOld _ _ _ => true

/-- Nothing to send, nothing wanted, no key about to be revoked: `active`, or a new key waiting
for its activation. -/
def AState.calm : AState → Bool
  | .active c => !c.req && !c.want
  | .rollNew n c => !n.req && !n.want && !c.req && !c.want
  | _ => false

/-- A sync in which requests are sent, seen from one class: its requests are answered, or it has
none and nothing happens to it. -/
def AState.rstep (a : AState) : AState := if a.hasPending then a.syncStep else a

theorem abs_hasPending (ks : KeyState) (hwf : ks.wf = true) (o : Offer) (now : Int) :
    (ks.abs o now).hasPending = ks.hasPending := by
  cases ks with
  | pending p => obtain ⟨pid, preq⟩ := p; cases preq <;> simp [KeyState.abs, AState.hasPending, KeyState.hasPending, KeyState.certRequests, KeyState.revokeRequest]
  | active c => obtain ⟨cid, cc, creq⟩ := c; cases creq <;> simp [KeyState.abs, CertKey.abs, AState.hasPending, KeyState.hasPending, KeyState.certRequests, KeyState.revokeRequest]
  | rollPending p c =>
    obtain ⟨pid, preq⟩ := p; obtain ⟨cid, cc, creq⟩ := c
    cases preq <;> cases creq <;> simp [KeyState.abs, CertKey.abs, AState.hasPending, KeyState.hasPending, KeyState.certRequests, KeyState.revokeRequest]
  | rollNew n c =>
    obtain ⟨nid, nc, nreq⟩ := n; obtain ⟨cid, cc, creq⟩ := c
    cases nreq <;> cases creq <;> simp [KeyState.abs, CertKey.abs, AState.hasPending, KeyState.hasPending, KeyState.certRequests, KeyState.revokeRequest]
  | rollOld c o' => simp [KeyState.abs, AState.hasPending, KeyState.hasPending, KeyState.revokeRequest]

/-- After the entitlement step and the answers every class is calm. -/
theorem aState_calm_after (a : AState) (hwf : a.wf = true) (hnp : a.hasPending = false) :
    a.syncStep.rstep.calm = true ∧ (a.syncStep.hasPending = false → a.syncStep.calm = true) := by
  cases a with
  | pending r => cases r <;> simp_all [AState.hasPending] <;> decide
  | active c => obtain ⟨r, w⟩ := c; cases r <;> cases w <;> simp_all [AState.hasPending] <;> decide
  | rollPending pr c => obtain ⟨r, w⟩ := c; cases pr <;> cases r <;> cases w <;> simp_all [AState.hasPending] <;> decide
  | rollNew n c =>
    obtain ⟨r, w⟩ := c; obtain ⟨r2, w2⟩ := n
    cases r <;> cases w <;> cases r2 <;> cases w2 <;> simp_all [AState.hasPending] <;> decide
  | rollOld c oreq owant => simp [AState.hasPending] at hnp

/-- From a calm class: the activation and the answers leave it quiet (`active`, nothing open). -/
theorem aState_quiet_after (a : AState) (hc : a.calm = true) :
    a.activateStep.rstep.quiet = true ∧ (a.activateStep.hasPending = false → a.activateStep.quiet = true) ∧
    a.activateStep.wf = true := by
  cases a with
  | active c => obtain ⟨r, w⟩ := c; cases r <;> cases w <;> simp_all [AState.calm] <;> decide
  | rollNew n c =>
    obtain ⟨r, w⟩ := c; obtain ⟨r2, w2⟩ := n
    cases r <;> cases w <;> cases r2 <;> cases w2 <;> simp_all [AState.calm] <;> decide
  | pending r => simp [AState.calm] at hc
  | rollPending pr c => simp [AState.calm] at hc
  | rollOld c oreq owant => simp [AState.calm] at hc


/-! ## Calm and quiet key states -/

/-- The class has nothing to send, no key wants an update for the offer, no key is about to be
revoked. -/
def Calm (o : Offer) (now : Int) (ks : KeyState) : Prop := ks.wf = true ∧ (ks.abs o now).calm = true

theorem calm_cases {o : Offer} {now : Int} {ks : KeyState} (h : Calm o now ks) :
    (∃ c, ks = .active c ∧ c.req = false ∧ c.wantsUpdate o.res o.na now = false) ∨
    (∃ n c, ks = .rollNew n c ∧ n.req = false ∧ c.req = false ∧ n.wantsUpdate o.res o.na now = false ∧
      c.wantsUpdate o.res o.na now = false) := by
  obtain ⟨_, hc⟩ := h
  cases ks with
  | active c =>
    simp only [KeyState.abs, AState.calm, CertKey.abs, Bool.and_eq_true, Bool.not_eq_true'] at hc
    exact Or.inl ⟨c, rfl, hc.1, hc.2⟩
  | rollNew n c =>
    simp only [KeyState.abs, AState.calm, CertKey.abs, Bool.and_eq_true, Bool.not_eq_true'] at hc
    exact Or.inr ⟨n, c, rfl, hc.1.1.1, hc.1.2, hc.1.1.2, hc.2⟩
  | pending _ => simp [KeyState.abs, AState.calm] at hc
  | rollPending _ _ => simp [KeyState.abs, AState.calm] at hc
  | rollOld _ _ => simp [KeyState.abs, AState.calm] at hc

theorem calm_not_pending {o : Offer} {now : Int} {ks : KeyState} (h : Calm o now ks) : ks.hasPending = false := by
  rcases calm_cases h with ⟨c, rfl, h1, _⟩ | ⟨n, c, rfl, h1, h2, _, _⟩
  · obtain ⟨cid, cc, creq⟩ := c
    simp only at h1; subst h1
    simp [KeyState.hasPending, KeyState.certRequests, KeyState.revokeRequest]
  · obtain ⟨cid, cc, creq⟩ := c
    obtain ⟨nid, nc, nreq⟩ := n
    simp only at h1 h2; subst h1 h2
    simp [KeyState.hasPending, KeyState.certRequests, KeyState.revokeRequest]

theorem calm_requestKeys {o : Offer} {now : Int} {ks : KeyState} (h : Calm o now ks) (ent : Entitlement)
    (hr : ent.res = o.res) (hn : ent.na = o.na) : ks.requestKeys ent now = [] := by
  rcases calm_cases h with ⟨c, rfl, _, h2⟩ | ⟨n, c, rfl, _, _, h3, h4⟩
  · simp [KeyState.requestKeys, hr, hn, h2]
  · simp [KeyState.requestKeys, hr, hn, h3, h4]

theorem quiet_cases {o : Offer} {now : Int} {ks : KeyState} (h : (ks.abs o now).quiet = true) :
    ∃ c, ks = .active c ∧ c.req = false ∧ c.wantsUpdate o.res o.na now = false := by
  cases ks with
  | active c =>
    simp only [KeyState.abs, AState.quiet, CertKey.abs, Bool.and_eq_true, Bool.not_eq_true'] at h
    exact ⟨c, rfl, h.1, h.2⟩
  | pending _ => simp [KeyState.abs, AState.quiet] at h
  | rollPending _ _ => simp [KeyState.abs, AState.quiet] at h
  | rollNew _ _ => simp [KeyState.abs, AState.quiet] at h
  | rollOld _ _ => simp [KeyState.abs, AState.quiet] at h

/-- The concrete form of `AState.rstep`. -/
theorem abs_rstep {ks ks' : KeyState} (hwf : ks.wf = true) (o : Offer) (now : Int)
    (h : (ks.hasPending = true ∧ ks' = ks.syncStep o now) ∨ (ks.hasPending = false ∧ ks' = ks)) :
    ks'.abs o now = (ks.abs o now).rstep := by
  unfold AState.rstep
  rw [abs_hasPending ks hwf]
  rcases h with ⟨h1, h2⟩ | ⟨h1, h2⟩
  · rw [h1, h2, abs_syncStep hwf]; rfl
  · rw [h1, h2]; rfl

/-! ## The stages of the schedule -/

/-- Classes under other parents do not stand in the way of `KeyRollActivate`. -/
def OtherAct (s : Ca) (p : Handle) : Prop := ∀ r rc, get s.classes r = some rc → rc.parent ≠ p → rc.activatable

/-- Every class under the parent is listed and calm; every listed class exists. -/
structure StageC (x : Pair) (now na : Int) : Prop where
  coupled : Coupled2 x
  cls : ∀ r rc, get x.child.ca.classes r = some rc → rc.parent = x.ph →
    ∃ R, x.parent.ca.offers x.ch rc.parentRcn R ∧ Calm ⟨R, na⟩ now rc.keys
  all : ∀ n R, x.parent.ca.offers x.ch n R →
    ∃ r rc, get x.child.ca.classes r = some rc ∧ rc.parent = x.ph ∧ rc.parentRcn = n

/-- … after the activation of the new keys. -/
structure StageD (x : Pair) (now na : Int) : Prop where
  coupled : Coupled2 x
  cls : ∀ r rc, get x.child.ca.classes r = some rc → rc.parent = x.ph →
    ∃ (R : ResSet) (ks : KeyState), x.parent.ca.offers x.ch rc.parentRcn R ∧ Calm ⟨R, na⟩ now ks ∧
      rc.keys = ks.activateStep
  all : ∀ n R, x.parent.ca.offers x.ch n R →
    ∃ r rc, get x.child.ca.classes r = some rc ∧ rc.parent = x.ph ∧ rc.parentRcn = n

theorem StageC.not_pending {x : Pair} {now na : Int} (h : StageC x now na) :
    x.child.ca.hasPendingRequests x.ph = false := by
  rw [hasPendingRequests_false_iff (reachable_inv h.coupled.inv.base.rc).core.nodup]
  intro r rc hg hp
  obtain ⟨R, _, hc⟩ := h.cls r rc hg hp
  exact calm_not_pending hc

/-- A calm pair is a fixed point of `Pair.sync`. -/
theorem StageC.sync_eq {x : Pair} {now na : Int} (h : StageC x now na) (fresh : List KeyId) :
    x.sync now na fresh = x := by
  have hndP := (reachable_inv h.coupled.inv.base.rp).core.nodup
  have hndC := (reachable_inv h.coupled.inv.base.rc).core.nodup
  have hpend := h.not_pending
  have hrem : (x.child.ca.classes.filter fun q =>
      decide (q.2.parent = x.ph ∧ (!((x.parent.ca.entitlementsFor x.ch na).map (·.rcn)).contains q.2.parentRcn) = true)) = [] := by
    apply List.filter_eq_nil_iff.mpr
    intro q hq
    simp only [decide_eq_true_eq, not_and, Bool.not_eq_true', Bool.not_eq_false]
    intro hpar
    obtain ⟨R, ho, _⟩ := h.cls q.1 q.2 (get_of_mem_nodup hndC hq) hpar
    obtain ⟨ent, hent, he1, _, _⟩ := entitlementsFor_of_offers na ho
    exact List.contains_iff_mem.mpr (List.mem_map.mpr ⟨ent, hent, he1⟩)
  have hloop : ∀ (l : List Entitlement) (next : Nat), (∀ ent ∈ l, ent ∈ x.parent.ca.entitlementsFor x.ch na) →
      ∃ evs, entitlementLoop x.child.ca x.ph now l next fresh = .ok evs ∧
        ∀ e ∈ evs, ∃ r k, e = Ev.key r (.unexpected k) := by
    intro l
    induction l with
    | nil => intro _ _; exact ⟨[], rfl, fun _ he => by cases he⟩
    | cons ent l ih =>
      intro next hl
      have hent := hl ent (List.mem_cons_self ..)
      obtain ⟨ho, hna⟩ := mem_entitlementsFor hndP hent
      obtain ⟨r, rc, hg, hp, hn⟩ := h.all ent.rcn ent.res ho
      have hf := findParentRc_of_get hndC h.coupled.uniq hg hp
      rw [hn] at hf
      obtain ⟨R, ho', hcalm⟩ := h.cls r rc hg hp
      rw [hn] at ho'
      have hR := offers_unique h.coupled.names ho' ho
      subst hR
      have hreq := calm_requestKeys hcalm ent rfl hna
      obtain ⟨rest, hrest, hall⟩ := ih next (fun e he => hl e (List.mem_cons_of_mem _ he))
      refine ⟨(rc.keys.entitlementEvents ent now).map (Ev.key r) ++ rest,
        by simp only [entitlementLoop, hf, h.coupled.inv.base.repo, Bool.not_true, Bool.false_eq_true,
          if_false, hrest], ?_⟩
      intro e he
      rcases List.mem_append.mp he with he | he
      · obtain ⟨ke, hke, rfl⟩ := List.mem_map.mp he
        simp only [KeyState.entitlementEvents, hreq, List.map_nil, List.nil_append, List.mem_map] at hke
        obtain ⟨k', _, rfl⟩ := hke
        exact ⟨r, k', rfl⟩
      · exact hall e he
  obtain ⟨evs, hevs, hall⟩ := hloop (x.parent.ca.entitlementsFor x.ch na) x.child.ca.nextClass (fun _ h => h)
  have hproc : x.child.ca.process (.updateEntitlements x.ph (x.parent.ca.entitlementsFor x.ch na) now fresh) =
      .ok evs := by
    simp only [Ca.process, hevs, hrem, List.map_nil, List.nil_append]
  unfold Pair.sync
  simp only [hpend, Bool.false_eq_true, if_false, next_of_unexpected hproc hall]

/-- After the entitlement branch with nothing left to send the pair is calm. -/
theorem PostE2.stageC_of_quiet {x : Pair} {now na : Int} (h : PostE2 x now na)
    (hq : x.child.ca.hasPendingRequests x.ph = false) : StageC x now na := by
  refine ⟨h.coupled, ?_, h.all⟩
  intro r rc hg hp
  obtain ⟨R, ks0, ho, hwf0, hnp0, hk⟩ := h.cls r rc hg hp
  refine ⟨R, ho, h.coupled.ok.wf r rc hg hp, ?_⟩
  have hnp := (hasPendingRequests_false_iff (reachable_inv h.coupled.inv.base.rc).core.nodup x.ph).mp hq r rc hg hp
  have ha : rc.keys.abs ⟨R, na⟩ now = (ks0.abs ⟨R, na⟩ now).syncStep := by rw [hk, abs_syncStep hwf0]
  rw [ha]
  apply (aState_calm_after _ (abs_wf hwf0 _ _) (by rw [abs_hasPending ks0 hwf0]; exact hnp0)).2
  rw [← ha, abs_hasPending rc.keys (h.coupled.ok.wf r rc hg hp)]; exact hnp

/-- After the entitlement branch, the request branch leaves the pair calm. -/
theorem PostE2.stageC_of_requests {x z : Pair} {now na : Int} (h : PostE2 x now na) (hr : ReqRun2 x z na now) :
    StageC z now na := by
  have hcz := hr.coupled h.coupled
  refine ⟨hcz, ?_, ?_⟩
  · intro r rc' hg hp
    rw [hr.ph] at hp
    rw [hr.ch]
    obtain ⟨rc, hx, a1, a2, a3⟩ := (hr.cls r).origin hg
    have hpx : rc.parent = x.ph := a1.symm.trans hp
    obtain ⟨R, ks0, ho, hwf0, hnp0, hk⟩ := h.cls r rc hx hpx
    have hwf := h.coupled.ok.wf r rc hx hpx
    refine ⟨R, by rw [a2]; exact hr.same.offers ho, hcz.ok.wf r rc' hg (by rw [hr.ph]; exact hp), ?_⟩
    have ha : rc.keys.abs ⟨R, na⟩ now = (ks0.abs ⟨R, na⟩ now).syncStep := by rw [hk, abs_syncStep hwf0]
    have hstep : rc'.keys.abs ⟨R, na⟩ now = (rc.keys.abs ⟨R, na⟩ now).rstep := by
      apply abs_rstep hwf
      rcases a3 with ⟨heq, hnot⟩ | ⟨_, _, hnone, _, _⟩ | ⟨_, hpend, R', hR', hk', _⟩
      · right
        refine ⟨?_, by rw [heq]⟩
        cases hpend : rc.keys.hasPending with
        | false => rfl
        | true => exact absurd ⟨hpx, hpend⟩ hnot
      · rw [offers_answer h.coupled.names ho] at hnone; cases hnone
      · rw [offers_answer h.coupled.names ho] at hR'; cases hR'
        exact Or.inl ⟨hpend, hk'⟩
    rw [hstep, ha]
    exact (aState_calm_after _ (abs_wf hwf0 _ _) (by rw [abs_hasPending ks0 hwf0]; exact hnp0)).1
  · intro n R ho
    rw [hr.ch] at ho
    have hox := hr.same.symm.offers ho
    obtain ⟨r, rc, hg, hp, hn⟩ := h.all n R hox
    obtain ⟨rc', g1, g2, g3⟩ := (hr.cls r).survives hg (fun _ _ => by
      obtain ⟨R0, _, hoff, _⟩ := h.cls r rc hg hp
      exact ⟨R0, offers_answer h.coupled.names hoff⟩)
    exact ⟨r, rc', g1, by rw [g2, hp, hr.ph], g3.trans hn⟩

/-! ## The activation -/

theorem leaving_activateStep (ks : KeyState) : ∀ k ∈ ks.activateStep.leaving, k ∈ ks.leaving := by
  intro k hk
  cases ks with
  | rollNew n c =>
    simp only [KeyState.activateStep, KeyState.keyrollActivate] at hk
    split at hk
    · exact hk
    · simpa [KeyState.applyActivated, KeyState.leaving] using hk
  | _ => exact hk

theorem staying_activateStep (ks : KeyState) : ∀ k ∈ ks.activateStep.staying, k ∈ ks.staying := by
  intro k hk
  cases ks with
  | rollNew n c =>
    simp only [KeyState.activateStep, KeyState.keyrollActivate] at hk
    split at hk
    · exact hk
    · simpa [KeyState.applyActivated, KeyState.staying] using hk
  | _ => exact hk

/-- A calm class can be activated: no request is open and every child certificate lies inside
the new key's certificate (both keys hold exactly the listed resources). -/
theorem calm_activatable {s : Sys} (hr : Reachable s) (hnl : NoLimits s.ca) (hns : NoSusp s.ca) {r : Rcn} {rc : Rc}
    (hg : get s.ca.classes r = some rc) {o : Offer} {now : Int} (hc : Calm o now rc.keys) : rc.activatable := by
  rcases calm_cases hc with ⟨c, hk, _, _⟩ | ⟨n, c, hk, h1, h2, h3, h4⟩
  · simp only [Rc.activatable, hk]
  · simp only [Rc.activatable, hk]
    refine ⟨h1, h2, ?_⟩
    intro p hp
    rw [hns r rc hg, List.append_nil] at hp
    refine ⟨Or.inl (hnl r rc hg p (List.mem_append_left _ hp)), ?_⟩
    have hno := reachable_noOver hr r rc hg
    unfold NoOver at hno
    rw [hk] at hno
    simp only [KeyState.current] at hno
    have hnd := (reachable_tidy hr r rc hg).ndI
    have h5 := hno p.1 p.2 (get_of_mem_nodup hnd hp)
    exact subset_trans h5 (subset_trans (seteq_subset_right (seteq_of_not_wantsUpdate h4))
      (seteq_subset_left (seteq_of_not_wantsUpdate h3)))

/-- `KeyRollActivate` of the child in a calm pair. -/
theorem StageC.activate {x : Pair} {now na : Int} (h : StageC x now na) (hoth : OtherAct x.child.ca x.ph)
    (na' : Int) : StageD { x with child := x.child.next (.keyrollActivate na') } now na := by
  have hc := h.coupled
  have hall : ∀ p ∈ x.child.ca.classes, p.2.activatable := by
    intro p hp
    have hg := get_of_mem_nodup (reachable_inv hc.inv.base.rc).core.nodup hp
    by_cases hpar : p.2.parent = x.ph
    · obtain ⟨R, _, hcalm⟩ := h.cls p.1 p.2 hg hpar
      exact calm_activatable hc.inv.base.rc hc.inv.base.nolim hc.inv.nosusp hg hcalm
    · exact hoth p.1 p.2 hg hpar
  obtain ⟨s', hn, a1, a2, a3, a4, a5, a6⟩ := activate_spec hc.inv.base.rc hc.inv.base.nolim hc.inv.nosusp na' hall
  rw [hn]
  -- where a class of the new state comes from
  have horigin : ∀ r rc', get s'.ca.classes r = some rc' → ∃ rc, get x.child.ca.classes r = some rc ∧
      rc'.parent = rc.parent ∧ rc'.parentRcn = rc.parentRcn ∧ rc'.keys = rc.keys.activateStep := by
    intro r rc' hg'
    cases hg : get x.child.ca.classes r with
    | none => rw [a5 r hg] at hg'; cases hg'
    | some rc =>
      obtain ⟨rc'', g1, g2, g3, g4⟩ := a6 r rc hg
      rw [g1] at hg'; cases hg'
      exact ⟨rc, rfl, g2, g3, g4⟩
  refine ⟨⟨⟨⟨hc.inv.base.rp, a1, a4.trans hc.inv.base.repo, a2⟩, a3⟩, hc.names, ?_, ⟨?_, ?_, ?_⟩, ?_⟩, ?_, ?_⟩
  · intro r1 r2 rc1 rc2 hg1 hg2 hp1 hp2 hname
    obtain ⟨rc1', hx1, b1, b2, _⟩ := horigin r1 rc1 hg1
    obtain ⟨rc2', hx2, c1, c2, _⟩ := horigin r2 rc2 hg2
    exact hc.uniq r1 r2 rc1' rc2' hx1 hx2 (b1.symm.trans hp1) (c1.symm.trans hp2) (b2.symm.trans (hname.trans c2))
  · intro r rc' hg hp
    obtain ⟨rc, hx, b1, _, b3⟩ := horigin r rc' hg
    rw [b3]; exact wf_activateStep (hc.ok.wf r rc hx (b1.symm.trans hp))
  · intro r1 r2 rc1 rc2 k hg1 hg2 hp1 hp2 hk1 hk2
    obtain ⟨rc1', hx1, b1, _, b3⟩ := horigin r1 rc1 hg1
    obtain ⟨rc2', hx2, c1, _, c3⟩ := horigin r2 rc2 hg2
    rw [b3] at hk1; rw [c3] at hk2
    exact hc.ok.distinct r1 r2 rc1' rc2' k hx1 hx2 (b1.symm.trans hp1) (c1.symm.trans hp2)
      (keyIds_activateStep _ k hk1) (keyIds_activateStep _ k hk2)
  · intro r rc' hg hp k hk
    obtain ⟨rc, hx, b1, b2, b3⟩ := horigin r rc' hg
    rw [b3] at hk
    rw [b2]
    exact hc.ok.leaving r rc hx (b1.symm.trans hp) k (leaving_activateStep _ k hk)
  · intro r rc' k R hg hp hk ha hse
    obtain ⟨rc, hx, b1, b2, b3⟩ := horigin r rc' hg
    rw [b3] at hk
    rw [b2] at ha ⊢
    exact hc.booked r rc k R hx (b1.symm.trans hp) (staying_activateStep _ k hk) ha hse
  · intro r rc' hg hp
    obtain ⟨rc, hx, b1, b2, b3⟩ := horigin r rc' hg
    obtain ⟨R, ho, hcalm⟩ := h.cls r rc hx (b1.symm.trans hp)
    exact ⟨R, rc.keys, by rw [b2]; exact ho, hcalm, b3⟩
  · intro n R ho
    obtain ⟨r, rc, hg, hp, hn'⟩ := h.all n R ho
    obtain ⟨rc', g1, g2, g3, _⟩ := a6 r rc hg
    exact ⟨r, rc', g1, g2.trans hp, g3.trans hn'⟩

/-! ## The last sync -/

/-- All classes `active`: the coupling of `Ca/ExchangeLemmas.lean`. -/
theorem Coupled2.toCoupled {x : Pair} (h : Coupled2 x)
    (hact : ∀ r rc, get x.child.ca.classes r = some rc → rc.parent = x.ph → ∃ c, rc.keys = .active c) :
    Coupled x := by
  refine ⟨h.inv.base, h.names, h.uniq, ?_, ?_⟩
  · intro r rc hg hp
    obtain ⟨c, hk⟩ := hact r rc hg hp
    rw [hk]; trivial
  · intro r rc k R hg hp hk ha hse
    exact h.booked r rc k R hg hp (by rw [hk]; simp [KeyState.staying]) ha hse

theorem StageD.conv_of_quiet {x : Pair} {now na : Int} (h : StageD x now na)
    (hq : x.child.ca.hasPendingRequests x.ph = false) : Conv x now na := by
  have hcls : ∀ r rc, get x.child.ca.classes r = some rc → rc.parent = x.ph →
      Settled x.parent.ca x.ch now na rc := by
    intro r rc hg hp
    obtain ⟨R, ks, ho, hcalm, hk⟩ := h.cls r rc hg hp
    have hnp := (hasPendingRequests_false_iff (reachable_inv h.coupled.inv.base.rc).core.nodup x.ph).mp hq r rc hg hp
    have hwf := h.coupled.ok.wf r rc hg hp
    have ha : rc.keys.abs ⟨R, na⟩ now = (ks.abs ⟨R, na⟩ now).activateStep := by rw [hk, abs_activateStep]
    have hquiet : (rc.keys.abs ⟨R, na⟩ now).quiet = true := by
      rw [ha]
      apply (aState_quiet_after _ hcalm.2).2.1
      rw [← ha, abs_hasPending rc.keys hwf]; exact hnp
    obtain ⟨c, hc1, hc2, hc3⟩ := quiet_cases hquiet
    exact ⟨c, R, hc1, hc2, ho, hc3⟩
  refine ⟨h.coupled.toCoupled ?_, hcls, h.all⟩
  intro r rc hg hp
  obtain ⟨k, R, hk, _⟩ := hcls r rc hg hp
  exact ⟨k, hk⟩

theorem StageD.conv_of_requests {x z : Pair} {now na : Int} (h : StageD x now na) (hr : ReqRun2 x z na now) :
    Conv z now na := by
  have hcz := hr.coupled h.coupled
  have hcls : ∀ r rc', get z.child.ca.classes r = some rc' → rc'.parent = z.ph →
      Settled z.parent.ca z.ch now na rc' := by
    intro r rc' hg hp
    rw [hr.ph] at hp
    rw [hr.ch]
    obtain ⟨rc, hx, a1, a2, a3⟩ := (hr.cls r).origin hg
    have hpx : rc.parent = x.ph := a1.symm.trans hp
    obtain ⟨R, ks, ho, hcalm, hk⟩ := h.cls r rc hx hpx
    have hwf := h.coupled.ok.wf r rc hx hpx
    have ha : rc.keys.abs ⟨R, na⟩ now = (ks.abs ⟨R, na⟩ now).activateStep := by rw [hk, abs_activateStep]
    have hstep : rc'.keys.abs ⟨R, na⟩ now = (rc.keys.abs ⟨R, na⟩ now).rstep := by
      apply abs_rstep hwf
      rcases a3 with ⟨heq, hnot⟩ | ⟨_, _, hnone, _, _⟩ | ⟨_, hpend, R', hR', hk', _⟩
      · right
        refine ⟨?_, by rw [heq]⟩
        cases hpend : rc.keys.hasPending with
        | false => rfl
        | true => exact absurd ⟨hpx, hpend⟩ hnot
      · rw [offers_answer h.coupled.names ho] at hnone; cases hnone
      · rw [offers_answer h.coupled.names ho] at hR'; cases hR'
        exact Or.inl ⟨hpend, hk'⟩
    have hquiet : (rc'.keys.abs ⟨R, na⟩ now).quiet = true := by
      rw [hstep, ha]; exact (aState_quiet_after _ hcalm.2).1
    obtain ⟨c, hc1, hc2, hc3⟩ := quiet_cases hquiet
    exact ⟨c, R, hc1, hc2, by rw [a2]; exact hr.same.offers ho, hc3⟩
  refine ⟨hcz.toCoupled ?_, hcls, ?_⟩
  · intro r rc hg hp
    obtain ⟨k, R, hk, _⟩ := hcls r rc hg hp
    exact ⟨k, hk⟩
  · intro n R ho
    rw [hr.ch] at ho
    have hox := hr.same.symm.offers ho
    obtain ⟨r, rc, hg, hp, hn⟩ := h.all n R hox
    obtain ⟨rc', g1, g2, g3⟩ := (hr.cls r).survives hg (fun _ _ => by
      obtain ⟨R0, _, hoff, _⟩ := h.cls r rc hg hp
      exact ⟨R0, offers_answer h.coupled.names hoff⟩)
    exact ⟨r, rc', g1, by rw [g2, hp, hr.ph], g3.trans hn⟩

/-! ## The schedule on the pair -/

/-- The child's `KeyRollActivate` command between two syncs. -/
def Pair.activate (x : Pair) (na' : Int) : Pair := { x with child := x.child.next (.keyrollActivate na') }

theorem ReqRun2.keyIds_sub {x z : Pair} {na now : Int} (h : ReqRun2 x z na now) {r : Rcn} {rc' : Rc}
    (hg : get z.child.ca.classes r = some rc') :
    ∃ rc, get x.child.ca.classes r = some rc ∧ rc'.parent = rc.parent ∧
      (rc.parent ≠ x.ph → rc' = rc) ∧ ∀ k ∈ rc'.keys.keyIds, k ∈ rc.keys.keyIds := by
  obtain ⟨rc, hx, a1, _, a3⟩ := (h.cls r).origin hg
  refine ⟨rc, hx, a1, ?_, ?_⟩
  · intro hne
    rcases a3 with ⟨heq, _⟩ | ⟨hp, _⟩ | ⟨hp, _⟩
    · exact heq
    · exact absurd hp hne
    · exact absurd hp hne
  · intro k hk
    rcases a3 with ⟨heq, _⟩ | ⟨_, _, _, hk', _⟩ | ⟨_, _, R, _, hk', _⟩
    · rw [heq] at hk; exact hk
    · rw [hk'] at hk; exact keyIds_finished_sub _ k hk
    · rw [hk'] at hk; exact keyIds_syncStep _ _ _ k hk

/-- Entitlements, then requests, from a coupled pair with nothing to send: calm. -/
theorem stageC_from_quiet {x : Pair} (hc : Coupled2 x) (hoth : OtherAct x.child.ca x.ph) (now na : Int)
    (f1 f2 : List KeyId) (hpend : x.child.ca.hasPendingRequests x.ph = false)
    (hlen : x.newClasses na ≤ f1.length) (hfresh : FreshOk x f1) :
    StageC ((x.sync now na f1).sync now na f2) now na ∧
    OtherAct ((x.sync now na f1).sync now na f2).child.ca ((x.sync now na f1).sync now na f2).ph := by
  obtain ⟨hpost, _, _, hph1, hframe⟩ := syncE2_spec hc now na f1 hpend hlen hfresh
  have hoth1 : OtherAct (x.sync now na f1).child.ca (x.sync now na f1).ph := by
    intro r rc hg hp
    rw [hph1] at hp
    exact hoth r rc (hframe r rc hg hp) hp
  cases hp2 : (x.sync now na f1).child.ca.hasPendingRequests (x.sync now na f1).ph with
  | false =>
    have hC := hpost.stageC_of_quiet hp2
    rw [hC.sync_eq f2]; exact ⟨hC, hoth1⟩
  | true =>
    have hansw : Answerable (x.sync now na f1) := by
      intro r rc hg hp _
      obtain ⟨R, _, hoff, _⟩ := hpost.cls r rc hg hp
      exact ⟨R, offers_answer hpost.coupled.names hoff⟩
    have hr := syncR2_spec hpost.coupled.inv hpost.coupled.ok hansw now na f2 hp2
    refine ⟨hpost.stageC_of_requests hr, ?_⟩
    intro r rc' hg hp
    rw [hr.ph] at hp
    obtain ⟨rc, hx, a1, a2, _⟩ := hr.keyIds_sub hg
    have hne : rc.parent ≠ (x.sync now na f1).ph := fun h => hp (a1.trans h)
    rw [a2 hne]
    exact hoth1 r rc hx hne

/-- Activation, then requests, from a calm pair: converged. -/
theorem conv_from_stageC {y : Pair} {now na : Int} (hC : StageC y now na) (hoth : OtherAct y.child.ca y.ph)
    (na' : Int) (f : List KeyId) : Conv ((y.activate na').sync now na f) now na := by
  have hD := hC.activate hoth na'
  show Conv (({ y with child := y.child.next (.keyrollActivate na') } : Pair).sync now na f) now na
  cases hp : ({ y with child := y.child.next (.keyrollActivate na') } : Pair).child.ca.hasPendingRequests y.ph with
  | false =>
    have hconv := hD.conv_of_quiet hp
    rw [hconv.sync_eq f]; exact hconv
  | true =>
    have hansw : Answerable ({ y with child := y.child.next (.keyrollActivate na') } : Pair) := by
      intro r rc hg hp _
      obtain ⟨R, _, hoff, _⟩ := hD.cls r rc hg hp
      exact ⟨R, offers_answer hD.coupled.names hoff⟩
    exact hD.conv_of_requests (syncR2_spec hD.coupled.inv hD.coupled.ok hansw now na f hp)

/-- The schedule sync, sync, sync, activate, sync from ANY coupled pair, a key roll of the child in
any stage included: converged.  New keys are needed by the sync that fetches the entitlements. -/
theorem converges_roll {x : Pair} (hc : Coupled2 x) (hoth : OtherAct x.child.ca x.ph) (hansw : Answerable x)
    (now na na' : Int) (f1 f2 f3 f4 : List KeyId)
    (hf : if x.child.ca.hasPendingRequests x.ph then x.parent.ca.classes.length ≤ f2.length ∧ FreshOk x f2
      else x.newClasses na ≤ f1.length ∧ FreshOk x f1) :
    Conv (((((x.sync now na f1).sync now na f2).sync now na f3).activate na').sync now na f4) now na := by
  cases hpend : x.child.ca.hasPendingRequests x.ph with
  | false =>
    simp only [hpend, Bool.false_eq_true, if_false] at hf
    obtain ⟨hC, hoth2⟩ := stageC_from_quiet hc hoth now na f1 f2 hpend hf.1 hf.2
    rw [hC.sync_eq f3]
    exact conv_from_stageC hC hoth2 na' f4
  | true =>
    simp only [hpend, if_true] at hf
    have hr := syncR2_spec hc.inv hc.ok hansw now na f1 hpend
    have hc1 := hr.coupled hc
    have hlen : (x.sync now na f1).parent.ca.classes.length = x.parent.ca.classes.length :=
      hr.same.classes_length (reachable_inv hc.inv.base.rp).core.nodup (reachable_inv hr.inv.base.rp).core.nodup
    have hoth1 : OtherAct (x.sync now na f1).child.ca (x.sync now na f1).ph := by
      intro r rc' hg hp
      rw [hr.ph] at hp
      obtain ⟨rc, hx, a1, a2, _⟩ := hr.keyIds_sub hg
      have hne : rc.parent ≠ x.ph := fun h => hp (a1.trans h)
      rw [a2 hne]
      exact hoth r rc hx hne
    have hfresh1 : FreshOk (x.sync now na f1) f2 := by
      refine ⟨hf.2.1, ?_⟩
      intro k hk r rc' hg hp hmem
      rw [hr.ph] at hp
      obtain ⟨rc, hx, a1, _, a3⟩ := hr.keyIds_sub hg
      exact hf.2.2 k hk r rc hx (a1.symm.trans hp) (a3 k hmem)
    obtain ⟨hC, hoth2⟩ := stageC_from_quiet hc1 hoth1 now na f2 f3 (hr.quiet hc.ok)
      (Nat.le_trans (newClasses_le _ _) (by rw [hlen]; exact hf.1)) hfresh1
    exact conv_from_stageC hC hoth2 na' f4

/-! ## The hypotheses as decidable predicates on the pair -/

/-- Request flags are where the code can put them and the keys of a class are pairwise
different (`KeyState.wf`), in every class under the parent. -/
def Pair.keysWellFormed (x : Pair) : Bool :=
  x.child.ca.classes.all fun q => decide (q.2.parent ≠ x.ph) || q.2.keys.wf

/-- No key identifier occurs in two classes under the parent (keys are created by the signer). -/
def Pair.keysDistinct (x : Pair) : Bool :=
  x.child.ca.classes.all fun q1 => x.child.ca.classes.all fun q2 =>
    decide (q1.1 = q2.1) || decide (q1.2.parent ≠ x.ph) || decide (q2.2.parent ≠ x.ph) ||
      q1.2.keys.keyIds.all fun k => !q2.2.keys.keyIds.contains k

/-- The key a roll in progress is going to revoke is still in use at the parent, in the class the
child's class name stands for: the parent did not revoke it on its own side (by shrinking its
own certificate to nothing of the child's, or removing the child).  Since fix 7be8c4c6 this is
stronger than the code needs: a key the parent marked `Revoked` itself is confirmed as well
(`C02.sync_converges_after_parent_side_revocation` – the pair the hypothesis was introduced for
now converges).  It cannot be dropped altogether: a key the parent has NO record of (child removed
and added again during the roll) is still refused and the child is stuck
(`C02.sync_stuck_after_child_readded`, replayed: corpus/system-findings/c02-f2-child-readded-during-roll.ops).
The hypothesis is kept in this form because the proof of the request branch (`classRequests_gen`,
`revoke_stored`, the in-use bookkeeping `UsedRel` / `Answered2.inuse`) follows the key as IN USE
up to the revocation; weakening it to "in use or revoked" means a second arm through all of
these and was not done. -/
def Pair.noParentSideRevocation (x : Pair) : Bool :=
  x.child.ca.classes.all fun q => decide (q.2.parent ≠ x.ph) || q.2.keys.leaving.all fun k =>
    match get x.parent.ca.children x.ch with
    | some c => decide (get c.usedKeys k = some (.inUse (c.nameInParent q.2.parentRcn)))
    | none => false

/-- The child has no suspended child certificates. -/
def Pair.noSuspendedCerts (x : Pair) : Bool := x.child.ca.classes.all fun q => q.2.certs.suspended.isEmpty

/-- No class under ANOTHER parent has a new key waiting for activation (`KeyRollActivate` is one
command for all classes and is refused as a whole while any new key has an open request). -/
def Pair.othersNotActivating (x : Pair) : Bool :=
  x.child.ca.classes.all fun q => decide (q.2.parent = x.ph) || decide (q.2.keys.variant ≠ .rollNew)

/-- `certsOnFile` for every key that stays (the current key, the new key of a roll). -/
def Pair.stayingCertsOnFile (x : Pair) : Bool :=
  x.child.ca.classes.all fun q => decide (q.2.parent ≠ x.ph) || q.2.keys.staying.all fun k =>
    match x.parent.ca.answer x.ch q.2.parentRcn with
    | some R => !seteq k.cert.res R ||
      (match x.parent.ca.issuedFor x.ch q.2.parentRcn k.id with
        | some cc => seteq cc.res R
        | none => false)
    | none => true

/-- The coupling of a parent/child pair with a key roll of the child possibly in progress,
decidable. -/
def Pair.coupledRoll (x : Pair) : Bool :=
  x.childHasRepo && x.mappingInjective && x.noRequestLimits && x.classNamesDistinct && x.stayingCertsOnFile &&
  x.keysWellFormed && x.keysDistinct && x.noParentSideRevocation && x.noSuspendedCerts && x.othersNotActivating

/-- The new keys are new (decidable form of `FreshOk`). -/
def Pair.freshOk (x : Pair) (fresh : List KeyId) : Bool :=
  decide fresh.Nodup && fresh.all fun k => x.child.ca.classes.all fun q =>
    decide (q.2.parent ≠ x.ph) || !q.2.keys.keyIds.contains k

theorem freshOk_of_bool {x : Pair} {fresh : List KeyId} (h : x.freshOk fresh = true) : FreshOk x fresh := by
  simp only [Pair.freshOk, Bool.and_eq_true, decide_eq_true_eq, List.all_eq_true, Bool.or_eq_true,
    Bool.not_eq_true'] at h
  refine ⟨h.1, ?_⟩
  intro k hk r rc hg hp hmem
  rcases h.2 k hk (r, rc) (mem_of_get hg) with h1 | h1
  · exact h1 hp
  · have := List.contains_iff_mem.mpr hmem
    rw [h1] at this; cases this

theorem coupled2_of_bool {x : Pair} (hp : Reachable x.parent) (hc : Reachable x.child)
    (h : x.coupledRoll = true) : Coupled2 x ∧ OtherAct x.child.ca x.ph := by
  simp only [Pair.coupledRoll, Bool.and_eq_true] at h
  obtain ⟨⟨⟨⟨⟨⟨⟨⟨⟨h1, h2⟩, h3⟩, h4⟩, h5⟩, h6⟩, h7⟩, h8⟩, h9⟩, h10⟩ := h
  refine ⟨⟨⟨⟨hp, hc, h1, ?_⟩, ?_⟩, h2, ?_, ⟨?_, ?_, ?_⟩, ?_⟩, ?_⟩
  · intro r rc hg e he
    simp only [Pair.noRequestLimits, List.all_eq_true] at h3
    have := h3 (r, rc) (mem_of_get hg) e he
    cases hl : e.2.limit with
    | none => rfl
    | some l => rw [hl] at this; cases this
  · intro r rc hg
    simp only [Pair.noSuspendedCerts, List.all_eq_true, List.isEmpty_iff] at h9
    exact h9 (r, rc) (mem_of_get hg)
  · intro r1 r2 rc1 rc2 hg1 hg2 hp1 hp2 hname
    simp only [Pair.classNamesDistinct, decide_eq_true_eq] at h4
    have h1m : (r1, rc1) ∈ x.child.ca.classes.filter fun q => q.2.parent = x.ph :=
      List.mem_filter.mpr ⟨mem_of_get hg1, by simpa using hp1⟩
    have h2m : (r2, rc2) ∈ x.child.ca.classes.filter fun q => q.2.parent = x.ph :=
      List.mem_filter.mpr ⟨mem_of_get hg2, by simpa using hp2⟩
    exact congrArg Prod.fst (eq_of_nodup_map (fun q : Rcn × Rc => q.2.parentRcn) h4 h1m h2m hname)
  · intro r rc hg hpar
    simp only [Pair.keysWellFormed, List.all_eq_true, Bool.or_eq_true, decide_eq_true_eq] at h6
    rcases h6 (r, rc) (mem_of_get hg) with h | h
    · exact absurd hpar h
    · exact h
  · intro r1 r2 rc1 rc2 k hg1 hg2 hp1 hp2 hk1 hk2
    simp only [Pair.keysDistinct, List.all_eq_true, Bool.or_eq_true, decide_eq_true_eq, Bool.not_eq_true'] at h7
    rcases h7 (r1, rc1) (mem_of_get hg1) (r2, rc2) (mem_of_get hg2) with ((h | h) | h) | h
    · exact h
    · exact absurd hp1 h
    · exact absurd hp2 h
    · have := List.contains_iff_mem.mpr hk2
      rw [h k hk1] at this; cases this
  · intro r rc hg hpar k hk
    simp only [Pair.noParentSideRevocation, List.all_eq_true, Bool.or_eq_true, decide_eq_true_eq] at h8
    rcases h8 (r, rc) (mem_of_get hg) with h | h
    · exact absurd hpar h
    · have := h k hk
      cases hcx : get x.parent.ca.children x.ch with
      | none => rw [hcx] at this; cases this
      | some c => rw [hcx] at this; exact ⟨c, hcx, by simpa using this⟩
  · intro r rc k R hg hpar hk ha hse
    simp only [Pair.stayingCertsOnFile, List.all_eq_true, Bool.or_eq_true, decide_eq_true_eq] at h5
    rcases h5 (r, rc) (mem_of_get hg) with h | h
    · exact absurd hpar h
    · have := h k hk
      simp only [ha, hse, Bool.not_true, Bool.false_or] at this
      cases hi : x.parent.ca.issuedFor x.ch rc.parentRcn k.id with
      | none => rw [hi] at this; cases this
      | some cc => rw [hi] at this; exact ⟨cc, rfl, this⟩
  · intro r rc hg hpar
    simp only [Pair.othersNotActivating, List.all_eq_true, Bool.or_eq_true, decide_eq_true_eq] at h10
    rcases h10 (r, rc) (mem_of_get hg) with h | h
    · exact absurd h hpar
    · cases hk : rc.keys with
      | rollNew n c => rw [hk] at h; exact absurd rfl h
      | pending _ => simp only [Rc.activatable, hk]
      | active _ => simp only [Rc.activatable, hk]
      | rollPending _ _ => simp only [Rc.activatable, hk]
      | rollOld _ _ => simp only [Rc.activatable, hk]

end KM.CaK
