/-
Helper lemmas for C02: the exact effect of the shrink of over-claiming child certificates on
the `issued` map of a class without stale suspended entries.  No property statements.
-/
import KrillModel.Ca.LemmasActivate
namespace KM.CaK
open KM.Res KM.AMap

theorem issued_foldl_addIssued (l : List (KeyId × ChildCert)) (cs : ChildCerts) :
    (l.foldl ChildCerts.addIssued cs).issued = l.foldl (fun m a => set m a.1 a.2) cs.issued := by
  induction l generalizing cs with
  | nil => rfl
  | cons p t ih => simp only [List.foldl_cons, ih, ChildCerts.addIssued]

theorem issued_foldl_removeRevoked (l : List KeyId) (cs : ChildCerts) :
    (l.foldl ChildCerts.removeRevoked cs).issued = l.foldl (fun m a => del m a) cs.issued := by
  induction l generalizing cs with
  | nil => rfl
  | cons p t ih => simp only [List.foldl_cons, ih, ChildCerts.removeRevoked]

theorem issued_foldl_suspend (l : List (KeyId × ChildCert)) (cs : ChildCerts) :
    (l.foldl ChildCerts.suspend cs).issued = (l.map (·.1)).foldl (fun m a => del m a) cs.issued := by
  induction l generalizing cs with
  | nil => rfl
  | cons p t ih => simp only [List.foldl_cons, ih, ChildCerts.suspend, List.map_cons]

/-- The issued map after an update without un-suspensions, exactly. -/
theorem applyUpd_issued_get (cs : ChildCerts) (u : CertUpd) (hu : u.unsuspended = []) (k : KeyId) :
    get (cs.applyUpd u).issued k =
      if k ∈ u.suspended.map (·.1) then none
      else if k ∈ u.removed then none
      else (lastOf u.issued k).orElse (fun _ => get cs.issued k) := by
  simp only [ChildCerts.applyUpd, hu, List.foldl_nil, issued_foldl_suspend, issued_foldl_removeRevoked,
    issued_foldl_addIssued, get_foldl_delK, get_foldl_set]

/-- `shrinkList`, exactly, on a list with pairwise different keys. -/
theorem shrinkList_exact {l : List (KeyId × ChildCert)} {rcvd : Cert} {na : Int}
    {iss : List (KeyId × ChildCert)} {rem : List KeyId} (hnd : (l.map (·.1)).Nodup)
    (h : shrinkList l rcvd na = .ok (iss, rem)) :
    ∀ p ∈ l,
      (subset p.2.res rcvd.res = true → lastOf iss p.1 = none ∧ p.1 ∉ rem) ∧
      (subset p.2.res rcvd.res = false → isEmpty (inter rcvd.res p.2.res) = true →
        lastOf iss p.1 = none ∧ p.1 ∈ rem) ∧
      (subset p.2.res rcvd.res = false → isEmpty (inter rcvd.res p.2.res) = false →
        ∃ cc', lastOf iss p.1 = some cc' ∧ reissue p.2 (some (inter rcvd.res p.2.res)) rcvd na = .ok cc' ∧
          p.1 ∉ rem) := by
  induction l generalizing iss rem with
  | nil => intro p hp; cases hp
  | cons q t ih =>
    obtain ⟨k, cc⟩ := q
    simp only [List.map_cons, List.nodup_cons] at hnd
    obtain ⟨hk_notin, hnd_t⟩ := hnd
    -- keys produced for the tail are keys of the tail
    have tailKeys : ∀ {iss' : List (KeyId × ChildCert)} {rem' : List KeyId},
        shrinkList t rcvd na = .ok (iss', rem') → lastOf iss' k = none ∧ k ∉ rem' := by
      intro iss' rem' ht
      obtain ⟨_, _, h3⟩ := shrinkList_spec ht
      refine ⟨?_, fun hm => hk_notin (h3 k (Or.inl hm))⟩
      cases hl : lastOf iss' k with
      | none => rfl
      | some x =>
        have := (lastOf_isSome_iff iss' k).mp (by simp [hl])
        exact absurd (h3 k (Or.inr this)) hk_notin
    simp only [shrinkList] at h
    cases hr : cc.reduced rcvd.res with
    | none =>
      simp only [hr] at h
      have hsub : subset cc.res rcvd.res = true := by
        unfold ChildCert.reduced at hr
        split at hr
        · assumption
        · cases hr
      intro p hp
      rcases List.mem_cons.mp hp with rfl | hp
      · obtain ⟨h1, h2⟩ := tailKeys h
        exact ⟨fun _ => ⟨h1, h2⟩, fun hf => by simp [hsub] at hf, fun hf => by simp [hsub] at hf⟩
      · exact ih hnd_t h p hp
    | some r =>
      have hnsub : subset cc.res rcvd.res = false ∧ r = inter rcvd.res cc.res := by
        unfold ChildCert.reduced at hr
        split at hr
        · cases hr
        · rename_i hns
          simp only [Option.some.injEq] at hr
          exact ⟨by simpa using hns, hr.symm⟩
      obtain ⟨hns, rfl⟩ := hnsub
      simp only [hr] at h
      by_cases hemp : isEmpty (inter rcvd.res cc.res) = true
      · simp only [hemp, if_true] at h
        cases hrest : shrinkList t rcvd na with
        | error e => simp [hrest] at h
        | ok pr =>
          obtain ⟨iss', rem'⟩ := pr
          simp only [hrest, Except.ok.injEq, Prod.mk.injEq] at h
          obtain ⟨rfl, rfl⟩ := h
          obtain ⟨t1, _⟩ := tailKeys hrest
          intro p hp
          rcases List.mem_cons.mp hp with rfl | hp
          · refine ⟨fun hf => by simp [hns] at hf, fun _ _ => ⟨t1, List.mem_cons_self ..⟩, fun _ hf => by simp [hemp] at hf⟩
          · obtain ⟨a, b, c⟩ := ih hnd_t hrest p hp
            have hpk : p.1 ≠ k := fun he => hk_notin (he ▸ List.mem_map.mpr ⟨p, hp, rfl⟩)
            refine ⟨fun hs => ⟨(a hs).1, ?_⟩, fun hs he => ⟨(b hs he).1, List.mem_cons_of_mem _ (b hs he).2⟩, ?_⟩
            · simp only [List.mem_cons, not_or]; exact ⟨hpk, (a hs).2⟩
            · intro hs he
              obtain ⟨cc', h1, h2, h3⟩ := c hs he
              exact ⟨cc', h1, h2, by simp only [List.mem_cons, not_or]; exact ⟨hpk, h3⟩⟩
      · have hemp' : isEmpty (inter rcvd.res cc.res) = false := by simpa using hemp
        simp only [hemp, Bool.false_eq_true, if_false] at h
        cases hre : reissue cc (some (inter rcvd.res cc.res)) rcvd na with
        | error e => simp [hre] at h
        | ok c' =>
          simp only [hre] at h
          cases hrest : shrinkList t rcvd na with
          | error e => simp [hrest] at h
          | ok pr =>
            obtain ⟨iss', rem'⟩ := pr
            simp only [hrest, Except.ok.injEq, Prod.mk.injEq] at h
            obtain ⟨rfl, rfl⟩ := h
            obtain ⟨t1, t2⟩ := tailKeys hrest
            intro p hp
            rcases List.mem_cons.mp hp with rfl | hp
            · refine ⟨fun hf => by simp [hns] at hf, fun _ hf => by simp [hemp'] at hf, fun _ _ => ⟨c', ?_, hre, t2⟩⟩
              simp [lastOf, t1]
            · obtain ⟨a, b, c⟩ := ih hnd_t hrest p hp
              have hpk : k ≠ p.1 := fun he => hk_notin (he ▸ List.mem_map.mpr ⟨p, hp, rfl⟩)
              refine ⟨fun hs => ⟨?_, (a hs).2⟩, fun hs he => ⟨?_, (b hs he).2⟩, ?_⟩
              · simp [lastOf, (a hs).1, hpk]
              · simp [lastOf, (b hs he).1, hpk]
              · intro hs he
                obtain ⟨cc', h1, h2, h3⟩ := c hs he
                exact ⟨cc', by simp [lastOf, h1], h2, h3⟩

end KM.CaK
