/-
Model of the derivation of signed objects from configuration inside one resource class:

* `src/server/ca/roa.rs`    `Roas::{create_updates, mode, update_simple, update_aggregate,
                             update_start_aggregating, update_stop_aggregating, create_renewal,
                             apply_updates}`, `Routes::{filter, to_aggregates}`
* `src/server/ca/aspa.rs`   `AspaObjects::{create_updates, create_renewal, apply_updates}`
* `src/server/ca/bgpsec.rs` `BgpSecCertificates::{create_updates, create_renewal, apply_updates}`

What is abstracted: signing.  A freshly made object is described by an `ObjMeta` (name, serial,
expiry, hash) that the model takes as an *input* (`mint…` functions); everything the code decides
(which objects to make, replace, remove, in which aggregation mode) is computed by the model.
Hash maps are association lists with unique keys (`PubBase`).  Prefixes are real bit prefixes
(`addr`/`len`); resource sets are whole *atoms* as the correspondence harness hands them out
(atom i = AS 64512+i, 10.i.0.0/16, 2001:db8:i::/48) or "everything" (the TA).  The theorems in
`Props/C01.lean` are stated for an arbitrary cover predicate.

Quirks kept: the mode decision uses the *current* mode (hysteresis) and the two thresholds with
`<` and `>`; `total = 0` never switches mode; in `Aggregate` mode simple ROAs are not touched and
in `Simple` mode aggregates (other than through `StopAggregating`) are not touched; an existing
aggregate is re-issued only if its set of authorisations differs (the code compares sorted
vectors of distinct keys – the model compares as sets); BGPsec certificates are only issued for
keys that have none (a changed CSR for the same key does not re-issue).

Import-free so that the driver can be compiled as a `lean_exe`.
-/
import KrillModel.Ca.PubBase
namespace KM.Ca.Pub

/-! ### Payloads and resources -/

/-- A route authorisation with explicit max length (`RoaPayloadJsonMapKey`). -/
structure Payload where
  asn    : Nat
  v6     : Bool
  addr   : Nat
  len    : Nat
  maxLen : Nat
deriving DecidableEq, Repr, Inhabited

/-- Resources of a received certificate as the harness hands them out. -/
inductive Res where
  | all
  | atoms (l : List Nat)
deriving DecidableEq, Repr, Inhabited

/-- Index of the /16 block `10.i.0.0/16`. -/
def atomBlock4 (i : Nat) : Nat := 10 * 256 + i
/-- Index of the /48 block `2001:db8:i::/48`. -/
def atomBlock6 (i : Nat) : Nat := 0x20010db8 * 65536 + i

/-- The /16 (IPv4) or /48 (IPv6) blocks a prefix spans. -/
def Payload.blocks (p : Payload) : List Nat :=
  let width := if p.v6 then 128 else 32
  let base := if p.v6 then 48 else 16
  let first := p.addr / 2 ^ (width - base)
  if p.len ≥ base then [first] else (List.range (2 ^ (base - p.len))).map (first + ·)

/-- `ResourceSet::contains_roa_address`. -/
def Res.coversPfx : Res → Payload → Bool
  | .all, _ => true
  | .atoms l, p =>
    p.blocks.all fun b => l.any fun i => (if p.v6 then atomBlock6 i else atomBlock4 i) == b

/-- `ResourceSet::contains_asn`. -/
def Res.hasAsn : Res → Nat → Bool
  | .all, _ => true
  | .atoms l, a => l.any fun i => 64512 + i == a

/-! ### Signed-object meta data (inputs) -/

/-- What the rest of the system needs to know about a freshly signed object. -/
structure ObjMeta where
  name    : Nat
  serial  : Nat
  expires : Nat
  hash    : Nat
deriving DecidableEq, Repr, Inhabited

/-! ### ROAs -/

structure RoaInfo where
  auths : List Payload
  obj   : ObjMeta
deriving DecidableEq, Repr, Inhabited

/-- `RoaAggregateKey`. -/
structure AggKey where
  asn   : Nat
  group : Option Nat
deriving DecidableEq, Repr, Inhabited

/-- `Roas`: the ROA objects of a resource class. -/
structure Roas where
  simple : List (Payload × RoaInfo) := []
  agg    : List (AggKey × RoaInfo) := []
deriving DecidableEq, Repr, Inhabited

inductive RoaMode where
  | simple | stopAggregating | startAggregating | aggregate
deriving DecidableEq, Repr, Inhabited

/-- `Roas::is_currently_aggregating`. -/
def Roas.isAggregating (r : Roas) : Bool := r.agg.any fun e => e.1.group.isNone

/-- `Roas::mode` (roa.rs:567-603). -/
def Roas.mode (r : Roas) (total deagg agg : Nat) : RoaMode :=
  if total = 0 then
    if r.isAggregating then .aggregate else .simple
  else if r.isAggregating then
    if total < deagg then .stopAggregating else .aggregate
  else if total > agg then .startAggregating
  else .simple

/-- `RoaUpdates`. -/
structure RoaUpdates where
  updated    : List (Payload × RoaInfo) := []
  removed    : List Payload := []
  aggUpdated : List (AggKey × RoaInfo) := []
  aggRemoved : List AggKey := []
deriving DecidableEq, Repr, Inhabited

def RoaUpdates.isEmpty (u : RoaUpdates) : Bool :=
  u.updated.isEmpty && u.removed.isEmpty && u.aggUpdated.isEmpty && u.aggRemoved.isEmpty

/-- `Roas::apply_updates` (insert the updated, then remove the removed; per map). -/
def Roas.apply (r : Roas) (u : RoaUpdates) : Roas :=
  { simple := eraseAll (putAll r.simple u.updated) u.removed
    agg := eraseAll (putAll r.agg u.aggUpdated) u.aggRemoved }

/-- `Routes::filter`: the routes whose prefix the certificate covers. -/
def relevant (cov : Payload → Bool) (routes : List Payload) : List Payload := routes.filter cov

/-- `Routes::to_aggregates`: one entry per origin AS (group `None`). -/
def toAggregates (rel : List Payload) : List (AggKey × List Payload) :=
  (dedup (rel.map (·.asn))).map fun a => (⟨a, none⟩, rel.filter fun p => p.asn = a)

/-- The objects the code decides to make, before signing. -/
structure RoaPlan where
  updated    : List Payload := []
  removed    : List Payload := []
  aggUpdated : List (AggKey × List Payload) := []
  aggRemoved : List AggKey := []
deriving DecidableEq, Repr, Inhabited

def RoaPlan.isEmpty (u : RoaPlan) : Bool :=
  u.updated.isEmpty && u.removed.isEmpty && u.aggUpdated.isEmpty && u.aggRemoved.isEmpty

/-- `update_simple`. -/
def Roas.planSimple (r : Roas) (rel : List Payload) : RoaPlan :=
  { updated := rel.filter fun p => !has r.simple p
    removed := (keys r.simple).filter fun p => decide (p ∉ rel) }

/-- Does an existing aggregate have to be replaced? -/
def needsAgg (r : Roas) (d : AggKey × List Payload) : Bool :=
  match get? r.agg d.1 with
  | some ex => !sameMembers d.2 ex.auths
  | none => true

/-- `update_aggregate`. -/
def Roas.planAggregate (r : Roas) (rel : List Payload) : RoaPlan :=
  let desired := toAggregates rel
  { aggUpdated := desired.filter (needsAgg r)
    aggRemoved := (keys r.agg).filter fun k => decide (k ∉ keys desired) }

/-- `update_stop_aggregating`. -/
def Roas.planStop (r : Roas) (rel : List Payload) : RoaPlan :=
  { r.planSimple rel with aggRemoved := keys r.agg }

/-- `update_start_aggregating`. -/
def Roas.planStart (r : Roas) (rel : List Payload) : RoaPlan :=
  { r.planAggregate rel with removed := keys r.simple }

/-- `Roas::create_updates` up to signing. -/
def Roas.plan (r : Roas) (cov : Payload → Bool) (routes : List Payload) (deagg agg : Nat) : RoaPlan :=
  let rel := relevant cov routes
  match r.mode rel.length deagg agg with
  | .simple => r.planSimple rel
  | .stopAggregating => r.planStop rel
  | .startAggregating => r.planStart rel
  | .aggregate => r.planAggregate rel

/-- Signing: every planned object gets its meta data from the environment. -/
def RoaPlan.sign (p : RoaPlan) (mintS : Payload → ObjMeta) (mintA : AggKey → ObjMeta) : RoaUpdates :=
  { updated := p.updated.map fun a => (a, ⟨[a], mintS a⟩)
    removed := p.removed
    aggUpdated := p.aggUpdated.map fun d => (d.1, ⟨d.2, mintA d.1⟩)
    aggRemoved := p.aggRemoved }

/-- `Roas::create_updates`. -/
def Roas.createUpdates (r : Roas) (cov : Payload → Bool) (routes : List Payload) (deagg agg : Nat)
    (mintS : Payload → ObjMeta) (mintA : AggKey → ObjMeta) : RoaUpdates :=
  (r.plan cov routes deagg agg).sign mintS mintA

/-- `Roas::create_renewal` up to signing: everything if forced, else what expires before the
threshold (`expires < now + reissue_weeks`). -/
def Roas.planRenewal (r : Roas) (force : Bool) (threshold : Nat) : RoaPlan :=
  { updated := (r.simple.filter fun e => force || decide (e.2.obj.expires < threshold)).map (·.1)
    aggUpdated := (r.agg.filter fun e => force || decide (e.2.obj.expires < threshold)).map
      fun e => (e.1, e.2.auths) }

def Roas.createRenewal (r : Roas) (force : Bool) (threshold : Nat)
    (mintS : Payload → ObjMeta) (mintA : AggKey → ObjMeta) : RoaUpdates :=
  (r.planRenewal force threshold).sign mintS mintA

/-- All payloads in the objects, object by object. -/
def Roas.payloads (r : Roas) : List Payload :=
  r.simple.flatMap (·.2.auths) ++ r.agg.flatMap (·.2.auths)

/-- All objects (names, serials, …). -/
def Roas.objects (r : Roas) : List ObjMeta := r.simple.map (·.2.obj) ++ r.agg.map (·.2.obj)

/-- Representation invariant of reachable `Roas` values. -/
structure Roas.WF (r : Roas) : Prop where
  simpleKeys : (keys r.simple).Nodup
  aggKeys    : (keys r.agg).Nodup
  simpleAuth : ∀ e ∈ r.simple, e.2.auths = [e.1]
  aggGroup   : ∀ e ∈ r.agg, e.1.group = none
  aggAsn     : ∀ e ∈ r.agg, ∀ p ∈ e.2.auths, p.asn = e.1.asn
  aggNodup   : ∀ e ∈ r.agg, e.2.auths.Nodup
  aggNonempty : ∀ e ∈ r.agg, e.2.auths ≠ []
  exclusive  : r.simple = [] ∨ r.agg = []

/-! ### ASPA objects -/

structure AspaDefn where
  customer  : Nat
  providers : List Nat
deriving DecidableEq, Repr, Inhabited

structure AspaInfo where
  defn : AspaDefn
  obj  : ObjMeta
deriving DecidableEq, Repr, Inhabited

/-- `AspaObjects` (keyed by customer AS). -/
abbrev AspaObjects := List (Nat × AspaInfo)

structure AspaPlan where
  updated : List AspaDefn := []
  removed : List Nat := []
deriving DecidableEq, Repr, Inhabited

def AspaPlan.isEmpty (p : AspaPlan) : Bool := p.updated.isEmpty && p.removed.isEmpty

/-- `AspaObjects::create_updates` up to signing.  `defs` is the CA's definition map
(unique customers). -/
def aspaPlan (objs : AspaObjects) (hasAsn : Nat → Bool) (defs : List AspaDefn) : AspaPlan :=
  { updated := defs.filter fun d =>
      hasAsn d.customer && (match get? objs d.customer with
        | some ex => decide (ex.defn ≠ d)
        | none => true)
    removed := (keys objs).filter fun c =>
      !(decide (c ∈ defs.map (·.customer))) || !hasAsn c }

/-- `AspaObjects::create_renewal`: `threshold = none` renews everything. -/
def aspaRenewalPlan (objs : AspaObjects) (threshold : Option Nat) : AspaPlan :=
  { updated := (objs.filter fun e => match threshold with
      | some t => decide (e.2.obj.expires < t)
      | none => true).map (·.2.defn) }

structure AspaUpdates where
  updated : List AspaInfo := []
  removed : List Nat := []
deriving DecidableEq, Repr, Inhabited

def AspaPlan.sign (p : AspaPlan) (mint : AspaDefn → ObjMeta) : AspaUpdates :=
  { updated := p.updated.map fun d => ⟨d, mint d⟩, removed := p.removed }

/-- `AspaObjects::apply_updates`. -/
def aspaApply (objs : AspaObjects) (u : AspaUpdates) : AspaObjects :=
  eraseAll (putAll objs (u.updated.map fun i => (i.defn.customer, i))) u.removed

def aspaCreateUpdates (objs : AspaObjects) (hasAsn : Nat → Bool) (defs : List AspaDefn)
    (mint : AspaDefn → ObjMeta) : AspaUpdates :=
  (aspaPlan objs hasAsn defs).sign mint

/-- Representation invariant: the key of an entry is its customer. -/
def AspaWF (objs : AspaObjects) : Prop :=
  (keys objs).Nodup ∧ ∀ e ∈ objs, e.2.defn.customer = e.1

/-! ### BGPsec router certificates -/

/-- `BgpSecAsnKey`. -/
structure RouterKey where
  asn : Nat
  key : Nat
deriving DecidableEq, Repr, Inhabited

/-- `BgpSecCertificates` (keyed by AS and router key). -/
abbrev RouterCerts := List (RouterKey × ObjMeta)

structure RouterPlan where
  updated : List RouterKey := []
  removed : List RouterKey := []
deriving DecidableEq, Repr, Inhabited

def RouterPlan.isEmpty (p : RouterPlan) : Bool := p.updated.isEmpty && p.removed.isEmpty

/-- `BgpSecCertificates::create_updates` up to signing. -/
def routerPlan (certs : RouterCerts) (hasAsn : Nat → Bool) (defs : List RouterKey) : RouterPlan :=
  { updated := defs.filter fun k => !has certs k && hasAsn k.asn
    removed := (keys certs).filter fun k => !(decide (k ∈ defs)) || !hasAsn k.asn }

/-- `BgpSecCertificates::create_renewal`. -/
def routerRenewalPlan (certs : RouterCerts) (threshold : Option Nat) : RouterPlan :=
  { updated := (certs.filter fun e => match threshold with
      | some t => decide (e.2.expires < t)
      | none => true).map (·.1) }

structure RouterUpdates where
  updated : List (RouterKey × ObjMeta) := []
  removed : List RouterKey := []
deriving DecidableEq, Repr, Inhabited

def RouterPlan.sign (p : RouterPlan) (mint : RouterKey → ObjMeta) : RouterUpdates :=
  { updated := p.updated.map fun k => (k, mint k), removed := p.removed }

/-- `BgpSecCertificates::apply_updates`. -/
def routerApply (certs : RouterCerts) (u : RouterUpdates) : RouterCerts :=
  eraseAll (putAll certs u.updated) u.removed

def routerCreateUpdates (certs : RouterCerts) (hasAsn : Nat → Bool) (defs : List RouterKey)
    (mint : RouterKey → ObjMeta) : RouterUpdates :=
  (routerPlan certs hasAsn defs).sign mint

end KM.Ca.Pub
