/-
Model of `BgpSecDefinitions::process_updates` (`src/server/ca/bgpsec.rs:98-171`) with the
BGPsec definition events of `CertAuth::apply` (`certauth.rs:629-639`), and of the child
checks `CertAuth::process_child_add`, `process_child_update_resources`,
`process_child_update_id_cert` (`certauth.rs:1110-1133, 1225-1295`) with the manager-level
`CaManager::ca_child_update` (`manager.rs:917-968`) as the *sequence* of commands it issues.

Abstractions.
* A CSR is an opaque token (`csr : Nat` stands for its bytes) with two observable
  attributes supplied by the harness: the key identifier of its public key and whether
  `verify_signature()` succeeds.
* `StoredBgpSecCsr` contains `since: Time::now()` (full clock resolution in memory);
  `stored_csr != &csr` therefore also compares the time the *earlier* request was processed
  with the current time, so re-submitting an identical definition is an update, not a no-op.
  The model keeps `since`, takes the clock reading `now` of the first addition as a
  parameter and lets the clock tick once per addition.
* Resource sets are normalised lists of inclusive ranges per type (ASN, IPv4, IPv6), as
  rpki-rs keeps them; `contains` asks every range of the right-hand side to lie within one
  range of the left-hand side.  rpki-rs's block arithmetic is not modelled (its output is
  what the harness prints).

Import-free so that the driver can be compiled as a `lean_exe`.
-/
import KrillModel.Ca.Resources
namespace KM.Ca

/-! ## BGPsec -/

/-- `BgpSecAsnKey` -/
structure BgpsecKey where
  asn : Nat
  key : Nat
deriving DecidableEq, Repr, Inhabited

/-- `StoredBgpSecCsr` (the public key is a function of the CSR). -/
structure StoredCsr where
  since : Nat
  csr   : Nat
deriving DecidableEq, Repr, Inhabited

/-- `BgpSecDefinition` as far as `process_updates` looks at it. -/
structure BgpsecDef where
  asn   : Nat
  key   : Nat
  csr   : Nat
  /-- `csr.verify_signature().is_ok()` -/
  valid : Bool
deriving DecidableEq, Repr, Inhabited

abbrev BgpsecDefs := List (BgpsecKey × StoredCsr)

namespace BgpsecDefs

def get? (s : BgpsecDefs) (k : BgpsecKey) : Option StoredCsr :=
  (s.find? (fun e => e.1 == k)).map (·.2)

def has (s : BgpsecDefs) (k : BgpsecKey) : Bool := s.any (fun e => e.1 == k)

def remove (s : BgpsecDefs) (k : BgpsecKey) : BgpsecDefs := s.filter (fun e => !(e.1 == k))

def addOrReplace (s : BgpsecDefs) (k : BgpsecKey) (c : StoredCsr) : BgpsecDefs :=
  (k, c) :: remove s k

end BgpsecDefs

inductive BgpsecEv where
  | added (k : BgpsecKey) (c : StoredCsr)
  | updated (k : BgpsecKey) (c : StoredCsr)
  | removed (k : BgpsecKey)
deriving DecidableEq, Repr, Inhabited

def applyBgpsecEv (s : BgpsecDefs) : BgpsecEv → BgpsecDefs
  | .added k c => s.addOrReplace k c
  | .updated k c => s.addOrReplace k c
  | .removed k => s.remove k

def applyBgpsecEvs (s : BgpsecDefs) (evs : List BgpsecEv) : BgpsecDefs := evs.foldl applyBgpsecEv s

inductive BgpsecErr where
  | unknown (k : BgpsecKey)
  | invalidlySigned (asn key : Nat)
  | notEntitled (k : BgpsecKey)
deriving DecidableEq, Repr, Inhabited

structure BgpsecUpdates where
  add    : List BgpsecDef
  remove : List BgpsecKey
deriving DecidableEq, Repr, Inhabited

def bgpsecRemoveStep (acc : BgpsecDefs × List BgpsecEv) (k : BgpsecKey) :
    Except BgpsecErr (BgpsecDefs × List BgpsecEv) :=
  if !(acc.1.has k) then .error (.unknown k)
  else .ok (acc.1.remove k, acc.2 ++ [.removed k])

/-- Body of the addition loop (bgpsec.rs:133-169); the third component of the accumulator
is the clock. -/
def bgpsecAddStep (holdsAsn : Nat → Bool) (acc : BgpsecDefs × List BgpsecEv × Nat)
    (d : BgpsecDef) : Except BgpsecErr (BgpsecDefs × List BgpsecEv × Nat) :=
  if !d.valid then .error (.invalidlySigned d.asn d.key)
  else
    let k : BgpsecKey := ⟨d.asn, d.key⟩
    let c : StoredCsr := ⟨acc.2.2, d.csr⟩
    if !(holdsAsn d.asn) then .error (.notEntitled k)
    else
      match acc.1.get? k with
      | some stored =>
        if stored != c then .ok (acc.1.addOrReplace k c, acc.2.1 ++ [.updated k c], acc.2.2 + 1)
        else .ok (acc.1, acc.2.1, acc.2.2 + 1)
      | none => .ok (acc.1.addOrReplace k c, acc.2.1 ++ [.added k c], acc.2.2 + 1)

def foldlE' {α β ε} (f : β → α → Except ε β) : β → List α → Except ε β
  | b, [] => .ok b
  | b, a :: as =>
    match f b a with
    | .error e => .error e
    | .ok b' => foldlE' f b' as

/-- `BgpSecDefinitions::process_updates` -/
def bgpsecProcessUpdates (s : BgpsecDefs) (holdsAsn : Nat → Bool) (now : Nat) (u : BgpsecUpdates) :
    Except BgpsecErr (BgpsecDefs × List BgpsecEv) :=
  match foldlE' bgpsecRemoveStep (s, []) u.remove with
  | .error e => .error e
  | .ok acc =>
    match foldlE' (bgpsecAddStep holdsAsn) (acc.1, acc.2, now) u.add with
    | .error e => .error e
    | .ok r => .ok (r.1, r.2.1)

def bgpsecCommand (s : BgpsecDefs) (holdsAsn : Nat → Bool) (now : Nat) (u : BgpsecUpdates) :
    BgpsecDefs :=
  match bgpsecProcessUpdates s holdsAsn now u with
  | .ok (_, evs) => applyBgpsecEvs s evs
  | .error _ => s

/-- One router-key update request: the update, the AS numbers held and the clock reading at
that moment. -/
structure BgpsecReq where
  holdsAsn : Nat → Bool
  now      : Nat
  upd      : BgpsecUpdates

/-- The definitions after a history of update requests. -/
def runBgpsec (s0 : BgpsecDefs) (h : List BgpsecReq) : BgpsecDefs :=
  h.foldl (fun s q => bgpsecCommand s q.holdsAsn q.now q.upd) s0

/-! ## Children -/

/-- `ChildDetails` as far as the checks look at it. -/
structure Child where
  idCert    : Nat
  resources : ResSet
deriving DecidableEq, Repr, Inhabited

abbrev Children := List (String × Child)

namespace Children
def get? (s : Children) (h : String) : Option Child := (s.find? (fun e => e.1 == h)).map (·.2)
def has (s : Children) (h : String) : Bool := s.any (fun e => e.1 == h)
def insert (s : Children) (h : String) (c : Child) : Children :=
  (h, c) :: s.filter (fun e => !(e.1 == h))
def modify (s : Children) (h : String) (f : Child → Child) : Children :=
  s.map (fun e => if e.1 == h then (e.1, f e.2) else e)
end Children

inductive ChildEv where
  | added (h : String) (id : Nat) (res : ResSet)
  | updatedResources (h : String) (res : ResSet)
  | updatedIdCert (h : String) (id : Nat)
deriving DecidableEq, Repr, Inhabited

def applyChildEv (s : Children) : ChildEv → Children
  | .added h id res => s.insert h ⟨id, res⟩
  | .updatedResources h res => s.modify h (fun c => { c with resources := res })
  | .updatedIdCert h id => s.modify h (fun c => { c with idCert := id })

def applyChildEvs (s : Children) (evs : List ChildEv) : Children := evs.foldl applyChildEv s

inductive ChildErr where
  | mustHaveResources
  | extraResources
  | duplicate
  | unknown
deriving DecidableEq, Repr, Inhabited

/-- `process_child_add` (certauth.rs:1110-1133) -/
def processChildAdd (all : ResSet) (s : Children) (h : String) (id : Nat) (res : ResSet) :
    Except ChildErr (List ChildEv) :=
  if res.isEmpty then .error .mustHaveResources
  else if !(all.contains res) then .error .extraResources
  else if s.has h then .error .duplicate
  else .ok [.added h id res]

/-- `process_child_update_resources` (certauth.rs:1225-1261) -/
def processChildUpdateResources (all : ResSet) (s : Children) (h : String) (res : ResSet) :
    Except ChildErr (List ChildEv) :=
  if !(all.contains res) then .error .extraResources
  else
    match s.get? h with
    | none => .error .unknown
    | some c => if res != c.resources then .ok [.updatedResources h res] else .ok []

/-- `process_child_update_id_cert` (certauth.rs:1266-1295) -/
def processChildUpdateIdCert (s : Children) (h : String) (id : Nat) :
    Except ChildErr (List ChildEv) :=
  match s.get? h with
  | none => .error .unknown
  | some c => if id != c.idCert then .ok [.updatedIdCert h id] else .ok []

/-- `UpdateChildRequest` restricted to the two fields whose commands are modelled here
(`suspend` and the class-name mapping are further commands after these two). -/
structure ChildUpdateReq where
  idCert    : Option Nat
  resources : Option ResSet
deriving DecidableEq, Repr, Inhabited

/-- `CaManager::ca_child_update` (manager.rs:917-968): one *command per field*, each stored
and applied on its own; the first refusal ends the request with `?`.  Returns the state
after the request and whether it was refused. -/
def caChildUpdate (all : ResSet) (s : Children) (h : String) (req : ChildUpdateReq) :
    Children × Option ChildErr :=
  let step1 : Children × Option ChildErr :=
    match req.idCert with
    | none => (s, none)
    | some id =>
      match processChildUpdateIdCert s h id with
      | .error e => (s, some e)
      | .ok evs => (applyChildEvs s evs, none)
  match step1 with
  | (s1, some e) => (s1, some e)
  | (s1, none) =>
    match req.resources with
    | none => (s1, none)
    | some res =>
      match processChildUpdateResources all s1 h res with
      | .error e => (s1, some e)
      | .ok evs => (applyChildEvs s1 evs, none)

end KM.Ca
